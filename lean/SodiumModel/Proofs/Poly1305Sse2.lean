import SodiumModel.Model.Poly1305Sse2
import SodiumModel.Proofs.Poly1305Donna
import SodiumModel.Proofs.Blake2bSimd
import SodiumModel.Spec.Poly1305
import Mathlib.Tactic.Ring
import Mathlib.Data.ZMod.Basic
/-
  Helper lemmas for Properties/C04PolySse2.lean: the SSE2 Poly1305 of poly1305_sse2.c
  (Model/Poly1305Sse2.lean) equals RFC 8439 §2.5.

  Layers:
   1. the intrinsics as functions on one 64-bit lane (`lane j`), `_mm_mul_epu32` = product of the low
      32-bit halves;
   2. the sections of `poly1305_blocks` (50-multiplication body, message loads, `reduce`) on one lane
      as computations over unbounded naturals under explicit limb bounds (no 64-bit overflow, no
      32-bit truncation in `_mm_mul_epu32`);
   3. limb values: the folded schoolbook product is the product modulo 2^130 − 5;
   4. `poly1305_init_ext` (r, r^2, r^4), the load/store of H and of the multiplier registers, the
      final lane addition / carry / `h − p` selection / pad addition;
   5. the simulation: `poly1305_blocks`, `poly1305_update`, `poly1305_finish_ext` against the Horner
      form of the specification, for every chunking.
-/
open Sodium Sodium.Model Sodium.Model.Poly1305Sse2
open Sodium.Model.Blake2bSimd (M128 _MM_SHUFFLE _mm_add_epi64 _mm_srli_epi64 _mm_slli_epi64
  _mm_shuffle_epi32 _mm_unpacklo_epi64)
open Sodium.Blake2bSimdP (pack2 dwOf pack2_toNat dwOf_toNat pack2_id)
namespace Sodium.Poly1305Sse2P

/-- 64-bit lane `j` (`false` = bits 63:0, `true` = bits 127:64) -/
def lane (j : Bool) (a : M128) : UInt64 := if j then a.q1 else a.q0

/-- the low 32 bits of a 64-bit lane, as a number -/
def lo32 (x : UInt64) : Nat := x.toNat % 2 ^ 32

/-- `_mm_mul_epu32` on one 64-bit lane -/
def m32 (a b : UInt64) : UInt64 := a.toUInt32.toUInt64 * b.toUInt32.toUInt64

theorem epi32_0 (a : M128) : a.epi32 0 = dwOf a.q0 0 := rfl
theorem epi32_1 (a : M128) : a.epi32 1 = dwOf a.q0 1 := rfl
theorem epi32_2 (a : M128) : a.epi32 2 = dwOf a.q1 0 := rfl
theorem epi32_3 (a : M128) : a.epi32 3 = dwOf a.q1 1 := rfl
theorem ofEpi32_eq (f : Nat → UInt32) : M128.ofEpi32 f = ⟨pack2 (f 0) (f 1), pack2 (f 2) (f 3)⟩ := rfl

theorem dwOf0 (x : UInt64) : dwOf x 0 = x.toUInt32 := by
  apply UInt32.toNat_inj.mp
  rw [dwOf_toNat x 0 (by omega)]
  simp [UInt64.toNat_toUInt32]
  have := x.toNat_lt
  omega

theorem lane_mul (j : Bool) (a b : M128) : lane j (_mm_mul_epu32 a b) = m32 (lane j a) (lane j b) := by
  cases j
  · show (dwOf a.q0 0).toUInt64 * (dwOf b.q0 0).toUInt64 = _
    rw [dwOf0, dwOf0]; rfl
  · show (dwOf a.q1 0).toUInt64 * (dwOf b.q1 0).toUInt64 = _
    rw [dwOf0, dwOf0]; rfl

theorem lane_add (j : Bool) (a b : M128) : lane j (_mm_add_epi64 a b) = lane j a + lane j b := by
  cases j <;> rfl
theorem lane_and (j : Bool) (a b : M128) : lane j (_mm_and_si128 a b) = lane j a &&& lane j b := by
  cases j <;> rfl
theorem lane_or (j : Bool) (a b : M128) : lane j (_mm_or_si128 a b) = lane j a ||| lane j b := by
  cases j <;> rfl
theorem lane_srli (j : Bool) (a : M128) (n : Nat) (h : n ≤ 63) :
    lane j (_mm_srli_epi64 a n) = lane j a >>> UInt64.ofNat n := by
  have e : n % 256 = n := by omega
  cases j <;> simp [lane, _mm_srli_epi64, M128.ofEpi64, M128.epi64, e] <;> omega
theorem lane_slli (j : Bool) (a : M128) (n : Nat) (h : n ≤ 63) :
    lane j (_mm_slli_epi64 a n) = lane j a <<< UInt64.ofNat n := by
  have e : n % 256 = n := by omega
  cases j <;> simp [lane, _mm_slli_epi64, M128.ofEpi64, M128.epi64, e] <;> omega

theorem m32_toNat (a b : UInt64) : (m32 a b).toNat = lo32 a * lo32 b := by
  have h1 : a.toNat % 2 ^ 32 < 2 ^ 32 := Nat.mod_lt _ (by decide)
  have h2 : b.toNat % 2 ^ 32 < 2 ^ 32 := Nat.mod_lt _ (by decide)
  have := Nat.mul_lt_mul'' h1 h2
  simp only [m32, lo32, UInt64.toNat_mul, UInt32.toNat_toUInt64, UInt64.toNat_toUInt32]
  omega


/-- the schoolbook product of five 26-bit limbs with the 2^130 ≡ 5 folding (`s_i = 5·k_i`) -/
def mulNat (h k : L5 Nat) : L5 Nat :=
  ⟨h.l0 * k.l0 + 5 * (h.l1 * k.l4) + 5 * (h.l2 * k.l3) + 5 * (h.l3 * k.l2) + 5 * (h.l4 * k.l1),
   h.l0 * k.l1 + h.l1 * k.l0 + 5 * (h.l2 * k.l4) + 5 * (h.l3 * k.l3) + 5 * (h.l4 * k.l2),
   h.l0 * k.l2 + h.l1 * k.l1 + h.l2 * k.l0 + 5 * (h.l3 * k.l4) + 5 * (h.l4 * k.l3),
   h.l0 * k.l3 + h.l1 * k.l2 + h.l2 * k.l1 + h.l3 * k.l0 + 5 * (h.l4 * k.l4),
   h.l0 * k.l4 + h.l1 * k.l3 + h.l2 * k.l2 + h.l3 * k.l1 + h.l4 * k.l0⟩

def hN (j : Bool) (H : L5 M128) : L5 Nat :=
  ⟨lo32 (lane j H.l0), lo32 (lane j H.l1), lo32 (lane j H.l2), lo32 (lane j H.l3), lo32 (lane j H.l4)⟩
def kN (j : Bool) (K : Mult) : L5 Nat :=
  ⟨lo32 (lane j K.R0), lo32 (lane j K.R1), lo32 (lane j K.R2), lo32 (lane j K.R3), lo32 (lane j K.R4)⟩
def SOK (j : Bool) (K : Mult) : Prop :=
  lo32 (lane j K.S1) = 5 * lo32 (lane j K.R1) ∧ lo32 (lane j K.S2) = 5 * lo32 (lane j K.R2) ∧
  lo32 (lane j K.S3) = 5 * lo32 (lane j K.R3) ∧ lo32 (lane j K.S4) = 5 * lo32 (lane j K.R4)
def Lt5 (h : L5 Nat) (b : Nat) : Prop := h.l0 < b ∧ h.l1 < b ∧ h.l2 < b ∧ h.l3 < b ∧ h.l4 < b
def toNat5 (j : Bool) (T : L5 M128) : L5 Nat :=
  ⟨(lane j T.l0).toNat, (lane j T.l1).toNat, (lane j T.l2).toNat, (lane j T.l3).toNat, (lane j T.l4).toNat⟩

theorem pb (a b : Nat) (ha : a < 2 ^ 27) (hb : b < 2 ^ 26 + 1) : a * b ≤ (2 ^ 27 - 1) * 2 ^ 26 :=
  Nat.mul_le_mul (by omega) (by omega)

theorem tail_mul_lane (j : Bool) (K : Mult) (H : L5 M128) (hS : SOK j K)
    (hh : Lt5 (hN j H) (2 ^ 27)) (hk : Lt5 (kN j K) (2 ^ 26 + 1)) :
    toNat5 j (blocks_tail_mul K H) = mulNat (hN j H) (kN j K) := by
  obtain ⟨s1, s2, s3, s4⟩ := hS
  obtain ⟨h0, h1, h2, h3, h4⟩ := hh
  obtain ⟨k0, k1, k2, k3, k4⟩ := hk
  simp only [hN, kN] at h0 h1 h2 h3 h4 k0 k1 k2 k3 k4
  simp only [toNat5, blocks_tail_mul, lane_add, lane_mul, UInt64.toNat_add, m32_toNat, mulNat, hN, kN,
    s1, s2, s3, s4]
  generalize lo32 (lane j H.l0) = a0 at *
  generalize lo32 (lane j H.l1) = a1 at *
  generalize lo32 (lane j H.l2) = a2 at *
  generalize lo32 (lane j H.l3) = a3 at *
  generalize lo32 (lane j H.l4) = a4 at *
  generalize lo32 (lane j K.R0) = b0 at *
  generalize lo32 (lane j K.R1) = b1 at *
  generalize lo32 (lane j K.R2) = b2 at *
  generalize lo32 (lane j K.R3) = b3 at *
  generalize lo32 (lane j K.R4) = b4 at *
  simp only [Nat.mul_left_comm _ 5 _]
  have p00 := pb a0 b0 h0 k0; have p01 := pb a0 b1 h0 k1; have p02 := pb a0 b2 h0 k2
  have p03 := pb a0 b3 h0 k3; have p04 := pb a0 b4 h0 k4
  have p10 := pb a1 b0 h1 k0; have p11 := pb a1 b1 h1 k1; have p12 := pb a1 b2 h1 k2
  have p13 := pb a1 b3 h1 k3; have p14 := pb a1 b4 h1 k4
  have p20 := pb a2 b0 h2 k0; have p21 := pb a2 b1 h2 k1; have p22 := pb a2 b2 h2 k2
  have p23 := pb a2 b3 h2 k3; have p24 := pb a2 b4 h2 k4
  have p30 := pb a3 b0 h3 k0; have p31 := pb a3 b1 h3 k1; have p32 := pb a3 b2 h3 k2
  have p33 := pb a3 b3 h3 k3; have p34 := pb a3 b4 h3 k4
  have p40 := pb a4 b0 h4 k0; have p41 := pb a4 b1 h4 k1; have p42 := pb a4 b2 h4 k2
  have p43 := pb a4 b3 h4 k3; have p44 := pb a4 b4 h4 k4
  congr 1 <;> omega


/-! ### the sections of the 64-byte loop body -/

/-- `[Mx,My]` as five registers of 26-bit limbs (M0 … M4 of the loop body) -/
def msg_lo (HIBIT : M128) (m : Bytes) : L5 M128 :=
  let T5 := _mm_unpacklo_epi64 (_mm_loadl_epi64 (m.drop 0)) (_mm_loadl_epi64 (m.drop 16))
  let T6 := _mm_unpacklo_epi64 (_mm_loadl_epi64 (m.drop 8)) (_mm_loadl_epi64 (m.drop 24))
  let M0 := _mm_and_si128 MMASK T5
  let M1 := _mm_and_si128 MMASK (_mm_srli_epi64 T5 26)
  let T5 := _mm_or_si128 (_mm_srli_epi64 T5 52) (_mm_slli_epi64 T6 12)
  let M3 := _mm_and_si128 MMASK (_mm_srli_epi64 T6 14)
  let M2 := _mm_and_si128 MMASK T5
  let M4 := _mm_or_si128 (_mm_srli_epi64 T6 40) HIBIT
  ⟨M0, M1, M2, M3, M4⟩

/-- `[Mx',My']` as the four shifted 32-bit words M5 … M8 (and HIBIT) that are added to T0 … T4 -/
def msg_hi (HIBIT : M128) (mA mB : Bytes) : L5 M128 :=
  let T5 := _mm_loadu_si128 mA
  let T6 := _mm_loadu_si128 mB
  let T7 := _mm_unpacklo_epi32 T5 T6
  let T8 := _mm_unpackhi_epi32 T5 T6
  let M5 := _mm_unpacklo_epi32 T7 _mm_setzero_si128
  let M6 := _mm_unpackhi_epi32 T7 _mm_setzero_si128
  let M7 := _mm_unpacklo_epi32 T8 _mm_setzero_si128
  let M8 := _mm_unpackhi_epi32 T8 _mm_setzero_si128
  let M6 := _mm_slli_epi64 M6 6
  let M7 := _mm_slli_epi64 M7 12
  let M8 := _mm_slli_epi64 M8 18
  ⟨M5, M6, M7, M8, HIBIT⟩

def add5 (T M : L5 M128) : L5 M128 :=
  ⟨_mm_add_epi64 T.l0 M.l0, _mm_add_epi64 T.l1 M.l1, _mm_add_epi64 T.l2 M.l2, _mm_add_epi64 T.l3 M.l3,
   _mm_add_epi64 T.l4 M.l4⟩

/-- the 50 multiplications and 53 additions of the loop body (everything before `reduce`), the
    message registers being given -/
def main_pre_core (K2 K4 : Mult) (H Mlo Mhi : L5 M128) : L5 M128 :=
  let H0 := H.l0
  let H1 := H.l1
  let H2 := H.l2
  let H3 := H.l3
  let H4 := H.l4
  let M0 := Mlo.l0
  let M1 := Mlo.l1
  let M2 := Mlo.l2
  let M3 := Mlo.l3
  let M4 := Mlo.l4
  let M5 := Mhi.l0
  let M6 := Mhi.l1
  let M7 := Mhi.l2
  let M8 := Mhi.l3
  let HIBIT := Mhi.l4
  let R20 := K2.R0
  let R21 := K2.R1
  let R22 := K2.R2
  let R23 := K2.R3
  let R24 := K2.R4
  let S21 := K2.S1
  let S22 := K2.S2
  let S23 := K2.S3
  let S24 := K2.S4
  let R40 := K4.R0
  let R41 := K4.R1
  let R42 := K4.R2
  let R43 := K4.R3
  let R44 := K4.R4
  let S41 := K4.S1
  let S42 := K4.S2
  let S43 := K4.S3
  let S44 := K4.S4
  let T15 := S42
  let T0 := H4
  let T0 := _mm_mul_epu32 T0 S41
  let v01 := H3
  let v01 := _mm_mul_epu32 v01 T15
  let T14 := S43
  let T1 := H4
  let T1 := _mm_mul_epu32 T1 T15
  let v11 := H3
  let v11 := _mm_mul_epu32 v11 T14
  let T2 := H4
  let T2 := _mm_mul_epu32 T2 T14
  let T0 := _mm_add_epi64 T0 v01
  let T15 := S44
  let v02 := H2
  let v02 := _mm_mul_epu32 v02 T14
  let T3 := H4
  let T3 := _mm_mul_epu32 T3 T15
  let T1 := _mm_add_epi64 T1 v11
  let v03 := H1
  let v03 := _mm_mul_epu32 v03 T15
  let v12 := H2
  let v12 := _mm_mul_epu32 v12 T15
  let T0 := _mm_add_epi64 T0 v02
  let T14 := R40
  let v21 := H3
  let v21 := _mm_mul_epu32 v21 T15
  let v31 := H3
  let v31 := _mm_mul_epu32 v31 T14
  let T0 := _mm_add_epi64 T0 v03
  let T4 := H4
  let T4 := _mm_mul_epu32 T4 T14
  let T1 := _mm_add_epi64 T1 v12
  let v04 := H0
  let v04 := _mm_mul_epu32 v04 T14
  let T2 := _mm_add_epi64 T2 v21
  let v13 := H1
  let v13 := _mm_mul_epu32 v13 T14
  let T3 := _mm_add_epi64 T3 v31
  let T15 := R41
  let v22 := H2
  let v22 := _mm_mul_epu32 v22 T14
  let v32 := H2
  let v32 := _mm_mul_epu32 v32 T15
  let T0 := _mm_add_epi64 T0 v04
  let v41 := H3
  let v41 := _mm_mul_epu32 v41 T15
  let T1 := _mm_add_epi64 T1 v13
  let v14 := H0
  let v14 := _mm_mul_epu32 v14 T15
  let T2 := _mm_add_epi64 T2 v22
  let T14 := R42
  let v23 := H1
  let v23 := _mm_mul_epu32 v23 T15
  let T3 := _mm_add_epi64 T3 v32
  let v33 := H1
  let v33 := _mm_mul_epu32 v33 T14
  let T4 := _mm_add_epi64 T4 v41
  let v42 := H2
  let v42 := _mm_mul_epu32 v42 T14
  let T1 := _mm_add_epi64 T1 v14
  let T15 := R43
  let v24 := H0
  let v24 := _mm_mul_epu32 v24 T14
  let T2 := _mm_add_epi64 T2 v23
  let v34 := H0
  let v34 := _mm_mul_epu32 v34 T15
  let T3 := _mm_add_epi64 T3 v33
  let v43 := H1
  let v43 := _mm_mul_epu32 v43 T15
  let T4 := _mm_add_epi64 T4 v42
  let v44 := H0
  let v44 := _mm_mul_epu32 v44 R44
  let T2 := _mm_add_epi64 T2 v24
  let T3 := _mm_add_epi64 T3 v34
  let T4 := _mm_add_epi64 T4 v43
  let T4 := _mm_add_epi64 T4 v44
  let T0 := _mm_add_epi64 T0 M5
  let T1 := _mm_add_epi64 T1 M6
  let T2 := _mm_add_epi64 T2 M7
  let T3 := _mm_add_epi64 T3 M8
  let T4 := _mm_add_epi64 T4 HIBIT
  let T15 := S22
  let v00 := M4
  let v00 := _mm_mul_epu32 v00 S21
  let v01 := M3
  let v01 := _mm_mul_epu32 v01 T15
  let T14 := S23
  let v10 := M4
  let v10 := _mm_mul_epu32 v10 T15
  let v11 := M3
  let v11 := _mm_mul_epu32 v11 T14
  let T0 := _mm_add_epi64 T0 v00
  let v20 := M4
  let v20 := _mm_mul_epu32 v20 T14
  let T0 := _mm_add_epi64 T0 v01
  let T15 := S24
  let v02 := M2
  let v02 := _mm_mul_epu32 v02 T14
  let T1 := _mm_add_epi64 T1 v10
  let v30 := M4
  let v30 := _mm_mul_epu32 v30 T15
  let T1 := _mm_add_epi64 T1 v11
  let v03 := M1
  let v03 := _mm_mul_epu32 v03 T15
  let T2 := _mm_add_epi64 T2 v20
  let v12 := M2
  let v12 := _mm_mul_epu32 v12 T15
  let T0 := _mm_add_epi64 T0 v02
  let T14 := R20
  let v21 := M3
  let v21 := _mm_mul_epu32 v21 T15
  let T3 := _mm_add_epi64 T3 v30
  let v31 := M3
  let v31 := _mm_mul_epu32 v31 T14
  let T0 := _mm_add_epi64 T0 v03
  let v40 := M4
  let v40 := _mm_mul_epu32 v40 T14
  let T1 := _mm_add_epi64 T1 v12
  let v04 := M0
  let v04 := _mm_mul_epu32 v04 T14
  let T2 := _mm_add_epi64 T2 v21
  let v13 := M1
  let v13 := _mm_mul_epu32 v13 T14
  let T3 := _mm_add_epi64 T3 v31
  let T15 := R21
  let v22 := M2
  let v22 := _mm_mul_epu32 v22 T14
  let T4 := _mm_add_epi64 T4 v40
  let v32 := M2
  let v32 := _mm_mul_epu32 v32 T15
  let T0 := _mm_add_epi64 T0 v04
  let v41 := M3
  let v41 := _mm_mul_epu32 v41 T15
  let T1 := _mm_add_epi64 T1 v13
  let v14 := M0
  let v14 := _mm_mul_epu32 v14 T15
  let T2 := _mm_add_epi64 T2 v22
  let T14 := R22
  let v23 := M1
  let v23 := _mm_mul_epu32 v23 T15
  let T3 := _mm_add_epi64 T3 v32
  let v33 := M1
  let v33 := _mm_mul_epu32 v33 T14
  let T4 := _mm_add_epi64 T4 v41
  let v42 := M2
  let v42 := _mm_mul_epu32 v42 T14
  let T1 := _mm_add_epi64 T1 v14
  let T15 := R23
  let v24 := M0
  let v24 := _mm_mul_epu32 v24 T14
  let T2 := _mm_add_epi64 T2 v23
  let v34 := M0
  let v34 := _mm_mul_epu32 v34 T15
  let T3 := _mm_add_epi64 T3 v33
  let v43 := M1
  let v43 := _mm_mul_epu32 v43 T15
  let T4 := _mm_add_epi64 T4 v42
  let v44 := M0
  let v44 := _mm_mul_epu32 v44 R24
  let T2 := _mm_add_epi64 T2 v24
  let T3 := _mm_add_epi64 T3 v34
  let T4 := _mm_add_epi64 T4 v43
  let T4 := _mm_add_epi64 T4 v44
  ⟨T0, T1, T2, T3, T4⟩

theorem main_body_eq (HIBIT : M128) (K2 K4 : Mult) (H : L5 M128) (m : Bytes) :
    blocks_main_body HIBIT K2 K4 H m =
      blocks_reduce (main_pre_core K2 K4 H (msg_lo HIBIT m) (msg_hi HIBIT (m.drop 32) (m.drop 48))) := rfl

theorem tail_add_some (HIBIT : M128) (T : L5 M128) (m : Bytes) :
    blocks_tail_add HIBIT T (some m) = add5 T (msg_hi HIBIT (m.drop 0) (m.drop 16)) := rfl
theorem tail_add_none (HIBIT : M128) (T : L5 M128) : blocks_tail_add HIBIT T none = T := rfl

def add5N (a b : L5 Nat) : L5 Nat := ⟨a.l0 + b.l0, a.l1 + b.l1, a.l2 + b.l2, a.l3 + b.l3, a.l4 + b.l4⟩

theorem lt5_mono {h : L5 Nat} {a b : Nat} (hh : Lt5 h a) (hab : a ≤ b) : Lt5 h b :=
  ⟨by have := hh.1; omega, by have := hh.2.1; omega, by have := hh.2.2.1; omega, by have := hh.2.2.2.1; omega,
   by have := hh.2.2.2.2; omega⟩

theorem main_pre_lane (j : Bool) (K2 K4 : Mult) (H Mlo Mhi : L5 M128) (hS2 : SOK j K2) (hS4 : SOK j K4)
    (hh : Lt5 (hN j H) (2 ^ 27)) (hm : Lt5 (hN j Mlo) (2 ^ 27))
    (hk2 : Lt5 (kN j K2) (2 ^ 26 + 1)) (hk4 : Lt5 (kN j K4) (2 ^ 26 + 1))
    (hhi : Lt5 (toNat5 j Mhi) (2 ^ 50)) :
    toNat5 j (main_pre_core K2 K4 H Mlo Mhi) =
      add5N (add5N (mulNat (hN j H) (kN j K4)) (toNat5 j Mhi)) (mulNat (hN j Mlo) (kN j K2)) := by
  obtain ⟨s1, s2, s3, s4⟩ := hS2
  obtain ⟨u1, u2, u3, u4⟩ := hS4
  obtain ⟨h0, h1, h2, h3, h4⟩ := hh
  obtain ⟨m0, m1, m2, m3, m4⟩ := hm
  obtain ⟨k0, k1, k2, k3, k4⟩ := hk2
  obtain ⟨q0, q1, q2, q3, q4⟩ := hk4
  obtain ⟨w0, w1, w2, w3, w4⟩ := hhi
  simp only [hN, kN, toNat5] at h0 h1 h2 h3 h4 k0 k1 k2 k3 k4 m0 m1 m2 m3 m4 q0 q1 q2 q3 q4 w0 w1 w2 w3 w4
  simp only [toNat5, main_pre_core, lane_add, lane_mul, UInt64.toNat_add, m32_toNat, mulNat, hN, kN, add5N,
    s1, s2, s3, s4, u1, u2, u3, u4]
  generalize lo32 (lane j H.l0) = a0 at *
  generalize lo32 (lane j H.l1) = a1 at *
  generalize lo32 (lane j H.l2) = a2 at *
  generalize lo32 (lane j H.l3) = a3 at *
  generalize lo32 (lane j H.l4) = a4 at *
  generalize lo32 (lane j Mlo.l0) = c0 at *
  generalize lo32 (lane j Mlo.l1) = c1 at *
  generalize lo32 (lane j Mlo.l2) = c2 at *
  generalize lo32 (lane j Mlo.l3) = c3 at *
  generalize lo32 (lane j Mlo.l4) = c4 at *
  generalize (lane j Mhi.l0).toNat = e0 at *
  generalize (lane j Mhi.l1).toNat = e1 at *
  generalize (lane j Mhi.l2).toNat = e2 at *
  generalize (lane j Mhi.l3).toNat = e3 at *
  generalize (lane j Mhi.l4).toNat = e4 at *
  generalize lo32 (lane j K4.R0) = b0 at *
  generalize lo32 (lane j K4.R1) = b1 at *
  generalize lo32 (lane j K4.R2) = b2 at *
  generalize lo32 (lane j K4.R3) = b3 at *
  generalize lo32 (lane j K4.R4) = b4 at *
  generalize lo32 (lane j K2.R0) = d0 at *
  generalize lo32 (lane j K2.R1) = d1 at *
  generalize lo32 (lane j K2.R2) = d2 at *
  generalize lo32 (lane j K2.R3) = d3 at *
  generalize lo32 (lane j K2.R4) = d4 at *
  simp only [Nat.mul_left_comm _ 5 _]
  have p00 := pb a0 b0 h0 q0; have p01 := pb a0 b1 h0 q1; have p02 := pb a0 b2 h0 q2; have p03 := pb a0 b3 h0 q3; have p04 := pb a0 b4 h0 q4
  have p10 := pb a1 b0 h1 q0; have p11 := pb a1 b1 h1 q1; have p12 := pb a1 b2 h1 q2; have p13 := pb a1 b3 h1 q3; have p14 := pb a1 b4 h1 q4
  have p20 := pb a2 b0 h2 q0; have p21 := pb a2 b1 h2 q1; have p22 := pb a2 b2 h2 q2; have p23 := pb a2 b3 h2 q3; have p24 := pb a2 b4 h2 q4
  have p30 := pb a3 b0 h3 q0; have p31 := pb a3 b1 h3 q1; have p32 := pb a3 b2 h3 q2; have p33 := pb a3 b3 h3 q3; have p34 := pb a3 b4 h3 q4
  have p40 := pb a4 b0 h4 q0; have p41 := pb a4 b1 h4 q1; have p42 := pb a4 b2 h4 q2; have p43 := pb a4 b3 h4 q3; have p44 := pb a4 b4 h4 q4
  have r00 := pb c0 d0 m0 k0; have r01 := pb c0 d1 m0 k1; have r02 := pb c0 d2 m0 k2; have r03 := pb c0 d3 m0 k3; have r04 := pb c0 d4 m0 k4
  have r10 := pb c1 d0 m1 k0; have r11 := pb c1 d1 m1 k1; have r12 := pb c1 d2 m1 k2; have r13 := pb c1 d3 m1 k3; have r14 := pb c1 d4 m1 k4
  have r20 := pb c2 d0 m2 k0; have r21 := pb c2 d1 m2 k1; have r22 := pb c2 d2 m2 k2; have r23 := pb c2 d3 m2 k3; have r24 := pb c2 d4 m2 k4
  have r30 := pb c3 d0 m3 k0; have r31 := pb c3 d1 m3 k1; have r32 := pb c3 d2 m3 k2; have r33 := pb c3 d3 m3 k3; have r34 := pb c3 d4 m3 k4
  have r40 := pb c4 d0 m4 k0; have r41 := pb c4 d1 m4 k1; have r42 := pb c4 d2 m4 k2; have r43 := pb c4 d3 m4 k3; have r44 := pb c4 d4 m4 k4
  congr 1 <;> omega

/-! ### reduce -/

theorem lane_MMASK (j : Bool) : lane j MMASK = 0x3ffffff := by cases j <;> decide
theorem lane_FIVE (j : Bool) : lane j FIVE = 5 := by cases j <;> decide
theorem lane_HIBIT0 (j : Bool) : lane j HIBIT0 = 0x1000000 := by cases j <;> decide

theorem and26 (x : UInt64) : (x &&& 0x3ffffff).toNat = x.toNat % 2 ^ 26 := by
  rw [UInt64.toNat_and]
  exact Nat.and_two_pow_sub_one_eq_mod x.toNat 26
theorem and26' (x : UInt64) : ((0x3ffffff : UInt64) &&& x).toNat = x.toNat % 2 ^ 26 := by
  rw [UInt64.and_comm, and26]
theorem shr_ofNat (x : UInt64) (n : Nat) (h : n < 64) : (x >>> UInt64.ofNat n).toNat = x.toNat / 2 ^ n := by
  rw [UInt64.toNat_shiftRight, Nat.shiftRight_eq_div_pow, UInt64.toNat_ofNat']
  congr 2
  omega
theorem lo32_five : UInt64.toNat 5 % 2 ^ 32 = 5 := by decide

/-- the carry chain of `reduce` over unbounded naturals -/
def reduceNat (t : L5 Nat) : L5 Nat :=
  let T0 := t.l0
  let T1 := t.l1
  let T2 := t.l2
  let T3 := t.l3
  let T4 := t.l4
  let C1 := T0 / 2 ^ 26
  let C2 := T3 / 2 ^ 26
  let T0 := T0 % 2 ^ 26
  let T3 := T3 % 2 ^ 26
  let T1 := T1 + C1
  let T4 := T4 + C2
  let C1 := T1 / 2 ^ 26
  let C2 := T4 / 2 ^ 26
  let T1 := T1 % 2 ^ 26
  let T4 := T4 % 2 ^ 26
  let T2 := T2 + C1
  let T0 := T0 + C2 * 5
  let C1 := T2 / 2 ^ 26
  let C2 := T0 / 2 ^ 26
  let T2 := T2 % 2 ^ 26
  let T0 := T0 % 2 ^ 26
  let T3 := T3 + C1
  let T1 := T1 + C2
  let C1 := T3 / 2 ^ 26
  let T3 := T3 % 2 ^ 26
  let T4 := T4 + C1
  ⟨T0, T1, T2, T3, T4⟩

/-- input bounds of `reduce` that hold at both call sites -/
def TBound (t : L5 Nat) : Prop :=
  t.l0 < 2 ^ 58 ∧ t.l1 < 2 ^ 58 ∧ t.l2 < 2 ^ 58 ∧ t.l3 < 2 ^ 57 ∧ t.l4 < 2 ^ 57

/-- the limb bounds `reduce` establishes -/
def HBound (h : L5 Nat) : Prop :=
  h.l0 < 2 ^ 26 ∧ h.l1 < 2 ^ 26 + 2 ^ 8 ∧ h.l2 < 2 ^ 26 ∧ h.l3 < 2 ^ 26 ∧ h.l4 < 2 ^ 26 + 2 ^ 7

def val26 (h : L5 Nat) : Nat := h.l0 + h.l1 * 2 ^ 26 + h.l2 * 2 ^ 52 + h.l3 * 2 ^ 78 + h.l4 * 2 ^ 104

theorem reduce_lane (j : Bool) (T : L5 M128) (hT : TBound (toNat5 j T)) :
    toNat5 j (blocks_reduce T) = reduceNat (toNat5 j T) := by
  obtain ⟨b0, b1, b2, b3, b4⟩ := hT
  simp only [toNat5] at b0 b1 b2 b3 b4
  simp only [toNat5, blocks_reduce, reduceNat, lane_add, lane_mul, lane_and, lane_srli _ _ 26 (by decide),
    lane_MMASK, lane_FIVE, UInt64.toNat_add, m32_toNat, and26, shr_ofNat _ 26 (by decide), lo32, lo32_five]
  generalize (lane j T.l0).toNat = t0 at *
  generalize (lane j T.l1).toNat = t1 at *
  generalize (lane j T.l2).toNat = t2 at *
  generalize (lane j T.l3).toNat = t3 at *
  generalize (lane j T.l4).toNat = t4 at *
  have e1 : (t1 + t0 / 2 ^ 26) % 2 ^ 64 = t1 + t0 / 2 ^ 26 := by omega
  have e2 : (t4 + t3 / 2 ^ 26) % 2 ^ 64 = t4 + t3 / 2 ^ 26 := by omega
  simp only [e1, e2]
  have hT1 : t1 + t0 / 2 ^ 26 < 2 ^ 59 := by omega
  have hT4 : t4 + t3 / 2 ^ 26 < 2 ^ 58 := by omega
  generalize t1 + t0 / 2 ^ 26 = T1 at *
  generalize t4 + t3 / 2 ^ 26 = T4 at *
  have e3 : (t2 + T1 / 2 ^ 26) % 2 ^ 64 = t2 + T1 / 2 ^ 26 := by omega
  have e4 : T4 / 2 ^ 26 % 2 ^ 32 = T4 / 2 ^ 26 := by omega
  simp only [e3, e4]
  have e5 : (t0 % 2 ^ 26 + T4 / 2 ^ 26 * 5) % 2 ^ 64 = t0 % 2 ^ 26 + T4 / 2 ^ 26 * 5 := by omega
  simp only [e5]
  have hT2 : t2 + T1 / 2 ^ 26 < 2 ^ 59 := by omega
  have hT0 : t0 % 2 ^ 26 + T4 / 2 ^ 26 * 5 < 2 ^ 35 := by omega
  generalize t2 + T1 / 2 ^ 26 = T2 at *
  generalize t0 % 2 ^ 26 + T4 / 2 ^ 26 * 5 = T0 at *
  have e6 : (t3 % 2 ^ 26 + T2 / 2 ^ 26) % 2 ^ 64 = t3 % 2 ^ 26 + T2 / 2 ^ 26 := by omega
  have e7 : (T1 % 2 ^ 26 + T0 / 2 ^ 26) % 2 ^ 64 = T1 % 2 ^ 26 + T0 / 2 ^ 26 := by omega
  simp only [e6, e7]
  have hT3 : t3 % 2 ^ 26 + T2 / 2 ^ 26 < 2 ^ 34 := by omega
  generalize t3 % 2 ^ 26 + T2 / 2 ^ 26 = T3 at *
  have e8 : (T4 % 2 ^ 26 + T3 / 2 ^ 26) % 2 ^ 64 = T4 % 2 ^ 26 + T3 / 2 ^ 26 := by omega
  simp only [e8]

theorem reduceNat_spec (t : L5 Nat) (hT : TBound t) :
    HBound (reduceNat t) ∧
    val26 (reduceNat t) + (2 ^ 130 - 5) * ((t.l4 + t.l3 / 2 ^ 26) / 2 ^ 26) = val26 t := by
  obtain ⟨t0, t1, t2, t3, t4⟩ := t
  obtain ⟨b0, b1, b2, b3, b4⟩ := hT
  simp only at b0 b1 b2 b3 b4
  simp only [HBound, reduceNat, val26]
  have hT1 : t1 + t0 / 2 ^ 26 < 2 ^ 58 + 2 ^ 32 := by omega
  have hT4 : t4 + t3 / 2 ^ 26 < 2 ^ 57 + 2 ^ 31 := by omega
  generalize eT1 : t1 + t0 / 2 ^ 26 = T1 at *
  generalize eT4 : t4 + t3 / 2 ^ 26 = T4 at *
  have hT2 : t2 + T1 / 2 ^ 26 < 2 ^ 58 + 2 ^ 33 := by omega
  have hT0 : t0 % 2 ^ 26 + T4 / 2 ^ 26 * 5 < 2 ^ 26 + 5 * (2 ^ 31 + 2 ^ 5) := by omega
  generalize eT2 : t2 + T1 / 2 ^ 26 = T2 at *
  generalize eT0 : t0 % 2 ^ 26 + T4 / 2 ^ 26 * 5 = T0 at *
  have hT3 : t3 % 2 ^ 26 + T2 / 2 ^ 26 < 2 ^ 26 + 2 ^ 32 + 2 ^ 8 := by omega
  generalize eT3 : t3 % 2 ^ 26 + T2 / 2 ^ 26 = T3 at *
  refine ⟨⟨?_, ?_, ?_, ?_, ?_⟩, ?_⟩ <;> omega

theorem reduceNat_spec' (t : L5 Nat) (hT : TBound t) :
    HBound (reduceNat t) ∧ ∃ c, val26 (reduceNat t) + (2 ^ 130 - 5) * c = val26 t :=
  ⟨(reduceNat_spec t hT).1, _, (reduceNat_spec t hT).2⟩

theorem slli_q0 (a : M128) (n : Nat) (h : n ≤ 63) : (_mm_slli_epi64 a n).q0 = a.q0 <<< UInt64.ofNat n :=
  lane_slli false a n h
theorem slli_q1 (a : M128) (n : Nat) (h : n ≤ 63) : (_mm_slli_epi64 a n).q1 = a.q1 <<< UInt64.ofNat n :=
  lane_slli true a n h

/-! ### message loads -/

theorem dwOf_pack2_0 (a b : UInt32) : dwOf (pack2 a b) 0 = a := by
  apply UInt32.toNat_inj.mp
  have := a.toNat_lt; have := b.toNat_lt
  rw [dwOf_toNat _ 0 (by omega), pack2_toNat]; omega
theorem dwOf_pack2_1 (a b : UInt32) : dwOf (pack2 a b) 1 = b := by
  apply UInt32.toNat_inj.mp
  have := a.toNat_lt; have := b.toNat_lt
  rw [dwOf_toNat _ 1 (by omega), pack2_toNat]; omega
theorem pack2_zero_toNat (a : UInt32) : (pack2 a 0).toNat = a.toNat := by
  rw [pack2_toNat]; simp
theorem dwOf0_toNat (x : UInt64) : (dwOf x 0).toNat = x.toNat % 2 ^ 32 := by
  have := x.toNat_lt
  rw [dwOf_toNat _ 0 (by omega)]; omega
theorem dwOf1_toNat (x : UInt64) : (dwOf x 1).toNat = x.toNat / 2 ^ 32 := by
  have := x.toNat_lt
  rw [dwOf_toNat _ 1 (by omega)]; omega

theorem shl_ofNat (x : UInt64) (n : Nat) (h : n < 64) :
    (x <<< UInt64.ofNat n).toNat = x.toNat * 2 ^ n % 2 ^ 64 := by
  rw [UInt64.toNat_shiftLeft, Nat.shiftLeft_eq, UInt64.toNat_ofNat']
  congr 3
  omega

/-- the 16-byte block lane `j` works on -/
def blk (j : Bool) (mA mB : Bytes) : Bytes := if j then mB else mA

theorem msg_hi_lane (j : Bool) (HIBIT : M128) (mA mB : Bytes) :
    toNat5 j (msg_hi HIBIT mA mB) =
      ⟨(load64 (blk j mA mB)).toNat % 2 ^ 32, (load64 (blk j mA mB)).toNat / 2 ^ 32 * 2 ^ 6,
       (load64 ((blk j mA mB).drop 8)).toNat % 2 ^ 32 * 2 ^ 12,
       (load64 ((blk j mA mB).drop 8)).toNat / 2 ^ 32 * 2 ^ 18, (lane j HIBIT).toNat⟩ := by
  have hA0 := (load64 mA).toNat_lt; have hA1 := (load64 (mA.drop 8)).toNat_lt
  have hB0 := (load64 mB).toNat_lt; have hB1 := (load64 (mB.drop 8)).toNat_lt
  cases j
  · simp only [toNat5, msg_hi, blk, lane, Bool.false_eq_true, if_false]
    refine congr (congr (congr (congr (congrArg L5.mk ?_) ?_) ?_) ?_) rfl
    · show (pack2 (dwOf (pack2 (dwOf (load64 (mA.drop (8 * 0))) 0) (dwOf (load64 (mB.drop (8 * 0))) 0)) 0) 0).toNat = _
      rw [pack2_zero_toNat, dwOf_pack2_0, dwOf0_toNat]; simp
    · rw [slli_q0 _ 6 (by decide), shl_ofNat _ 6 (by decide)]
      show (pack2 (dwOf (pack2 (dwOf (load64 (mA.drop (8 * 0))) 1) (dwOf (load64 (mB.drop (8 * 0))) 1)) 0) 0).toNat * 2 ^ 6 % 2 ^ 64 = _
      rw [pack2_zero_toNat, dwOf_pack2_0, dwOf1_toNat]; simp only [Nat.mul_zero, List.drop_zero]; omega
    · rw [slli_q0 _ 12 (by decide), shl_ofNat _ 12 (by decide)]
      show (pack2 (dwOf (pack2 (dwOf (load64 (mA.drop (8 * 1))) 0) (dwOf (load64 (mB.drop (8 * 1))) 0)) 0) 0).toNat * 2 ^ 12 % 2 ^ 64 = _
      rw [pack2_zero_toNat, dwOf_pack2_0, dwOf0_toNat]; simp only [Nat.mul_one]; omega
    · rw [slli_q0 _ 18 (by decide), shl_ofNat _ 18 (by decide)]
      show (pack2 (dwOf (pack2 (dwOf (load64 (mA.drop (8 * 1))) 1) (dwOf (load64 (mB.drop (8 * 1))) 1)) 0) 0).toNat * 2 ^ 18 % 2 ^ 64 = _
      rw [pack2_zero_toNat, dwOf_pack2_0, dwOf1_toNat]; simp only [Nat.mul_one]; omega
  · simp only [toNat5, msg_hi, blk, lane, if_true]
    refine congr (congr (congr (congr (congrArg L5.mk ?_) ?_) ?_) ?_) rfl
    · show (pack2 (dwOf (pack2 (dwOf (load64 (mA.drop (8 * 0))) 0) (dwOf (load64 (mB.drop (8 * 0))) 0)) 1) 0).toNat = _
      rw [pack2_zero_toNat, dwOf_pack2_1, dwOf0_toNat]; simp
    · rw [slli_q1 _ 6 (by decide), shl_ofNat _ 6 (by decide)]
      show (pack2 (dwOf (pack2 (dwOf (load64 (mA.drop (8 * 0))) 1) (dwOf (load64 (mB.drop (8 * 0))) 1)) 1) 0).toNat * 2 ^ 6 % 2 ^ 64 = _
      rw [pack2_zero_toNat, dwOf_pack2_1, dwOf1_toNat]; simp only [Nat.mul_zero, List.drop_zero]; omega
    · rw [slli_q1 _ 12 (by decide), shl_ofNat _ 12 (by decide)]
      show (pack2 (dwOf (pack2 (dwOf (load64 (mA.drop (8 * 1))) 0) (dwOf (load64 (mB.drop (8 * 1))) 0)) 1) 0).toNat * 2 ^ 12 % 2 ^ 64 = _
      rw [pack2_zero_toNat, dwOf_pack2_1, dwOf0_toNat]; simp only [Nat.mul_one]; omega
    · rw [slli_q1 _ 18 (by decide), shl_ofNat _ 18 (by decide)]
      show (pack2 (dwOf (pack2 (dwOf (load64 (mA.drop (8 * 1))) 1) (dwOf (load64 (mB.drop (8 * 1))) 1)) 1) 0).toNat * 2 ^ 18 % 2 ^ 64 = _
      rw [pack2_zero_toNat, dwOf_pack2_1, dwOf1_toNat]; simp only [Nat.mul_one]; omega

theorem lane_unpacklo64 (j : Bool) (a b : M128) : lane j (_mm_unpacklo_epi64 a b) = if j then b.q0 else a.q0 := by
  cases j <;> rfl
theorem loadl_q0 (m : Bytes) : (_mm_loadl_epi64 m).q0 = load64 m := rfl

theorem shl_ofNat' (x : UInt64) (n : Nat) (h : n < 64) :
    (x <<< UInt64.ofNat n).toNat = x.toNat <<< n % 2 ^ 64 := by
  rw [UInt64.toNat_shiftLeft, UInt64.toNat_ofNat']
  congr 2
  omega

theorem or_hib (x hb : Nat) (hx : x < 2 ^ 24) (h : hb = 0 ∨ hb = 2 ^ 24) : x ||| hb = x + hb := by
  rcases h with rfl | rfl
  · simp
  · have := PolyDonnaP.or_shl_nat x 1 24 64 hx (by omega)
    have e : (1 <<< 24 % 2 ^ 64 : Nat) = 2 ^ 24 := by decide
    rw [e] at this
    rw [this]
    show x + 1 % 2 ^ 40 * 2 ^ 24 = _
    omega

/-- the limbs of a 16-byte block given as two 64-bit words, plus the 2^128 bit (`hb` = 0 or 2^24) -/
def blkLimbs (t5 t6 hb : Nat) : L5 Nat :=
  ⟨t5 % 2 ^ 26, t5 / 2 ^ 26 % 2 ^ 26, t5 / 2 ^ 52 + t6 % 2 ^ 14 * 2 ^ 12, t6 / 2 ^ 14 % 2 ^ 26, t6 / 2 ^ 40 + hb⟩

theorem blkLimbs_val (t5 t6 hb : Nat) (h5 : t5 < 2 ^ 64) :
    val26 (blkLimbs t5 t6 hb) = t5 + 2 ^ 64 * t6 + hb * 2 ^ 104 := by
  simp only [val26, blkLimbs]; omega

theorem blkLimbs_lt (t5 t6 hb : Nat) (h5 : t5 < 2 ^ 64) (h6 : t6 < 2 ^ 64) (hh : hb = 0 ∨ hb = 2 ^ 24) :
    Lt5 (blkLimbs t5 t6 hb) (2 ^ 26) := by
  simp only [Lt5, blkLimbs]
  refine ⟨?_, ?_, ?_, ?_, ?_⟩ <;> omega

theorem msg_lo_lane (j : Bool) (HIBIT : M128) (m : Bytes)
    (hH : (lane j HIBIT).toNat = 0 ∨ (lane j HIBIT).toNat = 2 ^ 24) :
    toNat5 j (msg_lo HIBIT m) =
      blkLimbs (load64 (blk j (m.drop 0) (m.drop 16))).toNat (load64 (blk j (m.drop 8) (m.drop 24))).toNat
        (lane j HIBIT).toNat := by
  have e5 : (if j then (_mm_loadl_epi64 (m.drop 16)).q0 else (_mm_loadl_epi64 (m.drop 0)).q0)
      = load64 (blk j (m.drop 0) (m.drop 16)) := by cases j <;> rfl
  have e6 : (if j then (_mm_loadl_epi64 (m.drop 24)).q0 else (_mm_loadl_epi64 (m.drop 8)).q0)
      = load64 (blk j (m.drop 8) (m.drop 24)) := by cases j <;> rfl
  simp only [toNat5, msg_lo, blkLimbs, lane_and, lane_or, lane_srli _ _ 26 (by decide),
    lane_srli _ _ 52 (by decide), lane_srli _ _ 14 (by decide), lane_srli _ _ 40 (by decide),
    lane_slli _ _ 12 (by decide), lane_MMASK, lane_unpacklo64, e5, e6, and26', UInt64.toNat_or,
    shr_ofNat _ 26 (by decide), shr_ofNat _ 52 (by decide), shr_ofNat _ 14 (by decide),
    shr_ofNat _ 40 (by decide), shl_ofNat' _ 12 (by decide)]
  have h5 := (load64 (blk j (m.drop 0) (m.drop 16))).toNat_lt
  have h6 := (load64 (blk j (m.drop 8) (m.drop 24))).toNat_lt
  generalize (load64 (blk j (m.drop 0) (m.drop 16))).toNat = t5 at *
  generalize (load64 (blk j (m.drop 8) (m.drop 24))).toNat = t6 at *
  rw [PolyDonnaP.or_shl_nat _ _ 12 64 (by omega) (by omega), or_hib _ _ (by omega) hH]
  congr 1 <;> omega

theorem first_lane (j : Bool) (HIBIT : M128) (m : Bytes)
    (hH : (lane j HIBIT).toNat = 0 ∨ (lane j HIBIT).toNat = 2 ^ 24) :
    toNat5 j (blocks_first HIBIT m) =
      blkLimbs (load64 (blk j (m.drop 0) (m.drop 16))).toNat (load64 (blk j (m.drop 8) (m.drop 24))).toNat
        (lane j HIBIT).toNat := by
  have e5 : (if j then (_mm_loadl_epi64 (m.drop 16)).q0 else (_mm_loadl_epi64 (m.drop 0)).q0)
      = load64 (blk j (m.drop 0) (m.drop 16)) := by cases j <;> rfl
  have e6 : (if j then (_mm_loadl_epi64 (m.drop 24)).q0 else (_mm_loadl_epi64 (m.drop 8)).q0)
      = load64 (blk j (m.drop 8) (m.drop 24)) := by cases j <;> rfl
  simp only [toNat5, blocks_first, blkLimbs, lane_and, lane_or, lane_srli _ _ 26 (by decide),
    lane_srli _ _ 52 (by decide), lane_srli _ _ 40 (by decide),
    lane_slli _ _ 12 (by decide), lane_MMASK, lane_unpacklo64, e5, e6, and26', UInt64.toNat_or,
    shr_ofNat _ 26 (by decide), shr_ofNat _ 52 (by decide),
    shr_ofNat _ 40 (by decide), shl_ofNat' _ 12 (by decide)]
  have h5 := (load64 (blk j (m.drop 0) (m.drop 16))).toNat_lt
  have h6 := (load64 (blk j (m.drop 8) (m.drop 24))).toNat_lt
  generalize (load64 (blk j (m.drop 0) (m.drop 16))).toNat = t5 at *
  generalize (load64 (blk j (m.drop 8) (m.drop 24))).toNat = t6 at *
  rw [PolyDonnaP.or_shl_nat _ _ 12 64 (by omega) (by omega), or_hib _ _ (by omega) hH]
  congr 1 <;> omega

/-! ### poly1305_init_ext -/

open Sodium.Model.Poly1305Donna (MUL ADD ADDLO SHR LO)
open Sodium.PolyDonnaP (val)

def nat5 (R : L5 UInt32) : L5 Nat := ⟨R.l0.toNat, R.l1.toNat, R.l2.toNat, R.l3.toNat, R.l4.toNat⟩

/-- the limb bounds of `R`, `R2`, `R4`: four 26-bit limbs and a top limb `≤ 2^26` -/
def RBound (k : L5 Nat) : Prop :=
  k.l0 < 2 ^ 26 ∧ k.l1 < 2 ^ 26 ∧ k.l2 < 2 ^ 26 ∧ k.l3 < 2 ^ 26 ∧ k.l4 ≤ 2 ^ 26

/-- the bounds of the 44/44/42-bit limbs `rt0, rt1, rt2` kept by the squaring loop -/
def Rt44 (x : UInt64 × UInt64 × UInt64) : Prop :=
  x.1.toNat < 2 ^ 44 ∧ x.2.1.toNat < 2 ^ 44 ∧ x.2.2.toNat ≤ 2 ^ 42

theorem u32_and26 (x : UInt32) : (x &&& 0x3ffffff).toNat = x.toNat % 2 ^ 26 := by
  rw [UInt32.toNat_and]
  exact Nat.and_two_pow_sub_one_eq_mod x.toNat 26

theorem r_limbs_spec (x0 x1 x2 : UInt64) (h : Rt44 (x0, x1, x2)) :
    RBound (nat5 (r_limbs x0 x1 x2)) ∧ val26 (nat5 (r_limbs x0 x1 x2)) = val (x0, x1, x2) ∧
    (nat5 (r_limbs x0 x1 x2)).l4 = x2.toNat / 2 ^ 16 := by
  obtain ⟨h0, h1, h2⟩ := h
  simp only at h0 h1 h2
  have e26 : (x0 >>> 26).toNat = x0.toNat / 2 ^ 26 := PolyDonnaP.shr_toNat x0 26
  have e8 : (x1 >>> 8).toNat = x1.toNat / 2 ^ 8 := PolyDonnaP.shr_toNat x1 8
  have e34 : (x1 >>> 34).toNat = x1.toNat / 2 ^ 34 := PolyDonnaP.shr_toNat x1 34
  have e16 : (x2 >>> 16).toNat = x2.toNat / 2 ^ 16 := PolyDonnaP.shr_toNat x2 16
  have o1 := PolyDonnaP.or_shl_nat (x0.toNat / 2 ^ 26) x1.toNat 18 64 (by omega) (by omega)
  have o3 := PolyDonnaP.or_shl_nat (x1.toNat / 2 ^ 34) x2.toNat 10 64 (by omega) (by omega)
  simp only [RBound, nat5, r_limbs, val26, val, u32_and26, UInt64.toNat_toUInt32, UInt64.toNat_or,
    UInt64.toNat_shiftLeft, e26, e8, e34, e16]
  have s18 : (18 : UInt64).toNat % 64 = 18 := by decide
  have s10 : (10 : UInt64).toNat % 64 = 10 := by decide
  rw [s18, s10, o1, o3]
  refine ⟨⟨?_, ?_, ?_, ?_, ?_⟩, ?_, ?_⟩ <;> omega

/-- `d[0], d[1], d[2]` of the squaring -/
def sqD (rt0 rt1 rt2 : UInt64) : Nat × Nat × Nat :=
  let st2 := rt2 * ((5 : UInt64) <<< 2)
  (ADD (MUL rt0 rt0) (MUL (rt1 * 2) st2), ADD (MUL rt2 st2) (MUL (rt0 * 2) rt1),
   ADD (MUL rt1 rt1) (MUL (rt2 * 2) rt0))

/-- the last three statements of the squaring: `c = rt1 >> 44; rt1 &= …; rt2 += c` -/
def sqTail (h : UInt64 × UInt64 × UInt64) : UInt64 × UInt64 × UInt64 :=
  (h.1, h.2.1 &&& 0xfffffffffff, h.2.2 + (h.2.1 >>> 44))

theorem r_square_eq (x0 x1 x2 : UInt64) :
    r_square x0 x1 x2 = sqTail (PolyDonnaP.carry (sqD x0 x1 x2)) := rfl

theorem sqD_spec (x0 x1 x2 : UInt64) (h : Rt44 (x0, x1, x2)) :
    sqD x0 x1 x2 = (x0.toNat * x0.toNat + 40 * (x1.toNat * x2.toNat),
      20 * (x2.toNat * x2.toNat) + 2 * (x0.toNat * x1.toNat),
      x1.toNat * x1.toNat + 2 * (x2.toNat * x0.toNat)) := by
  obtain ⟨h0, h1, h2⟩ := h
  simp only at h0 h1 h2
  have s2 : (x2 * ((5 : UInt64) <<< 2)).toNat = 20 * x2.toNat := by
    rw [UInt64.toNat_mul]; show x2.toNat * 20 % 2 ^ 64 = _; omega
  have t0 : (x0 * 2).toNat = 2 * x0.toNat := by
    rw [UInt64.toNat_mul]; show x0.toNat * 2 % 2 ^ 64 = _; omega
  have t1 : (x1 * 2).toNat = 2 * x1.toNat := by
    rw [UInt64.toNat_mul]; show x1.toNat * 2 % 2 ^ 64 = _; omega
  have t2 : (x2 * 2).toNat = 2 * x2.toNat := by
    rw [UInt64.toNat_mul]; show x2.toNat * 2 % 2 ^ 64 = _; omega
  have b00 : x0.toNat * x0.toNat < 2 ^ 44 * 2 ^ 44 := Nat.mul_lt_mul'' h0 h0
  have b01 : x0.toNat * x1.toNat < 2 ^ 44 * 2 ^ 44 := Nat.mul_lt_mul'' h0 h1
  have b11 : x1.toNat * x1.toNat < 2 ^ 44 * 2 ^ 44 := Nat.mul_lt_mul'' h1 h1
  have b12 : x1.toNat * x2.toNat ≤ 2 ^ 44 * 2 ^ 42 := Nat.mul_le_mul (by omega) h2
  have b20 : x2.toNat * x0.toNat ≤ 2 ^ 42 * 2 ^ 44 := Nat.mul_le_mul h2 (by omega)
  have b22 : x2.toNat * x2.toNat ≤ 2 ^ 42 * 2 ^ 42 := Nat.mul_le_mul h2 h2
  simp only [sqD, MUL, ADD, s2, t0, t1, t2]
  rw [show 2 * x1.toNat * (20 * x2.toNat) = 40 * (x1.toNat * x2.toNat) by
        rw [Nat.mul_mul_mul_comm],
      show x2.toNat * (20 * x2.toNat) = 20 * (x2.toNat * x2.toNat) by rw [Nat.mul_left_comm],
      show 2 * x0.toNat * x1.toNat = 2 * (x0.toNat * x1.toNat) by rw [Nat.mul_assoc],
      show 2 * x2.toNat * x0.toNat = 2 * (x2.toNat * x0.toNat) by rw [Nat.mul_assoc]]
  generalize x0.toNat * x0.toNat = a00 at *
  generalize x0.toNat * x1.toNat = a01 at *
  generalize x1.toNat * x1.toNat = a11 at *
  generalize x1.toNat * x2.toNat = a12 at *
  generalize x2.toNat * x0.toNat = a20 at *
  generalize x2.toNat * x2.toNat = a22 at *
  refine Prod.ext ?_ (Prod.ext ?_ ?_) <;> simp only
  all_goals omega

theorem sq_identity (x0 x1 x2 : Nat) :
    (x0 * x0 + 40 * (x1 * x2)) + (20 * (x2 * x2) + 2 * (x0 * x1)) * 2 ^ 44
      + (x1 * x1 + 2 * (x2 * x0)) * 2 ^ 88 + 2 ^ 130 * (8 * (x1 * x2) + 4 * 2 ^ 44 * (x2 * x2))
    = (x0 + x1 * 2 ^ 44 + x2 * 2 ^ 88) * (x0 + x1 * 2 ^ 44 + x2 * 2 ^ 88)
      + 5 * (8 * (x1 * x2) + 4 * 2 ^ 44 * (x2 * x2)) := by
  ring

theorem r_square_spec (x0 x1 x2 : UInt64) (h : Rt44 (x0, x1, x2)) :
    Rt44 (r_square x0 x1 x2) ∧
    ∃ k, val (r_square x0 x1 x2) + (2 ^ 130 - 5) * k = val (x0, x1, x2) * val (x0, x1, x2) := by
  have hh := h
  obtain ⟨h0, h1, h2⟩ := h
  simp only at h0 h1 h2
  rw [r_square_eq, sqD_spec x0 x1 x2 hh]
  have b00 : x0.toNat * x0.toNat < 2 ^ 44 * 2 ^ 44 := Nat.mul_lt_mul'' h0 h0
  have b01 : x0.toNat * x1.toNat < 2 ^ 44 * 2 ^ 44 := Nat.mul_lt_mul'' h0 h1
  have b11 : x1.toNat * x1.toNat < 2 ^ 44 * 2 ^ 44 := Nat.mul_lt_mul'' h1 h1
  have b12 : x1.toNat * x2.toNat ≤ 2 ^ 44 * 2 ^ 42 := Nat.mul_le_mul (by omega) h2
  have b20 : x2.toNat * x0.toNat ≤ 2 ^ 42 * 2 ^ 44 := Nat.mul_le_mul h2 (by omega)
  have b22 : x2.toNat * x2.toNat ≤ 2 ^ 42 * 2 ^ 42 := Nat.mul_le_mul h2 h2
  obtain ⟨q0, q1, q2, q3⟩ := PolyDonnaP.carry_spec
    (x0.toNat * x0.toNat + 40 * (x1.toNat * x2.toNat))
    (20 * (x2.toNat * x2.toNat) + 2 * (x0.toNat * x1.toNat))
    (x1.toNat * x1.toNat + 2 * (x2.toNat * x0.toNat)) (by omega) (by omega) (by omega)
  have hid := sq_identity x0.toNat x1.toNat x2.toNat
  generalize PolyDonnaP.carry _ = c at *
  obtain ⟨c0, c1, c2⟩ := c
  simp only [val] at q0 q1 q2 q3 hid ⊢
  have e44 : (c1 >>> 44).toNat = c1.toNat / 2 ^ 44 := PolyDonnaP.shr_toNat c1 44
  simp only [Rt44, sqTail, PolyDonnaP.lo44, UInt64.toNat_add, e44]
  have hb1 : c1.toNat % 2 ^ 44 < 2 ^ 44 := by omega
  have hb2 : (c2.toNat + c1.toNat / 2 ^ 44) % 2 ^ 64 ≤ 2 ^ 42 := by
    clear q3 hid b00 b01 b11 b12 b20 b22; omega
  have hv : c0.toNat + c1.toNat % 2 ^ 44 * 2 ^ 44 + (c2.toNat + c1.toNat / 2 ^ 44) % 2 ^ 64 * 2 ^ 88
      = c0.toNat + c1.toNat * 2 ^ 44 + c2.toNat * 2 ^ 88 := by
    clear q3 hid b00 b01 b11 b12 b20 b22; omega
  refine ⟨⟨q0, hb1, hb2⟩, ?_⟩
  rw [hv]
  generalize c0.toNat + c1.toNat * 2 ^ 44 + c2.toNat * 2 ^ 88 = V at q3 ⊢
  generalize (8 * (x1.toNat * x2.toNat) + 4 * 2 ^ 44 * (x2.toNat * x2.toNat)) = K at hid
  generalize ((x1.toNat * x1.toNat + 2 * (x2.toNat * x0.toNat) +
    (20 * (x2.toNat * x2.toNat) + 2 * (x0.toNat * x1.toNat) +
      (x0.toNat * x0.toNat + 40 * (x1.toNat * x2.toNat)) / 2 ^ 44) / 2 ^ 44) / 2 ^ 42) = k1 at q3
  generalize (x0.toNat + x1.toNat * 2 ^ 44 + x2.toNat * 2 ^ 88) * (x0.toNat + x1.toNat * 2 ^ 44 + x2.toNat * 2 ^ 88) = X at hid ⊢
  generalize x0.toNat * x0.toNat + 40 * (x1.toNat * x2.toNat) +
    (20 * (x2.toNat * x2.toNat) + 2 * (x0.toNat * x1.toNat)) * 2 ^ 44 +
    (x1.toNat * x1.toNat + 2 * (x2.toNat * x0.toNat)) * 2 ^ 88 = D at q3 hid
  refine ⟨k1 + K, ?_⟩
  clear hv hb1 hb2 q0 q1 q2 b00 b01 b11 b12 b20 b22 e44
  omega

/-- the clamped key half as 44/44/42-bit limbs (`r0, r1, r2` of `poly1305_init_ext`; the same
    statements as in poly1305_donna64.h) -/
def clamp44 (key : Bytes) : UInt64 × UInt64 × UInt64 := (Poly1305Donna.poly1305_init key).r

/-- `r^2` and `r^4` as computed by the squaring loop -/
def sq1 (key : Bytes) : UInt64 × UInt64 × UInt64 :=
  r_square (clamp44 key).1 (clamp44 key).2.1 (clamp44 key).2.2
def sq2 (key : Bytes) : UInt64 × UInt64 × UInt64 :=
  r_square (sq1 key).1 (sq1 key).2.1 (sq1 key).2.2

/-- `bytes` after `if (!bytes) bytes = ~0` -/
def effBytes (bytes : Nat) : Nat := if bytes = 0 then 2 ^ 64 - 1 else bytes

theorem init_ext_eq (st : State) (key : Bytes) (bytes : Nat) :
    poly1305_init_ext st key bytes =
      { H := ⟨0, 0, 0, 0, 0⟩
        R := r_limbs (clamp44 key).1 (clamp44 key).2.1 (clamp44 key).2.2
        R2 := if effBytes bytes ≤ 16 then st.R2 else r_limbs (sq1 key).1 (sq1 key).2.1 (sq1 key).2.2
        R4 := if effBytes bytes < 96 then st.R4 else r_limbs (sq2 key).1 (sq2 key).2.1 (sq2 key).2.2
        pad := (Poly1305Donna.poly1305_init key).pad
        flags := 0
        buffer := [] } := by
  unfold poly1305_init_ext
  simp only []
  by_cases h16 : effBytes bytes ≤ 16
  · have h96 : effBytes bytes < 96 := by omega
    simp only [effBytes] at h16 h96
    simp only [effBytes, h16, h96, if_true]
    rfl
  · by_cases h96 : effBytes bytes < 96
    · simp only [effBytes] at h16 h96
      simp only [effBytes, h16, h96, if_true, if_false]
      rfl
    · simp only [effBytes] at h16 h96
      simp only [effBytes, h16, h96, if_false]
      rfl

def p : Nat := Spec.Poly1305.p

theorem clamp44_spec (key : Bytes) :
    Rt44 (clamp44 key) ∧ val (clamp44 key) = Spec.Poly1305.clampR (le (key.take 16)) := by
  obtain ⟨h1, h2, _, _⟩ := PolyDonnaP.init_spec_aux key
  obtain ⟨a, b, c⟩ := h2
  have c' : (clamp44 key).2.2.toNat < 2 ^ 36 := c
  exact ⟨⟨a, b, by omega⟩, h1⟩

theorem r_square_spec' (x : UInt64 × UInt64 × UInt64) (h : Rt44 x) :
    Rt44 (r_square x.1 x.2.1 x.2.2) ∧
    ∃ k, val (r_square x.1 x.2.1 x.2.2) + (2 ^ 130 - 5) * k = val x * val x :=
  r_square_spec x.1 x.2.1 x.2.2 h

theorem sq1_spec (key : Bytes) :
    Rt44 (sq1 key) ∧ val (sq1 key) % p = (val (clamp44 key)) ^ 2 % p := by
  obtain ⟨h, _⟩ := clamp44_spec key
  obtain ⟨a, k, hk⟩ := r_square_spec' (clamp44 key) h
  refine ⟨a, ?_⟩
  show val (sq1 key) % (2 ^ 130 - 5) = _ % (2 ^ 130 - 5)
  have hk' : val (sq1 key) + (2 ^ 130 - 5) * k = val (clamp44 key) * val (clamp44 key) := hk
  rw [Nat.pow_two, ← hk', Nat.add_mul_mod_self_left]

theorem sq2_spec (key : Bytes) :
    Rt44 (sq2 key) ∧ val (sq2 key) % p = (val (clamp44 key)) ^ 4 % p := by
  obtain ⟨h, hv⟩ := sq1_spec key
  obtain ⟨a, k, hk⟩ := r_square_spec' (sq1 key) h
  refine ⟨a, ?_⟩
  have hk' : val (sq2 key) + (2 ^ 130 - 5) * k = val (sq1 key) * val (sq1 key) := hk
  have e : val (sq2 key) % p = (val (sq1 key) * val (sq1 key)) % p := by
    show val (sq2 key) % (2 ^ 130 - 5) = _ % (2 ^ 130 - 5)
    rw [← hk', Nat.add_mul_mod_self_left]
  rw [e, Nat.mul_mod, hv, ← Nat.mul_mod]
  congr 1
  ring

theorem init_ext_spec_aux (st : State) (key : Bytes) (bytes : Nat) :
    RBound (nat5 (poly1305_init_ext st key bytes).R) ∧
    val26 (nat5 (poly1305_init_ext st key bytes).R) = Spec.Poly1305.clampR (le (key.take 16)) ∧
    (effBytes bytes > 16 → RBound (nat5 (poly1305_init_ext st key bytes).R2) ∧
      val26 (nat5 (poly1305_init_ext st key bytes).R2) % p = Spec.Poly1305.clampR (le (key.take 16)) ^ 2 % p) ∧
    (effBytes bytes ≥ 96 → RBound (nat5 (poly1305_init_ext st key bytes).R4) ∧
      val26 (nat5 (poly1305_init_ext st key bytes).R4) % p = Spec.Poly1305.clampR (le (key.take 16)) ^ 4 % p) ∧
    (effBytes bytes ≤ 16 → (poly1305_init_ext st key bytes).R2 = st.R2) ∧
    (effBytes bytes < 96 → (poly1305_init_ext st key bytes).R4 = st.R4) ∧
    (poly1305_init_ext st key bytes).pad.1.toNat + 2 ^ 64 * (poly1305_init_ext st key bytes).pad.2.toNat
      = le ((key.drop 16).take 16) ∧
    (poly1305_init_ext st key bytes).H = ⟨0, 0, 0, 0, 0⟩ ∧ (poly1305_init_ext st key bytes).flags = 0 ∧
    (poly1305_init_ext st key bytes).buffer = [] := by
  rw [init_ext_eq]
  obtain ⟨c1, c2⟩ := clamp44_spec key
  obtain ⟨s1, s2⟩ := sq1_spec key
  obtain ⟨q1, q2⟩ := sq2_spec key
  obtain ⟨a1, a2, _⟩ := r_limbs_spec (clamp44 key).1 (clamp44 key).2.1 (clamp44 key).2.2 c1
  obtain ⟨b1, b2, _⟩ := r_limbs_spec (sq1 key).1 (sq1 key).2.1 (sq1 key).2.2 s1
  obtain ⟨d1, d2, _⟩ := r_limbs_spec (sq2 key).1 (sq2 key).2.1 (sq2 key).2.2 q1
  obtain ⟨_, _, _, hp⟩ := PolyDonnaP.init_spec_aux key
  refine ⟨a1, ?_, ?_, ?_, ?_, ?_, hp, rfl, rfl, rfl⟩
  · rw [a2, ← c2]
  · intro h
    have h' : ¬ effBytes bytes ≤ 16 := by omega
    simp only [h', if_false]
    refine ⟨b1, ?_⟩
    rw [b2, ← c2]; exact s2
  · intro h
    have h' : ¬ effBytes bytes < 96 := by omega
    simp only [h', if_false]
    refine ⟨d1, ?_⟩
    rw [d2, ← c2]; exact q2
  · intro h; simp only [h, if_true]
  · intro h; simp only [h, if_true]

/-! ### values -/

theorem val26_add5N (a b : L5 Nat) : val26 (add5N a b) = val26 a + val26 b := by
  simp only [val26, add5N]; ring

/-- the folded product represents the product: `2^130 ≡ 5` -/
theorem mulNat_val (h k : L5 Nat) :
    ∃ K, val26 (mulNat h k) + 2 ^ 130 * K = val26 h * val26 k + 5 * K := by
  refine ⟨h.l1 * k.l4 + h.l2 * k.l3 + h.l3 * k.l2 + h.l4 * k.l1
    + (h.l2 * k.l4 + h.l3 * k.l3 + h.l4 * k.l2) * 2 ^ 26 + (h.l3 * k.l4 + h.l4 * k.l3) * 2 ^ 52
    + (h.l4 * k.l4) * 2 ^ 78, ?_⟩
  simp only [val26, mulNat]
  ring

theorem mulNat_val' (h k : L5 Nat) :
    ∃ K, val26 (mulNat h k) + (2 ^ 130 - 5) * K = val26 h * val26 k := by
  obtain ⟨K, hK⟩ := mulNat_val h k
  refine ⟨K, ?_⟩
  generalize val26 (mulNat h k) = a at *
  generalize val26 h * val26 k = b at *
  omega

/-- limb bounds of the folded product -/
theorem mulNat_le (h k : L5 Nat) (a : Nat) (hh : Lt5 h (a + 1)) (hk : RBound k) :
    (mulNat h k).l0 ≤ 21 * (a * 2 ^ 26) ∧ (mulNat h k).l1 ≤ 17 * (a * 2 ^ 26) ∧
    (mulNat h k).l2 ≤ 13 * (a * 2 ^ 26) ∧ (mulNat h k).l3 ≤ 9 * (a * 2 ^ 26) ∧
    (mulNat h k).l4 ≤ 5 * (a * 2 ^ 26) := by
  obtain ⟨h0, h1, h2, h3, h4⟩ := hh
  obtain ⟨k0, k1, k2, k3, k4⟩ := hk
  have pb' : ∀ x y : Nat, x < a + 1 → y ≤ 2 ^ 26 → x * y ≤ a * 2 ^ 26 :=
    fun x y hx hy => Nat.mul_le_mul (by omega) hy
  have p00 := pb' h.l0 k.l0 h0 (by omega); have p01 := pb' h.l0 k.l1 h0 (by omega)
  have p02 := pb' h.l0 k.l2 h0 (by omega); have p03 := pb' h.l0 k.l3 h0 (by omega)
  have p04 := pb' h.l0 k.l4 h0 (by omega)
  have p10 := pb' h.l1 k.l0 h1 (by omega); have p11 := pb' h.l1 k.l1 h1 (by omega)
  have p12 := pb' h.l1 k.l2 h1 (by omega); have p13 := pb' h.l1 k.l3 h1 (by omega)
  have p14 := pb' h.l1 k.l4 h1 (by omega)
  have p20 := pb' h.l2 k.l0 h2 (by omega); have p21 := pb' h.l2 k.l1 h2 (by omega)
  have p22 := pb' h.l2 k.l2 h2 (by omega); have p23 := pb' h.l2 k.l3 h2 (by omega)
  have p24 := pb' h.l2 k.l4 h2 (by omega)
  have p30 := pb' h.l3 k.l0 h3 (by omega); have p31 := pb' h.l3 k.l1 h3 (by omega)
  have p32 := pb' h.l3 k.l2 h3 (by omega); have p33 := pb' h.l3 k.l3 h3 (by omega)
  have p34 := pb' h.l3 k.l4 h3 (by omega)
  have p40 := pb' h.l4 k.l0 h4 (by omega); have p41 := pb' h.l4 k.l1 h4 (by omega)
  have p42 := pb' h.l4 k.l2 h4 (by omega); have p43 := pb' h.l4 k.l3 h4 (by omega)
  have p44 := pb' h.l4 k.l4 h4 (by omega)
  simp only [mulNat]
  generalize a * 2 ^ 26 = M at *
  refine ⟨?_, ?_, ?_, ?_, ?_⟩ <;> omega

theorem rbound_lt5 {k : L5 Nat} (hk : RBound k) : Lt5 k (2 ^ 26 + 1) := by
  obtain ⟨k0, k1, k2, k3, k4⟩ := hk
  exact ⟨by omega, by omega, by omega, by omega, by omega⟩

theorem hbound_lt5 {h : L5 Nat} (hh : HBound h) : Lt5 h (2 ^ 26 + 2 ^ 8) := by
  obtain ⟨k0, k1, k2, k3, k4⟩ := hh
  exact ⟨by omega, by omega, by omega, by omega, by omega⟩

theorem hN_of_lt (j : Bool) (X : L5 M128) (h : Lt5 (toNat5 j X) (2 ^ 32)) : hN j X = toNat5 j X := by
  obtain ⟨k0, k1, k2, k3, k4⟩ := h
  simp only [toNat5] at k0 k1 k2 k3 k4
  simp only [hN, toNat5, lo32]
  congr 1 <;> omega

/-! ### one lane of one iteration -/

/-- the 16 bytes at `b` as a number (what two `load64` / one `_mm_loadu_si128` read) -/
def blkVal (b : Bytes) : Nat := le (b.take 16)

theorem load_pair (b : Bytes) : (load64 b).toNat + 2 ^ 64 * (load64 (b.drop 8)).toNat = blkVal b := by
  have := PolyDonnaP.le16_split b
  simp only [Poly1305Donna.LOAD64_LE, List.drop_zero] at this
  rw [blkVal, this]

def HibOK (j : Bool) (HIBIT : M128) : Prop := (lane j HIBIT).toNat = 0 ∨ (lane j HIBIT).toNat = 2 ^ 24

theorem blk_drop8 (j : Bool) (a b : Bytes) : blk j (a.drop 8) (b.drop 8) = (blk j a b).drop 8 := by
  cases j <;> rfl

theorem msg_hi_val (j : Bool) (HIBIT : M128) (mA mB : Bytes) (hH : HibOK j HIBIT) :
    Lt5 (toNat5 j (msg_hi HIBIT mA mB)) (2 ^ 50) ∧
    val26 (toNat5 j (msg_hi HIBIT mA mB)) = blkVal (blk j mA mB) + (lane j HIBIT).toNat * 2 ^ 104 := by
  rw [msg_hi_lane, ← load_pair]
  have h0 := (load64 (blk j mA mB)).toNat_lt
  have h1 := (load64 ((blk j mA mB).drop 8)).toNat_lt
  generalize (load64 (blk j mA mB)).toNat = t5 at *
  generalize (load64 ((blk j mA mB).drop 8)).toNat = t6 at *
  simp only [Lt5, val26]
  have : (lane j HIBIT).toNat ≤ 2 ^ 24 := by rcases hH with h | h <;> omega
  refine ⟨⟨?_, ?_, ?_, ?_, ?_⟩, ?_⟩ <;> omega

theorem msg_lo_val (j : Bool) (HIBIT : M128) (m : Bytes) (hH : HibOK j HIBIT) :
    Lt5 (toNat5 j (msg_lo HIBIT m)) (2 ^ 26) ∧
    val26 (toNat5 j (msg_lo HIBIT m)) = blkVal (blk j (m.drop 0) (m.drop 16)) + (lane j HIBIT).toNat * 2 ^ 104 := by
  have e : blk j (m.drop 8) (m.drop 24) = (blk j (m.drop 0) (m.drop 16)).drop 8 := by
    cases j
    · rfl
    · show m.drop 24 = (m.drop 16).drop 8
      rw [List.drop_drop]
  rw [msg_lo_lane j HIBIT m hH, e, ← load_pair]
  have h0 := (load64 (blk j (m.drop 0) (m.drop 16))).toNat_lt
  have h1 := (load64 ((blk j (m.drop 0) (m.drop 16)).drop 8)).toNat_lt
  exact ⟨blkLimbs_lt _ _ _ h0 h1 hH, blkLimbs_val _ _ _ h0⟩

theorem first_val (j : Bool) (HIBIT : M128) (m : Bytes) (hH : HibOK j HIBIT) :
    Lt5 (toNat5 j (blocks_first HIBIT m)) (2 ^ 26) ∧
    val26 (toNat5 j (blocks_first HIBIT m)) = blkVal (blk j (m.drop 0) (m.drop 16)) + (lane j HIBIT).toNat * 2 ^ 104 := by
  have e : blk j (m.drop 8) (m.drop 24) = (blk j (m.drop 0) (m.drop 16)).drop 8 := by
    cases j
    · rfl
    · show m.drop 24 = (m.drop 16).drop 8
      rw [List.drop_drop]
  rw [first_lane j HIBIT m hH, e, ← load_pair]
  have h0 := (load64 (blk j (m.drop 0) (m.drop 16))).toNat_lt
  have h1 := (load64 ((blk j (m.drop 0) (m.drop 16)).drop 8)).toNat_lt
  exact ⟨blkLimbs_lt _ _ _ h0 h1 hH, blkLimbs_val _ _ _ h0⟩

/-- One lane of the 64-byte loop body: with `h` the lane of H (limb bounds `HBound`), `k4`, `k2`
    the lanes of the multipliers (`RBound`), the new lane satisfies `HBound` again and represents
    `h·k4 + c0·k2 + c1` modulo 2^130 − 5 (`c0`, `c1` = this lane's two 16-byte blocks plus the hibit);
    every intermediate 64-bit quantity equals its value over unbounded naturals. -/
theorem main_body_lane (j : Bool) (HIBIT : M128) (K2 K4 : Mult) (H : L5 M128) (m : Bytes)
    (hS2 : SOK j K2) (hS4 : SOK j K4) (hk2 : RBound (kN j K2)) (hk4 : RBound (kN j K4))
    (hh : HBound (hN j H)) (hH : HibOK j HIBIT) :
    HBound (toNat5 j (blocks_main_body HIBIT K2 K4 H m)) ∧
    ∃ k, val26 (toNat5 j (blocks_main_body HIBIT K2 K4 H m)) + (2 ^ 130 - 5) * k =
      val26 (hN j H) * val26 (kN j K4)
      + (blkVal (blk j (m.drop 0) (m.drop 16)) + (lane j HIBIT).toNat * 2 ^ 104) * val26 (kN j K2)
      + (blkVal (blk j (m.drop 32) (m.drop 48)) + (lane j HIBIT).toNat * 2 ^ 104) := by
  rw [main_body_eq]
  obtain ⟨llt, lval⟩ := msg_lo_val j HIBIT m hH
  obtain ⟨hlt, hval⟩ := msg_hi_val j HIBIT (m.drop 32) (m.drop 48) hH
  have hNlo : hN j (msg_lo HIBIT m) = toNat5 j (msg_lo HIBIT m) :=
    hN_of_lt _ _ (lt5_mono llt (by omega))
  have hhl := lt5_mono (hbound_lt5 hh) (show 2 ^ 26 + 2 ^ 8 ≤ 2 ^ 27 by omega)
  have hpre := main_pre_lane j K2 K4 H (msg_lo HIBIT m) (msg_hi HIBIT (m.drop 32) (m.drop 48)) hS2 hS4
    hhl (by rw [hNlo]; exact lt5_mono llt (by omega)) (rbound_lt5 hk2) (rbound_lt5 hk4) hlt
  obtain ⟨a0, a1, a2, a3, a4⟩ := mulNat_le (hN j H) (kN j K4) (2 ^ 27 - 1) hhl hk4
  obtain ⟨c0, c1, c2, c3, c4⟩ := mulNat_le (hN j (msg_lo HIBIT m)) (kN j K2) (2 ^ 26 - 1)
    (by rw [hNlo]; exact llt) hk2
  obtain ⟨K1, hK1⟩ := mulNat_val' (hN j H) (kN j K4)
  obtain ⟨K2', hK2⟩ := mulNat_val' (hN j (msg_lo HIBIT m)) (kN j K2)
  have hT : TBound (toNat5 j (main_pre_core K2 K4 H (msg_lo HIBIT m) (msg_hi HIBIT (m.drop 32) (m.drop 48)))) := by
    rw [hpre]
    obtain ⟨e0, e1, e2, e3, e4⟩ := hlt
    simp only [TBound, add5N]
    refine ⟨?_, ?_, ?_, ?_, ?_⟩ <;> omega
  rw [reduce_lane j _ hT]
  obtain ⟨hb, c, hv⟩ := reduceNat_spec' _ hT
  refine ⟨hb, ?_⟩
  rw [hpre] at hv ⊢
  rw [val26_add5N, val26_add5N] at hv
  have hK2' : val26 (mulNat (hN j (msg_lo HIBIT m)) (kN j K2)) + (2 ^ 130 - 5) * K2' =
      (blkVal (blk j (m.drop 0) (m.drop 16)) + (lane j HIBIT).toNat * 2 ^ 104) * val26 (kN j K2) := by
    rw [hK2, hNlo, lval]
  clear hK2
  rw [hval] at hv
  generalize val26 (reduceNat _) = V at *
  generalize val26 (mulNat (hN j H) (kN j K4)) = V1 at *
  generalize val26 (mulNat (hN j (msg_lo HIBIT m)) (kN j K2)) = V2 at *
  generalize val26 (hN j H) * val26 (kN j K4) = P1 at *
  generalize (blkVal (blk j (m.drop 0) (m.drop 16)) + (lane j HIBIT).toNat * 2 ^ 104) * val26 (kN j K2) = P2 at *
  generalize blkVal (blk j (m.drop 32) (m.drop 48)) + (lane j HIBIT).toNat * 2 ^ 104 = C1 at *
  refine ⟨c + K1 + K2', ?_⟩
  rw [Nat.mul_add, Nat.mul_add]
  omega

/-- One lane of the `if (bytes >= 32)` block with a message: `h·k2 + c`. -/
theorem tail_some_lane (j : Bool) (HIBIT : M128) (K2 : Mult) (H : L5 M128) (m : Bytes)
    (hS2 : SOK j K2) (hk2 : RBound (kN j K2)) (hh : HBound (hN j H)) (hH : HibOK j HIBIT) :
    HBound (toNat5 j (blocks_tail HIBIT K2 H (some m))) ∧
    ∃ k, val26 (toNat5 j (blocks_tail HIBIT K2 H (some m))) + (2 ^ 130 - 5) * k =
      val26 (hN j H) * val26 (kN j K2)
      + (blkVal (blk j (m.drop 0) (m.drop 16)) + (lane j HIBIT).toNat * 2 ^ 104) := by
  rw [blocks_tail, tail_add_some]
  obtain ⟨hlt, hval⟩ := msg_hi_val j HIBIT (m.drop 0) (m.drop 16) hH
  have hhl := lt5_mono (hbound_lt5 hh) (show 2 ^ 26 + 2 ^ 8 ≤ 2 ^ 27 by omega)
  have hmul := tail_mul_lane j K2 H hS2 hhl (rbound_lt5 hk2)
  obtain ⟨a0, a1, a2, a3, a4⟩ := mulNat_le (hN j H) (kN j K2) (2 ^ 27 - 1) hhl hk2
  obtain ⟨K1, hK1⟩ := mulNat_val' (hN j H) (kN j K2)
  have hpre : toNat5 j (add5 (blocks_tail_mul K2 H) (msg_hi HIBIT (m.drop 0) (m.drop 16))) =
      add5N (mulNat (hN j H) (kN j K2)) (toNat5 j (msg_hi HIBIT (m.drop 0) (m.drop 16))) := by
    obtain ⟨e0, e1, e2, e3, e4⟩ := hlt
    have m0 := congrArg L5.l0 hmul; have m1 := congrArg L5.l1 hmul; have m2 := congrArg L5.l2 hmul
    have m3 := congrArg L5.l3 hmul; have m4 := congrArg L5.l4 hmul
    simp only [toNat5] at e0 e1 e2 e3 e4 m0 m1 m2 m3 m4
    simp only [toNat5, add5, add5N, lane_add, UInt64.toNat_add, m0, m1, m2, m3, m4]
    congr 1 <;> omega
  have hT : TBound (toNat5 j (add5 (blocks_tail_mul K2 H) (msg_hi HIBIT (m.drop 0) (m.drop 16)))) := by
    rw [hpre]
    obtain ⟨e0, e1, e2, e3, e4⟩ := hlt
    simp only [TBound, add5N]
    refine ⟨?_, ?_, ?_, ?_, ?_⟩ <;> omega
  rw [reduce_lane j _ hT]
  obtain ⟨hb, c, hv⟩ := reduceNat_spec' _ hT
  refine ⟨hb, ?_⟩
  rw [hpre] at hv ⊢
  rw [val26_add5N, hval] at hv
  generalize val26 (reduceNat _) = V at *
  generalize val26 (mulNat (hN j H) (kN j K2)) = V1 at *
  generalize val26 (hN j H) * val26 (kN j K2) = P1 at *
  generalize blkVal (blk j (m.drop 0) (m.drop 16)) + (lane j HIBIT).toNat * 2 ^ 104 = C1 at *
  refine ⟨c + K1, ?_⟩
  rw [Nat.mul_add]
  omega

/-- One lane of the `if (bytes >= 32)` block without a message (`m == NULL`): `h·k2`. -/
theorem tail_none_lane (j : Bool) (HIBIT : M128) (K2 : Mult) (H : L5 M128)
    (hS2 : SOK j K2) (hk2 : RBound (kN j K2)) (hh : HBound (hN j H)) :
    HBound (toNat5 j (blocks_tail HIBIT K2 H none)) ∧
    ∃ k, val26 (toNat5 j (blocks_tail HIBIT K2 H none)) + (2 ^ 130 - 5) * k =
      val26 (hN j H) * val26 (kN j K2) := by
  rw [blocks_tail, tail_add_none]
  have hhl := lt5_mono (hbound_lt5 hh) (show 2 ^ 26 + 2 ^ 8 ≤ 2 ^ 27 by omega)
  have hmul := tail_mul_lane j K2 H hS2 hhl (rbound_lt5 hk2)
  obtain ⟨a0, a1, a2, a3, a4⟩ := mulNat_le (hN j H) (kN j K2) (2 ^ 27 - 1) hhl hk2
  obtain ⟨K1, hK1⟩ := mulNat_val' (hN j H) (kN j K2)
  have hT : TBound (toNat5 j (blocks_tail_mul K2 H)) := by
    rw [hmul]
    simp only [TBound]
    refine ⟨?_, ?_, ?_, ?_, ?_⟩ <;> omega
  rw [reduce_lane j _ hT]
  obtain ⟨hb, c, hv⟩ := reduceNat_spec' _ hT
  refine ⟨hb, ?_⟩
  rw [hmul] at hv ⊢
  generalize val26 (reduceNat _) = V at *
  generalize val26 (mulNat (hN j H) (kN j K2)) = V1 at *
  generalize val26 (hN j H) * val26 (kN j K2) = P1 at *
  refine ⟨c + K1, ?_⟩
  rw [Nat.mul_add]
  omega

/-! ### loads and stores of H and of the multipliers -/

theorem shuf_1100 (a : M128) : _mm_shuffle_epi32 a (_MM_SHUFFLE 1 1 0 0) =
    ⟨pack2 (dwOf a.q0 0) (dwOf a.q0 0), pack2 (dwOf a.q0 1) (dwOf a.q0 1)⟩ := rfl
theorem shuf_3322 (a : M128) : _mm_shuffle_epi32 a (_MM_SHUFFLE 3 3 2 2) =
    ⟨pack2 (dwOf a.q1 0) (dwOf a.q1 0), pack2 (dwOf a.q1 1) (dwOf a.q1 1)⟩ := rfl
theorem shuf_0000 (a : M128) : _mm_shuffle_epi32 a (_MM_SHUFFLE 0 0 0 0) =
    ⟨pack2 (dwOf a.q0 0) (dwOf a.q0 0), pack2 (dwOf a.q0 0) (dwOf a.q0 0)⟩ := rfl
theorem shuf_1111 (a : M128) : _mm_shuffle_epi32 a (_MM_SHUFFLE 1 1 1 1) =
    ⟨pack2 (dwOf a.q0 1) (dwOf a.q0 1), pack2 (dwOf a.q0 1) (dwOf a.q0 1)⟩ := rfl
theorem shuf_2222 (a : M128) : _mm_shuffle_epi32 a (_MM_SHUFFLE 2 2 2 2) =
    ⟨pack2 (dwOf a.q1 0) (dwOf a.q1 0), pack2 (dwOf a.q1 0) (dwOf a.q1 0)⟩ := rfl
theorem shuf_3333 (a : M128) : _mm_shuffle_epi32 a (_MM_SHUFFLE 3 3 3 3) =
    ⟨pack2 (dwOf a.q1 1) (dwOf a.q1 1), pack2 (dwOf a.q1 1) (dwOf a.q1 1)⟩ := rfl
theorem shuf_0020 (a : M128) : _mm_shuffle_epi32 a (_MM_SHUFFLE 0 0 2 0) =
    ⟨pack2 (dwOf a.q0 0) (dwOf a.q1 0), pack2 (dwOf a.q0 0) (dwOf a.q0 0)⟩ := rfl
theorem loadu_u32_eq (w0 w1 w2 w3 : UInt32) : _mm_loadu_si128_u32 w0 w1 w2 w3 = ⟨pack2 w0 w1, pack2 w2 w3⟩ := rfl
theorem cvtsi32_eq (a : UInt32) : _mm_cvtsi32_si128 a = ⟨pack2 a 0, pack2 0 0⟩ := rfl
theorem unpacklo32_eq (a b : M128) : _mm_unpacklo_epi32 a b =
    ⟨pack2 (dwOf a.q0 0) (dwOf b.q0 0), pack2 (dwOf a.q0 1) (dwOf b.q0 1)⟩ := rfl
theorem unpackhi32_eq (a b : M128) : _mm_unpackhi_epi32 a b =
    ⟨pack2 (dwOf a.q1 0) (dwOf b.q1 0), pack2 (dwOf a.q1 1) (dwOf b.q1 1)⟩ := rfl
theorem unpacklo64_eq (a b : M128) : _mm_unpacklo_epi64 a b = ⟨a.q0, b.q0⟩ := rfl

theorem lo32_pack2 (x y : UInt32) : lo32 (pack2 x y) = x.toNat := by
  have := x.toNat_lt; have := y.toNat_lt
  rw [lo32, pack2_toNat]; omega
theorem pack2_div (x y : UInt32) : (pack2 x y).toNat / 2 ^ 32 = y.toNat := by
  have := x.toNat_lt; have := y.toNat_lt
  rw [pack2_toNat]; omega
theorem lane_mk (j : Bool) (x y : UInt64) : lane j ⟨x, y⟩ = if j then y else x := rfl

/-- lane `j` of the five words of `st->H` (`false`: the low halves `hh[0], hh[2], …`, `true`: the
    high halves `hh[1], hh[3], …`) -/
def stN (j : Bool) (w : L5 UInt64) : L5 Nat :=
  if j then ⟨w.l0.toNat / 2 ^ 32, w.l1.toNat / 2 ^ 32, w.l2.toNat / 2 ^ 32, w.l3.toNat / 2 ^ 32, w.l4.toNat / 2 ^ 32⟩
  else ⟨w.l0.toNat % 2 ^ 32, w.l1.toNat % 2 ^ 32, w.l2.toNat % 2 ^ 32, w.l3.toNat % 2 ^ 32, w.l4.toNat % 2 ^ 32⟩

theorem load_H_lane (j : Bool) (st : State) : hN j (blocks_load_H st) = stN j st.H := by
  cases j <;>
  simp only [hN, stN, blocks_load_H, shuf_1100, shuf_3322, lane_mk, lo32_pack2, dwOf0_toNat, dwOf1_toNat,
    Bool.false_eq_true, if_false, if_true] <;> rfl

theorem store_H_lane (j : Bool) (H : L5 M128) : stN j (blocks_store_H H) = hN j H := by
  cases j <;>
  simp only [hN, stN, blocks_store_H, shuf_0020, unpacklo64_eq, _mm_storeu_si128_u64, _mm_storel_epi64_u64,
    M128.epi64, lane, lo32, pack2_div, pack2_toNat, dwOf0_toNat, Bool.false_eq_true, if_false, if_true] <;>
  (congr 1 <;> omega)

theorem SOK_with_S (j : Bool) (R0 R1 R2 R3 R4 : M128) (h : RBound (kN j (with_S R0 R1 R2 R3 R4))) :
    SOK j (with_S R0 R1 R2 R3 R4) := by
  obtain ⟨_, h1, h2, h3, h4⟩ := h
  simp only [kN, with_S] at h1 h2 h3 h4
  simp only [SOK, with_S, lane_mul, lane_FIVE]
  have e : ∀ x : UInt64, lo32 x < 2 ^ 26 + 1 → lo32 (m32 x 5) = 5 * lo32 x := by
    intro x hx
    have e5 : lo32 5 = 5 := by decide
    rw [lo32, m32_toNat, e5]; omega
  exact ⟨e _ (by omega), e _ (by omega), e _ (by omega), e _ (by omega)⟩

/-- the multipliers in the `[r^2, r^2]` case: both lanes hold `R2` -/
theorem load_R2_plain (j : Bool) (st : State) (flags : UInt64)
    (hf : flags &&& (poly1305_final_r2_r ||| poly1305_final_r_1) = 0) :
    kN j (blocks_load_R2 st flags) = nat5 st.R2 := by
  have hf' : ¬ (flags &&& (poly1305_final_r2_r ||| poly1305_final_r_1) ≠ 0) := by simp [hf]
  cases j <;>
  simp only [blocks_load_R2, hf', if_false, kN, with_S, nat5, shuf_0000, shuf_1111, shuf_2222, shuf_3333,
    loadu_u32_eq, cvtsi32_eq, lane_mk, lo32_pack2, dwOf_pack2_0, dwOf_pack2_1, Bool.false_eq_true, if_true]

theorem load_R4_lane (j : Bool) (st : State) : kN j (blocks_load_R4 st) = nat5 st.R4 := by
  cases j <;>
  simp only [blocks_load_R4, kN, with_S, nat5, shuf_0000, shuf_1111, shuf_2222, shuf_3333,
    loadu_u32_eq, cvtsi32_eq, lane_mk, lo32_pack2, dwOf_pack2_0, dwOf_pack2_1, Bool.false_eq_true, if_false, if_true]

/-- the `[r^2, r]` case -/
theorem load_R2_r2r (j : Bool) (st : State) (flags : UInt64) (hf : flags &&& poly1305_final_r2_r ≠ 0)
    (hf2 : flags &&& (poly1305_final_r2_r ||| poly1305_final_r_1) ≠ 0) :
    kN j (blocks_load_R2 st flags) = if j then nat5 st.R else nat5 st.R2 := by
  rw [blocks_load_R2, if_pos hf2, if_pos hf]
  cases j <;>
  simp only [if_true, kN, with_S, nat5, shuf_1100, shuf_3322, unpacklo32_eq,
    unpackhi32_eq, unpacklo64_eq, loadu_u32_eq, cvtsi32_eq, lane_mk, lo32_pack2, dwOf_pack2_0, dwOf_pack2_1,
    Bool.false_eq_true, if_false]

/-- the `[r, 1]` case -/
theorem load_R2_r1 (j : Bool) (st : State) (flags : UInt64) (hf : ¬ (flags &&& poly1305_final_r2_r ≠ 0))
    (hf2 : flags &&& (poly1305_final_r2_r ||| poly1305_final_r_1) ≠ 0) :
    kN j (blocks_load_R2 st flags) = if j then ⟨1, 0, 0, 0, 0⟩ else nat5 st.R := by
  rw [blocks_load_R2, if_pos hf2, if_neg hf]
  cases j <;>
  simp only [if_true, if_false, kN, with_S, nat5, shuf_1100, shuf_3322, unpacklo32_eq,
    unpackhi32_eq, loadu_u32_eq, cvtsi32_eq, lane_mk, lo32_pack2, dwOf_pack2_0, dwOf_pack2_1,
    Bool.false_eq_true] <;> rfl

theorem load_R2_isS (st : State) (flags : UInt64) :
    ∃ R0 R1 R2 R3 R4, blocks_load_R2 st flags = with_S R0 R1 R2 R3 R4 := by
  unfold blocks_load_R2
  split
  · split <;> exact ⟨_, _, _, _, _, rfl⟩
  · exact ⟨_, _, _, _, _, rfl⟩

theorem load_R4_isS (st : State) : ∃ R0 R1 R2 R3 R4, blocks_load_R4 st = with_S R0 R1 R2 R3 R4 :=
  ⟨_, _, _, _, _, rfl⟩

theorem SOK_load_R2 (j : Bool) (st : State) (flags : UInt64) (h : RBound (kN j (blocks_load_R2 st flags))) :
    SOK j (blocks_load_R2 st flags) := by
  obtain ⟨R0, R1, R2, R3, R4, e⟩ := load_R2_isS st flags
  rw [e] at h ⊢
  exact SOK_with_S j _ _ _ _ _ h

theorem SOK_load_R4 (j : Bool) (st : State) (h : RBound (kN j (blocks_load_R4 st))) :
    SOK j (blocks_load_R4 st) := SOK_with_S j _ _ _ _ _ h

/-! ### the final lane addition, carry, `h − p` selection and pad addition -/

theorem srli_si128_8 (a : M128) : _mm_srli_si128 a 8 = ⟨a.q1, 0⟩ := by
  have h0 := a.q0.toNat_lt
  have h1 := a.q1.toNat_lt
  have e0 : (a.q0.toNat + 2 ^ 64 * a.q1.toNat) >>> 64 = a.q1.toNat := by
    rw [Nat.shiftRight_eq_div_pow]; omega
  show (⟨UInt64.ofNat (((a.q0.toNat + 2 ^ 64 * a.q1.toNat) >>> (8 * 8)) >>> (64 * 0)),
         UInt64.ofNat (((a.q0.toNat + 2 ^ 64 * a.q1.toNat) >>> (8 * 8)) >>> (64 * 1))⟩ : M128) = _
  have e1 : a.q1.toNat >>> 64 = 0 := by rw [Nat.shiftRight_eq_div_pow]; omega
  simp only [show 8 * 8 = 64 from rfl, e0, Nat.mul_zero, Nat.shiftRight_zero, Nat.mul_one, e1]
  congr 1
  exact UInt64.ofNat_toNat

/-- `H = H[0]+H[1]` and the 26-bit carry chain in `uint32_t`: t0 … t4 -/
def sumT (H : L5 M128) : L5 UInt32 :=
  let T0 := H.l0
  let T1 := H.l1
  let T2 := H.l2
  let T3 := H.l3
  let T4 := H.l4
  let T0 := _mm_add_epi64 T0 (_mm_srli_si128 T0 8)
  let T1 := _mm_add_epi64 T1 (_mm_srli_si128 T1 8)
  let T2 := _mm_add_epi64 T2 (_mm_srli_si128 T2 8)
  let T3 := _mm_add_epi64 T3 (_mm_srli_si128 T3 8)
  let T4 := _mm_add_epi64 T4 (_mm_srli_si128 T4 8)
  let t0 := _mm_cvtsi128_si32 T0
  let b := t0 >>> 26
  let t0 := t0 &&& 0x3ffffff
  let t1 := _mm_cvtsi128_si32 T1 + b
  let b := t1 >>> 26
  let t1 := t1 &&& 0x3ffffff
  let t2 := _mm_cvtsi128_si32 T2 + b
  let b := t2 >>> 26
  let t2 := t2 &&& 0x3ffffff
  let t3 := _mm_cvtsi128_si32 T3 + b
  let b := t3 >>> 26
  let t3 := t3 &&& 0x3ffffff
  let t4 := _mm_cvtsi128_si32 T4 + b
  ⟨t0, t1, t2, t3, t4⟩

/-- 26-bit limbs to 44/44/42-bit limbs -/
def to44 (t : L5 UInt32) : UInt64 × UInt64 × UInt64 :=
  let t0 := t.l0
  let t1 := t.l1
  let t2 := t.l2
  let t3 := t.l3
  let t4 := t.l4
  let h0 := (t0.toUInt64 ||| (t1.toUInt64 <<< 26)) &&& 0xfffffffffff
  let h1 := ((t1.toUInt64 >>> 18) ||| (t2.toUInt64 <<< 8) ||| (t3.toUInt64 <<< 34)) &&& 0xfffffffffff
  let h2 := (t3.toUInt64 >>> 10) ||| (t4.toUInt64 <<< 16)
  (h0, h1, h2)

/-- the two carry rounds -/
def carry2 (h : UInt64 × UInt64 × UInt64) : UInt64 × UInt64 × UInt64 :=
  let h0 := h.1
  let h1 := h.2.1
  let h2 := h.2.2
  let c := h2 >>> 42
  let h2 := h2 &&& 0x3ffffffffff
  let h0 := h0 + c * 5
  let c := h0 >>> 44
  let h0 := h0 &&& 0xfffffffffff
  let h1 := h1 + c
  let c := h1 >>> 44
  let h1 := h1 &&& 0xfffffffffff
  let h2 := h2 + c
  let c := h2 >>> 42
  let h2 := h2 &&& 0x3ffffffffff
  let h0 := h0 + c * 5
  let c := h0 >>> 44
  let h0 := h0 &&& 0xfffffffffff
  let h1 := h1 + c
  (h0, h1, h2)

/-- `g = h + 5 − 2^130` and the selection through `optblocker_u64` -/
def selP (h : UInt64 × UInt64 × UInt64) : UInt64 × UInt64 × UInt64 :=
  let h0 := h.1
  let h1 := h.2.1
  let h2 := h.2.2
  let g0 := h0 + 5
  let c := g0 >>> 44
  let g0 := g0 &&& 0xfffffffffff
  let g1 := h1 + c
  let c := g1 >>> 44
  let g1 := g1 &&& 0xfffffffffff
  let g2 := h2 + c - ((1 : UInt64) <<< 42)
  let c := (((g2 >>> 61) ^^^ optblocker_u64) >>> 2) - 1
  let nc := ~~~c
  let h0 := (h0 &&& nc) ||| (g0 &&& c)
  let h1 := (h1 &&& nc) ||| (g1 &&& c)
  let h2 := (h2 &&& nc) ||| (g2 &&& c)
  (h0, h1, h2)

theorem final_H_eq (H : L5 M128) (old : L5 UInt64) :
    blocks_final_H H old =
      ⟨(selP (carry2 (to44 (sumT H)))).1, (selP (carry2 (to44 (sumT H)))).2.1,
       (selP (carry2 (to44 (sumT H)))).2.2, old.l3, old.l4⟩ := rfl

theorem shr61_2 (x : UInt64) : ((x >>> 61) ^^^ optblocker_u64) >>> 2 = x >>> 63 := by
  apply UInt64.toNat_inj.mp
  have h := x.toNat_lt
  have e61 : (x >>> 61).toNat = x.toNat / 2 ^ 61 := PolyDonnaP.shr_toNat x 61
  have e63 : (x >>> 63).toNat = x.toNat / 2 ^ 63 := PolyDonnaP.shr_toNat x 63
  have e2 : ∀ y : UInt64, (y >>> 2).toNat = y.toNat / 2 ^ 2 := fun y => PolyDonnaP.shr_toNat y 2
  rw [e2, e63, optblocker_u64, UInt64.xor_zero, e61]
  omega

theorem selP_eq_subP (h : UInt64 × UInt64 × UInt64) : selP h = PolyDonnaP.subP h := by
  obtain ⟨h0, h1, h2⟩ := h
  simp only [selP, PolyDonnaP.subP, shr61_2]

theorem u32_shr26 (x : UInt32) : (x >>> 26).toNat = x.toNat / 2 ^ 26 := by
  rw [UInt32.toNat_shiftRight, Nat.shiftRight_eq_div_pow]; rfl

/-- bounds of t0 … t4: "everything except t4 is in range" -/
def RBound' (k : L5 Nat) : Prop :=
  k.l0 < 2 ^ 26 ∧ k.l1 < 2 ^ 26 ∧ k.l2 < 2 ^ 26 ∧ k.l3 < 2 ^ 26 ∧ k.l4 < 2 ^ 28

theorem sumT_spec (H : L5 M128) (hA : HBound (toNat5 false H)) (hB : HBound (toNat5 true H)) :
    RBound' (nat5 (sumT H)) ∧
    val26 (nat5 (sumT H)) = val26 (toNat5 false H) + val26 (toNat5 true H) := by
  obtain ⟨a0, a1, a2, a3, a4⟩ := hA
  obtain ⟨b0, b1, b2, b3, b4⟩ := hB
  simp only [toNat5, lane, Bool.false_eq_true, if_false, if_true] at a0 a1 a2 a3 a4 b0 b1 b2 b3 b4
  have cv : ∀ X : M128, (_mm_cvtsi128_si32 (_mm_add_epi64 X (_mm_srli_si128 X 8))).toNat
      = (X.q0.toNat + X.q1.toNat) % 2 ^ 64 % 2 ^ 32 := by
    intro X
    rw [srli_si128_8]
    show (dwOf (X.q0 + X.q1) 0).toNat = _
    rw [dwOf0_toNat, UInt64.toNat_add]
  simp only [RBound', nat5, sumT, val26, toNat5, lane, Bool.false_eq_true, if_false, if_true,
    UInt32.toNat_add, u32_and26, u32_shr26, cv]
  generalize H.l0.q0.toNat = x0 at *
  generalize H.l1.q0.toNat = x1 at *
  generalize H.l2.q0.toNat = x2 at *
  generalize H.l3.q0.toNat = x3 at *
  generalize H.l4.q0.toNat = x4 at *
  generalize H.l0.q1.toNat = y0 at *
  generalize H.l1.q1.toNat = y1 at *
  generalize H.l2.q1.toNat = y2 at *
  generalize H.l3.q1.toNat = y3 at *
  generalize H.l4.q1.toNat = y4 at *
  have e0 : (x0 + y0) % 2 ^ 64 % 2 ^ 32 = x0 + y0 := by omega
  have e1 : (x1 + y1) % 2 ^ 64 % 2 ^ 32 = x1 + y1 := by omega
  have e2 : (x2 + y2) % 2 ^ 64 % 2 ^ 32 = x2 + y2 := by omega
  have e3 : (x3 + y3) % 2 ^ 64 % 2 ^ 32 = x3 + y3 := by omega
  have e4 : (x4 + y4) % 2 ^ 64 % 2 ^ 32 = x4 + y4 := by omega
  simp only [e0, e1, e2, e3, e4]
  clear e0 e1 e2 e3 e4
  obtain ⟨s0, hs0⟩ : ∃ s, s = x0 + y0 := ⟨_, rfl⟩
  rw [← hs0]
  have f1 : (x1 + y1 + s0 / 2 ^ 26) % 2 ^ 32 = x1 + y1 + s0 / 2 ^ 26 := by omega
  simp only [f1]
  clear f1
  obtain ⟨s1, hs1⟩ : ∃ s, s = x1 + y1 + s0 / 2 ^ 26 := ⟨_, rfl⟩
  rw [← hs1]
  have f2 : (x2 + y2 + s1 / 2 ^ 26) % 2 ^ 32 = x2 + y2 + s1 / 2 ^ 26 := by omega
  simp only [f2]
  clear f2
  obtain ⟨s2, hs2⟩ : ∃ s, s = x2 + y2 + s1 / 2 ^ 26 := ⟨_, rfl⟩
  rw [← hs2]
  have f3 : (x3 + y3 + s2 / 2 ^ 26) % 2 ^ 32 = x3 + y3 + s2 / 2 ^ 26 := by omega
  simp only [f3]
  clear f3
  obtain ⟨s3, hs3⟩ : ∃ s, s = x3 + y3 + s2 / 2 ^ 26 := ⟨_, rfl⟩
  rw [← hs3]
  have f4 : (x4 + y4 + s3 / 2 ^ 26) % 2 ^ 32 = x4 + y4 + s3 / 2 ^ 26 := by omega
  simp only [f4]
  clear f4
  refine ⟨⟨?_, ?_, ?_, ?_, ?_⟩, ?_⟩ <;> omega

theorem to44_spec (t : L5 UInt32) (h : RBound' (nat5 t)) :
    (to44 t).1.toNat < 2 ^ 44 ∧ (to44 t).2.1.toNat < 2 ^ 44 ∧ (to44 t).2.2.toNat < 2 ^ 45 ∧
    val (to44 t) = val26 (nat5 t) := by
  obtain ⟨b0, b1, b2, b3, b4⟩ := h
  simp only [nat5] at b0 b1 b2 b3 b4
  have s18 : (t.l1.toUInt64 >>> 18).toNat = t.l1.toNat / 2 ^ 18 := by
    rw [PolyDonnaP.shr_toNat]; rfl
  have s10 : (t.l3.toUInt64 >>> 10).toNat = t.l3.toNat / 2 ^ 10 := by
    rw [PolyDonnaP.shr_toNat]; rfl
  have o0 := PolyDonnaP.or_shl_nat t.l0.toNat t.l1.toNat 26 64 b0 (by omega)
  have o1 := PolyDonnaP.or_shl_nat (t.l1.toNat / 2 ^ 18) t.l2.toNat 8 64 (by omega) (by omega)
  have o2 := PolyDonnaP.or_shl_nat (t.l1.toNat / 2 ^ 18 + t.l2.toNat % 2 ^ (64 - 8) * 2 ^ 8) t.l3.toNat 34 64
    (by omega) (by omega)
  have o3 := PolyDonnaP.or_shl_nat (t.l3.toNat / 2 ^ 10) t.l4.toNat 16 64 (by omega) (by omega)
  have c26 : (26 : UInt64).toNat % 64 = 26 := by decide
  have c8 : (8 : UInt64).toNat % 64 = 8 := by decide
  have c34 : (34 : UInt64).toNat % 64 = 34 := by decide
  have c16 : (16 : UInt64).toNat % 64 = 16 := by decide
  simp only [to44, val, val26, nat5, PolyDonnaP.lo44, UInt64.toNat_or, UInt64.toNat_shiftLeft, s18, s10,
    UInt32.toNat_toUInt64, c26, c8, c34, c16, o0, o1, o2, o3]
  refine ⟨?_, ?_, ?_, ?_⟩ <;> omega

theorem carry2_spec (h0 h1 h2 : UInt64)
    (b0 : h0.toNat < 2 ^ 44) (b1 : h1.toNat < 2 ^ 44) (b2 : h2.toNat < 2 ^ 45) :
    (carry2 (h0, h1, h2)).1.toNat < 2 ^ 44 ∧ (carry2 (h0, h1, h2)).2.1.toNat < 2 ^ 44 ∧
    (carry2 (h0, h1, h2)).2.2.toNat < 2 ^ 42 ∧
    ∃ k, val (carry2 (h0, h1, h2)) + (2 ^ 130 - 5) * k = val (h0, h1, h2) := by
  simp only [carry2, val, UInt64.toNat_add, PolyDonnaP.lo44, PolyDonnaP.lo42, PolyDonnaP.shr44,
    PolyDonnaP.shr42, PolyDonnaP.mul5]
  obtain ⟨c1, hc1⟩ : ∃ c, c = h2.toNat / 2 ^ 42 := ⟨_, rfl⟩
  rw [← hc1]
  have e1 : (h0.toNat + c1 * 5 % 2 ^ 64) % 2 ^ 64 = h0.toNat + c1 * 5 := by omega
  rw [e1]
  obtain ⟨c2, hc2⟩ : ∃ c, c = (h0.toNat + c1 * 5) / 2 ^ 44 := ⟨_, rfl⟩
  rw [← hc2]
  have e2 : (h1.toNat + c2) % 2 ^ 64 = h1.toNat + c2 := by omega
  rw [e2]
  obtain ⟨c3, hc3⟩ : ∃ c, c = (h1.toNat + c2) / 2 ^ 44 := ⟨_, rfl⟩
  rw [← hc3]
  have e3 : (h2.toNat % 2 ^ 42 + c3) % 2 ^ 64 = h2.toNat % 2 ^ 42 + c3 := by omega
  rw [e3]
  obtain ⟨c4, hc4⟩ : ∃ c, c = (h2.toNat % 2 ^ 42 + c3) / 2 ^ 42 := ⟨_, rfl⟩
  rw [← hc4]
  have e4 : ((h0.toNat + c1 * 5) % 2 ^ 44 + c4 * 5 % 2 ^ 64) % 2 ^ 64 = (h0.toNat + c1 * 5) % 2 ^ 44 + c4 * 5 := by
    omega
  rw [e4]
  obtain ⟨c5, hc5⟩ : ∃ c, c = ((h0.toNat + c1 * 5) % 2 ^ 44 + c4 * 5) / 2 ^ 44 := ⟨_, rfl⟩
  rw [← hc5]
  have e5 : ((h1.toNat + c2) % 2 ^ 44 + c5) % 2 ^ 64 = (h1.toNat + c2) % 2 ^ 44 + c5 := by omega
  rw [e5]
  refine ⟨by omega, by omega, by omega, c1 + c4, by omega⟩

/-- `m == NULL`: the three words written to `st->H.h[0 … 2]` are the canonical residue of the sum of
    the two lanes, as 44/44/42-bit limbs -/
theorem final_H_spec (H : L5 M128) (old : L5 UInt64)
    (hA : HBound (toNat5 false H)) (hB : HBound (toNat5 true H)) :
    let F := blocks_final_H H old
    F.l0.toNat < 2 ^ 44 ∧ F.l1.toNat < 2 ^ 44 ∧ F.l2.toNat < 2 ^ 42 ∧
    val (F.l0, F.l1, F.l2) = (val26 (toNat5 false H) + val26 (toNat5 true H)) % (2 ^ 130 - 5) := by
  obtain ⟨tb, tv⟩ := sumT_spec H hA hB
  obtain ⟨a0, a1, a2, av⟩ := to44_spec (sumT H) tb
  obtain ⟨x0, x1, x2, hx⟩ : ∃ x0 x1 x2, to44 (sumT H) = (x0, x1, x2) := ⟨_, _, _, rfl⟩
  rw [hx] at a0 a1 a2 av
  obtain ⟨c0, c1, c2, k, ck⟩ := carry2_spec x0 x1 x2 a0 a1 a2
  obtain ⟨y0, y1, y2, hy⟩ : ∃ y0 y1 y2, carry2 (x0, x1, x2) = (y0, y1, y2) := ⟨_, _, _, rfl⟩
  rw [hy] at c0 c1 c2 ck
  obtain ⟨s0, s1, s2, sv⟩ := PolyDonnaP.subP_spec y0 y1 y2 c0 c1 c2
  simp only [final_H_eq, hx, hy, selP_eq_subP]
  refine ⟨s0, s1, s2, ?_⟩
  rw [← tv, ← av]
  show val (PolyDonnaP.subP (y0, y1, y2)) = _
  rw [sv, ← ck, Nat.add_mul_mod_self_left]

/-- the pad addition and the two stores of `poly1305_finish_ext` -/
def finish_tail (h0 h1 h2 : UInt64) (pad : UInt64 × UInt64) : Bytes :=
  let h0' := h0 ||| (h1 <<< 44)
  let h1' := (h1 >>> 20) ||| (h2 <<< 24)
  let a0 := adc64 h0' pad.1 false
  let a1 := adc64 h1' pad.2 a0.2
  store64 a0.1 ++ store64 a1.1

theorem finish_tail_spec (h0 h1 h2 : UInt64) (pad : UInt64 × UInt64)
    (b0 : h0.toNat < 2 ^ 44) (b1 : h1.toNat < 2 ^ 44) (_b2 : h2.toNat < 2 ^ 42) :
    finish_tail h0 h1 h2 pad =
      toLE 16 ((val (h0, h1, h2) + (pad.1.toNat + 2 ^ 64 * pad.2.toNat)) % 2 ^ 128) := by
  have u0 := pad.1.toNat_lt
  have u1 := pad.2.toNat_lt
  have l1 : (h1 >>> 20).toNat < 2 ^ 24 := by rw [PolyDonnaP.shr20]; omega
  have e0 := PolyDonnaP.or_shl44 h0 h1 b0
  have e1 := PolyDonnaP.or_shl24 (h1 >>> 20) h2 l1
  rw [PolyDonnaP.shr20] at e1
  have s0 := adc64_spec (h0 ||| (h1 <<< 44)) pad.1 false
  have s1 := adc64_spec ((h1 >>> 20) ||| (h2 <<< 24)) pad.2 (adc64 (h0 ||| (h1 <<< 44)) pad.1 false).2
  unfold finish_tail
  simp only []
  apply PolyDonnaP.store_pair
  rw [Nat.mod_mod]
  have t0 := (adc64 (h0 ||| (h1 <<< 44)) pad.1 false).1.toNat_lt
  have t1 := (adc64 ((h1 >>> 20) ||| (h2 <<< 24)) pad.2 (adc64 (h0 ||| (h1 <<< 44)) pad.1 false).2).1.toNat_lt
  rw [e0] at s0
  rw [e1] at s1
  simp only [val]
  generalize (adc64 ((h1 >>> 20) ||| (h2 <<< 24)) pad.2 (adc64 (h0 ||| (h1 <<< 44)) pad.1 false).2).1.toNat = r1 at *
  generalize (if (adc64 ((h1 >>> 20) ||| (h2 <<< 24)) pad.2 (adc64 (h0 ||| (h1 <<< 44)) pad.1 false).2).2 = true then 1 else 0) = cf1 at s1
  generalize (adc64 (h0 ||| (h1 <<< 44)) pad.1 false).1.toNat = r0 at *
  have hc : (if (adc64 (h0 ||| (h1 <<< 44)) pad.1 false).2 = true then (1 : Nat) else 0) ≤ 1 := by split <;> omega
  generalize (if (adc64 (h0 ||| (h1 <<< 44)) pad.1 false).2 = true then (1 : Nat) else 0) = cf0 at *
  simp only [Bool.false_eq_true, if_false] at s0
  omega

/-! ### `poly1305_blocks` unfolded -/

/-- HIBIT as selected by the shift flags -/
def hibitOf (flags : UInt64) : M128 :=
  let HIBIT := HIBIT0
  let HIBIT := if flags &&& poly1305_final_shift8 ≠ 0 then _mm_srli_si128 HIBIT 8 else HIBIT
  if flags &&& poly1305_final_shift16 ≠ 0 then _mm_setzero_si128 else HIBIT

theorem blocks_some_eq (st : State) (m : Bytes) (bytes : Nat) :
    poly1305_blocks st (some m) bytes =
      (let HIBIT := hibitOf st.flags
       let s1 : L5 M128 × Bytes × Nat × UInt64 :=
         if st.flags &&& poly1305_started = 0 then
           (blocks_first HIBIT m, m.drop 32, bytes - 32, st.flags ||| poly1305_started)
         else (blocks_load_H st, m, bytes, st.flags)
       let K2 := blocks_load_R2 st s1.2.2.2
       let s2 : L5 M128 × Bytes × Nat :=
         if s1.2.2.1 ≥ 64 then blocks_main_loop HIBIT K2 (blocks_load_R4 st) s1.2.2.1 s1.1 s1.2.1 s1.2.2.1
         else (s1.1, s1.2.1, s1.2.2.1)
       let H := if s2.2.2 ≥ 32 then blocks_tail HIBIT K2 s2.1 (some s2.2.1) else s2.1
       { st with H := blocks_store_H H, flags := s1.2.2.2 }) := rfl

theorem blocks_none_eq (st : State) (hs : st.flags &&& poly1305_started ≠ 0) :
    poly1305_blocks st none 32 =
      { st with H := blocks_final_H (blocks_tail (hibitOf st.flags) (blocks_load_R2 st st.flags)
          (blocks_load_H st) none) st.H } := by
  have hs' : ¬ (st.flags &&& poly1305_started = 0) := hs
  unfold poly1305_blocks
  simp only [hs', if_false, Option.map_none, show ¬ ((32 : Nat) ≥ 64) by omega, ge_iff_le, Nat.le_refl, if_true]
  rfl

/-- the multiplier of lane `j` in the final multiplication -/
def finalK (st : State) (j : Bool) : L5 Nat :=
  if st.flags &&& poly1305_final_r2_r ≠ 0 then (if j then nat5 st.R else nat5 st.R2)
  else (if j then ⟨1, 0, 0, 0, 0⟩ else nat5 st.R)

theorem rbound_one : RBound (⟨1, 0, 0, 0, 0⟩ : L5 Nat) := by
  simp only [RBound]; omega

/-- (3) the final call `poly1305_blocks(st, NULL, 32)`: the lanes are multiplied by (r^2, r) resp.
    (r, 1), added, fully carried and reduced: `h[0 … 2]` hold the canonical residue -/
theorem blocks_null_spec (st : State) (hs : st.flags &&& poly1305_started ≠ 0)
    (hf : st.flags &&& (poly1305_final_r2_r ||| poly1305_final_r_1) ≠ 0)
    (hA : HBound (stN false st.H)) (hB : HBound (stN true st.H))
    (hR : RBound (nat5 st.R)) (hR2 : st.flags &&& poly1305_final_r2_r ≠ 0 → RBound (nat5 st.R2)) :
    let st' := poly1305_blocks st none 32
    st'.H.l0.toNat < 2 ^ 44 ∧ st'.H.l1.toNat < 2 ^ 44 ∧ st'.H.l2.toNat < 2 ^ 42 ∧
    val (st'.H.l0, st'.H.l1, st'.H.l2) =
      (val26 (stN false st.H) * val26 (finalK st false) + val26 (stN true st.H) * val26 (finalK st true))
        % (2 ^ 130 - 5) ∧
    st'.pad = st.pad := by
  have hk : ∀ j, kN j (blocks_load_R2 st st.flags) = finalK st j ∧ RBound (finalK st j) := by
    intro j
    by_cases h2 : st.flags &&& poly1305_final_r2_r ≠ 0
    · rw [load_R2_r2r j st _ h2 hf]
      simp only [finalK, if_pos h2]
      cases j
      · exact ⟨trivial, hR2 h2⟩
      · exact ⟨trivial, hR⟩
    · rw [load_R2_r1 j st _ h2 hf]
      simp only [finalK, if_neg h2]
      cases j
      · exact ⟨trivial, hR⟩
      · exact ⟨trivial, rbound_one⟩
  rw [blocks_none_eq st hs]
  have tl : ∀ j, HBound (toNat5 j (blocks_tail (hibitOf st.flags) (blocks_load_R2 st st.flags) (blocks_load_H st) none)) ∧
      ∃ k, val26 (toNat5 j (blocks_tail (hibitOf st.flags) (blocks_load_R2 st st.flags) (blocks_load_H st) none))
        + (2 ^ 130 - 5) * k = val26 (stN j st.H) * val26 (finalK st j) := by
    intro j
    have hkj := hk j
    have hb : RBound (kN j (blocks_load_R2 st st.flags)) := by rw [hkj.1]; exact hkj.2
    have := tail_none_lane j (hibitOf st.flags) (blocks_load_R2 st st.flags) (blocks_load_H st)
      (SOK_load_R2 j st _ hb) hb (by rw [load_H_lane]; cases j; exact hA; exact hB)
    rw [load_H_lane, hkj.1] at this
    exact this
  obtain ⟨bA, kA, eA⟩ := tl false
  obtain ⟨bB, kB, eB⟩ := tl true
  obtain ⟨f0, f1, f2, fv⟩ := final_H_spec _ st.H bA bB
  refine ⟨f0, f1, f2, ?_, rfl⟩
  simp only at fv ⊢
  rw [fv, ← eA, ← eB]
  generalize val26 (toNat5 false _) = a
  generalize val26 (toNat5 true _) = b
  rw [show a + (2 ^ 130 - 5) * kA + (b + (2 ^ 130 - 5) * kB) = a + b + (2 ^ 130 - 5) * (kA + kB) by
    rw [Nat.mul_add]; omega]
  rw [Nat.add_mul_mod_self_left]

/-! ### the Horner invariant of `poly1305_blocks` (in `ZMod (2^130 − 5)`) -/

abbrev F := ZMod (2 ^ 130 - 5)

theorem castF {a k b : Nat} (h : a + (2 ^ 130 - 5) * k = b) : (a : F) = (b : F) := by
  rw [← h, Nat.cast_add, Nat.cast_mul, ZMod.natCast_self, zero_mul, add_zero]

/-- value of five limbs in the field -/
def vF (l : L5 Nat) : F := (val26 l : F)
/-- a full 16-byte block with its 2^128 bit, in the field -/
def cF (m : Bytes) : F := ((blkVal m + 2 ^ 24 * 2 ^ 104 : Nat) : F)
/-- the accumulator the two lanes stand for: `a·r^2 + b·r` -/
def AF (r : F) (H : L5 M128) : F := vF (hN false H) * r ^ 2 + vF (hN true H) * r
def HB (H : L5 M128) : Prop := HBound (hN false H) ∧ HBound (hN true H)

/-- RFC 8439 Horner steps over `k` full 16-byte blocks of `m` -/
def horner16 (r : F) : Nat → F → Bytes → F
  | 0, A, _ => A
  | k + 1, A, m => horner16 r k ((A + cF m) * r) (m.drop 16)

theorem horner16_add (r : F) : ∀ (a b : Nat) (A : F) (m : Bytes),
    horner16 r (a + b) A m = horner16 r b (horner16 r a A m) (m.drop (16 * a))
  | 0, b, A, m => by simp [horner16]
  | a + 1, b, A, m => by
    rw [show a + 1 + b = (a + b) + 1 by omega]
    simp only [horner16]
    rw [horner16_add r a b, List.drop_drop]
    congr 2
    omega

theorem horner16_two (r A : F) (m : Bytes) :
    horner16 r 2 A m = ((A + cF m) * r + cF (m.drop 16)) * r := by
  simp [horner16]

theorem horner16_four (r A : F) (m : Bytes) :
    horner16 r 4 A m = ((((A + cF m) * r + cF (m.drop 16)) * r + cF (m.drop 32)) * r + cF (m.drop 48)) * r := by
  simp [horner16, List.drop_drop]

theorem hibOK0 (j : Bool) : HibOK j HIBIT0 := by
  right; rw [lane_HIBIT0]; decide

theorem hN_of_hbound (j : Bool) (X : L5 M128) (h : HBound (toNat5 j X)) : hN j X = toNat5 j X :=
  hN_of_lt j X (lt5_mono (hbound_lt5 h) (by omega))

/-- hypotheses on a pair of multiplier registers: both lanes hold the limbs `k` of a power of r -/
def MultOK (K : Mult) (k : L5 Nat) : Prop := RBound k ∧ ∀ j, kN j K = k ∧ SOK j K

theorem cF_blk (j : Bool) (a b : Bytes) :
    ((blkVal (blk j a b) + (lane j HIBIT0).toNat * 2 ^ 104 : Nat) : F) = cF (blk j a b) := by
  rw [lane_HIBIT0]; rfl

/-- one 64-byte iteration advances the Horner accumulator by four blocks -/
theorem body_F (r : F) (K2 K4 : Mult) (k2 k4 : L5 Nat) (h2 : MultOK K2 k2) (h4 : MultOK K4 k4)
    (e2 : vF k2 = r ^ 2) (e4 : vF k4 = r ^ 4) (H : L5 M128) (m : Bytes) (hH : HB H) :
    HB (blocks_main_body HIBIT0 K2 K4 H m) ∧
    AF r (blocks_main_body HIBIT0 K2 K4 H m) = horner16 r 4 (AF r H) m := by
  have lj : ∀ j, HBound (toNat5 j (blocks_main_body HIBIT0 K2 K4 H m)) ∧
      vF (toNat5 j (blocks_main_body HIBIT0 K2 K4 H m)) =
        vF (hN j H) * r ^ 4 + cF (blk j (m.drop 0) (m.drop 16)) * r ^ 2 + cF (blk j (m.drop 32) (m.drop 48)) := by
    intro j
    obtain ⟨a2, b2⟩ := h2.2 j
    obtain ⟨a4, b4⟩ := h4.2 j
    obtain ⟨hb, k, hk⟩ := main_body_lane j HIBIT0 K2 K4 H m b2 b4 (by rw [a2]; exact h2.1) (by rw [a4]; exact h4.1)
      (by cases j; exact hH.1; exact hH.2) (hibOK0 j)
    refine ⟨hb, ?_⟩
    have := castF hk
    rw [a2, a4] at this
    simp only [vF]
    rw [this, Nat.cast_add, Nat.cast_add, Nat.cast_mul, Nat.cast_mul, cF_blk, cF_blk]
    simp only [vF] at e2 e4
    rw [e2, e4]
  obtain ⟨bA, vA⟩ := lj false
  obtain ⟨bB, vB⟩ := lj true
  refine ⟨⟨by rw [hN_of_hbound _ _ bA]; exact bA, by rw [hN_of_hbound _ _ bB]; exact bB⟩, ?_⟩
  rw [horner16_four]
  simp only [AF]
  rw [hN_of_hbound _ _ bA, hN_of_hbound _ _ bB, vA, vB]
  simp only [blk, Bool.false_eq_true, if_false, if_true, List.drop_zero]
  ring

/-- the `if (bytes >= 32)` block advances it by two blocks -/
theorem tail_F (r : F) (K2 : Mult) (k2 : L5 Nat) (h2 : MultOK K2 k2) (e2 : vF k2 = r ^ 2)
    (H : L5 M128) (m : Bytes) (hH : HB H) :
    HB (blocks_tail HIBIT0 K2 H (some m)) ∧
    AF r (blocks_tail HIBIT0 K2 H (some m)) = horner16 r 2 (AF r H) m := by
  have lj : ∀ j, HBound (toNat5 j (blocks_tail HIBIT0 K2 H (some m))) ∧
      vF (toNat5 j (blocks_tail HIBIT0 K2 H (some m))) =
        vF (hN j H) * r ^ 2 + cF (blk j (m.drop 0) (m.drop 16)) := by
    intro j
    obtain ⟨a2, b2⟩ := h2.2 j
    obtain ⟨hb, k, hk⟩ := tail_some_lane j HIBIT0 K2 H m b2 (by rw [a2]; exact h2.1)
      (by cases j; exact hH.1; exact hH.2) (hibOK0 j)
    refine ⟨hb, ?_⟩
    have := castF hk
    rw [a2] at this
    simp only [vF]
    rw [this, Nat.cast_add, Nat.cast_mul, cF_blk]
    simp only [vF] at e2
    rw [e2]
  obtain ⟨bA, vA⟩ := lj false
  obtain ⟨bB, vB⟩ := lj true
  refine ⟨⟨by rw [hN_of_hbound _ _ bA]; exact bA, by rw [hN_of_hbound _ _ bB]; exact bB⟩, ?_⟩
  rw [horner16_two]
  simp only [AF]
  rw [hN_of_hbound _ _ bA, hN_of_hbound _ _ bB, vA, vB]
  simp only [blk, Bool.false_eq_true, if_false, if_true, List.drop_zero]
  ring

/-- the first 32 bytes: `H = [Mx,My]` stands for two Horner steps from 0 -/
theorem first_F (r : F) (m : Bytes) :
    HB (blocks_first HIBIT0 m) ∧ AF r (blocks_first HIBIT0 m) = horner16 r 2 0 m := by
  have lj : ∀ j, HBound (toNat5 j (blocks_first HIBIT0 m)) ∧
      vF (toNat5 j (blocks_first HIBIT0 m)) = cF (blk j (m.drop 0) (m.drop 16)) := by
    intro j
    obtain ⟨lt, v⟩ := first_val j HIBIT0 m (hibOK0 j)
    obtain ⟨l0, l1, l2, l3, l4⟩ := lt
    refine ⟨⟨l0, by omega, l2, l3, by omega⟩, ?_⟩
    simp only [vF]
    rw [v, cF_blk]
  obtain ⟨bA, vA⟩ := lj false
  obtain ⟨bB, vB⟩ := lj true
  refine ⟨⟨by rw [hN_of_hbound _ _ bA]; exact bA, by rw [hN_of_hbound _ _ bB]; exact bB⟩, ?_⟩
  rw [horner16_two]
  simp only [AF]
  rw [hN_of_hbound _ _ bA, hN_of_hbound _ _ bB, vA, vB]
  simp only [blk, Bool.false_eq_true, if_false, if_true, List.drop_zero]
  ring

/-- the whole `while (bytes >= 64)` loop: `n` iterations advance the accumulator by `4n` blocks -/
theorem loop_F (r : F) (K2 K4 : Mult) (k2 k4 : L5 Nat) (h2 : MultOK K2 k2) (h4 : MultOK K4 k4)
    (e2 : vF k2 = r ^ 2) (e4 : vF k4 = r ^ 4) :
    ∀ (fuel : Nat) (H : L5 M128) (m : Bytes) (bytes : Nat), HB H → bytes / 64 ≤ fuel →
      HB (blocks_main_loop HIBIT0 K2 K4 fuel H m bytes).1 ∧
      (blocks_main_loop HIBIT0 K2 K4 fuel H m bytes).2.1 = m.drop (64 * (bytes / 64)) ∧
      (blocks_main_loop HIBIT0 K2 K4 fuel H m bytes).2.2 = bytes % 64 ∧
      AF r (blocks_main_loop HIBIT0 K2 K4 fuel H m bytes).1 = horner16 r (4 * (bytes / 64)) (AF r H) m
  | 0, H, m, bytes, hH, hf => by
    have : bytes / 64 = 0 := by omega
    simp only [blocks_main_loop, this, Nat.mul_zero, List.drop_zero, horner16]
    exact ⟨hH, trivial, by omega, trivial⟩
  | fuel + 1, H, m, bytes, hH, hf => by
    simp only [blocks_main_loop]
    by_cases hb : bytes ≥ 64
    · simp only [hb, if_true]
      obtain ⟨hB, hA⟩ := body_F r K2 K4 k2 k4 h2 h4 e2 e4 H m hH
      obtain ⟨i1, i2, i3, i4⟩ := loop_F r K2 K4 k2 k4 h2 h4 e2 e4 fuel _ (m.drop 64) (bytes - 64) hB (by omega)
      have hq : bytes / 64 = (bytes - 64) / 64 + 1 := by omega
      refine ⟨i1, ?_, by omega, ?_⟩
      · rw [i2, List.drop_drop]; congr 1; omega
      · rw [i4, hA, hq, show 4 * ((bytes - 64) / 64 + 1) = 4 + 4 * ((bytes - 64) / 64) by omega,
          horner16_add]
    · simp only [hb, if_false]
      have : bytes / 64 = 0 := by omega
      simp only [this, Nat.mul_zero, List.drop_zero, horner16]
      exact ⟨hH, trivial, by omega, trivial⟩

theorem drop_congr (m : Bytes) {a b : Nat} (h : a = b) : m.drop a = m.drop b := by rw [h]

theorem horner_compose3 (r X : F) (m : Bytes) (q t : Nat) :
    horner16 r (2 * t) (horner16 r (4 * q) (horner16 r 2 X m) (m.drop 32)) (m.drop (32 + 64 * q))
      = horner16 r (2 + (4 * q + 2 * t)) X m := by
  rw [horner16_add, horner16_add, List.drop_drop, drop_congr m (show 16 * 2 = 32 from rfl),
    drop_congr m (show 16 * 2 + 16 * (4 * q) = 32 + 64 * q by omega)]

theorem horner_compose2 (r X : F) (m : Bytes) (q t : Nat) :
    horner16 r (2 * t) (horner16 r (4 * q) X m) (m.drop (64 * q))
      = horner16 r (4 * q + 2 * t) X m := by
  rw [horner16_add, drop_congr m (show 16 * (4 * q) = 64 * q by omega)]

/-! ### `poly1305_blocks` on message data: the state-level Horner invariant -/

theorem loop_F' (r : F) (K2 K4 : Mult) (k2 k4 : L5 Nat) (H : L5 M128) (m : Bytes) (bytes : Nat) (hH : HB H)
    (hK : bytes ≥ 64 → MultOK K2 k2 ∧ MultOK K4 k4 ∧ vF k2 = r ^ 2 ∧ vF k4 = r ^ 4) :
    let s2 : L5 M128 × Bytes × Nat :=
      if bytes ≥ 64 then blocks_main_loop HIBIT0 K2 K4 bytes H m bytes else (H, m, bytes)
    HB s2.1 ∧ s2.2.1 = m.drop (64 * (bytes / 64)) ∧ s2.2.2 = bytes % 64 ∧
    AF r s2.1 = horner16 r (4 * (bytes / 64)) (AF r H) m := by
  by_cases hb : bytes ≥ 64
  · simp only [hb, if_true]
    obtain ⟨a, b, c, d⟩ := hK hb
    exact loop_F r K2 K4 k2 k4 a b c d bytes H m bytes hH (by omega)
  · simp only [hb, if_false]
    have : bytes / 64 = 0 := by omega
    simp only [this, Nat.mul_zero, List.drop_zero, horner16]
    exact ⟨hH, trivial, by omega, trivial⟩

theorem tail_F' (r : F) (K2 : Mult) (k2 : L5 Nat) (H : L5 M128) (m : Bytes) (bytes : Nat) (hH : HB H)
    (hlt : bytes < 64) (hK : bytes ≥ 32 → MultOK K2 k2 ∧ vF k2 = r ^ 2) :
    HB (if bytes ≥ 32 then blocks_tail HIBIT0 K2 H (some m) else H) ∧
    AF r (if bytes ≥ 32 then blocks_tail HIBIT0 K2 H (some m) else H)
      = horner16 r (2 * (bytes / 32)) (AF r H) m := by
  by_cases hb : bytes ≥ 32
  · simp only [hb, if_true]
    obtain ⟨a, c⟩ := hK hb
    have : bytes / 32 = 1 := by omega
    rw [this]
    exact tail_F r K2 k2 a c H m hH
  · simp only [hb, if_false]
    have : bytes / 32 = 0 := by omega
    simp only [this, Nat.mul_zero, horner16]
    exact ⟨hH, trivial⟩

/-- the accumulator the stored lanes of `st->H` stand for -/
def AFst (r : F) (st : State) : F := vF (stN false st.H) * r ^ 2 + vF (stN true st.H) * r
def HBst (st : State) : Prop := HBound (stN false st.H) ∧ HBound (stN true st.H)

theorem hibitOf_0 : hibitOf 0 = HIBIT0 := by decide
theorem hibitOf_1 : hibitOf 1 = HIBIT0 := by decide

theorem multOK_R2 (st : State) (flags : UInt64)
    (hf : flags &&& (poly1305_final_r2_r ||| poly1305_final_r_1) = 0) (h : RBound (nat5 st.R2)) :
    MultOK (blocks_load_R2 st flags) (nat5 st.R2) :=
  ⟨h, fun j => ⟨load_R2_plain j st flags hf,
    SOK_load_R2 j st flags (by rw [load_R2_plain j st flags hf]; exact h)⟩⟩

theorem multOK_R4 (st : State) (h : RBound (nat5 st.R4)) : MultOK (blocks_load_R4 st) (nat5 st.R4) :=
  ⟨h, fun j => ⟨load_R4_lane j st, SOK_load_R4 j st (by rw [load_R4_lane]; exact h)⟩⟩

/-- `poly1305_blocks(st, m, bytes)` on message data (flags = 0 or `started`, `bytes` a positive multiple
    of 32): afterwards `started` is set, the two stored lanes (a, b) are within `HBound` and
    a·r^2 + b·r is the RFC 8439 accumulator advanced by the `bytes/16` blocks of `m`; nothing else
    changes.  `R2` must be valid only if it is used (`started` or `bytes ≥ 64`), `R4` only if the
    64-byte loop runs. -/
theorem blocks_data_spec (r : F) (st : State) (m : Bytes) (bytes : Nat)
    (hfl : st.flags = 0 ∨ st.flags = 1) (hb : bytes % 32 = 0) (hb1 : 32 ≤ bytes)
    (hst : st.flags = 1 → HBst st)
    (hR2 : (st.flags = 1 ∨ bytes ≥ 64) → RBound (nat5 st.R2) ∧ vF (nat5 st.R2) = r ^ 2)
    (hR4 : ((st.flags = 1 ∧ bytes ≥ 64) ∨ bytes ≥ 96) → RBound (nat5 st.R4) ∧ vF (nat5 st.R4) = r ^ 4) :
    (poly1305_blocks st (some m) bytes).flags = 1 ∧ HBst (poly1305_blocks st (some m) bytes) ∧
    (poly1305_blocks st (some m) bytes).R = st.R ∧ (poly1305_blocks st (some m) bytes).R2 = st.R2 ∧
    (poly1305_blocks st (some m) bytes).R4 = st.R4 ∧ (poly1305_blocks st (some m) bytes).pad = st.pad ∧
    (poly1305_blocks st (some m) bytes).buffer = st.buffer ∧
    AFst r (poly1305_blocks st (some m) bytes) =
      horner16 r (bytes / 16) (if st.flags = 1 then AFst r st else 0) m := by
  rw [blocks_some_eq]
  rcases hfl with h0 | h1
  · -- first call: H = [Mx,My]
    have c1 : (0 : UInt64) &&& poly1305_started = 0 := by decide
    have c2 : (0 : UInt64) ||| poly1305_started = 1 := by decide
    have c3 : ¬ (0 : UInt64) = 1 := by decide
    simp only [h0, c1, if_true, c2, hibitOf_0, c3, if_false]
    obtain ⟨fH, fA⟩ := first_F r m
    have hf1 : (1 : UInt64) &&& (poly1305_final_r2_r ||| poly1305_final_r_1) = 0 := by decide
    obtain ⟨l1, l2, l3, l4⟩ := loop_F' r (blocks_load_R2 st 1) (blocks_load_R4 st) (nat5 st.R2) (nat5 st.R4)
      (blocks_first HIBIT0 m) (m.drop 32) (bytes - 32) fH (by
        intro h
        obtain ⟨a, b⟩ := hR2 (Or.inr (by omega))
        obtain ⟨c, d⟩ := hR4 (Or.inr (by omega))
        exact ⟨multOK_R2 st 1 hf1 a, multOK_R4 st c, b, d⟩)
    generalize (if bytes - 32 ≥ 64 then
      blocks_main_loop HIBIT0 (blocks_load_R2 st 1) (blocks_load_R4 st) (bytes - 32) (blocks_first HIBIT0 m)
        (m.drop 32) (bytes - 32) else (blocks_first HIBIT0 m, m.drop 32, bytes - 32)) = s2 at l1 l2 l3 l4 ⊢
    obtain ⟨t1, t2⟩ := tail_F' r (blocks_load_R2 st 1) (nat5 st.R2) s2.1 s2.2.1 s2.2.2 l1 (by omega) (by
        intro h
        obtain ⟨a, b⟩ := hR2 (Or.inr (by omega))
        exact ⟨multOK_R2 st 1 hf1 a, b⟩)
    refine ⟨trivial, ?_, trivial, trivial, trivial, trivial, trivial, ?_⟩
    · simp only [HBst, store_H_lane]; exact t1
    · simp only [AFst, store_H_lane]
      show AF r _ = _
      rw [t2, l4, fA, l2, l3, List.drop_drop]
      have e : bytes / 16 = 2 + (4 * ((bytes - 32) / 64) + 2 * ((bytes - 32) % 64 / 32)) := by omega
      rw [e, horner_compose3]
  · -- later calls: H from the state
    have c1 : ¬ ((1 : UInt64) &&& poly1305_started = 0) := by decide
    simp only [h1, c1, if_false, hibitOf_1, if_true]
    have hf1 : (1 : UInt64) &&& (poly1305_final_r2_r ||| poly1305_final_r_1) = 0 := by decide
    obtain ⟨sA, sB⟩ := hst h1
    have hH : HB (blocks_load_H st) := ⟨by rw [load_H_lane]; exact sA, by rw [load_H_lane]; exact sB⟩
    have hA : AF r (blocks_load_H st) = AFst r st := by simp only [AF, AFst, load_H_lane]
    obtain ⟨l1, l2, l3, l4⟩ := loop_F' r (blocks_load_R2 st 1) (blocks_load_R4 st) (nat5 st.R2) (nat5 st.R4)
      (blocks_load_H st) m bytes hH (by
        intro h
        obtain ⟨a, b⟩ := hR2 (Or.inl h1)
        obtain ⟨c, d⟩ := hR4 (Or.inl ⟨h1, h⟩)
        exact ⟨multOK_R2 st 1 hf1 a, multOK_R4 st c, b, d⟩)
    generalize (if bytes ≥ 64 then
      blocks_main_loop HIBIT0 (blocks_load_R2 st 1) (blocks_load_R4 st) bytes (blocks_load_H st) m bytes
      else (blocks_load_H st, m, bytes)) = s2 at l1 l2 l3 l4 ⊢
    obtain ⟨t1, t2⟩ := tail_F' r (blocks_load_R2 st 1) (nat5 st.R2) s2.1 s2.2.1 s2.2.2 l1 (by omega) (by
        intro h
        obtain ⟨a, b⟩ := hR2 (Or.inl h1)
        exact ⟨multOK_R2 st 1 hf1 a, b⟩)
    refine ⟨trivial, ?_, trivial, trivial, trivial, trivial, trivial, ?_⟩
    · simp only [HBst, store_H_lane]; exact t1
    · simp only [AFst, store_H_lane]
      show AF r _ = _
      rw [t2, l4, hA, l2, l3]
      have e : bytes / 16 = 4 * (bytes / 64) + 2 * (bytes % 64 / 32) := by omega
      rw [e, horner_compose2]
      rfl

end Sodium.Poly1305Sse2P
