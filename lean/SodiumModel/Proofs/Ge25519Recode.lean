import SodiumModel.Model.Ge25519Ref10
import SodiumModel.Proofs.ByteDecide
/-
  Lemmas for `Properties/C06Ge.lean` (part 2, Mathlib-free): the signed radix-16 recoding of
  `ge25519_scalarmult` / `ge25519_scalarmult_base`, the constant-time table lookups `ge25519_cmov8*`,
  and `slide_vartime`.  `signed char` facts are decided over all 256 values (`decide +kernel`).
-/
open Sodium Sodium.Model.Ge25519
namespace Sodium.Ge25519P

theorem Int8.forall_iff_u8 (P : Int8 → Prop) : (∀ b, P b) ↔ ∀ u : UInt8, P u.toInt8 :=
  ⟨fun h _ => h _, fun h b => by simpa using h b.toUInt8⟩

instance instDecidableForallInt8 (P : Int8 → Prop) [DecidablePred P] : Decidable (∀ b, P b) :=
  decidable_of_iff _ (Int8.forall_iff_u8 P).symm

/-- the two nibbles of a byte -/
theorem nibble_val : ∀ x : UInt8,
    (((Model.Sign.u8i x >>> 0) &&& 15).toInt8).toInt = (x.toNat % 16 : Nat) ∧
    (((Model.Sign.u8i x >>> 4) &&& 15).toInt8).toInt = (x.toNat / 16 : Nat) := by decide +kernel

/-- one carry step on a digit in [0, 15] with carry in {0, 1} -/
theorem carryStep_spec : ∀ e : Int8, 0 ≤ e.toInt → e.toInt ≤ 15 → ∀ c : Int8, (c = 0 ∨ c = 1) →
    (carryStep e c).1.toInt + 16 * (carryStep e c).2.toInt = e.toInt + c.toInt ∧
    -8 ≤ (carryStep e c).1.toInt ∧ (carryStep e c).1.toInt ≤ 7 ∧
    ((carryStep e c).2 = 0 ∨ (carryStep e c).2 = 1) := by
  have h0 : ∀ e : Int8, 0 ≤ e.toInt → e.toInt ≤ 15 →
    (carryStep e 0).1.toInt + 16 * (carryStep e 0).2.toInt = e.toInt + (0 : Int8).toInt ∧
    -8 ≤ (carryStep e 0).1.toInt ∧ (carryStep e 0).1.toInt ≤ 7 ∧
    ((carryStep e 0).2 = 0 ∨ (carryStep e 0).2 = 1) := by decide +kernel
  have h1 : ∀ e : Int8, 0 ≤ e.toInt → e.toInt ≤ 15 →
    (carryStep e 1).1.toInt + 16 * (carryStep e 1).2.toInt = e.toInt + (1 : Int8).toInt ∧
    -8 ≤ (carryStep e 1).1.toInt ∧ (carryStep e 1).1.toInt ≤ 7 ∧
    ((carryStep e 1).2 = 0 ∨ (carryStep e 1).2 = 1) := by decide +kernel
  intro e he1 he2 c hc
  rcases hc with rfl | rfl
  · exact h0 e he1 he2
  · exact h1 e he1 he2

/-- `e[63] += carry` -/
theorem lastStep_spec : ∀ e : Int8, 0 ≤ e.toInt → e.toInt ≤ 15 → ∀ c : Int8, (c = 0 ∨ c = 1) →
    ((e.toInt32 + c.toInt32).toInt8).toInt = e.toInt + c.toInt := by
  have h0 : ∀ e : Int8, 0 ≤ e.toInt → e.toInt ≤ 15 →
    ((e.toInt32 + (0 : Int8).toInt32).toInt8).toInt = e.toInt + (0 : Int8).toInt := by decide +kernel
  have h1 : ∀ e : Int8, 0 ≤ e.toInt → e.toInt ≤ 15 →
    ((e.toInt32 + (1 : Int8).toInt32).toInt8).toInt = e.toInt + (1 : Int8).toInt := by decide +kernel
  intro e he1 he2 c hc
  rcases hc with rfl | rfl
  · exact h0 e he1 he2
  · exact h1 e he1 he2

/-- Σ e[i]·β^i -/
def digitsVal (β : Int) : List Int8 → Int
  | [] => 0
  | x :: xs => x.toInt + β * digitsVal β xs

def IsNibble (x : Int8) : Prop := 0 ≤ x.toInt ∧ x.toInt ≤ 15

theorem nibbles_length (a : Bytes) : (nibbles a).length = 2 * a.length := by
  induction a with
  | nil => rfl
  | cons x xs ih => simp [nibbles, ih]; omega

theorem nibbles_val (a : Bytes) : digitsVal 16 (nibbles a) = le a := by
  induction a with
  | nil => rfl
  | cons x xs ih =>
    have := nibble_val x
    show (((Model.Sign.u8i x >>> 0) &&& 15).toInt8).toInt + 16 * ((((Model.Sign.u8i x >>> 4) &&& 15).toInt8).toInt
        + 16 * digitsVal 16 (nibbles xs)) = ((x.toNat + 256 * le xs : Nat) : Int)
    rw [this.1, this.2, ih]
    omega

theorem nibbles_isNibble (a : Bytes) : ∀ x ∈ nibbles a, IsNibble x := by
  induction a with
  | nil => simp [nibbles]
  | cons x xs ih =>
    have := nibble_val x
    intro y hy
    simp only [nibbles, List.mem_cons] at hy
    rcases hy with rfl | rfl | hy
    · unfold IsNibble; rw [this.1]; omega
    · unfold IsNibble; rw [this.2]; have := x.toNat_lt; omega
    · exact ih y hy

/-- entry 2i+1 of the nibble list is the high nibble of byte i -/
theorem nibbles_getD_odd (a : Bytes) (i : Nat) (hi : i < a.length) :
    ((nibbles a).getD (2 * i + 1) 0).toInt = ((a.getD i 0).toNat / 16 : Nat) := by
  induction a generalizing i with
  | nil => simp at hi
  | cons x xs ih =>
    cases i with
    | zero => exact (nibble_val x).2
    | succ i =>
      have : 2 * (i + 1) + 1 = (2 * i + 1) + 1 + 1 := by omega
      rw [this]
      simp only [nibbles, List.getD_cons_succ]
      exact ih i (by simpa using hi)

theorem carryLoop_length (l : List Int8) (c : Int8) : (carryLoop l c).length = l.length := by
  induction l generalizing c with
  | nil => rfl
  | cons x xs ih =>
    cases xs with
    | nil => rfl
    | cons y ys => simp only [carryLoop, List.length_cons, ih]

/-- the carry loop on a list of nibbles: value preserved (plus the incoming carry), every digit but the last
    in [-8, 7], the last digit is the last nibble plus a carry in {0, 1} -/
theorem carryLoop_spec (l : List Int8) (hl : ∀ x ∈ l, IsNibble x) (hne : l ≠ []) (c : Int8) (hc : c = 0 ∨ c = 1) :
    digitsVal 16 (carryLoop l c) = digitsVal 16 l + c.toInt ∧
    (∀ i, i + 1 < l.length → -8 ≤ ((carryLoop l c).getD i 0).toInt ∧ ((carryLoop l c).getD i 0).toInt ≤ 7) ∧
    (∃ c' : Int, (c' = 0 ∨ c' = 1) ∧
      ((carryLoop l c).getD (l.length - 1) 0).toInt = (l.getD (l.length - 1) 0).toInt + c') := by
  induction l generalizing c with
  | nil => exact absurd rfl hne
  | cons x xs ih =>
    have hx : IsNibble x := hl x (by simp)
    cases xs with
    | nil =>
      have := lastStep_spec x hx.1 hx.2 c hc
      refine ⟨?_, ?_, ?_⟩
      · simp only [carryLoop, digitsVal, this]; omega
      · intro i hi; simp at hi
      · refine ⟨c.toInt, ?_, ?_⟩
        · rcases hc with rfl | rfl
          · left; rfl
          · right; rfl
        · exact this
    | cons y ys =>
      obtain ⟨h1, h2, h3, h4⟩ := carryStep_spec x hx.1 hx.2 c hc
      obtain ⟨i1, i2, i3⟩ := ih (fun z hz => hl z (by simp [hz])) (by simp) (carryStep x c).2 h4
      refine ⟨?_, ?_, ?_⟩
      · simp only [carryLoop, digitsVal] at i1 ⊢
        rw [i1]; omega
      · intro i hi
        cases i with
        | zero => simpa [carryLoop] using ⟨h2, h3⟩
        | succ i =>
          simp only [carryLoop, List.getD_cons_succ]
          exact i2 i (by simpa using hi)
      · obtain ⟨c', hc', e⟩ := i3
        refine ⟨c', hc', ?_⟩
        simp only [carryLoop, List.length_cons, Nat.add_sub_cancel, List.getD_cons_succ] at e ⊢
        exact e



theorem recode_spec (a : Bytes) (ha : a.length = 32) :
    (recode a).length = 64 ∧ digitsVal 16 (recode a) = le a ∧
    (∀ i, i < 63 → -8 ≤ ((recode a).getD i 0).toInt ∧ ((recode a).getD i 0).toInt ≤ 7) ∧
    (∃ c : Int, (c = 0 ∨ c = 1) ∧ ((recode a).getD 63 0).toInt = ((a.getD 31 0).toNat / 16 : Nat) + c) := by
  have htake : a.take 32 = a := List.take_of_length_le (by omega)
  have hlen : (nibbles a).length = 64 := by rw [nibbles_length, ha]
  have hne : nibbles a ≠ [] := by intro h; rw [h] at hlen; simp at hlen
  obtain ⟨h1, h2, h3⟩ := carryLoop_spec (nibbles a) (nibbles_isNibble a) hne 0 (Or.inl rfl)
  unfold recode
  rw [htake]
  refine ⟨by rw [carryLoop_length, hlen], ?_, ?_, ?_⟩
  · rw [h1, nibbles_val]; show (le a : Int) + 0 = _; omega
  · intro i hi; exact h2 i (by omega)
  · obtain ⟨c, hc, e⟩ := h3
    refine ⟨c, hc, ?_⟩
    rw [hlen] at e
    rw [e]
    show ((nibbles a).getD (2 * 31 + 1) 0).toInt + c = _
    rw [nibbles_getD_odd a 31 (by omega)]

/-! ### the table lookups -/

/-- `negative` and `equal(babs, k)` for every `signed char` -/
theorem lookup_bits : ∀ b : Int8,
    negative b = (if b < 0 then 1 else 0) ∧
    equal (babs b (negative b)).toInt8 1 = (if b.toInt.natAbs = 1 then 1 else 0) ∧
    equal (babs b (negative b)).toInt8 2 = (if b.toInt.natAbs = 2 then 1 else 0) ∧
    equal (babs b (negative b)).toInt8 3 = (if b.toInt.natAbs = 3 then 1 else 0) ∧
    equal (babs b (negative b)).toInt8 4 = (if b.toInt.natAbs = 4 then 1 else 0) ∧
    equal (babs b (negative b)).toInt8 5 = (if b.toInt.natAbs = 5 then 1 else 0) ∧
    equal (babs b (negative b)).toInt8 6 = (if b.toInt.natAbs = 6 then 1 else 0) ∧
    equal (babs b (negative b)).toInt8 7 = (if b.toInt.natAbs = 7 then 1 else 0) ∧
    equal (babs b (negative b)).toInt8 8 = (if b.toInt.natAbs = 8 then 1 else 0) := by decide +kernel

theorem int8_lt_zero_iff : ∀ b : Int8, b < 0 ↔ b.toInt < 0 := by decide +kernel

section
variable {F : Type} (ops : GeFieldOps F)

/-- what `fe25519_cmov` must do on a 0/1 flag -/
structure CmovOK : Prop where
  zero : ∀ f g : F, ops.cmov f g 0 = f
  one : ∀ f g : F, ops.cmov f g 1 = g

variable {ops}

theorem cmov_cached_ite (hc : CmovOK ops) (t u : Cached F) (c : Prop) [Decidable c] :
    ge25519_cmov_cached ops t u (if c then 1 else 0) = if c then u else t := by
  by_cases h : c
  · simp only [h, if_true, ge25519_cmov_cached]
    show (⟨ops.cmov _ _ 1, ops.cmov _ _ 1, ops.cmov _ _ 1, ops.cmov _ _ 1⟩ : Cached F) = u
    simp only [hc.one]
  · simp only [h, if_false, ge25519_cmov_cached]
    show (⟨ops.cmov _ _ 0, ops.cmov _ _ 0, ops.cmov _ _ 0, ops.cmov _ _ 0⟩ : Cached F) = t
    simp only [hc.zero]

theorem cmov_ite (hc : CmovOK ops) (t u : Precomp F) (c : Prop) [Decidable c] :
    ge25519_cmov ops t u (if c then 1 else 0) = if c then u else t := by
  by_cases h : c
  · simp only [h, if_true, ge25519_cmov]
    show (⟨ops.cmov _ _ 1, ops.cmov _ _ 1, ops.cmov _ _ 1⟩ : Precomp F) = u
    simp only [hc.one]
  · simp only [h, if_false, ge25519_cmov]
    show (⟨ops.cmov _ _ 0, ops.cmov _ _ 0, ops.cmov _ _ 0⟩ : Precomp F) = t
    simp only [hc.zero]

/-- the entry a lookup selects for the absolute value `n`: the neutral element for `n = 0` — and for `n > 8` -/
def selC (ops : GeFieldOps F) (tbl : List (Cached F)) (n : Nat) : Cached F :=
  if n = 0 ∨ 8 < n then ge25519_cached_0 ops else tbl.getD (n - 1) (ge25519_cached_0 ops)

def selP (ops : GeFieldOps F) (tbl : List (Precomp F)) (n : Nat) : Precomp F :=
  if n = 0 ∨ 8 < n then ge25519_precomp_0 ops else tbl.getD (n - 1) (ge25519_precomp_0 ops)

def negC (ops : GeFieldOps F) (t : Cached F) : Cached F := ⟨t.YminusX, t.YplusX, t.Z, ops.neg t.T2d⟩
def negP (ops : GeFieldOps F) (t : Precomp F) : Precomp F := ⟨t.yminusx, t.yplusx, ops.neg t.xy2d⟩

theorem cmov8_cached_eq (hc : CmovOK ops) (tbl : List (Cached F)) (b : Int8) :
    ge25519_cmov8_cached ops tbl b =
      if b < 0 then negC ops (selC ops tbl b.toInt.natAbs) else selC ops tbl b.toInt.natAbs := by
  obtain ⟨hn, e1, e2, e3, e4, e5, e6, e7, e8⟩ := lookup_bits b
  simp only [ge25519_cmov8_cached, e1, e2, e3, e4, e5, e6, e7, e8]
  simp only [hn, cmov_cached_ite hc, negC]
  generalize b.toInt.natAbs = n
  have hn : n = 0 ∨ n = 1 ∨ n = 2 ∨ n = 3 ∨ n = 4 ∨ n = 5 ∨ n = 6 ∨ n = 7 ∨ n = 8 ∨ 8 < n := by omega
  rcases hn with h | h | h | h | h | h | h | h | h | h
  all_goals first
    | (subst h; simp [selC])
    | (have h1 : n ≠ 1 := by omega
       have h2 : n ≠ 2 := by omega
       have h3 : n ≠ 3 := by omega
       have h4 : n ≠ 4 := by omega
       have h5 : n ≠ 5 := by omega
       have h6 : n ≠ 6 := by omega
       have h7 : n ≠ 7 := by omega
       have h8 : n ≠ 8 := by omega
       simp [selC, h, h1, h2, h3, h4, h5, h6, h7, h8])

theorem cmov8_eq (hc : CmovOK ops) (tbl : List (Precomp F)) (b : Int8) :
    ge25519_cmov8 ops tbl b =
      if b < 0 then negP ops (selP ops tbl b.toInt.natAbs) else selP ops tbl b.toInt.natAbs := by
  obtain ⟨hn, e1, e2, e3, e4, e5, e6, e7, e8⟩ := lookup_bits b
  simp only [ge25519_cmov8, e1, e2, e3, e4, e5, e6, e7, e8]
  simp only [hn, cmov_ite hc, negP]
  generalize b.toInt.natAbs = n
  have hn : n = 0 ∨ n = 1 ∨ n = 2 ∨ n = 3 ∨ n = 4 ∨ n = 5 ∨ n = 6 ∨ n = 7 ∨ n = 8 ∨ 8 < n := by omega
  rcases hn with h | h | h | h | h | h | h | h | h | h
  all_goals first
    | (subst h; simp [selP])
    | (have h1 : n ≠ 1 := by omega
       have h2 : n ≠ 2 := by omega
       have h3 : n ≠ 3 := by omega
       have h4 : n ≠ 4 := by omega
       have h5 : n ≠ 5 := by omega
       have h6 : n ≠ 6 := by omega
       have h7 : n ≠ 7 := by omega
       have h8 : n ≠ 8 := by omega
       simp [selP, h, h1, h2, h3, h4, h5, h6, h7, h8])

end

end Sodium.Ge25519P
