import SodiumModel.Model.Blake2bSimd
import SodiumModel.Model.CompressRef
import SodiumModel.Spec.Blake2b
import SodiumModel.Proofs.CompressRef
/-
  Helper lemmas for `Properties/C04Simd.lean`: the SIMD BLAKE2b compression functions
  (`Model/Blake2bSimd.lean`) equal `Spec.Blake2b.compress`.

  Layers:
   1. word level: reassembling the bytes / dwords / words of a 64-bit lane in rotated order is a
      rotation (`toNat` + `omega`);
   2. the intrinsics, at the immediates / constants the code uses, as functions on 64-bit lanes;
   3. G1;G2 = four lanes of the scalar G (`g4`); DIAG/UNDIAG = lane permutations; the
      specification's G on a literal 16-word array;
   4. the 3 × 48 message-load macros give the words `m[sigma[r][…]]`;
   5. ROUND = specification round; the whole compression function.
-/
namespace Sodium.Blake2bSimdP
open Sodium Sodium.Model Sodium.Model.Blake2bSimd
open Sodium.Model.CompressRef (rotr64)
set_option linter.unusedSimpArgs false

/-! ### 1. word level -/

/-- byte `i` of a 64-bit lane, in the form `M128.epi8` computes it -/
def byteOf (x : UInt64) (i : Nat) : UInt8 := (x >>> UInt64.ofNat (8 * i)).toUInt8
/-- dword `i` of a 64-bit lane -/
def dwOf (x : UInt64) (i : Nat) : UInt32 := (x >>> UInt64.ofNat (32 * i)).toUInt32
/-- 16-bit word `i` of a 64-bit lane -/
def wOf (x : UInt64) (i : Nat) : UInt16 := (x >>> UInt64.ofNat (16 * i)).toUInt16

/-- a 64-bit lane assembled from eight bytes, in the form `M128.ofEpi8` builds it -/
def pack8 (b0 b1 b2 b3 b4 b5 b6 b7 : UInt8) : UInt64 :=
  b0.toUInt64 ||| (b1.toUInt64 <<< 8) ||| (b2.toUInt64 <<< 16) ||| (b3.toUInt64 <<< 24)
      ||| (b4.toUInt64 <<< 32) ||| (b5.toUInt64 <<< 40) ||| (b6.toUInt64 <<< 48) ||| (b7.toUInt64 <<< 56)
def pack2 (d0 d1 : UInt32) : UInt64 := d0.toUInt64 ||| (d1.toUInt64 <<< 32)
def pack4 (w0 w1 w2 w3 : UInt16) : UInt64 :=
  w0.toUInt64 ||| (w1.toUInt64 <<< 16) ||| (w2.toUInt64 <<< 32) ||| (w3.toUInt64 <<< 48)

theorem or_as_add (a b : Nat) (i : Nat) (h : b < 2 ^ i) : b ||| a <<< i = a * 2 ^ i + b := by
  rw [Nat.or_comm, ← Nat.shiftLeft_add_eq_or_of_lt h, Nat.shiftLeft_eq]

theorem pack8_toNat (b0 b1 b2 b3 b4 b5 b6 b7 : UInt8) :
    (pack8 b0 b1 b2 b3 b4 b5 b6 b7).toNat
    = b0.toNat + b1.toNat * 2^8 + b2.toNat * 2^16 + b3.toNat * 2^24 + b4.toNat * 2^32 + b5.toNat * 2^40
      + b6.toNat * 2^48 + b7.toNat * 2^56 := by
  have h0 := b0.toNat_lt; have h1 := b1.toNat_lt; have h2 := b2.toNat_lt; have h3 := b3.toNat_lt
  have h4 := b4.toNat_lt; have h5 := b5.toNat_lt; have h6 := b6.toNat_lt; have h7 := b7.toNat_lt
  simp only [pack8, UInt64.toNat_or, UInt64.toNat_shiftLeft, UInt8.toNat_toUInt64]
  have e8 : (8 : UInt64).toNat % 64 = 8 := by decide
  have e16 : (16 : UInt64).toNat % 64 = 16 := by decide
  have e24 : (24 : UInt64).toNat % 64 = 24 := by decide
  have e32 : (32 : UInt64).toNat % 64 = 32 := by decide
  have e40 : (40 : UInt64).toNat % 64 = 40 := by decide
  have e48 : (48 : UInt64).toNat % 64 = 48 := by decide
  have e56 : (56 : UInt64).toNat % 64 = 56 := by decide
  simp only [e8, e16, e24, e32, e40, e48, e56, Nat.shiftLeft_eq]
  rw [Nat.mod_eq_of_lt (by omega), Nat.mod_eq_of_lt (by omega), Nat.mod_eq_of_lt (by omega),
    Nat.mod_eq_of_lt (by omega), Nat.mod_eq_of_lt (by omega), Nat.mod_eq_of_lt (by omega),
    Nat.mod_eq_of_lt (by omega)]
  simp only [← Nat.shiftLeft_eq]
  rw [or_as_add _ _ 8 (by omega), or_as_add _ _ 16 (by omega), or_as_add _ _ 24 (by omega),
    or_as_add _ _ 32 (by omega), or_as_add _ _ 40 (by omega), or_as_add _ _ 48 (by omega),
    or_as_add _ _ 56 (by omega)]
  omega

theorem pack2_toNat (d0 d1 : UInt32) : (pack2 d0 d1).toNat = d0.toNat + d1.toNat * 2 ^ 32 := by
  have h0 := d0.toNat_lt; have h1 := d1.toNat_lt
  have e32 : (32 : UInt64).toNat % 64 = 32 := by decide
  simp only [pack2, UInt64.toNat_or, UInt64.toNat_shiftLeft, UInt32.toNat_toUInt64, e32, Nat.shiftLeft_eq]
  rw [Nat.mod_eq_of_lt (by omega)]
  simp only [← Nat.shiftLeft_eq]
  rw [or_as_add _ _ 32 (by omega)]
  omega

theorem pack4_toNat (w0 w1 w2 w3 : UInt16) :
    (pack4 w0 w1 w2 w3).toNat = w0.toNat + w1.toNat * 2 ^ 16 + w2.toNat * 2 ^ 32 + w3.toNat * 2 ^ 48 := by
  have h0 := w0.toNat_lt; have h1 := w1.toNat_lt; have h2 := w2.toNat_lt; have h3 := w3.toNat_lt
  have e16 : (16 : UInt64).toNat % 64 = 16 := by decide
  have e32 : (32 : UInt64).toNat % 64 = 32 := by decide
  have e48 : (48 : UInt64).toNat % 64 = 48 := by decide
  simp only [pack4, UInt64.toNat_or, UInt64.toNat_shiftLeft, UInt16.toNat_toUInt64, e16, e32, e48,
    Nat.shiftLeft_eq]
  rw [Nat.mod_eq_of_lt (by omega), Nat.mod_eq_of_lt (by omega), Nat.mod_eq_of_lt (by omega)]
  simp only [← Nat.shiftLeft_eq]
  rw [or_as_add _ _ 16 (by omega), or_as_add _ _ 32 (by omega), or_as_add _ _ 48 (by omega)]
  omega

theorem byteOf_toNat (x : UInt64) (i : Nat) (hi : i < 8) :
    (byteOf x i).toNat = x.toNat / 2 ^ (8 * i) - 256 * (x.toNat / 2 ^ (8 * i + 8)) := by
  have : i = 0 ∨ i = 1 ∨ i = 2 ∨ i = 3 ∨ i = 4 ∨ i = 5 ∨ i = 6 ∨ i = 7 := by omega
  rcases this with rfl | rfl | rfl | rfl | rfl | rfl | rfl | rfl <;>
    simp [byteOf, UInt64.toNat_toUInt8, UInt64.toNat_shiftRight, Nat.shiftRight_eq_div_pow] <;> omega

theorem dwOf_toNat (x : UInt64) (i : Nat) (hi : i < 2) :
    (dwOf x i).toNat = x.toNat / 2 ^ (32 * i) - 2 ^ 32 * (x.toNat / 2 ^ (32 * i + 32)) := by
  have hx := x.toNat_lt
  have : i = 0 ∨ i = 1 := by omega
  rcases this with rfl | rfl <;>
    simp [dwOf, UInt64.toNat_toUInt32, UInt64.toNat_shiftRight, Nat.shiftRight_eq_div_pow] <;> omega

theorem wOf_toNat (x : UInt64) (i : Nat) (hi : i < 4) :
    (wOf x i).toNat = x.toNat / 2 ^ (16 * i) - 2 ^ 16 * (x.toNat / 2 ^ (16 * i + 16)) := by
  have hx := x.toNat_lt
  have : i = 0 ∨ i = 1 ∨ i = 2 ∨ i = 3 := by omega
  rcases this with rfl | rfl | rfl | rfl <;>
    simp [wOf, UInt64.toNat_toUInt16, UInt64.toNat_shiftRight, Nat.shiftRight_eq_div_pow] <;> omega

/-- `rotr64 x k` as a number: the low `k` bits move to the top -/
theorem rotr_toNat (x : UInt64) (k : Nat) (hk : 0 < k) (hk2 : k < 64) :
    (rotr64 x (UInt64.ofNat k)).toNat = x.toNat / 2 ^ k + (x.toNat % 2 ^ k) * 2 ^ (64 - k) := by
  have hx := x.toNat_lt
  have e1 : (UInt64.ofNat k).toNat % 64 = k := by simp [UInt64.toNat_ofNat']; omega
  have e2 : (64 - UInt64.ofNat k).toNat % 64 = 64 - k := by
    rw [UInt64.toNat_sub_of_le]
    · simp [UInt64.toNat_ofNat']; omega
    · rw [UInt64.le_iff_toNat_le]; simp [UInt64.toNat_ofNat']; omega
  simp only [rotr64, UInt64.toNat_or, UInt64.toNat_shiftLeft, UInt64.toNat_shiftRight, e1, e2,
    Nat.shiftRight_eq_div_pow, Nat.shiftLeft_eq]
  have hp : 2 ^ k * 2 ^ (64 - k) = 2 ^ 64 := by rw [← Nat.pow_add]; congr 1; omega
  have e3 : x.toNat * 2 ^ (64 - k) % 2 ^ 64 = (x.toNat % 2 ^ k) * 2 ^ (64 - k) := by
    rw [← hp, Nat.mul_mod_mul_right]
  have hlt : x.toNat / 2 ^ k < 2 ^ (64 - k) := by
    rw [Nat.div_lt_iff_lt_mul (Nat.two_pow_pos k), Nat.mul_comm, hp]; exact hx
  rw [e3, ← Nat.shiftLeft_eq, or_as_add _ _ _ hlt]
  omega

/-- the eight bytes of a lane in order are the lane -/
theorem pack8_id (x : UInt64) :
    pack8 (byteOf x 0) (byteOf x 1) (byteOf x 2) (byteOf x 3) (byteOf x 4) (byteOf x 5) (byteOf x 6)
      (byteOf x 7) = x := by
  apply UInt64.toNat_inj.mp
  rw [pack8_toNat]
  simp only [byteOf_toNat, Nat.reduceAdd, Nat.reduceMod, Nat.reduceLT, Nat.reduceMul]
  have hx := x.toNat_lt
  omega

/-- the byte shuffle `2, 3, 4, 5, 6, 7, 0, 1` (the constant `r16` / `ROTATE16`) is `rotr64 · 16` -/
theorem pack8_rot16 (x : UInt64) :
    pack8 (byteOf x 2) (byteOf x 3) (byteOf x 4) (byteOf x 5) (byteOf x 6) (byteOf x 7) (byteOf x 0)
      (byteOf x 1) = rotr64 x 16 := by
  apply UInt64.toNat_inj.mp
  have := rotr_toNat x 16 (by decide) (by decide)
  simp only [UInt64.reduceOfNat] at this
  rw [this, pack8_toNat]
  simp only [byteOf_toNat, Nat.reduceAdd, Nat.reduceMod, Nat.reduceLT, Nat.reduceMul]
  have hx := x.toNat_lt
  omega

/-- the byte shuffle `3, 4, 5, 6, 7, 0, 1, 2` (the constant `r24` / `ROTATE24`) is `rotr64 · 24` -/
theorem pack8_rot24 (x : UInt64) :
    pack8 (byteOf x 3) (byteOf x 4) (byteOf x 5) (byteOf x 6) (byteOf x 7) (byteOf x 0) (byteOf x 1)
      (byteOf x 2) = rotr64 x 24 := by
  apply UInt64.toNat_inj.mp
  have := rotr_toNat x 24 (by decide) (by decide)
  simp only [UInt64.reduceOfNat] at this
  rw [this, pack8_toNat]
  simp only [byteOf_toNat, Nat.reduceAdd, Nat.reduceMod, Nat.reduceLT, Nat.reduceMul]
  have hx := x.toNat_lt
  omega

theorem pack2_id (x : UInt64) : pack2 (dwOf x 0) (dwOf x 1) = x := by
  apply UInt64.toNat_inj.mp
  rw [pack2_toNat]
  simp only [dwOf_toNat, Nat.reduceAdd, Nat.reduceLT, Nat.reduceMul]
  have hx := x.toNat_lt
  omega

/-- swapping the two dwords of a lane (`_MM_SHUFFLE(2, 3, 0, 1)`) is `rotr64 · 32` -/
theorem pack2_rot32 (x : UInt64) : pack2 (dwOf x 1) (dwOf x 0) = rotr64 x 32 := by
  apply UInt64.toNat_inj.mp
  have := rotr_toNat x 32 (by decide) (by decide)
  simp only [UInt64.reduceOfNat] at this
  rw [this, pack2_toNat]
  simp only [dwOf_toNat, Nat.reduceAdd, Nat.reduceLT, Nat.reduceMul]
  have hx := x.toNat_lt
  omega

theorem pack4_id (x : UInt64) : pack4 (wOf x 0) (wOf x 1) (wOf x 2) (wOf x 3) = x := by
  apply UInt64.toNat_inj.mp
  rw [pack4_toNat]
  simp only [wOf_toNat, Nat.reduceAdd, Nat.reduceLT, Nat.reduceMul]
  have hx := x.toNat_lt
  omega

theorem xor_eq_or (a b : UInt64) (h : a &&& b = 0) : a ^^^ b = a ||| b := by
  have h' : a.toBitVec &&& b.toBitVec = 0 := by simpa using congrArg UInt64.toBitVec h
  apply UInt64.toBitVec_inj.mp
  simp only [UInt64.toBitVec_xor, UInt64.toBitVec_or]
  ext i hi
  have := congrArg (fun v => v.getLsbD i) h'
  simp at this ⊢
  cases ha : a.toBitVec[i] <;> cases hb : b.toBitVec[i] <;> simp_all

theorem add_self_eq_shl (x : UInt64) : x + x = x <<< 1 := by
  apply UInt64.toNat_inj.mp
  simp [UInt64.toNat_add, UInt64.toNat_shiftLeft, Nat.shiftLeft_eq]
  omega

/-- the AVX2 `ROT63`: `(x >> 63) | (x + x)` -/
theorem rot63_or (x : UInt64) : (x >>> 63) ||| (x + x) = rotr64 x 63 := by
  rw [add_self_eq_shl]; rfl

theorem srl63_and_shl1 (x : UInt64) : (x >>> 63) &&& (x <<< 1) = 0 := by
  apply UInt64.toNat_inj.mp
  have hx := x.toNat_lt
  simp only [UInt64.toNat_and, UInt64.toNat_shiftRight, UInt64.toNat_shiftLeft, Nat.shiftRight_eq_div_pow,
    Nat.shiftLeft_eq]
  have e63 : (63 : UInt64).toNat % 64 = 63 := by decide
  have e1 : (1 : UInt64).toNat % 64 = 1 := by decide
  rw [e63, e1]
  have : x.toNat / 2 ^ 63 = 0 ∨ x.toNat / 2 ^ 63 = 1 := by omega
  rcases this with h | h <;> rw [h]
  · simp
  · rw [Nat.one_and_eq_mod_two]; simp

/-- the SSSE3 / SSE4.1 `_mm_roti_epi64(x, -63)`: `(x >> 63) ^ (x + x)` -/
theorem rot63_xor (x : UInt64) : (x >>> 63) ^^^ (x + x) = rotr64 x 63 := by
  rw [add_self_eq_shl, xor_eq_or _ _ (srl63_and_shl1 x)]; rfl

/-! ### 2. the intrinsics on 64-bit lanes, at the immediates and constants the code uses -/

/-- a `__m256i` from its four 64-bit lanes -/
@[reducible] def row (x0 x1 x2 x3 : UInt64) : M256 := ⟨⟨x0, x1⟩, ⟨x2, x3⟩⟩

theorem shuffle_epi8_r24 (x0 x1 : UInt64) :
    _mm_shuffle_epi8 ⟨x0, x1⟩ Sse.r24 = ⟨rotr64 x0 24, rotr64 x1 24⟩ := by
  rw [← pack8_rot24 x0, ← pack8_rot24 x1]; rfl

theorem shuffle_epi8_r16 (x0 x1 : UInt64) :
    _mm_shuffle_epi8 ⟨x0, x1⟩ Sse.r16 = ⟨rotr64 x0 16, rotr64 x1 16⟩ := by
  rw [← pack8_rot16 x0, ← pack8_rot16 x1]; rfl

theorem shuffle_epi32_2301 (x0 x1 : UInt64) :
    _mm_shuffle_epi32 ⟨x0, x1⟩ (_MM_SHUFFLE 2 3 0 1) = ⟨rotr64 x0 32, rotr64 x1 32⟩ := by
  rw [← pack2_rot32 x0, ← pack2_rot32 x1]; rfl

theorem shuffle_epi32_1032 (x0 x1 : UInt64) :
    _mm_shuffle_epi32 ⟨x0, x1⟩ (_MM_SHUFFLE 1 0 3 2) = ⟨x1, x0⟩ := by
  conv => rhs; rw [← pack2_id x0, ← pack2_id x1]
  rfl

theorem alignr_epi8_8 (a0 a1 b0 b1 : UInt64) : _mm_alignr_epi8 ⟨a0, a1⟩ ⟨b0, b1⟩ 8 = ⟨b1, a0⟩ := by
  conv => rhs; rw [← pack8_id b1, ← pack8_id a0]
  rfl

theorem blend_epi16_F0 (a0 a1 b0 b1 : UInt64) : _mm_blend_epi16 ⟨a0, a1⟩ ⟨b0, b1⟩ 0xF0 = ⟨a0, b1⟩ := by
  conv => rhs; rw [← pack4_id a0, ← pack4_id b1]
  rfl

theorem blend_epi32_F0 (a0 a1 a2 a3 b0 b1 b2 b3 : UInt64) :
    _mm256_blend_epi32 (row a0 a1 a2 a3) (row b0 b1 b2 b3) 0xF0 = row a0 a1 b2 b3 := by
  conv => rhs; rw [← pack2_id a0, ← pack2_id a1, ← pack2_id b2, ← pack2_id b3]
  rfl

theorem blend_epi32_33 (a0 a1 a2 a3 b0 b1 b2 b3 : UInt64) :
    _mm256_blend_epi32 (row a0 a1 a2 a3) (row b0 b1 b2 b3) 0x33 = row b0 a1 b2 a3 := by
  conv => rhs; rw [← pack2_id b0, ← pack2_id a1, ← pack2_id b2, ← pack2_id a3]
  rfl

/-! ### 3. G1 ; G2 on rows = four lanes of the scalar G -/

/-- four words (one column / diagonal of the state) -/
structure Q4 where
  a : UInt64
  b : UInt64
  c : UInt64
  d : UInt64

/-- half of the scalar G in the statement order of the SIMD code (`a = a + m; a = a + b`, i.e.
    `(a + x) + b` where the specification has `a + b + x`), with the two rotation amounts -/
def gHalf (a b c d x r1 r2 : UInt64) : Q4 :=
  let a := a + x + b
  let d := rotr64 (d ^^^ a) r1
  let c := c + d
  let b := rotr64 (b ^^^ c) r2
  ⟨a, b, c, d⟩

/-- the scalar G of the SIMD code: G1 (rotations 32, 24) then G2 (rotations 16, 63) on one lane -/
def g4 (a b c d x y : UInt64) : Q4 :=
  let q := gHalf a b c d x 32 24
  gHalf q.a q.b q.c q.d y 16 63

namespace Avx2P
open Sodium.Model.Blake2bSimd.Avx2

theorem ADD_row (a0 a1 a2 a3 b0 b1 b2 b3 : UInt64) :
    ADD (row a0 a1 a2 a3) (row b0 b1 b2 b3) = row (a0 + b0) (a1 + b1) (a2 + b2) (a3 + b3) := rfl
theorem XOR_row (a0 a1 a2 a3 b0 b1 b2 b3 : UInt64) :
    XOR (row a0 a1 a2 a3) (row b0 b1 b2 b3) = row (a0 ^^^ b0) (a1 ^^^ b1) (a2 ^^^ b2) (a3 ^^^ b3) := rfl

theorem ROTATE24_eq : ROTATE24 = ⟨Sse.r24, Sse.r24⟩ := by decide
theorem ROTATE16_eq : ROTATE16 = ⟨Sse.r16, Sse.r16⟩ := by decide

theorem ROT32_row (x0 x1 x2 x3 : UInt64) :
    ROT32 (row x0 x1 x2 x3) = row (rotr64 x0 32) (rotr64 x1 32) (rotr64 x2 32) (rotr64 x3 32) := by
  show M256.mk (_mm_shuffle_epi32 ⟨x0, x1⟩ (_MM_SHUFFLE 2 3 0 1)) (_mm_shuffle_epi32 ⟨x2, x3⟩ (_MM_SHUFFLE 2 3 0 1)) = _
  rw [shuffle_epi32_2301, shuffle_epi32_2301]

theorem ROT24_row (x0 x1 x2 x3 : UInt64) :
    ROT24 (row x0 x1 x2 x3) = row (rotr64 x0 24) (rotr64 x1 24) (rotr64 x2 24) (rotr64 x3 24) := by
  unfold ROT24
  rw [ROTATE24_eq]
  show M256.mk (_mm_shuffle_epi8 ⟨x0, x1⟩ Sse.r24) (_mm_shuffle_epi8 ⟨x2, x3⟩ Sse.r24) = _
  rw [shuffle_epi8_r24, shuffle_epi8_r24]

theorem ROT16_row (x0 x1 x2 x3 : UInt64) :
    ROT16 (row x0 x1 x2 x3) = row (rotr64 x0 16) (rotr64 x1 16) (rotr64 x2 16) (rotr64 x3 16) := by
  unfold ROT16
  rw [ROTATE16_eq]
  show M256.mk (_mm_shuffle_epi8 ⟨x0, x1⟩ Sse.r16) (_mm_shuffle_epi8 ⟨x2, x3⟩ Sse.r16) = _
  rw [shuffle_epi8_r16, shuffle_epi8_r16]

theorem ROT63_row (x0 x1 x2 x3 : UInt64) :
    ROT63 (row x0 x1 x2 x3) = row (rotr64 x0 63) (rotr64 x1 63) (rotr64 x2 63) (rotr64 x3 63) := by
  rw [← rot63_or x0, ← rot63_or x1, ← rot63_or x2, ← rot63_or x3]; rfl

/-- `BLAKE2B_G1_V1` then `BLAKE2B_G2_V1` is the scalar G in each of the four lanes -/
theorem G1_G2_lanes (a0 a1 a2 a3 b0 b1 b2 b3 c0 c1 c2 c3 d0 d1 d2 d3 x0 x1 x2 x3 y0 y1 y2 y3 : UInt64) :
    BLAKE2B_G2_V1 (BLAKE2B_G1_V1 ⟨row a0 a1 a2 a3, row b0 b1 b2 b3, row c0 c1 c2 c3, row d0 d1 d2 d3⟩
        (row x0 x1 x2 x3)) (row y0 y1 y2 y3) =
      ⟨row (g4 a0 b0 c0 d0 x0 y0).a (g4 a1 b1 c1 d1 x1 y1).a (g4 a2 b2 c2 d2 x2 y2).a (g4 a3 b3 c3 d3 x3 y3).a,
       row (g4 a0 b0 c0 d0 x0 y0).b (g4 a1 b1 c1 d1 x1 y1).b (g4 a2 b2 c2 d2 x2 y2).b (g4 a3 b3 c3 d3 x3 y3).b,
       row (g4 a0 b0 c0 d0 x0 y0).c (g4 a1 b1 c1 d1 x1 y1).c (g4 a2 b2 c2 d2 x2 y2).c (g4 a3 b3 c3 d3 x3 y3).c,
       row (g4 a0 b0 c0 d0 x0 y0).d (g4 a1 b1 c1 d1 x1 y1).d (g4 a2 b2 c2 d2 x2 y2).d (g4 a3 b3 c3 d3 x3 y3).d⟩ := by
  simp only [BLAKE2B_G1_V1, BLAKE2B_G2_V1, ADD_row, XOR_row, ROT32_row, ROT24_row, ROT16_row, ROT63_row, g4, gHalf]

/-- `BLAKE2B_DIAG_V1`: lane `i` afterwards holds `a[i+3], b[i], c[i+1], d[i+2]` (indices mod 4) -/
theorem DIAG_row (a0 a1 a2 a3 b0 b1 b2 b3 c0 c1 c2 c3 d0 d1 d2 d3 : UInt64) :
    BLAKE2B_DIAG_V1 ⟨row a0 a1 a2 a3, row b0 b1 b2 b3, row c0 c1 c2 c3, row d0 d1 d2 d3⟩ =
      ⟨row a3 a0 a1 a2, row b0 b1 b2 b3, row c1 c2 c3 c0, row d2 d3 d0 d1⟩ := rfl

theorem UNDIAG_row (a0 a1 a2 a3 b0 b1 b2 b3 c0 c1 c2 c3 d0 d1 d2 d3 : UInt64) :
    BLAKE2B_UNDIAG_V1 ⟨row a0 a1 a2 a3, row b0 b1 b2 b3, row c0 c1 c2 c3, row d0 d1 d2 d3⟩ =
      ⟨row a1 a2 a3 a0, row b0 b1 b2 b3, row c3 c0 c1 c2, row d2 d3 d0 d1⟩ := rfl

end Avx2P

/-! ### the specification's G and round on a literal 16-word array -/

/-- half of the specification's G -/
def specHalf (a b c d x r1 r2 : UInt64) : Q4 :=
  let a := a + b + x
  let d := Spec.Blake2b.rotr (d ^^^ a) r1
  let c := c + d
  let b := Spec.Blake2b.rotr (b ^^^ c) r2
  ⟨a, b, c, d⟩

theorem gHalf_eq_spec (a b c d x r1 r2 : UInt64) : gHalf a b c d x r1 r2 = specHalf a b c d x r1 r2 := by
  have e : a + x + b = a + b + x := by ac_rfl
  simp only [gHalf, specHalf, e]
  rfl

theorem g4_eq_spec (a b c d x y : UInt64) :
    g4 a b c d x y =
      (let q := specHalf a b c d x 32 24
       specHalf q.a q.b q.c q.d y 16 63) := by
  simp only [g4, gHalf_eq_spec]

section specG
variable (v0 v1 v2 v3 v4 v5 v6 v7 v8 v9 v10 v11 v12 v13 v14 v15 x y : UInt64)

theorem specG_0_4_8_12 :
    Spec.Blake2b.G #[v0, v1, v2, v3, v4, v5, v6, v7, v8, v9, v10, v11, v12, v13, v14, v15] 0 4 8 12 x y =
      #[(g4 v0 v4 v8 v12 x y).a, v1, v2, v3, (g4 v0 v4 v8 v12 x y).b, v5, v6, v7,
        (g4 v0 v4 v8 v12 x y).c, v9, v10, v11, (g4 v0 v4 v8 v12 x y).d, v13, v14, v15] := by
  simp [Spec.Blake2b.G, g4_eq_spec, specHalf]
theorem specG_1_5_9_13 :
    Spec.Blake2b.G #[v0, v1, v2, v3, v4, v5, v6, v7, v8, v9, v10, v11, v12, v13, v14, v15] 1 5 9 13 x y =
      #[v0, (g4 v1 v5 v9 v13 x y).a, v2, v3, v4, (g4 v1 v5 v9 v13 x y).b, v6, v7,
        v8, (g4 v1 v5 v9 v13 x y).c, v10, v11, v12, (g4 v1 v5 v9 v13 x y).d, v14, v15] := by
  simp [Spec.Blake2b.G, g4_eq_spec, specHalf]
theorem specG_2_6_10_14 :
    Spec.Blake2b.G #[v0, v1, v2, v3, v4, v5, v6, v7, v8, v9, v10, v11, v12, v13, v14, v15] 2 6 10 14 x y =
      #[v0, v1, (g4 v2 v6 v10 v14 x y).a, v3, v4, v5, (g4 v2 v6 v10 v14 x y).b, v7,
        v8, v9, (g4 v2 v6 v10 v14 x y).c, v11, v12, v13, (g4 v2 v6 v10 v14 x y).d, v15] := by
  simp [Spec.Blake2b.G, g4_eq_spec, specHalf]
theorem specG_3_7_11_15 :
    Spec.Blake2b.G #[v0, v1, v2, v3, v4, v5, v6, v7, v8, v9, v10, v11, v12, v13, v14, v15] 3 7 11 15 x y =
      #[v0, v1, v2, (g4 v3 v7 v11 v15 x y).a, v4, v5, v6, (g4 v3 v7 v11 v15 x y).b,
        v8, v9, v10, (g4 v3 v7 v11 v15 x y).c, v12, v13, v14, (g4 v3 v7 v11 v15 x y).d] := by
  simp [Spec.Blake2b.G, g4_eq_spec, specHalf]
theorem specG_0_5_10_15 :
    Spec.Blake2b.G #[v0, v1, v2, v3, v4, v5, v6, v7, v8, v9, v10, v11, v12, v13, v14, v15] 0 5 10 15 x y =
      #[(g4 v0 v5 v10 v15 x y).a, v1, v2, v3, v4, (g4 v0 v5 v10 v15 x y).b, v6, v7,
        v8, v9, (g4 v0 v5 v10 v15 x y).c, v11, v12, v13, v14, (g4 v0 v5 v10 v15 x y).d] := by
  simp [Spec.Blake2b.G, g4_eq_spec, specHalf]
theorem specG_1_6_11_12 :
    Spec.Blake2b.G #[v0, v1, v2, v3, v4, v5, v6, v7, v8, v9, v10, v11, v12, v13, v14, v15] 1 6 11 12 x y =
      #[v0, (g4 v1 v6 v11 v12 x y).a, v2, v3, v4, v5, (g4 v1 v6 v11 v12 x y).b, v7,
        v8, v9, v10, (g4 v1 v6 v11 v12 x y).c, (g4 v1 v6 v11 v12 x y).d, v13, v14, v15] := by
  simp [Spec.Blake2b.G, g4_eq_spec, specHalf]
theorem specG_2_7_8_13 :
    Spec.Blake2b.G #[v0, v1, v2, v3, v4, v5, v6, v7, v8, v9, v10, v11, v12, v13, v14, v15] 2 7 8 13 x y =
      #[v0, v1, (g4 v2 v7 v8 v13 x y).a, v3, v4, v5, v6, (g4 v2 v7 v8 v13 x y).b,
        (g4 v2 v7 v8 v13 x y).c, v9, v10, v11, v12, (g4 v2 v7 v8 v13 x y).d, v14, v15] := by
  simp [Spec.Blake2b.G, g4_eq_spec, specHalf]
theorem specG_3_4_9_14 :
    Spec.Blake2b.G #[v0, v1, v2, v3, v4, v5, v6, v7, v8, v9, v10, v11, v12, v13, v14, v15] 3 4 9 14 x y =
      #[v0, v1, v2, (g4 v3 v4 v9 v14 x y).a, (g4 v3 v4 v9 v14 x y).b, v5, v6, v7,
        v8, (g4 v3 v4 v9 v14 x y).c, v10, v11, v12, v13, (g4 v3 v4 v9 v14 x y).d, v15] := by
  simp [Spec.Blake2b.G, g4_eq_spec, specHalf]
end specG

/-- `SIGMA[r mod 10][j]` -/
def sig (r j : Nat) : Nat := (Spec.Blake2b.sigma.getD (r % 10) #[]).getD j 0

/-- one round of the specification with the sixteen message words given explicitly
    (`w j` = the word used in position `j`, i.e. `m[SIGMA[r][j]]`) -/
def specRoundW (v : Array UInt64) (w : Nat → UInt64) : Array UInt64 :=
  let v := Spec.Blake2b.G v 0 4  8 12 (w  0) (w  1)
  let v := Spec.Blake2b.G v 1 5  9 13 (w  2) (w  3)
  let v := Spec.Blake2b.G v 2 6 10 14 (w  4) (w  5)
  let v := Spec.Blake2b.G v 3 7 11 15 (w  6) (w  7)
  let v := Spec.Blake2b.G v 0 5 10 15 (w  8) (w  9)
  let v := Spec.Blake2b.G v 1 6 11 12 (w 10) (w 11)
  let v := Spec.Blake2b.G v 2 7  8 13 (w 12) (w 13)
  let v := Spec.Blake2b.G v 3 4  9 14 (w 14) (w 15)
  v

theorem specRound_eq (m v : Array UInt64) (r : Nat) :
    Spec.Blake2b.round m v r = specRoundW v (fun j => m.getD (sig r j) 0) := rfl

/-- the column step (first four G) and the diagonal step (last four G) of the specification's
    round, on a literal array, as lanes of `g4` -/
def colStep (v : Array UInt64) (w : Nat → UInt64) : Array UInt64 :=
  let v := Spec.Blake2b.G v 0 4  8 12 (w  0) (w  1)
  let v := Spec.Blake2b.G v 1 5  9 13 (w  2) (w  3)
  let v := Spec.Blake2b.G v 2 6 10 14 (w  4) (w  5)
  let v := Spec.Blake2b.G v 3 7 11 15 (w  6) (w  7)
  v
def diagStep (v : Array UInt64) (w : Nat → UInt64) : Array UInt64 :=
  let v := Spec.Blake2b.G v 0 5 10 15 (w  8) (w  9)
  let v := Spec.Blake2b.G v 1 6 11 12 (w 10) (w 11)
  let v := Spec.Blake2b.G v 2 7  8 13 (w 12) (w 13)
  let v := Spec.Blake2b.G v 3 4  9 14 (w 14) (w 15)
  v

theorem specRoundW_eq (v : Array UInt64) (w : Nat → UInt64) :
    specRoundW v w = diagStep (colStep v w) w := rfl

theorem colStep_lit (v0 v1 v2 v3 v4 v5 v6 v7 v8 v9 v10 v11 v12 v13 v14 v15 : UInt64) (w : Nat → UInt64) :
    colStep #[v0, v1, v2, v3, v4, v5, v6, v7, v8, v9, v10, v11, v12, v13, v14, v15] w =
      #[(g4 v0 v4 v8 v12 (w 0) (w 1)).a, (g4 v1 v5 v9 v13 (w 2) (w 3)).a,
        (g4 v2 v6 v10 v14 (w 4) (w 5)).a, (g4 v3 v7 v11 v15 (w 6) (w 7)).a,
        (g4 v0 v4 v8 v12 (w 0) (w 1)).b, (g4 v1 v5 v9 v13 (w 2) (w 3)).b,
        (g4 v2 v6 v10 v14 (w 4) (w 5)).b, (g4 v3 v7 v11 v15 (w 6) (w 7)).b,
        (g4 v0 v4 v8 v12 (w 0) (w 1)).c, (g4 v1 v5 v9 v13 (w 2) (w 3)).c,
        (g4 v2 v6 v10 v14 (w 4) (w 5)).c, (g4 v3 v7 v11 v15 (w 6) (w 7)).c,
        (g4 v0 v4 v8 v12 (w 0) (w 1)).d, (g4 v1 v5 v9 v13 (w 2) (w 3)).d,
        (g4 v2 v6 v10 v14 (w 4) (w 5)).d, (g4 v3 v7 v11 v15 (w 6) (w 7)).d] := by
  simp only [colStep, specG_0_4_8_12, specG_1_5_9_13, specG_2_6_10_14, specG_3_7_11_15]

theorem diagStep_lit (v0 v1 v2 v3 v4 v5 v6 v7 v8 v9 v10 v11 v12 v13 v14 v15 : UInt64) (w : Nat → UInt64) :
    diagStep #[v0, v1, v2, v3, v4, v5, v6, v7, v8, v9, v10, v11, v12, v13, v14, v15] w =
      #[(g4 v0 v5 v10 v15 (w 8) (w 9)).a, (g4 v1 v6 v11 v12 (w 10) (w 11)).a,
        (g4 v2 v7 v8 v13 (w 12) (w 13)).a, (g4 v3 v4 v9 v14 (w 14) (w 15)).a,
        (g4 v3 v4 v9 v14 (w 14) (w 15)).b, (g4 v0 v5 v10 v15 (w 8) (w 9)).b,
        (g4 v1 v6 v11 v12 (w 10) (w 11)).b, (g4 v2 v7 v8 v13 (w 12) (w 13)).b,
        (g4 v2 v7 v8 v13 (w 12) (w 13)).c, (g4 v3 v4 v9 v14 (w 14) (w 15)).c,
        (g4 v0 v5 v10 v15 (w 8) (w 9)).c, (g4 v1 v6 v11 v12 (w 10) (w 11)).c,
        (g4 v1 v6 v11 v12 (w 10) (w 11)).d, (g4 v2 v7 v8 v13 (w 12) (w 13)).d,
        (g4 v3 v4 v9 v14 (w 14) (w 15)).d, (g4 v0 v5 v10 v15 (w 8) (w 9)).d] := by
  simp only [diagStep, specG_0_5_10_15, specG_1_6_11_12, specG_2_7_8_13, specG_3_4_9_14]

/-! ### 5a. AVX2: one round (with the message vectors given) = the specification's round -/
namespace Avx2P
open Sodium.Model.Blake2bSimd.Avx2

/-- the sixteen state words `v[0..15]` held by the four row registers -/
def toV (s : Rows) : Array UInt64 :=
  #[s.a.lo.q0, s.a.lo.q1, s.a.hi.q0, s.a.hi.q1, s.b.lo.q0, s.b.lo.q1, s.b.hi.q0, s.b.hi.q1,
    s.c.lo.q0, s.c.lo.q1, s.c.hi.q0, s.c.hi.q1, s.d.lo.q0, s.d.lo.q1, s.d.hi.q0, s.d.hi.q1]

theorem toV_size (s : Rows) : (toV s).size = 16 := rfl

/-- the body of `BLAKE2B_ROUND_V1` after the four message vectors have been loaded -/
def roundCore (s : Rows) (b1 b2 b3 b4 : M256) : Rows :=
  BLAKE2B_UNDIAG_V1 (BLAKE2B_G2_V1 (BLAKE2B_G1_V1 (BLAKE2B_DIAG_V1
    (BLAKE2B_G2_V1 (BLAKE2B_G1_V1 s b1) b2)) b3) b4)

theorem ROUND_eq_core (s : Rows) (r : Nat) (w : Msg256) :
    BLAKE2B_ROUND_V1 s r w = roundCore s (BLAKE2B_LOAD_MSG r 1 w) (BLAKE2B_LOAD_MSG r 2 w)
      (BLAKE2B_LOAD_MSG r 3 w) (BLAKE2B_LOAD_MSG r 4 w) := rfl

/-- G1, G2, DIAG, G1, G2, UNDIAG on the rows = the eight G of the specification's round, when the
    message vectors hold the words in the lane order of this code: columns `0 2 4 6` / `1 3 5 7`,
    diagonals `14 8 10 12` / `15 9 11 13` (the diagonal that contains `v[4]` sits in lane 0 because
    `BLAKE2B_DIAG_V1` leaves row `b` in place) -/
theorem roundCore_eq_spec (s : Rows) (w : Nat → UInt64) :
    toV (roundCore s (row (w 0) (w 2) (w 4) (w 6)) (row (w 1) (w 3) (w 5) (w 7))
      (row (w 14) (w 8) (w 10) (w 12)) (row (w 15) (w 9) (w 11) (w 13))) = specRoundW (toV s) w := by
  obtain ⟨⟨⟨a0, a1⟩, ⟨a2, a3⟩⟩, ⟨⟨b0, b1⟩, ⟨b2, b3⟩⟩, ⟨⟨c0, c1⟩, ⟨c2, c3⟩⟩, ⟨⟨d0, d1⟩, ⟨d2, d3⟩⟩⟩ := s
  unfold roundCore
  rw [G1_G2_lanes, DIAG_row, G1_G2_lanes, UNDIAG_row, specRoundW_eq]
  show _ = diagStep (colStep #[a0, a1, a2, a3, b0, b1, b2, b3, c0, c1, c2, c3, d0, d1, d2, d3] w) w
  rw [colStep_lit, diagStep_lit]
  rfl

end Avx2P

/-! ### 4a. the 48 `BLAKE2B_LOAD_MSG_r_k` macros of blake2b-load-avx2.h -/

theorem lt12_cases {P : Nat → Prop} (h0 : P 0) (h1 : P 1) (h2 : P 2) (h3 : P 3) (h4 : P 4) (h5 : P 5)
    (h6 : P 6) (h7 : P 7) (h8 : P 8) (h9 : P 9) (h10 : P 10) (h11 : P 11) : ∀ j, j < 12 → P j := by
  intro j hj
  have : j = 0 ∨ j = 1 ∨ j = 2 ∨ j = 3 ∨ j = 4 ∨ j = 5 ∨ j = 6 ∨ j = 7 ∨ j = 8 ∨ j = 9 ∨ j = 10
      ∨ j = 11 := by omega
  rcases this with rfl | rfl | rfl | rfl | rfl | rfl | rfl | rfl | rfl | rfl | rfl | rfl <;> assumption

namespace Avx2P
open Sodium.Model.Blake2bSimd.Avx2

theorem unpacklo_row (a0 a1 a2 a3 b0 b1 b2 b3 : UInt64) :
    _mm256_unpacklo_epi64 (row a0 a1 a2 a3) (row b0 b1 b2 b3) = row a0 b0 a2 b2 := rfl
theorem unpackhi_row (a0 a1 a2 a3 b0 b1 b2 b3 : UInt64) :
    _mm256_unpackhi_epi64 (row a0 a1 a2 a3) (row b0 b1 b2 b3) = row a1 b1 a3 b3 := rfl
theorem alignr_row (a0 a1 a2 a3 b0 b1 b2 b3 : UInt64) :
    _mm256_alignr_epi8 (row a0 a1 a2 a3) (row b0 b1 b2 b3) 8 = row b1 a0 b3 a2 := by
  show M256.mk (_mm_alignr_epi8 ⟨a0, a1⟩ ⟨b0, b1⟩ 8) (_mm_alignr_epi8 ⟨a2, a3⟩ ⟨b2, b3⟩ 8) = _
  rw [alignr_epi8_8, alignr_epi8_8]
theorem shuffle32_1032_row (a0 a1 a2 a3 : UInt64) :
    _mm256_shuffle_epi32 (row a0 a1 a2 a3) (_MM_SHUFFLE 1 0 3 2) = row a1 a0 a3 a2 := by
  show M256.mk (_mm_shuffle_epi32 ⟨a0, a1⟩ (_MM_SHUFFLE 1 0 3 2)) (_mm_shuffle_epi32 ⟨a2, a3⟩ (_MM_SHUFFLE 1 0 3 2)) = _
  rw [shuffle_epi32_1032, shuffle_epi32_1032]

/-- `m0 … m7` as `DECLARE_MESSAGE_WORDS` declares them when the block holds the words `w 0 … w 15`:
    `mI` = the 128-bit pair `(w 2I, w 2I+1)` broadcast to both lanes -/
def msg256 (w : Nat → UInt64) : Msg256 :=
  { m0 := row (w 0) (w 1) (w 0) (w 1),     m1 := row (w 2) (w 3) (w 2) (w 3)
    m2 := row (w 4) (w 5) (w 4) (w 5),     m3 := row (w 6) (w 7) (w 6) (w 7)
    m4 := row (w 8) (w 9) (w 8) (w 9),     m5 := row (w 10) (w 11) (w 10) (w 11)
    m6 := row (w 12) (w 13) (w 12) (w 13), m7 := row (w 14) (w 15) (w 14) (w 15) }

/-- what the four message vectors of round `r` must hold for this code's lane order -/
def LoadOK (w : Nat → UInt64) (r : Nat) : Prop :=
  BLAKE2B_LOAD_MSG r 1 (msg256 w) = row (w (sig r 0)) (w (sig r 2)) (w (sig r 4)) (w (sig r 6)) ∧
  BLAKE2B_LOAD_MSG r 2 (msg256 w) = row (w (sig r 1)) (w (sig r 3)) (w (sig r 5)) (w (sig r 7)) ∧
  BLAKE2B_LOAD_MSG r 3 (msg256 w) = row (w (sig r 14)) (w (sig r 8)) (w (sig r 10)) (w (sig r 12)) ∧
  BLAKE2B_LOAD_MSG r 4 (msg256 w) = row (w (sig r 15)) (w (sig r 9)) (w (sig r 11)) (w (sig r 13))

macro "load_avx2_tac" : tactic => `(tactic|
  (refine ⟨?_, ?_, ?_, ?_⟩ <;>
    (simp only [BLAKE2B_LOAD_MSG, BLAKE2B_LOAD_MSG_0_1, BLAKE2B_LOAD_MSG_0_2, BLAKE2B_LOAD_MSG_0_3, BLAKE2B_LOAD_MSG_0_4,
      BLAKE2B_LOAD_MSG_1_1, BLAKE2B_LOAD_MSG_1_2, BLAKE2B_LOAD_MSG_1_3, BLAKE2B_LOAD_MSG_1_4,
      BLAKE2B_LOAD_MSG_2_1, BLAKE2B_LOAD_MSG_2_2, BLAKE2B_LOAD_MSG_2_3, BLAKE2B_LOAD_MSG_2_4,
      BLAKE2B_LOAD_MSG_3_1, BLAKE2B_LOAD_MSG_3_2, BLAKE2B_LOAD_MSG_3_3, BLAKE2B_LOAD_MSG_3_4,
      BLAKE2B_LOAD_MSG_4_1, BLAKE2B_LOAD_MSG_4_2, BLAKE2B_LOAD_MSG_4_3, BLAKE2B_LOAD_MSG_4_4,
      BLAKE2B_LOAD_MSG_5_1, BLAKE2B_LOAD_MSG_5_2, BLAKE2B_LOAD_MSG_5_3, BLAKE2B_LOAD_MSG_5_4,
      BLAKE2B_LOAD_MSG_6_1, BLAKE2B_LOAD_MSG_6_2, BLAKE2B_LOAD_MSG_6_3, BLAKE2B_LOAD_MSG_6_4,
      BLAKE2B_LOAD_MSG_7_1, BLAKE2B_LOAD_MSG_7_2, BLAKE2B_LOAD_MSG_7_3, BLAKE2B_LOAD_MSG_7_4,
      BLAKE2B_LOAD_MSG_8_1, BLAKE2B_LOAD_MSG_8_2, BLAKE2B_LOAD_MSG_8_3, BLAKE2B_LOAD_MSG_8_4,
      BLAKE2B_LOAD_MSG_9_1, BLAKE2B_LOAD_MSG_9_2, BLAKE2B_LOAD_MSG_9_3, BLAKE2B_LOAD_MSG_9_4,
      BLAKE2B_LOAD_MSG_10_1, BLAKE2B_LOAD_MSG_10_2, BLAKE2B_LOAD_MSG_10_3, BLAKE2B_LOAD_MSG_10_4,
      BLAKE2B_LOAD_MSG_11_1, BLAKE2B_LOAD_MSG_11_2, BLAKE2B_LOAD_MSG_11_3, BLAKE2B_LOAD_MSG_11_4,
      msg256, unpacklo_row, unpackhi_row, alignr_row, shuffle32_1032_row, blend_epi32_F0, blend_epi32_33]; rfl)))

theorem load_ok_0 (w : Nat → UInt64) : LoadOK w 0 := by unfold LoadOK; load_avx2_tac
theorem load_ok_1 (w : Nat → UInt64) : LoadOK w 1 := by unfold LoadOK; load_avx2_tac
theorem load_ok_2 (w : Nat → UInt64) : LoadOK w 2 := by unfold LoadOK; load_avx2_tac
theorem load_ok_3 (w : Nat → UInt64) : LoadOK w 3 := by unfold LoadOK; load_avx2_tac
theorem load_ok_4 (w : Nat → UInt64) : LoadOK w 4 := by unfold LoadOK; load_avx2_tac
theorem load_ok_5 (w : Nat → UInt64) : LoadOK w 5 := by unfold LoadOK; load_avx2_tac
theorem load_ok_6 (w : Nat → UInt64) : LoadOK w 6 := by unfold LoadOK; load_avx2_tac
theorem load_ok_7 (w : Nat → UInt64) : LoadOK w 7 := by unfold LoadOK; load_avx2_tac
theorem load_ok_8 (w : Nat → UInt64) : LoadOK w 8 := by unfold LoadOK; load_avx2_tac
theorem load_ok_9 (w : Nat → UInt64) : LoadOK w 9 := by unfold LoadOK; load_avx2_tac
theorem load_ok_10 (w : Nat → UInt64) : LoadOK w 10 := by unfold LoadOK; load_avx2_tac
theorem load_ok_11 (w : Nat → UInt64) : LoadOK w 11 := by unfold LoadOK; load_avx2_tac

/-- every `BLAKE2B_LOAD_MSG_r_k` yields exactly the message words `m[SIGMA[r][…]]` the
    specification's round `r` consumes in that position (all 48 macros, symbolic words) -/
theorem load_ok (w : Nat → UInt64) : ∀ r, r < 12 → LoadOK w r :=
  lt12_cases (load_ok_0 w) (load_ok_1 w) (load_ok_2 w) (load_ok_3 w) (load_ok_4 w) (load_ok_5 w)
    (load_ok_6 w) (load_ok_7 w) (load_ok_8 w) (load_ok_9 w) (load_ok_10 w) (load_ok_11 w)

end Avx2P

/-! ### 5b. AVX2: ROUND, the twelve rounds, the whole compression function -/

open Sodium.CompressRefP (arr_ext_getD lt8_cases load64_le_eq)
open Sodium.CompressRefP.B2 (lt16_cases specV specV_size range12)

/-- the specification's message words `m[0..15]` of a block -/
def specM (b : Array UInt8) : Array UInt64 := (Array.range 16).map fun i => Spec.Blake2b.load64le b (8 * i)

theorem specM_getD (b : Array UInt8) : ∀ j, j < 16 → (specM b).getD j 0 = Spec.Blake2b.load64le b (8 * j) := by
  apply lt16_cases <;> simp [specM]

/-- a 16-byte load = the two little-endian words of the specification -/
theorem loadu128_eq (b : Array UInt8) (o : Nat) :
    _mm_loadu_si128 b o = ⟨Spec.Blake2b.load64le b o, Spec.Blake2b.load64le b (o + 8)⟩ := by
  rw [← load64_le_eq, ← load64_le_eq]
  simp [_mm_loadu_si128, M128.ofEpi8, M128.ofEpi64, CompressRef.load64_le, Nat.add_assoc]

/-- an array of size 8 is the literal of its elements -/
theorem arr8_eta (h : Array UInt64) (hh : h.size = 8) :
    h = #[h.getD 0 0, h.getD 1 0, h.getD 2 0, h.getD 3 0, h.getD 4 0, h.getD 5 0, h.getD 6 0, h.getD 7 0] := by
  apply arr_ext_getD 0
  · simp [hh]
  · rw [hh]; apply lt8_cases <;> simp

namespace Avx2P
open Sodium.Model.Blake2bSimd.Avx2

/-- `DECLARE_MESSAGE_WORDS(block)` declares the specification's sixteen message words, each pair
    broadcast to both 128-bit lanes -/
theorem declare_eq (b : Array UInt8) : DECLARE_MESSAGE_WORDS b = msg256 (fun j => (specM b).getD j 0) := by
  simp only [DECLARE_MESSAGE_WORDS, LOADU128, loadu128_eq, _mm256_broadcastsi128_si256, msg256,
    specM_getD _ 0 (by decide), specM_getD _ 1 (by decide), specM_getD _ 2 (by decide),
    specM_getD _ 3 (by decide), specM_getD _ 4 (by decide), specM_getD _ 5 (by decide),
    specM_getD _ 6 (by decide), specM_getD _ 7 (by decide), specM_getD _ 8 (by decide),
    specM_getD _ 9 (by decide), specM_getD _ 10 (by decide), specM_getD _ 11 (by decide),
    specM_getD _ 12 (by decide), specM_getD _ 13 (by decide), specM_getD _ 14 (by decide),
    specM_getD _ 15 (by decide)]

/-- `BLAKE2B_ROUND_V1(a, b, c, d, r, m)` = round `r` of the specification's F -/
theorem ROUND_eq (s : Rows) (m : Array UInt64) (r : Nat) (hr : r < 12) :
    toV (BLAKE2B_ROUND_V1 s r (msg256 (fun j => m.getD j 0))) = Spec.Blake2b.round m (toV s) r := by
  obtain ⟨l1, l2, l3, l4⟩ := load_ok (fun j => m.getD j 0) r hr
  rw [ROUND_eq_core, l1, l2, l3, l4, specRound_eq]
  exact roundCore_eq_spec s (fun j => m.getD (sig r j) 0)

theorem ROUNDS_eq (s : Rows) (m : Array UInt64) :
    toV (BLAKE2B_ROUNDS_V1 s (msg256 (fun j => m.getD j 0))) = (List.range 12).foldl (Spec.Blake2b.round m) (toV s) := by
  rw [range12]
  simp only [List.foldl_cons, List.foldl_nil, BLAKE2B_ROUNDS_V1]
  rw [ROUND_eq _ m 11 (by decide), ROUND_eq _ m 10 (by decide), ROUND_eq _ m 9 (by decide),
    ROUND_eq _ m 8 (by decide), ROUND_eq _ m 7 (by decide), ROUND_eq _ m 6 (by decide),
    ROUND_eq _ m 5 (by decide), ROUND_eq _ m 4 (by decide), ROUND_eq _ m 3 (by decide),
    ROUND_eq _ m 2 (by decide), ROUND_eq _ m 1 (by decide), ROUND_eq _ m 0 (by decide)]

end Avx2P

namespace Avx2P
open Sodium.Model.Blake2bSimd.Avx2
open Sodium.Model.CompressRef.Blake2b (tWords fWords)

/-- the rows before the rounds hold the specification's initial `v[0..15]` -/
theorem init_eq (h : Array UInt64) (t : Nat) (last : Bool) :
    toV ⟨LOADU h 0, LOADU h 4, LOAD blake2b_IV 0,
         XOR (LOAD blake2b_IV 4) (_mm256_set_epi64x ((fWords last).getD 1 0) ((fWords last).getD 0 0)
           ((tWords t).getD 1 0) ((tWords t).getD 0 0))⟩ = specV h t last := by
  have m1 : (0 - 1 : UInt64) = 0xFFFFFFFFFFFFFFFF := by decide
  apply arr_ext_getD 0
  · rw [toV_size, specV_size]
  · rw [toV_size]
    cases last <;> apply lt16_cases <;>
      simp [toV, LOADU, LOAD, XOR, _mm256_loadu_si256_u64, _mm256_xor_si256, _mm256_set_epi64x, M256.ofEpi64,
        M128.ofEpi64, M256.epi64, M256.lane, M128.epi64, specV, tWords, fWords,
        CompressRef.Blake2b.blake2b_set_lastblock, blake2b_IV, Spec.Blake2b.ivWords, m1]

theorem final_eq (h0 h1 h2 h3 h4 h5 h6 h7 : UInt64) (s : Rows) :
    STOREU (STOREU #[h0, h1, h2, h3, h4, h5, h6, h7] 0 (XOR (XOR s.a s.c) (row h0 h1 h2 h3))) 4
        (XOR (XOR s.b s.d) (row h4 h5 h6 h7)) =
      (Array.range 8).map fun i => #[h0, h1, h2, h3, h4, h5, h6, h7].getD i 0 ^^^ (toV s).getD i 0 ^^^
        (toV s).getD (i + 8) 0 := by
  obtain ⟨⟨⟨a0, a1⟩, ⟨a2, a3⟩⟩, ⟨⟨b0, b1⟩, ⟨b2, b3⟩⟩, ⟨⟨c0, c1⟩, ⟨c2, c3⟩⟩, ⟨⟨d0, d1⟩, ⟨d2, d3⟩⟩⟩ := s
  have e : STOREU (STOREU #[h0, h1, h2, h3, h4, h5, h6, h7] 0
      (XOR (XOR (row a0 a1 a2 a3) (row c0 c1 c2 c3)) (row h0 h1 h2 h3))) 4
        (XOR (XOR (row b0 b1 b2 b3) (row d0 d1 d2 d3)) (row h4 h5 h6 h7)) =
      #[a0 ^^^ c0 ^^^ h0, a1 ^^^ c1 ^^^ h1, a2 ^^^ c2 ^^^ h2, a3 ^^^ c3 ^^^ h3,
        b0 ^^^ d0 ^^^ h4, b1 ^^^ d1 ^^^ h5, b2 ^^^ d2 ^^^ h6, b3 ^^^ d3 ^^^ h7] := by
    simp [STOREU, _mm256_storeu_si256_u64, XOR, _mm256_xor_si256, M256.ofEpi64, M128.ofEpi64, M256.epi64, M256.lane, M128.epi64]
  rw [e]
  apply arr_ext_getD 0
  · simp
  · simp only [List.size_toArray, List.length_cons, List.length_nil]
    apply lt8_cases <;> simp [toV] <;> ac_rfl

theorem compress_unfold (h t f : Array UInt64) (block : Array UInt8) :
    blake2b_compress_avx2 h t f block =
      (let R := BLAKE2B_ROUNDS_V1 ⟨LOADU h 0, LOADU h 4, LOAD blake2b_IV 0,
         XOR (LOAD blake2b_IV 4) (_mm256_set_epi64x (f.getD 1 0) (f.getD 0 0) (t.getD 1 0) (t.getD 0 0))⟩
         (DECLARE_MESSAGE_WORDS block)
       STOREU (STOREU h 0 (XOR (XOR R.a R.c) (LOADU h 0))) 4 (XOR (XOR R.b R.d) (LOADU h 4))) := rfl

theorem spec_unfold (h : Array UInt64) (block : Bytes) (t : Nat) (last : Bool) :
    Spec.Blake2b.compress h block t last =
      (let v := (List.range 12).foldl (Spec.Blake2b.round (specM block.toArray)) (specV h t last)
       (Array.range 8).map fun i => h.getD i 0 ^^^ v.getD i 0 ^^^ v.getD (i + 8) 0) := rfl

theorem LOADU_lit (h0 h1 h2 h3 h4 h5 h6 h7 : UInt64) :
    LOADU #[h0, h1, h2, h3, h4, h5, h6, h7] 0 = row h0 h1 h2 h3 ∧
    LOADU #[h0, h1, h2, h3, h4, h5, h6, h7] 4 = row h4 h5 h6 h7 := ⟨rfl, rfl⟩

theorem compress_avx2_eq (h : Array UInt64) (block : Bytes) (t : Nat) (last : Bool) (hh : h.size = 8) :
    blake2b_compress_avx2 h (tWords t) (fWords last) block.toArray = Spec.Blake2b.compress h block t last := by
  rw [compress_unfold, spec_unfold, declare_eq]
  simp only []
  rw [← init_eq, ← ROUNDS_eq]
  generalize BLAKE2B_ROUNDS_V1 _ _ = R
  rw [arr8_eta h hh]
  generalize h.getD 0 0 = h0; generalize h.getD 1 0 = h1; generalize h.getD 2 0 = h2
  generalize h.getD 3 0 = h3; generalize h.getD 4 0 = h4; generalize h.getD 5 0 = h5
  generalize h.getD 6 0 = h6; generalize h.getD 7 0 = h7
  rw [(LOADU_lit h0 h1 h2 h3 h4 h5 h6 h7).1, (LOADU_lit h0 h1 h2 h3 h4 h5 h6 h7).2]
  exact final_eq h0 h1 h2 h3 h4 h5 h6 h7 R

end Avx2P

namespace Avx2P
open Sodium.Model.Blake2bSimd.Avx2

/-- (2) column step: G1 then G2 on the row vectors = four parallel G of the specification -/
theorem column_eq (s : Rows) (x0 x1 x2 x3 y0 y1 y2 y3 : UInt64) :
    toV (BLAKE2B_G2_V1 (BLAKE2B_G1_V1 s (row x0 x1 x2 x3)) (row y0 y1 y2 y3)) =
      colStep (toV s) (fun j => [x0, y0, x1, y1, x2, y2, x3, y3].getD j 0) := by
  obtain ⟨⟨⟨a0, a1⟩, ⟨a2, a3⟩⟩, ⟨⟨b0, b1⟩, ⟨b2, b3⟩⟩, ⟨⟨c0, c1⟩, ⟨c2, c3⟩⟩, ⟨⟨d0, d1⟩, ⟨d2, d3⟩⟩⟩ := s
  rw [G1_G2_lanes]
  show _ = colStep #[a0, a1, a2, a3, b0, b1, b2, b3, c0, c1, c2, c3, d0, d1, d2, d3] _
  rw [colStep_lit]
  rfl

/-- (2) diagonal step: DIAG, G1, G2, UNDIAG = the four diagonal G of the specification; lane 0
    works on the diagonal `(3, 4, 9, 14)` -/
theorem diagonal_eq (s : Rows) (x0 x1 x2 x3 y0 y1 y2 y3 : UInt64) :
    toV (BLAKE2B_UNDIAG_V1 (BLAKE2B_G2_V1 (BLAKE2B_G1_V1 (BLAKE2B_DIAG_V1 s) (row x0 x1 x2 x3)) (row y0 y1 y2 y3))) =
      diagStep (toV s) (fun j => [0, 0, 0, 0, 0, 0, 0, 0, x1, y1, x2, y2, x3, y3, x0, y0].getD j 0) := by
  obtain ⟨⟨⟨a0, a1⟩, ⟨a2, a3⟩⟩, ⟨⟨b0, b1⟩, ⟨b2, b3⟩⟩, ⟨⟨c0, c1⟩, ⟨c2, c3⟩⟩, ⟨⟨d0, d1⟩, ⟨d2, d3⟩⟩⟩ := s
  rw [DIAG_row, G1_G2_lanes, UNDIAG_row]
  show _ = diagStep #[a0, a1, a2, a3, b0, b1, b2, b3, c0, c1, c2, c3, d0, d1, d2, d3] _
  rw [diagStep_lit]
  rfl
end Avx2P


end Sodium.Blake2bSimdP
