import SodiumModel.Proofs.EdSign2Group
/-
  decode ∘ encode = id on curve points.
-/
open Sodium Sodium.Spec Sodium.Model.Ge25519
open Sodium.ScalarmultLow (c_add c_mul c_sqr c_sub)
open Sodium.RistrettoRefP (F c_neg c_inv cast_inj normX mul_lt sqr_lt neg_lt)
namespace Sodium.EdSignP

/-- a projective curve point gives a root of (dy²+1)·x² = y²−1 at its affine coordinates -/
theorem root_of_onCurve {P : Ed25519.Point} (h : Ed25519.isOnCurve P = true) :
    Root (uOf (Ed25519.toAffine P).2) (vOf (Ed25519.toAffine P).2) (Ed25519.toAffine P).1 := by
  have hz := isOnCurve_Z h
  unfold Ed25519.isOnCurve at h
  simp only [Bool.and_eq_true, beq_iff_eq] at h
  have hc := congrArg (Nat.cast : Nat → F) h.1.1
  simp only [c_mul, c_sub, c_add, c_sqr] at hc
  unfold Root uOf vOf Ed25519.toAffine
  simp only [c_mul, c_sub, c_add, c_sqr, c_inv, Nat.cast_one]
  generalize ((Ed25519.d : Nat) : F) = d at *
  generalize ((P.X : Nat) : F) = X at *
  generalize ((P.Y : Nat) : F) = Y at *
  generalize ((P.Z : Nat) : F) = Z at *
  field_simp
  first | linear_combination hc | linear_combination (-1 : F) * hc

theorem fbm_encode (x y : Nat) (hy : y < F25519.p) :
    F25519.fromBytesMasked (toLE 32 (y + 2 ^ 255 * (x % 2))) = y ∧
    signBit (toLE 32 (y + 2 ^ 255 * (x % 2))) = decide (x % 2 = 1) := by
  have hp : F25519.p < 2 ^ 255 := by decide +kernel
  have hl : (toLE 32 (y + 2 ^ 255 * (x % 2))).length = 32 := toLE_length _ _
  have hx : x % 2 < 2 := Nat.mod_lt _ (by omega)
  have hle : le (toLE 32 (y + 2 ^ 255 * (x % 2))) = y + 2 ^ 255 * (x % 2) := by
    rw [le_toLE, Nat.mod_eq_of_lt]; omega
  constructor
  · unfold F25519.fromBytesMasked
    rw [List.take_of_length_le (by omega), hle]
    have : (y + 2 ^ 255 * (x % 2)) % 2 ^ 255 = y := by omega
    rw [this, Nat.mod_eq_of_lt hy]
  · unfold signBit
    have h1 := RistrettoRefP.topbit32 _ hl
    rw [RistrettoRefP.shr7_toNat, hle] at h1
    have h2 : (y + 2 ^ 255 * (x % 2)) / 2 ^ 255 = x % 2 := by omega
    rw [h2] at h1
    generalize ((toLE 32 (y + 2 ^ 255 * (x % 2))).getD 31 0) = z at h1 ⊢
    have hz := z.toNat_lt
    rcases Nat.mod_two_eq_zero_or_one x with e | e <;> rw [e] at h1 ⊢ <;> simp <;> omega

/-- decode ∘ encode = id on curve points (lax decoding; the encoding is canonical, so strict decoding agrees) -/
theorem decode_encode (P : Ed25519.Point) (h : Ed25519.isOnCurve P = true) :
    decodeP (Ed25519.encode P) = some (Ed25519.ofAffine (Ed25519.toAffine P).1 (Ed25519.toAffine P).2) := by
  have hr := root_of_onCurve h
  have hxl : (Ed25519.toAffine P).1 < F25519.p := mul_lt _ _
  have hyl : (Ed25519.toAffine P).2 < F25519.p := mul_lt _ _
  unfold Ed25519.encode decodeP
  generalize Ed25519.toAffine P = xy at *
  obtain ⟨x, y⟩ := xy
  simp only at hr hxl hyl ⊢
  obtain ⟨e1, e2⟩ := fbm_encode x y hyl
  rw [e1, e2]
  obtain ⟨k1, k2, -⟩ := pick_spec (c := cand2 (uOf y) (vOf y)) (uOf_lt y) (mul_lt _ _)
    (cand2_hcw (uOf y) (vOf y)) (cand2_hw (vOf_ne y))
  cases hp : pick (uOf y) (vOf y) (cand2 (uOf y) (vOf y)) with
  | none => exact absurd ⟨_, hr⟩ (k2 hp)
  | some x2 =>
    obtain ⟨hx2, hr2⟩ := k1 x2 hp
    simp only [Option.map_some]
    rw [root_norm (vOf_ne y) hx2 hxl hr2 hr]
    have : normX x (decide (x % 2 = 1)) = x := by
      unfold normX F25519.isNegative
      rw [Nat.mod_eq_of_lt hxl]
      rcases Nat.mod_two_eq_zero_or_one x with e | e <;> simp [e]
    rw [this]

end Sodium.EdSignP
