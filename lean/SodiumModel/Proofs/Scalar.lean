import SodiumModel.Model.Scalar
import SodiumModel.Proofs.Utils
import SodiumModel.Properties.C14
import SodiumModel.Spec.Scalar25519
import SodiumModel.Spec.Ed25519
import SodiumModel.Spec.H2c
/-
  Helper lemmas for C07: the scalar wrappers of core_ed25519.c, `sc25519_is_canonical`,
  the return-code logic of is_valid_point / scalarmult_ed25519, and expand_message_xmd of core_h2c.c.
-/
open Sodium Sodium.Model Sodium.Model.Scalar
open Sodium.Spec.Scalar (L)
open Sodium.Spec.H2c (xmdBlocks xmdCore expandMessageXmd expandMessageXmdLibsodium effectiveDst ascii)
namespace Sodium.ScalarP

/-! ### scalar wrappers -/

theorem L_val : L = 7237005577332262213973186563042994240857116359379907606001950938285454250989 := by decide +kernel

theorem le_zeros (n : Nat) : le (zeros n) = 0 := by
  induction n with
  | zero => rfl
  | succ n ih => simp only [zeros, List.replicate_succ, le] at ih ⊢; simp [ih]

theorem zeros_length (n : Nat) : (zeros n).length = n := by simp [zeros]

theorem le_Lbytes : le Lbytes = L := by decide +kernel

/-- the spec of `sc25519_reduce` assumed by the scalar theorems -/
def ReduceSpec (reduce : Bytes → Bytes) : Prop :=
  ∀ b : Bytes, b.length = 64 → reduce b = toLE 32 (le b % L)

theorem memcpyAt_length (dst src : Bytes) (off n : Nat) (h1 : off + n ≤ dst.length) (h2 : n ≤ src.length) :
    (memcpyAt dst off src n).length = dst.length := by
  simp [memcpyAt]; omega

/-- copying a whole 32-byte scalar to the start of a zeroed 64-byte buffer -/
theorem pad64 (s : Bytes) (hs : s.length = 32) :
    memcpyAt (zeros 64) 0 s 32 = s ++ zeros 32 := by
  simp [memcpyAt, List.take_of_length_le, hs, zeros]

theorem le_pad (s : Bytes) (n : Nat) : le (s ++ zeros n) = le s := by
  rw [le_append, le_zeros]; simp

theorem reduce_inplace_take {reduce : Bytes → Bytes} (hR : ReduceSpec reduce) (t : Bytes) (ht : t.length = 64) :
    (sc25519_reduce_inplace reduce t).take 32 = toLE 32 (le t % L) := by
  have hl := toLE_length 32 (le t % L)
  simp [sc25519_reduce_inplace, memcpyAt, SCALARBYTES, hR t ht, List.take_of_length_le, hl]

theorem scalar_reduce_eq {reduce : Bytes → Bytes} (hR : ReduceSpec reduce) (s : Bytes) (hs : s.length = 64) :
    scalar_reduce reduce s = toLE 32 (le s % L) := by
  have h1 : memcpyAt (zeros 64) 0 s 64 = s := by
    simp [memcpyAt, List.take_of_length_le, hs, zeros]
  simp only [scalar_reduce, NONREDUCEDSCALARBYTES, SCALARBYTES, h1]
  exact reduce_inplace_take hR s hs

theorem negT_le : le (memcpyAt (zeros 64) 32 Lbytes 32) = 2 ^ 256 * L := by decide +kernel
theorem negT_length : (memcpyAt (zeros 64) 32 Lbytes 32).length = 64 := by decide +kernel
theorem compT_le : le (memcpyAt ((zeros 64).set 0 ((zeros 64)[0]! + 1)) 32 Lbytes 32) = 1 + 2 ^ 256 * L := by decide +kernel
theorem compT_length : (memcpyAt ((zeros 64).set 0 ((zeros 64)[0]! + 1)) 32 Lbytes 32).length = 64 := by decide +kernel

theorem le_lt32 (s : Bytes) (hs : s.length = 32) : le s < 2 ^ 256 := by
  have := le_lt s; rw [hs] at this; exact this

set_option exponentiation.threshold 600 in
theorem scalar_negate_le {reduce : Bytes → Bytes} (hR : ReduceSpec reduce) (s : Bytes) (hs : s.length = 32) :
    scalar_negate reduce s = toLE 32 ((L - le s % L) % L) := by
  have hlt := le_lt32 s hs
  simp only [scalar_negate, NONREDUCEDSCALARBYTES, SCALARBYTES, pad64 s hs]
  have hl : (memcpyAt (zeros 64) 32 Lbytes 32).length = (s ++ zeros 32).length := by
    rw [negT_length]; simp [hs, zeros]
  have hsub := C14.sub_generic_exact _ _ hl
  rw [reduce_inplace_take hR _ (by rw [hsub.1, negT_length])]
  rw [hsub.2, negT_le, negT_length, le_pad]
  congr 1
  rw [L_val]; omega

set_option exponentiation.threshold 600 in
theorem scalar_complement_le {reduce : Bytes → Bytes} (hR : ReduceSpec reduce) (s : Bytes) (hs : s.length = 32) :
    scalar_complement reduce s = toLE 32 ((1 + L - le s % L) % L) := by
  have hlt := le_lt32 s hs
  simp only [scalar_complement, NONREDUCEDSCALARBYTES, SCALARBYTES, pad64 s hs]
  have hl : (memcpyAt ((zeros 64).set 0 ((zeros 64)[0]! + 1)) 32 Lbytes 32).length = (s ++ zeros 32).length := by
    rw [compT_length]; simp [hs, zeros]
  have hsub := C14.sub_generic_exact _ _ hl
  rw [reduce_inplace_take hR _ (by rw [hsub.1, compT_length])]
  rw [hsub.2, compT_le, compT_length, le_pad]
  congr 1
  rw [L_val]; omega

/-- exact behaviour of `scalar_add` for ALL 32-byte inputs: the carry out of bit 255 is lost -/
theorem scalar_add_le {reduce : Bytes → Bytes} (hR : ReduceSpec reduce) (x y : Bytes)
    (hx : x.length = 32) (hy : y.length = 32) :
    scalar_add reduce x y = toLE 32 (((le x + le y) % 2 ^ 256) % L) := by
  simp only [scalar_add, NONREDUCEDSCALARBYTES, SCALARBYTES, pad64 x hx, pad64 y hy]
  have hx' : (x ++ zeros 32).take 32 = x := by simp [hx]
  have hy' : (y ++ zeros 32).take 32 = y := by simp [hy]
  rw [hx', hy']
  have hadd := C14.add_generic_exact x y (by omega)
  have hal : (sodium_add_generic x y).length = 32 := by rw [hadd.1, hx]
  have h2 : memcpyAt (x ++ zeros 32) 0 (sodium_add_generic x y) 32 = sodium_add_generic x y ++ zeros 32 := by
    simp [memcpyAt, List.take_of_length_le, hal, hx]
  rw [h2, scalar_reduce_eq hR _ (by simp [hal, zeros]), le_pad, hadd.2, hx]

theorem le_toLE32_of_lt (v : Nat) (h : v < L) : le (toLE 32 v) = v := by
  rw [le_toLE]; rw [L_val] at h; omega

theorem scalar_sub_le {reduce : Bytes → Bytes} (hR : ReduceSpec reduce) (x y : Bytes)
    (hx : x.length = 32) (hy : y.length = 32) :
    scalar_sub reduce x y = toLE 32 (((le x + (L - le y % L) % L) % 2 ^ 256) % L) := by
  have hLpos : 0 < L := by rw [L_val]; omega
  simp only [scalar_sub, scalar_negate_le hR y hy]
  rw [scalar_add_le hR x _ hx (toLE_length _ _), le_toLE32_of_lt _ (Nat.mod_lt _ hLpos)]

theorem add_reduced (a b : Nat) (ha : a < L) (hb : b < L) : ((a + b) % 2 ^ 256) % L = (a + b) % L := by
  rw [L_val] at *; omega

theorem sub_reduced (a b : Nat) (ha : a < L) (hb : b < L) :
    ((a + (L - b % L) % L) % 2 ^ 256) % L = (a + (L - b)) % L := by
  rw [L_val] at *; omega

theorem sub_reduced_int (a b : Nat) (hb : b < L) :
    (((a + (L - b)) % L : Nat) : Int) = ((a : Int) - (b : Int)) % (L : Int) := by
  rw [L_val] at *; omega

theorem scalar_invert_rc_eq (invert : Bytes → Bytes) (s : Bytes) (hs : s.length = 32) :
    (scalar_invert invert s).1 = if s = zeros 32 then -1 else 0 := by
  have h1 : s.take 32 = s := List.take_of_length_le (by omega)
  simp only [scalar_invert, SCALARBYTES, h1, C14.is_zero_exact, hs]
  split <;> rfl

/-! ### sc25519_is_canonical -/

def Ldistinct : List UInt8 := [0xed, 0xd3, 0xf5, 0x5c, 0x1a, 0x63, 0x12, 0x58, 0xd6, 0x9c, 0xf7, 0xa2, 0xde, 0xf9, 0x14, 0x00, 0x10]

def stepOK (s l : UInt8) : Bool :=
  canonStep (0, 1) s l == (if s < l then 1 else 0, if s = l then 1 else 0)

set_option maxRecDepth 100000 in
theorem canonStep_01_all : ∀ s : UInt8, Ldistinct.all (fun l => stepOK s l) = true := by decide +kernel

theorem canonStep_01 (s l : UInt8) (hl : l ∈ Ldistinct) :
    canonStep (0, 1) s l = (if s < l then 1 else 0, if s = l then 1 else 0) := by
  have := List.all_eq_true.mp (canonStep_01_all s) l hl
  simpa [stepOK] using this

theorem canonStep_n0 (c s l : UInt8) : canonStep (c, 0) s l = (c, 0) := by
  simp [canonStep]; rfl

theorem canonLoop_spec : ∀ (ss ls : Bytes), ss.length = ls.length → (∀ l ∈ ls, l ∈ Ldistinct) →
    canonLoop ss ls = (if le ss < le ls then 1 else 0, if ss = ls then 1 else 0)
  | [], [], _, _ => by simp [canonLoop, le]
  | [], _ :: _, h, _ => by simp at h
  | _ :: _, [], h, _ => by simp at h
  | s :: ss, l :: ls, h, hm => by
    have ih := canonLoop_spec ss ls (by simpa using h) (fun x hx => hm x (List.mem_cons_of_mem _ hx))
    have hl := hm l (List.mem_cons_self)
    have hs := s.toNat_lt; have hl' := l.toNat_lt
    simp only [canonLoop, ih, le]
    by_cases heq : ss = ls
    · subst heq
      simp only [Nat.lt_irrefl, if_false, if_true, canonStep_01 s l hl]
      have h1 : (s.toNat + 256 * le ss < l.toNat + 256 * le ss) ↔ s < l := by
        rw [UInt8.lt_iff_toNat_lt]; omega
      have h2 : (s :: ss = l :: ss) ↔ s = l := by simp
      simp only [h1, h2]
    · have hne : le ss ≠ le ls := fun e => heq (le_inj ss ls (by simpa using h) e)
      have h2 : ¬ (s :: ss = l :: ls) := by simp [heq]
      simp only [heq, h2, if_false, canonStep_n0]
      by_cases hlt : le ss < le ls
      · have : s.toNat + 256 * le ss < l.toNat + 256 * le ls := by omega
        simp [hlt, this]
      · have : ¬ s.toNat + 256 * le ss < l.toNat + 256 * le ls := by omega
        simp [hlt, this]


theorem is_canonical_eq (s : Bytes) (hs : s.length = 32) :
    sc25519_is_canonical s = if le s < L then 1 else 0 := by
  have h1 : s.take 32 = s := List.take_of_length_le (by omega)
  have hm : ∀ l ∈ Lbytes, l ∈ Ldistinct := by decide +kernel
  rw [sc25519_is_canonical, h1, canonLoop_spec s Lbytes (by rw [hs]; rfl) hm, le_Lbytes]
  by_cases h : le s < L <;> simp [h]

/-! ### is_inf, clamping -/


/-- a 32-byte string is a first byte, 30 middle bytes and a last byte -/
theorem split32 (s : Bytes) (hs : s.length = 32) :
    ∃ (a : UInt8) (mid : Bytes) (z : UInt8), mid.length = 30 ∧ s = a :: (mid ++ [z]) := by
  match s, hs with
  | a :: tl, h =>
    have htl : tl.length = 31 := by simpa using h
    have hne : tl ≠ [] := by intro e; simp [e] at htl
    refine ⟨a, tl.dropLast, tl.getLast hne, by simp [htl], ?_⟩
    rw [List.dropLast_concat_getLast]

theorem le_split32 (a z : UInt8) (mid : Bytes) (hm : mid.length = 30) :
    le (a :: (mid ++ [z])) = a.toNat + 256 * le mid + 256 ^ 31 * z.toNat := by
  simp only [le, le_append, hm]; omega

set_option maxRecDepth 100000 in
theorem infFinal_eq : ∀ c : UInt8, ((((c.toUInt32) - 1) >>> 8) &&& 1).toInt32 = if c = 0 then 1 else 0 := by
  decide +kernel
set_option maxRecDepth 100000 in
theorem and7f_eq : ∀ z : UInt8, ((z &&& 0x7f) = 0 ↔ z.toNat % 128 = 0) := by decide +kernel

theorem le_eq_zero_iff (m : Bytes) : le m = 0 ↔ m = zeros m.length := by
  constructor
  · intro h; exact le_inj m (zeros m.length) (by simp [zeros]) (by rw [h, le_zeros])
  · intro h; rw [h, le_zeros]

theorem is_inf_parts (a z : UInt8) (mid : Bytes) (hm : mid.length = 30) :
    is_inf (a :: (mid ++ [z])) = if (a = 1 ∧ mid = zeros 30 ∧ z.toNat % 128 = 0) then 1 else 0 := by
  have h0 : (a :: (mid ++ [z]))[0]! = a := by simp
  have h31 : (a :: (mid ++ [z]))[31]! = z := by
    simp [hm]
  have hmid : ((a :: (mid ++ [z])).drop 1).take 30 = mid := by simp [hm]
  simp only [is_inf, h0, h31, hmid, infFinal_eq]
  have hz := orAll_eq_zero mid (a ^^^ 1)
  have : (orAll (a ^^^ 1) mid ||| (z &&& 0x7f) = 0) ↔ (a = 1 ∧ mid = zeros 30 ∧ z.toNat % 128 = 0) := by
    rw [UInt8.or_eq_zero_iff, hz, UInt8.xor_eq_zero_iff, and7f_eq, hm, and_assoc]
  simp only [this]

/-- `_crypto_scalarmult_ed25519_is_inf` is 1 exactly on the two encodings (sign bit clear or set)
    of the neutral element (x = 0, y = 1), and 0 otherwise -/
theorem is_inf_eq (s : Bytes) (hs : s.length = 32) :
    is_inf s = if le s % 2 ^ 255 = 1 then 1 else 0 := by
  obtain ⟨a, mid, z, hm, rfl⟩ := split32 s hs
  rw [is_inf_parts a z mid hm, le_split32 a z mid hm]
  have ha := a.toNat_lt; have hz := z.toNat_lt
  have hmid := le_lt mid; rw [hm] at hmid
  have h1 : mid = zeros 30 ↔ le mid = 0 := by rw [le_eq_zero_iff, hm]
  have h2 : a = 1 ↔ a.toNat = 1 := by rw [← UInt8.toNat_inj]; rfl
  have : (a = 1 ∧ mid = zeros 30 ∧ z.toNat % 128 = 0) ↔
      (a.toNat + 256 * le mid + 256 ^ 31 * z.toNat) % 2 ^ 255 = 1 := by
    rw [h1, h2]; omega
  simp only [this]

set_option maxRecDepth 100000 in
theorem byte_clamp_lo : ∀ a : UInt8, (a &&& 248).toNat = a.toNat - a.toNat % 8 := by decide +kernel
set_option maxRecDepth 100000 in
theorem byte_clamp_hi : ∀ z : UInt8, ((z ||| 64) &&& 127).toNat = z.toNat % 64 + 64 := by decide +kernel
set_option maxRecDepth 100000 in
theorem byte_mask_hi : ∀ z : UInt8, (z &&& 127).toNat = z.toNat % 128 := by decide +kernel

theorem set31 (a z v : UInt8) (mid : Bytes) (hm : mid.length = 30) :
    (a :: (mid ++ [z])).set 31 v = a :: (mid ++ [v]) := by
  simp [List.set_append_right, hm]

theorem get31 (a z : UInt8) (mid : Bytes) (hm : mid.length = 30) : (a :: (mid ++ [z]))[31]! = z := by
  simp [hm]

/-- the scalar handed to `ge25519_scalarmult` by the clamping entry points is the RFC 8032 / 7748
    clamped value (bits 0,1,2 and 255 cleared, bit 254 set) -/
theorem scalar_bytes_clamp_le (n : Bytes) (hn : n.length = 32) :
    le (scalar_bytes n 1) = Spec.Ed25519.clamp n := by
  have h1 : n.take 32 = n := List.take_of_length_le (by omega)
  obtain ⟨a, mid, z, hm, rfl⟩ := split32 n hn
  have hc : (1 : Int32) != 0 := by decide
  simp only [scalar_bytes, Spec.Ed25519.clamp, h1, hc, if_true, clamp]
  simp only [List.set_cons_zero, set31 _ _ _ mid hm, get31 _ _ mid hm]
  have h0 : (a :: (mid ++ [z]))[0]! = a := by simp
  rw [h0, le_split32 _ _ mid hm, le_split32 _ _ mid hm, byte_clamp_lo, byte_clamp_hi]
  have ha := a.toNat_lt; have hz := z.toNat_lt
  have hmid := le_lt mid; rw [hm] at hmid
  omega

/-- without clamping only bit 255 is cleared -/
theorem scalar_bytes_noclamp_le (n : Bytes) (hn : n.length = 32) :
    le (scalar_bytes n 0) = le n % 2 ^ 255 := by
  have h1 : n.take 32 = n := List.take_of_length_le (by omega)
  obtain ⟨a, mid, z, hm, rfl⟩ := split32 n hn
  have hc : ((0 : Int32) != 0) = false := by decide
  simp only [scalar_bytes, h1, hc]
  simp only [Bool.false_eq_true, if_false, set31 _ _ _ mid hm, get31 _ _ mid hm]
  rw [le_split32 _ _ mid hm, le_split32 _ _ mid hm, byte_mask_hi]
  have ha := a.toNat_lt; have hz := z.toNat_lt
  have hmid := le_lt mid; rw [hm] at hmid
  omega

theorem scalar_bytes_length (n : Bytes) (c : Int32) (hn : n.length = 32) : (scalar_bytes n c).length = 32 := by
  have h1 : n.take 32 = n := List.take_of_length_le (by omega)
  simp only [scalar_bytes, clamp, h1]
  split <;> simp [hn]

/-! ### return-code logic -/


theorem is_valid_point_eq {P3 : Type} (G : GePrims P3) (p : Bytes) :
    is_valid_point G p =
      if G.is_canonical p ≠ 0 ∧ (G.frombytes p).1 = 0 ∧ G.is_on_curve (G.frombytes p).2 ≠ 0 ∧
         G.has_small_order (G.frombytes p).2 = 0 ∧ G.is_on_main_subgroup (G.frombytes p).2 ≠ 0
      then 1 else 0 := by
  unfold is_valid_point
  by_cases h1 : G.is_canonical p = 0 <;> by_cases h2 : (G.frombytes p).1 = 0 <;>
  by_cases h3 : G.is_on_curve (G.frombytes p).2 = 0 <;>
  by_cases h4 : G.has_small_order (G.frombytes p).2 = 0 <;>
  by_cases h5 : G.is_on_main_subgroup (G.frombytes p).2 = 0 <;> simp [h1, h2, h3, h4, h5]

/-- the point-acceptance test of `_crypto_scalarmult_ed25519` (no on-curve call: `frombytes` decides) -/
def PointOk {P3 : Type} (G : GePrims P3) (p : Bytes) : Prop :=
  G.is_canonical p ≠ 0 ∧ (G.frombytes p).1 = 0 ∧
  G.has_small_order (G.frombytes p).2 = 0 ∧ G.is_on_main_subgroup (G.frombytes p).2 ≠ 0

instance {P3 : Type} (G : GePrims P3) (p : Bytes) : Decidable (PointOk G p) := by
  unfold PointOk; infer_instance

theorem tail_rc (q n : Bytes) (hq : q.length = 32) (hn : n.length = 32) :
    (if (is_inf q != 0 || sodium_is_zero (n.take 32) != 0) = true then ((-1 : Int32), q) else (0, q)) =
    (if le q % 2 ^ 255 ≠ 1 ∧ n ≠ zeros 32 then (0 : Int32) else -1, q) := by
  have h1 : n.take 32 = n := List.take_of_length_le (by omega)
  rw [h1, is_inf_eq q hq, C14.is_zero_exact, hn]
  by_cases ha : le q % 2 ^ 255 = 1 <;> by_cases hb : n = zeros 32 <;> simp [ha, hb]

theorem scalarmult_generic_eq {P3 : Type} (G : GePrims P3) (q0 n p : Bytes) (cl : Int32)
    (hG : ∀ P, (G.p3_tobytes P).length = 32) (hn : n.length = 32) :
    scalarmult_generic G q0 n p cl =
      if PointOk G p then
        let q := G.p3_tobytes (G.scalarmult (scalar_bytes n cl) (G.frombytes p).2)
        (if le q % 2 ^ 255 ≠ 1 ∧ n ≠ zeros 32 then 0 else -1, q)
      else (-1, q0) := by
  unfold scalarmult_generic PointOk
  by_cases h1 : G.is_canonical p = 0 <;> by_cases h2 : (G.frombytes p).1 = 0 <;>
  by_cases h4 : G.has_small_order (G.frombytes p).2 = 0 <;>
  by_cases h5 : G.is_on_main_subgroup (G.frombytes p).2 = 0 <;>
  simp only [h1, h2, h4, h5, beq_self_eq_true, if_true, bne_self_eq_false, Bool.false_eq_true, if_false,
    ne_eq, not_true_eq_false, not_false_eq_true, and_false, and_true, beq_iff_eq, bne_iff_ne] <;>
  exact tail_rc _ n (hG _) hn

theorem scalarmult_base_generic_eq {P3 : Type} (G : GePrims P3) (n : Bytes) (cl : Int32)
    (hG : ∀ P, (G.p3_tobytes P).length = 32) (hn : n.length = 32) :
    scalarmult_base_generic G n cl =
      let q := G.p3_tobytes (G.scalarmult_base (scalar_bytes n cl))
      (if le q % 2 ^ 255 ≠ 1 ∧ n ≠ zeros 32 then 0 else -1, q) := by
  unfold scalarmult_base_generic
  exact tail_rc _ n (hG _) hn

/-! ### expand_message_xmd -/


theorem xorBytes_comm : ∀ a b : Bytes, xorBytes a b = xorBytes b a
  | [], [] => rfl
  | [], _ :: _ => rfl
  | _ :: _, [] => rfl
  | x :: xs, y :: ys => by simp [xorBytes, xorBytes_comm xs ys, UInt8.xor_comm]

theorem xorBytes_zeros : ∀ b : Bytes, xorBytes b (zeros b.length) = b
  | [] => rfl
  | x :: xs => by
    have := xorBytes_zeros xs
    simp only [zeros] at this
    simp [xorBytes, zeros, List.replicate_succ, this]

theorem xorBytes_length : ∀ a b : Bytes, a.length = b.length → (xorBytes a b).length = a.length
  | [], [], _ => rfl
  | [], _ :: _, h => by simp at h
  | _ :: _, [], h => by simp at h
  | x :: xs, y :: ys, h => by simp [xorBytes, xorBytes_length xs ys (by simpa using h)]

theorem storeDigest_full (HB : Nat) (buf d : Bytes) (hd : d.length = HB) (hb : buf.length = HB) :
    storeDigest HB buf d = d := by
  simp [storeDigest, memcpyAt, List.take_of_length_le, hd, hb]

theorem memcpyAt_append (pre post src : Bytes) (m : Nat) :
    memcpyAt (pre ++ post) pre.length src m = pre ++ src.take m ++ post.drop m := by
  simp [memcpyAt]

theorem toBE1 (v : Nat) : toBE 1 v = [UInt8.ofNat v] := by
  simp [toBE, toLE, ← UInt8.toNat_inj]

theorem ofNat_succ (v : Nat) : UInt8.ofNat v + 1 = UInt8.ofNat (v + 1) := by
  simp

theorem h2cLoop_done (H : Bytes → Bytes) (HB hLen : Nat) (ctxp : CtxPtr) (userCtx : Bytes) (ctxLen : Nat)
    (c8 : UInt8) (u0 : Bytes) (fuel i : Nat) (ux t h : Bytes) (hi : hLen ≤ i) :
    h2cLoop H HB hLen ctxp userCtx ctxLen c8 u0 fuel i ux t h = h := by
  cases fuel with
  | zero => rfl
  | succ f => simp [h2cLoop, Nat.not_lt.mpr hi]

theorem take_done (h X : Bytes) (hLen i : Nat) (hl : h.length = hLen) (hi : hLen ≤ i) :
    (h.take i ++ X).take hLen = h := by
  have e : h.take i = h := List.take_of_length_le (by omega)
  rw [e, List.take_append_of_le_length (by omega), List.take_of_length_le (by omega)]

theorem h2cLoop_eq (H : Bytes → Bytes) (HB hLen : Nat) (hH : ∀ x, (H x).length = HB) (hHB : 0 < HB)
    (ctxp : CtxPtr) (userCtx : Bytes) (ctxLen : Nat) (c8 : UInt8) (u0 : Bytes) (hu0 : u0.length = HB) :
    ∀ (n fuel i idx : Nat) (ux h : Bytes) (a b : UInt8),
      hLen ≤ i + n * HB → hLen - i ≤ fuel → ux.length = HB → h.length = hLen →
      h2cLoop H HB hLen ctxp userCtx ctxLen c8 u0 fuel i ux [a, b, UInt8.ofNat idx] h =
      (h.take i ++ xmdBlocks H u0 (derefCtx ctxp userCtx u0 ctxLen ++ [c8]) n (idx + 1) ux).take hLen := by
  intro n
  induction n with
  | zero =>
    intro fuel i idx ux h a b hn _ _ hh
    rw [h2cLoop_done _ _ _ _ _ _ _ _ _ _ _ _ _ (by omega), take_done _ _ _ _ hh (by omega)]
  | succ n ih =>
    intro fuel i idx ux h a b hn hf hux hh
    by_cases hi : hLen ≤ i
    · rw [h2cLoop_done _ _ _ _ _ _ _ _ _ _ _ _ _ hi, take_done _ _ _ _ hh hi]
    · have hi' : i < hLen := by omega
      obtain ⟨f, rfl⟩ : ∃ f, fuel = f + 1 := ⟨fuel - 1, by omega⟩
      have hxl : (xorBytes ux u0).length = HB := by rw [xorBytes_length _ _ (by omega), hux]
      have hset : ([a, b, UInt8.ofNat idx].set 2 ([a, b, UInt8.ofNat idx][2]! + 1)) = [a, b, UInt8.ofNat (idx + 1)] := by
        simp
      have hget : [a, b, UInt8.ofNat (idx + 1)][2]! = UInt8.ofNat (idx + 1) := by simp
      simp only [h2cLoop, hi', if_true, hset, hget]
      rw [storeDigest_full HB _ _ (hH _) hxl, List.take_of_length_le (by omega : (xorBytes ux u0).length ≤ HB)]
      have hmul : (n + 1) * HB = n * HB + HB := by rw [Nat.succ_mul]
      rw [ih f (i + HB) (idx + 1) _ _ a b (by omega) (by omega) (hH _) ?hl]
      case hl =>
        simp only [memcpyAt, List.length_append, List.length_take, List.length_drop, hH, hh]
        split <;> omega
      simp only [xmdBlocks, toBE1, xorBytes_comm u0 ux, List.append_assoc]
      generalize hbi : H (xorBytes ux u0 ++ (UInt8.ofNat (idx + 1) :: (derefCtx ctxp userCtx u0 ctxLen ++ [c8]))) = bi
      have hbi' : H (xorBytes ux u0 ++ ([UInt8.ofNat (idx + 1)] ++ (derefCtx ctxp userCtx u0 ctxLen ++ [c8]))) = bi := by
        simpa using hbi
      rw [hbi']
      have hbl : bi.length = HB := by rw [← hbi]; exact hH _
      generalize xmdBlocks H u0 (derefCtx ctxp userCtx u0 ctxLen ++ [c8]) n (idx + 1 + 1) bi = X
      -- split h into the part before i and the rest
      obtain ⟨pre, post, rfl, hpre⟩ : ∃ pre post, h = pre ++ post ∧ pre.length = i :=
        ⟨h.take i, h.drop i, (List.take_append_drop i h).symm, by simp; omega⟩
      have hpost : post.length = hLen - i := by simp at hh; omega
      subst hpre
      rw [memcpyAt_append]
      simp only [List.take_left']
      by_cases hc : hLen - pre.length ≥ HB
      · simp only [hc, if_true]
        rw [List.take_of_length_le (by omega : bi.length ≤ HB)]
        have : (pre ++ bi ++ List.drop HB post).take (pre.length + HB) = pre ++ bi := by
          rw [List.take_append_of_le_length (by simp; omega), List.take_of_length_le (by simp; omega)]
        rw [this, List.append_assoc]
      · simp only [hc, if_false]
        have hd : List.drop (hLen - pre.length) post = [] := List.drop_of_length_le (by omega)
        rw [hd, List.append_nil]
        have hlen : (pre ++ List.take (hLen - pre.length) bi).length = hLen := by simp; omega
        rw [List.take_of_length_le (by omega : (pre ++ List.take (hLen - pre.length) bi).length ≤ pre.length + HB)]
        rw [List.take_append_of_le_length (by omega), List.take_of_length_le (by omega)]
        rw [List.take_append, List.take_of_length_le (by omega : pre.length ≤ hLen)]
        congr 1
        rw [List.take_append_of_le_length (by omega)]

theorem oversizePrefix_eq : oversizePrefix = ascii "H2C-OVERSIZE-DST-" := by decide +kernel

theorem toBE2 (v : Nat) (hv : v ≤ 255) : toBE 2 v = [0, UInt8.ofNat v] := by
  have : v / 256 = 0 := by omega
  simp [toBE, toLE, ← UInt8.toNat_inj, this]

theorem ell_le (hLen HB : Nat) (hHB : 0 < HB) (hL : hLen ≤ 255) : (hLen + HB - 1) / HB ≤ 255 := by
  have h1 : hLen ≤ hLen * HB := Nat.le_mul_of_pos_right _ hHB
  have : (hLen + HB - 1) / HB < hLen + 1 := by
    rw [Nat.div_lt_iff_lt_mul hHB, Nat.succ_mul]; omega
  omega

theorem ell_mul_ge (hLen HB : Nat) (hHB : 0 < HB) : hLen ≤ (hLen + HB - 1) / HB * HB := by
  have h := Nat.div_add_mod (hLen + HB - 1) HB
  have h2 := Nat.mod_lt (hLen + HB - 1) hHB
  rw [Nat.mul_comm] at h; omega

/-- the spec's "b_1 ‖ b_2 …" is the uniform recurrence started from ux = 0 -/
theorem blocks_from_zero (H : Bytes → Bytes) (b0 dst' : Bytes) (ell : Nat) (hell : 0 < ell) :
    H (b0 ++ toBE 1 1 ++ dst') ++ xmdBlocks H b0 dst' (ell - 1) 2 (H (b0 ++ toBE 1 1 ++ dst')) =
    xmdBlocks H b0 dst' ell 1 (zeros b0.length) := by
  obtain ⟨k, rfl⟩ : ∃ k, ell = k + 1 := ⟨ell - 1, by omega⟩
  simp [xmdBlocks, xorBytes_zeros]

/-- the common shape of both branches -/
theorem core_shape (H : Bytes → Bytes) (HB HBLK hLen : Nat) (hH : ∀ x, (H x).length = HB) (hHB : 0 < HB)
    (hL : hLen ≤ 255) (msg dst0 : Bytes) (dstOf : Bytes → Bytes)
    (ctxp : CtxPtr) (ctx : Bytes) (ctxLen : Nat) (c8 : UInt8) (h0 : Bytes) (hh0 : h0.length = hLen) :
    let b0 := H (zeros HBLK ++ msg ++ [0, UInt8.ofNat hLen, 0] ++ dst0)
    derefCtx ctxp ctx b0 ctxLen ++ [c8] = dstOf b0 →
    h2cLoop H HB hLen ctxp ctx ctxLen c8 b0 hLen 0 (zeros HB) [0, UInt8.ofNat hLen, 0] h0 =
    xmdCore H HB HBLK msg dst0 dstOf hLen := by
  intro b0 hdst
  have hb0 : b0.length = HB := hH _
  have hcond : (HB == 0 || decide ((hLen + HB - 1) / HB > 255) || decide (hLen > 65535)) = false := by
    have := ell_le hLen HB hHB hL
    simp; omega
  have hmsg : zeros HBLK ++ msg ++ toBE 2 hLen ++ toBE 1 0 ++ dst0 = zeros HBLK ++ msg ++ [0, UInt8.ofNat hLen, 0] ++ dst0 := by
    simp [toBE2 hLen hL, toBE1]
  simp only [xmdCore, hcond, Bool.false_eq_true, if_false, hmsg]
  have hz : ([0, UInt8.ofNat hLen, 0] : Bytes) = [0, UInt8.ofNat hLen, UInt8.ofNat 0] := rfl
  rw [hz, h2cLoop_eq H HB hLen hH hHB ctxp ctx ctxLen c8 b0 hb0 ((hLen + HB - 1) / HB) hLen 0 0 (zeros HB) h0 0 _
    (by have := ell_mul_ge hLen HB hHB; omega) (by omega) (zeros_length _) hh0, ← hz, hdst]
  simp only [List.take_zero, List.nil_append, Nat.zero_add]
  by_cases hell : 0 < (hLen + HB - 1) / HB
  · rw [blocks_from_zero H b0 (dstOf b0) _ hell, hb0]
  · have h1 : (hLen + HB - 1) / HB = 0 := Nat.eq_zero_of_not_pos hell
    have h2 : hLen = 0 := by have := ell_mul_ge hLen HB hHB; rw [h1] at this; omega
    simp [h2]

/-- `core_h2c_string_to_hash_*` computes `expandMessageXmdLibsodium` for EVERY context length -/
theorem string_to_hash_eq (H : Bytes → Bytes) (HB HBLK : Nat) (hH : ∀ x, (H x).length = HB) (hHB : 0 < HB)
    (h0 : Bytes) (hLen : Nat) (hh0 : h0.length = hLen) (hL : hLen ≤ 255) (ctx msg : Bytes) :
    string_to_hash H HB HBLK h0 hLen ctx msg = expandMessageXmdLibsodium H HB HBLK msg ctx hLen := by
  by_cases hc : ctx.length > 255
  · simp only [string_to_hash, expandMessageXmdLibsodium, effectiveDst, hc, if_true]
    rw [storeDigest_full HB _ _ (hH _) (zeros_length _), List.take_of_length_le (Nat.le_refl _), ← oversizePrefix_eq]
    generalize hD : H (oversizePrefix ++ ctx) = D
    have hDl : D.length = HB := by rw [← hD]; exact hH _
    have hd1 : derefCtx CtxPtr.u0 ctx D HB = D := by simp [derefCtx, List.take_of_length_le, hDl]
    rw [hd1, storeDigest_full HB _ _ (hH _) hDl, hDl, toBE1]
    have := core_shape H HB HBLK hLen hH hHB hL msg (D ++ [UInt8.ofNat HB]) (fun b0 => b0 ++ [UInt8.ofNat HB])
      CtxPtr.u0 ctx HB (UInt8.ofNat HB) h0 hh0
    simp only [List.append_assoc] at this ⊢
    apply this
    simp [derefCtx, List.take_of_length_le, hH]
  · simp only [string_to_hash, expandMessageXmdLibsodium, effectiveDst, hc, if_false]
    have hd1 : ∀ u, derefCtx CtxPtr.user ctx u ctx.length = ctx := by intro u; simp [derefCtx]
    rw [hd1, storeDigest_full HB _ _ (hH _) (zeros_length _), toBE1]
    have := core_shape H HB HBLK hLen hH hHB hL msg (ctx ++ [UInt8.ofNat ctx.length]) (fun _ => ctx ++ [UInt8.ofNat ctx.length])
      CtxPtr.user ctx ctx.length (UInt8.ofNat ctx.length) h0 hh0
    simp only [List.append_assoc] at this ⊢
    apply this
    simp [derefCtx]

theorem libsodium_eq_rfc_of_short (H : Bytes → Bytes) (HB HBLK : Nat) (msg ctx : Bytes) (hLen : Nat)
    (hc : ctx.length ≤ 255) :
    expandMessageXmdLibsodium H HB HBLK msg ctx hLen = expandMessageXmd H HB HBLK msg ctx hLen := by
  have : ¬ ctx.length > 255 := by omega
  simp [expandMessageXmdLibsodium, expandMessageXmd, this]

/-! ### `_string_to_points` / `from_string*` glue -/

theorem memcpyAt_frame (h rest src : Bytes) (i m : Nat) (hb : i + m ≤ h.length) :
    memcpyAt (h ++ rest) i src m = memcpyAt h i src m ++ rest := by
  simp only [memcpyAt]
  rw [List.take_append_of_le_length (by omega), List.drop_append_of_le_length hb]
  simp only [List.append_assoc]

theorem memcpyAt_length' (h src : Bytes) (i m : Nat) (hb : i + m ≤ h.length) (hs : m ≤ src.length) :
    (memcpyAt h i src m).length = h.length := by
  simp [memcpyAt]; omega

/-- writes of the loop stay inside the first `hLen` bytes of the output buffer -/
theorem h2cLoop_frame (H : Bytes → Bytes) (HB hLen : Nat) (hH : ∀ x, (H x).length = HB)
    (ctxp : CtxPtr) (userCtx : Bytes) (ctxLen : Nat) (c8 : UInt8) (u0 : Bytes) (rest : Bytes) :
    ∀ (fuel i : Nat) (ux t h : Bytes), h.length = hLen → ux.length = HB → u0.length = HB →
      h2cLoop H HB hLen ctxp userCtx ctxLen c8 u0 fuel i ux t (h ++ rest) =
      h2cLoop H HB hLen ctxp userCtx ctxLen c8 u0 fuel i ux t h ++ rest ∧
      (h2cLoop H HB hLen ctxp userCtx ctxLen c8 u0 fuel i ux t h).length = hLen := by
  intro fuel
  induction fuel with
  | zero => intro i ux t h hh _ _; exact ⟨rfl, hh⟩
  | succ f ih =>
    intro i ux t h hh hux hu0
    simp only [h2cLoop]
    by_cases hi : i < hLen
    · simp only [hi, if_true]
      have hxl : (xorBytes ux u0).length = HB := by rw [xorBytes_length _ _ (by omega), hux]
      rw [storeDigest_full HB _ _ (hH _) hxl]
      generalize hbi : H (List.take HB (xorBytes ux u0) ++ [(t.set 2 (t[2]! + 1))[2]!] ++
        derefCtx ctxp userCtx u0 ctxLen ++ [c8]) = bi
      have hbl : bi.length = HB := by rw [← hbi]; exact hH _
      have hm : (if hLen - i ≥ HB then HB else hLen - i) ≤ HB ∧ i + (if hLen - i ≥ HB then HB else hLen - i) ≤ hLen := by
        split <;> omega
      generalize (if hLen - i ≥ HB then HB else hLen - i) = m at hm ⊢
      rw [memcpyAt_frame h rest bi i m (by omega)]
      exact ih (i + HB) bi _ (memcpyAt h i bi m) (by rw [memcpyAt_length' _ _ _ _ (by omega) (by omega), hh]) hbl hu0
    · simp only [hi, if_false]; exact ⟨trivial, hh⟩

theorem string_to_hash_frame (H : Bytes → Bytes) (HB HBLK : Nat) (hH : ∀ x, (H x).length = HB)
    (h rest : Bytes) (hLen : Nat) (hh : h.length = hLen) (ctx msg : Bytes) :
    string_to_hash H HB HBLK (h ++ rest) hLen ctx msg = string_to_hash H HB HBLK h hLen ctx msg ++ rest ∧
    (string_to_hash H HB HBLK h hLen ctx msg).length = hLen := by
  simp only [string_to_hash]
  apply h2cLoop_frame H HB hLen hH _ _ _ _ _ rest hLen 0 _ _ h hh (zeros_length _)
  have hbuf : (if ctx.length > 0xff then storeDigest HB (zeros HB) (H (oversizePrefix ++ ctx.take ctx.length))
      else zeros HB).length = HB := by
    split
    · rw [storeDigest_full HB _ _ (hH _) (zeros_length _)]; exact hH _
    · exact zeros_length _
  rw [storeDigest_full HB _ _ (hH _) hbuf]; exact hH _

/-- the inner `for (j…) h[j] = h_be[i*48 + 48 - 1 - j]` loop reverses the i-th chunk -/
theorem chunk_reverse (pre X rest : Bytes) (i k : Nat) (hpre : pre.length = i * k) (hX : X.length = k) :
    ((List.range k).map fun j => (pre ++ X ++ rest)[i * k + k - 1 - j]!) = X.reverse := by
  apply List.ext_getElem
  · simp [hX]
  · intro j h1 h2
    simp only [List.length_map, List.length_range] at h1
    have e : i * k + k - 1 - j = pre.length + (k - 1 - j) := by omega
    simp only [List.getElem_map, List.getElem_range, e, List.getElem_reverse, hX]
    rw [List.append_assoc, getElem!_pos _ _ (by simp; omega), List.getElem_append_right (by omega),
      List.getElem_append_left (by simp; omega)]
    simp

/-- the 64-byte little-endian buffer handed to `ge25519_from_hash` for a 48-byte big-endian chunk -/
def chunkLE (c : Bytes) : Bytes := c.reverse ++ zeros 16

theorem le_chunkLE (c : Bytes) : le (chunkLE c) = be c := by
  rw [chunkLE, le_pad, be]

theorem pointOfChunk_eq (from_hash : Bytes → Bytes) (pre X rest : Bytes) (i : Nat)
    (hpre : pre.length = i * 48) (hX : X.length = 48) :
    pointOfChunk from_hash (pre ++ X ++ rest) i = from_hash (chunkLE X) := by
  simp only [pointOfChunk, HASH_GE_L, chunkLE]
  rw [chunk_reverse pre X rest i 48 hpre hX]

/-- `_string_to_points` with n = 1 -/
theorem points_one (H : Bytes → Bytes) (HB HBLK : Nat) (hH : ∀ x, (H x).length = HB)
    (from_hash : Bytes → Bytes) (ctx msg : Bytes) :
    ((List.range 1).map fun i =>
      pointOfChunk from_hash (string_to_hash H HB HBLK (zeros (2 * HASH_GE_L)) (1 * HASH_GE_L) ctx msg) i).flatten =
    from_hash (chunkLE (string_to_hash H HB HBLK (zeros 48) 48 ctx msg)) := by
  have hz : zeros (2 * HASH_GE_L) = zeros 48 ++ zeros 48 := by decide
  have e2 : 1 * HASH_GE_L = 48 := rfl
  have hf := string_to_hash_frame H HB HBLK hH (zeros 48) (zeros 48) 48 (zeros_length _) ctx msg
  have := pointOfChunk_eq from_hash [] _ (zeros 48) 0 rfl hf.2
  simp only [List.nil_append] at this
  rw [hz, e2, hf.1]
  simp [this, List.range_succ]

/-- `_string_to_points` with n = 2 -/
theorem points_two (H : Bytes → Bytes) (HB HBLK : Nat) (hH : ∀ x, (H x).length = HB)
    (from_hash : Bytes → Bytes) (ctx msg : Bytes) :
    ((List.range 2).map fun i =>
      pointOfChunk from_hash (string_to_hash H HB HBLK (zeros (2 * HASH_GE_L)) (2 * HASH_GE_L) ctx msg) i).flatten =
    from_hash (chunkLE ((string_to_hash H HB HBLK (zeros 96) 96 ctx msg).take 48)) ++
    from_hash (chunkLE (((string_to_hash H HB HBLK (zeros 96) 96 ctx msg).drop 48).take 48)) := by
  have e2 : 2 * HASH_GE_L = 96 := rfl
  rw [e2]
  have hf := string_to_hash_frame H HB HBLK hH (zeros 96) [] 96 (zeros_length _) ctx msg
  generalize string_to_hash H HB HBLK (zeros 96) 96 ctx msg = X at hf ⊢
  have hl := hf.2
  have hsplit : X = X.take 48 ++ (X.drop 48).take 48 ++ [] := by
    rw [List.append_nil, List.take_of_length_le (by simp; omega : (X.drop 48).length ≤ 48), List.take_append_drop]
  have h0 := pointOfChunk_eq from_hash [] (X.take 48) ((X.drop 48).take 48 ++ []) 0 rfl (by simp; omega)
  have h1 := pointOfChunk_eq from_hash (X.take 48) ((X.drop 48).take 48) [] 1 (by simp; omega) (by simp; omega)
  simp only [List.nil_append, ← List.append_assoc] at h0
  rw [← hsplit] at h0 h1
  simp [h0, h1, List.range_succ]

open Sodium.Spec in
theorem fromHash64_chunk (X : Bytes) (hX : X.length = 48) :
    H2c.fromHash64 (chunkLE X) =
      Ed25519.encode (H2c.clearCofactor (H2c.mapToCurveElligator2Edwards25519 (be X % F25519.p))) := by
  have hl : (chunkLE X).length = 64 := by simp [chunkLE, hX, zeros]
  rw [H2c.fromHash64, List.take_of_length_le (by omega), le_chunkLE]

theorem dispatch512 (sha256 sha512 : Bytes → Bytes) (h0 : Bytes) (hLen : Nat) (ctx msg : Bytes) :
    core_h2c_string_to_hash sha256 sha512 h0 hLen ctx msg CORE_H2C_SHA512 =
      (0, string_to_hash sha512 64 128 h0 hLen ctx msg) := by
  have h1 : (CORE_H2C_SHA512 == CORE_H2C_SHA256) = false := by decide
  simp [core_h2c_string_to_hash, h1]

theorem dispatch256 (sha256 sha512 : Bytes → Bytes) (h0 : Bytes) (hLen : Nat) (ctx msg : Bytes) :
    core_h2c_string_to_hash sha256 sha512 h0 hLen ctx msg CORE_H2C_SHA256 =
      (0, string_to_hash sha256 32 64 h0 hLen ctx msg) := by
  simp [core_h2c_string_to_hash]

theorem dispatch_bad (sha256 sha512 : Bytes → Bytes) (h0 : Bytes) (hLen : Nat) (ctx msg : Bytes) (alg : Int32)
    (h1 : alg ≠ CORE_H2C_SHA256) (h2 : alg ≠ CORE_H2C_SHA512) :
    core_h2c_string_to_hash sha256 sha512 h0 hLen ctx msg alg = (-1, h0) := by
  simp [core_h2c_string_to_hash, h1, h2]

open Sodium.Spec in
/-- NU: one field element u = OS2IP(48 bytes) mod p, mapped and cofactor-cleared -/
theorem from_string_with (H : Bytes → Bytes) (HB HBLK : Nat) (hH : ∀ x, (H x).length = HB) (hHB : 0 < HB)
    (ctx msg : Bytes) :
    H2c.fromHash64 (chunkLE (string_to_hash H HB HBLK (zeros 48) 48 ctx msg)) =
      H2c.encodeToCurveWith (expandMessageXmdLibsodium H HB HBLK) msg ctx := by
  have hl := (string_to_hash_frame H HB HBLK hH (zeros 48) [] 48 (zeros_length _) ctx msg).2
  rw [fromHash64_chunk _ hl]
  rw [string_to_hash_eq H HB HBLK hH hHB _ 48 (zeros_length _) (by omega)] at hl ⊢
  simp [H2c.encodeToCurveWith, H2c.hashToField, H2c.fieldElems, H2c.fieldL, List.take_of_length_le, hl]

end Sodium.ScalarP
