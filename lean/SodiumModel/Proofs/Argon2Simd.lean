import SodiumModel.Proofs.Argon2Ref
import SodiumModel.Proofs.Blake2bSimd
import SodiumModel.Proofs.Blake2bSimdSse
import SodiumModel.Model.Argon2Simd
/-
  Helper lemmas for Properties/C08Simd.lean: the vectorised Argon2 block functions (Model/Argon2Simd.lean,
  AVX2 / SSSE3 / AVX-512F) equal the reference `fill_block` / `fill_block_with_xor`
  (Model/Argon2Ref.lean), and the vector `argon2_fill_segment_<isa>` equals `argon2_fill_segment_ref`.

  Layers
   1. arrays and loops;
   2. `Rep`: a register type with `l` 64-bit lanes, `n` registers = one 128-word block (`toBlock` / `ofBlock`);
      the common shape of the three `fill_block`s (`gen_fill_block`) and its equality with the reference
      block function, given that the file's round loops simulate `Argon2Ref.blake2_rounds`;
   3. the reference `round_at` element by element (hit / miss);
   4. per ISA: the intrinsics on 64-bit lanes, G1/G2/DIAGONALIZE on lanes, one round macro = `BLAKE2_ROUND_NOMSG`
      on the right words, the two round loops simulate the reference loops;
   5. the segment walk with the carried `state`, `generate_addresses`, the core.
-/
namespace Sodium.Argon2SimdP
open Sodium Sodium.Model Sodium.Model.Blake2bSimd Sodium.Model.Argon2Simd
open Sodium.Model.Argon2Ref (Block forLoop fBlaMka BLAKE2_ROUND_NOMSG V16 round_at)
open Sodium.Model.CompressRef (rotr64)
open Sodium.Argon2RefP (get!_eq size_set! get!_set! ext!)
open Sodium.Blake2bSimdP (row)
set_option linter.unusedSimpArgs false
set_option linter.unusedVariables false
set_option linter.unusedSectionVars false

/-! ### 1. arrays and loops -/

theorem get!_set!_ne {α} [Inhabited α] (d : Array α) (i k : Nat) (x : α) (h : i ≠ k) : (d.set! i x)[k]! = d[k]! := by
  by_cases hk : k < d.size
  · rw [get!_set! _ _ _ _ hk, if_neg h]
  · have h1 : ¬ k < (d.set! i x).size := by rw [size_set!]; exact hk
    simp only [Array.getElem!_eq_getD, Array.getD, h1, hk, dite_false]

theorem get!_set!_eq {α} [Inhabited α] (d : Array α) (i : Nat) (x : α) (h : i < d.size) : (d.set! i x)[i]! = x := by
  rw [get!_set! _ _ _ _ h, if_pos rfl]

theorem get!_ofFn {α} [Inhabited α] (n : Nat) (f : Fin n → α) (k : Nat) (hk : k < n) :
    (Array.ofFn f)[k]! = f ⟨k, hk⟩ := by
  rw [get!_eq _ _ (by rw [Array.size_ofFn]; exact hk), Array.getElem_ofFn]

/-- a loop invariant: `P k` holds when the iteration with counter `k` starts -/
theorem forLoop_inv {σ : Type} (P : Nat → σ → Prop) (body : Nat → σ → σ) (n i : Nat) (s : σ) (h0 : P i s)
    (hstep : ∀ k s, i ≤ k → k < i + n → P k s → P (k + 1) (body k s)) : P (i + n) (forLoop body n i s) := by
  induction n generalizing i s with
  | zero => exact h0
  | succ n ih =>
    rw [forLoop, show i + (n + 1) = (i + 1) + n by omega]
    apply ih
    · exact hstep i s (Nat.le_refl _) (by omega) h0
    · intro k s h1 h2 h3
      exact hstep k s (by omega) (by omega) h3

/-- `for (i = 0; i < n; i++) { a[i] = f(i, a[i]); b[i] = g(i, old a[i]); }` -/
theorem pair_loop {α β} [Inhabited α] [Inhabited β] (f : Nat → α → α) (g : Nat → α → β) (n : Nat)
    (a : Array α) (b : Array β) (ha : a.size = n) (hb : b.size = n) :
    forLoop (fun i (s : Array α × Array β) => (s.1.set! i (f i s.1[i]!), s.2.set! i (g i s.1[i]!))) n 0 (a, b) =
      (Array.ofFn (n := n) fun i => f i.val a[i.val]!, Array.ofFn (n := n) fun i => g i.val a[i.val]!) := by
  have key := forLoop_inv
    (fun k (s : Array α × Array β) => s.1.size = n ∧ s.2.size = n ∧
      (∀ j, j < n → s.1[j]! = if j < k then f j a[j]! else a[j]!) ∧ (∀ j, j < k → s.2[j]! = g j a[j]!))
    (fun i (s : Array α × Array β) => (s.1.set! i (f i s.1[i]!), s.2.set! i (g i s.1[i]!))) n 0 (a, b)
    ⟨ha, hb, fun j hj => by rw [if_neg (by omega)], fun j hj => absurd hj (Nat.not_lt_zero j)⟩ ?_
  · obtain ⟨h1, h2, h3, h4⟩ := key
    rw [Nat.zero_add] at h3 h4
    generalize forLoop _ n 0 (a, b) = r at h1 h2 h3 h4
    obtain ⟨r1, r2⟩ := r
    dsimp only at h1 h2 h3 h4
    have e1 : r1 = Array.ofFn (n := n) fun i => f i.val a[i.val]! := by
      apply ext!
      · rw [h1, Array.size_ofFn]
      · intro k hk
        rw [h1] at hk
        rw [h3 k hk, if_pos hk, get!_ofFn _ _ _ hk]
    have e2 : r2 = Array.ofFn (n := n) fun i => g i.val a[i.val]! := by
      apply ext!
      · rw [h2, Array.size_ofFn]
      · intro k hk
        rw [h2] at hk
        rw [h4 k hk, get!_ofFn _ _ _ hk]
    rw [e1, e2]
  · rintro k ⟨s1, s2⟩ _ hk ⟨h1, h2, h3, h4⟩
    dsimp only at h1 h2 h3 h4 ⊢
    have hsk : s1[k]! = a[k]! := by rw [h3 k (by omega), if_neg (by omega)]
    refine ⟨by rw [size_set!, h1], by rw [size_set!, h2], ?_, ?_⟩
    · intro j hj
      rw [get!_set! _ _ _ _ (by omega), hsk]
      by_cases c : k = j
      · subst c; rw [if_pos rfl, if_pos (by omega)]
      · rw [if_neg c, h3 j hj]
        by_cases c2 : j < k
        · rw [if_pos c2, if_pos (by omega)]
        · rw [if_neg c2, if_neg (by omega)]
    · intro j hj
      rw [get!_set! _ _ _ _ (by omega), hsk]
      by_cases c : k = j
      · subst c; rw [if_pos rfl]
      · rw [if_neg c]; exact h4 j (by omega)

/-! ### 2. registers and blocks -/

/-- a register type holding `l` 64-bit lanes; `n` registers make one block -/
structure Rep (ρ : Type) where
  l : Nat
  n : Nat
  lane : ρ → Nat → UInt64
  pack : (Nat → UInt64) → ρ
  hln : l * n = 128
  lane_pack : ∀ f e, e < l → lane (pack f) e = f e
  pack_lane : ∀ x, pack (lane x) = x
  pack_congr : ∀ f g, (∀ e, e < l → f e = g e) → pack f = pack g

variable {ρ : Type} [Inhabited ρ]

theorem Rep.lpos (R : Rep ρ) : 0 < R.l := by
  have := R.hln
  rcases Nat.eq_zero_or_pos R.l with h | h
  · rw [h] at this; omega
  · exact h

/-- the 128 words held by `n` registers -/
def toBlock (R : Rep ρ) (s : Array ρ) : Block := Array.ofFn (n := 128) fun k => R.lane s[k.val / R.l]! (k.val % R.l)
/-- the `n` registers holding a block (`memcpy(state, block->v, 1024)`) -/
def ofBlock (R : Rep ρ) (b : Block) : Array ρ := Array.ofFn (n := R.n) fun i => R.pack fun e => b[R.l * i.val + e]!

theorem size_toBlock (R : Rep ρ) (s : Array ρ) : (toBlock R s).size = 128 := by simp [toBlock]
theorem size_ofBlock (R : Rep ρ) (b : Block) : (ofBlock R b).size = R.n := by simp [ofBlock]

theorem toBlock_get (R : Rep ρ) (s : Array ρ) (k : Nat) (hk : k < 128) :
    (toBlock R s)[k]! = R.lane s[k / R.l]! (k % R.l) := by
  unfold toBlock; rw [get!_ofFn _ _ _ hk]

theorem ofBlock_get (R : Rep ρ) (b : Block) (i : Nat) (hi : i < R.n) :
    (ofBlock R b)[i]! = R.pack fun e => b[R.l * i + e]! := by
  unfold ofBlock; rw [get!_ofFn _ _ _ hi]

theorem toBlock_ofBlock (R : Rep ρ) (b : Block) (hb : b.size = 128) : toBlock R (ofBlock R b) = b := by
  have hl := R.lpos
  have hln := R.hln
  apply ext!
  · rw [size_toBlock, hb]
  · intro k hk
    rw [size_toBlock] at hk
    have hq : k / R.l < R.n := by
      rw [Nat.div_lt_iff_lt_mul hl, Nat.mul_comm, hln]; exact hk
    rw [toBlock_get R _ k hk, ofBlock_get R b _ hq, R.lane_pack _ _ (Nat.mod_lt _ hl), Nat.div_add_mod]

theorem ofBlock_toBlock (R : Rep ρ) (s : Array ρ) (hs : s.size = R.n) : ofBlock R (toBlock R s) = s := by
  have hl := R.lpos
  have hln := R.hln
  apply ext!
  · rw [size_ofBlock, hs]
  · intro i hi
    rw [size_ofBlock] at hi
    rw [ofBlock_get R _ i hi]
    conv => rhs; rw [← R.pack_lane s[i]!]
    apply R.pack_congr
    intro e he
    have hk : R.l * i + e < 128 := by
      have : R.l * (i + 1) ≤ R.l * R.n := Nat.mul_le_mul_left _ (by omega)
      rw [Nat.mul_add, Nat.mul_one] at this; omega
    rw [toBlock_get R s _ hk, Nat.mul_add_div hl, Nat.div_eq_of_lt he, Nat.add_zero, Nat.mul_add_mod,
      Nat.mod_eq_of_lt he]

/-- what the three files' `fill_block` / `fill_block_with_xor` are made of -/
structure Ops (ρ : Type) where
  n : Nat
  l : Nat
  zero : ρ
  xor : ρ → ρ → ρ
  load : Block → Nat → ρ
  store : Block → Nat → ρ → Block
  rounds : Array ρ → Array ρ

/-- the common shape of `fill_block` (`withXor = false`) and `fill_block_with_xor` (`withXor = true`) -/
def gen_fill (O : Ops ρ) (withXor : Bool) (state : Array ρ) (ref_block next_block : Block) : Array ρ × Block :=
  let block_XY : Array ρ := Array.replicate O.n O.zero
  let r := forLoop (fun i (s : Array ρ × Array ρ) =>
    (s.1.set! i (O.xor s.1[i]! (O.load ref_block (O.l * i))),
     s.2.set! i (if withXor then O.xor (O.xor s.1[i]! (O.load ref_block (O.l * i))) (O.load next_block (O.l * i))
       else O.xor s.1[i]! (O.load ref_block (O.l * i))))) O.n 0 (state, block_XY)
  let state := O.rounds r.1
  forLoop (fun i (s : Array ρ × Block) =>
    (s.1.set! i (O.xor s.1[i]! r.2[i]!), O.store s.2 (O.l * i) (O.xor s.1[i]! r.2[i]!))) O.n 0 (state, next_block)

/-- the operations of a file do on lanes what the reference code does on words -/
structure OpsOK (R : Rep ρ) (O : Ops ρ) : Prop where
  hn : O.n = R.n
  hl : O.l = R.l
  xor : ∀ a b e, e < R.l → R.lane (O.xor a b) e = R.lane a e ^^^ R.lane b e
  load : ∀ (m : Block) i e, e < R.l → R.lane (O.load m i) e = m[i + e]!
  store_size : ∀ (m : Block) i v, (O.store m i v).size = m.size
  store_get : ∀ (m : Block) i v k, k < m.size → i + R.l ≤ m.size →
    (O.store m i v)[k]! = if i ≤ k ∧ k < i + R.l then R.lane v (k - i) else m[k]!
  rounds_size : ∀ s : Array ρ, s.size = R.n → (O.rounds s).size = R.n
  rounds : ∀ s : Array ρ, s.size = R.n → toBlock R (O.rounds s) = Argon2Ref.blake2_rounds (toBlock R s)

/-- the last loop of both functions: XOR with `block_XY` and store -/
theorem xor_store_loop (R : Rep ρ) (O : Ops ρ) (h : OpsOK R O) (Z XY : Array ρ) (next : Block)
    (hZ : Z.size = R.n) (hn : next.size = 128) :
    forLoop (fun i (s : Array ρ × Block) =>
      (s.1.set! i (O.xor s.1[i]! XY[i]!), O.store s.2 (O.l * i) (O.xor s.1[i]! XY[i]!))) O.n 0 (Z, next) =
    (Array.ofFn (n := R.n) fun i => O.xor Z[i.val]! XY[i.val]!,
     toBlock R (Array.ofFn (n := R.n) fun i => O.xor Z[i.val]! XY[i.val]!)) := by
  have hl := R.lpos
  have hln := R.hln
  rw [h.hn, h.hl]
  have key := forLoop_inv
    (fun k (s : Array ρ × Block) => s.1.size = R.n ∧ s.2.size = 128 ∧
      (∀ j, j < R.n → s.1[j]! = if j < k then O.xor Z[j]! XY[j]! else Z[j]!) ∧
      (∀ m, m < R.l * k → s.2[m]! = R.lane (O.xor Z[m / R.l]! XY[m / R.l]!) (m % R.l)))
    (fun i (s : Array ρ × Block) =>
      (s.1.set! i (O.xor s.1[i]! XY[i]!), O.store s.2 (R.l * i) (O.xor s.1[i]! XY[i]!))) R.n 0 (Z, next)
    ⟨hZ, hn, fun j hj => by rw [if_neg (by omega)], fun m hm => by omega⟩ ?_
  · obtain ⟨h1, h2, h3, h4⟩ := key
    rw [Nat.zero_add] at h3 h4
    generalize forLoop _ R.n 0 (Z, next) = r at h1 h2 h3 h4
    obtain ⟨r1, r2⟩ := r
    dsimp only at h1 h2 h3 h4
    have e1 : r1 = Array.ofFn (n := R.n) fun i => O.xor Z[i.val]! XY[i.val]! := by
      apply ext!
      · rw [h1, Array.size_ofFn]
      · intro k hk
        rw [h1] at hk
        rw [h3 k hk, if_pos hk, get!_ofFn _ _ _ hk]
    have e2 : r2 = toBlock R r1 := by
      apply ext!
      · rw [h2, size_toBlock]
      · intro k hk
        rw [h2] at hk
        have hq : k / R.l < R.n := by
          rw [Nat.div_lt_iff_lt_mul hl, Nat.mul_comm, hln]; exact hk
        rw [h4 k (by rw [hln]; exact hk), toBlock_get R _ k hk, h3 _ hq, if_pos hq]
    rw [← e1, e2]
  · rintro k ⟨s1, s2⟩ _ hk ⟨h1, h2, h3, h4⟩
    dsimp only at h1 h2 h3 h4 ⊢
    have hsk : s1[k]! = Z[k]! := by rw [h3 k (by omega), if_neg (by omega)]
    have hkl : R.l * k + R.l ≤ 128 := by
      have : R.l * (k + 1) ≤ R.l * R.n := Nat.mul_le_mul_left _ (by omega)
      rw [Nat.mul_add, Nat.mul_one] at this; omega
    refine ⟨by rw [size_set!, h1], by rw [h.store_size, h2], ?_, ?_⟩
    · intro j hj
      rw [get!_set! _ _ _ _ (by omega), hsk]
      by_cases c : k = j
      · subst c; rw [if_pos rfl, if_pos (by omega)]
      · rw [if_neg c, h3 j hj]
        by_cases c2 : j < k
        · rw [if_pos c2, if_pos (by omega)]
        · rw [if_neg c2, if_neg (by omega)]
    · intro m hm
      rw [Nat.mul_add, Nat.mul_one] at hm
      rw [h.store_get _ _ _ m (by omega) (by omega), hsk]
      by_cases c : R.l * k ≤ m ∧ m < R.l * k + R.l
      · rw [if_pos c]
        have e1 : m / R.l = k := by
          apply Nat.div_eq_of_lt_le
          · rw [Nat.mul_comm]; exact c.1
          · rw [Nat.add_mul, Nat.one_mul, Nat.mul_comm]; exact c.2
        have e2 : m % R.l = m - R.l * k := by
          have := Nat.div_add_mod m R.l
          rw [e1] at this; omega
        rw [e1, e2]
      · rw [if_neg c]
        exact h4 m (by omega)

theorem u64_xor_comm3 (a b c : UInt64) : c ^^^ (a ^^^ b) = (b ^^^ a) ^^^ c := by
  rw [UInt64.xor_comm a b, UInt64.xor_comm]

/-- the block functions of a file whose operations are `OpsOK` compute the reference block functions, and
    leave the new block in `state` -/
theorem gen_fill_eq (R : Rep ρ) (O : Ops ρ) (h : OpsOK R O) (withXor : Bool) (s : Array ρ) (ref next : Block)
    (hs : s.size = R.n) (hr : ref.size = 128) (hn : next.size = 128) :
    gen_fill O withXor s ref next =
      (ofBlock R (if withXor then Argon2Ref.fill_block_with_xor (toBlock R s) ref next
        else Argon2Ref.fill_block (toBlock R s) ref),
       if withXor then Argon2Ref.fill_block_with_xor (toBlock R s) ref next
        else Argon2Ref.fill_block (toBlock R s) ref) := by
  have hl := R.lpos
  have hln := R.hln
  unfold gen_fill
  dsimp only
  rw [pair_loop (fun i x => O.xor x (O.load ref (O.l * i)))
    (fun i x => if withXor then O.xor (O.xor x (O.load ref (O.l * i))) (O.load next (O.l * i))
      else O.xor x (O.load ref (O.l * i))) O.n s _ (by rw [hs, h.hn]) (by simp)]
  dsimp only
  rw [h.hn, h.hl]
  generalize hX : (Array.ofFn (n := R.n) fun i => O.xor s[i.val]! (O.load ref (R.l * i.val))) = X
  generalize hY : (Array.ofFn (n := R.n) fun i => if withXor = true then
    O.xor (O.xor s[i.val]! (O.load ref (R.l * i.val))) (O.load next (R.l * i.val))
    else O.xor s[i.val]! (O.load ref (R.l * i.val))) = Y
  have hXs : X.size = R.n := by rw [← hX, Array.size_ofFn]
  have h1 := xor_store_loop R O h (O.rounds X) Y next (h.rounds_size X hXs) hn
  rw [h.hn, h.hl] at h1
  rw [h1]
  generalize hW : (Array.ofFn (n := R.n) fun i => O.xor (O.rounds X)[i.val]! Y[i.val]!) = W
  have hWs : W.size = R.n := by rw [← hW, Array.size_ofFn]
  -- the words of X, Y, W
  have hqn : ∀ k, k < 128 → k / R.l < R.n := by
    intro k hk; rw [Nat.div_lt_iff_lt_mul hl, Nat.mul_comm, hln]; exact hk
  have hidx : ∀ k, R.l * (k / R.l) + k % R.l = k := fun k => Nat.div_add_mod k R.l
  have hXw : toBlock R X = Argon2Ref.xor_block ref (toBlock R s) := by
    rw [Argon2RefP.xor_block_eq _ _ hr]
    apply ext!
    · rw [size_toBlock, Argon2RefP.size_xorBlock, hr]
    · intro k hk
      rw [size_toBlock] at hk
      rw [toBlock_get R _ k hk, ← hX, get!_ofFn _ _ _ (hqn k hk), h.xor _ _ _ (Nat.mod_lt _ hl),
        h.load _ _ _ (Nat.mod_lt _ hl), hidx, Argon2RefP.get!_xorBlock _ _ _ (by omega), toBlock_get R s k hk,
        UInt64.xor_comm]
  have hRs : (Argon2Ref.xor_block ref (toBlock R s)).size = 128 := by rw [Argon2RefP.size_xor_block, hr]
  have hZw : toBlock R (O.rounds X) = Argon2Ref.blake2_rounds (Argon2Ref.xor_block ref (toBlock R s)) := by
    rw [h.rounds X hXs, hXw]
  have hres : toBlock R W = (if withXor then Argon2Ref.fill_block_with_xor (toBlock R s) ref next
        else Argon2Ref.fill_block (toBlock R s) ref) := by
    have hWk : ∀ k, k < 128 → (toBlock R W)[k]! =
        (Argon2Ref.blake2_rounds (Argon2Ref.xor_block ref (toBlock R s)))[k]! ^^^ (toBlock R Y)[k]! := by
      intro k hk
      rw [toBlock_get R W k hk, ← hW, get!_ofFn _ _ _ (hqn k hk), h.xor _ _ _ (Nat.mod_lt _ hl), ← hZw,
        toBlock_get R _ k hk, toBlock_get R Y k hk]
    cases withXor with
    | false =>
      simp only [Bool.false_eq_true, if_false] at hY ⊢
      have hYX : Y = X := by rw [← hY, ← hX]
      unfold Argon2Ref.fill_block Argon2Ref.copy_block
      dsimp only
      generalize hRv : Argon2Ref.xor_block ref (toBlock R s) = Rb at *
      rw [Argon2RefP.xor_block_eq _ _ hRs]
      apply ext!
      · rw [size_toBlock, Argon2RefP.size_xorBlock, hRs]
      · intro k hk
        rw [size_toBlock] at hk
        rw [hWk k hk, hYX, hXw, Argon2RefP.get!_xorBlock _ _ _ (by omega), UInt64.xor_comm]
    | true =>
      simp only [if_true] at hY ⊢
      unfold Argon2Ref.fill_block_with_xor Argon2Ref.copy_block
      dsimp only
      generalize hRv : Argon2Ref.xor_block ref (toBlock R s) = Rb at *
      rw [Argon2RefP.xor_block_eq _ _ hRs, Argon2RefP.xor_block_eq _ _ (by rw [Argon2RefP.size_xorBlock, hRs])]
      apply ext!
      · rw [size_toBlock, Argon2RefP.size_xorBlock, Argon2RefP.size_xorBlock, hRs]
      · intro k hk
        rw [size_toBlock] at hk
        have hYk : (toBlock R Y)[k]! = Rb[k]! ^^^ next[k]! := by
          rw [toBlock_get R Y k hk, ← hY, get!_ofFn _ _ _ (hqn k hk), h.xor _ _ _ (Nat.mod_lt _ hl),
            h.load _ _ _ (Nat.mod_lt _ hl), hidx, ← hXw, toBlock_get R X k hk, ← hX, get!_ofFn _ _ _ (hqn k hk)]
        rw [hWk k hk, hYk, Argon2RefP.get!_xorBlock _ _ _ (by rw [Argon2RefP.size_xorBlock]; omega),
          Argon2RefP.get!_xorBlock _ _ _ (by omega), UInt64.xor_comm]
  rw [hres, ← hres, ofBlock_toBlock R W hWs]

/-! ### 3. the reference `round_at`, element by element -/

/-- `BLAKE2_ROUND_NOMSG` on sixteen words given by a function -/
def N16 (f : Nat → UInt64) : V16 :=
  BLAKE2_ROUND_NOMSG (f 0) (f 1) (f 2) (f 3) (f 4) (f 5) (f 6) (f 7) (f 8) (f 9) (f 10) (f 11) (f 12) (f 13) (f 14) (f 15)

/-- component `j` of the result -/
def v16get (r : V16) (j : Nat) : UInt64 :=
  match j with
  | 0 => r.v0 | 1 => r.v1 | 2 => r.v2 | 3 => r.v3 | 4 => r.v4 | 5 => r.v5 | 6 => r.v6 | 7 => r.v7
  | 8 => r.v8 | 9 => r.v9 | 10 => r.v10 | 11 => r.v11 | 12 => r.v12 | 13 => r.v13 | 14 => r.v14 | _ => r.v15

theorem N16_congr (f g : Nat → UInt64) (h : ∀ c, c < 16 → f c = g c) : N16 f = N16 g := by
  unfold N16
  rw [h 0 (by decide), h 1 (by decide), h 2 (by decide), h 3 (by decide), h 4 (by decide), h 5 (by decide),
    h 6 (by decide), h 7 (by decide), h 8 (by decide), h 9 (by decide), h 10 (by decide), h 11 (by decide),
    h 12 (by decide), h 13 (by decide), h 14 (by decide), h 15 (by decide)]

/-- `BLAKE2_ROUND_NOMSG(b.v[idx 0], …, b.v[idx 15])` with sixteen different in-range positions -/
def roundIdx (b : Block) (idx : Nat → Nat) : Block :=
  round_at b (idx 0) (idx 1) (idx 2) (idx 3) (idx 4) (idx 5) (idx 6) (idx 7) (idx 8) (idx 9) (idx 10) (idx 11)
    (idx 12) (idx 13) (idx 14) (idx 15)

theorem size_roundIdx (b : Block) (idx : Nat → Nat) : (roundIdx b idx).size = b.size := by
  unfold roundIdx; exact Argon2RefP.size_round_at ..

theorem roundIdx_miss (b : Block) (idx : Nat → Nat) (k : Nat) (h : ∀ c, c < 16 → idx c ≠ k) :
    (roundIdx b idx)[k]! = b[k]! := by
  unfold roundIdx round_at
  dsimp only
  rw [get!_set!_ne _ _ _ _ (h 15 (by decide)), get!_set!_ne _ _ _ _ (h 14 (by decide)),
    get!_set!_ne _ _ _ _ (h 13 (by decide)), get!_set!_ne _ _ _ _ (h 12 (by decide)),
    get!_set!_ne _ _ _ _ (h 11 (by decide)), get!_set!_ne _ _ _ _ (h 10 (by decide)),
    get!_set!_ne _ _ _ _ (h 9 (by decide)), get!_set!_ne _ _ _ _ (h 8 (by decide)),
    get!_set!_ne _ _ _ _ (h 7 (by decide)), get!_set!_ne _ _ _ _ (h 6 (by decide)),
    get!_set!_ne _ _ _ _ (h 5 (by decide)), get!_set!_ne _ _ _ _ (h 4 (by decide)),
    get!_set!_ne _ _ _ _ (h 3 (by decide)), get!_set!_ne _ _ _ _ (h 2 (by decide)),
    get!_set!_ne _ _ _ _ (h 1 (by decide)), get!_set!_ne _ _ _ _ (h 0 (by decide))]

theorem roundIdx_hit (b : Block) (idx : Nat → Nat) (hinj : ∀ c d, c < 16 → d < 16 → idx c = idx d → c = d)
    (hlt : ∀ c, c < 16 → idx c < b.size) (c : Nat) (hc : c < 16) :
    (roundIdx b idx)[idx c]! = v16get (N16 fun c => b[idx c]!) c := by
  have hne : ∀ c d, c < 16 → d < 16 → c ≠ d → idx d ≠ idx c := fun c d h1 h2 h3 h4 => h3 (hinj d c h2 h1 h4).symm
  unfold roundIdx round_at
  dsimp only
  have hcases : c = 0 ∨ c = 1 ∨ c = 2 ∨ c = 3 ∨ c = 4 ∨ c = 5 ∨ c = 6 ∨ c = 7 ∨ c = 8 ∨ c = 9 ∨ c = 10 ∨ c = 11 ∨
      c = 12 ∨ c = 13 ∨ c = 14 ∨ c = 15 := by omega
  rcases hcases with rfl | rfl | rfl | rfl | rfl | rfl | rfl | rfl | rfl | rfl | rfl | rfl | rfl | rfl | rfl | rfl <;>
  · repeat rw [get!_set!_ne _ _ _ _ (hne _ _ (by decide) (by decide) (by decide))]
    rw [get!_set!_eq _ _ _ (Nat.lt_of_lt_of_eq (hlt _ (by decide)) (by simp only [size_set!]))]
    rfl

/-- the index patterns of the two loops of the reference `fill_block` -/
def rowIdx (i c : Nat) : Nat := 16 * i + c
def colIdx (i c : Nat) : Nat := 2 * i + 16 * (c / 2) + c % 2

theorem blake2_rounds_eq (b : Block) :
    Argon2Ref.blake2_rounds b =
      forLoop (fun i b => roundIdx b (colIdx i)) 8 0 (forLoop (fun i b => roundIdx b (rowIdx i)) 8 0 b) := rfl

theorem row_hit (b : Block) (hb : b.size = 128) (i : Nat) (hi : i < 8) (k : Nat) (hk : k / 16 = i) :
    (roundIdx b (rowIdx i))[k]! = v16get (N16 fun c => b[rowIdx i c]!) (k % 16) := by
  have := roundIdx_hit b (rowIdx i) (by intro c d _ _ h; unfold rowIdx at h; omega)
    (by intro c hc; unfold rowIdx; omega) (k % 16) (Nat.mod_lt _ (by decide))
  rw [show rowIdx i (k % 16) = k by unfold rowIdx; omega] at this
  exact this

theorem row_miss (b : Block) (i : Nat) (k : Nat) (hk : k / 16 ≠ i) : (roundIdx b (rowIdx i))[k]! = b[k]! :=
  roundIdx_miss b _ k (by intro c hc; unfold rowIdx; omega)

theorem col_hit (b : Block) (hb : b.size = 128) (i : Nat) (hi : i < 8) (k : Nat) (hk128 : k < 128)
    (hk : k % 16 / 2 = i) :
    (roundIdx b (colIdx i))[k]! = v16get (N16 fun c => b[colIdx i c]!) (2 * (k / 16) + k % 2) := by
  have := roundIdx_hit b (colIdx i) (by intro c d _ _ h; unfold colIdx at h; omega)
    (by intro c hc; unfold colIdx; omega) (2 * (k / 16) + k % 2) (by omega)
  rw [show colIdx i (2 * (k / 16) + k % 2) = k by unfold colIdx; omega] at this
  exact this

theorem col_miss (b : Block) (i : Nat) (hi : i < 8) (k : Nat) (hk : k % 16 / 2 ≠ i) : (roundIdx b (colIdx i))[k]! = b[k]! :=
  roundIdx_miss b _ k (by intro c hc; unfold colIdx; omega)

/-- `m` iterations of the first reference loop starting at row `j0`, element by element -/
theorem rows_get (m : Nat) : ∀ (b : Block) (j0 : Nat), b.size = 128 → j0 + m ≤ 8 → ∀ k, k < 128 →
    (forLoop (fun i b => roundIdx b (rowIdx i)) m j0 b)[k]! =
      if j0 ≤ k / 16 ∧ k / 16 < j0 + m then v16get (N16 fun c => b[rowIdx (k / 16) c]!) (k % 16) else b[k]! := by
  induction m with
  | zero => intro b j0 _ _ k _; rw [forLoop, if_neg (by omega)]
  | succ m ih =>
    intro b j0 hb hj k hk
    rw [forLoop, ih _ (j0 + 1) (by rw [size_roundIdx, hb]) (by omega) k hk]
    by_cases cA : j0 + 1 ≤ k / 16 ∧ k / 16 < j0 + 1 + m
    · rw [if_pos cA, if_pos (by omega)]
      refine congrArg (fun r => v16get r (k % 16)) (N16_congr _ _ ?_)
      intro c hc
      exact row_miss b j0 _ (by unfold rowIdx; omega)
    · rw [if_neg cA]
      by_cases c0 : k / 16 = j0
      · rw [row_hit b hb j0 (by omega) k c0, if_pos (by omega), c0]
      · rw [row_miss b j0 k c0, if_neg (by omega)]

/-- `m` iterations of the second reference loop starting at column `j0`, element by element -/
theorem cols_get (m : Nat) : ∀ (b : Block) (j0 : Nat), b.size = 128 → j0 + m ≤ 8 → ∀ k, k < 128 →
    (forLoop (fun i b => roundIdx b (colIdx i)) m j0 b)[k]! =
      if j0 ≤ k % 16 / 2 ∧ k % 16 / 2 < j0 + m then
        v16get (N16 fun c => b[colIdx (k % 16 / 2) c]!) (2 * (k / 16) + k % 2) else b[k]! := by
  induction m with
  | zero => intro b j0 _ _ k _; rw [forLoop, if_neg (by omega)]
  | succ m ih =>
    intro b j0 hb hj k hk
    rw [forLoop, ih _ (j0 + 1) (by rw [size_roundIdx, hb]) (by omega) k hk]
    by_cases cA : j0 + 1 ≤ k % 16 / 2 ∧ k % 16 / 2 < j0 + 1 + m
    · rw [if_pos cA, if_pos (by omega)]
      refine congrArg (fun r => v16get r (2 * (k / 16) + k % 2)) (N16_congr _ _ ?_)
      intro c hc
      exact col_miss b j0 (by omega) _ (by unfold colIdx; omega)
    · rw [if_neg cA]
      by_cases c0 : k % 16 / 2 = j0
      · rw [col_hit b hb j0 (by omega) k hk c0, if_pos (by omega), c0]
      · rw [col_miss b j0 (by omega) k c0, if_neg (by omega)]

theorem forLoop_split_8 {σ : Type} (f : Nat → σ → σ) (s : σ) : forLoop f 8 0 s = forLoop f 4 4 (forLoop f 4 0 s) := rfl

/-! ### 4. the scalar G in the statement order of the vector code -/

/-- the first half of the `G` macro (rotations 32, 24) -/
def gA (a b c d : UInt64) : UInt64 × UInt64 × UInt64 × UInt64 :=
  let a := fBlaMka a b
  let d := rotr64 (d ^^^ a) 32
  let c := fBlaMka c d
  let b := rotr64 (b ^^^ c) 24
  (a, b, c, d)
/-- the second half (rotations 16, 63) -/
def gB (a b c d : UInt64) : UInt64 × UInt64 × UInt64 × UInt64 :=
  let a := fBlaMka a b
  let d := rotr64 (d ^^^ a) 16
  let c := fBlaMka c d
  let b := rotr64 (b ^^^ c) 63
  (a, b, c, d)

theorem G_eq (a b c d : UInt64) :
    Argon2Ref.G a b c d = gB (gA a b c d).1 (gA a b c d).2.1 (gA a b c d).2.2.1 (gA a b c d).2.2.2 := rfl

/-- the product of the low halves, as `_mm*_mul_epu32` computes it in each 64-bit lane -/
def mulLo (a b : UInt64) : UInt64 := (a &&& 0xFFFFFFFF) * (b &&& 0xFFFFFFFF)

theorem lo32 (x : UInt64) : (x >>> UInt64.ofNat (32 * 0)).toUInt32.toUInt64 = x &&& 0xFFFFFFFF := by
  apply UInt64.toNat_inj.mp
  simp [UInt64.toNat_and]
  exact (Nat.and_two_pow_sub_one_eq_mod x.toNat 32).symm

/-- the AVX2 statement order: `A0 + (B0 + (ml + ml))` -/
theorem fb_avx2 (a b : UInt64) : a + (b + (mulLo a b + mulLo a b)) = fBlaMka a b := by
  show a + (b + (mulLo a b + mulLo a b)) = a + b + 2 * mulLo a b
  rw [UInt64.two_mul]; ac_rfl

/-- the SSSE3 / AVX-512F statement order: `(x + y) + (z + z)` -/
theorem fb_sse (a b : UInt64) : (a + b) + (mulLo a b + mulLo a b) = fBlaMka a b := by
  show (a + b) + (mulLo a b + mulLo a b) = a + b + 2 * mulLo a b
  rw [UInt64.two_mul]

/-! ### eight `state[…] = …` write-backs -/

/-- the write-back of the eight lvalues of a round macro -/
def set8 (s : Array ρ) (idx : Nat → Nat) (val : Nat → ρ) : Array ρ :=
  s |>.set! (idx 0) (val 0) |>.set! (idx 1) (val 1) |>.set! (idx 2) (val 2) |>.set! (idx 3) (val 3)
    |>.set! (idx 4) (val 4) |>.set! (idx 5) (val 5) |>.set! (idx 6) (val 6) |>.set! (idx 7) (val 7)

theorem size_set8 (s : Array ρ) (idx : Nat → Nat) (val : Nat → ρ) : (set8 s idx val).size = s.size := by
  simp only [set8, size_set!]

theorem set8_miss (s : Array ρ) (idx : Nat → Nat) (val : Nat → ρ) (k : Nat) (h : ∀ c, c < 8 → idx c ≠ k) :
    (set8 s idx val)[k]! = s[k]! := by
  unfold set8
  rw [get!_set!_ne _ _ _ _ (h 7 (by decide)), get!_set!_ne _ _ _ _ (h 6 (by decide)),
    get!_set!_ne _ _ _ _ (h 5 (by decide)), get!_set!_ne _ _ _ _ (h 4 (by decide)),
    get!_set!_ne _ _ _ _ (h 3 (by decide)), get!_set!_ne _ _ _ _ (h 2 (by decide)),
    get!_set!_ne _ _ _ _ (h 1 (by decide)), get!_set!_ne _ _ _ _ (h 0 (by decide))]

theorem set8_hit (s : Array ρ) (idx : Nat → Nat) (val : Nat → ρ)
    (hinj : ∀ c d, c < 8 → d < 8 → idx c = idx d → c = d) (hlt : ∀ c, c < 8 → idx c < s.size) (c : Nat) (hc : c < 8) :
    (set8 s idx val)[idx c]! = val c := by
  have hne : ∀ c d, c < 8 → d < 8 → c ≠ d → idx d ≠ idx c := fun c d h1 h2 h3 h4 => h3 (hinj d c h2 h1 h4).symm
  unfold set8
  have hcases : c = 0 ∨ c = 1 ∨ c = 2 ∨ c = 3 ∨ c = 4 ∨ c = 5 ∨ c = 6 ∨ c = 7 := by omega
  rcases hcases with rfl | rfl | rfl | rfl | rfl | rfl | rfl | rfl <;>
  · repeat rw [get!_set!_ne _ _ _ _ (hne _ _ (by decide) (by decide) (by decide))]
    rw [get!_set!_eq _ _ _ (Nat.lt_of_lt_of_eq (hlt _ (by decide)) (by simp only [size_set!]))]

theorem forLoop_4 {σ : Type} (f : Nat → σ → σ) (s : σ) : forLoop f 4 0 s = f 3 (f 2 (f 1 (f 0 s))) := rfl
theorem forLoop_8 {σ : Type} (f : Nat → σ → σ) (s : σ) :
    forLoop f 8 0 s = f 7 (f 6 (f 5 (f 4 (f 3 (f 2 (f 1 (f 0 s))))))) := rfl
theorem forLoop_2 {σ : Type} (f : Nat → σ → σ) (s : σ) : forLoop f 2 0 s = f 1 (f 0 s) := rfl

theorem getD_eq_get! (m : Array UInt64) (k : Nat) : m.getD k 0 = m[k]! := by
  rw [Array.getElem!_eq_getD]; rfl

/-! ### 5. AVX2 -/
namespace Avx2P
open Sodium.Model.Argon2Simd.Avx2

theorem mul_row (a0 a1 a2 a3 b0 b1 b2 b3 : UInt64) :
    _mm256_mul_epu32 (row a0 a1 a2 a3) (row b0 b1 b2 b3) = row (mulLo a0 b0) (mulLo a1 b1) (mulLo a2 b2) (mulLo a3 b3) := by
  unfold mulLo
  rw [← lo32 a0, ← lo32 a1, ← lo32 a2, ← lo32 a3, ← lo32 b0, ← lo32 b1, ← lo32 b2, ← lo32 b3]
  rfl
theorem add_row (a0 a1 a2 a3 b0 b1 b2 b3 : UInt64) :
    _mm256_add_epi64 (row a0 a1 a2 a3) (row b0 b1 b2 b3) = row (a0 + b0) (a1 + b1) (a2 + b2) (a3 + b3) := rfl
theorem xor_row (a0 a1 a2 a3 b0 b1 b2 b3 : UInt64) :
    _mm256_xor_si256 (row a0 a1 a2 a3) (row b0 b1 b2 b3) = row (a0 ^^^ b0) (a1 ^^^ b1) (a2 ^^^ b2) (a3 ^^^ b3) := rfl

theorem rotr32_row (x0 x1 x2 x3 : UInt64) :
    rotr32 (row x0 x1 x2 x3) = row (rotr64 x0 32) (rotr64 x1 32) (rotr64 x2 32) (rotr64 x3 32) :=
  Blake2bSimdP.Avx2P.ROT32_row x0 x1 x2 x3
theorem rotr24_row (x0 x1 x2 x3 : UInt64) :
    rotr24 (row x0 x1 x2 x3) = row (rotr64 x0 24) (rotr64 x1 24) (rotr64 x2 24) (rotr64 x3 24) :=
  Blake2bSimdP.Avx2P.ROT24_row x0 x1 x2 x3
theorem rotr16_row (x0 x1 x2 x3 : UInt64) :
    rotr16 (row x0 x1 x2 x3) = row (rotr64 x0 16) (rotr64 x1 16) (rotr64 x2 16) (rotr64 x3 16) :=
  Blake2bSimdP.Avx2P.ROT16_row x0 x1 x2 x3
theorem rotr63_row (x0 x1 x2 x3 : UInt64) :
    rotr63 (row x0 x1 x2 x3) = row (rotr64 x0 63) (rotr64 x1 63) (rotr64 x2 63) (rotr64 x3 63) := by
  rw [← Blake2bSimdP.rot63_xor x0, ← Blake2bSimdP.rot63_xor x1, ← Blake2bSimdP.rot63_xor x2,
    ← Blake2bSimdP.rot63_xor x3]; rfl

theorem blend_epi32_CC (a0 a1 a2 a3 b0 b1 b2 b3 : UInt64) :
    _mm256_blend_epi32 (row a0 a1 a2 a3) (row b0 b1 b2 b3) 0xCC = row a0 b1 a2 b3 := by
  conv => rhs; rw [← Blake2bSimdP.pack2_id a0, ← Blake2bSimdP.pack2_id b1, ← Blake2bSimdP.pack2_id a2,
    ← Blake2bSimdP.pack2_id b3]
  rfl

/-- `G1_AVX2`: the first half of G in every lane of the (A0, B0, C0, D0) and of the (A1, B1, C1, D1) registers -/
theorem G1_rows (a0 a1 a2 a3 b0 b1 b2 b3 c0 c1 c2 c3 d0 d1 d2 d3 p0 p1 p2 p3 q0 q1 q2 q3 r0 r1 r2 r3 s0 s1 s2 s3 : UInt64) :
    G1_AVX2 ⟨row a0 a1 a2 a3, row p0 p1 p2 p3, row b0 b1 b2 b3, row q0 q1 q2 q3, row c0 c1 c2 c3, row r0 r1 r2 r3, row d0 d1 d2 d3, row s0 s1 s2 s3⟩ =
      ⟨row (gA a0 b0 c0 d0).1 (gA a1 b1 c1 d1).1 (gA a2 b2 c2 d2).1 (gA a3 b3 c3 d3).1,
       row (gA p0 q0 r0 s0).1 (gA p1 q1 r1 s1).1 (gA p2 q2 r2 s2).1 (gA p3 q3 r3 s3).1,
       row (gA a0 b0 c0 d0).2.1 (gA a1 b1 c1 d1).2.1 (gA a2 b2 c2 d2).2.1 (gA a3 b3 c3 d3).2.1,
       row (gA p0 q0 r0 s0).2.1 (gA p1 q1 r1 s1).2.1 (gA p2 q2 r2 s2).2.1 (gA p3 q3 r3 s3).2.1,
       row (gA a0 b0 c0 d0).2.2.1 (gA a1 b1 c1 d1).2.2.1 (gA a2 b2 c2 d2).2.2.1 (gA a3 b3 c3 d3).2.2.1,
       row (gA p0 q0 r0 s0).2.2.1 (gA p1 q1 r1 s1).2.2.1 (gA p2 q2 r2 s2).2.2.1 (gA p3 q3 r3 s3).2.2.1,
       row (gA a0 b0 c0 d0).2.2.2 (gA a1 b1 c1 d1).2.2.2 (gA a2 b2 c2 d2).2.2.2 (gA a3 b3 c3 d3).2.2.2,
       row (gA p0 q0 r0 s0).2.2.2 (gA p1 q1 r1 s1).2.2.2 (gA p2 q2 r2 s2).2.2.2 (gA p3 q3 r3 s3).2.2.2⟩ := by
  simp only [G1_AVX2, mul_row, add_row, xor_row, rotr32_row, rotr24_row, fb_avx2, gA]

theorem G2_rows (a0 a1 a2 a3 b0 b1 b2 b3 c0 c1 c2 c3 d0 d1 d2 d3 p0 p1 p2 p3 q0 q1 q2 q3 r0 r1 r2 r3 s0 s1 s2 s3 : UInt64) :
    G2_AVX2 ⟨row a0 a1 a2 a3, row p0 p1 p2 p3, row b0 b1 b2 b3, row q0 q1 q2 q3, row c0 c1 c2 c3, row r0 r1 r2 r3, row d0 d1 d2 d3, row s0 s1 s2 s3⟩ =
      ⟨row (gB a0 b0 c0 d0).1 (gB a1 b1 c1 d1).1 (gB a2 b2 c2 d2).1 (gB a3 b3 c3 d3).1,
       row (gB p0 q0 r0 s0).1 (gB p1 q1 r1 s1).1 (gB p2 q2 r2 s2).1 (gB p3 q3 r3 s3).1,
       row (gB a0 b0 c0 d0).2.1 (gB a1 b1 c1 d1).2.1 (gB a2 b2 c2 d2).2.1 (gB a3 b3 c3 d3).2.1,
       row (gB p0 q0 r0 s0).2.1 (gB p1 q1 r1 s1).2.1 (gB p2 q2 r2 s2).2.1 (gB p3 q3 r3 s3).2.1,
       row (gB a0 b0 c0 d0).2.2.1 (gB a1 b1 c1 d1).2.2.1 (gB a2 b2 c2 d2).2.2.1 (gB a3 b3 c3 d3).2.2.1,
       row (gB p0 q0 r0 s0).2.2.1 (gB p1 q1 r1 s1).2.2.1 (gB p2 q2 r2 s2).2.2.1 (gB p3 q3 r3 s3).2.2.1,
       row (gB a0 b0 c0 d0).2.2.2 (gB a1 b1 c1 d1).2.2.2 (gB a2 b2 c2 d2).2.2.2 (gB a3 b3 c3 d3).2.2.2,
       row (gB p0 q0 r0 s0).2.2.2 (gB p1 q1 r1 s1).2.2.2 (gB p2 q2 r2 s2).2.2.2 (gB p3 q3 r3 s3).2.2.2⟩ := by
  simp only [G2_AVX2, mul_row, add_row, xor_row, rotr16_row, rotr63_row, fb_avx2, gB]

theorem G12_rows (a0 a1 a2 a3 p0 p1 p2 p3 b0 b1 b2 b3 q0 q1 q2 q3 c0 c1 c2 c3 r0 r1 r2 r3 d0 d1 d2 d3 s0 s1 s2 s3 : UInt64) :
    G2_AVX2 (G1_AVX2 ⟨row a0 a1 a2 a3, row p0 p1 p2 p3, row b0 b1 b2 b3, row q0 q1 q2 q3, row c0 c1 c2 c3, row r0 r1 r2 r3, row d0 d1 d2 d3, row s0 s1 s2 s3⟩) =
      ⟨row (Argon2Ref.G a0 b0 c0 d0).1 (Argon2Ref.G a1 b1 c1 d1).1 (Argon2Ref.G a2 b2 c2 d2).1 (Argon2Ref.G a3 b3 c3 d3).1,
       row (Argon2Ref.G p0 q0 r0 s0).1 (Argon2Ref.G p1 q1 r1 s1).1 (Argon2Ref.G p2 q2 r2 s2).1 (Argon2Ref.G p3 q3 r3 s3).1,
       row (Argon2Ref.G a0 b0 c0 d0).2.1 (Argon2Ref.G a1 b1 c1 d1).2.1 (Argon2Ref.G a2 b2 c2 d2).2.1 (Argon2Ref.G a3 b3 c3 d3).2.1,
       row (Argon2Ref.G p0 q0 r0 s0).2.1 (Argon2Ref.G p1 q1 r1 s1).2.1 (Argon2Ref.G p2 q2 r2 s2).2.1 (Argon2Ref.G p3 q3 r3 s3).2.1,
       row (Argon2Ref.G a0 b0 c0 d0).2.2.1 (Argon2Ref.G a1 b1 c1 d1).2.2.1 (Argon2Ref.G a2 b2 c2 d2).2.2.1 (Argon2Ref.G a3 b3 c3 d3).2.2.1,
       row (Argon2Ref.G p0 q0 r0 s0).2.2.1 (Argon2Ref.G p1 q1 r1 s1).2.2.1 (Argon2Ref.G p2 q2 r2 s2).2.2.1 (Argon2Ref.G p3 q3 r3 s3).2.2.1,
       row (Argon2Ref.G a0 b0 c0 d0).2.2.2 (Argon2Ref.G a1 b1 c1 d1).2.2.2 (Argon2Ref.G a2 b2 c2 d2).2.2.2 (Argon2Ref.G a3 b3 c3 d3).2.2.2,
       row (Argon2Ref.G p0 q0 r0 s0).2.2.2 (Argon2Ref.G p1 q1 r1 s1).2.2.2 (Argon2Ref.G p2 q2 r2 s2).2.2.2 (Argon2Ref.G p3 q3 r3 s3).2.2.2⟩ := by
  simp only [G1_rows, G2_rows, G_eq]

theorem DIAG1_rows (a0 a1 a2 a3 p0 p1 p2 p3 b0 b1 b2 b3 q0 q1 q2 q3 c0 c1 c2 c3 r0 r1 r2 r3 d0 d1 d2 d3 s0 s1 s2 s3 : UInt64) :
    DIAGONALIZE_1 ⟨row a0 a1 a2 a3, row p0 p1 p2 p3, row b0 b1 b2 b3, row q0 q1 q2 q3, row c0 c1 c2 c3, row r0 r1 r2 r3, row d0 d1 d2 d3, row s0 s1 s2 s3⟩ =
      ⟨row a0 a1 a2 a3, row p0 p1 p2 p3, row b1 b2 b3 b0, row q1 q2 q3 q0, row c2 c3 c0 c1, row r2 r3 r0 r1,
       row d3 d0 d1 d2, row s3 s0 s1 s2⟩ := rfl

theorem UNDIAG1_rows (a0 a1 a2 a3 p0 p1 p2 p3 b0 b1 b2 b3 q0 q1 q2 q3 c0 c1 c2 c3 r0 r1 r2 r3 d0 d1 d2 d3 s0 s1 s2 s3 : UInt64) :
    UNDIAGONALIZE_1 ⟨row a0 a1 a2 a3, row p0 p1 p2 p3, row b0 b1 b2 b3, row q0 q1 q2 q3, row c0 c1 c2 c3, row r0 r1 r2 r3, row d0 d1 d2 d3, row s0 s1 s2 s3⟩ =
      ⟨row a0 a1 a2 a3, row p0 p1 p2 p3, row b3 b0 b1 b2, row q3 q0 q1 q2, row c2 c3 c0 c1, row r2 r3 r0 r1,
       row d1 d2 d3 d0, row s1 s2 s3 s0⟩ := rfl

theorem DIAG2_rows (a0 a1 a2 a3 p0 p1 p2 p3 b0 b1 b2 b3 q0 q1 q2 q3 c0 c1 c2 c3 r0 r1 r2 r3 d0 d1 d2 d3 s0 s1 s2 s3 : UInt64) :
    DIAGONALIZE_2 ⟨row a0 a1 a2 a3, row p0 p1 p2 p3, row b0 b1 b2 b3, row q0 q1 q2 q3, row c0 c1 c2 c3, row r0 r1 r2 r3, row d0 d1 d2 d3, row s0 s1 s2 s3⟩ =
      ⟨row a0 a1 a2 a3, row p0 p1 p2 p3, row b1 q0 b3 q2, row q1 b0 q3 b2, row r0 r1 r2 r3, row c0 c1 c2 c3,
       row s1 d0 s3 d2, row d1 s0 d3 s2⟩ := by
  simp only [DIAGONALIZE_2, blend_epi32_CC, Blake2bSimdP.blend_epi32_33]
  rfl

theorem UNDIAG2_rows (a0 a1 a2 a3 p0 p1 p2 p3 b0 b1 b2 b3 q0 q1 q2 q3 c0 c1 c2 c3 r0 r1 r2 r3 d0 d1 d2 d3 s0 s1 s2 s3 : UInt64) :
    UNDIAGONALIZE_2 ⟨row a0 a1 a2 a3, row p0 p1 p2 p3, row b0 b1 b2 b3, row q0 q1 q2 q3, row c0 c1 c2 c3, row r0 r1 r2 r3, row d0 d1 d2 d3, row s0 s1 s2 s3⟩ =
      ⟨row a0 a1 a2 a3, row p0 p1 p2 p3, row q1 b0 q3 b2, row b1 q0 b3 q2, row r0 r1 r2 r3, row c0 c1 c2 c3,
       row d1 s0 d3 s2, row s1 d0 s3 d2⟩ := by
  simp only [UNDIAGONALIZE_2, blend_epi32_CC, Blake2bSimdP.blend_epi32_33]
  rfl

/-- `BLAKE2_ROUND_1` on (A0, B0, C0, D0) = 16 consecutive words and (A1, B1, C1, D1) = the next 16:
    `BLAKE2_ROUND_NOMSG` on each group -/
theorem ROUND_1_rows (a0 a1 a2 a3 p0 p1 p2 p3 b0 b1 b2 b3 q0 q1 q2 q3 c0 c1 c2 c3 r0 r1 r2 r3 d0 d1 d2 d3 s0 s1 s2 s3 : UInt64) :
    BLAKE2_ROUND_1 ⟨row a0 a1 a2 a3, row p0 p1 p2 p3, row b0 b1 b2 b3, row q0 q1 q2 q3, row c0 c1 c2 c3, row r0 r1 r2 r3, row d0 d1 d2 d3, row s0 s1 s2 s3⟩ =
      (let x := BLAKE2_ROUND_NOMSG a0 a1 a2 a3 b0 b1 b2 b3 c0 c1 c2 c3 d0 d1 d2 d3
       let y := BLAKE2_ROUND_NOMSG p0 p1 p2 p3 q0 q1 q2 q3 r0 r1 r2 r3 s0 s1 s2 s3
       ⟨row x.v0 x.v1 x.v2 x.v3, row y.v0 y.v1 y.v2 y.v3, row x.v4 x.v5 x.v6 x.v7, row y.v4 y.v5 y.v6 y.v7, row x.v8 x.v9 x.v10 x.v11, row y.v8 y.v9 y.v10 y.v11, row x.v12 x.v13 x.v14 x.v15, row y.v12 y.v13 y.v14 y.v15⟩) := by
  simp only [BLAKE2_ROUND_1, G12_rows, DIAG1_rows, UNDIAG1_rows]
  rfl

/-- `BLAKE2_ROUND_2`: lanes 0–1 of the eight registers are one group of 16 words, lanes 2–3 the other -/
theorem ROUND_2_rows (a0 a1 a2 a3 p0 p1 p2 p3 b0 b1 b2 b3 q0 q1 q2 q3 c0 c1 c2 c3 r0 r1 r2 r3 d0 d1 d2 d3 s0 s1 s2 s3 : UInt64) :
    BLAKE2_ROUND_2 ⟨row a0 a1 a2 a3, row p0 p1 p2 p3, row b0 b1 b2 b3, row q0 q1 q2 q3, row c0 c1 c2 c3, row r0 r1 r2 r3, row d0 d1 d2 d3, row s0 s1 s2 s3⟩ =
      (let x := BLAKE2_ROUND_NOMSG a0 a1 p0 p1 b0 b1 q0 q1 c0 c1 r0 r1 d0 d1 s0 s1
       let y := BLAKE2_ROUND_NOMSG a2 a3 p2 p3 b2 b3 q2 q3 c2 c3 r2 r3 d2 d3 s2 s3
       ⟨row x.v0 x.v1 y.v0 y.v1, row x.v2 x.v3 y.v2 y.v3, row x.v4 x.v5 y.v4 y.v5, row x.v6 x.v7 y.v6 y.v7, row x.v8 x.v9 y.v8 y.v9, row x.v10 x.v11 y.v10 y.v11, row x.v12 x.v13 y.v12 y.v13, row x.v14 x.v15 y.v14 y.v15⟩) := by
  simp only [BLAKE2_ROUND_2, G12_rows, DIAG2_rows, UNDIAG2_rows]
  rfl

/-- `__m256i state[32]` as a block -/
@[reducible] def R256 : Rep M256 :=
  { l := 4, n := 32, lane := M256.epi64, pack := M256.ofEpi64, hln := rfl
    lane_pack := by
      intro f e he
      have : e = 0 ∨ e = 1 ∨ e = 2 ∨ e = 3 := by omega
      rcases this with rfl | rfl | rfl | rfl <;> rfl
    pack_lane := fun x => rfl
    pack_congr := by
      intro f g h
      show M256.mk ⟨f 0, f 1⟩ ⟨f (0 + 2), f (1 + 2)⟩ = M256.mk ⟨g 0, g 1⟩ ⟨g (0 + 2), g (1 + 2)⟩
      rw [h 0 (by decide), h 1 (by decide), h (0 + 2) (by decide), h (1 + 2) (by decide)] }

/-- the register a round macro leaves in `state[8 * i + t]` (first loop) -/
def r1get (r : V8) (t : Nat) : M256 :=
  match t with
  | 0 => r.A0 | 1 => r.B0 | 2 => r.C0 | 3 => r.D0 | 4 => r.A1 | 5 => r.B1 | 6 => r.C1 | _ => r.D1
/-- the register a round macro leaves in `state[4 * t + i]` (second loop) -/
def r2get (r : V8) (t : Nat) : M256 :=
  match t with
  | 0 => r.A0 | 1 => r.A1 | 2 => r.B0 | 3 => r.B1 | 4 => r.C0 | 5 => r.C1 | 6 => r.D0 | _ => r.D1

theorem round_1_at_eq (i : Nat) (s : Array M256) :
    round_1_at i s = set8 s (fun c => 8 * i + c) (r1get (BLAKE2_ROUND_1
      { A0 := s[8 * i + 0]!, A1 := s[8 * i + 4]!, B0 := s[8 * i + 1]!, B1 := s[8 * i + 5]!,
        C0 := s[8 * i + 2]!, C1 := s[8 * i + 6]!, D0 := s[8 * i + 3]!, D1 := s[8 * i + 7]! })) := rfl

theorem round_2_at_eq (i : Nat) (s : Array M256) :
    round_2_at i s = set8 s (fun c => 4 * c + i) (r2get (BLAKE2_ROUND_2
      { A0 := s[0 + i]!, A1 := s[4 + i]!, B0 := s[8 + i]!, B1 := s[12 + i]!,
        C0 := s[16 + i]!, C1 := s[20 + i]!, D0 := s[24 + i]!, D1 := s[28 + i]! })) := rfl

/-- the words `BLAKE2_ROUND_1` leaves in the eight registers `x 0 … x 7` (in `state` order) -/
theorem ROUND_1_words (x : Nat → M256) (t e : Nat) (ht : t < 8) (he : e < 4) :
    (r1get (BLAKE2_ROUND_1 { A0 := x 0, A1 := x 4, B0 := x 1, B1 := x 5, C0 := x 2, C1 := x 6, D0 := x 3, D1 := x 7 })
      t).epi64 e = v16get (N16 fun c => (x (4 * (t / 4) + c / 4)).epi64 (c % 4)) (4 * (t % 4) + e) := by
  have key : BLAKE2_ROUND_1 { A0 := x 0, A1 := x 4, B0 := x 1, B1 := x 5, C0 := x 2, C1 := x 6, D0 := x 3, D1 := x 7 } = _ :=
    ROUND_1_rows ((x 0).epi64 0) ((x 0).epi64 1) ((x 0).epi64 2) ((x 0).epi64 3) ((x 4).epi64 0) ((x 4).epi64 1) ((x 4).epi64 2) ((x 4).epi64 3) ((x 1).epi64 0) ((x 1).epi64 1) ((x 1).epi64 2) ((x 1).epi64 3) ((x 5).epi64 0) ((x 5).epi64 1) ((x 5).epi64 2) ((x 5).epi64 3) ((x 2).epi64 0) ((x 2).epi64 1) ((x 2).epi64 2) ((x 2).epi64 3) ((x 6).epi64 0) ((x 6).epi64 1) ((x 6).epi64 2) ((x 6).epi64 3) ((x 3).epi64 0) ((x 3).epi64 1) ((x 3).epi64 2) ((x 3).epi64 3) ((x 7).epi64 0) ((x 7).epi64 1) ((x 7).epi64 2) ((x 7).epi64 3)
  rw [key]
  have h1 : t = 0 ∨ t = 1 ∨ t = 2 ∨ t = 3 ∨ t = 4 ∨ t = 5 ∨ t = 6 ∨ t = 7 := by omega
  have h2 : e = 0 ∨ e = 1 ∨ e = 2 ∨ e = 3 := by omega
  rcases h1 with rfl | rfl | rfl | rfl | rfl | rfl | rfl | rfl <;> rcases h2 with rfl | rfl | rfl | rfl <;> rfl

/-- the words `BLAKE2_ROUND_2` leaves in the eight registers `x 0 … x 7` (`x t = state[4 * t + i]`) -/
theorem ROUND_2_words (x : Nat → M256) (t e : Nat) (ht : t < 8) (he : e < 4) :
    (r2get (BLAKE2_ROUND_2 { A0 := x 0, A1 := x 1, B0 := x 2, B1 := x 3, C0 := x 4, C1 := x 5, D0 := x 6, D1 := x 7 })
      t).epi64 e = v16get (N16 fun c => (x (c / 2)).epi64 (2 * (e / 2) + c % 2)) (2 * t + e % 2) := by
  have key : BLAKE2_ROUND_2 { A0 := x 0, A1 := x 1, B0 := x 2, B1 := x 3, C0 := x 4, C1 := x 5, D0 := x 6, D1 := x 7 } = _ :=
    ROUND_2_rows ((x 0).epi64 0) ((x 0).epi64 1) ((x 0).epi64 2) ((x 0).epi64 3) ((x 1).epi64 0) ((x 1).epi64 1) ((x 1).epi64 2) ((x 1).epi64 3) ((x 2).epi64 0) ((x 2).epi64 1) ((x 2).epi64 2) ((x 2).epi64 3) ((x 3).epi64 0) ((x 3).epi64 1) ((x 3).epi64 2) ((x 3).epi64 3) ((x 4).epi64 0) ((x 4).epi64 1) ((x 4).epi64 2) ((x 4).epi64 3) ((x 5).epi64 0) ((x 5).epi64 1) ((x 5).epi64 2) ((x 5).epi64 3) ((x 6).epi64 0) ((x 6).epi64 1) ((x 6).epi64 2) ((x 6).epi64 3) ((x 7).epi64 0) ((x 7).epi64 1) ((x 7).epi64 2) ((x 7).epi64 3)
  rw [key]
  have h1 : t = 0 ∨ t = 1 ∨ t = 2 ∨ t = 3 ∨ t = 4 ∨ t = 5 ∨ t = 6 ∨ t = 7 := by omega
  have h2 : e = 0 ∨ e = 1 ∨ e = 2 ∨ e = 3 := by omega
  rcases h1 with rfl | rfl | rfl | rfl | rfl | rfl | rfl | rfl <;> rcases h2 with rfl | rfl | rfl | rfl <;> rfl

/-- one iteration of the first loop = two iterations of the first reference loop -/
theorem sim1 (s : Array M256) (hs : s.size = 32) (i : Nat) (hi : i < 4) :
    toBlock R256 (round_1_at i s) =
      roundIdx (roundIdx (toBlock R256 s) (rowIdx (2 * i))) (rowIdx (2 * i + 1)) := by
  have hB : (toBlock R256 s).size = 128 := size_toBlock _ _
  have hBk : ∀ k, k < 128 → (toBlock R256 s)[k]! = (s[k / 4]!).epi64 (k % 4) := fun k hk => toBlock_get R256 s k hk
  apply ext!
  · rw [size_toBlock, size_roundIdx, size_roundIdx, hB]
  · intro k hk
    rw [size_toBlock] at hk
    rw [toBlock_get R256 _ k hk, round_1_at_eq]
    show M256.epi64 (set8 s _ _)[k / 4]! (k % 4) = _
    by_cases hq : k / 32 = i
    · generalize ht : k / 4 % 8 = t
      generalize he : k % 4 = e
      have hreg := set8_hit s (fun c => 8 * i + c) (r1get (BLAKE2_ROUND_1
        { A0 := s[8 * i + 0]!, A1 := s[8 * i + 4]!, B0 := s[8 * i + 1]!, B1 := s[8 * i + 5]!,
          C0 := s[8 * i + 2]!, C1 := s[8 * i + 6]!, D0 := s[8 * i + 3]!, D1 := s[8 * i + 7]! }))
        (by intro c d _ _ h; omega) (by intro c hc; omega) t (by omega)
      rw [show k / 4 = 8 * i + t by omega, hreg]
      have hw := ROUND_1_words (fun j => s[8 * i + j]!) t e (by omega) (by omega)
      rw [hw]
      by_cases c4 : t < 4
      · rw [row_miss _ _ _ (by omega), row_hit _ hB (2 * i) (by omega) k (by omega),
          show 4 * (t % 4) + e = k % 16 by omega]
        refine congrArg (fun r => v16get r (k % 16)) (N16_congr _ _ ?_)
        intro c hc
        unfold rowIdx
        rw [hBk _ (by omega), show (16 * (2 * i) + c) / 4 = 8 * i + (4 * (t / 4) + c / 4) by omega,
          show (16 * (2 * i) + c) % 4 = c % 4 by omega]
      · rw [row_hit _ (by rw [size_roundIdx, hB]) (2 * i + 1) (by omega) k (by omega),
          show 4 * (t % 4) + e = k % 16 by omega]
        refine congrArg (fun r => v16get r (k % 16)) (N16_congr _ _ ?_)
        intro c hc
        unfold rowIdx
        rw [roundIdx_miss _ _ _ (by intro d hd; omega), hBk _ (by omega),
          show (16 * (2 * i + 1) + c) / 4 = 8 * i + (4 * (t / 4) + c / 4) by omega,
          show (16 * (2 * i + 1) + c) % 4 = c % 4 by omega]
    · rw [set8_miss _ _ _ _ (by intro c hc; omega), row_miss _ _ _ (by omega), row_miss _ _ _ (by omega), hBk k hk]

/-- one iteration of the second loop = two iterations of the second reference loop -/
theorem sim2 (s : Array M256) (hs : s.size = 32) (i : Nat) (hi : i < 4) :
    toBlock R256 (round_2_at i s) =
      roundIdx (roundIdx (toBlock R256 s) (colIdx (2 * i))) (colIdx (2 * i + 1)) := by
  have hB : (toBlock R256 s).size = 128 := size_toBlock _ _
  have hBk : ∀ k, k < 128 → (toBlock R256 s)[k]! = (s[k / 4]!).epi64 (k % 4) := fun k hk => toBlock_get R256 s k hk
  apply ext!
  · rw [size_toBlock, size_roundIdx, size_roundIdx, hB]
  · intro k hk
    rw [size_toBlock] at hk
    rw [toBlock_get R256 _ k hk, round_2_at_eq]
    show M256.epi64 (set8 s _ _)[k / 4]! (k % 4) = _
    by_cases hq : k % 16 / 4 = i
    · generalize ht : k / 16 = t
      generalize he : k % 4 = e
      have hreg := set8_hit s (fun c => 4 * c + i) (r2get (BLAKE2_ROUND_2
        { A0 := s[0 + i]!, A1 := s[4 + i]!, B0 := s[8 + i]!, B1 := s[12 + i]!,
          C0 := s[16 + i]!, C1 := s[20 + i]!, D0 := s[24 + i]!, D1 := s[28 + i]! }))
        (by intro c d _ _ h; omega) (by intro c hc; omega) t (by omega)
      rw [show k / 4 = 4 * t + i by omega, hreg]
      have hw := ROUND_2_words (fun j => s[4 * j + i]!) t e (by omega) (by omega)
      rw [hw]
      by_cases c2 : e < 2
      · rw [col_miss _ _ (by omega) _ (by omega), col_hit _ hB (2 * i) (by omega) k hk (by omega),
          show 2 * t + e % 2 = 2 * (k / 16) + k % 2 by omega]
        refine congrArg (fun r => v16get r (2 * (k / 16) + k % 2)) (N16_congr _ _ ?_)
        intro c hc
        unfold colIdx
        rw [hBk _ (by omega), show (2 * (2 * i) + 16 * (c / 2) + c % 2) / 4 = 4 * (c / 2) + i by omega,
          show (2 * (2 * i) + 16 * (c / 2) + c % 2) % 4 = 2 * (e / 2) + c % 2 by omega]
      · rw [col_hit _ (by rw [size_roundIdx, hB]) (2 * i + 1) (by omega) k hk (by omega),
          show 2 * t + e % 2 = 2 * (k / 16) + k % 2 by omega]
        refine congrArg (fun r => v16get r (2 * (k / 16) + k % 2)) (N16_congr _ _ ?_)
        intro c hc
        unfold colIdx
        rw [roundIdx_miss _ _ _ (by intro d hd; omega), hBk _ (by omega),
          show (2 * (2 * i + 1) + 16 * (c / 2) + c % 2) / 4 = 4 * (c / 2) + i by omega,
          show (2 * (2 * i + 1) + 16 * (c / 2) + c % 2) % 4 = 2 * (e / 2) + c % 2 by omega]
    · rw [set8_miss _ _ _ _ (by intro c hc; omega), col_miss _ _ (by omega) _ (by omega),
        col_miss _ _ (by omega) _ (by omega), hBk k hk]

/-- the operations of argon2-fill-block-avx2.c -/
@[reducible] def ops : Ops M256 :=
  { n := 32, l := 4, zero := ⟨⟨0, 0⟩, ⟨0, 0⟩⟩, xor := _mm256_xor_si256, load := _mm256_loadu_si256_u64,
    store := _mm256_storeu_si256_u64, rounds := Avx2.blake2_rounds }

theorem fill_block_gen (s : Array M256) (ref next : Block) :
    Avx2.fill_block s ref next = gen_fill ops false s ref next := by
  unfold Avx2.fill_block gen_fill Avx2.xor_store ops Avx2.ARGON2_HWORDS_IN_BLOCK
  simp only [Bool.false_eq_true, if_false]
theorem fill_block_with_xor_gen (s : Array M256) (ref next : Block) :
    Avx2.fill_block_with_xor s ref next = gen_fill ops true s ref next := by
  unfold Avx2.fill_block_with_xor gen_fill Avx2.xor_store ops Avx2.ARGON2_HWORDS_IN_BLOCK
  simp only [if_true]

theorem size_round_1_at (i : Nat) (s : Array M256) : (round_1_at i s).size = s.size := by
  rw [round_1_at_eq, size_set8]
theorem size_round_2_at (i : Nat) (s : Array M256) : (round_2_at i s).size = s.size := by
  rw [round_2_at_eq, size_set8]

theorem rounds_size (s : Array M256) (hs : s.size = 32) : (Avx2.blake2_rounds s).size = 32 := by
  unfold Avx2.blake2_rounds
  simp only [forLoop_4, size_round_1_at, size_round_2_at, hs]

/-- the two vector loops compute the two reference loops -/
theorem rounds_eq (s : Array M256) (hs : s.size = 32) :
    toBlock R256 (Avx2.blake2_rounds s) = Argon2Ref.blake2_rounds (toBlock R256 s) := by
  unfold Avx2.blake2_rounds
  rw [blake2_rounds_eq, forLoop_4, forLoop_4, forLoop_8, forLoop_8]
  have z1 : ∀ i s, (round_1_at i s).size = s.size := size_round_1_at
  have z2 : ∀ i s, (round_2_at i s).size = s.size := size_round_2_at
  rw [sim2 _ (by simp only [z1, z2, hs]) 3 (by decide), sim2 _ (by simp only [z1, z2, hs]) 2 (by decide),
    sim2 _ (by simp only [z1, z2, hs]) 1 (by decide), sim2 _ (by simp only [z1, z2, hs]) 0 (by decide),
    sim1 _ (by simp only [z1, z2, hs]) 3 (by decide), sim1 _ (by simp only [z1, z2, hs]) 2 (by decide),
    sim1 _ (by simp only [z1, z2, hs]) 1 (by decide), sim1 _ hs 0 (by decide)]

theorem store_eq (m : Block) (i : Nat) (v : M256) :
    _mm256_storeu_si256_u64 m i v =
      (((m.set! (i + 0) (v.epi64 0)).set! (i + 1) (v.epi64 1)).set! (i + 2) (v.epi64 2)).set! (i + 3) (v.epi64 3) := by
  simp only [_mm256_storeu_si256_u64, Array.set!_eq_setIfInBounds]

theorem opsOK : OpsOK R256 ops where
  hn := rfl
  hl := rfl
  xor := by
    intro a b e he
    have : e = 0 ∨ e = 1 ∨ e = 2 ∨ e = 3 := by have : e < 4 := he; omega
    rcases this with rfl | rfl | rfl | rfl <;> rfl
  load := by
    intro m i e he
    rw [← getD_eq_get!]
    have : e = 0 ∨ e = 1 ∨ e = 2 ∨ e = 3 := by have : e < 4 := he; omega
    rcases this with rfl | rfl | rfl | rfl <;> rfl
  store_size := by
    intro m i v
    show (_mm256_storeu_si256_u64 m i v).size = _
    rw [store_eq]; simp only [size_set!]
  store_get := by
    intro m i v k hk hi
    have hi : i + 4 ≤ m.size := hi
    show (_mm256_storeu_si256_u64 m i v)[k]! = if i ≤ k ∧ k < i + 4 then M256.epi64 v (k - i) else m[k]!
    rw [store_eq, get!_set! _ _ _ _ (by simp only [size_set!]; exact hk),
      get!_set! _ _ _ _ (by simp only [size_set!]; exact hk), get!_set! _ _ _ _ (by simp only [size_set!]; exact hk),
      get!_set! _ _ _ _ hk]
    by_cases c3 : i + 3 = k
    · rw [if_pos c3, if_pos (by omega), show k - i = 3 by omega]
    rw [if_neg c3]
    by_cases c2 : i + 2 = k
    · rw [if_pos c2, if_pos (by omega), show k - i = 2 by omega]
    rw [if_neg c2]
    by_cases c1 : i + 1 = k
    · rw [if_pos c1, if_pos (by omega), show k - i = 1 by omega]
    rw [if_neg c1]
    by_cases c0 : i + 0 = k
    · rw [if_pos c0, if_pos (by omega), show k - i = 0 by omega]
    rw [if_neg c0, if_neg (by omega)]
  rounds_size := by
    intro s hs
    with_reducible exact rounds_size s hs
  rounds := by
    intro s hs
    with_reducible exact rounds_eq s hs

end Avx2P


/-! ### 5b. SSSE3 -/
namespace Ssse3P
open Sodium.Model.Argon2Simd.Ssse3
open Sodium.Blake2bSimdP.SseP (add_lane xor_lane)

theorem roti_eq (x : M128) (c : Int) : _mm_roti_epi64 x c = Blake2bSimd.Sse._mm_roti_epi64 x c := rfl

theorem mul_lane (a0 a1 b0 b1 : UInt64) : _mm_mul_epu32 ⟨a0, a1⟩ ⟨b0, b1⟩ = ⟨mulLo a0 b0, mulLo a1 b1⟩ := by
  unfold mulLo
  rw [← lo32 a0, ← lo32 a1, ← lo32 b0, ← lo32 b1]
  rfl

theorem fBlaMka_lane (a0 a1 b0 b1 : UInt64) :
    Ssse3.fBlaMka ⟨a0, a1⟩ ⟨b0, b1⟩ = ⟨Argon2Ref.fBlaMka a0 b0, Argon2Ref.fBlaMka a1 b1⟩ := by
  simp only [Ssse3.fBlaMka, mul_lane, add_lane, fb_sse]

theorem G1_lanes (a0 a1 a2 a3 b0 b1 b2 b3 c0 c1 c2 c3 d0 d1 d2 d3 : UInt64) :
    G1 ⟨⟨a0, a1⟩, ⟨a2, a3⟩, ⟨b0, b1⟩, ⟨b2, b3⟩, ⟨c0, c1⟩, ⟨c2, c3⟩, ⟨d0, d1⟩, ⟨d2, d3⟩⟩ =
      ⟨⟨(gA a0 b0 c0 d0).1, (gA a1 b1 c1 d1).1⟩,
       ⟨(gA a2 b2 c2 d2).1, (gA a3 b3 c3 d3).1⟩,
       ⟨(gA a0 b0 c0 d0).2.1, (gA a1 b1 c1 d1).2.1⟩,
       ⟨(gA a2 b2 c2 d2).2.1, (gA a3 b3 c3 d3).2.1⟩,
       ⟨(gA a0 b0 c0 d0).2.2.1, (gA a1 b1 c1 d1).2.2.1⟩,
       ⟨(gA a2 b2 c2 d2).2.2.1, (gA a3 b3 c3 d3).2.2.1⟩,
       ⟨(gA a0 b0 c0 d0).2.2.2, (gA a1 b1 c1 d1).2.2.2⟩,
       ⟨(gA a2 b2 c2 d2).2.2.2, (gA a3 b3 c3 d3).2.2.2⟩⟩ := by
  simp only [G1, fBlaMka_lane, xor_lane, roti_eq, Blake2bSimdP.SseP.roti_32, Blake2bSimdP.SseP.roti_24, gA]

theorem G2_lanes (a0 a1 a2 a3 b0 b1 b2 b3 c0 c1 c2 c3 d0 d1 d2 d3 : UInt64) :
    G2 ⟨⟨a0, a1⟩, ⟨a2, a3⟩, ⟨b0, b1⟩, ⟨b2, b3⟩, ⟨c0, c1⟩, ⟨c2, c3⟩, ⟨d0, d1⟩, ⟨d2, d3⟩⟩ =
      ⟨⟨(gB a0 b0 c0 d0).1, (gB a1 b1 c1 d1).1⟩,
       ⟨(gB a2 b2 c2 d2).1, (gB a3 b3 c3 d3).1⟩,
       ⟨(gB a0 b0 c0 d0).2.1, (gB a1 b1 c1 d1).2.1⟩,
       ⟨(gB a2 b2 c2 d2).2.1, (gB a3 b3 c3 d3).2.1⟩,
       ⟨(gB a0 b0 c0 d0).2.2.1, (gB a1 b1 c1 d1).2.2.1⟩,
       ⟨(gB a2 b2 c2 d2).2.2.1, (gB a3 b3 c3 d3).2.2.1⟩,
       ⟨(gB a0 b0 c0 d0).2.2.2, (gB a1 b1 c1 d1).2.2.2⟩,
       ⟨(gB a2 b2 c2 d2).2.2.2, (gB a3 b3 c3 d3).2.2.2⟩⟩ := by
  simp only [G2, fBlaMka_lane, xor_lane, roti_eq, Blake2bSimdP.SseP.roti_16, Blake2bSimdP.SseP.roti_63, gB]

theorem G12_lanes (a0 a1 a2 a3 b0 b1 b2 b3 c0 c1 c2 c3 d0 d1 d2 d3 : UInt64) :
    G2 (G1 ⟨⟨a0, a1⟩, ⟨a2, a3⟩, ⟨b0, b1⟩, ⟨b2, b3⟩, ⟨c0, c1⟩, ⟨c2, c3⟩, ⟨d0, d1⟩, ⟨d2, d3⟩⟩) =
      ⟨⟨(Argon2Ref.G a0 b0 c0 d0).1, (Argon2Ref.G a1 b1 c1 d1).1⟩,
       ⟨(Argon2Ref.G a2 b2 c2 d2).1, (Argon2Ref.G a3 b3 c3 d3).1⟩,
       ⟨(Argon2Ref.G a0 b0 c0 d0).2.1, (Argon2Ref.G a1 b1 c1 d1).2.1⟩,
       ⟨(Argon2Ref.G a2 b2 c2 d2).2.1, (Argon2Ref.G a3 b3 c3 d3).2.1⟩,
       ⟨(Argon2Ref.G a0 b0 c0 d0).2.2.1, (Argon2Ref.G a1 b1 c1 d1).2.2.1⟩,
       ⟨(Argon2Ref.G a2 b2 c2 d2).2.2.1, (Argon2Ref.G a3 b3 c3 d3).2.2.1⟩,
       ⟨(Argon2Ref.G a0 b0 c0 d0).2.2.2, (Argon2Ref.G a1 b1 c1 d1).2.2.2⟩,
       ⟨(Argon2Ref.G a2 b2 c2 d2).2.2.2, (Argon2Ref.G a3 b3 c3 d3).2.2.2⟩⟩ := by
  simp only [G1_lanes, G2_lanes, G_eq]

theorem DIAG_lanes (a0 a1 a2 a3 b0 b1 b2 b3 c0 c1 c2 c3 d0 d1 d2 d3 : UInt64) :
    DIAGONALIZE ⟨⟨a0, a1⟩, ⟨a2, a3⟩, ⟨b0, b1⟩, ⟨b2, b3⟩, ⟨c0, c1⟩, ⟨c2, c3⟩, ⟨d0, d1⟩, ⟨d2, d3⟩⟩ =
      ⟨⟨a0, a1⟩, ⟨a2, a3⟩, ⟨b1, b2⟩, ⟨b3, b0⟩, ⟨c2, c3⟩, ⟨c0, c1⟩, ⟨d3, d0⟩, ⟨d1, d2⟩⟩ := by
  simp only [DIAGONALIZE, Blake2bSimdP.alignr_epi8_8]

theorem UNDIAG_lanes (a0 a1 a2 a3 b0 b1 b2 b3 c0 c1 c2 c3 d0 d1 d2 d3 : UInt64) :
    UNDIAGONALIZE ⟨⟨a0, a1⟩, ⟨a2, a3⟩, ⟨b0, b1⟩, ⟨b2, b3⟩, ⟨c0, c1⟩, ⟨c2, c3⟩, ⟨d0, d1⟩, ⟨d2, d3⟩⟩ =
      ⟨⟨a0, a1⟩, ⟨a2, a3⟩, ⟨b3, b0⟩, ⟨b1, b2⟩, ⟨c2, c3⟩, ⟨c0, c1⟩, ⟨d1, d2⟩, ⟨d3, d0⟩⟩ := by
  simp only [UNDIAGONALIZE, Blake2bSimdP.alignr_epi8_8]

/-- `BLAKE2_ROUND` on eight registers = 16 consecutive words: `BLAKE2_ROUND_NOMSG` on them -/
theorem ROUND_lanes (a0 a1 a2 a3 b0 b1 b2 b3 c0 c1 c2 c3 d0 d1 d2 d3 : UInt64) :
    BLAKE2_ROUND ⟨⟨a0, a1⟩, ⟨a2, a3⟩, ⟨b0, b1⟩, ⟨b2, b3⟩, ⟨c0, c1⟩, ⟨c2, c3⟩, ⟨d0, d1⟩, ⟨d2, d3⟩⟩ =
      (let x := BLAKE2_ROUND_NOMSG a0 a1 a2 a3 b0 b1 b2 b3 c0 c1 c2 c3 d0 d1 d2 d3
       ⟨⟨x.v0, x.v1⟩, ⟨x.v2, x.v3⟩, ⟨x.v4, x.v5⟩, ⟨x.v6, x.v7⟩, ⟨x.v8, x.v9⟩, ⟨x.v10, x.v11⟩, ⟨x.v12, x.v13⟩,
        ⟨x.v14, x.v15⟩⟩) := by
  simp only [BLAKE2_ROUND, G12_lanes, DIAG_lanes, UNDIAG_lanes]
  rfl

/-- `__m128i state[64]` as a block -/
@[reducible] def R128 : Rep M128 :=
  { l := 2, n := 64, lane := M128.epi64, pack := M128.ofEpi64, hln := rfl
    lane_pack := by
      intro f e he
      have : e = 0 ∨ e = 1 := by omega
      rcases this with rfl | rfl <;> rfl
    pack_lane := fun x => rfl
    pack_congr := by
      intro f g h
      show M128.mk (f 0) (f 1) = M128.mk (g 0) (g 1)
      rw [h 0 (by decide), h 1 (by decide)] }

/-- the register a round macro leaves in the `t`-th of its eight arguments -/
def rget (r : V8) (t : Nat) : M128 :=
  match t with
  | 0 => r.A0 | 1 => r.A1 | 2 => r.B0 | 3 => r.B1 | 4 => r.C0 | 5 => r.C1 | 6 => r.D0 | _ => r.D1

theorem round_1_at_eq (i : Nat) (s : Array M128) :
    round_1_at i s = set8 s (fun c => 8 * i + c) (rget (BLAKE2_ROUND
      { A0 := s[8 * i + 0]!, A1 := s[8 * i + 1]!, B0 := s[8 * i + 2]!, B1 := s[8 * i + 3]!,
        C0 := s[8 * i + 4]!, C1 := s[8 * i + 5]!, D0 := s[8 * i + 6]!, D1 := s[8 * i + 7]! })) := rfl

theorem round_2_at_eq (i : Nat) (s : Array M128) :
    round_2_at i s = set8 s (fun c => 8 * c + i) (rget (BLAKE2_ROUND
      { A0 := s[8 * 0 + i]!, A1 := s[8 * 1 + i]!, B0 := s[8 * 2 + i]!, B1 := s[8 * 3 + i]!,
        C0 := s[8 * 4 + i]!, C1 := s[8 * 5 + i]!, D0 := s[8 * 6 + i]!, D1 := s[8 * 7 + i]! })) := rfl

/-- the words `BLAKE2_ROUND` leaves in its eight registers `x 0 … x 7` -/
theorem ROUND_words (x : Nat → M128) (t e : Nat) (ht : t < 8) (he : e < 2) :
    (rget (BLAKE2_ROUND { A0 := x 0, A1 := x 1, B0 := x 2, B1 := x 3, C0 := x 4, C1 := x 5, D0 := x 6, D1 := x 7 })
      t).epi64 e = v16get (N16 fun c => (x (c / 2)).epi64 (c % 2)) (2 * t + e) := by
  have key : BLAKE2_ROUND { A0 := x 0, A1 := x 1, B0 := x 2, B1 := x 3, C0 := x 4, C1 := x 5, D0 := x 6, D1 := x 7 } = _ :=
    ROUND_lanes ((x 0).epi64 0) ((x 0).epi64 1) ((x 1).epi64 0) ((x 1).epi64 1) ((x 2).epi64 0) ((x 2).epi64 1) ((x 3).epi64 0) ((x 3).epi64 1) ((x 4).epi64 0) ((x 4).epi64 1) ((x 5).epi64 0) ((x 5).epi64 1) ((x 6).epi64 0) ((x 6).epi64 1) ((x 7).epi64 0) ((x 7).epi64 1)
  rw [key]
  have h1 : t = 0 ∨ t = 1 ∨ t = 2 ∨ t = 3 ∨ t = 4 ∨ t = 5 ∨ t = 6 ∨ t = 7 := by omega
  have h2 : e = 0 ∨ e = 1 := by omega
  rcases h1 with rfl | rfl | rfl | rfl | rfl | rfl | rfl | rfl <;> rcases h2 with rfl | rfl <;> rfl

/-- one iteration of the first loop = one iteration of the first reference loop -/
theorem sim1 (s : Array M128) (hs : s.size = 64) (i : Nat) (hi : i < 8) :
    toBlock R128 (round_1_at i s) = roundIdx (toBlock R128 s) (rowIdx i) := by
  have hB : (toBlock R128 s).size = 128 := size_toBlock _ _
  have hBk : ∀ k, k < 128 → (toBlock R128 s)[k]! = (s[k / 2]!).epi64 (k % 2) := fun k hk => toBlock_get R128 s k hk
  apply ext!
  · rw [size_toBlock, size_roundIdx, hB]
  · intro k hk
    rw [size_toBlock] at hk
    rw [toBlock_get R128 _ k hk, round_1_at_eq]
    show M128.epi64 (set8 s _ _)[k / 2]! (k % 2) = _
    by_cases hq : k / 16 = i
    · generalize ht : k / 2 % 8 = t
      generalize he : k % 2 = e
      have hreg := set8_hit s (fun c => 8 * i + c) (rget (BLAKE2_ROUND
        { A0 := s[8 * i + 0]!, A1 := s[8 * i + 1]!, B0 := s[8 * i + 2]!, B1 := s[8 * i + 3]!,
          C0 := s[8 * i + 4]!, C1 := s[8 * i + 5]!, D0 := s[8 * i + 6]!, D1 := s[8 * i + 7]! }))
        (by intro c d _ _ h; omega) (by intro c hc; omega) t (by omega)
      rw [show k / 2 = 8 * i + t by omega, hreg]
      have hw := ROUND_words (fun j => s[8 * i + j]!) t e (by omega) (by omega)
      rw [hw, row_hit _ hB i hi k hq, show 2 * t + e = k % 16 by omega]
      refine congrArg (fun r => v16get r (k % 16)) (N16_congr _ _ ?_)
      intro c hc
      unfold rowIdx
      rw [hBk _ (by omega), show (16 * i + c) / 2 = 8 * i + c / 2 by omega, show (16 * i + c) % 2 = c % 2 by omega]
    · rw [set8_miss _ _ _ _ (by intro c hc; omega), row_miss _ _ _ hq, hBk k hk]

/-- one iteration of the second loop = one iteration of the second reference loop -/
theorem sim2 (s : Array M128) (hs : s.size = 64) (i : Nat) (hi : i < 8) :
    toBlock R128 (round_2_at i s) = roundIdx (toBlock R128 s) (colIdx i) := by
  have hB : (toBlock R128 s).size = 128 := size_toBlock _ _
  have hBk : ∀ k, k < 128 → (toBlock R128 s)[k]! = (s[k / 2]!).epi64 (k % 2) := fun k hk => toBlock_get R128 s k hk
  apply ext!
  · rw [size_toBlock, size_roundIdx, hB]
  · intro k hk
    rw [size_toBlock] at hk
    rw [toBlock_get R128 _ k hk, round_2_at_eq]
    show M128.epi64 (set8 s _ _)[k / 2]! (k % 2) = _
    by_cases hq : k % 16 / 2 = i
    · generalize ht : k / 16 = t
      generalize he : k % 2 = e
      have hreg := set8_hit s (fun c => 8 * c + i) (rget (BLAKE2_ROUND
        { A0 := s[8 * 0 + i]!, A1 := s[8 * 1 + i]!, B0 := s[8 * 2 + i]!, B1 := s[8 * 3 + i]!,
          C0 := s[8 * 4 + i]!, C1 := s[8 * 5 + i]!, D0 := s[8 * 6 + i]!, D1 := s[8 * 7 + i]! }))
        (by intro c d _ _ h; omega) (by intro c hc; omega) t (by omega)
      rw [show k / 2 = 8 * t + i by omega, hreg]
      have hw := ROUND_words (fun j => s[8 * j + i]!) t e (by omega) (by omega)
      rw [hw, col_hit _ hB i hi k hk hq, show 2 * t + e = 2 * (k / 16) + k % 2 by omega]
      refine congrArg (fun r => v16get r (2 * (k / 16) + k % 2)) (N16_congr _ _ ?_)
      intro c hc
      unfold colIdx
      rw [hBk _ (by omega), show (2 * i + 16 * (c / 2) + c % 2) / 2 = 8 * (c / 2) + i by omega,
        show (2 * i + 16 * (c / 2) + c % 2) % 2 = c % 2 by omega]
    · rw [set8_miss _ _ _ _ (by intro c hc; omega), col_miss _ _ hi _ hq, hBk k hk]

/-- the operations of argon2-fill-block-ssse3.c -/
@[reducible] def ops : Ops M128 :=
  { n := 64, l := 2, zero := ⟨0, 0⟩, xor := _mm_xor_si128, load := _mm_loadu_si128_u64,
    store := _mm_storeu_si128_u64, rounds := Ssse3.blake2_rounds }

theorem fill_block_gen (s : Array M128) (ref next : Block) :
    Ssse3.fill_block s ref next = gen_fill ops false s ref next := by
  unfold Ssse3.fill_block gen_fill Ssse3.xor_store ops Ssse3.ARGON2_OWORDS_IN_BLOCK
  simp only [Bool.false_eq_true, if_false]
theorem fill_block_with_xor_gen (s : Array M128) (ref next : Block) :
    Ssse3.fill_block_with_xor s ref next = gen_fill ops true s ref next := by
  unfold Ssse3.fill_block_with_xor gen_fill Ssse3.xor_store ops Ssse3.ARGON2_OWORDS_IN_BLOCK
  simp only [if_true]

theorem size_round_1_at (i : Nat) (s : Array M128) : (round_1_at i s).size = s.size := by
  rw [round_1_at_eq, size_set8]
theorem size_round_2_at (i : Nat) (s : Array M128) : (round_2_at i s).size = s.size := by
  rw [round_2_at_eq, size_set8]

theorem rounds_size (s : Array M128) (hs : s.size = 64) : (Ssse3.blake2_rounds s).size = 64 := by
  unfold Ssse3.blake2_rounds
  simp only [forLoop_8, size_round_1_at, size_round_2_at, hs]

/-- the two vector loops compute the two reference loops -/
theorem rounds_eq (s : Array M128) (hs : s.size = 64) :
    toBlock R128 (Ssse3.blake2_rounds s) = Argon2Ref.blake2_rounds (toBlock R128 s) := by
  unfold Ssse3.blake2_rounds
  rw [blake2_rounds_eq, forLoop_8, forLoop_8, forLoop_8, forLoop_8]
  have z1 : ∀ i s, (round_1_at i s).size = s.size := size_round_1_at
  have z2 : ∀ i s, (round_2_at i s).size = s.size := size_round_2_at
  rw [sim2 _ (by simp only [z1, z2, hs]) 7 (by decide), sim2 _ (by simp only [z1, z2, hs]) 6 (by decide),
    sim2 _ (by simp only [z1, z2, hs]) 5 (by decide), sim2 _ (by simp only [z1, z2, hs]) 4 (by decide),
    sim2 _ (by simp only [z1, z2, hs]) 3 (by decide), sim2 _ (by simp only [z1, z2, hs]) 2 (by decide),
    sim2 _ (by simp only [z1, z2, hs]) 1 (by decide), sim2 _ (by simp only [z1, z2, hs]) 0 (by decide),
    sim1 _ (by simp only [z1, z2, hs]) 7 (by decide), sim1 _ (by simp only [z1, z2, hs]) 6 (by decide),
    sim1 _ (by simp only [z1, z2, hs]) 5 (by decide), sim1 _ (by simp only [z1, z2, hs]) 4 (by decide),
    sim1 _ (by simp only [z1, z2, hs]) 3 (by decide), sim1 _ (by simp only [z1, z2, hs]) 2 (by decide),
    sim1 _ (by simp only [z1, z2, hs]) 1 (by decide), sim1 _ hs 0 (by decide)]

theorem store_eq (m : Block) (i : Nat) (v : M128) :
    _mm_storeu_si128_u64 m i v = (m.set! (i + 0) (v.epi64 0)).set! (i + 1) (v.epi64 1) := by
  simp only [_mm_storeu_si128_u64, Array.set!_eq_setIfInBounds]

theorem opsOK : OpsOK R128 ops where
  hn := rfl
  hl := rfl
  xor := by
    intro a b e he
    have : e = 0 ∨ e = 1 := by have : e < 2 := he; omega
    rcases this with rfl | rfl <;> rfl
  load := by
    intro m i e he
    rw [← getD_eq_get!]
    have : e = 0 ∨ e = 1 := by have : e < 2 := he; omega
    rcases this with rfl | rfl <;> rfl
  store_size := by
    intro m i v
    show (_mm_storeu_si128_u64 m i v).size = _
    rw [store_eq]; simp only [size_set!]
  store_get := by
    intro m i v k hk hi
    have hi : i + 2 ≤ m.size := hi
    show (_mm_storeu_si128_u64 m i v)[k]! = if i ≤ k ∧ k < i + 2 then M128.epi64 v (k - i) else m[k]!
    rw [store_eq, get!_set! _ _ _ _ (by simp only [size_set!]; exact hk), get!_set! _ _ _ _ hk]
    by_cases c1 : i + 1 = k
    · rw [if_pos c1, if_pos (by omega), show k - i = 1 by omega]
    rw [if_neg c1]
    by_cases c0 : i + 0 = k
    · rw [if_pos c0, if_pos (by omega), show k - i = 0 by omega]
    rw [if_neg c0, if_neg (by omega)]
  rounds_size := by
    intro s hs
    with_reducible exact rounds_size s hs
  rounds := by
    intro s hs
    with_reducible exact rounds_eq s hs

end Ssse3P


/-! ### 5c. AVX-512F -/
namespace Avx512fP
open Sodium.Model.Argon2Simd.Avx512f

/-- a `__m512i` from its eight 64-bit lanes -/
@[reducible] def r8 (x0 x1 x2 x3 x4 x5 x6 x7 : UInt64) : M512 := ⟨row x0 x1 x2 x3, row x4 x5 x6 x7⟩

theorem mul_r8 (a0 a1 a2 a3 a4 a5 a6 a7 b0 b1 b2 b3 b4 b5 b6 b7 : UInt64) :
    _mm512_mul_epu32 (r8 a0 a1 a2 a3 a4 a5 a6 a7) (r8 b0 b1 b2 b3 b4 b5 b6 b7) =
      r8 (mulLo a0 b0) (mulLo a1 b1) (mulLo a2 b2) (mulLo a3 b3) (mulLo a4 b4) (mulLo a5 b5) (mulLo a6 b6) (mulLo a7 b7) := by
  unfold mulLo
  rw [← lo32 a0, ← lo32 a1, ← lo32 a2, ← lo32 a3, ← lo32 a4, ← lo32 a5, ← lo32 a6, ← lo32 a7,
    ← lo32 b0, ← lo32 b1, ← lo32 b2, ← lo32 b3, ← lo32 b4, ← lo32 b5, ← lo32 b6, ← lo32 b7]
  rfl
theorem add_r8 (a0 a1 a2 a3 a4 a5 a6 a7 b0 b1 b2 b3 b4 b5 b6 b7 : UInt64) :
    _mm512_add_epi64 (r8 a0 a1 a2 a3 a4 a5 a6 a7) (r8 b0 b1 b2 b3 b4 b5 b6 b7) =
      r8 (a0 + b0) (a1 + b1) (a2 + b2) (a3 + b3) (a4 + b4) (a5 + b5) (a6 + b6) (a7 + b7) := rfl
theorem xor_r8 (a0 a1 a2 a3 a4 a5 a6 a7 b0 b1 b2 b3 b4 b5 b6 b7 : UInt64) :
    _mm512_xor_si512 (r8 a0 a1 a2 a3 a4 a5 a6 a7) (r8 b0 b1 b2 b3 b4 b5 b6 b7) =
      r8 (a0 ^^^ b0) (a1 ^^^ b1) (a2 ^^^ b2) (a3 ^^^ b3) (a4 ^^^ b4) (a5 ^^^ b5) (a6 ^^^ b6) (a7 ^^^ b7) := rfl
theorem muladd_r8 (a0 a1 a2 a3 a4 a5 a6 a7 b0 b1 b2 b3 b4 b5 b6 b7 : UInt64) :
    muladd (r8 a0 a1 a2 a3 a4 a5 a6 a7) (r8 b0 b1 b2 b3 b4 b5 b6 b7) =
      r8 (fBlaMka a0 b0) (fBlaMka a1 b1) (fBlaMka a2 b2) (fBlaMka a3 b3) (fBlaMka a4 b4) (fBlaMka a5 b5)
        (fBlaMka a6 b6) (fBlaMka a7 b7) := by
  simp only [muladd, mul_r8, add_r8, fb_sse]

theorem ror32_r8 (a0 a1 a2 a3 a4 a5 a6 a7 : UInt64) : ror64 (r8 a0 a1 a2 a3 a4 a5 a6 a7) 32 =
    r8 (rotr64 a0 32) (rotr64 a1 32) (rotr64 a2 32) (rotr64 a3 32) (rotr64 a4 32) (rotr64 a5 32) (rotr64 a6 32) (rotr64 a7 32) := rfl
theorem ror24_r8 (a0 a1 a2 a3 a4 a5 a6 a7 : UInt64) : ror64 (r8 a0 a1 a2 a3 a4 a5 a6 a7) 24 =
    r8 (rotr64 a0 24) (rotr64 a1 24) (rotr64 a2 24) (rotr64 a3 24) (rotr64 a4 24) (rotr64 a5 24) (rotr64 a6 24) (rotr64 a7 24) := rfl
theorem ror16_r8 (a0 a1 a2 a3 a4 a5 a6 a7 : UInt64) : ror64 (r8 a0 a1 a2 a3 a4 a5 a6 a7) 16 =
    r8 (rotr64 a0 16) (rotr64 a1 16) (rotr64 a2 16) (rotr64 a3 16) (rotr64 a4 16) (rotr64 a5 16) (rotr64 a6 16) (rotr64 a7 16) := rfl
theorem ror63_r8 (a0 a1 a2 a3 a4 a5 a6 a7 : UInt64) : ror64 (r8 a0 a1 a2 a3 a4 a5 a6 a7) 63 =
    r8 (rotr64 a0 63) (rotr64 a1 63) (rotr64 a2 63) (rotr64 a3 63) (rotr64 a4 63) (rotr64 a5 63) (rotr64 a6 63) (rotr64 a7 63) := rfl

theorem G1_r8 (a0 a1 a2 a3 a4 a5 a6 a7 b0 b1 b2 b3 b4 b5 b6 b7 c0 c1 c2 c3 c4 c5 c6 c7 d0 d1 d2 d3 d4 d5 d6 d7 e0 e1 e2 e3 e4 e5 e6 e7 f0 f1 f2 f3 f4 f5 f6 f7 g0 g1 g2 g3 g4 g5 g6 g7 h0 h1 h2 h3 h4 h5 h6 h7 : UInt64) :
    G1_AVX512F ⟨r8 a0 a1 a2 a3 a4 a5 a6 a7, r8 b0 b1 b2 b3 b4 b5 b6 b7, r8 c0 c1 c2 c3 c4 c5 c6 c7, r8 d0 d1 d2 d3 d4 d5 d6 d7, r8 e0 e1 e2 e3 e4 e5 e6 e7, r8 f0 f1 f2 f3 f4 f5 f6 f7, r8 g0 g1 g2 g3 g4 g5 g6 g7, r8 h0 h1 h2 h3 h4 h5 h6 h7⟩ =
      ⟨r8 (gA a0 b0 c0 d0).1 (gA a1 b1 c1 d1).1 (gA a2 b2 c2 d2).1 (gA a3 b3 c3 d3).1 (gA a4 b4 c4 d4).1 (gA a5 b5 c5 d5).1 (gA a6 b6 c6 d6).1 (gA a7 b7 c7 d7).1,
       r8 (gA a0 b0 c0 d0).2.1 (gA a1 b1 c1 d1).2.1 (gA a2 b2 c2 d2).2.1 (gA a3 b3 c3 d3).2.1 (gA a4 b4 c4 d4).2.1 (gA a5 b5 c5 d5).2.1 (gA a6 b6 c6 d6).2.1 (gA a7 b7 c7 d7).2.1,
       r8 (gA a0 b0 c0 d0).2.2.1 (gA a1 b1 c1 d1).2.2.1 (gA a2 b2 c2 d2).2.2.1 (gA a3 b3 c3 d3).2.2.1 (gA a4 b4 c4 d4).2.2.1 (gA a5 b5 c5 d5).2.2.1 (gA a6 b6 c6 d6).2.2.1 (gA a7 b7 c7 d7).2.2.1,
       r8 (gA a0 b0 c0 d0).2.2.2 (gA a1 b1 c1 d1).2.2.2 (gA a2 b2 c2 d2).2.2.2 (gA a3 b3 c3 d3).2.2.2 (gA a4 b4 c4 d4).2.2.2 (gA a5 b5 c5 d5).2.2.2 (gA a6 b6 c6 d6).2.2.2 (gA a7 b7 c7 d7).2.2.2,
       r8 (gA e0 f0 g0 h0).1 (gA e1 f1 g1 h1).1 (gA e2 f2 g2 h2).1 (gA e3 f3 g3 h3).1 (gA e4 f4 g4 h4).1 (gA e5 f5 g5 h5).1 (gA e6 f6 g6 h6).1 (gA e7 f7 g7 h7).1,
       r8 (gA e0 f0 g0 h0).2.1 (gA e1 f1 g1 h1).2.1 (gA e2 f2 g2 h2).2.1 (gA e3 f3 g3 h3).2.1 (gA e4 f4 g4 h4).2.1 (gA e5 f5 g5 h5).2.1 (gA e6 f6 g6 h6).2.1 (gA e7 f7 g7 h7).2.1,
       r8 (gA e0 f0 g0 h0).2.2.1 (gA e1 f1 g1 h1).2.2.1 (gA e2 f2 g2 h2).2.2.1 (gA e3 f3 g3 h3).2.2.1 (gA e4 f4 g4 h4).2.2.1 (gA e5 f5 g5 h5).2.2.1 (gA e6 f6 g6 h6).2.2.1 (gA e7 f7 g7 h7).2.2.1,
       r8 (gA e0 f0 g0 h0).2.2.2 (gA e1 f1 g1 h1).2.2.2 (gA e2 f2 g2 h2).2.2.2 (gA e3 f3 g3 h3).2.2.2 (gA e4 f4 g4 h4).2.2.2 (gA e5 f5 g5 h5).2.2.2 (gA e6 f6 g6 h6).2.2.2 (gA e7 f7 g7 h7).2.2.2⟩ := by
  simp only [G1_AVX512F, muladd_r8, xor_r8, ror32_r8, ror24_r8, gA]

theorem G2_r8 (a0 a1 a2 a3 a4 a5 a6 a7 b0 b1 b2 b3 b4 b5 b6 b7 c0 c1 c2 c3 c4 c5 c6 c7 d0 d1 d2 d3 d4 d5 d6 d7 e0 e1 e2 e3 e4 e5 e6 e7 f0 f1 f2 f3 f4 f5 f6 f7 g0 g1 g2 g3 g4 g5 g6 g7 h0 h1 h2 h3 h4 h5 h6 h7 : UInt64) :
    G2_AVX512F ⟨r8 a0 a1 a2 a3 a4 a5 a6 a7, r8 b0 b1 b2 b3 b4 b5 b6 b7, r8 c0 c1 c2 c3 c4 c5 c6 c7, r8 d0 d1 d2 d3 d4 d5 d6 d7, r8 e0 e1 e2 e3 e4 e5 e6 e7, r8 f0 f1 f2 f3 f4 f5 f6 f7, r8 g0 g1 g2 g3 g4 g5 g6 g7, r8 h0 h1 h2 h3 h4 h5 h6 h7⟩ =
      ⟨r8 (gB a0 b0 c0 d0).1 (gB a1 b1 c1 d1).1 (gB a2 b2 c2 d2).1 (gB a3 b3 c3 d3).1 (gB a4 b4 c4 d4).1 (gB a5 b5 c5 d5).1 (gB a6 b6 c6 d6).1 (gB a7 b7 c7 d7).1,
       r8 (gB a0 b0 c0 d0).2.1 (gB a1 b1 c1 d1).2.1 (gB a2 b2 c2 d2).2.1 (gB a3 b3 c3 d3).2.1 (gB a4 b4 c4 d4).2.1 (gB a5 b5 c5 d5).2.1 (gB a6 b6 c6 d6).2.1 (gB a7 b7 c7 d7).2.1,
       r8 (gB a0 b0 c0 d0).2.2.1 (gB a1 b1 c1 d1).2.2.1 (gB a2 b2 c2 d2).2.2.1 (gB a3 b3 c3 d3).2.2.1 (gB a4 b4 c4 d4).2.2.1 (gB a5 b5 c5 d5).2.2.1 (gB a6 b6 c6 d6).2.2.1 (gB a7 b7 c7 d7).2.2.1,
       r8 (gB a0 b0 c0 d0).2.2.2 (gB a1 b1 c1 d1).2.2.2 (gB a2 b2 c2 d2).2.2.2 (gB a3 b3 c3 d3).2.2.2 (gB a4 b4 c4 d4).2.2.2 (gB a5 b5 c5 d5).2.2.2 (gB a6 b6 c6 d6).2.2.2 (gB a7 b7 c7 d7).2.2.2,
       r8 (gB e0 f0 g0 h0).1 (gB e1 f1 g1 h1).1 (gB e2 f2 g2 h2).1 (gB e3 f3 g3 h3).1 (gB e4 f4 g4 h4).1 (gB e5 f5 g5 h5).1 (gB e6 f6 g6 h6).1 (gB e7 f7 g7 h7).1,
       r8 (gB e0 f0 g0 h0).2.1 (gB e1 f1 g1 h1).2.1 (gB e2 f2 g2 h2).2.1 (gB e3 f3 g3 h3).2.1 (gB e4 f4 g4 h4).2.1 (gB e5 f5 g5 h5).2.1 (gB e6 f6 g6 h6).2.1 (gB e7 f7 g7 h7).2.1,
       r8 (gB e0 f0 g0 h0).2.2.1 (gB e1 f1 g1 h1).2.2.1 (gB e2 f2 g2 h2).2.2.1 (gB e3 f3 g3 h3).2.2.1 (gB e4 f4 g4 h4).2.2.1 (gB e5 f5 g5 h5).2.2.1 (gB e6 f6 g6 h6).2.2.1 (gB e7 f7 g7 h7).2.2.1,
       r8 (gB e0 f0 g0 h0).2.2.2 (gB e1 f1 g1 h1).2.2.2 (gB e2 f2 g2 h2).2.2.2 (gB e3 f3 g3 h3).2.2.2 (gB e4 f4 g4 h4).2.2.2 (gB e5 f5 g5 h5).2.2.2 (gB e6 f6 g6 h6).2.2.2 (gB e7 f7 g7 h7).2.2.2⟩ := by
  simp only [G2_AVX512F, muladd_r8, xor_r8, ror16_r8, ror63_r8, gB]

theorem G12_r8 (a0 a1 a2 a3 a4 a5 a6 a7 b0 b1 b2 b3 b4 b5 b6 b7 c0 c1 c2 c3 c4 c5 c6 c7 d0 d1 d2 d3 d4 d5 d6 d7 e0 e1 e2 e3 e4 e5 e6 e7 f0 f1 f2 f3 f4 f5 f6 f7 g0 g1 g2 g3 g4 g5 g6 g7 h0 h1 h2 h3 h4 h5 h6 h7 : UInt64) :
    G2_AVX512F (G1_AVX512F ⟨r8 a0 a1 a2 a3 a4 a5 a6 a7, r8 b0 b1 b2 b3 b4 b5 b6 b7, r8 c0 c1 c2 c3 c4 c5 c6 c7, r8 d0 d1 d2 d3 d4 d5 d6 d7, r8 e0 e1 e2 e3 e4 e5 e6 e7, r8 f0 f1 f2 f3 f4 f5 f6 f7, r8 g0 g1 g2 g3 g4 g5 g6 g7, r8 h0 h1 h2 h3 h4 h5 h6 h7⟩) =
      ⟨r8 (Argon2Ref.G a0 b0 c0 d0).1 (Argon2Ref.G a1 b1 c1 d1).1 (Argon2Ref.G a2 b2 c2 d2).1 (Argon2Ref.G a3 b3 c3 d3).1 (Argon2Ref.G a4 b4 c4 d4).1 (Argon2Ref.G a5 b5 c5 d5).1 (Argon2Ref.G a6 b6 c6 d6).1 (Argon2Ref.G a7 b7 c7 d7).1,
       r8 (Argon2Ref.G a0 b0 c0 d0).2.1 (Argon2Ref.G a1 b1 c1 d1).2.1 (Argon2Ref.G a2 b2 c2 d2).2.1 (Argon2Ref.G a3 b3 c3 d3).2.1 (Argon2Ref.G a4 b4 c4 d4).2.1 (Argon2Ref.G a5 b5 c5 d5).2.1 (Argon2Ref.G a6 b6 c6 d6).2.1 (Argon2Ref.G a7 b7 c7 d7).2.1,
       r8 (Argon2Ref.G a0 b0 c0 d0).2.2.1 (Argon2Ref.G a1 b1 c1 d1).2.2.1 (Argon2Ref.G a2 b2 c2 d2).2.2.1 (Argon2Ref.G a3 b3 c3 d3).2.2.1 (Argon2Ref.G a4 b4 c4 d4).2.2.1 (Argon2Ref.G a5 b5 c5 d5).2.2.1 (Argon2Ref.G a6 b6 c6 d6).2.2.1 (Argon2Ref.G a7 b7 c7 d7).2.2.1,
       r8 (Argon2Ref.G a0 b0 c0 d0).2.2.2 (Argon2Ref.G a1 b1 c1 d1).2.2.2 (Argon2Ref.G a2 b2 c2 d2).2.2.2 (Argon2Ref.G a3 b3 c3 d3).2.2.2 (Argon2Ref.G a4 b4 c4 d4).2.2.2 (Argon2Ref.G a5 b5 c5 d5).2.2.2 (Argon2Ref.G a6 b6 c6 d6).2.2.2 (Argon2Ref.G a7 b7 c7 d7).2.2.2,
       r8 (Argon2Ref.G e0 f0 g0 h0).1 (Argon2Ref.G e1 f1 g1 h1).1 (Argon2Ref.G e2 f2 g2 h2).1 (Argon2Ref.G e3 f3 g3 h3).1 (Argon2Ref.G e4 f4 g4 h4).1 (Argon2Ref.G e5 f5 g5 h5).1 (Argon2Ref.G e6 f6 g6 h6).1 (Argon2Ref.G e7 f7 g7 h7).1,
       r8 (Argon2Ref.G e0 f0 g0 h0).2.1 (Argon2Ref.G e1 f1 g1 h1).2.1 (Argon2Ref.G e2 f2 g2 h2).2.1 (Argon2Ref.G e3 f3 g3 h3).2.1 (Argon2Ref.G e4 f4 g4 h4).2.1 (Argon2Ref.G e5 f5 g5 h5).2.1 (Argon2Ref.G e6 f6 g6 h6).2.1 (Argon2Ref.G e7 f7 g7 h7).2.1,
       r8 (Argon2Ref.G e0 f0 g0 h0).2.2.1 (Argon2Ref.G e1 f1 g1 h1).2.2.1 (Argon2Ref.G e2 f2 g2 h2).2.2.1 (Argon2Ref.G e3 f3 g3 h3).2.2.1 (Argon2Ref.G e4 f4 g4 h4).2.2.1 (Argon2Ref.G e5 f5 g5 h5).2.2.1 (Argon2Ref.G e6 f6 g6 h6).2.2.1 (Argon2Ref.G e7 f7 g7 h7).2.2.1,
       r8 (Argon2Ref.G e0 f0 g0 h0).2.2.2 (Argon2Ref.G e1 f1 g1 h1).2.2.2 (Argon2Ref.G e2 f2 g2 h2).2.2.2 (Argon2Ref.G e3 f3 g3 h3).2.2.2 (Argon2Ref.G e4 f4 g4 h4).2.2.2 (Argon2Ref.G e5 f5 g5 h5).2.2.2 (Argon2Ref.G e6 f6 g6 h6).2.2.2 (Argon2Ref.G e7 f7 g7 h7).2.2.2⟩ := by
  simp only [G1_r8, G2_r8, G_eq]

theorem DIAG_r8 (a0 a1 a2 a3 a4 a5 a6 a7 b0 b1 b2 b3 b4 b5 b6 b7 c0 c1 c2 c3 c4 c5 c6 c7 d0 d1 d2 d3 d4 d5 d6 d7 e0 e1 e2 e3 e4 e5 e6 e7 f0 f1 f2 f3 f4 f5 f6 f7 g0 g1 g2 g3 g4 g5 g6 g7 h0 h1 h2 h3 h4 h5 h6 h7 : UInt64) :
    DIAGONALIZE ⟨r8 a0 a1 a2 a3 a4 a5 a6 a7, r8 b0 b1 b2 b3 b4 b5 b6 b7, r8 c0 c1 c2 c3 c4 c5 c6 c7, r8 d0 d1 d2 d3 d4 d5 d6 d7, r8 e0 e1 e2 e3 e4 e5 e6 e7, r8 f0 f1 f2 f3 f4 f5 f6 f7, r8 g0 g1 g2 g3 g4 g5 g6 g7, r8 h0 h1 h2 h3 h4 h5 h6 h7⟩ =
      ⟨r8 a0 a1 a2 a3 a4 a5 a6 a7, r8 b1 b2 b3 b0 b5 b6 b7 b4, r8 c2 c3 c0 c1 c6 c7 c4 c5, r8 d3 d0 d1 d2 d7 d4 d5 d6, r8 e0 e1 e2 e3 e4 e5 e6 e7, r8 f1 f2 f3 f0 f5 f6 f7 f4, r8 g2 g3 g0 g1 g6 g7 g4 g5, r8 h3 h0 h1 h2 h7 h4 h5 h6⟩ := rfl

theorem UNDIAG_r8 (a0 a1 a2 a3 a4 a5 a6 a7 b0 b1 b2 b3 b4 b5 b6 b7 c0 c1 c2 c3 c4 c5 c6 c7 d0 d1 d2 d3 d4 d5 d6 d7 e0 e1 e2 e3 e4 e5 e6 e7 f0 f1 f2 f3 f4 f5 f6 f7 g0 g1 g2 g3 g4 g5 g6 g7 h0 h1 h2 h3 h4 h5 h6 h7 : UInt64) :
    UNDIAGONALIZE ⟨r8 a0 a1 a2 a3 a4 a5 a6 a7, r8 b0 b1 b2 b3 b4 b5 b6 b7, r8 c0 c1 c2 c3 c4 c5 c6 c7, r8 d0 d1 d2 d3 d4 d5 d6 d7, r8 e0 e1 e2 e3 e4 e5 e6 e7, r8 f0 f1 f2 f3 f4 f5 f6 f7, r8 g0 g1 g2 g3 g4 g5 g6 g7, r8 h0 h1 h2 h3 h4 h5 h6 h7⟩ =
      ⟨r8 a0 a1 a2 a3 a4 a5 a6 a7, r8 b3 b0 b1 b2 b7 b4 b5 b6, r8 c2 c3 c0 c1 c6 c7 c4 c5, r8 d1 d2 d3 d0 d5 d6 d7 d4, r8 e0 e1 e2 e3 e4 e5 e6 e7, r8 f3 f0 f1 f2 f7 f4 f5 f6, r8 g2 g3 g0 g1 g6 g7 g4 g5, r8 h1 h2 h3 h0 h5 h6 h7 h4⟩ := rfl

/-- `BLAKE2_ROUND`: each 256-bit half of (A0, B0, C0, D0) and of (A1, B1, C1, D1) is one group of 16 words -/
theorem ROUND_r8 (a0 a1 a2 a3 a4 a5 a6 a7 b0 b1 b2 b3 b4 b5 b6 b7 c0 c1 c2 c3 c4 c5 c6 c7 d0 d1 d2 d3 d4 d5 d6 d7 e0 e1 e2 e3 e4 e5 e6 e7 f0 f1 f2 f3 f4 f5 f6 f7 g0 g1 g2 g3 g4 g5 g6 g7 h0 h1 h2 h3 h4 h5 h6 h7 : UInt64) :
    BLAKE2_ROUND ⟨r8 a0 a1 a2 a3 a4 a5 a6 a7, r8 b0 b1 b2 b3 b4 b5 b6 b7, r8 c0 c1 c2 c3 c4 c5 c6 c7, r8 d0 d1 d2 d3 d4 d5 d6 d7, r8 e0 e1 e2 e3 e4 e5 e6 e7, r8 f0 f1 f2 f3 f4 f5 f6 f7, r8 g0 g1 g2 g3 g4 g5 g6 g7, r8 h0 h1 h2 h3 h4 h5 h6 h7⟩ =
      (let x1 := BLAKE2_ROUND_NOMSG a0 a1 a2 a3 b0 b1 b2 b3 c0 c1 c2 c3 d0 d1 d2 d3
       let x2 := BLAKE2_ROUND_NOMSG a4 a5 a6 a7 b4 b5 b6 b7 c4 c5 c6 c7 d4 d5 d6 d7
       let x3 := BLAKE2_ROUND_NOMSG e0 e1 e2 e3 f0 f1 f2 f3 g0 g1 g2 g3 h0 h1 h2 h3
       let x4 := BLAKE2_ROUND_NOMSG e4 e5 e6 e7 f4 f5 f6 f7 g4 g5 g6 g7 h4 h5 h6 h7
       ⟨r8 x1.v0 x1.v1 x1.v2 x1.v3 x2.v0 x2.v1 x2.v2 x2.v3, r8 x1.v4 x1.v5 x1.v6 x1.v7 x2.v4 x2.v5 x2.v6 x2.v7, r8 x1.v8 x1.v9 x1.v10 x1.v11 x2.v8 x2.v9 x2.v10 x2.v11, r8 x1.v12 x1.v13 x1.v14 x1.v15 x2.v12 x2.v13 x2.v14 x2.v15, r8 x3.v0 x3.v1 x3.v2 x3.v3 x4.v0 x4.v1 x4.v2 x4.v3, r8 x3.v4 x3.v5 x3.v6 x3.v7 x4.v4 x4.v5 x4.v6 x4.v7, r8 x3.v8 x3.v9 x3.v10 x3.v11 x4.v8 x4.v9 x4.v10 x4.v11, r8 x3.v12 x3.v13 x3.v14 x3.v15 x4.v12 x4.v13 x4.v14 x4.v15⟩) := by
  simp only [BLAKE2_ROUND, G12_r8, DIAG_r8, UNDIAG_r8]
  rfl

theorem SWAP_HALVES_r8 (a0 a1 a2 a3 a4 a5 a6 a7 b0 b1 b2 b3 b4 b5 b6 b7 : UInt64) :
    SWAP_HALVES (r8 a0 a1 a2 a3 a4 a5 a6 a7) (r8 b0 b1 b2 b3 b4 b5 b6 b7) = (r8 a0 a1 a2 a3 b0 b1 b2 b3, r8 a4 a5 a6 a7 b4 b5 b6 b7) := rfl
theorem SWAP_QUARTERS_r8 (a0 a1 a2 a3 a4 a5 a6 a7 b0 b1 b2 b3 b4 b5 b6 b7 : UInt64) :
    SWAP_QUARTERS (r8 a0 a1 a2 a3 a4 a5 a6 a7) (r8 b0 b1 b2 b3 b4 b5 b6 b7) = (r8 a0 a1 b0 b1 a2 a3 b2 b3, r8 a4 a5 b4 b5 a6 a7 b6 b7) := rfl
theorem UNSWAP_QUARTERS_r8 (a0 a1 a2 a3 a4 a5 a6 a7 b0 b1 b2 b3 b4 b5 b6 b7 : UInt64) :
    UNSWAP_QUARTERS (r8 a0 a1 a2 a3 a4 a5 a6 a7) (r8 b0 b1 b2 b3 b4 b5 b6 b7) = (r8 a0 a1 a4 a5 b0 b1 b4 b5, r8 a2 a3 a6 a7 b2 b3 b6 b7) := rfl

/-- `BLAKE2_ROUND_1` on eight consecutive registers `a … h` of `state`: four groups of 16 consecutive words -/
theorem ROUND_1_r8 (a0 a1 a2 a3 a4 a5 a6 a7 b0 b1 b2 b3 b4 b5 b6 b7 c0 c1 c2 c3 c4 c5 c6 c7 d0 d1 d2 d3 d4 d5 d6 d7 e0 e1 e2 e3 e4 e5 e6 e7 f0 f1 f2 f3 f4 f5 f6 f7 g0 g1 g2 g3 g4 g5 g6 g7 h0 h1 h2 h3 h4 h5 h6 h7 : UInt64) :
    BLAKE2_ROUND_1 ⟨r8 a0 a1 a2 a3 a4 a5 a6 a7, r8 c0 c1 c2 c3 c4 c5 c6 c7, r8 b0 b1 b2 b3 b4 b5 b6 b7, r8 d0 d1 d2 d3 d4 d5 d6 d7, r8 e0 e1 e2 e3 e4 e5 e6 e7, r8 g0 g1 g2 g3 g4 g5 g6 g7, r8 f0 f1 f2 f3 f4 f5 f6 f7, r8 h0 h1 h2 h3 h4 h5 h6 h7⟩ =
      (let x1 := BLAKE2_ROUND_NOMSG a0 a1 a2 a3 a4 a5 a6 a7 b0 b1 b2 b3 b4 b5 b6 b7
       let x2 := BLAKE2_ROUND_NOMSG c0 c1 c2 c3 c4 c5 c6 c7 d0 d1 d2 d3 d4 d5 d6 d7
       let x3 := BLAKE2_ROUND_NOMSG e0 e1 e2 e3 e4 e5 e6 e7 f0 f1 f2 f3 f4 f5 f6 f7
       let x4 := BLAKE2_ROUND_NOMSG g0 g1 g2 g3 g4 g5 g6 g7 h0 h1 h2 h3 h4 h5 h6 h7
       ⟨r8 x1.v0 x1.v1 x1.v2 x1.v3 x1.v4 x1.v5 x1.v6 x1.v7, r8 x2.v0 x2.v1 x2.v2 x2.v3 x2.v4 x2.v5 x2.v6 x2.v7, r8 x1.v8 x1.v9 x1.v10 x1.v11 x1.v12 x1.v13 x1.v14 x1.v15, r8 x2.v8 x2.v9 x2.v10 x2.v11 x2.v12 x2.v13 x2.v14 x2.v15, r8 x3.v0 x3.v1 x3.v2 x3.v3 x3.v4 x3.v5 x3.v6 x3.v7, r8 x4.v0 x4.v1 x4.v2 x4.v3 x4.v4 x4.v5 x4.v6 x4.v7, r8 x3.v8 x3.v9 x3.v10 x3.v11 x3.v12 x3.v13 x3.v14 x3.v15, r8 x4.v8 x4.v9 x4.v10 x4.v11 x4.v12 x4.v13 x4.v14 x4.v15⟩) := by
  simp only [BLAKE2_ROUND_1, SWAP_HALVES_r8, ROUND_r8]

/-- `BLAKE2_ROUND_2` on the registers `a … h` = `state[2 * t + i]`: lanes 2m, 2m+1 of the eight registers are one group -/
theorem ROUND_2_r8 (a0 a1 a2 a3 a4 a5 a6 a7 b0 b1 b2 b3 b4 b5 b6 b7 c0 c1 c2 c3 c4 c5 c6 c7 d0 d1 d2 d3 d4 d5 d6 d7 e0 e1 e2 e3 e4 e5 e6 e7 f0 f1 f2 f3 f4 f5 f6 f7 g0 g1 g2 g3 g4 g5 g6 g7 h0 h1 h2 h3 h4 h5 h6 h7 : UInt64) :
    BLAKE2_ROUND_2 ⟨r8 a0 a1 a2 a3 a4 a5 a6 a7, r8 c0 c1 c2 c3 c4 c5 c6 c7, r8 e0 e1 e2 e3 e4 e5 e6 e7, r8 g0 g1 g2 g3 g4 g5 g6 g7, r8 b0 b1 b2 b3 b4 b5 b6 b7, r8 d0 d1 d2 d3 d4 d5 d6 d7, r8 f0 f1 f2 f3 f4 f5 f6 f7, r8 h0 h1 h2 h3 h4 h5 h6 h7⟩ =
      (let x1 := BLAKE2_ROUND_NOMSG a0 a1 b0 b1 c0 c1 d0 d1 e0 e1 f0 f1 g0 g1 h0 h1
       let x2 := BLAKE2_ROUND_NOMSG a2 a3 b2 b3 c2 c3 d2 d3 e2 e3 f2 f3 g2 g3 h2 h3
       let x3 := BLAKE2_ROUND_NOMSG a4 a5 b4 b5 c4 c5 d4 d5 e4 e5 f4 f5 g4 g5 h4 h5
       let x4 := BLAKE2_ROUND_NOMSG a6 a7 b6 b7 c6 c7 d6 d7 e6 e7 f6 f7 g6 g7 h6 h7
       ⟨r8 x1.v0 x1.v1 x2.v0 x2.v1 x3.v0 x3.v1 x4.v0 x4.v1, r8 x1.v4 x1.v5 x2.v4 x2.v5 x3.v4 x3.v5 x4.v4 x4.v5, r8 x1.v8 x1.v9 x2.v8 x2.v9 x3.v8 x3.v9 x4.v8 x4.v9, r8 x1.v12 x1.v13 x2.v12 x2.v13 x3.v12 x3.v13 x4.v12 x4.v13, r8 x1.v2 x1.v3 x2.v2 x2.v3 x3.v2 x3.v3 x4.v2 x4.v3, r8 x1.v6 x1.v7 x2.v6 x2.v7 x3.v6 x3.v7 x4.v6 x4.v7, r8 x1.v10 x1.v11 x2.v10 x2.v11 x3.v10 x3.v11 x4.v10 x4.v11, r8 x1.v14 x1.v15 x2.v14 x2.v15 x3.v14 x3.v15 x4.v14 x4.v15⟩) := by
  simp only [BLAKE2_ROUND_2, SWAP_QUARTERS_r8, UNSWAP_QUARTERS_r8, ROUND_r8]

/-- `__m512i state[16]` as a block -/
@[reducible] def R512 : Rep M512 :=
  { l := 8, n := 16, lane := M512.epi64, pack := M512.ofEpi64, hln := rfl
    lane_pack := by
      intro f e he
      have : e = 0 ∨ e = 1 ∨ e = 2 ∨ e = 3 ∨ e = 4 ∨ e = 5 ∨ e = 6 ∨ e = 7 := by omega
      rcases this with rfl | rfl | rfl | rfl | rfl | rfl | rfl | rfl <;> rfl
    pack_lane := fun x => rfl
    pack_congr := by
      intro f g h
      show r8 (f 0) (f 1) (f (0 + 2)) (f (1 + 2)) (f (0 + 4)) (f (1 + 4)) (f (0 + 2 + 4)) (f (1 + 2 + 4)) =
        r8 (g 0) (g 1) (g (0 + 2)) (g (1 + 2)) (g (0 + 4)) (g (1 + 4)) (g (0 + 2 + 4)) (g (1 + 2 + 4))
      rw [h 0 (by decide), h 1 (by decide), h (0 + 2) (by decide), h (1 + 2) (by decide), h (0 + 4) (by decide),
        h (1 + 4) (by decide), h (0 + 2 + 4) (by decide), h (1 + 2 + 4) (by decide)] }

/-- the register `BLAKE2_ROUND_1` leaves in `state[8 * i + t]` (formals A0, C0, B0, D0, A1, C1, B1, D1) -/
def r1get (r : V8) (t : Nat) : M512 :=
  match t with
  | 0 => r.A0 | 1 => r.C0 | 2 => r.B0 | 3 => r.D0 | 4 => r.A1 | 5 => r.C1 | 6 => r.B1 | _ => r.D1
/-- the register `BLAKE2_ROUND_2` leaves in `state[2 * t + i]` (formals A0, A1, B0, B1, C0, C1, D0, D1) -/
def r2get (r : V8) (t : Nat) : M512 :=
  match t with
  | 0 => r.A0 | 1 => r.A1 | 2 => r.B0 | 3 => r.B1 | 4 => r.C0 | 5 => r.C1 | 6 => r.D0 | _ => r.D1

theorem round_1_at_eq (i : Nat) (s : Array M512) :
    round_1_at i s = set8 s (fun c => 8 * i + c) (r1get (BLAKE2_ROUND_1
      { A0 := s[8 * i + 0]!, C0 := s[8 * i + 1]!, B0 := s[8 * i + 2]!, D0 := s[8 * i + 3]!,
        A1 := s[8 * i + 4]!, C1 := s[8 * i + 5]!, B1 := s[8 * i + 6]!, D1 := s[8 * i + 7]! })) := rfl

theorem round_2_at_eq (i : Nat) (s : Array M512) :
    round_2_at i s = set8 s (fun c => 2 * c + i) (r2get (BLAKE2_ROUND_2
      { A0 := s[2 * 0 + i]!, A1 := s[2 * 1 + i]!, B0 := s[2 * 2 + i]!, B1 := s[2 * 3 + i]!,
        C0 := s[2 * 4 + i]!, C1 := s[2 * 5 + i]!, D0 := s[2 * 6 + i]!, D1 := s[2 * 7 + i]! })) := rfl

/-- the words `BLAKE2_ROUND_1` leaves in the eight registers `x 0 … x 7` (in `state` order) -/
theorem ROUND_1_words (x : Nat → M512) (t e : Nat) (ht : t < 8) (he : e < 8) :
    (r1get (BLAKE2_ROUND_1 { A0 := x 0, C0 := x 1, B0 := x 2, D0 := x 3, A1 := x 4, C1 := x 5, B1 := x 6, D1 := x 7 })
      t).epi64 e = v16get (N16 fun c => (x (2 * (t / 2) + c / 8)).epi64 (c % 8)) (8 * (t % 2) + e) := by
  have key : BLAKE2_ROUND_1 { A0 := x 0, C0 := x 1, B0 := x 2, D0 := x 3, A1 := x 4, C1 := x 5, B1 := x 6, D1 := x 7 } = _ :=
    ROUND_1_r8 ((x 0).epi64 0) ((x 0).epi64 1) ((x 0).epi64 2) ((x 0).epi64 3) ((x 0).epi64 4) ((x 0).epi64 5) ((x 0).epi64 6) ((x 0).epi64 7) ((x 1).epi64 0) ((x 1).epi64 1) ((x 1).epi64 2) ((x 1).epi64 3) ((x 1).epi64 4) ((x 1).epi64 5) ((x 1).epi64 6) ((x 1).epi64 7) ((x 2).epi64 0) ((x 2).epi64 1) ((x 2).epi64 2) ((x 2).epi64 3) ((x 2).epi64 4) ((x 2).epi64 5) ((x 2).epi64 6) ((x 2).epi64 7) ((x 3).epi64 0) ((x 3).epi64 1) ((x 3).epi64 2) ((x 3).epi64 3) ((x 3).epi64 4) ((x 3).epi64 5) ((x 3).epi64 6) ((x 3).epi64 7) ((x 4).epi64 0) ((x 4).epi64 1) ((x 4).epi64 2) ((x 4).epi64 3) ((x 4).epi64 4) ((x 4).epi64 5) ((x 4).epi64 6) ((x 4).epi64 7) ((x 5).epi64 0) ((x 5).epi64 1) ((x 5).epi64 2) ((x 5).epi64 3) ((x 5).epi64 4) ((x 5).epi64 5) ((x 5).epi64 6) ((x 5).epi64 7) ((x 6).epi64 0) ((x 6).epi64 1) ((x 6).epi64 2) ((x 6).epi64 3) ((x 6).epi64 4) ((x 6).epi64 5) ((x 6).epi64 6) ((x 6).epi64 7) ((x 7).epi64 0) ((x 7).epi64 1) ((x 7).epi64 2) ((x 7).epi64 3) ((x 7).epi64 4) ((x 7).epi64 5) ((x 7).epi64 6) ((x 7).epi64 7)
  rw [key]
  have h1 : t = 0 ∨ t = 1 ∨ t = 2 ∨ t = 3 ∨ t = 4 ∨ t = 5 ∨ t = 6 ∨ t = 7 := by omega
  have h2 : e = 0 ∨ e = 1 ∨ e = 2 ∨ e = 3 ∨ e = 4 ∨ e = 5 ∨ e = 6 ∨ e = 7 := by omega
  rcases h1 with rfl | rfl | rfl | rfl | rfl | rfl | rfl | rfl <;>
    rcases h2 with rfl | rfl | rfl | rfl | rfl | rfl | rfl | rfl <;> rfl

/-- the words `BLAKE2_ROUND_2` leaves in the eight registers `x 0 … x 7` (`x t = state[2 * t + i]`) -/
theorem ROUND_2_words (x : Nat → M512) (t e : Nat) (ht : t < 8) (he : e < 8) :
    (r2get (BLAKE2_ROUND_2 { A0 := x 0, A1 := x 1, B0 := x 2, B1 := x 3, C0 := x 4, C1 := x 5, D0 := x 6, D1 := x 7 })
      t).epi64 e = v16get (N16 fun c => (x (c / 2)).epi64 (2 * (e / 2) + c % 2)) (2 * t + e % 2) := by
  have key : BLAKE2_ROUND_2 { A0 := x 0, A1 := x 1, B0 := x 2, B1 := x 3, C0 := x 4, C1 := x 5, D0 := x 6, D1 := x 7 } = _ :=
    ROUND_2_r8 ((x 0).epi64 0) ((x 0).epi64 1) ((x 0).epi64 2) ((x 0).epi64 3) ((x 0).epi64 4) ((x 0).epi64 5) ((x 0).epi64 6) ((x 0).epi64 7) ((x 1).epi64 0) ((x 1).epi64 1) ((x 1).epi64 2) ((x 1).epi64 3) ((x 1).epi64 4) ((x 1).epi64 5) ((x 1).epi64 6) ((x 1).epi64 7) ((x 2).epi64 0) ((x 2).epi64 1) ((x 2).epi64 2) ((x 2).epi64 3) ((x 2).epi64 4) ((x 2).epi64 5) ((x 2).epi64 6) ((x 2).epi64 7) ((x 3).epi64 0) ((x 3).epi64 1) ((x 3).epi64 2) ((x 3).epi64 3) ((x 3).epi64 4) ((x 3).epi64 5) ((x 3).epi64 6) ((x 3).epi64 7) ((x 4).epi64 0) ((x 4).epi64 1) ((x 4).epi64 2) ((x 4).epi64 3) ((x 4).epi64 4) ((x 4).epi64 5) ((x 4).epi64 6) ((x 4).epi64 7) ((x 5).epi64 0) ((x 5).epi64 1) ((x 5).epi64 2) ((x 5).epi64 3) ((x 5).epi64 4) ((x 5).epi64 5) ((x 5).epi64 6) ((x 5).epi64 7) ((x 6).epi64 0) ((x 6).epi64 1) ((x 6).epi64 2) ((x 6).epi64 3) ((x 6).epi64 4) ((x 6).epi64 5) ((x 6).epi64 6) ((x 6).epi64 7) ((x 7).epi64 0) ((x 7).epi64 1) ((x 7).epi64 2) ((x 7).epi64 3) ((x 7).epi64 4) ((x 7).epi64 5) ((x 7).epi64 6) ((x 7).epi64 7)
  rw [key]
  have h1 : t = 0 ∨ t = 1 ∨ t = 2 ∨ t = 3 ∨ t = 4 ∨ t = 5 ∨ t = 6 ∨ t = 7 := by omega
  have h2 : e = 0 ∨ e = 1 ∨ e = 2 ∨ e = 3 ∨ e = 4 ∨ e = 5 ∨ e = 6 ∨ e = 7 := by omega
  rcases h1 with rfl | rfl | rfl | rfl | rfl | rfl | rfl | rfl <;>
    rcases h2 with rfl | rfl | rfl | rfl | rfl | rfl | rfl | rfl <;> rfl

/-- one iteration of the first loop = four iterations of the first reference loop -/
theorem sim1 (s : Array M512) (hs : s.size = 16) (i : Nat) (hi : i < 2) :
    toBlock R512 (round_1_at i s) =
      forLoop (fun i b => roundIdx b (rowIdx i)) 4 (4 * i) (toBlock R512 s) := by
  have hB : (toBlock R512 s).size = 128 := size_toBlock _ _
  have hBk : ∀ k, k < 128 → (toBlock R512 s)[k]! = (s[k / 8]!).epi64 (k % 8) := fun k hk => toBlock_get R512 s k hk
  have hsz : (forLoop (fun i b => roundIdx b (rowIdx i)) 4 (4 * i) (toBlock R512 s)).size = 128 := by
    simp only [forLoop, size_roundIdx, hB]
  apply ext!
  · rw [size_toBlock, hsz]
  · intro k hk
    rw [size_toBlock] at hk
    rw [toBlock_get R512 _ k hk, round_1_at_eq, rows_get 4 _ (4 * i) hB (by omega) k hk]
    show M512.epi64 (set8 s _ _)[k / 8]! (k % 8) = _
    by_cases hq : k / 64 = i
    · generalize ht : k / 8 % 8 = t
      generalize he : k % 8 = e
      have hreg := set8_hit s (fun c => 8 * i + c) (r1get (BLAKE2_ROUND_1
        { A0 := s[8 * i + 0]!, C0 := s[8 * i + 1]!, B0 := s[8 * i + 2]!, D0 := s[8 * i + 3]!,
          A1 := s[8 * i + 4]!, C1 := s[8 * i + 5]!, B1 := s[8 * i + 6]!, D1 := s[8 * i + 7]! }))
        (by intro c d _ _ h; omega) (by intro c hc; omega) t (by omega)
      rw [show k / 8 = 8 * i + t by omega, hreg]
      have hw := ROUND_1_words (fun j => s[8 * i + j]!) t e (by omega) (by omega)
      rw [hw, if_pos (by omega), show 8 * (t % 2) + e = k % 16 by omega]
      refine congrArg (fun r => v16get r (k % 16)) (N16_congr _ _ ?_)
      intro c hc
      unfold rowIdx
      rw [hBk _ (by omega), show (16 * (k / 16) + c) / 8 = 8 * i + (2 * (t / 2) + c / 8) by omega,
        show (16 * (k / 16) + c) % 8 = c % 8 by omega]
    · rw [set8_miss _ _ _ _ (by intro c hc; omega), if_neg (by omega), hBk k hk]

/-- one iteration of the second loop = four iterations of the second reference loop -/
theorem sim2 (s : Array M512) (hs : s.size = 16) (i : Nat) (hi : i < 2) :
    toBlock R512 (round_2_at i s) =
      forLoop (fun i b => roundIdx b (colIdx i)) 4 (4 * i) (toBlock R512 s) := by
  have hB : (toBlock R512 s).size = 128 := size_toBlock _ _
  have hBk : ∀ k, k < 128 → (toBlock R512 s)[k]! = (s[k / 8]!).epi64 (k % 8) := fun k hk => toBlock_get R512 s k hk
  have hsz : (forLoop (fun i b => roundIdx b (colIdx i)) 4 (4 * i) (toBlock R512 s)).size = 128 := by
    simp only [forLoop, size_roundIdx, hB]
  apply ext!
  · rw [size_toBlock, hsz]
  · intro k hk
    rw [size_toBlock] at hk
    rw [toBlock_get R512 _ k hk, round_2_at_eq, cols_get 4 _ (4 * i) hB (by omega) k hk]
    show M512.epi64 (set8 s _ _)[k / 8]! (k % 8) = _
    by_cases hq : k % 16 / 8 = i
    · generalize ht : k / 16 = t
      generalize he : k % 8 = e
      have hreg := set8_hit s (fun c => 2 * c + i) (r2get (BLAKE2_ROUND_2
        { A0 := s[2 * 0 + i]!, A1 := s[2 * 1 + i]!, B0 := s[2 * 2 + i]!, B1 := s[2 * 3 + i]!,
          C0 := s[2 * 4 + i]!, C1 := s[2 * 5 + i]!, D0 := s[2 * 6 + i]!, D1 := s[2 * 7 + i]! }))
        (by intro c d _ _ h; omega) (by intro c hc; omega) t (by omega)
      rw [show k / 8 = 2 * t + i by omega, hreg]
      have hw := ROUND_2_words (fun j => s[2 * j + i]!) t e (by omega) (by omega)
      rw [hw, if_pos (by omega), show 2 * t + e % 2 = 2 * t + k % 2 by omega]
      refine congrArg (fun r => v16get r (2 * t + k % 2)) (N16_congr _ _ ?_)
      intro c hc
      unfold colIdx
      rw [hBk _ (by omega), show (2 * (k % 16 / 2) + 16 * (c / 2) + c % 2) / 8 = 2 * (c / 2) + i by omega,
        show (2 * (k % 16 / 2) + 16 * (c / 2) + c % 2) % 8 = 2 * (e / 2) + c % 2 by omega]
    · rw [set8_miss _ _ _ _ (by intro c hc; omega), if_neg (by omega), hBk k hk]

/-- the operations of argon2-fill-block-avx512f.c -/
@[reducible] def ops : Ops M512 :=
  { n := 16, l := 8, zero := default, xor := _mm512_xor_si512, load := _mm512_loadu_si512_u64,
    store := _mm512_storeu_si512_u64, rounds := Avx512f.blake2_rounds }

theorem fill_block_gen (s : Array M512) (ref next : Block) :
    Avx512f.fill_block s ref next = gen_fill ops false s ref next := by
  unfold Avx512f.fill_block gen_fill Avx512f.xor_store ops Avx512f.ARGON2_512BIT_WORDS_IN_BLOCK
  simp only [Bool.false_eq_true, if_false]
theorem fill_block_with_xor_gen (s : Array M512) (ref next : Block) :
    Avx512f.fill_block_with_xor s ref next = gen_fill ops true s ref next := by
  unfold Avx512f.fill_block_with_xor gen_fill Avx512f.xor_store ops Avx512f.ARGON2_512BIT_WORDS_IN_BLOCK
  simp only [if_true]

theorem size_round_1_at (i : Nat) (s : Array M512) : (round_1_at i s).size = s.size := by
  rw [round_1_at_eq, size_set8]
theorem size_round_2_at (i : Nat) (s : Array M512) : (round_2_at i s).size = s.size := by
  rw [round_2_at_eq, size_set8]

theorem rounds_size (s : Array M512) (hs : s.size = 16) : (Avx512f.blake2_rounds s).size = 16 := by
  unfold Avx512f.blake2_rounds
  simp only [forLoop_2, size_round_1_at, size_round_2_at, hs]

/-- the two vector loops compute the two reference loops -/
theorem rounds_eq (s : Array M512) (hs : s.size = 16) :
    toBlock R512 (Avx512f.blake2_rounds s) = Argon2Ref.blake2_rounds (toBlock R512 s) := by
  unfold Avx512f.blake2_rounds
  rw [blake2_rounds_eq, forLoop_2, forLoop_2, forLoop_split_8, forLoop_split_8]
  have z1 : ∀ i s, (round_1_at i s).size = s.size := size_round_1_at
  have z2 : ∀ i s, (round_2_at i s).size = s.size := size_round_2_at
  rw [sim2 _ (by simp only [z1, z2, hs]) 1 (by decide), sim2 _ (by simp only [z1, z2, hs]) 0 (by decide),
    sim1 _ (by simp only [z1, z2, hs]) 1 (by decide), sim1 _ hs 0 (by decide)]

theorem store_eq (m : Block) (i : Nat) (v : M512) :
    _mm512_storeu_si512_u64 m i v =
      (((((((m.set! (i + 0) (v.epi64 0)).set! (i + 1) (v.epi64 1)).set! (i + 2) (v.epi64 2)).set! (i + 3)
        (v.epi64 3)).set! (i + 4) (v.epi64 4)).set! (i + 5) (v.epi64 5)).set! (i + 6) (v.epi64 6)).set! (i + 7)
        (v.epi64 7) := by
  simp only [_mm512_storeu_si512_u64, Array.set!_eq_setIfInBounds]

theorem store_size' (m : Block) (i : Nat) (v : M512) : (_mm512_storeu_si512_u64 m i v).size = m.size := by
  rw [store_eq]; simp only [size_set!]

theorem store_get' (m : Block) (i : Nat) (v : M512) (k : Nat) (hk : k < m.size) (hi : i + 8 ≤ m.size) :
    (_mm512_storeu_si512_u64 m i v)[k]! = if i ≤ k ∧ k < i + 8 then M512.epi64 v (k - i) else m[k]! := by
  have hsz : ∀ (a : Block), a.size = m.size → k < a.size := fun a ha => by rw [ha]; exact hk
  rw [store_eq, get!_set! _ _ _ _ (hsz _ (by simp only [size_set!])),
    get!_set! _ _ _ _ (hsz _ (by simp only [size_set!])), get!_set! _ _ _ _ (hsz _ (by simp only [size_set!])),
    get!_set! _ _ _ _ (hsz _ (by simp only [size_set!])), get!_set! _ _ _ _ (hsz _ (by simp only [size_set!])),
    get!_set! _ _ _ _ (hsz _ (by simp only [size_set!])), get!_set! _ _ _ _ (hsz _ (by simp only [size_set!])),
    get!_set! _ _ _ _ hk]
  by_cases c7 : i + 7 = k
  · rw [if_pos c7, if_pos (by omega), show k - i = 7 by omega]
  rw [if_neg c7]
  by_cases c6 : i + 6 = k
  · rw [if_pos c6, if_pos (by omega), show k - i = 6 by omega]
  rw [if_neg c6]
  by_cases c5 : i + 5 = k
  · rw [if_pos c5, if_pos (by omega), show k - i = 5 by omega]
  rw [if_neg c5]
  by_cases c4 : i + 4 = k
  · rw [if_pos c4, if_pos (by omega), show k - i = 4 by omega]
  rw [if_neg c4]
  by_cases c3 : i + 3 = k
  · rw [if_pos c3, if_pos (by omega), show k - i = 3 by omega]
  rw [if_neg c3]
  by_cases c2 : i + 2 = k
  · rw [if_pos c2, if_pos (by omega), show k - i = 2 by omega]
  rw [if_neg c2]
  by_cases c1 : i + 1 = k
  · rw [if_pos c1, if_pos (by omega), show k - i = 1 by omega]
  rw [if_neg c1]
  by_cases c0 : i + 0 = k
  · rw [if_pos c0, if_pos (by omega), show k - i = 0 by omega]
  rw [if_neg c0, if_neg (by omega)]

theorem opsOK : OpsOK R512 ops where
  hn := rfl
  hl := rfl
  xor := by
    intro a b e he
    obtain ⟨⟨⟨a0, a1⟩, ⟨a2, a3⟩⟩, ⟨⟨a4, a5⟩, ⟨a6, a7⟩⟩⟩ := a
    obtain ⟨⟨⟨b0, b1⟩, ⟨b2, b3⟩⟩, ⟨⟨b4, b5⟩, ⟨b6, b7⟩⟩⟩ := b
    have : e = 0 ∨ e = 1 ∨ e = 2 ∨ e = 3 ∨ e = 4 ∨ e = 5 ∨ e = 6 ∨ e = 7 := by have : e < 8 := he; omega
    rcases this with rfl | rfl | rfl | rfl | rfl | rfl | rfl | rfl <;> rfl
  load := by
    intro m i e he
    rw [← getD_eq_get!]
    have : e = 0 ∨ e = 1 ∨ e = 2 ∨ e = 3 ∨ e = 4 ∨ e = 5 ∨ e = 6 ∨ e = 7 := by have : e < 8 := he; omega
    rcases this with rfl | rfl | rfl | rfl | rfl | rfl | rfl | rfl <;> rfl
  store_size := by
    intro m i v
    with_reducible exact store_size' m i v
  store_get := by
    intro m i v k hk hi
    with_reducible exact store_get' m i v k hk hi
  rounds_size := by
    intro s hs
    with_reducible exact rounds_size s hs
  rounds := by
    intro s hs
    with_reducible exact rounds_eq s hs

end Avx512fP

/-! ### 6. backends -/

/-- a backend whose `state` holds a block (`enc`) and whose two block functions compute the reference ones on it -/
structure BackendOK (B : Backend) where
  enc : Block → B.σ
  memcpy : ∀ b : Block, b.size = 128 → B.memcpy_state b = enc b
  zero : B.zero_state = enc (Argon2Ref.init_block_value 0)
  fb : ∀ prev ref next : Block, prev.size = 128 → ref.size = 128 → next.size = 128 →
    B.fill_block (enc prev) ref next = (enc (Argon2Ref.fill_block prev ref), Argon2Ref.fill_block prev ref)
  fbx : ∀ prev ref next : Block, prev.size = 128 → ref.size = 128 → next.size = 128 →
    B.fill_block_with_xor (enc prev) ref next =
      (enc (Argon2Ref.fill_block_with_xor prev ref next), Argon2Ref.fill_block_with_xor prev ref next)

theorem size_init_block (v : UInt8) : (Argon2Ref.init_block_value v).size = 128 := by
  simp [Argon2Ref.init_block_value]

theorem init_block_zero_get (k : Nat) : (Argon2Ref.init_block_value 0)[k]! = 0 := by
  by_cases hk : k < 128
  · rw [get!_eq _ _ (by rw [size_init_block]; exact hk)]
    simp [Argon2Ref.init_block_value]
  · rw [Array.getElem!_eq_getD, Array.getD, dif_neg (by rw [size_init_block]; exact hk)]; rfl

theorem get!_map_range {α} [Inhabited α] (n : Nat) (f : Nat → α) (i : Nat) (hi : i < n) :
    ((Array.range n).map f)[i]! = f i := by
  rw [get!_eq _ _ (by simp; exact hi)]; simp

theorem get!_replicate {α} [Inhabited α] (n : Nat) (x : α) (i : Nat) (hi : i < n) : (Array.replicate n x)[i]! = x := by
  rw [get!_eq _ _ (by simp; exact hi)]; simp

theorem gen_fill_false (R : Rep ρ) (O : Ops ρ) (h : OpsOK R O) (prev ref next : Block) (hp : prev.size = 128)
    (hr : ref.size = 128) (hn : next.size = 128) :
    gen_fill O false (ofBlock R prev) ref next =
      (ofBlock R (Argon2Ref.fill_block prev ref), Argon2Ref.fill_block prev ref) := by
  rw [gen_fill_eq R O h false _ ref next (size_ofBlock R prev) hr hn, toBlock_ofBlock R prev hp]
  simp only [Bool.false_eq_true, if_false]

theorem gen_fill_true (R : Rep ρ) (O : Ops ρ) (h : OpsOK R O) (prev ref next : Block) (hp : prev.size = 128)
    (hr : ref.size = 128) (hn : next.size = 128) :
    gen_fill O true (ofBlock R prev) ref next =
      (ofBlock R (Argon2Ref.fill_block_with_xor prev ref next), Argon2Ref.fill_block_with_xor prev ref next) := by
  rw [gen_fill_eq R O h true _ ref next (size_ofBlock R prev) hr hn, toBlock_ofBlock R prev hp]
  simp only [if_true]

/-- `memcpy(state, block->v, 1024)` as `n` loads -/
theorem memcpy_eq (R : Rep ρ) (load : Block → Nat → ρ)
    (hload : ∀ (m : Block) i e, e < R.l → R.lane (load m i) e = m[i + e]!) (b : Block) :
    ((Array.range R.n).map fun i => load b (R.l * i)) = ofBlock R b := by
  apply ext!
  · rw [size_ofBlock]; simp
  · intro i hi
    have hi : i < R.n := by simpa using hi
    rw [get!_map_range _ _ _ hi, ofBlock_get R b i hi, ← R.pack_lane (load b (R.l * i))]
    apply R.pack_congr
    intro e he
    exact hload b _ e he

/-- `memset(zero_block, 0, sizeof(zero_block))` -/
theorem memset_eq (R : Rep ρ) (z : ρ) (hz : ∀ e, e < R.l → R.lane z e = 0) :
    Array.replicate R.n z = ofBlock R (Argon2Ref.init_block_value 0) := by
  apply ext!
  · rw [size_ofBlock]; simp
  · intro i hi
    have hi : i < R.n := by simpa using hi
    rw [get!_replicate _ _ _ hi, ofBlock_get R _ i hi, ← R.pack_lane z]
    apply R.pack_congr
    intro e he
    rw [hz e he, init_block_zero_get]

namespace Avx2P

def backendOK : BackendOK Avx2.backend where
  enc := ofBlock R256
  memcpy := fun b _ => memcpy_eq R256 _mm256_loadu_si256_u64 opsOK.load b
  zero := memset_eq R256 ⟨⟨0, 0⟩, ⟨0, 0⟩⟩ (by
    intro e he
    have : e = 0 ∨ e = 1 ∨ e = 2 ∨ e = 3 := by have : e < 4 := he; omega
    rcases this with rfl | rfl | rfl | rfl <;> rfl)
  fb := by
    intro prev ref next hp hr hn
    with_reducible exact (fill_block_gen _ ref next).trans (gen_fill_false R256 ops opsOK prev ref next hp hr hn)
  fbx := by
    intro prev ref next hp hr hn
    with_reducible exact (fill_block_with_xor_gen _ ref next).trans (gen_fill_true R256 ops opsOK prev ref next hp hr hn)

end Avx2P


namespace Ssse3P

def backendOK : BackendOK Ssse3.backend where
  enc := ofBlock R128
  memcpy := fun b _ => memcpy_eq R128 _mm_loadu_si128_u64 opsOK.load b
  zero := memset_eq R128 ⟨0, 0⟩ (by
    intro e he
    have : e = 0 ∨ e = 1 := by have : e < 2 := he; omega
    rcases this with rfl | rfl <;> rfl)
  fb := by
    intro prev ref next hp hr hn
    with_reducible exact (fill_block_gen _ ref next).trans (gen_fill_false R128 ops opsOK prev ref next hp hr hn)
  fbx := by
    intro prev ref next hp hr hn
    with_reducible exact (fill_block_with_xor_gen _ ref next).trans (gen_fill_true R128 ops opsOK prev ref next hp hr hn)

end Ssse3P


namespace Avx512fP

def backendOK : BackendOK Avx512f.backend where
  enc := ofBlock R512
  memcpy := fun b _ => memcpy_eq R512 _mm512_loadu_si512_u64 opsOK.load b
  zero := memset_eq R512 ⟨⟨⟨0, 0⟩, ⟨0, 0⟩⟩, ⟨⟨0, 0⟩, ⟨0, 0⟩⟩⟩ (by
    intro e he
    have : e = 0 ∨ e = 1 ∨ e = 2 ∨ e = 3 ∨ e = 4 ∨ e = 5 ∨ e = 6 ∨ e = 7 := by have : e < 8 := he; omega
    rcases this with rfl | rfl | rfl | rfl | rfl | rfl | rfl | rfl <;> rfl)
  fb := by
    intro prev ref next hp hr hn
    with_reducible exact (fill_block_gen _ ref next).trans (gen_fill_false R512 ops opsOK prev ref next hp hr hn)
  fbx := by
    intro prev ref next hp hr hn
    with_reducible exact (fill_block_with_xor_gen _ ref next).trans (gen_fill_true R512 ops opsOK prev ref next hp hr hn)

end Avx512fP

/-! ### 7. generate_addresses and the segment walk -/
section Segment
open Sodium.Model.Argon2Ref (Instance Position State)
open Sodium.Argon2RefP (StepInBounds InstOk Rel)

variable {B : Backend} (h : BackendOK B)

theorem size_ref_fill_block (prev ref : Block) (hp : prev.size = 128) (hr : ref.size = 128) :
    (Argon2Ref.fill_block prev ref).size = 128 := by
  rw [Argon2RefP.fill_block_eq _ _ hp hr, Argon2RefP.size_G, hp]

theorem size_ref_fill_block_with_xor (prev ref next : Block) (hp : prev.size = 128) (hr : ref.size = 128) :
    (Argon2Ref.fill_block_with_xor prev ref next).size = 128 := by
  rw [Argon2RefP.fill_block_with_xor_eq _ _ _ hp hr, Argon2RefP.size_xorBlock, Argon2RefP.size_G, hp]

theorem forLoop_congr_inv {σ : Type} (Q : σ → Prop) (f g : Nat → σ → σ) (n i : Nat) (s : σ) (hQ : Q s)
    (hfg : ∀ k s, i ≤ k → k < i + n → Q s → f k s = g k s ∧ Q (g k s)) :
    forLoop f n i s = forLoop g n i s ∧ Q (forLoop g n i s) := by
  induction n generalizing i s with
  | zero => exact ⟨rfl, hQ⟩
  | succ n ih =>
    rw [forLoop, forLoop]
    obtain ⟨e, q⟩ := hfg i s (Nat.le_refl _) (by omega) hQ
    rw [e]
    exact ih (i + 1) _ q (fun k s h1 h2 hq => hfg k s (by omega) (by omega) hq)

include h

/-- one step of the vector `generate_addresses` = one step of the reference one -/
theorem gen_step_eq (i : Nat) (s : Argon2Ref.GenState) (hs : s.input_block.size = 128) :
    generate_addresses_step B i s = Argon2Ref.generate_addresses_step (Argon2Ref.init_block_value 0) i s := by
  unfold generate_addresses_step Argon2Ref.generate_addresses_step
  by_cases c : i % Argon2Ref.ARGON2_ADDRESSES_IN_BLOCK = 0
  · rw [if_pos c, if_pos c]
    dsimp only
    have h1 := h.fbx (Argon2Ref.init_block_value 0) (s.input_block.set! 6 (s.input_block[6]! + 1))
      (Argon2Ref.init_block_value 0) (size_init_block 0) (by rw [size_set!, hs]) (size_init_block 0)
    rw [h.zero, h1]
    dsimp only
    rw [h.fbx (Argon2Ref.init_block_value 0) _ (Argon2Ref.init_block_value 0) (size_init_block 0)
      (size_ref_fill_block_with_xor _ _ _ (size_init_block 0) (by rw [size_set!, hs])) (size_init_block 0)]
  · rw [if_neg c, if_neg c]

theorem generate_addresses_eq (inst : Instance) (pos : Position) (pr : Array UInt64) :
    generate_addresses B inst pos pr = Argon2Ref.generate_addresses inst pos pr := by
  unfold generate_addresses Argon2Ref.generate_addresses
  dsimp only
  have := forLoop_congr_inv (fun s : Argon2Ref.GenState => s.input_block.size = 128)
    (generate_addresses_step B) (Argon2Ref.generate_addresses_step (Argon2Ref.init_block_value 0))
    inst.segment_length.toNat 0
    { input_block := (((((((Argon2Ref.init_block_value 0).set! 0 pos.pass.toUInt64).set! 1 pos.lane.toUInt64).set! 2
        pos.slice.toUInt64).set! 3 inst.memory_blocks.toUInt64).set! 4 inst.passes.toUInt64).set! 5 inst.type.toUInt64),
      address_block := Argon2Ref.init_block_value 0, pseudo_rands := pr }
    (by simp only [size_set!, size_init_block])
    (by
      intro k s _ _ hs
      refine ⟨gen_step_eq h k s hs, ?_⟩
      unfold Argon2Ref.generate_addresses_step
      dsimp only
      split
      · simp only [size_set!]; exact hs
      · exact hs)
  rw [this.1]

/-- the (rotated) `prev_offset` an iteration uses -/
def rot (inst : Instance) (s : Argon2Ref.SegState) : UInt32 :=
  if s.curr_offset % inst.lane_length = 1 then s.curr_offset - 1 else s.prev_offset

/-- one step of the vector segment loop against one step of the reference loop, when `state` holds the previous
    block and the accesses are in bounds -/
theorem step_sim (inst : Instance) (pos : Position) (DI : Bool) (pr : Array UInt64) (i : Nat)
    (s : Argon2Ref.SegState) (st : B.σ) (hst : st = h.enc s.memory[(rot inst s).toNat]!)
    (hb : ∀ n, n < s.memory.size → s.memory[n]!.size = 128) (hin : StepInBounds inst pos DI pr i s) :
    fill_segment_step B inst pos DI pr i
        { curr_offset := s.curr_offset, prev_offset := s.prev_offset, memory := s.memory, state := st } =
      { curr_offset := (Argon2Ref.fill_segment_step inst pos DI pr i s).curr_offset,
        prev_offset := (Argon2Ref.fill_segment_step inst pos DI pr i s).prev_offset,
        memory := (Argon2Ref.fill_segment_step inst pos DI pr i s).memory,
        state := h.enc (Argon2Ref.fill_segment_step inst pos DI pr i s).memory[s.curr_offset.toNat]! } ∧
    (∀ n, n < (Argon2Ref.fill_segment_step inst pos DI pr i s).memory.size →
      (Argon2Ref.fill_segment_step inst pos DI pr i s).memory[n]!.size = 128) := by
  unfold StepInBounds at hin
  unfold fill_segment_step Argon2Ref.fill_segment_step
  unfold rot at hst
  dsimp only at hin hst ⊢
  generalize (if s.curr_offset % inst.lane_length = 1 then s.curr_offset - 1 else s.prev_offset) = po at hin hst ⊢
  generalize (if DI = true then pr[i]! else s.memory[po.toNat]![0]!) = w at hin ⊢
  generalize (if pos.pass = 0 ∧ pos.slice = 0 then pos.lane.toUInt64 else (w >>> 32) % inst.lanes.toUInt64) = rl at hin ⊢
  generalize (inst.lane_length.toUInt64 * rl + (Argon2Ref.index_alpha inst { pos with index := UInt32.ofNat i }
    (w &&& 0xFFFFFFFF).toUInt32 (rl == pos.lane.toUInt64)).toUInt64).toNat = ri at hin ⊢
  obtain ⟨hc, hp, hr, _⟩ := hin
  have sp := hb _ hp
  have sr := hb _ hr
  have sc := hb _ hc
  subst hst
  by_cases c : pos.pass ≠ 0
  · rw [if_pos c, if_pos c, h.fbx _ _ _ sp sr sc]
    dsimp only
    rw [get!_set!_eq _ _ _ hc]
    refine ⟨rfl, ?_⟩
    intro n hn
    rw [size_set!] at hn
    rw [get!_set! _ _ _ _ hn]
    split
    · exact size_ref_fill_block_with_xor _ _ _ sp sr
    · exact hb n hn
  · rw [if_neg c, if_neg c, h.fb _ _ _ sp sr sc]
    dsimp only
    rw [get!_set!_eq _ _ _ hc]
    refine ⟨rfl, ?_⟩
    intro n hn
    rw [size_set!] at hn
    rw [get!_set! _ _ _ _ hn]
    split
    · exact size_ref_fill_block _ _ sp sr
    · exact hb n hn

omit h in
/-- after an iteration the (rotated) previous offset is the offset just written -/
theorem rot_next (inst : Instance) (s s' : Argon2Ref.SegState) (hc' : s'.curr_offset = s.curr_offset + 1)
    (hp' : s'.prev_offset = rot inst s + 1)
    (K : rot inst s + 1 = s.curr_offset ∨ s.curr_offset % inst.lane_length = 0)
    (hll : 2 ≤ inst.lane_length.toNat) (hsmall : s.curr_offset.toNat + 1 < 2 ^ 32) :
    rot inst s' = s.curr_offset := by
  show (if s'.curr_offset % inst.lane_length = 1 then s'.curr_offset - 1 else s'.prev_offset) = _
  rw [hc', hp']
  by_cases c1 : (s.curr_offset + 1) % inst.lane_length = 1
  · rw [if_pos c1, UInt32.add_sub_cancel]
  · rw [if_neg c1]
    rcases K with k | k
    · exact k
    · exfalso
      apply c1
      apply UInt32.toNat_inj.mp
      have h0 : s.curr_offset.toNat % inst.lane_length.toNat = 0 := by
        have := congrArg UInt32.toNat k
        rwa [UInt32.toNat_mod] at this
      have one : (1 : UInt32).toNat = 1 := rfl
      have e : (s.curr_offset.toNat + 1) % 2 ^ 32 = s.curr_offset.toNat + 1 := Nat.mod_eq_of_lt hsmall
      rw [UInt32.toNat_mod, UInt32.toNat_add, one, e, Nat.add_mod, h0, Nat.zero_add, Nat.mod_mod,
        Nat.mod_eq_of_lt (by omega)]

/-- what the vector loop and the reference loop share when an iteration starts -/
structure SegInv (inst : Instance) (s : Argon2Ref.SegState) (sv : SegState B.σ) (n : Nat) : Prop where
  curr : sv.curr_offset = s.curr_offset
  prev : sv.prev_offset = s.prev_offset
  mem : sv.memory = s.memory
  st : 0 < n → sv.state = h.enc s.memory[(rot inst s).toNat]!
  K : rot inst s + 1 = s.curr_offset ∨ s.curr_offset % inst.lane_length = 0
  bsize : ∀ m, m < s.memory.size → s.memory[m]!.size = 128
  small : s.memory.size < 2 ^ 32

theorem seg_loop_sim (inst : Instance) (pos : Position) (DI : Bool) (pr : Array UInt64)
    (hll : 2 ≤ inst.lane_length.toNat) (n i : Nat) (s : Argon2Ref.SegState) (sv : SegState B.σ)
    (hin : ∀ k, k < n → StepInBounds inst pos DI pr (i + k) (forLoop (Argon2Ref.fill_segment_step inst pos DI pr) k i s))
    (hinv : SegInv h inst s sv n) :
    (forLoop (fill_segment_step B inst pos DI pr) n i sv).memory =
      (forLoop (Argon2Ref.fill_segment_step inst pos DI pr) n i s).memory := by
  induction n generalizing i s sv with
  | zero => exact hinv.mem
  | succ n ih =>
    rw [forLoop, forLoop]
    apply ih (i + 1)
    · intro k hk
      have := hin (k + 1) (by omega)
      rw [forLoop, show i + (k + 1) = i + 1 + k by omega] at this
      exact this
    · obtain ⟨h1, h2, h3, h4, h5, h6, h7⟩ := hinv
      obtain ⟨c, p, m, st⟩ := sv
      dsimp only at h1 h2 h3 h4
      subst h1 h2 h3
      have hb0 : StepInBounds inst pos DI pr i s := hin 0 (by omega)
      obtain ⟨e1, e2⟩ := step_sim h inst pos DI pr i s st (h4 (by omega)) h6 hb0
      have hcM : s.curr_offset.toNat < s.memory.size := by
        unfold StepInBounds at hb0; exact hb0.1
      have hms : (Argon2Ref.fill_segment_step inst pos DI pr i s).memory.size = s.memory.size := by
        show (s.memory.set! _ _).size = _
        rw [size_set!]
      have hr := rot_next inst s (Argon2Ref.fill_segment_step inst pos DI pr i s) rfl rfl h5 hll (by omega)
      rw [e1]
      exact ⟨rfl, rfl, rfl, fun _ => by rw [hr], Or.inl (by rw [hr]; rfl), e2, by rw [hms]; exact h7⟩

/-- `argon2_fill_segment_<isa>` = `argon2_fill_segment_ref` on every well-formed instance and memory -/
theorem fill_segment_eq (inst : Instance) (pos : Position) (st : State) (mem : Array UInt64) (hI : InstOk inst)
    (hsl : pos.slice.toNat < 4) (hlane : pos.lane.toNat < inst.lanes.toNat)
    (hM : Rel st.memory mem) (hMs : st.memory.size = inst.memory_blocks.toNat)
    (hprs : st.pseudo_rands.size = inst.segment_length.toNat) :
    argon2_fill_segment B inst pos st = Argon2Ref.argon2_fill_segment_ref inst pos st := by
  have hb := (Argon2RefP.fill_segment_rel inst pos st mem hI hsl hlane hM hMs hprs).2.2.2
  have hll : 2 ≤ inst.lane_length.toNat := by have := hI.hll; have := hI.hS; omega
  unfold argon2_fill_segment Argon2Ref.argon2_fill_segment_ref
  unfold Argon2Ref.fill_segment_init at hb ⊢
  dsimp only at hb ⊢
  rw [generate_addresses_eq h]
  generalize (!(inst.type == Argon2Ref.Argon2_id &&
    (pos.pass != 0 || pos.slice.toUInt32 >= Argon2Ref.ARGON2_SYNC_POINTS / 2))) = DI at hb ⊢
  generalize (if DI = true then Argon2Ref.generate_addresses inst pos st.pseudo_rands else st.pseudo_rands) = pr at hb ⊢
  generalize (if pos.pass = 0 ∧ pos.slice = 0 then (2 : UInt32) else 0) = si at hb ⊢
  generalize (pos.lane * inst.lane_length + pos.slice.toUInt32 * inst.segment_length + si) = curr at hb ⊢
  have hrot : rot inst (Argon2Ref.SegState.mk curr
      (if curr % inst.lane_length = 0 then curr + inst.lane_length - 1 else curr - 1) st.memory) =
      (if curr % inst.lane_length = 0 then curr + inst.lane_length - 1 else curr - 1) := by
    unfold rot
    dsimp only
    by_cases c1 : curr % inst.lane_length = 1
    · rw [if_pos c1, if_neg (by rw [c1]; decide)]
    · rw [if_neg c1]
  rw [seg_loop_sim h inst pos DI pr hll _ _ _ _ hb]
  refine ⟨rfl, rfl, rfl, ?_, ?_, hM.bsize, by rw [hMs]; exact inst.memory_blocks.toNat_lt⟩
  · intro hn
    have hb0 := hb 0 hn
    unfold StepInBounds at hb0
    have hpo := hb0.2.1
    dsimp only at hpo ⊢
    rw [hrot]
    change (if curr % inst.lane_length = 1 then curr - 1 else
      (if curr % inst.lane_length = 0 then curr + inst.lane_length - 1 else curr - 1)).toNat < _ at hpo
    have : (if curr % inst.lane_length = 1 then curr - 1 else
        (if curr % inst.lane_length = 0 then curr + inst.lane_length - 1 else curr - 1)) =
        (if curr % inst.lane_length = 0 then curr + inst.lane_length - 1 else curr - 1) := hrot
    rw [this] at hpo
    exact h.memcpy _ (hM.bsize _ hpo)
  · rw [hrot]
    dsimp only
    by_cases c0 : curr % inst.lane_length = 0
    · right; exact c0
    · left; rw [if_neg c0, UInt32.sub_add_cancel]

end Segment

/-! ### 8. the core with the selected `fill_segment` -/
section Core
open Sodium.Model.Argon2Ref (Instance Position State)
open Sodium.Argon2RefP (InstOk Rel SRel HLen CoreOk)

/-- a `fill_segment` implementation that agrees with `argon2_fill_segment_ref` on well-formed arguments -/
def SegOK (seg : Instance → Position → State → State) : Prop :=
  ∀ (inst : Instance) (pos : Position) (st : State) (mem : Array UInt64), InstOk inst → pos.slice.toNat < 4 →
    pos.lane.toNat < inst.lanes.toNat → Rel st.memory mem → st.memory.size = inst.memory_blocks.toNat →
    st.pseudo_rands.size = inst.segment_length.toNat → seg inst pos st = Argon2Ref.argon2_fill_segment_ref inst pos st

theorem segOK_ref : SegOK Argon2Ref.argon2_fill_segment_ref := fun _ _ _ _ _ _ _ _ _ _ => rfl

theorem segOK_backend {B : Backend} (h : BackendOK B) : SegOK (argon2_fill_segment B) :=
  fun inst pos st mem hI hsl hlane hM hMs hprs => fill_segment_eq h inst pos st mem hI hsl hlane hM hMs hprs

theorem fill_memory_blocks_eq (seg : Instance → Position → State → State) (hseg : SegOK seg) (inst : Instance)
    (pass : UInt32) (st : State) (hI : InstOk inst) (hst : ∃ mem, SRel inst st mem) :
    argon2_fill_memory_blocks seg inst pass st = Argon2Ref.argon2_fill_memory_blocks inst pass st ∧
      ∃ mem, SRel inst (Argon2Ref.argon2_fill_memory_blocks inst pass st) mem := by
  unfold argon2_fill_memory_blocks Argon2Ref.argon2_fill_memory_blocks
  by_cases hl0 : inst.lanes = 0
  · rw [if_pos hl0, if_pos hl0]; exact ⟨rfl, hst⟩
  rw [if_neg hl0, if_neg hl0]
  have h4 : Argon2Ref.ARGON2_SYNC_POINTS.toNat = 4 := rfl
  rw [h4]
  apply forLoop_congr_inv (fun st => ∃ mem, SRel inst st mem) _ _ 4 0 st hst
  intro sl st _ hsl hst
  apply forLoop_congr_inv (fun st => ∃ mem, SRel inst st mem) _ _ _ 0 st hst
  intro l st _ hl ⟨mem, hM, hMs, hprs⟩
  have hln := inst.lanes.toNat_lt
  have e1 : ((UInt32.ofNat sl).toUInt8).toNat = sl := by
    rw [UInt32.toNat_toUInt8, UInt32.toNat_ofNat']; omega
  have e2 : (UInt32.ofNat l).toNat = l := by
    rw [UInt32.toNat_ofNat']; omega
  have hs4 : (Position.mk pass (UInt32.ofNat l) (UInt32.ofNat sl).toUInt8 0).slice.toNat < 4 := by
    show ((UInt32.ofNat sl).toUInt8).toNat < 4; omega
  have hla : (Position.mk pass (UInt32.ofNat l) (UInt32.ofNat sl).toUInt8 0).lane.toNat < inst.lanes.toNat := by
    show (UInt32.ofNat l).toNat < _; omega
  refine ⟨hseg inst _ st mem hI hs4 hla hM hMs hprs, ?_⟩
  have := Argon2RefP.fill_segment_rel inst (Position.mk pass (UInt32.ofNat l) (UInt32.ofNat sl).toUInt8 0)
    st mem hI hs4 hla hM hMs hprs
  exact ⟨_, this.1, this.2.1, this.2.2.1⟩

/-- `argon2_ctx` steps 2–5 over a `fill_segment` that agrees with the reference one = the reference core -/
theorem argon2_ctx_core_eq (seg : Instance → Position → State → State) (hseg : SegOK seg)
    (H : Nat → Bytes → Bytes) (hH : HLen H) (c : Pwhash.Context)
    (pwd salt secret ad : Bytes) (type : UInt32) (ht : type = 1 ∨ type = 2) (hc : CoreOk c pwd salt secret ad) :
    argon2_ctx_core seg H c pwd salt secret ad type = Argon2Ref.argon2_ctx_core H c pwd salt secret ad type := by
  obtain ⟨hl, ho, hm, htc, hth, hpw, hsa, hse, had⟩ := hc
  have el : (UInt32.ofNat c.lanes).toNat = c.lanes := by rw [UInt32.toNat_ofNat']; omega
  have em : (UInt32.ofNat c.m_cost).toNat = c.m_cost := by rw [UInt32.toNat_ofNat']; omega
  obtain ⟨i1, i2, i3⟩ := PwhashP.instance_eq (UInt32.ofNat c.t_cost) (UInt32.ofNat c.m_cost) (UInt32.ofNat c.lanes)
    (UInt32.ofNat c.threads) (by rw [el]; exact hl.1) (by rw [el]; exact hl.2)
  rw [el, em] at i1 i2 i3
  unfold argon2_ctx_core Argon2Ref.argon2_ctx_core
  dsimp only
  generalize hinst : Instance.mk _ _ _ _ _ _ type = inst
  have hp : (Pwhash.argon2_instance (UInt32.ofNat c.t_cost) (UInt32.ofNat c.m_cost) (UInt32.ofNat c.lanes)
      (UInt32.ofNat c.threads)).passes = inst.passes := by rw [← hinst]
  rw [hp]
  have f1 : inst.segment_length.toNat = max c.m_cost (8 * c.lanes) / (4 * c.lanes) := by rw [← hinst]; exact i1
  have f2 : inst.memory_blocks.toNat = max c.m_cost (8 * c.lanes) / (4 * c.lanes) * (4 * c.lanes) := by
    rw [← hinst]; exact i2
  have f3 : inst.lane_length.toNat = 4 * (max c.m_cost (8 * c.lanes) / (4 * c.lanes)) := by rw [← hinst]; exact i3
  have f4 : inst.lanes.toNat = c.lanes := by rw [← hinst]; exact el
  have f6 : inst.type = type := by rw [← hinst]
  have hS2 : 2 ≤ max c.m_cost (8 * c.lanes) / (4 * c.lanes) := by
    rw [Nat.le_div_iff_mul_le (by omega)]; omega
  have hI : InstOk inst := by
    refine ⟨by rw [f3, f1], by rw [f1]; exact hS2, ?_, by rw [f4]; exact hl.1, by rw [f6]; exact ht⟩
    rw [f2, f3, f4]
    generalize max c.m_cost (8 * c.lanes) / (4 * c.lanes) = S
    ac_rfl
  -- the initial state represents some specification memory
  have hinit : ∃ mem, SRel inst (Argon2Ref.argon2_initialize H inst c pwd salt secret ad) mem := by
    unfold Argon2Ref.argon2_initialize
    dsimp only
    have hh0l : (Argon2Ref.argon2_initial_hash H c pwd salt secret ad inst.type).length = 64 := by
      unfold Argon2Ref.argon2_initial_hash
      exact hH 64 _ (by decide)
    rw [List.take_of_length_le (by omega)]
    obtain ⟨a, b⟩ := Argon2RefP.first_blocks_rel H _ hh0l inst hI _ _
      (Argon2RefP.rel_replicate inst.memory_blocks.toNat) (by simp)
    exact ⟨_, a, b, by simp⟩
  have key := forLoop_congr_inv (fun st => ∃ mem, SRel inst st mem)
    (fun pass st => argon2_fill_memory_blocks seg inst (UInt32.ofNat pass) st)
    (fun pass st => Argon2Ref.argon2_fill_memory_blocks inst (UInt32.ofNat pass) st) inst.passes.toNat 0 _ hinit
    (fun k st _ _ hst => fill_memory_blocks_eq seg hseg inst (UInt32.ofNat k) st hI hst)
  rw [key.1]

theorem argon2_hash_model_eq (seg : Instance → Position → State → State) (hseg : SegOK seg)
    (H : Nat → Bytes → Bytes) (hH : HLen H) (y : Nat) (pwd salt : Bytes)
    (t m lanes outlen : Nat) (hy : y = 1 ∨ y = 2) (ht : t < 2 ^ 32) (hm : m < 2 ^ 32)
    (hl : 1 ≤ lanes ∧ lanes ≤ 0xFFFFFF) (ho : outlen < 2 ^ 32) (hp : pwd.length < 2 ^ 32)
    (hs : salt.length < 2 ^ 32) :
    argon2_hash_model seg H y pwd salt t m lanes outlen =
      Argon2Ref.argon2_hash_ref_model H y pwd salt t m lanes outlen := by
  unfold argon2_hash_model Argon2Ref.argon2_hash_ref_model
  have hty : UInt32.ofNat y = 1 ∨ UInt32.ofNat y = 2 := by
    rcases hy with rfl | rfl
    · left; rfl
    · right; rfl
  exact argon2_ctx_core_eq seg hseg H hH _ pwd salt [] [] _ hty
    ⟨hl, ho, hm, ht, by show lanes < 2 ^ 32; omega, ⟨rfl, hp, fun h => by cases h⟩, ⟨rfl, hs, fun h => by cases h⟩,
     ⟨rfl, by decide, fun _ => rfl⟩, ⟨rfl, by decide, fun _ => rfl⟩⟩

end Core

end Sodium.Argon2SimdP
