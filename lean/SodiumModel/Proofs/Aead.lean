import SodiumModel.Model.Aead
import SodiumModel.Proofs.Utils
/-
  Helper lemmas for C01 / C02 (AEAD constructions).
-/
open Sodium Sodium.Model Sodium.Model.Aead
namespace Sodium

/-! ### xorBytes algebra -/

@[simp] theorem zeros_length (n : Nat) : (zeros n).length = n := by simp [zeros]

@[simp] theorem xorBytes_nil_left (b : Bytes) : xorBytes [] b = [] := by cases b <;> rfl
@[simp] theorem xorBytes_nil_right (a : Bytes) : xorBytes a [] = [] := by cases a <;> rfl
@[simp] theorem xorBytes_cons (x y : UInt8) (xs ys : Bytes) :
    xorBytes (x :: xs) (y :: ys) = (x ^^^ y) :: xorBytes xs ys := rfl

theorem aead_xorBytes_length : ∀ a b : Bytes, (xorBytes a b).length = min a.length b.length
  | [], b => by simp
  | a :: as, [] => by simp
  | a :: as, b :: bs => by simp [aead_xorBytes_length as bs]

theorem uint8_xor_cancel (a b : UInt8) : a ^^^ b ^^^ b = a := by
  rw [UInt8.xor_assoc, UInt8.xor_self, UInt8.xor_zero]

theorem aead_xorBytes_cancel : ∀ m k : Bytes, m.length ≤ k.length → xorBytes (xorBytes m k) k = m
  | [], k, _ => by simp
  | m :: ms, [], h => by simp at h
  | m :: ms, k :: ks, h => by
    simp only [xorBytes_cons, uint8_xor_cancel]
    rw [aead_xorBytes_cancel ms ks (by simpa using h)]

theorem aead_xorBytes_append : ∀ a b c d : Bytes, a.length = c.length →
    xorBytes (a ++ b) (c ++ d) = xorBytes a c ++ xorBytes b d
  | [], b, [], d, _ => by simp
  | [], b, c :: cs, d, h => by simp at h
  | a :: as, b, [], d, h => by simp at h
  | a :: as, b, c :: cs, d, h => by
    simp only [List.cons_append, xorBytes_cons]
    rw [aead_xorBytes_append as b cs d (by simpa using h)]

theorem xorBytes_take : ∀ (n : Nat) (a b : Bytes), (xorBytes a b).take n = xorBytes (a.take n) (b.take n)
  | 0, a, b => by simp
  | n + 1, [], b => by simp
  | n + 1, a :: as, [] => by simp
  | n + 1, a :: as, b :: bs => by simp [xorBytes_take n as bs]

theorem aead_xorBytes_drop : ∀ (n : Nat) (a b : Bytes), (xorBytes a b).drop n = xorBytes (a.drop n) (b.drop n)
  | 0, a, b => by simp
  | n + 1, [], b => by simp
  | n + 1, a :: as, [] => by simp
  | n + 1, a :: as, b :: bs => by simp [aead_xorBytes_drop n as bs]

theorem xorBytes_zeros : ∀ (n : Nat) (k : Bytes), xorBytes (zeros n) k = k.take n
  | 0, k => by simp [zeros]
  | n + 1, [] => by simp
  | n + 1, k :: ks => by
    have := xorBytes_zeros n ks
    simp only [zeros] at this
    simp [zeros, List.replicate_succ, this]

theorem aead_xorBytes_take_right : ∀ (n : Nat) (a b : Bytes), a.length ≤ n → xorBytes a (b.take n) = xorBytes a b
  | _, [], b, _ => by simp
  | 0, a :: as, b, h => by simp at h
  | n + 1, a :: as, [], _ => by simp
  | n + 1, a :: as, b :: bs, h => by
    simp only [List.take_succ_cons, xorBytes_cons]
    rw [aead_xorBytes_take_right n as bs (by simpa using h)]


/-! ### C arithmetic and the tag comparison -/

/-- `(0x10 - len) & 0xf` in 64-bit arithmetic is the RFC 8439 pad length (for every `len`) -/
theorem pad16len_eq (len : Nat) : pad16len len = (16 - len % 16) % 16 := by
  unfold pad16len
  rw [UInt64.toNat_and, UInt64.toNat_sub, UInt64.toNat_ofNat']
  have : (0xf : UInt64).toNat = 2 ^ 4 - 1 := rfl
  rw [this, Nat.and_two_pow_sub_one_eq_mod]
  have : (0x10 : UInt64).toNat = 16 := rfl
  rw [this]
  omega

/-- `crypto_verify_16` (SSE2 body) is exact equality -/
theorem verify16 (x y : Bytes) (hx : x.length = 16) (hy : y.length = 16) :
    verify_n_sse2 1 x y = if x = y then 0 else -1 :=
  verify_n_sse2_spec 1 (by decide) x y hx hy

theorem verify16_self (x : Bytes) (hx : x.length = 16) : verify_n_sse2 1 x x = 0 := by
  rw [verify16 x x hx hx, if_pos rfl]

/-! ### keystream laws -/

structure StreamLaws (P : Prims) : Prop where
  ks_len : ∀ k n ic len, (P.ks k n ic len).length = len
  ks_offset : ∀ k n ic len, P.ks k n ic len = (P.ks k n 0 (64 * ic + len)).drop (64 * ic)
  ks_prefix : ∀ k n a b, (P.ks k n 0 (a + b)).take a = P.ks k n 0 a

theorem StreamLaws.ks_take {P : Prims} (h : StreamLaws P) (k n : Bytes) (a L : Nat) (hle : a ≤ L) :
    (P.ks k n 0 L).take a = P.ks k n 0 a := by
  obtain ⟨b, rfl⟩ : ∃ b, L = a + b := ⟨L - a, by omega⟩
  exact h.ks_prefix k n a b

/-! ### ChaCha20-Poly1305 AEAD composition -/

theorem encryptDetached_fst_length (P : Prims) (hl : ∀ k n ic len, (P.ks k n ic len).length = len)
    (f : Flavor) (m ad n k : Bytes) : (encryptDetached P f m ad n k).1.length = m.length := by
  simp [encryptDetached, aead_xorBytes_length, hl]

theorem encrypt_length (P : Prims) (hl : ∀ k n ic len, (P.ks k n ic len).length = len)
    (hm : ∀ k d, (P.mac k d).length = 16)
    (f : Flavor) (m ad n k : Bytes) : (encrypt P f m ad n k).length = m.length + 16 := by
  simp [encrypt, encryptDetached, aead_xorBytes_length, hl, hm]

theorem decryptDetached_ok (P : Prims) (hm : ∀ k d, (P.mac k d).length = 16)
    (f : Flavor) (w : Bool) (c ad n k : Bytes) :
    decryptDetached P f w c (P.mac ((P.ks k n 0 64).take 32) (macData f ad c)) ad n k =
      ⟨0, c.length, if w then some (xorBytes c (P.ks k n 1 c.length)) else none⟩ := by
  unfold decryptDetached
  simp only [verify16_self _ (hm _ _)]
  cases w <;> simp

theorem roundtrip_detached (P : Prims) (hl : ∀ k n ic len, (P.ks k n ic len).length = len)
    (hm : ∀ k d, (P.mac k d).length = 16) (f : Flavor) (m ad n k : Bytes) :
    decryptDetached P f true (encryptDetached P f m ad n k).1 (encryptDetached P f m ad n k).2 ad n k
      = ⟨0, m.length, some m⟩ := by
  have hc := encryptDetached_fst_length P hl f m ad n k
  have : (encryptDetached P f m ad n k).2 =
      P.mac ((P.ks k n 0 64).take 32) (macData f ad (encryptDetached P f m ad n k).1) := rfl
  rw [this, decryptDetached_ok P hm, hc]
  simp only [encryptDetached, if_true]
  rw [aead_xorBytes_cancel _ _ (by rw [hl]; exact Nat.le_refl _)]

theorem decrypt_combined (P : Prims) (f : Flavor) (w : Bool) (c mac ad n k : Bytes) (hmac : mac.length = 16) :
    decrypt P f w (c ++ mac) ad n k = decryptDetached P f w c mac ad n k := by
  unfold decrypt
  have h1 : (c ++ mac).length - 16 = c.length := by simp [hmac]
  rw [if_neg (by simp [hmac]), h1, List.take_left, List.drop_left]


/-! ### secretbox `block0` staging -/

theorem sb_block0_key {P : Prims} (h : StreamLaws P) (sk nn x : Bytes) :
    (xorBytes (zeros 32 ++ x) (P.ks sk nn 0 64)).take 32 = P.ks sk nn 0 32 := by
  rw [xorBytes_take, List.take_left' (zeros_length 32), xorBytes_zeros, List.take_take,
    h.ks_take _ _ _ _ (by omega)]
  rfl

theorem sb_block0_body (P : Prims) (sk nn a z : Bytes) :
    ((xorBytes (zeros 32 ++ a ++ z) (P.ks sk nn 0 64)).drop 32).take a.length
      = xorBytes a (((P.ks sk nn 0 64).drop 32).take a.length) := by
  rw [List.append_assoc, aead_xorBytes_drop, List.drop_left' (zeros_length 32), xorBytes_take,
    List.take_left' rfl]

theorem sb_body {P : Prims} (h : StreamLaws P) (sk nn m : Bytes) :
    ((xorBytes (zeros 32 ++ m.take (min m.length 32) ++ zeros (32 - min m.length 32)) (P.ks sk nn 0 64)).drop 32).take (min m.length 32)
      ++ (if m.length > min m.length 32 then
            xorBytes (m.drop (min m.length 32)) (P.ks sk nn 1 (m.length - min m.length 32)) else [])
    = xorBytes m ((P.ks sk nn 0 (32 + m.length)).drop 32) := by
  have hA : (m.take (min m.length 32)).length = min m.length 32 := by simp
  have hb := sb_block0_body P sk nn (m.take (min m.length 32)) (zeros (32 - min m.length 32))
  rw [hA] at hb
  rw [hb]
  by_cases hle : m.length ≤ 32
  · have hmin : min m.length 32 = m.length := by omega
    rw [hmin, if_neg (by omega), List.append_nil, List.take_length,
      ← h.ks_take sk nn (32 + m.length) 64 (by omega), List.drop_take]
    simp
  · have hmin : min m.length 32 = 32 := by omega
    rw [hmin, if_pos (by omega), h.ks_offset _ _ 1, aead_xorBytes_take_right _ _ _ (by simp; omega)]
    have e : 64 * 1 + (m.length - 32) = 32 + m.length := by omega
    rw [e, ← h.ks_take sk nn 64 (32 + m.length) (by omega), List.drop_take]
    have hX : (P.ks sk nn 0 (32 + m.length)).length = 32 + m.length := h.ks_len ..
    generalize P.ks sk nn 0 (32 + m.length) = X at hX ⊢
    conv => rhs; rw [← List.take_append_drop 32 m, ← List.take_append_drop 32 (List.drop 32 X)]
    rw [aead_xorBytes_append _ _ _ _ (by simp; omega), List.drop_drop]

theorem secretboxDetached_spec {P : Prims} (h : StreamLaws P) (m n k : Bytes) :
    secretboxDetached P m n k =
      (xorBytes m ((P.ks (sbSubkey P n k) (sbNonce n) 0 (32 + m.length)).drop 32),
       P.mac ((P.ks (sbSubkey P n k) (sbNonce n) 0 (32 + m.length)).take 32)
         (xorBytes m ((P.ks (sbSubkey P n k) (sbNonce n) 0 (32 + m.length)).drop 32))) := by
  simp only [secretboxDetached]
  rw [sb_body h, List.append_assoc, sb_block0_key h, h.ks_take _ _ _ _ (by omega)]

theorem secretboxDetached_fst_length {P : Prims} (h : StreamLaws P) (m n k : Bytes) :
    (secretboxDetached P m n k).1.length = m.length := by
  rw [secretboxDetached_spec h]
  simp [aead_xorBytes_length, h.ks_len]

/-- opening with the right tag: the staged computation is the same XOR -/
theorem secretboxOpenDetached_ok {P : Prims} (h : StreamLaws P) (hm : ∀ k d, (P.mac k d).length = 16)
    (c n k : Bytes) :
    secretboxOpenDetached P true c (P.mac (P.ks (sbSubkey P n k) (sbNonce n) 0 32) c) n k =
      ⟨0, c.length, some (xorBytes c ((P.ks (sbSubkey P n k) (sbNonce n) 0 (32 + c.length)).drop 32))⟩ := by
  simp only [secretboxOpenDetached]
  rw [sb_body h, List.append_assoc, sb_block0_key h, verify16_self _ (hm _ _)]
  simp

theorem secretbox_roundtrip_detached {P : Prims} (h : StreamLaws P) (hm : ∀ k d, (P.mac k d).length = 16)
    (m n k : Bytes) :
    secretboxOpenDetached P true (secretboxDetached P m n k).1 (secretboxDetached P m n k).2 n k
      = ⟨0, m.length, some m⟩ := by
  have hl := secretboxDetached_fst_length h m n k
  have h2 : (secretboxDetached P m n k).2 =
      P.mac (P.ks (sbSubkey P n k) (sbNonce n) 0 32) (secretboxDetached P m n k).1 := by
    rw [secretboxDetached_spec h, h.ks_take _ _ _ _ (by omega)]
  rw [h2, secretboxOpenDetached_ok h hm, hl]
  rw [secretboxDetached_spec h]
  simp only
  rw [aead_xorBytes_cancel _ _ (by simp [h.ks_len])]

theorem secretboxOpenEasy_combined (P : Prims) (w : Bool) (c mac n k : Bytes) (hmac : mac.length = 16) :
    secretboxOpenEasy P w (mac ++ c) n k = secretboxOpenDetached P w c mac n k := by
  unfold secretboxOpenEasy
  rw [if_neg (by simp [hmac]), ← hmac, List.take_left, List.drop_left]

theorem secretboxDetached_snd_length {P : Prims} (hm : ∀ k d, (P.mac k d).length = 16) (m n k : Bytes) :
    (secretboxDetached P m n k).2.length = 16 := by
  simp only [secretboxDetached]; exact hm _ _

theorem naclBox_spec {P : Prims} (h : StreamLaws P) (m n k : Bytes) :
    naclBox P (zeros 32 ++ m) n k = .ok (zeros 16 ++ secretboxEasy P m n k) := by
  have hlen : (zeros 32 ++ m).length = 32 + m.length := by simp
  simp only [naclBox, secretboxEasy]
  rw [secretboxDetached_spec h, if_neg (by omega), hlen]
  have hX : (P.ks (sbSubkey P n k) (sbNonce n) 0 (32 + m.length)).length = 32 + m.length := h.ks_len ..
  generalize P.ks (sbSubkey P n k) (sbNonce n) 0 (32 + m.length) = X at hX ⊢
  rw [xorBytes_take, aead_xorBytes_drop, List.take_left' (zeros_length 32), List.drop_left' (zeros_length 32),
    xorBytes_zeros, List.take_take]
  simp

theorem naclOpen_spec {P : Prims} (h : StreamLaws P) (hm : ∀ k d, (P.mac k d).length = 16) (m n k : Bytes) :
    naclOpen P (zeros 16 ++ secretboxEasy P m n k) n k = .ok (zeros 32 ++ m) := by
  have hl := secretboxDetached_fst_length h m n k
  have hl2 := secretboxDetached_snd_length hm m n k
  have h2 : (secretboxDetached P m n k).2 =
      P.mac (P.ks (sbSubkey P n k) (sbNonce n) 0 32) (secretboxDetached P m n k).1 := by
    rw [secretboxDetached_spec h, h.ks_take _ _ _ _ (by omega)]
  have hlen : (zeros 16 ++ secretboxEasy P m n k).length = 32 + m.length := by
    simp [secretboxEasy, hl, hl2]; omega
  have hd32 : (zeros 16 ++ secretboxEasy P m n k).drop 32 = (secretboxDetached P m n k).1 := by
    simp only [secretboxEasy]
    rw [← List.append_assoc, List.drop_left' (by simp [hl2])]
  have hd16 : ((zeros 16 ++ secretboxEasy P m n k).drop 16).take 16 = (secretboxDetached P m n k).2 := by
    simp only [secretboxEasy]
    rw [List.drop_left' (zeros_length 16), List.take_left' hl2]
  simp only [naclOpen]
  rw [if_neg (by omega), hd16, hd32, ← h2, verify16_self _ hl2, aead_xorBytes_drop, hd32, hlen]
  rw [secretboxDetached_spec h]
  simp only
  rw [aead_xorBytes_cancel _ _ (by simp [h.ks_len])]
  simp


/-! ### C02: MAC-data injectivity and the decision logic -/

theorem aead_toLE8_inj (a b : Nat) (ha : a < 2 ^ 64) (hb : b < 2 ^ 64) (h : toLE 8 a = toLE 8 b) : a = b := by
  have := congrArg le h
  rw [le_toLE, le_toLE] at this
  have e : (256 : Nat) ^ 8 = 2 ^ 64 := by decide
  rw [e, Nat.mod_eq_of_lt ha, Nat.mod_eq_of_lt hb] at this
  exact this

theorem macData_orig_inj (ad ad' c c' : Bytes)
    (hc : c.length < 2 ^ 64) (hc' : c'.length < 2 ^ 64)
    (h : macData .orig ad c = macData .orig ad' c') : ad = ad' ∧ c = c' := by
  simp only [macData] at h
  obtain ⟨h1, h2⟩ := List.append_inj' h (by simp [toLE_length])
  have hcl := aead_toLE8_inj _ _ hc hc' h2
  obtain ⟨h3, h4⟩ := List.append_inj' h1 hcl
  obtain ⟨h5, _⟩ := List.append_inj' h3 (by simp [toLE_length])
  exact ⟨h5, h4⟩

theorem macData_ietf_inj (ad ad' c c' : Bytes)
    (ha : ad.length < 2 ^ 64) (ha' : ad'.length < 2 ^ 64) (hc : c.length < 2 ^ 64) (hc' : c'.length < 2 ^ 64)
    (h : macData .ietf ad c = macData .ietf ad' c') : ad = ad' ∧ c = c' := by
  simp only [macData] at h
  obtain ⟨h1, h2⟩ := List.append_inj' h (by simp [toLE_length])
  have hcl := aead_toLE8_inj _ _ hc hc' h2
  obtain ⟨h3, h4⟩ := List.append_inj' h1 (by simp [toLE_length])
  have hal := aead_toLE8_inj _ _ ha ha' h4
  obtain ⟨h5, _⟩ := List.append_inj' h3 (by simp [hcl])
  obtain ⟨h6, h7⟩ := List.append_inj' h5 hcl
  obtain ⟨h8, _⟩ := List.append_inj' h6 (by simp [hal])
  exact ⟨h8, h7⟩

/-- the tail of `decrypt_detached` after the tag comparison -/
def decFinish (ret : Int32) (w : Bool) (c ks : Bytes) : DecResult :=
  if !w then ⟨ret, if ret = 0 then c.length else 0, none⟩
  else if ret ≠ 0 then ⟨-1, 0, some (zeros c.length)⟩
  else ⟨0, c.length, some (xorBytes c ks)⟩

theorem decryptDetached_eq (P : Prims) (f : Flavor) (w : Bool) (c mac ad n k : Bytes) :
    decryptDetached P f w c mac ad n k =
      decFinish (verify_n_sse2 1 (P.mac ((P.ks k n 0 64).take 32) (macData f ad c)) mac) w c
        (P.ks k n 1 c.length) := rfl

theorem decFinish_rc_zero (w : Bool) (c ks : Bytes) : (decFinish 0 w c ks).rc = 0 := by
  cases w <;> simp [decFinish]

theorem decFinish_rc_neg (w : Bool) (c ks : Bytes) : (decFinish (-1) w c ks).rc = -1 := by
  cases w <;> simp [decFinish]

theorem decFinish_failure (ret : Int32) (w : Bool) (c ks : Bytes) (h : (decFinish ret w c ks).rc ≠ 0) :
    (decFinish ret w c ks).mlen = 0 ∧
    ((decFinish ret w c ks).mbuf = none ∨ (decFinish ret w c ks).mbuf = some (zeros c.length)) := by
  by_cases hr : ret = 0
  · subst hr; exact absurd (decFinish_rc_zero w c ks) h
  · cases w <;> simp [decFinish, hr]

theorem decryptDetached_rc (P : Prims) (hm : ∀ k d, (P.mac k d).length = 16)
    (f : Flavor) (w : Bool) (c mac ad n k : Bytes) (hmac : mac.length = 16) :
    (decryptDetached P f w c mac ad n k).rc =
      if mac = P.mac ((P.ks k n 0 64).take 32) (macData f ad c) then 0 else -1 := by
  rw [decryptDetached_eq, verify16 _ _ (hm _ _) hmac]
  by_cases e : mac = P.mac ((P.ks k n 0 64).take 32) (macData f ad c)
  · rw [if_pos e, if_pos e.symm, decFinish_rc_zero]
  · rw [if_neg e, if_neg (fun h => e h.symm), decFinish_rc_neg]

theorem decryptDetached_failure (P : Prims) (f : Flavor) (w : Bool) (c mac ad n k : Bytes)
    (h : (decryptDetached P f w c mac ad n k).rc ≠ 0) :
    (decryptDetached P f w c mac ad n k).mlen = 0 ∧
    ((decryptDetached P f w c mac ad n k).mbuf = none ∨ (decryptDetached P f w c mac ad n k).mbuf = some (zeros c.length)) := by
  rw [decryptDetached_eq] at h ⊢
  exact decFinish_failure _ _ _ _ h

theorem decryptDetached_verify_only (P : Prims) (f : Flavor) (c mac ad n k : Bytes) :
    (decryptDetached P f false c mac ad n k).mbuf = none := by
  simp [decryptDetached]

/-- the tail of `crypto_secretbox_open_detached` after the tag comparison -/
def sbFinish (ret : Int32) (w : Bool) (c out : Bytes) : DecResult :=
  if ret ≠ 0 then ⟨-1, 0, none⟩
  else if !w then ⟨0, c.length, none⟩
  else ⟨0, c.length, some out⟩

theorem secretboxOpenDetached_failure (P : Prims) (w : Bool) (c mac n k : Bytes)
    (h : (secretboxOpenDetached P w c mac n k).rc ≠ 0) :
    secretboxOpenDetached P w c mac n k = ⟨-1, 0, none⟩ := by
  have e : ∃ ret out, secretboxOpenDetached P w c mac n k = sbFinish ret w c out := ⟨_, _, rfl⟩
  obtain ⟨ret, out, e⟩ := e
  rw [e] at h ⊢
  by_cases hr : ret = 0
  · subst hr; cases w <;> simp [sbFinish] at h
  · simp [sbFinish, hr]

/-! ### a toy instance of the primitives (non-vacuity of the hypotheses on `Prims`) -/

/-- byte `j` of the toy keystream: depends on key, nonce and absolute position -/
def toyKsByte (k n : Bytes) (j : Nat) : UInt8 := UInt8.ofNat (le k + 3 * le n + 7 * j + 1)

/-- a polynomial checksum in the odd base 257: its low 128 bits depend on every byte and on the length -/
def toyChk : Bytes → Nat
  | [] => 0
  | b :: bs => b.toNat + 1 + 257 * toyChk bs

def toyPrims : Prims where
  ks := fun k n ic len => (List.range len).map (fun j => toyKsByte k n (64 * ic + j))
  mac := fun k d => toLE 16 (le k + d.length + toyChk d)
  hcore := fun i k => xorBytes k (i ++ i)

theorem toyPrims_ks_len (k n : Bytes) (ic len : Nat) : (toyPrims.ks k n ic len).length = len := by
  simp [toyPrims]

theorem toyPrims_mac_len (k d : Bytes) : (toyPrims.mac k d).length = 16 := toLE_length _ _

theorem toyPrims_ks_offset (k n : Bytes) (ic len : Nat) :
    toyPrims.ks k n ic len = (toyPrims.ks k n 0 (64 * ic + len)).drop (64 * ic) := by
  simp only [toyPrims, List.range_add, List.map_append, List.map_map]
  rw [List.drop_left' (by simp)]
  simp [Function.comp_def]

theorem toyPrims_ks_prefix (k n : Bytes) (a b : Nat) :
    (toyPrims.ks k n 0 (a + b)).take a = toyPrims.ks k n 0 a := by
  simp only [toyPrims, List.range_add, List.map_append]
  rw [List.take_left' (by simp)]

theorem toyPrims_streamLaws : StreamLaws toyPrims :=
  ⟨toyPrims_ks_len, toyPrims_ks_offset, toyPrims_ks_prefix⟩


end Sodium
