import SodiumModel.Model.Aead
import SodiumModel.Proofs.Utils
/-
  Helper lemmas for C01 / C02 (AEAD constructions).
-/
open Sodium Sodium.Model
namespace Sodium

end Sodium
