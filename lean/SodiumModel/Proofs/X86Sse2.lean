import SodiumModel.Proofs.X86Sse
import SodiumModel.Proofs.SalsaSimdStream
import Generated.SalsaXmm6Asm
/-
  Symbolic execution of the regenerated instruction list of `salsa20_xmm6-asm.S` (`Generated/SalsaXmm6Asm.lean`) by the
  interpreter of `Model/X86Sse.lean`, one instruction at a time: `run_step` consumes one unit of fuel given the
  generated fetch lemma `fetch_<pc>`, `simp only` then normalises the new state (registers by projection, memory
  reads through the chain of 32-bit stores by `read32_write32_same'` / `read32_write32_disj`). The program itself is
  never unfolded.
-/
namespace Sodium.X86SseP
open Sodium Sodium.Model.X86Sse Sodium.Model.ChachaSimd Sodium.Model.CoresRef Generated.SalsaXmm6Asm

theorem run_step (p : Program) (n : Nat) (s : State) (i : Instr) (hh : s.halted = false) (hf : p.fetch s.pc = some i) :
    run p (n + 1) s = run p n (step i s) := by
  simp only [run, hh, hf, Bool.false_eq_true, if_false]

theorem run_zero (p : Program) (s : State) : run p 0 s = s := rfl

theorem read32_write32_same' (m : Mem) (a : Nat) (v : UInt32) (h : a + 3 < 1048576) : (m.write32 a v).read32 a = v :=
  read32_write32_same m a v h

theorem and1000 : (1000 : UInt64) &&& 31 = 8 := by decide

/-- one instruction: fetch lemma in, normalised state out -/
macro "asm_step" f:term : tactic =>
  `(tactic| (rw [run_step _ _ _ _ rfl $f];
             simp (disch := omega) only [step, Gprs.get, Gprs.set, ea, State.setLogic, Nat.reduceAdd, and1000,
               UInt64.reduceAdd, UInt64.reduceSub, UInt64.reduceToNat, UInt32.toUInt32_toUInt64,
               Mem.write64, Mem.read64, Mem.read128, Mem.write128, read32_write32_same', read32_write32_disj, ChachaSimdP.q_join]))

/-- the sixteen words of the frame slots 112 / 64 / 80 / 96(%rsp), in the order of `ctx->input[0..15]` of the
    intrinsics code (`Model/SalsaSimd.lean`): `diag0 ‖ diag1 ‖ diag2 ‖ diag3` -/
def frameCtx (s : State) : W16 :=
  let b := s.g.rsp.toNat
  ⟨s.mem.read32 (b + 112), s.mem.read32 (b + 116), s.mem.read32 (b + 120), s.mem.read32 (b + 124),
   s.mem.read32 (b + 64), s.mem.read32 (b + 68), s.mem.read32 (b + 72), s.mem.read32 (b + 76),
   s.mem.read32 (b + 80), s.mem.read32 (b + 84), s.mem.read32 (b + 88), s.mem.read32 (b + 92),
   s.mem.read32 (b + 96), s.mem.read32 (b + 100), s.mem.read32 (b + 104), s.mem.read32 (b + 108)⟩

/-- what the caller's registers look like on entry to `stream_salsa20_xmm6_xor_ic(c, m, mlen, n, ic, k)` (SysV:
    `%rdi, %rsi, %rdx, %rcx, %r8, %r9`), with the stack pointer, the key and the nonce at the addresses of the driver's
    layout (`RSP0`, `KEY`, `NONCE` of `Model/X86Sse.lean`) and everything else arbitrary -/
def entryXorIc (g0 : Gprs) (x : Xmms) (cf zf : Bool) (mem : Mem) (c mp len ic : UInt64) : State :=
  { g := { g0 with rsp := RSP0, rdi := c, rsi := mp, rdx := len, rcx := NONCE, r8 := ic, r9 := KEY }
    x := x, cf := cf, zf := zf, mem := mem, pc := entry_xor_ic, halted := false, fault := false }

/-- the state after the 52 instructions from the entry to the `cmp $256,%r9` that selects the path -/
theorem prologue_run (g0 : Gprs) (x : Xmms) (cf zf : Bool) (mem : Mem) (c mp len ic : UInt64) (hlen : len ≠ 0) :
    let s := run prog 52 (entryXorIc g0 x cf zf mem c mp len ic)
    frameCtx s = ⟨0x61707865, 0x3320646e, 0x79622d32, 0x6b206574,
                  mem.read32 1044, mem.read32 1024, mem.read32 1056, mem.read32 1040,
                  ic.toUInt32, mem.read32 1048, mem.read32 1028, mem.read32 1060,
                  mem.read32 1036, (ic >>> 32).toUInt32, mem.read32 1052, mem.read32 1032⟩ ∧
    s.pc = 77 ∧ s.halted = false ∧ s.fault = false ∧ s.g.rsp = 480 ∧ s.g.r9 = len ∧ s.g.rsi = mp ∧ s.g.rdi = c ∧
    s.mem.read64 952 = ic := by
  simp only [entryXorIc, RSP0, KEY, NONCE, entry_xor_ic]
  asm_step fetch_25
  asm_step fetch_26
  asm_step fetch_27
  asm_step fetch_28
  asm_step fetch_29
  asm_step fetch_30
  asm_step fetch_31
  asm_step fetch_32
  asm_step fetch_33
  asm_step fetch_34
  asm_step fetch_35
  asm_step fetch_36
  asm_step fetch_37
  asm_step fetch_38
  asm_step fetch_39
  asm_step fetch_40
  asm_step fetch_41
  asm_step fetch_42
  asm_step fetch_43
  rw [run_step _ _ _ _ rfl fetch_44]
  have h1 : ¬ len < 0 := by simp [UInt64.lt_iff_toNat_lt]
  simp only [step, Cond.holds, Bool.or_eq_true, decide_eq_true_eq, beq_iff_eq, h1, hlen, or_self, if_false, Nat.reduceAdd]
  asm_step fetch_45
  asm_step fetch_46
  asm_step fetch_47
  asm_step fetch_48
  asm_step fetch_49
  asm_step fetch_50
  asm_step fetch_51
  asm_step fetch_52
  asm_step fetch_53
  asm_step fetch_54
  asm_step fetch_55
  asm_step fetch_56
  asm_step fetch_57
  asm_step fetch_58
  asm_step fetch_59
  asm_step fetch_60
  asm_step fetch_61
  asm_step fetch_62
  asm_step fetch_63
  asm_step fetch_64
  asm_step fetch_65
  asm_step fetch_66
  asm_step fetch_67
  asm_step fetch_68
  asm_step fetch_69
  asm_step fetch_70
  asm_step fetch_71
  asm_step fetch_72
  asm_step fetch_73
  asm_step fetch_74
  asm_step fetch_75
  asm_step fetch_76
  simp (disch := omega) only [run_zero, frameCtx, UInt64.reduceToNat, Nat.reduceAdd, read32_write32_same',
    read32_write32_disj, ChachaSimdP.q_join, and_true]
  rfl

/-- the memory holds the byte string `b` at address `a` -/
def holdsBytes (mem : Mem) (a : Nat) (b : Bytes) : Prop := ∀ i, i < b.length → mem.read8 (a + i) = b.getD i 0

theorem read32_of_holds (mem : Mem) (a : Nat) (b : Bytes) (h : holdsBytes mem a b) (i : Nat) (hi : i + 4 ≤ b.length) :
    mem.read32 (a + i) = load32_le (b.drop i) := by
  have e0 := h i (by omega)
  have e1 := h (i + 1) (by omega)
  have e2 := h (i + 2) (by omega)
  have e3 := h (i + 3) (by omega)
  simp only [← Nat.add_assoc] at e1 e2 e3
  simp only [Mem.read32, load32_le, e0, e1, e2, e3, List.getD_eq_getElem?_getD, List.getElem?_drop, Nat.add_zero]

/-! ### the driver's initial memory holds the key and the nonce -/

theorem zeros_length (n : Nat) : (zeros n).length = n := List.length_replicate ..

theorem initMem_holds_key (key nonce m : Bytes) (hk : key.length = 32) : holdsBytes (initMem key nonce m) 1024 key := by
  intro i hi
  have e : (key ++ zeros 32).take 32 = key := by
    rw [List.take_append_of_le_length (by omega), List.take_of_length_le (by omega)]
  simp only [Mem.read8, initMem, e, Array.getD_eq_getD_getElem?, List.getD_eq_getElem?_getD]
  rw [Array.getElem?_append_left (by simp only [List.size_toArray, List.length_append, zeros_length]; omega)]
  simp only [List.getElem?_toArray]
  rw [List.getElem?_append_right (by simp only [zeros_length]; omega), List.getElem?_append_left (by simp only [zeros_length]; omega)]
  simp only [zeros_length, Nat.add_sub_cancel_left]

theorem initMem_holds_nonce (key nonce m : Bytes) (hk : key.length = 32) (hn : nonce.length = 8) :
    holdsBytes (initMem key nonce m) 1056 nonce := by
  intro i hi
  have e : (nonce ++ zeros 8).take 8 = nonce := by
    rw [List.take_append_of_le_length (by omega), List.take_of_length_le (by omega)]
  have e2 : (key ++ zeros 32).take 32 = key := by
    rw [List.take_append_of_le_length (by omega), List.take_of_length_le (by omega)]
  simp only [Mem.read8, initMem, e, e2, Array.getD_eq_getD_getElem?, List.getD_eq_getElem?_getD]
  rw [Array.getElem?_append_left (by simp only [List.size_toArray, List.length_append, zeros_length]; omega)]
  simp only [List.getElem?_toArray]
  rw [List.getElem?_append_right (by simp only [zeros_length]; omega), List.getElem?_append_right (by simp only [zeros_length]; omega),
    List.getElem?_append_left (by simp only [zeros_length]; omega)]
  simp only [zeros_length, hk]
  rw [show 1056 + i - 1024 - 32 = i by omega]

end Sodium.X86SseP
