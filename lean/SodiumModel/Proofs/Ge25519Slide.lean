import Mathlib.Tactic.Ring
import Mathlib.Tactic.IntervalCases
import Mathlib.Tactic.LinearCombination
import SodiumModel.Proofs.Ge25519Group
import SodiumModel.Proofs.Utils
open Sodium Sodium.Model.Ge25519
namespace Sodium.Ge25519P

/-- entry j of r as an integer -/
def dg (r : List Int8) (j : Nat) : Int := (r.getD j 0).toInt

theorem getD_set (r : List Int8) (k j : Nat) (v : Int8) :
    (r.set k v).getD j 0 = if j = k ∧ k < r.length then v else r.getD j 0 := by
  simp only [List.getD_eq_getElem?_getD, List.getElem?_set]
  by_cases h : k = j
  · subst h
    by_cases hk : k < r.length
    · simp [hk]
    · simp [hk]
  · have : ¬ (j = k) := fun e => h e.symm
    simp [h, this]

theorem sumTo_update (f : Nat → Int) (β : Int) (k : Nat) (v : Int) (n : Nat) (hk : k < n) :
    sumTo (fun j => if j = k then v else f j) β n = sumTo f β n + (v - f k) * β ^ k := by
  induction n with
  | zero => omega
  | succ n ih =>
    by_cases h : k = n
    · subst h
      rw [sumTo, sumTo, sumTo_congr (g := f) (fun j hj => by simp [Nat.ne_of_lt hj])]
      simp; ring
    · rw [sumTo, sumTo, ih (by omega)]
      have : ¬ (n = k) := fun e => h e.symm
      simp [this]; ring

/-- the value Σ_{j<256} r[j]·2^j -/
def V (r : List Int8) : Int := sumTo (dg r) 2 256

theorem V_set (r : List Int8) (hlen : r.length = 256) (k : Nat) (hk : k < 256) (v : Int8) :
    V (r.set k v) = V r + (v.toInt - dg r k) * 2 ^ k := by
  unfold V
  rw [← sumTo_update (dg r) 2 k v.toInt 256 hk]
  apply sumTo_congr
  intro j _
  unfold dg
  rw [getD_set]
  by_cases h : j = k
  · simp [h, hlen, hk]
  · simp [h]

theorem dg_set (r : List Int8) (hlen : r.length = 256) (k j : Nat) (hk : k < 256) (v : Int8) :
    dg (r.set k v) j = if j = k then v.toInt else dg r j := by
  unfold dg; rw [getD_set]
  by_cases h : j = k
  · simp [h, hlen, hk]
  · simp [h]

def Bit (x : Int8) : Prop := x = 0 ∨ x = 1
def OddDigit (x : Int8) : Prop := x.toInt % 2 = 1 ∧ -15 ≤ x.toInt ∧ x.toInt ≤ 15

instance (x : Int8) : Decidable (OddDigit x) := by unfold OddDigit; infer_instance

/-- the arithmetic of one inner-loop step, for every b in 1..6 and every odd digit x = r[i] (r[i+b] = 1) -/
theorem slide_arith : ∀ b : Fin 7, 1 ≤ b.val → ∀ x : Int8, OddDigit x →
    let ribs : Int32 := (1 : Int8).toInt32 <<< Int32.ofNat b.val
    ((x.toInt32 + ribs ≤ 15) → OddDigit (x.toInt32 + ribs).toInt8 ∧ (x.toInt32 + ribs).toInt8.toInt = x.toInt + 2 ^ b.val) ∧
    (¬ (x.toInt32 + ribs ≤ 15) → ¬ (x.toInt32 - ribs < -15) →
      OddDigit (x.toInt32 - ribs).toInt8 ∧ (x.toInt32 - ribs).toInt8.toInt = x.toInt - 2 ^ b.val) := by
  decide +kernel

theorem bit_cases : ∀ x : Int8, Bit x → x ≠ 0 → x = 1 := by
  intro x h h0; rcases h with h | h
  · exact absurd h h0
  · exact h


/-- inside the b-loop at index i: digits below i final, r[i] an odd digit, entries above i still bits -/
structure InvIn (i : Nat) (r : List Int8) : Prop where
  len : r.length = 256
  lo : ∀ j, j < i → SlideDigit (r.getD j 0)
  cur : OddDigit (r.getD i 0)
  hi : ∀ j, i < j → j < 256 → Bit (r.getD j 0)

/-- at the head of the outer loop at index i -/
structure Inv (i : Nat) (r : List Int8) : Prop where
  len : r.length = 256
  lo : ∀ j, j < i → SlideDigit (r.getD j 0)
  hi : ∀ j, i ≤ j → j < 256 → Bit (r.getD j 0)

theorem V_set' (r : List Int8) (hlen : r.length = 256) (k : Nat) (hk : k < 256) (v : Int8) :
    V (r.set k v) = V r + (v.toInt - (r.getD k 0).toInt) * 2 ^ k := V_set r hlen k hk v

theorem getD_set_eq (r : List Int8) (k : Nat) (hk : k < r.length) (v : Int8) : (r.set k v).getD k 0 = v := by
  rw [getD_set]; simp [hk]

theorem getD_set_ne (r : List Int8) (k j : Nat) (h : j ≠ k) (v : Int8) : (r.set k v).getD j 0 = r.getD j 0 := by
  rw [getD_set]; simp [h]

theorem toInt_one : ((1 : Int8).toInt) = 1 := rfl
theorem toInt_zero : ((0 : Int8).toInt) = 0 := rfl

theorem slideCarry_succ (fuel k : Nat) (r : List Int8) : slideCarry (fuel + 1) k r =
    if k < 256 then (if r.getD k 0 = 0 then r.set k 1 else slideCarry fuel (k + 1) (r.set k 0)) else r := rfl

theorem slideCarry_spec (fuel : Nat) : ∀ (k : Nat) (r : List Int8), r.length = 256 → k ≤ 256 → 256 ≤ k + fuel →
    (∀ j, k ≤ j → j < 256 → Bit (r.getD j 0)) →
    (slideCarry fuel k r).length = 256 ∧ (∀ j, j < k → (slideCarry fuel k r).getD j 0 = r.getD j 0) ∧
    (∀ j, k ≤ j → j < 256 → Bit ((slideCarry fuel k r).getD j 0)) ∧
    (∃ t : Nat, V (slideCarry fuel k r) + 2 ^ 256 * t = V r + 2 ^ k) := by
  induction fuel with
  | zero =>
    intro k r hlen hk hf hb
    have : k = 256 := by omega
    subst this
    have e : slideCarry 0 256 r = r := rfl
    rw [e]
    exact ⟨hlen, fun j _ => rfl, hb, 1, by simp⟩
  | succ fuel ih =>
    intro k r hlen hk hf hb
    rw [slideCarry_succ]
    by_cases hk2 : k < 256
    · rw [if_pos hk2]
      by_cases h0 : r.getD k 0 = 0
      · rw [if_pos h0]
        refine ⟨by simp [hlen], fun j hj => ?_, fun j h1 h2 => ?_, 0, ?_⟩
        · exact getD_set_ne r k j (by omega) 1
        · by_cases e : j = k
          · subst e; rw [getD_set_eq r j (by omega)]; right; rfl
          · rw [getD_set_ne r k j e]; exact hb j h1 h2
        · rw [V_set' r hlen k hk2, h0, toInt_one, toInt_zero]; simp
      · have h1 : r.getD k 0 = 1 := bit_cases _ (hb k (Nat.le_refl _) hk2) h0
        rw [if_neg h0]
        have hlen' : (r.set k 0).length = 256 := by simp [hlen]
        obtain ⟨a1, a2, a3, t, a4⟩ := ih (k + 1) (r.set k 0) hlen' (by omega) (by omega) (fun j h1 h2 => by
          rw [getD_set_ne r k j (by omega)]; exact hb j (by omega) h2)
        refine ⟨a1, fun j hj => ?_, fun j h1 h2 => ?_, t, ?_⟩
        · rw [a2 j (by omega), getD_set_ne r k j (by omega)]
        · by_cases e : j = k
          · subst e; rw [a2 j (by omega), getD_set_eq r j (by omega)]; left; rfl
          · exact a3 j (by omega) h2
        · rw [a4, V_set' r hlen k hk2, h1, toInt_one, toInt_zero]; ring
    · have : k = 256 := by omega
      subst this
      rw [if_neg hk2]
      exact ⟨hlen, fun j _ => rfl, hb, 1, by simp⟩

theorem oddDigit_ne_zero {x : Int8} (h : OddDigit x) : x ≠ 0 := by
  intro e; subst e; have := h.1; revert this; decide

theorem slideInner_succ (i fuel b : Nat) (r : List Int8) : slideInner i (fuel + 1) b r =
    if b ≤ 6 ∧ i + b < 256 then
      (if r.getD (i + b) 0 = 0 then slideInner i fuel (b + 1) r
       else if (r.getD i 0).toInt32 + ((r.getD (i + b) 0).toInt32 <<< Int32.ofNat b) ≤ 15 then
          slideInner i fuel (b + 1)
            ((r.set i ((r.getD i 0).toInt32 + ((r.getD (i + b) 0).toInt32 <<< Int32.ofNat b)).toInt8).set (i + b) 0)
       else if (r.getD i 0).toInt32 - ((r.getD (i + b) 0).toInt32 <<< Int32.ofNat b) < -15 then r
       else slideInner i fuel (b + 1) (slideCarry (256 - (i + b)) (i + b)
            (r.set i ((r.getD i 0).toInt32 - ((r.getD (i + b) 0).toInt32 <<< Int32.ofNat b)).toInt8)))
    else r := rfl

theorem slideInner_spec (i : Nat) (hi : i < 256) (fuel : Nat) : ∀ (b : Nat) (r : List Int8), 1 ≤ b → InvIn i r →
    InvIn i (slideInner i fuel b r) ∧ ∃ t : Nat, V (slideInner i fuel b r) + 2 ^ 256 * t = V r := by
  induction fuel with
  | zero => intro b r _ h; exact ⟨h, 0, by simp [slideInner]⟩
  | succ fuel ih =>
    intro b r hb h
    rw [slideInner_succ]
    by_cases hc : b ≤ 6 ∧ i + b < 256
    · rw [if_pos hc]
      by_cases h0 : r.getD (i + b) 0 = 0
      · rw [if_pos h0]
        exact ih (b + 1) r (by omega) h
      · have h1 : r.getD (i + b) 0 = 1 := bit_cases _ (h.hi (i + b) (by omega) hc.2) h0
        obtain ⟨A, S⟩ := slide_arith ⟨b, by omega⟩ hb (r.getD i 0) h.cur
        rw [if_neg h0, h1]
        by_cases hadd : (r.getD i 0).toInt32 + ((1 : Int8).toInt32 <<< Int32.ofNat b) ≤ 15
        · rw [if_pos hadd]
          obtain ⟨hod, hval⟩ := A hadd
          generalize hx : ((r.getD i 0).toInt32 + ((1 : Int8).toInt32 <<< Int32.ofNat b)).toInt8 = x at hod hval ⊢
          have hlen1 : (r.set i x).length = 256 := by simp [h.len]
          have inv' : InvIn i ((r.set i x).set (i + b) 0) := by
            refine ⟨by simp [h.len], fun j hj => ?_, ?_, fun j h1 h2 => ?_⟩
            · rw [getD_set_ne _ _ j (by omega), getD_set_ne _ _ j (by omega)]; exact h.lo j hj
            · rw [getD_set_ne _ _ i (by omega), getD_set_eq r i (by rw [h.len]; exact hi)]; exact hod
            · by_cases e : j = i + b
              · subst e; rw [getD_set_eq _ _ (by omega)]; left; rfl
              · rw [getD_set_ne _ _ j e, getD_set_ne _ _ j (by omega)]; exact h.hi j h1 h2
          obtain ⟨r1, t, r2⟩ := ih (b + 1) _ (by omega) inv'
          refine ⟨r1, t, ?_⟩
          rw [r2, V_set' _ hlen1 (i + b) hc.2, V_set' r h.len i hi, hval, getD_set_ne r i (i + b) (by omega), h1,
            toInt_one, toInt_zero]
          have hp : (2 : Int) ^ (i + b) = 2 ^ i * 2 ^ b := pow_add 2 i b
          show _ + (_ + 2 ^ b - _) * _ + _ = _
          linear_combination (-1 : Int) * hp
        · rw [if_neg hadd]
          by_cases hbrk : (r.getD i 0).toInt32 - ((1 : Int8).toInt32 <<< Int32.ofNat b) < -15
          · rw [if_pos hbrk]; exact ⟨h, 0, by simp⟩
          · rw [if_neg hbrk]
            obtain ⟨hod, hval⟩ := S hadd hbrk
            generalize hx : ((r.getD i 0).toInt32 - ((1 : Int8).toInt32 <<< Int32.ofNat b)).toInt8 = x at hod hval ⊢
            have hlen1 : (r.set i x).length = 256 := by simp [h.len]
            obtain ⟨c1, c2, c3, tc, c4⟩ := slideCarry_spec (256 - (i + b)) (i + b) (r.set i x) hlen1 (by omega) (by omega)
              (fun j h1 h2 => by rw [getD_set_ne _ _ j (by omega)]; exact h.hi j (by omega) h2)
            have inv' : InvIn i (slideCarry (256 - (i + b)) (i + b) (r.set i x)) := by
              refine ⟨c1, fun j hj => ?_, ?_, fun j h1 h2 => ?_⟩
              · rw [c2 j (by omega), getD_set_ne _ _ j (by omega)]; exact h.lo j hj
              · rw [c2 i (by omega), getD_set_eq r i (by rw [h.len]; exact hi)]; exact hod
              · by_cases e : j < i + b
                · rw [c2 j e, getD_set_ne _ _ j (by omega)]; exact h.hi j h1 h2
                · exact c3 j (by omega) h2
            obtain ⟨r1, t, r2⟩ := ih (b + 1) _ (by omega) inv'
            refine ⟨r1, t + tc, ?_⟩
            have c4' := c4
            rw [V_set' r h.len i hi, hval] at c4'
            have hp : (2 : Int) ^ (i + b) = 2 ^ i * 2 ^ b := pow_add 2 i b
            have hv : (2 : Int) ^ ((⟨b, by omega⟩ : Fin 7) : Nat) = 2 ^ b := rfl
            rw [hv] at c4'
            push_cast
            linear_combination r2 + c4' + hp
    · rw [if_neg hc]
      exact ⟨h, 0, by simp⟩

theorem slideOuter_spec (n : Nat) : ∀ (i : Nat) (r : List Int8), i + n = 256 → Inv i r →
    Inv 256 (slideOuter n i r) ∧ ∃ t : Nat, V (slideOuter n i r) + 2 ^ 256 * t = V r := by
  induction n with
  | zero => intro i r hi h; have : i = 256 := by omega
            subst this; exact ⟨h, 0, by simp [slideOuter]⟩
  | succ n ih =>
    intro i r hi h
    rw [slideOuter]
    by_cases h0 : r.getD i 0 = 0
    · rw [if_pos h0]
      exact ih (i + 1) r (by omega) ⟨h.len, fun j hj => by
        by_cases e : j = i
        · subst e; left; exact h0
        · exact h.lo j (by omega), fun j h1 h2 => h.hi j (by omega) h2⟩
    · rw [if_neg h0]
      have h1 : r.getD i 0 = 1 := bit_cases _ (h.hi i (Nat.le_refl _) (by omega)) h0
      have hin : InvIn i r := ⟨h.len, h.lo, by rw [h1]; decide, fun j h1 h2 => h.hi j (by omega) h2⟩
      obtain ⟨a, t, e⟩ := slideInner_spec i (by omega) 6 1 r (Nat.le_refl _) hin
      obtain ⟨b, t', e'⟩ := ih (i + 1) _ (by omega) ⟨a.len, fun j hj => by
        by_cases e : j = i
        · subst e; right; exact a.cur
        · exact a.lo j (by omega), fun j h1 h2 => a.hi j (by omega) h2⟩
      exact ⟨b, t' + t, by push_cast; linear_combination e' + e⟩


/-! ### the initial bit array -/

/-- `1 & (a[k >> 3] >> (k & 7))` as a `signed char` -/
def bitval (a : Bytes) (k : Nat) : Int8 :=
  ((1 : Int32) &&& (Model.Sign.u8i (a.getD (k >>> 3) 0) >>> (Int32.ofNat (k &&& 7)))).toInt8

theorem slideBits_length (a : Bytes) (n i : Nat) : (slideBits a n i).length = n := by
  induction n generalizing i with
  | zero => rfl
  | succ n ih => simp [slideBits, ih]

theorem slideBits_getD (a : Bytes) (n : Nat) : ∀ i j, j < n → (slideBits a n i).getD j 0 = bitval a (i + j) := by
  induction n with
  | zero => intro i j h; omega
  | succ n ih =>
    intro i j hj
    cases j with
    | zero => rfl
    | succ j =>
      show (slideBits a n (i + 1)).getD j 0 = _
      rw [ih (i + 1) j (by omega)]; congr 1; omega

theorem bit_extract : ∀ x : UInt8, ∀ s : Fin 8,
    (((1 : Int32) &&& (Model.Sign.u8i x >>> Int32.ofNat s.val)).toInt8 = 0 ∨
      ((1 : Int32) &&& (Model.Sign.u8i x >>> Int32.ofNat s.val)).toInt8 = 1) ∧
    (((1 : Int32) &&& (Model.Sign.u8i x >>> Int32.ofNat s.val)).toInt8).toInt = ((x.toNat / 2 ^ s.val % 2 : Nat) : Int) := by
  decide +kernel

theorem bitval_spec (a : Bytes) (k : Nat) :
    Bit (bitval a k) ∧ (bitval a k).toInt = (((a.getD (k / 8) 0).toNat / 2 ^ (k % 8) % 2 : Nat) : Int) := by
  have h1 : k >>> 3 = k / 8 := by rw [Nat.shiftRight_eq_div_pow]
  have h2 : k &&& 7 = k % 8 := Nat.and_two_pow_sub_one_eq_mod k 3
  unfold bitval
  rw [h1, h2]
  exact bit_extract (a.getD (k / 8) 0) ⟨k % 8, Nat.mod_lt _ (by decide)⟩

theorem le_div_getD (a : Bytes) : ∀ q, q < a.length → le a / 256 ^ q % 256 = (a.getD q 0).toNat := by
  induction a with
  | nil => intro q h; simp at h
  | cons x xs ih =>
    intro q hq
    have hx := x.toNat_lt
    cases q with
    | zero => simp [le]
    | succ q =>
      have : le (x :: xs) / 256 ^ (q + 1) = le xs / 256 ^ q := by
        rw [pow_succ, Nat.mul_comm, ← Nat.div_div_eq_div_mul]
        congr 1; simp [le]; omega
      rw [this, ih q (by simpa using hq)]; rfl

theorem bit_of_le (a : Bytes) (k : Nat) (hk : k < 8 * a.length) :
    (a.getD (k / 8) 0).toNat / 2 ^ (k % 8) % 2 = le a / 2 ^ k % 2 := by
  have hq := le_div_getD a (k / 8) (by omega)
  have e : 2 ^ k = 256 ^ (k / 8) * 2 ^ (k % 8) := by
    rw [show (256 : Nat) = 2 ^ 8 by norm_num, ← pow_mul, ← pow_add]; congr 1; omega
  rw [← hq, e, ← Nat.div_div_eq_div_mul]
  generalize le a / 256 ^ (k / 8) = M
  have hs : k % 8 < 8 := Nat.mod_lt _ (by decide)
  generalize k % 8 = s at hs
  interval_cases s <;> omega

theorem sumTo_bits (N n : Nat) : sumTo (fun j => ((N / 2 ^ j % 2 : Nat) : Int)) 2 n = ((N % 2 ^ n : Nat) : Int) := by
  induction n with
  | zero => simp [sumTo, Nat.mod_one]
  | succ n ih =>
    rw [sumTo, ih, Nat.mod_pow_succ]
    push_cast; ring

theorem slideBits_inv (a : Bytes) : Inv 0 (slideBits a 256 0) :=
  ⟨slideBits_length a 256 0, fun j hj => absurd hj (Nat.not_lt_zero _), fun j _ h2 => by
    rw [slideBits_getD a 256 0 j h2]; exact (bitval_spec a _).1⟩

theorem slideBits_V (a : Bytes) (ha : a.length = 32) : V (slideBits a 256 0) = le a := by
  have hlt : le a < 2 ^ 256 := by
    have := Sodium.le_lt a; rw [ha] at this; exact this
  unfold V
  rw [sumTo_congr (g := fun j => ((le a / 2 ^ j % 2 : Nat) : Int)) (fun j hj => by
    unfold dg
    rw [slideBits_getD a 256 0 j hj, (bitval_spec a _).2, Nat.zero_add, bit_of_le a j (by omega)])]
  rw [sumTo_bits, Nat.mod_eq_of_lt hlt]

/-- `slide_vartime`: 256 digits, each zero or odd with |digit| ≤ 15, and Σ r[i]·2^i = a − 2^256·t where `t` is
    the number of carries that ran off the end of the array -/
theorem slide_vartime_spec (a : Bytes) (ha : a.length = 32) :
    (slide_vartime a).length = 256 ∧ (∀ j, SlideDigit ((slide_vartime a).getD j 0)) ∧
    ∃ t : Nat, slideVal (slide_vartime a) + 2 ^ 256 * t = le a := by
  obtain ⟨inv, t, e⟩ := slideOuter_spec 256 0 (slideBits a 256 0) rfl (slideBits_inv a)
  refine ⟨inv.len, fun j => ?_, t, ?_⟩
  · by_cases hj : j < 256
    · exact inv.lo j hj
    · left
      have : (slide_vartime a).length ≤ j := by have := inv.len; unfold slide_vartime; omega
      simp [List.getD_eq_getElem?_getD, List.getElem?_eq_none this]
  · rw [← slideBits_V a ha]; exact e

/-- the digit property does not need the length of `a` -/
theorem slide_vartime_digits (a : Bytes) (j : Nat) : SlideDigit ((slide_vartime a).getD j 0) := by
  obtain ⟨inv, _⟩ := slideOuter_spec 256 0 (slideBits a 256 0) rfl (slideBits_inv a)
  by_cases hj : j < 256
  · exact inv.lo j hj
  · left
    have : (slide_vartime a).length ≤ j := by have := inv.len; unfold slide_vartime; omega
    simp [List.getD_eq_getElem?_getD, List.getElem?_eq_none this]

end Sodium.Ge25519P
