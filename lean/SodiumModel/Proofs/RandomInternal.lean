import SodiumModel.Model.RandomInternal
import SodiumModel.Properties.C03Cores
/-
  Helper lemmas for Properties/C18Internal.lean (namespace RngP).
-/
namespace Sodium.RngP
open Sodium Sodium.Model Sodium.Model.RngInt

/-! ### bytes -/

theorem zeros_length (n : Nat) : (zeros n).length = n := by simp [zeros]

theorem fit_length (n : Nat) (b : Bytes) : (fit n b).length = n := by
  simp [fit, zeros]

theorem xorBytes_length : ∀ a b : Bytes, (xorBytes a b).length = min a.length b.length
  | [], b => by cases b <;> simp [xorBytes]
  | _ :: _, [] => by simp [xorBytes]
  | _ :: xs, _ :: ys => by simp [xorBytes, xorBytes_length xs ys]

theorem toLE_length : ∀ n v : Nat, (toLE n v).length = n
  | 0, _ => rfl
  | n + 1, v => by simp [toLE, toLE_length n]

theorem setRange_length (l : Bytes) (off : Nat) (v : Bytes) (h : off + v.length ≤ l.length) :
    (setRange l off v).length = l.length := by
  simp [setRange]; omega

theorem setRange_drop (l : Bytes) (off : Nat) (v : Bytes) (h : off ≤ l.length) :
    (setRange l off v).drop off = v ++ l.drop (off + v.length) := by
  have : (l.take off).length = off := by simp; omega
  rw [setRange, List.append_assoc, List.drop_append, this]
  simp

theorem setRange_take (l : Bytes) (off : Nat) (v : Bytes) (h : off ≤ l.length) :
    (setRange l off v).take off = l.take off := by
  have : (l.take off).length = off := by simp; omega
  rw [setRange, List.append_assoc, List.take_append, this]
  simp [List.take_take]

theorem zeros_append (a b : Nat) : zeros a ++ zeros b = zeros (a + b) := by
  simp [zeros]

/-! ### the cipher -/

/-- what the generator needs from the stream cipher: output lengths -/
structure CipherWF (C : Cipher) : Prop where
  stream_len : ∀ n nc k, (C.stream n nc k).length = n
  xor_len : ∀ m nc k, (C.xor m nc k).length = m.length

theorem specStreamOrig_length (k n : Bytes) (len : Nat) : (C03Cores.specStreamOrig k n 0 len).length = len := by
  have := Sodium.streamFrom_length (fun i => Spec.Chacha.blockOrig k n (i % 2 ^ 64)) (fun i => by
    rw [Spec.Chacha.blockOrig]; exact C03Cores.blockWords_length ..) 0 len
  simpa [C03Cores.specStreamOrig] using this

theorem chacha20_wf : CipherWF chacha20 where
  stream_len := fun n nc k => by
    show (CoresRef.stream_ref n nc k).length = n
    rw [C03Cores.stream_ref_spec, specStreamOrig_length]
  xor_len := fun m nc k => by
    show (CoresRef.stream_ref_xor_ic m nc 0 k).length = m.length
    rw [C03Cores.stream_ref_xor_ic_spec, xorBytes_length]
    have : (0 : UInt64).toNat = 0 := rfl
    rw [this, Nat.mul_zero, specStreamOrig_length]; omega

/-! ### the Res monad, the entropy source, stir -/

@[simp] theorem bind_ok {α β} (a : α) (f : α → Res β) : (Res.ok a).bind f = f a := rfl
@[simp] theorem bind_misuse {α β} (c : Ctr) (f : α → Res β) : (Res.misuse c : Res α).bind f = .misuse c := rfl
@[simp] theorem bind_assert {α β} (c : Ctr) (f : α → Res β) : (Res.assertFail c : Res α).bind f = .assertFail c := rfl

theorem bind_eq_ok {α β} (r : Res α) (f : α → Res β) (b : β) (h : r.bind f = .ok b) :
    ∃ a, r = .ok a ∧ f a = .ok b := by
  cases r <;> simp_all [Res.bind]

theorem rge_small (E : Env) (n : Nat) (h0 : 0 < n) (h : n < 256) (st : St) :
    randombytes_getentropy E n st =
      .ok ((E.getentropy st.c.ent.length n).map (fit n), { st with c := { st.c with ent := st.c.ent ++ [n] } }) := by
  have hf : n / 256 + 1 = 1 := by omega
  have h1 : ¬ (n < 256 ∧ n = 0) := by omega
  have h2 : ¬ n > 256 := by omega
  have h3 : ¬ n = 0 := by omega
  rw [randombytes_getentropy, hf]
  cases hg : E.getentropy st.c.ent.length n <;>
    simp [getentropyLoop, getentropy1, h, h2, h3, hg]

theorem init_eq (E : Env) (st : St) : init E st =
    match E.getentropy st.c.ent.length 16 with
    | some _ => .ok { st with g := { st.g with rdrandAvail := E.hasRdrand, getentropyAvail := true, getrandomAvail := false },
                              c := { st.c with ent := st.c.ent ++ [16] } }
    | none =>
      match E.devOpen st.c.opn with
      | none => .misuse { st.c with ent := st.c.ent ++ [16], opn := st.c.opn + 1 }
      | some fd => .ok { st with g := { st.g with rdrandAvail := E.hasRdrand, getentropyAvail := false, getrandomAvail := false, fd := fd },
                                 c := { st.c with ent := st.c.ent ++ [16], opn := st.c.opn + 1 } } := by
  unfold init
  simp only [rge_small E 16 (by decide) (by decide)]
  cases hg : E.getentropy st.c.ent.length 16
  · simp only [Option.map_none]
    cases hd : E.devOpen st.c.opn <;> rfl
  · rfl

theorem init_s (E : Env) (st st' : St) (h : init E st = .ok st') : st'.s = st.s := by
  rw [init_eq] at h
  split at h
  · cases h; rfl
  · split at h
    · cases h
    · cases h; rfl

theorem hrtime_ok (E : Env) (st : St) (r : UInt64 × St) (h : hrtime E st = .ok r) :
    r.2 = { st with c := { st.c with time := st.c.time + 1 } } := by
  unfold hrtime at h
  split at h
  · cases h
  · cases h; rfl

theorem stirInit_s (E : Env) (st st' : St) (h : stirInit E st = .ok st') : st'.s = st.s := by
  unfold stirInit at h
  split at h
  · cases h; rfl
  · obtain ⟨a, ha, hb⟩ := bind_eq_ok _ _ _ h
    cases hb; exact init_s E st a ha

theorem stirSeed_post (E : Env) (st st' : St) (h : stirSeed E st = .ok st') (hk : st.s.key.length = 32) :
    st'.s.key.length = 32 ∧ st'.s.outleft = st.s.outleft ∧ st'.s.rnd32 = st.s.rnd32 ∧ st'.s.nonce = st.s.nonce := by
  unfold stirSeed at h
  split at h
  · rw [rge_small E 32 (by decide) (by decide)] at h
    simp only [bind_ok] at h
    split at h
    · cases h
    · rename_i k hk2
      cases h
      cases hg : E.getentropy st.c.ent.length 32
      · simp [hg] at hk2
      · simp [hg] at hk2; subst hk2; simp [fit_length]
  · cases h; simp [hk]

theorem stir_post (E : Env) (st st' : St) (h : stir E st = .ok st') (hk : st.s.key.length = 32) :
    st'.s.initialized = true ∧ st'.s.outleft = 0 ∧ st'.s.rnd32 = zeros 512 ∧ st'.s.key.length = 32 ∧ st'.s.nonce ≠ 0 := by
  unfold stir at h
  obtain ⟨r, hr, h⟩ := bind_eq_ok _ _ _ h
  have h1 := hrtime_ok E st r hr
  split at h
  · cases h
  · rename_i hne
    obtain ⟨st2, h2, h⟩ := bind_eq_ok _ _ _ h
    obtain ⟨st3, h3, h⟩ := bind_eq_ok _ _ _ h
    cases h
    have e2 := stirInit_s E _ st2 h2
    have e3 := stirSeed_post E _ st3 h3 (by show st2.s.key.length = 32; rw [e2, stirReset, h1]; exact hk)
    obtain ⟨a, b, c, d⟩ := e3
    refine ⟨rfl, ?_, ?_, a, ?_⟩
    · show st3.s.outleft = 0; rw [b]; show st2.s.outleft = 0; rw [e2]; rfl
    · show st3.s.rnd32 = _; rw [c]; show st2.s.rnd32 = _; rw [e2]; rfl
    · show st3.s.nonce ≠ 0; rw [d]; show st2.s.nonce ≠ 0; rw [e2]; exact hne

/-! ### the bookkeeping invariant -/

/-- `rnd32_outleft ≤ sizeof rnd32 − sizeof key`, a multiple of 4; `key` and `rnd32` have their declared sizes; every
    byte of `rnd32` at or above the watermark `rnd32_outleft` is zero (handed out or used as key material, then erased) -/
structure Inv (st : St) : Prop where
  key_len : st.s.key.length = 32
  pool_len : st.s.rnd32.length = 512
  out_le : st.s.outleft.toNat ≤ 480
  out_mod : st.s.outleft.toNat % 4 = 0
  zero_above : st.s.rnd32.drop st.s.outleft.toNat = zeros (512 - st.s.outleft.toNat)

theorem inv_of_zero (st : St) (h : st.s = Stream.zero) : Inv st := by
  refine ⟨?_, ?_, ?_, ?_, ?_⟩
  · rw [h]; exact zeros_length 32
  · rw [h]; exact zeros_length 512
  · rw [h]; decide
  · rw [h]; decide
  · rw [h]; show List.drop 0 (zeros 512) = zeros (512 - 0); rfl

theorem inv_init : Inv St.init := inv_of_zero _ rfl

theorem inv_of_s (st st' : St) (h : st'.s = st.s) (hi : Inv st) : Inv st' := by
  obtain ⟨a, b, c, d, e⟩ := hi
  exact ⟨by rw [h]; exact a, by rw [h]; exact b, by rw [h]; exact c, by rw [h]; exact d, by rw [h]; exact e⟩

theorem inv_stir (E : Env) (st st' : St) (h : stir E st = .ok st') (hi : Inv st) : Inv st' := by
  obtain ⟨_, b, c, d, _⟩ := stir_post E st st' h hi.key_len
  refine ⟨d, by rw [c]; exact zeros_length 512, by rw [b]; decide, by rw [b]; rfl, by rw [b, c]; show List.drop 0 (zeros 512) = zeros (512 - 0); rfl⟩

theorem stirIfNeeded_cases (E : Env) (st st' : St) (h : stirIfNeeded E st = .ok st') :
    (st.s.initialized = false ∧ stir E st = .ok st') ∨
    (st.s.initialized = true ∧ st.g.pid = E.getpid st.c.pid ∧ st' = { st with c := { st.c with pid := st.c.pid + 1 } }) := by
  unfold stirIfNeeded at h
  cases hi : st.s.initialized
  · left; simp [hi] at h; exact ⟨rfl, h⟩
  · right
    simp only [hi, Bool.not_true, Bool.false_eq_true, if_false] at h
    split at h
    · cases h
    · rename_i hp
      cases h
      exact ⟨rfl, by simpa using hp, rfl⟩

theorem inv_stirIfNeeded (E : Env) (st st' : St) (h : stirIfNeeded E st = .ok st') (hi : Inv st) : Inv st' := by
  rcases stirIfNeeded_cases E st st' h with ⟨_, h⟩ | ⟨_, _, h⟩
  · exact inv_stir E st st' h hi
  · subst h; exact inv_of_s st _ rfl hi

theorem inv_close (st : St) : Inv (close st).2 := inv_of_zero _ rfl

theorem xorhwrand_s (E : Env) (st : St) (hk : st.s.key.length = 32) :
    (xorhwrand E st).s.key.length = 32 ∧ (xorhwrand E st).s.rnd32 = st.s.rnd32 ∧ (xorhwrand E st).s.outleft = st.s.outleft
      ∧ (xorhwrand E st).s.nonce = st.s.nonce ∧ (xorhwrand E st).s.initialized = st.s.initialized
      ∧ (xorhwrand E st).g = st.g := by
  unfold xorhwrand
  split
  · exact ⟨hk, rfl, rfl, rfl, rfl, rfl⟩
  · refine ⟨?_, rfl, rfl, rfl, rfl, rfl⟩
    show (setRange _ _ _).length = 32
    have hx : (xorBytes (List.take 4 (List.drop 28 st.s.key)) (toLE 4 (E.rdrand st.c.rd).toNat)).length = 4 := by
      rw [xorBytes_length, toLE_length]; simp; omega
    rw [setRange_length _ _ _ (by rw [hx]; omega)]; exact hk

theorem xorsize_length (n : Nat) (key : Bytes) (hk : key.length = 32) : (xorsize n key).length = 32 := by
  have hx : (xorBytes (key.take 8) (toLE 8 n)).length = 8 := by
    rw [xorBytes_length, toLE_length]; simp; omega
  rw [xorsize, setRange_length _ _ _ (by rw [hx]; omega)]; exact hk

theorem inv_bufCore (C : Cipher) (hC : CipherWF C) (E : Env) (n : Nat) (st : St) (hi : Inv st) : Inv (bufCore C E n st).2 := by
  obtain ⟨a, b, c, d, e⟩ := hi
  have hx := xorhwrand_s E { st with s := { st.s with key := xorsize n st.s.key } } (xorsize_length n _ a)
  obtain ⟨x1, x2, x3, x4, x5, x6⟩ := hx
  simp only [bufCore]
  refine ⟨?_, ?_, ?_, ?_, ?_⟩
  · show (C.xor _ _ _).length = 32
    rw [hC.xor_len]; exact x1
  · show (xorhwrand E _).s.rnd32.length = 512; rw [x2]; exact b
  · show (xorhwrand E _).s.outleft.toNat ≤ 480; rw [x3]; exact c
  · show (xorhwrand E _).s.outleft.toNat % 4 = 0; rw [x3]; exact d
  · show (xorhwrand E _).s.rnd32.drop (xorhwrand E _).s.outleft.toNat = _; rw [x2, x3]; exact e

theorem inv_popCore (st : St) (hi : Inv st) (hne : st.s.outleft ≠ 0) : Inv (popCore st).2 := by
  obtain ⟨a, b, c, d, e⟩ := hi
  have h4 : 4 ≤ st.s.outleft.toNat := by
    have : st.s.outleft.toNat ≠ 0 := fun h => hne (UInt64.toNat_inj.mp h)
    omega
  have ho : (st.s.outleft - 4).toNat = st.s.outleft.toNat - 4 := by
    rw [UInt64.toNat_sub_of_le _ _ (by rw [UInt64.le_iff_toNat_le]; exact h4)]; rfl
  simp only [popCore]
  refine ⟨a, ?_, ?_, ?_, ?_⟩
  · show (setRange _ _ _).length = 512
    rw [setRange_length _ _ _ (by rw [zeros_length, ho, b]; omega)]; exact b
  · show (st.s.outleft - 4).toNat ≤ 480; omega
  · show (st.s.outleft - 4).toNat % 4 = 0; omega
  · show (setRange _ _ _).drop (st.s.outleft - 4).toNat = _
    rw [setRange_drop _ _ _ (by rw [ho, b]; omega), zeros_length, ho]
    have : st.s.outleft.toNat - 4 + 4 = st.s.outleft.toNat := by omega
    rw [this, e, zeros_append]; congr 1; omega

theorem refill_facts (C : Cipher) (hC : CipherWF C) (E : Env) (st : St) (hk : st.s.key.length = 32) :
    (refillCore C E st).s.outleft = 480 ∧ (refillCore C E st).s.key.length = 32 ∧
    (refillCore C E st).s.rnd32 = (C.stream 512 (nonceBytes st.s.nonce) st.s.key).take 480 ++ zeros 32 := by
  have hx := xorhwrand_s E { st with s := { st.s with rnd32 := C.stream 512 (nonceBytes st.s.nonce) st.s.key, outleft := 480 } } hk
  obtain ⟨x1, x2, x3, x4, x5, x6⟩ := hx
  have h480 : (480 : UInt64).toNat = 480 := by decide
  have hl := hC.stream_len 512 (nonceBytes st.s.nonce) st.s.key
  simp only [refillCore, xorkey]
  refine ⟨?_, ?_, ?_⟩
  · show (xorhwrand E _).s.outleft = 480; rw [x3]
  · show (xorBytes (xorhwrand E _).s.key _).length = 32
    rw [xorBytes_length, x1, x2, x3]
    simp only [h480, List.length_take, List.length_drop, hl]; omega
  · show setRange (xorhwrand E _).s.rnd32 (xorhwrand E _).s.outleft.toNat (zeros 32) = _
    rw [x2, x3]
    simp only [h480, setRange, zeros_length]
    rw [List.drop_eq_nil_of_le (by rw [hl]; omega)]; simp

theorem inv_refillCore (C : Cipher) (hC : CipherWF C) (E : Env) (st : St) (hi : Inv st) : Inv (refillCore C E st) := by
  obtain ⟨a, b, c⟩ := refill_facts C hC E st hi.key_len
  have hl := hC.stream_len 512 (nonceBytes st.s.nonce) st.s.key
  have h480 : (480 : UInt64).toNat = 480 := by decide
  refine ⟨b, ?_, ?_, ?_, ?_⟩
  · rw [c]; simp [zeros_length, hl]
  · rw [a]; decide
  · rw [a]; decide
  · rw [a, c, h480]
    have : ((C.stream 512 (nonceBytes st.s.nonce) st.s.key).take 480).length = 480 := by simp [hl]
    rw [List.drop_append, this]; simp


/-! ### the invariant over calls and histories -/

theorem outleft_le_zero (o : UInt64) : o ≤ 0 ↔ o = 0 := by
  rw [UInt64.le_iff_toNat_le, ← UInt64.toNat_inj]; simp

theorem inv_buf (C : Cipher) (hC : CipherWF C) (E : Env) (n : Nat) (st : St) (r : Bytes × St)
    (h : buf C E n st = .ok r) (hi : Inv st) : Inv r.2 := by
  obtain ⟨st1, h1, h2⟩ := bind_eq_ok _ _ _ h
  cases h2
  exact inv_bufCore C hC E n st1 (inv_stirIfNeeded E st st1 h1 hi)

theorem refill_outleft_ne (C : Cipher) (hC : CipherWF C) (E : Env) (st : St) (hk : st.s.key.length = 32) :
    (refillCore C E st).s.outleft ≠ 0 := by
  rw [(refill_facts C hC E st hk).1]; decide

theorem inv_random (C : Cipher) (hC : CipherWF C) (E : Env) (st : St) (r : UInt32 × St)
    (h : random C E st = .ok r) (hi : Inv st) : Inv r.2 := by
  unfold random at h
  split at h
  · obtain ⟨st1, h1, h2⟩ := bind_eq_ok _ _ _ h
    cases h2
    have i1 := inv_stirIfNeeded E st st1 h1 hi
    exact inv_popCore _ (inv_refillCore C hC E st1 i1) (refill_outleft_ne C hC E st1 i1.key_len)
  · rename_i hne
    cases h
    exact inv_popCore st hi (fun h0 => hne ((outleft_le_zero _).mpr h0))

theorem inv_step (C : Cipher) (hC : CipherWF C) (E : Env) (c : Call) (st : St) (r : Out × St)
    (h : step C E c st = .ok r) (hi : Inv st) : Inv r.2 := by
  cases c with
  | stir =>
    obtain ⟨st1, h1, h2⟩ := bind_eq_ok _ _ _ h
    cases h2; exact inv_stir E st st1 h1 hi
  | buf n =>
    obtain ⟨r1, h1, h2⟩ := bind_eq_ok _ _ _ h
    cases h2; exact inv_buf C hC E n st r1 h1 hi
  | random =>
    obtain ⟨r1, h1, h2⟩ := bind_eq_ok _ _ _ h
    cases h2; exact inv_random C hC E st r1 h1 hi
  | close =>
    cases h; exact inv_close st

theorem inv_run (C : Cipher) (hC : CipherWF C) (E : Env) : ∀ (cs : List Call) (st st' : St),
    (run C E cs st).2 = .ok st' → Inv st → Inv st'
  | [], st, st', h, hi => by cases h; exact hi
  | c :: cs, st, st', h, hi => by
    unfold run at h
    split at h
    · cases h
    · cases h
    · rename_i o st1 hs
      exact inv_run C hC E cs st1 st' h (inv_step C hC E c st (o, st1) hs hi)

/-- every intermediate state of a history satisfies the invariant: stated through prefixes -/
theorem run_append_ok (C : Cipher) (E : Env) : ∀ (cs ds : List Call) (st st' : St),
    (run C E (cs ++ ds) st).2 = .ok st' → ∃ stm, (run C E cs st).2 = .ok stm
  | [], _, st, _, _ => ⟨st, rfl⟩
  | c :: cs, ds, st, st', h => by
    simp only [List.cons_append] at h
    unfold run at h ⊢
    split at h
    · cases h
    · cases h
    · rename_i o st1 hs
      exact run_append_ok C E cs ds st1 st' h


/-! ### little-endian encodings -/

theorem le_toLE : ∀ n v : Nat, le (toLE n v) = v % 256 ^ n
  | 0, v => by simp [toLE, le, Nat.mod_one]
  | n + 1, v => by
    have h : (UInt8.ofNat (v % 256)).toNat = v % 256 := by simp
    rw [toLE, le, le_toLE n, h, Nat.pow_succ, Nat.mul_comm (256 ^ n) 256, Nat.mod_mul]

theorem nonceBytes_inj (a b : UInt64) (h : nonceBytes a = nonceBytes b) : a = b := by
  have := congrArg le h
  rw [nonceBytes, nonceBytes, le_toLE, le_toLE] at this
  have ha := a.toNat_lt
  have hb := b.toNat_lt
  apply UInt64.toNat_inj.mp
  have e : 256 ^ 8 = 2 ^ 64 := by decide
  rw [e] at this; omega

theorem add_one_ne (a : UInt64) : a + 1 ≠ a := by
  intro h
  have := congrArg UInt64.toNat h
  rw [UInt64.toNat_add] at this
  have ha := a.toNat_lt
  have : (1 : UInt64).toNat = 1 := rfl
  omega

/-! ### stepwise form of stir -/

theorem hrtime_value (E : Env) (st : St) (sec usec : UInt64) (ht : E.gettimeofday st.c.time = some (sec, usec)) :
    hrtime E st = .ok (sec * 1000000 + usec, { st with c := { st.c with time := st.c.time + 1 } }) := by
  unfold hrtime; rw [ht]

theorem stir_unfold (E : Env) (st st1 : St) (t : UInt64) (ht : hrtime E st = .ok (t, st1)) (hne : t ≠ 0) :
    stir E st = (stirInit E (stirReset t st1)).bind fun st =>
      (stirSeed E (stirPid E st)).bind fun st => .ok { st with s := { st.s with initialized := true } } := by
  unfold stir
  rw [ht]
  show (if t = 0 then _ else _) = _
  rw [if_neg hne]

theorem stirInit_done (E : Env) (st : St) (hg : st.g.initialized = true) : stirInit E st = .ok st := by
  unfold stirInit; rw [if_pos hg]

theorem stirSeed_avail (E : Env) (st : St) (ha : st.g.getentropyAvail = true) :
    stirSeed E st = match E.getentropy st.c.ent.length 32 with
      | none => .misuse { st.c with ent := st.c.ent ++ [32] }
      | some b => .ok { st with s := { st.s with key := fit 32 b }, c := { st.c with ent := st.c.ent ++ [32] } } := by
  unfold stirSeed
  rw [if_pos ha, rge_small E 32 (by decide) (by decide)]
  cases E.getentropy st.c.ent.length 32 <;> rfl

theorem stirSeed_unavail (E : Env) (st : St) (ha : st.g.getentropyAvail = false) : stirSeed E st = .ok st := by
  unfold stirSeed; rw [if_neg (by rw [ha]; decide)]

end Sodium.RngP
