import Mathlib.Algebra.Group.Basic
import Mathlib.Algebra.Module.Basic
import Mathlib.Tactic.Module
import Mathlib.Tactic.LinearCombination
import Mathlib.Tactic.Abel
import Mathlib.Tactic.IntervalCases
import SodiumModel.Proofs.Ge25519Recode
import SodiumModel.Spec.Ed25519
/-
  Lemmas for `Properties/C06Ge.lean` (part 3): the scalar multiplications of `Model/Ge25519Ref10.lean`
  over an ABSTRACT commutative group.  `GeImpl ops G` says that the point formulas implement the
  addition / doubling / negation of `G` through representation relations; from that alone,
  `ge25519_scalarmult` returns n•P, `ge25519_scalarmult_base` returns n•B (given the base table),
  `ge25519_double_scalarmult_vartime` returns a•A + b•B and `ge25519_mul_l` returns L•P.
-/
open Sodium Sodium.Model.Ge25519
namespace Sodium.Ge25519P

/-- Σ_{j<n} f j · β^j -/
def sumTo (f : Nat → Int) (β : Int) : Nat → Int
  | 0 => 0
  | n + 1 => sumTo f β n + f n * β ^ n

theorem sumTo_shift (f : Nat → Int) (β : Int) (n : Nat) :
    sumTo f β (n + 1) = f 0 + β * sumTo (fun j => f (j + 1)) β n := by
  induction n with
  | zero => simp [sumTo]
  | succ n ih => rw [sumTo, ih, sumTo]; ring

theorem digitsVal_eq_sumTo (β : Int) (e : List Int8) :
    digitsVal β e = sumTo (fun j => (e.getD j 0).toInt) β e.length := by
  induction e with
  | nil => rfl
  | cons x xs ih =>
    rw [List.length_cons, sumTo_shift, digitsVal, ih]
    simp

theorem sumTo_congr {f g : Nat → Int} {β : Int} {n : Nat} (h : ∀ j < n, f j = g j) : sumTo f β n = sumTo g β n := by
  induction n with
  | zero => rfl
  | succ n ih => rw [sumTo, sumTo, ih (fun j hj => h j (by omega)), h n (by omega)]

/-- the digit a table lookup `ge25519_cmov8*` really uses: digits outside [-8, 8] select the neutral element -/
def eff (b : Int8) : Int := if b.toInt.natAbs ≤ 8 then b.toInt else 0

section
variable {F : Type} {ops : GeFieldOps F} {G : Type} [AddCommGroup G]

/--
  "The point formulas implement the group `G`": relations between the five representations and the elements
  of an abstract commutative group, preserved by every formula of ed25519_ref10.c in the way its comment says.
-/
structure GeImpl (ops : GeFieldOps F) (G : Type) [AddCommGroup G] where
  R2 : P2 F → G → Prop
  R3 : P3 F → G → Prop
  R11 : P1p1 F → G → Prop
  Rc : Cached F → G → Prop
  Rp : Precomp F → G → Prop
  cmov : CmovOK ops
  p3_0 : R3 (ge25519_p3_0 ops) 0
  p2_0 : R2 (ge25519_p2_0 ops) 0
  cached_0 : Rc (ge25519_cached_0 ops) 0
  precomp_0 : Rp (ge25519_precomp_0 ops) 0
  p1p1_to_p2 : ∀ {r g}, R11 r g → R2 (ge25519_p1p1_to_p2 ops r) g
  p1p1_to_p3 : ∀ {r g}, R11 r g → R3 (ge25519_p1p1_to_p3 ops r) g
  p3_to_p2 : ∀ {p g}, R3 p g → R2 (ge25519_p3_to_p2 p) g
  p3_to_cached : ∀ {p g}, R3 p g → Rc (ge25519_p3_to_cached ops p) g
  p2_dbl : ∀ {p g}, R2 p g → R11 (ge25519_p2_dbl ops p) (g + g)
  add_cached : ∀ {p q g h}, R3 p g → Rc q h → R11 (ge25519_add_cached ops p q) (g + h)
  sub_cached : ∀ {p q g h}, R3 p g → Rc q h → R11 (ge25519_sub_cached ops p q) (g - h)
  add_precomp : ∀ {p q g h}, R3 p g → Rp q h → R11 (ge25519_add_precomp ops p q) (g + h)
  sub_precomp : ∀ {p q g h}, R3 p g → Rp q h → R11 (ge25519_sub_precomp ops p q) (g - h)
  neg_cached : ∀ {q h}, Rc q h → Rc (negC ops q) (-h)
  neg_precomp : ∀ {q h}, Rp q h → Rp (negP ops q) (-h)

variable (I : GeImpl ops G)

theorem GeImpl.p3_dbl {p : P3 F} {g : G} (h : I.R3 p g) : I.R11 (ge25519_p3_dbl ops p) (g + g) :=
  I.p2_dbl (I.p3_to_p2 h)

theorem GeImpl.p3_add {p q : P3 F} {g h : G} (hp : I.R3 p g) (hq : I.R3 q h) :
    I.R3 (ge25519_p3_add ops p q) (g + h) :=
  I.p1p1_to_p3 (I.add_cached hp (I.p3_to_cached hq))

/-- a table of cached multiples: `tbl[i] = (i+1)·g` -/
def CachedTable (tbl : List (Cached F)) (g : G) : Prop :=
  ∀ i, i < 8 → I.Rc (tbl.getD i (ge25519_cached_0 ops)) (((i + 1 : Nat) : Int) • g)

def PrecompTable (tbl : List (Precomp F)) (g : G) : Prop :=
  ∀ i, i < 8 → I.Rp (tbl.getD i (ge25519_precomp_0 ops)) (((i + 1 : Nat) : Int) • g)

theorem R3_congr {p : P3 F} {g g' : G} (h : I.R3 p g) (e : g = g') : I.R3 p g' := e ▸ h
theorem Rc_congr {p : Cached F} {g g' : G} (h : I.Rc p g) (e : g = g') : I.Rc p g' := e ▸ h
theorem Rp_congr {p : Precomp F} {g g' : G} (h : I.Rp p g) (e : g = g') : I.Rp p g' := e ▸ h
theorem R2_congr {p : P2 F} {g g' : G} (h : I.R2 p g) (e : g = g') : I.R2 p g' := e ▸ h
theorem R11_congr {p : P1p1 F} {g g' : G} (h : I.R11 p g) (e : g = g') : I.R11 p g' := e ▸ h

/-- the table `pi[8]` of `ge25519_scalarmult` holds p, 2p, …, 8p -/
theorem scalarmultTable_ok {p : P3 F} {g : G} (hp : I.R3 p g) : CachedTable I (scalarmultTable ops p) g := by
  have c1 := I.p3_to_cached hp
  have p2 := I.p1p1_to_p3 (I.p3_dbl hp)
  have c2 := I.p3_to_cached p2
  have p3 := I.p1p1_to_p3 (I.add_cached hp c2)
  have c3 := I.p3_to_cached p3
  have p4 := I.p1p1_to_p3 (I.p3_dbl p2)
  have c4 := I.p3_to_cached p4
  have p5 := I.p1p1_to_p3 (I.add_cached hp c4)
  have c5 := I.p3_to_cached p5
  have p6 := I.p1p1_to_p3 (I.p3_dbl p3)
  have c6 := I.p3_to_cached p6
  have p7 := I.p1p1_to_p3 (I.add_cached hp c6)
  have c7 := I.p3_to_cached p7
  have p8 := I.p1p1_to_p3 (I.p3_dbl p4)
  have c8 := I.p3_to_cached p8
  intro i hi
  interval_cases i
  · exact Rc_congr I c1 (by simp)
  · exact Rc_congr I c2 (by simp; module)
  · exact Rc_congr I c3 (by simp; module)
  · exact Rc_congr I c4 (by simp; module)
  · exact Rc_congr I c5 (by simp; module)
  · exact Rc_congr I c6 (by simp; module)
  · exact Rc_congr I c7 (by simp; module)
  · exact Rc_congr I c8 (by simp; module)


/-! ### table lookups in the group -/

theorem eff_cases (b : Int8) : (b.toInt.natAbs ≤ 8 ∧ eff b = b.toInt) ∨ (8 < b.toInt.natAbs ∧ eff b = 0) := by
  unfold eff; by_cases h : b.toInt.natAbs ≤ 8
  · left; simp [h]
  · right; simp [h]; omega

/-- `ge25519_cmov8_cached` returns (the cached form of) `eff b · g`: `b·g` for -8 ≤ b ≤ 8, the neutral
    element for every other `b` -/
theorem cmov8_cached_group {tbl : List (Cached F)} {g : G} (ht : CachedTable I tbl g) (b : Int8) :
    I.Rc (ge25519_cmov8_cached ops tbl b) (eff b • g) := by
  rw [cmov8_cached_eq I.cmov]
  have key : I.Rc (selC ops tbl b.toInt.natAbs) ((if b.toInt.natAbs ≤ 8 then (b.toInt.natAbs : Int) else 0) • g) := by
    unfold selC
    by_cases h0 : b.toInt.natAbs = 0
    · simp only [h0, true_or, if_true]
      exact Rc_congr I I.cached_0 (by simp)
    · by_cases h8 : 8 < b.toInt.natAbs
      · simp only [h8, or_true, if_true]
        exact Rc_congr I I.cached_0 (by simp [show ¬ b.toInt.natAbs ≤ 8 by omega])
      · simp only [h0, h8, or_self, if_false]
        have := ht (b.toInt.natAbs - 1) (by omega)
        refine Rc_congr I this ?_
        rw [if_pos (by omega), show b.toInt.natAbs - 1 + 1 = b.toInt.natAbs by omega]
  have hlt := int8_lt_zero_iff b
  by_cases hb : b < 0
  · rw [if_pos hb]
    refine Rc_congr I (I.neg_cached key) ?_
    have : b.toInt < 0 := hlt.1 hb
    unfold eff
    by_cases h8 : b.toInt.natAbs ≤ 8
    · rw [if_pos h8, if_pos h8, ← neg_smul]; congr 1; omega
    · rw [if_neg h8, if_neg h8]; simp
  · rw [if_neg hb]
    refine Rc_congr I key ?_
    have : ¬ b.toInt < 0 := fun h => hb (hlt.2 h)
    unfold eff
    by_cases h8 : b.toInt.natAbs ≤ 8
    · rw [if_pos h8, if_pos h8]; congr 1; omega
    · rw [if_neg h8, if_neg h8]

theorem cmov8_group {tbl : List (Precomp F)} {g : G} (ht : PrecompTable I tbl g) (b : Int8) :
    I.Rp (ge25519_cmov8 ops tbl b) (eff b • g) := by
  rw [cmov8_eq I.cmov]
  have key : I.Rp (selP ops tbl b.toInt.natAbs) ((if b.toInt.natAbs ≤ 8 then (b.toInt.natAbs : Int) else 0) • g) := by
    unfold selP
    by_cases h0 : b.toInt.natAbs = 0
    · simp only [h0, true_or, if_true]
      exact Rp_congr I I.precomp_0 (by simp)
    · by_cases h8 : 8 < b.toInt.natAbs
      · simp only [h8, or_true, if_true]
        exact Rp_congr I I.precomp_0 (by simp [show ¬ b.toInt.natAbs ≤ 8 by omega])
      · simp only [h0, h8, or_self, if_false]
        have := ht (b.toInt.natAbs - 1) (by omega)
        refine Rp_congr I this ?_
        rw [if_pos (by omega), show b.toInt.natAbs - 1 + 1 = b.toInt.natAbs by omega]
  have hlt := int8_lt_zero_iff b
  by_cases hb : b < 0
  · rw [if_pos hb]
    refine Rp_congr I (I.neg_precomp key) ?_
    have : b.toInt < 0 := hlt.1 hb
    unfold eff
    by_cases h8 : b.toInt.natAbs ≤ 8
    · rw [if_pos h8, if_pos h8, ← neg_smul]; congr 1; omega
    · rw [if_neg h8, if_neg h8]; simp
  · rw [if_neg hb]
    refine Rp_congr I key ?_
    have : ¬ b.toInt < 0 := fun h => hb (hlt.2 h)
    unfold eff
    by_cases h8 : b.toInt.natAbs ≤ 8
    · rw [if_pos h8, if_pos h8]; congr 1; omega
    · rw [if_neg h8, if_neg h8]

/-! ### ge25519_scalarmult -/

/-- the integer the main loop has accumulated: `acc ↦ 16·(acc + f(i))` for i = n, n-1, …, 1 -/
def horner (f : Nat → Int) : Nat → Int → Int
  | 0, acc => acc
  | i + 1, acc => horner f i (16 * (acc + f (i + 1)))

theorem horner_eq (f : Nat → Int) (i : Nat) (acc : Int) :
    horner f i acc + f 0 = 16 ^ i * acc + sumTo f 16 (i + 1) := by
  induction i generalizing acc with
  | zero => simp [horner, sumTo]
  | succ i ih =>
    have e : sumTo f 16 (i + 1 + 1) = sumTo f 16 (i + 1) + f (i + 1) * 16 ^ (i + 1) := rfl
    rw [horner, ih, e]
    ring

theorem scalarmultStep_group {pi : List (Cached F)} {g : G} (ht : CachedTable I pi g) (ei : Int8) {h : P3 F} {H : G}
    (hh : I.R3 h H) : I.R3 (scalarmultStep ops pi ei h) ((16 : Int) • (H + eff ei • g)) := by
  have t := cmov8_cached_group I ht ei
  have r := I.add_cached hh t
  have r := I.p2_dbl (I.p1p1_to_p2 r)
  have r := I.p2_dbl (I.p1p1_to_p2 r)
  have r := I.p2_dbl (I.p1p1_to_p2 r)
  have r := I.p2_dbl (I.p1p1_to_p2 r)
  exact R3_congr I (I.p1p1_to_p3 r) (by module)

theorem scalarmultLoop_group {pi : List (Cached F)} {g : G} (ht : CachedTable I pi g) (e : List Int8) (i : Nat)
    {h : P3 F} {acc : Int} (hh : I.R3 h (acc • g)) :
    I.R3 (scalarmultLoop ops pi e i h) (horner (fun j => eff (e.getD j 0)) i acc • g) := by
  induction i generalizing h acc with
  | zero => exact hh
  | succ i ih =>
    rw [scalarmultLoop, horner]
    apply ih
    exact R3_congr I (scalarmultStep_group I ht _ hh) (by module)

/-- `ge25519_scalarmult` returns (Σ eff(e[i])·16^i)·P for the digits `e = recode a`, for EVERY scalar string -/
theorem scalarmult_group {p : P3 F} {g : G} (hp : I.R3 p g) (a : Bytes) :
    I.R3 (ge25519_scalarmult ops a p) (sumTo (fun j => eff ((recode a).getD j 0)) 16 64 • g) := by
  have ht := scalarmultTable_ok I hp
  have h0 : I.R3 (ge25519_p3_0 ops) ((0 : Int) • g) := R3_congr I I.p3_0 (by simp)
  have hl := scalarmultLoop_group I ht (recode a) 63 h0
  have t := cmov8_cached_group I ht ((recode a).getD 0 0)
  have r := I.p1p1_to_p3 (I.add_cached hl t)
  refine R3_congr I r ?_
  rw [← add_smul, horner_eq]
  simp

/-! ### ge25519_scalarmult_base -/

/-- `base[pos][j] = (j+1)·256^pos·B` for the 32 rows of the base table -/
def BaseTable (B : G) : Prop := ∀ pos, pos < 32 → PrecompTable I (baseRow ops pos) ((256 ^ pos : Int) • B)

/-- Σ_{t<n} f(i+2t) · 256^((i+2t)/2) -/
def bsum (f : Nat → Int) : Nat → Nat → Int
  | 0, _ => 0
  | n + 1, i => f i * 256 ^ (i / 2) + bsum f n (i + 2)

theorem baseLoop_group {B : G} (hB : BaseTable I B) (e : List Int8) (n i : Nat) (hi : i + 2 * n ≤ 65)
    {h : P3 F} {H : G} (hh : I.R3 h H) :
    I.R3 (baseLoop ops e n i h) (H + bsum (fun j => eff (e.getD j 0)) n i • B) := by
  induction n generalizing i h H with
  | zero => exact R3_congr I hh (by simp [bsum])
  | succ n ih =>
    rw [baseLoop, bsum]
    have t := cmov8_group I (hB (i / 2) (by omega)) (e.getD i 0)
    have r := I.p1p1_to_p3 (I.add_precomp hh t)
    exact R3_congr I (ih (i + 2) (by omega) r) (by module)

theorem bsum_eq (f : Nat → Int) (n k : Nat) :
    16 * bsum f n (2 * k + 1) + bsum f n (2 * k) = sumTo f 16 (2 * k + 2 * n) - sumTo f 16 (2 * k) := by
  induction n generalizing k with
  | zero => simp [bsum]
  | succ n ih =>
    have e1 : (2 * k + 1) / 2 = k := by omega
    have e2 : (2 * k) / 2 = k := by omega
    have e3 : 2 * k + 1 + 2 = 2 * (k + 1) + 1 := by ring
    have e4 : 2 * k + 2 = 2 * (k + 1) := by ring
    have hpow : (256 : Int) ^ k = 16 ^ (2 * k) := by rw [pow_mul]; norm_num
    have s1 : sumTo f 16 (2 * (k + 1)) = sumTo f 16 (2 * k) + f (2 * k) * 16 ^ (2 * k) + f (2 * k + 1) * 16 ^ (2 * k + 1) := by
      rw [show 2 * (k + 1) = 2 * k + 1 + 1 by ring]; rfl
    have s2 : 2 * (k + 1) + 2 * n = 2 * k + 2 * (n + 1) := by ring
    have key := ih (k + 1)
    rw [s1, s2] at key
    rw [bsum, bsum, e1, e2, e3, e4, hpow]
    linear_combination key


/-- `ge25519_scalarmult_base` returns (Σ eff(e[i])·16^i)·B for the digits `e = recode a`, for EVERY scalar string -/
theorem scalarmult_base_group {B : G} (hB : BaseTable I B) (a : Bytes) :
    I.R3 (ge25519_scalarmult_base ops a) (sumTo (fun j => eff ((recode a).getD j 0)) 16 64 • B) := by
  have h := baseLoop_group I hB (recode a) 32 1 (by omega) I.p3_0
  have r := I.p3_dbl h
  have r := I.p2_dbl (I.p1p1_to_p2 r)
  have r := I.p2_dbl (I.p1p1_to_p2 r)
  have r := I.p2_dbl (I.p1p1_to_p2 r)
  have h := baseLoop_group I hB (recode a) 32 0 (by omega) (I.p1p1_to_p3 r)
  refine R3_congr I h ?_
  have key : 16 * bsum (fun j => eff ((recode a).getD j 0)) 32 1 + bsum (fun j => eff ((recode a).getD j 0)) 32 0
      = sumTo (fun j => eff ((recode a).getD j 0)) 16 64 - 0 := bsum_eq (fun j => eff ((recode a).getD j 0)) 32 0
  rw [sub_zero] at key
  rw [← key]
  module

/-! ### ge25519_double_scalarmult_vartime -/

/-- a digit of `slide_vartime`: zero, or odd with absolute value at most 15 -/
def SlideDigit (x : Int8) : Prop := x = 0 ∨ (x.toInt % 2 = 1 ∧ -15 ≤ x.toInt ∧ x.toInt ≤ 15)

/-- tables of odd multiples: `tbl[j] = (2j+1)·g` -/
def OddCachedTable (tbl : List (Cached F)) (g : G) : Prop :=
  ∀ j, j < 8 → I.Rc (tbl.getD j (ge25519_cached_0 ops)) (((2 * j + 1 : Nat) : Int) • g)

def OddPrecompTable (tbl : List (Precomp F)) (g : G) : Prop :=
  ∀ j, j < 8 → I.Rp (tbl.getD j (ge25519_precomp_0 ops)) (((2 * j + 1 : Nat) : Int) • g)

/-- the table `Ai[8]` holds A, 3A, …, 15A -/
theorem dsmTable_ok {A : P3 F} {g : G} (hA : I.R3 A g) : OddCachedTable I (dsmTable ops A) g := by
  have c0 := I.p3_to_cached hA
  have A2 := I.p1p1_to_p3 (I.p3_dbl hA)
  have c1 := I.p3_to_cached (I.p1p1_to_p3 (I.add_cached A2 c0))
  have c2 := I.p3_to_cached (I.p1p1_to_p3 (I.add_cached A2 c1))
  have c3 := I.p3_to_cached (I.p1p1_to_p3 (I.add_cached A2 c2))
  have c4 := I.p3_to_cached (I.p1p1_to_p3 (I.add_cached A2 c3))
  have c5 := I.p3_to_cached (I.p1p1_to_p3 (I.add_cached A2 c4))
  have c6 := I.p3_to_cached (I.p1p1_to_p3 (I.add_cached A2 c5))
  have c7 := I.p3_to_cached (I.p1p1_to_p3 (I.add_cached A2 c6))
  intro i hi
  interval_cases i
  · exact Rc_congr I c0 (by simp)
  · exact Rc_congr I c1 (by simp; module)
  · exact Rc_congr I c2 (by simp; module)
  · exact Rc_congr I c3 (by simp; module)
  · exact Rc_congr I c4 (by simp; module)
  · exact Rc_congr I c5 (by simp; module)
  · exact Rc_congr I c6 (by simp; module)
  · exact Rc_congr I c7 (by simp; module)

/-- the index computations `x / 2` and `(-x) / 2` and the sign tests, for every `signed char` -/
theorem slide_index : ∀ x : Int8,
    ((x > 0) ↔ 0 < x.toInt) ∧ ((x < 0) ↔ x.toInt < 0) ∧
    (0 < x.toInt → idx (x.toInt32 / 2) = x.toInt.toNat / 2) ∧
    (x.toInt < 0 → -128 < x.toInt → idx ((-x.toInt32) / 2) = (-x.toInt).toNat / 2) := by decide +kernel

/-- the `aslide[i]` part of one iteration -/
def stepA (ops : GeFieldOps F) (Ai : List (Cached F)) (ai : Int8) (t : P1p1 F) : P1p1 F :=
  if ai > 0 then ge25519_add_cached ops (ge25519_p1p1_to_p3 ops t) (Ai.getD (idx (ai.toInt32 / 2)) (ge25519_cached_0 ops))
  else if ai < 0 then ge25519_sub_cached ops (ge25519_p1p1_to_p3 ops t) (Ai.getD (idx ((-ai.toInt32) / 2)) (ge25519_cached_0 ops))
  else t

/-- the `bslide[i]` part of one iteration -/
def stepB (ops : GeFieldOps F) (bi : Int8) (t : P1p1 F) : P1p1 F :=
  if bi > 0 then ge25519_add_precomp ops (ge25519_p1p1_to_p3 ops t) ((Bi ops).getD (idx (bi.toInt32 / 2)) (ge25519_precomp_0 ops))
  else if bi < 0 then ge25519_sub_precomp ops (ge25519_p1p1_to_p3 ops t) ((Bi ops).getD (idx ((-bi.toInt32) / 2)) (ge25519_precomp_0 ops))
  else t

theorem dsmStep_eq (Ai : List (Cached F)) (ai bi : Int8) (r : P2 F) :
    dsmStep ops Ai ai bi r = ge25519_p1p1_to_p2 ops (stepB ops bi (stepA ops Ai ai (ge25519_p2_dbl ops r))) := rfl

theorem stepA_group {Ai : List (Cached F)} {gA : G} (hAi : OddCachedTable I Ai gA) {ai : Int8} (ha : SlideDigit ai)
    {t : P1p1 F} {T : G} (ht : I.R11 t T) : I.R11 (stepA ops Ai ai t) (T + ai.toInt • gA) := by
  obtain ⟨a1, a2, a3, a4⟩ := slide_index ai
  unfold stepA
  rcases ha with rfl | ⟨hodd, hlo, hhi⟩
  · rw [if_neg (by decide), if_neg (by decide)]
    exact R11_congr I ht (by simp)
  · by_cases hpos : 0 < ai.toInt
    · rw [if_pos (a1.2 hpos), a3 hpos]
      have hj := hAi (ai.toInt.toNat / 2) (by omega)
      refine R11_congr I (I.add_cached (I.p1p1_to_p3 ht) hj) ?_
      congr 2; omega
    · have hneg : ai.toInt < 0 := by omega
      rw [if_neg (fun h => hpos (a1.1 h)), if_pos (a2.2 hneg), a4 hneg (by omega)]
      have hj := hAi ((-ai.toInt).toNat / 2) (by omega)
      refine R11_congr I (I.sub_cached (I.p1p1_to_p3 ht) hj) ?_
      rw [sub_eq_add_neg, ← neg_smul]; congr 2; omega

theorem stepB_group {gB : G} (hBi : OddPrecompTable I (Bi ops) gB) {bi : Int8} (hb : SlideDigit bi)
    {t : P1p1 F} {T : G} (ht : I.R11 t T) : I.R11 (stepB ops bi t) (T + bi.toInt • gB) := by
  obtain ⟨b1, b2, b3, b4⟩ := slide_index bi
  unfold stepB
  rcases hb with rfl | ⟨hodd, hlo, hhi⟩
  · rw [if_neg (by decide), if_neg (by decide)]
    exact R11_congr I ht (by simp)
  · by_cases hpos : 0 < bi.toInt
    · rw [if_pos (b1.2 hpos), b3 hpos]
      have hj := hBi (bi.toInt.toNat / 2) (by omega)
      refine R11_congr I (I.add_precomp (I.p1p1_to_p3 ht) hj) ?_
      congr 2; omega
    · have hneg : bi.toInt < 0 := by omega
      rw [if_neg (fun h => hpos (b1.1 h)), if_pos (b2.2 hneg), b4 hneg (by omega)]
      have hj := hBi ((-bi.toInt).toNat / 2) (by omega)
      refine R11_congr I (I.sub_precomp (I.p1p1_to_p3 ht) hj) ?_
      rw [sub_eq_add_neg, ← neg_smul]; congr 2; omega

theorem dsmStep_group {Ai : List (Cached F)} {gA gB : G} (hAi : OddCachedTable I Ai gA)
    (hBi : OddPrecompTable I (Bi ops) gB) {ai bi : Int8} (ha : SlideDigit ai) (hb : SlideDigit bi)
    {r : P2 F} {H : G} (hr : I.R2 r H) :
    I.R2 (dsmStep ops Ai ai bi r) ((2 : Int) • H + ai.toInt • gA + bi.toInt • gB) := by
  rw [dsmStep_eq]
  exact R2_congr I (I.p1p1_to_p2 (stepB_group I hBi hb (stepA_group I hAi ha (I.p2_dbl hr)))) (by module)

theorem dsmLoop_group {Ai : List (Cached F)} {gA gB : G} (hAi : OddCachedTable I Ai gA)
    (hBi : OddPrecompTable I (Bi ops) gB) (as bs : List Int8) (ha : ∀ j, SlideDigit (as.getD j 0))
    (hb : ∀ j, SlideDigit (bs.getD j 0)) (n : Nat) {r : P2 F} {H : G} (hr : I.R2 r H) :
    I.R2 (dsmLoop ops Ai as bs n r)
      ((2 ^ n : Int) • H + sumTo (fun j => (as.getD j 0).toInt) 2 n • gA + sumTo (fun j => (bs.getD j 0).toInt) 2 n • gB) := by
  induction n generalizing r H with
  | zero => exact R2_congr I hr (by simp [sumTo])
  | succ n ih =>
    rw [dsmLoop]
    refine R2_congr I (ih (dsmStep_group I hAi hBi (ha n) (hb n) hr)) ?_
    simp only [sumTo]
    module

/-- all digits at and above `dsmTop … n` (and below `n`) are zero -/
theorem dsmTop_spec (as bs : List Int8) (n : Nat) :
    dsmTop as bs n ≤ n ∧ ∀ j, dsmTop as bs n ≤ j → j < n → as.getD j 0 = 0 ∧ bs.getD j 0 = 0 := by
  induction n with
  | zero => exact ⟨Nat.le_refl _, fun j _ hj => absurd hj (Nat.not_lt_zero _)⟩
  | succ n ih =>
    rw [dsmTop]
    by_cases h : as.getD n 0 ≠ 0 ∨ bs.getD n 0 ≠ 0
    · rw [if_pos h]; exact ⟨Nat.le_refl _, fun j h1 h2 => by omega⟩
    · rw [if_neg h]
      refine ⟨by omega, fun j h1 h2 => ?_⟩
      by_cases hj : j = n
      · subst hj
        constructor
        · by_contra hc; exact h (Or.inl hc)
        · by_contra hc; exact h (Or.inr hc)
      · exact ih.2 j h1 (by omega)

theorem sumTo_zero_tail (f : Nat → Int) (β : Int) (m n : Nat) (hmn : m ≤ n) (h : ∀ j, m ≤ j → j < n → f j = 0) :
    sumTo f β n = sumTo f β m := by
  induction n with
  | zero => have : m = 0 := by omega
            subst this; rfl
  | succ n ih =>
    by_cases hm : m = n + 1
    · subst hm; rfl
    · rw [sumTo, h n (by omega) (by omega), ih (by omega) (fun j h1 h2 => h j h1 (by omega))]; simp

/-- the digit value Σ r[i]·2^i of a `slide_vartime` output -/
def slideVal (r : List Int8) : Int := sumTo (fun j => (r.getD j 0).toInt) 2 256

/-- `ge25519_double_scalarmult_vartime` returns (Σ aslide[i]·2^i)·A + (Σ bslide[i]·2^i)·B -/
theorem double_scalarmult_group {A : P3 F} {gA gB : G} (hA : I.R3 A gA) (hBi : OddPrecompTable I (Bi ops) gB)
    (a b : Bytes) (ha : ∀ j, SlideDigit ((slide_vartime a).getD j 0)) (hb : ∀ j, SlideDigit ((slide_vartime b).getD j 0)) :
    I.R2 (ge25519_double_scalarmult_vartime ops a A b)
      (slideVal (slide_vartime a) • gA + slideVal (slide_vartime b) • gB) := by
  unfold ge25519_double_scalarmult_vartime
  have top := dsmTop_spec (slide_vartime a) (slide_vartime b) 256
  have h := dsmLoop_group I (dsmTable_ok I hA) hBi _ _ ha hb (dsmTop (slide_vartime a) (slide_vartime b) 256) I.p2_0
  refine R2_congr I h ?_
  unfold slideVal
  rw [sumTo_zero_tail _ 2 _ 256 top.1 (fun j h1 h2 => by rw [(top.2 j h1 h2).1]; rfl),
    sumTo_zero_tail _ 2 _ 256 top.1 (fun j h1 h2 => by rw [(top.2 j h1 h2).2]; rfl)]
  simp

end

/-! ### ge25519_mul_l -/

section
variable {F : Type} {ops : GeFieldOps F} {G : Type} [AddCommGroup G] (I : GeImpl ops G)

theorem dblLoop_group (n : Nat) : ∀ (s : P2 F × P1p1 F) (g : G), I.R2 s.1 g → I.R11 s.2 g →
    I.R2 (dblLoop ops n s).1 ((2 ^ n : Int) • g) ∧ I.R11 (dblLoop ops n s).2 ((2 ^ n : Int) • g) := by
  induction n with
  | zero => intro s g h1 h2; exact ⟨R2_congr I h1 (by simp), R11_congr I h2 (by simp)⟩
  | succ n ih =>
    intro s g h1 _
    have d := I.p2_dbl h1
    have := ih (ge25519_p1p1_to_p2 ops (ge25519_p2_dbl ops s.1), ge25519_p2_dbl ops s.1) (g + g) (I.p1p1_to_p2 d) d
    rw [dblLoop]
    exact ⟨R2_congr I this.1 (by rw [pow_succ]; module), R11_congr I this.2 (by rw [pow_succ]; module)⟩

theorem add_k {x y : P3 F} {g : G} {a b : Int} (hx : I.R3 x (a • g)) (hy : I.R3 y (b • g)) :
    I.R3 (ge25519_p3_add ops x y) ((a + b) • g) := R3_congr I (I.p3_add hx hy) (by module)

theorem dbl_k {x : P3 F} {g : G} {a : Int} (hx : I.R3 x (a • g)) :
    I.R3 (ge25519_p3p3_dbl ops x) ((2 * a) • g) := R3_congr I (I.p1p1_to_p3 (I.p3_dbl hx)) (by module)

theorem dbladd_k {r q : P3 F} {g : G} {a b : Int} (n : Nat) (hr : I.R3 r (a • g)) (hq : I.R3 q (b • g)) :
    I.R3 (ge25519_p3_dbladd ops r (n + 1) q) ((2 ^ (n + 1) * a + b) • g) := by
  unfold ge25519_p3_dbladd
  have h2 := I.p3_to_p2 hr
  have d := I.p2_dbl h2
  have := dblLoop_group I n (ge25519_p1p1_to_p2 ops (ge25519_p2_dbl ops (ge25519_p3_to_p2 r)), ge25519_p2_dbl ops (ge25519_p3_to_p2 r))
    (a • g + a • g) (I.p1p1_to_p2 d) d
  have h3 := I.p1p1_to_p3 this.2
  exact R3_congr I (I.p3_add h3 hq) (by rw [pow_succ]; module)

/-- `ge25519_mul_l` multiplies by the group order L = 2^252 + 27742317777372353535851937790883648493 -/
theorem mul_l_group {p : P3 F} {g : G} (hp : I.R3 p g) :
    I.R3 (ge25519_mul_l ops p) ((Spec.Ed25519.L : Int) • g) := by
  have h1 : I.R3 p ((1 : Int) • g) := R3_congr I hp (by simp)
  unfold ge25519_mul_l
  extract_lets add dbl _10 _11 _100 _110 _1000 _1011 _10000 _100000 _100110 _1000000 _1010000 _1010011 _1100011
    _1100111 _1101011 _10010011 _10010111 _10111101 _11010011 _11100111 _11101101 _11110101 r0 r1 r2 r3 r4 r5 r6 r7 r8 r9
    r10 r11 r12 r13 r14
  have k10 := dbl_k I h1
  have k11 := add_k I h1 k10
  have k100 := add_k I h1 k11
  have k110 := add_k I k10 k100
  have k1000 := add_k I k10 k110
  have k1011 := add_k I k11 k1000
  have k10000 := dbl_k I k1000
  have k100000 := dbl_k I k10000
  have k100110 := add_k I k110 k100000
  have k1000000 := dbl_k I k100000
  have k1010000 := add_k I k10000 k1000000
  have k1010011 := add_k I k11 k1010000
  have k1100011 := add_k I k10000 k1010011
  have k1100111 := add_k I k100 k1100011
  have k1101011 := add_k I k100 k1100111
  have k10010011 := add_k I k1000000 k1010011
  have k10010111 := add_k I k100 k10010011
  have k10111101 := add_k I k100110 k10010111
  have k11010011 := add_k I k1000000 k10010011
  have k11100111 := add_k I k1010000 k10010111
  have k11101101 := add_k I k110 k11100111
  have k11110101 := add_k I k1000 k11101101
  have s0 := add_k I k1011 k11110101
  have s1 := dbladd_k I 125 s0 k1010011
  have s2 := dbladd_k I 8 s1 k10
  have s3 := add_k I s2 k11110101
  have s4 := dbladd_k I 6 s3 k1100111
  have s5 := dbladd_k I 8 s4 k11110101
  have s6 := dbladd_k I 10 s5 k10111101
  have s7 := dbladd_k I 7 s6 k11100111
  have s8 := dbladd_k I 8 s7 k1101011
  have s9 := dbladd_k I 5 s8 k1011
  have s10 := dbladd_k I 13 s9 k10010011
  have s11 := dbladd_k I 9 s10 k1100011
  have s12 := dbladd_k I 8 s11 k10010111
  have s13 := dbladd_k I 9 s12 k11110101
  have s14 := dbladd_k I 7 s13 k11010011
  have s15 := dbladd_k I 7 s14 k11101101
  refine R3_congr I s15 ?_
  congr 1
end
end Sodium.Ge25519P
