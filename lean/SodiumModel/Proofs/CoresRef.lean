import SodiumModel.Model.CoresRef
import SodiumModel.Spec.Chacha
import SodiumModel.Spec.Salsa
import SodiumModel.Proofs.Stream
open Sodium Sodium.Model Sodium.Model.CoresRef Sodium.Spec
namespace Sodium.CoresRefP

theorem U32V_eq (v : UInt32) : U32V v = v := by
  apply UInt32.toNat_inj.mp
  have h := Nat.and_two_pow_sub_one_eq_mod v.toNat 32
  have hv := v.toNat_lt
  rw [U32V, UInt32.toNat_and]
  have : (0xFFFFFFFF : UInt32).toNat = 2 ^ 32 - 1 := by decide
  rw [this, h]; omega

theorem PLUS_eq (v w : UInt32) : PLUS v w = v + w := by rw [PLUS, U32V_eq]
theorem PLUSONE_eq (v : UInt32) : PLUSONE v = v + 1 := by rw [PLUSONE, PLUS_eq]

theorem or4 (a b c d : Nat) (ha : a < 256) (hb : b < 256) (hc : c < 256) (_hd : d < 256) :
    a ||| b <<< 8 ||| c <<< 16 ||| d <<< 24 = a + 256 * b + 65536 * c + 16777216 * d := by
  have h1 : a ||| b <<< 8 = a + 256 * b := by
    rw [Nat.or_comm, ← Nat.shiftLeft_add_eq_or_of_lt (i := 8) (by omega), Nat.shiftLeft_eq]; omega
  have h2 : a + 256 * b ||| c <<< 16 = a + 256 * b + 65536 * c := by
    rw [Nat.or_comm, ← Nat.shiftLeft_add_eq_or_of_lt (i := 16) (by omega), Nat.shiftLeft_eq]; omega
  have h3 : a + 256 * b + 65536 * c ||| d <<< 24 = a + 256 * b + 65536 * c + 16777216 * d := by
    rw [Nat.or_comm, ← Nat.shiftLeft_add_eq_or_of_lt (i := 24) (by omega), Nat.shiftLeft_eq]; omega
  rw [h1, h2, h3]

theorem load32_le_toNat (b : Bytes) :
    (load32_le b).toNat = (b.getD 0 0).toNat + 256 * (b.getD 1 0).toNat + 65536 * (b.getD 2 0).toNat
      + 16777216 * (b.getD 3 0).toNat := by
  have h0 := (b.getD 0 0).toNat_lt; have h1 := (b.getD 1 0).toNat_lt
  have h2 := (b.getD 2 0).toNat_lt; have h3 := (b.getD 3 0).toNat_lt
  simp only [load32_le, UInt32.toNat_or, UInt32.toNat_shiftLeft, UInt8.toNat_toUInt32]
  have e8 : (8 : UInt32).toNat % 32 = 8 := by decide
  have e16 : (16 : UInt32).toNat % 32 = 16 := by decide
  have e24 : (24 : UInt32).toNat % 32 = 24 := by decide
  rw [e8, e16, e24]
  have m1 : (b.getD 1 0).toNat <<< 8 % 2 ^ 32 = (b.getD 1 0).toNat <<< 8 := by
    rw [Nat.shiftLeft_eq]; omega
  have m2 : (b.getD 2 0).toNat <<< 16 % 2 ^ 32 = (b.getD 2 0).toNat <<< 16 := by
    rw [Nat.shiftLeft_eq]; omega
  have m3 : (b.getD 3 0).toNat <<< 24 % 2 ^ 32 = (b.getD 3 0).toNat <<< 24 := by
    rw [Nat.shiftLeft_eq]; omega
  rw [m1, m2, m3]
  exact or4 _ _ _ _ h0 h1 h2 h3

theorem le_take4 (b : Bytes) :
    le (b.take 4) = (b.getD 0 0).toNat + 256 * (b.getD 1 0).toNat + 65536 * (b.getD 2 0).toNat
      + 16777216 * (b.getD 3 0).toNat := by
  match b with
  | [] => simp [le]
  | [a] => simp [le]
  | [a, b] => simp [le]
  | [a, b, c] => simp [le]; omega
  | a :: b :: c :: d :: r => simp [le]; omega

theorem load32_le_eq_chacha (b : Bytes) : Chacha.load32le b = load32_le b := by
  apply UInt32.toNat_inj.mp
  have := le_lt (b.take 4)
  have hl : (b.take 4).length ≤ 4 := by simp; omega
  have : le (b.take 4) < 2 ^ 32 := by
    have : 256 ^ (b.take 4).length ≤ 256 ^ 4 := Nat.pow_le_pow_right (by decide) hl
    omega
  rw [Chacha.load32le, UInt32.toNat_ofNat', Nat.mod_eq_of_lt this, load32_le_toNat, le_take4]

theorem load32_le_eq_salsa (b : Bytes) : Salsa.load32le b = load32_le b := load32_le_eq_chacha b

theorem store32_le_eq_toLE (w : UInt32) : store32_le w = toLE 4 w.toNat := by
  have hw := w.toNat_lt
  have e8 : (8 : UInt32).toNat % 32 = 8 := by decide
  simp only [store32_le, toLE, List.cons.injEq, and_true]
  refine ⟨?_, ?_, ?_, ?_⟩ <;> apply UInt8.toNat_inj.mp <;>
    simp only [UInt32.toNat_toUInt8, UInt32.toNat_shiftRight, e8, Nat.shiftRight_eq_div_pow,
      UInt8.toNat_ofNat'] <;> omega

theorem store32_le_eq_chacha (w : UInt32) : Chacha.store32le w = store32_le w := (store32_le_eq_toLE w).symm
theorem store32_le_eq_salsa (w : UInt32) : Salsa.store32le w = store32_le w := (store32_le_eq_toLE w).symm

theorem store32_le_length (w : UInt32) : (store32_le w).length = 4 := rfl


/-! ### the sixteen locals as the specification's state array -/

def toArr (s : W16) : Array UInt32 :=
  #[s.x0, s.x1, s.x2, s.x3, s.x4, s.x5, s.x6, s.x7, s.x8, s.x9, s.x10, s.x11, s.x12, s.x13, s.x14, s.x15]

theorem rotl_eq_chacha (x n : UInt32) : Chacha.rotl x n = ROTL32 x n := rfl
theorem rotl_eq_salsa (x n : UInt32) : Salsa.rotl x n = ROTL32 x n := rfl

/-- the masked `QUARTERROUND` of chacha20_ref.c and the plain one of core_hchacha20.c agree -/
theorem QUARTERROUND_eq (a b c d : UInt32) : QUARTERROUND a b c d = HQUARTERROUND a b c d := by
  simp only [QUARTERROUND, HQUARTERROUND, PLUS_eq, ROTATE, XOR]

theorem chachaDoubleRound_eq_h : chachaDoubleRound = hchachaDoubleRound := by
  funext x
  simp only [chachaDoubleRound, hchachaDoubleRound, QUARTERROUND_eq]

/-- one double round of core_hchacha20.c = the specification's double round (RFC 8439 §2.3) -/
theorem hchachaDoubleRound_spec (s : W16) :
    Chacha.doubleRound (toArr s) = toArr (hchachaDoubleRound s) := by
  simp [Chacha.doubleRound, Chacha.qr, hchachaDoubleRound, HQUARTERROUND, toArr, rotl_eq_chacha]

theorem chachaDoubleRound_spec (s : W16) :
    Chacha.doubleRound (toArr s) = toArr (chachaDoubleRound s) := by
  rw [chachaDoubleRound_eq_h, hchachaDoubleRound_spec]

/-- the 32 statements of the Salsa20 loop body = columnround then rowround of the specification -/
theorem salsaDoubleRound_spec (s : W16) :
    Salsa.doubleRound (toArr s) = toArr (salsaDoubleRound s) := by
  simp [Salsa.doubleRound, Salsa.qr, salsaDoubleRound, toArr, rotl_eq_salsa]

/-! ### loops -/

theorem forDownBy2_even (body : W16 → W16) (n : Nat) (x : W16) :
    forDownBy2 body (2 * n) x = Chacha.iter body n x := by
  induction n generalizing x with
  | zero => rw [forDownBy2]; rfl
  | succ n ih =>
    rw [forDownBy2, if_pos (by omega)]
    have : 2 * (n + 1) - 2 = 2 * n := by omega
    rw [this, ih]; rfl

/-- `for (i = START; i > 0; i -= 2)` runs ⌈START/2⌉ times -/
theorem forDownBy2_eq (body : W16 → W16) (i : Nat) (x : W16) :
    forDownBy2 body i x = Chacha.iter body ((i + 1) / 2) x := by
  induction i using Nat.strongRecOn generalizing x with
  | _ i ih =>
    rw [forDownBy2]
    by_cases h : i > 0
    · rw [if_pos h, ih (i - 2) (by omega)]
      have : (i + 1) / 2 = (i - 2 + 1) / 2 + 1 := by omega
      rw [this]; rfl
    · have : i = 0 := by omega
      subst this; rfl

/-- `for (i = START; i < rounds; i += 2)` runs ⌈(rounds − START)/2⌉ times -/
theorem forUpBy2_eq (body : W16 → W16) (rounds : Nat) :
    ∀ (k i : Nat) (x : W16), rounds - i = k →
      forUpBy2 body rounds i x = Chacha.iter body ((rounds - i + 1) / 2) x := by
  intro k
  induction k using Nat.strongRecOn with
  | _ k ih =>
    intro i x hk
    rw [forUpBy2]
    by_cases h : i < rounds
    · rw [if_pos h, ih (rounds - (i + 2)) (by omega) (i + 2) _ rfl]
      have : (rounds - i + 1) / 2 = (rounds - (i + 2) + 1) / 2 + 1 := by omega
      rw [this]; rfl
    · rw [if_neg h]
      have : (rounds - i + 1) / 2 = 0 := by omega
      rw [this]; rfl

theorem forUp_eq (body : W16 → W16) (n : Nat) :
    ∀ (k i : Nat) (x : W16), n - i = k → forUp body n i x = Chacha.iter body (n - i) x := by
  intro k
  induction k with
  | zero =>
    intro i x hk
    rw [forUp, if_neg (by omega), hk]; rfl
  | succ k ih =>
    intro i x hk
    rw [forUp, if_pos (by omega), ih (i + 1) _ (by omega)]
    have : n - i = n - (i + 1) + 1 := by omega
    rw [this]; rfl

theorem iter_chacha_salsa {α : Type} (f : α → α) (n : Nat) (x : α) : Salsa.iter f n x = Chacha.iter f n x := by
  induction n generalizing x with
  | zero => rfl
  | succ n ih => exact ih (f x)

/-- iterating the specification's double round on the array = iterating the C loop body on the locals -/
theorem iter_toArr (F : Array UInt32 → Array UInt32) (f : W16 → W16)
    (h : ∀ s, F (toArr s) = toArr (f s)) (n : Nat) (s : W16) :
    Chacha.iter F n (toArr s) = toArr (Chacha.iter f n s) := by
  induction n generalizing s with
  | zero => rfl
  | succ n ih => simp only [Chacha.iter, h, ih]

theorem range16 : List.range 16 = [0, 1, 2, 3, 4, 5, 6, 7, 8, 9, 10, 11, 12, 13, 14, 15] := by decide

theorem chacha_words8 (k : Bytes) : Chacha.words 8 k =
    [load32_le k, load32_le (k.drop 4), load32_le (k.drop 8), load32_le (k.drop 12),
     load32_le (k.drop 16), load32_le (k.drop 20), load32_le (k.drop 24), load32_le (k.drop 28)] := by
  have : List.range 8 = [0, 1, 2, 3, 4, 5, 6, 7] := by decide
  simp [Chacha.words, this, load32_le_eq_chacha]

theorem chacha_words4 (k : Bytes) : Chacha.words 4 k =
    [load32_le k, load32_le (k.drop 4), load32_le (k.drop 8), load32_le (k.drop 12)] := by
  have : List.range 4 = [0, 1, 2, 3] := by decide
  simp [Chacha.words, this, load32_le_eq_chacha]

theorem salsa_words8 (k : Bytes) : Salsa.words 8 k =
    [load32_le k, load32_le (k.drop 4), load32_le (k.drop 8), load32_le (k.drop 12),
     load32_le (k.drop 16), load32_le (k.drop 20), load32_le (k.drop 24), load32_le (k.drop 28)] := by
  have : List.range 8 = [0, 1, 2, 3, 4, 5, 6, 7] := by decide
  simp [Salsa.words, this, load32_le_eq_salsa]

theorem salsa_words4 (k : Bytes) : Salsa.words 4 k =
    [load32_le k, load32_le (k.drop 4), load32_le (k.drop 8), load32_le (k.drop 12)] := by
  have : List.range 4 = [0, 1, 2, 3] := by decide
  simp [Salsa.words, this, load32_le_eq_salsa]

theorem chacha_serialize (s : W16) : Chacha.serialize (toArr s) = W16.store s := by
  simp [Chacha.serialize, toArr, W16.store, store32_le_eq_chacha]

theorem salsa_serialize (s : W16) : Salsa.serialize (toArr s) = W16.store s := by
  simp [Salsa.serialize, toArr, W16.store, store32_le_eq_salsa]

theorem addState (x j : W16) :
    ((List.range 16).map fun i => (toArr x).getD i 0 + (toArr j).getD i 0).toArray =
      toArr (W16.zipWith (· + ·) x j) := by
  simp [range16, toArr, W16.zipWith]


theorem salsa_initState (inp k : Bytes) (c : Option Bytes) :
    Salsa.initState inp k c = toArr (salsaInit inp k c) := by
  cases c <;> simp [Salsa.initState, salsaInit, salsa_words8, salsa_words4, Salsa.sigma, toArr]

/-- `crypto_core_salsa` with any `rounds`: ⌈rounds/2⌉ double rounds -/
theorem crypto_core_salsa_general (inp k : Bytes) (c : Option Bytes) (rounds : Nat) :
    crypto_core_salsa inp k c rounds = Salsa.core (2 * ((rounds + 1) / 2)) inp k c := by
  have h2 : 2 * ((rounds + 1) / 2) / 2 = (rounds + 1) / 2 := by omega
  rw [crypto_core_salsa, Salsa.core, h2, salsa_initState, iter_chacha_salsa,
    iter_toArr _ _ salsaDoubleRound_spec, addState, salsa_serialize,
    forUpBy2_eq _ _ _ _ _ rfl]
  rfl

theorem crypto_core_salsa_even (inp k : Bytes) (c : Option Bytes) (rounds : Nat) (h : rounds % 2 = 0) :
    crypto_core_salsa inp k c rounds = Salsa.core rounds inp k c := by
  rw [crypto_core_salsa_general]
  have : 2 * ((rounds + 1) / 2) = rounds := by omega
  rw [this]

theorem crypto_core_hsalsa20_spec (inp k : Bytes) (c : Option Bytes) :
    crypto_core_hsalsa20 inp k c = Salsa.hsalsa20 inp k c := by
  rw [crypto_core_hsalsa20, Salsa.hsalsa20, salsa_initState, iter_chacha_salsa,
    iter_toArr _ _ salsaDoubleRound_spec, forDownBy2_even _ 10]
  simp [toArr, Salsa.serialize, store32_le_eq_salsa]

theorem crypto_core_hchacha20_spec (inp k : Bytes) (c : Option Bytes) :
    crypto_core_hchacha20 inp k c = Chacha.hchacha20 inp k c := by
  have h0 : ∀ x0 x1 x2 x3 : UInt32,
      ([x0, x1, x2, x3] ++ Chacha.words 8 k ++ Chacha.words 4 inp).toArray =
        toArr { x0 := x0, x1 := x1, x2 := x2, x3 := x3,
                x4 := load32_le k, x5 := load32_le (k.drop 4), x6 := load32_le (k.drop 8), x7 := load32_le (k.drop 12),
                x8 := load32_le (k.drop 16), x9 := load32_le (k.drop 20), x10 := load32_le (k.drop 24),
                x11 := load32_le (k.drop 28),
                x12 := load32_le inp, x13 := load32_le (inp.drop 4), x14 := load32_le (inp.drop 8),
                x15 := load32_le (inp.drop 12) } := by
    intros; simp [chacha_words8, chacha_words4, toArr]
  cases c with
  | none =>
    simp only [crypto_core_hchacha20, Chacha.hchacha20, Chacha.sigma, h0,
      iter_toArr _ _ hchachaDoubleRound_spec, forUp_eq _ _ _ _ _ rfl]
    simp [toArr, Chacha.serialize, store32_le_eq_chacha]
  | some cb =>
    simp only [crypto_core_hchacha20, Chacha.hchacha20, chacha_words4 cb, h0,
      iter_toArr _ _ hchachaDoubleRound_spec, forUp_eq _ _ _ _ _ rfl]
    simp [toArr, Chacha.serialize, store32_le_eq_chacha]

theorem store32_le_xor (x y : UInt32) : store32_le (x ^^^ y) = xorBytes (store32_le y) (store32_le x) := by
  simp only [store32_le, xorBytes, UInt32.shiftRight_xor, UInt32.toUInt8_xor, List.cons.injEq, and_true]
  refine ⟨?_, ?_, ?_, ?_⟩ <;> exact UInt8.xor_comm ..

theorem load32_le_eq_ofNat (b : Bytes) : (load32_le b).toNat = le (b.take 4) := by
  rw [load32_le_toNat, le_take4]

theorem store32_le_load32_le (m : Bytes) (h : 4 ≤ m.length) : store32_le (load32_le m) = m.take 4 := by
  have hl : (m.take 4).length = 4 := by simp; omega
  apply le_inj
  · rw [store32_le_length, hl]
  · rw [store32_le_eq_toLE, le_toLE, load32_le_eq_ofNat]
    have := le_lt (m.take 4)
    rw [hl] at this
    exact Nat.mod_eq_of_lt this

theorem load32_le_store32_le (w : UInt32) (r : Bytes) : load32_le (store32_le w ++ r) = w := by
  apply UInt32.toNat_inj.mp
  have : (store32_le w ++ r).take 4 = store32_le w := by
    rw [List.take_append_of_le_length (by rw [store32_le_length]; omega)]
    exact List.take_of_length_le (by rw [store32_le_length]; omega)
  rw [load32_le_eq_ofNat, this, store32_le_eq_toLE, le_toLE]
  have := w.toNat_lt
  omega

/-- `STORE32_LE(c, XOR(x, LOAD32_LE(m)))` writes `m[0..4] XOR` the bytes of `x` -/
theorem store32_le_xor_load (x : UInt32) (m : Bytes) (h : 4 ≤ m.length) :
    store32_le (x ^^^ load32_le m) = xorBytes (m.take 4) (store32_le x) := by
  rw [store32_le_xor, store32_le_load32_le m h]

/-- one more word of the XOR form -/
theorem xor_step (x : UInt32) (m r : Bytes) (k : Nat) (h : 4 ≤ m.length) :
    xorBytes (m.take (4 + k)) (store32_le x ++ r) =
      store32_le (x ^^^ load32_le m) ++ xorBytes ((m.drop 4).take k) r := by
  rw [xorBytes_append_right, store32_le_length, store32_le_xor_load x m h, List.take_take, List.drop_take]
  congr 2
  · congr 1; omega
  · congr 1; omega


theorem xor_step_at (m : Bytes) (x : UInt32) (r : Bytes) (a k : Nat) (h : a + 4 ≤ m.length) :
    xorBytes ((m.drop a).take (4 + k)) (store32_le x ++ r) =
      store32_le (x ^^^ load32_le (m.drop a)) ++ xorBytes ((m.drop (a + 4)).take k) r := by
  rw [xor_step x (m.drop a) r k (by rw [List.length_drop]; omega), List.drop_drop]

/-- the sixteen `XOR(x_i, LOAD32_LE(m + 4i))` followed by the sixteen `STORE32_LE` write
    `m[0..64] XOR` the serialised words -/
theorem store_xor_load (x : W16) (m : Bytes) (h : 64 ≤ m.length) :
    W16.store (W16.zipWith XOR x (W16.load m)) = xorBytes (m.take 64) (W16.store x) := by
  have e0 : m.take 64 = (m.drop 0).take (4 + 60) := rfl
  have e15 : xorBytes ((m.drop (56 + 4)).take 4) (store32_le x.x15) =
      store32_le (x.x15 ^^^ load32_le (m.drop 60)) := by
    rw [store32_le_xor_load _ _ (by rw [List.length_drop]; omega)]
  simp only [W16.store, W16.zipWith, W16.load, XOR]
  rw [e0, xor_step_at m _ _ 0 60 (by omega), xor_step_at m _ _ 4 56 (by omega),
    xor_step_at m _ _ 8 52 (by omega), xor_step_at m _ _ 12 48 (by omega),
    xor_step_at m _ _ 16 44 (by omega), xor_step_at m _ _ 20 40 (by omega),
    xor_step_at m _ _ 24 36 (by omega), xor_step_at m _ _ 28 32 (by omega),
    xor_step_at m _ _ 32 28 (by omega), xor_step_at m _ _ 36 24 (by omega),
    xor_step_at m _ _ 40 20 (by omega), xor_step_at m _ _ 44 16 (by omega),
    xor_step_at m _ _ 48 12 (by omega), xor_step_at m _ _ 52 8 (by omega),
    xor_step_at m _ _ 56 4 (by omega), e15]
  rfl

theorem load_zeros : W16.load (zeros 64) = W16.zero := by decide

theorem zipWith_XOR_zero (x : W16) : W16.zipWith XOR x W16.zero = x := by
  simp [W16.zipWith, XOR, W16.zero]

theorem PLUS_fun : PLUS = (· + ·) := by funext v w; exact PLUS_eq v w

/-- the 64 bytes one pass of the `for (;;)` body writes for a zero message: the words after ten double
    rounds plus the input words, serialised -/
theorem chacha20_block_zeros (j : W16) :
    (chacha20_block j (zeros 64)).1 =
      W16.store (W16.zipWith (· + ·) (Chacha.iter chachaDoubleRound 10 j) j) := by
  simp only [chacha20_block, load_zeros, zipWith_XOR_zero, forDownBy2_even _ 10, PLUS_fun]

/-- XOR form of one block: the bytes written are `m[0..64] XOR` the keystream block -/
theorem chacha20_block_xor (j : W16) (m : Bytes) (h : 64 ≤ m.length) :
    (chacha20_block j m).1 = xorBytes (m.take 64) (chacha20_block j (zeros 64)).1 := by
  rw [chacha20_block_zeros]
  simp only [chacha20_block, forDownBy2_even _ 10, PLUS_fun]
  exact store_xor_load _ m h

/-- the counter words after one block -/
theorem chacha20_block_ctr (j : W16) (m : Bytes) :
    (chacha20_block j m).2 =
      { j with x12 := j.x12 + 1, x13 := if j.x12 + 1 = 0 then j.x13 + 1 else j.x13 } := by
  simp only [chacha20_block, PLUSONE_eq]

theorem chacha20_block_length (j : W16) (m : Bytes) : (chacha20_block j m).1.length = 64 := by
  simp [chacha20_block, W16.store, store32_le_length]

/-- `chacha_keysetup` followed by any assignment of words 12..15 is the specification's initial state -/
theorem chacha_initState (ctx : W16) (key : Bytes) (w12 w13 w14 w15 : UInt32) :
    Chacha.initState key w12 w13 w14 w15 =
      toArr { chacha_keysetup ctx key with x12 := w12, x13 := w13, x14 := w14, x15 := w15 } := by
  simp [Chacha.initState, Chacha.sigma, chacha_words8, chacha_keysetup, toArr]

/-- the reference block on the key-setup context = the RFC 8439 block function on the same words -/
theorem chacha20_block_eq_blockWords (ctx : W16) (key : Bytes) (w12 w13 w14 w15 : UInt32) :
    (chacha20_block { chacha_keysetup ctx key with x12 := w12, x13 := w13, x14 := w14, x15 := w15 }
        (zeros 64)).1 = Chacha.blockWords key w12 w13 w14 w15 := by
  rw [chacha20_block_zeros, Chacha.blockWords, chacha_initState ctx,
    iter_toArr _ _ chachaDoubleRound_spec, addState, chacha_serialize]


/-! ### the `for (;;)` loop of `chacha20_encrypt_bytes` = the driver model `chachaLoop` -/

theorem xorBytes_take : ∀ (a b : Bytes) (n : Nat), (xorBytes a b).take n = xorBytes (a.take n) (b.take n)
  | a, b, 0 => by simp [xorBytes_nil_left]
  | [], b, n + 1 => by simp [xorBytes_nil_left]
  | _ :: _, [], n + 1 => by simp [xorBytes]
  | x :: xs, y :: ys, n + 1 => by simp [xorBytes, xorBytes_take xs ys n]

theorem chachaLoop_nil (B : BlockFn) (fuel : Nat) (a b : UInt32) : chachaLoop B fuel a b [] = [] := by
  cases fuel <;> simp [chachaLoop]

/-- the block function only reads words 12, 13 of the context through its arguments -/
theorem chacha20_blockfn_ctr (j : W16) (a b : UInt32) :
    chacha20_blockfn { j with x12 := a, x13 := b } = chacha20_blockfn j := rfl

theorem chacha20_blockfn_self (j : W16) : chacha20_blockfn j j.x12 j.x13 = (chacha20_block j (zeros 64)).1 := rfl

theorem chacha20_loop_eq (fuel : Nat) (j : W16) (m : Bytes) :
    (chacha20_loop fuel j m).1 = chachaLoop (chacha20_blockfn j) fuel j.x12 j.x13 m := by
  induction fuel generalizing j m with
  | zero => rfl
  | succ fuel ih =>
    by_cases hle : m.length ≤ 64
    · -- last (possibly partial, possibly empty) block, computed through `tmp`
      have hK := chacha20_block_length j (zeros 64)
      have hz : (zeros (64 - m.length)).length = 64 - m.length := by simp [zeros]
      have key : ∀ mblk : Bytes, 64 ≤ mblk.length → (mblk.take 64).take m.length = m →
          ((chacha20_block j mblk).1).take m.length = chachaLoop (chacha20_blockfn j) (fuel + 1) j.x12 j.x13 m := by
        intro mblk h64 htk
        rw [chacha20_block_xor j mblk h64, xorBytes_take, htk, xorBytes_take_right _ _ _ (Nat.le_refl _)]
        rw [chachaLoop]
        by_cases he : m.isEmpty = true
        · have : m = [] := by simpa using he
          subst this; simp [xorBytes_nil_left]
        · rw [if_neg he]
          simp only [List.drop_of_length_le hle, chachaLoop_nil, List.append_nil,
            List.take_of_length_le hle, chacha20_blockfn_self]
      by_cases hlt : m.length < 64
      · have := key (m ++ zeros (64 - m.length)) (by rw [List.length_append, hz]; omega)
          (by rw [List.take_take, Nat.min_eq_left hle, List.take_left' rfl])
        simp only [chacha20_loop, if_pos hlt, if_pos hle]
        exact this
      · have h64 : m.length = 64 := by omega
        have := key m (by omega) (by rw [List.take_take, Nat.min_eq_left hle, List.take_of_length_le (Nat.le_refl _)])
        simp only [chacha20_loop, if_neg hlt, if_pos hle]
        exact this
    · have hlt : ¬ m.length < 64 := by omega
      have he : ¬ m.isEmpty = true := by
        intro h; have : m = [] := by simpa using h
        subst this; simp at hle
      simp only [chacha20_loop, if_neg hlt, if_neg hle]
      rw [ih, chacha20_block_ctr, chacha20_blockfn_ctr, chachaLoop, if_neg he,
        chacha20_block_xor j m (by omega)]
      simp only [chacha20_blockfn_self]

/-- `chacha20_encrypt_bytes` = the driver model's loop with the reference block as its block function -/
theorem chacha20_encrypt_bytes_eq (ctx : W16) (m : Bytes) :
    (chacha20_encrypt_bytes ctx m).1 = chachaLoop (chacha20_blockfn ctx) m.length ctx.x12 ctx.x13 m := by
  rw [chacha20_encrypt_bytes]
  by_cases h : m.length = 0
  · rw [if_pos h, h]; rfl
  · rw [if_neg h]; exact chacha20_loop_eq m.length ctx m

/-- the context the original-layout entry points build -/
def ctxOrig (k n : Bytes) (counter : Option Bytes) : W16 :=
  chacha_ivsetup (chacha_keysetup W16.zero k) n counter

/-- the context the IETF-layout entry points build -/
def ctxIetf (k n : Bytes) (counter : Option Bytes) : W16 :=
  chacha_ietf_ivsetup (chacha_keysetup W16.zero k) n counter

/-- original layout: the reference block under `chacha_keysetup` + `chacha_ivsetup` is the RFC block
    function with words 14, 15 = the 8-byte nonce (whatever the initial counter pointer was) -/
theorem blockfn_orig (k n : Bytes) (counter : Option Bytes) :
    chacha20_blockfn (ctxOrig k n counter) =
      fun w12 w13 => Chacha.blockWords k w12 w13 (Chacha.load32le n) (Chacha.load32le (n.drop 4)) := by
  funext a b
  rw [load32_le_eq_chacha, load32_le_eq_chacha]
  exact chacha20_block_eq_blockWords W16.zero k a b (load32_le n) (load32_le (n.drop 4))

/-- IETF layout: words 14, 15 = nonce words 1, 2; word 13 (nonce word 0) is an argument -/
theorem blockfn_ietf (k n : Bytes) (counter : Option Bytes) :
    chacha20_blockfn (ctxIetf k n counter) =
      fun w12 w13 => Chacha.blockWords k w12 w13 (Chacha.load32le (n.drop 4)) (Chacha.load32le (n.drop 8)) := by
  funext a b
  rw [load32_le_eq_chacha, load32_le_eq_chacha]
  exact chacha20_block_eq_blockWords W16.zero k a b (load32_le (n.drop 4)) (load32_le (n.drop 8))

theorem zeros_length (n : Nat) : (zeros n).length = n := by simp [zeros]

theorem stream_ref_eq (clen : Nat) (n k : Bytes) :
    stream_ref clen n k = chacha_stream (chacha20_blockfn (ctxOrig k n none)) clen := by
  rw [stream_ref, chacha_stream]
  by_cases h : clen = 0
  · subst h; rfl
  · rw [if_neg h]
    have := chacha20_encrypt_bytes_eq (ctxOrig k n none) (zeros clen)
    rw [zeros_length] at this
    exact this

theorem stream_ietf_ext_ref_eq (clen : Nat) (n k : Bytes) :
    stream_ietf_ext_ref clen n k =
      chacha_ietf_ext_xor_ic (chacha20_blockfn (ctxIetf k n none)) (load32_le n) 0 (zeros clen) := by
  rw [stream_ietf_ext_ref, chacha_ietf_ext_xor_ic]
  by_cases h : clen = 0
  · subst h; rfl
  · rw [if_neg h]
    exact chacha20_encrypt_bytes_eq (ctxIetf k n none) (zeros clen)

theorem stream_ref_xor_ic_eq (m n : Bytes) (ic : UInt64) (k : Bytes) :
    stream_ref_xor_ic m n ic k = chacha_xor_ic (chacha20_blockfn (ctxOrig k n none)) ic m := by
  rw [stream_ref_xor_ic, chacha_xor_ic]
  by_cases h : m.length = 0
  · rw [if_pos h, h]; rfl
  · rw [if_neg h]
    have e := chacha20_encrypt_bytes_eq
      (ctxOrig k n (some (store32_le (U32V ic.toUInt32) ++ store32_le (U32V (ic >>> 32).toUInt32)))) m
    have e12 : (ctxOrig k n (some (store32_le (U32V ic.toUInt32) ++ store32_le (U32V (ic >>> 32).toUInt32)))).x12
        = ic.toUInt32 := by
      show load32_le _ = _
      rw [load32_le_store32_le, U32V_eq]
    have e13 : (ctxOrig k n (some (store32_le (U32V ic.toUInt32) ++ store32_le (U32V (ic >>> 32).toUInt32)))).x13
        = (ic >>> 32).toUInt32 := by
      show load32_le (List.drop 4 _) = _
      rw [List.drop_left' (store32_le_length _)]
      have := load32_le_store32_le (U32V (ic >>> 32).toUInt32) []
      rw [List.append_nil] at this
      rw [this, U32V_eq]
    rw [e12, e13, blockfn_orig] at e
    rw [blockfn_orig]
    exact e

theorem stream_ietf_ext_ref_xor_ic_eq (m n : Bytes) (ic : UInt32) (k : Bytes) :
    stream_ietf_ext_ref_xor_ic m n ic k =
      chacha_ietf_ext_xor_ic (chacha20_blockfn (ctxIetf k n none)) (load32_le n) ic m := by
  rw [stream_ietf_ext_ref_xor_ic, chacha_ietf_ext_xor_ic]
  by_cases h : m.length = 0
  · rw [if_pos h, h]; rfl
  · rw [if_neg h]
    have e := chacha20_encrypt_bytes_eq (ctxIetf k n (some (store32_le ic))) m
    have e12 : (ctxIetf k n (some (store32_le ic))).x12 = ic := by
      show load32_le _ = _
      have := load32_le_store32_le ic []
      rw [List.append_nil] at this
      exact this
    have e13 : (ctxIetf k n (some (store32_le ic))).x13 = load32_le n := rfl
    rw [e12, e13, blockfn_ietf] at e
    rw [blockfn_ietf]
    exact e

end Sodium.CoresRefP
