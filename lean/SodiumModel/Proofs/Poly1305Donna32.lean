import SodiumModel.Model.Poly1305Donna32
import SodiumModel.Model.LoadStoreShift
import SodiumModel.Proofs.Poly1305Donna
/-
  Helper lemmas for the 32-bit limb arithmetic of Poly1305 (poly1305_donna32.h): see
  Properties/C10Donna32.lean.  Twin of Proofs/Poly1305Donna.lean.  Core Lean only.
-/
open Sodium Sodium.Model Sodium.Model.Poly1305Donna32 Sodium.Model.LoadStoreShift
namespace Sodium.Poly1305Donna32P
open Sodium.PolyDonnaP (and_split and_mask_mod le_take_add le_take_lt)

/-- the two widths of `unsigned long` covered: LP64 (this host) and ILP32/LLP64 -/
abbrev WOK (w : Nat) : Prop := w = 32 ∨ w = 64

def val {w : Nat} (h : Limbs5 w) : Nat :=
  h.1.toNat + h.2.1.toNat * 2 ^ 26 + h.2.2.1.toNat * 2 ^ 52 + h.2.2.2.1.toNat * 2 ^ 78
    + h.2.2.2.2.toNat * 2 ^ 104

theorem lit_toNat {w : Nat} (hw : WOK w) (n : Nat) (hn : n < 2 ^ 32) :
    (BitVec.ofNat w n).toNat = n := by
  rcases hw with rfl | rfl <;> (rw [BitVec.toNat_ofNat]; omega)

theorem five_toNat {w : Nat} (hw : WOK w) : (5 : BitVec w).toNat = 5 := lit_toNat hw 5 (by decide)

theorem lo26 {w : Nat} (hw : WOK w) (x : BitVec w) : (x &&& 0x3ffffff).toNat = x.toNat % 2 ^ 26 := by
  rw [BitVec.toNat_and, show (0x3ffffff : BitVec w).toNat = 0x3ffffff from lit_toNat hw _ (by decide)]
  exact Nat.and_two_pow_sub_one_eq_mod x.toNat 26

theorem lo32 {w : Nat} (hw : WOK w) (x : BitVec w) : (x &&& 0xffffffff).toNat = x.toNat % 2 ^ 32 := by
  rw [BitVec.toNat_and, show (0xffffffff : BitVec w).toNat = 0xffffffff from lit_toNat hw _ (by decide)]
  exact Nat.and_two_pow_sub_one_eq_mod x.toNat 32

theorem shr_toNat {w : Nat} (x : BitVec w) (k : Nat) : (x >>> k).toNat = x.toNat / 2 ^ k := by
  rw [BitVec.toNat_ushiftRight, Nat.shiftRight_eq_div_pow]

theorem shl_toNat {w : Nat} (x : BitVec w) (k : Nat) : (x <<< k).toNat = x.toNat * 2 ^ k % 2 ^ w := by
  rw [BitVec.toNat_shiftLeft, Nat.shiftLeft_eq]

theorem mul5 {w : Nat} (hw : WOK w) (c : BitVec w) : (c * 5).toNat = c.toNat * 5 % 2 ^ w := by
  rw [BitVec.toNat_mul, five_toNat hw]

theorem ulOf32_toNat {w : Nat} (hw : WOK w) (x : UInt32) : (ulOf32 w x).toNat = x.toNat := by
  have := x.toNat_lt
  exact lit_toNat hw _ this

theorem ull_toNat {w : Nat} (hw : WOK w) (x : BitVec w) : (ull x).toNat = x.toNat := by
  have := x.isLt
  rcases hw with rfl | rfl <;> (rw [ull, UInt64.toNat_ofNat']; omega)

theorem ulOf64_toNat (w : Nat) (d : UInt64) : (ulOf64 w d).toNat = d.toNat % 2 ^ w :=
  BitVec.toNat_ofNat _ _

theorem u32Of_toNat {w : Nat} (x : BitVec w) : (u32Of x).toNat = x.toNat % 2 ^ 32 :=
  UInt32.toNat_ofNat'

theorem shr32_toNat (t : UInt32) (k : UInt32) : (t >>> k).toNat = t.toNat / 2 ^ (k.toNat % 32) := by
  rw [UInt32.toNat_shiftRight, Nat.shiftRight_eq_div_pow]
theorem shr64_toNat (t : UInt64) (k : UInt64) : (t >>> k).toNat = t.toNat / 2 ^ (k.toNat % 64) := by
  rw [UInt64.toNat_shiftRight, Nat.shiftRight_eq_div_pow]

/-! ### loads -/
theorem LOAD32_LE_toNat (b : Bytes) (off : Nat) : (LOAD32_LE b off).toNat = le ((b.drop off).take 4) :=
  load32_toNat _

/-- a 32-bit load at byte offset `a` inside the first `n` bytes is a bit field of their value -/
theorem le_window (l : Bytes) (a b n : Nat) (h : a + b ≤ n) :
    le ((l.drop a).take b) = le (l.take n) / 256 ^ a % 256 ^ b := by
  have h1 := le_take_add l a b
  have h2 := le_take_add l (a + b) (n - (a + b))
  rw [show a + b + (n - (a + b)) = n by omega] at h2
  have h3 := le_take_lt l a
  have h4 := le_take_lt (l.drop a) b
  have hp : 0 < 256 ^ a := Nat.pow_pos (by decide)
  rw [h2, h1, Nat.pow_add, Nat.mul_assoc, Nat.add_assoc, ← Nat.mul_add, Nat.add_mul_div_left _ _ hp,
    Nat.div_eq_of_lt h3, Nat.zero_add, Nat.add_mul_mod_self_left, Nat.mod_eq_of_lt h4]

theorem LOAD32_LE_window (b : Bytes) (off : Nat) (h : off + 4 ≤ 16) :
    (LOAD32_LE b off).toNat = le (b.take 16) / 2 ^ (8 * off) % 2 ^ 32 := by
  rw [LOAD32_LE_toNat, le_window b off 4 16 h, show (256 : Nat) = 2 ^ 8 from rfl, ← Nat.pow_mul, ← Nat.pow_mul]


theorem clamp_limbs (N : Nat) (hN : N < 2 ^ 128) :
    Spec.Poly1305.clampR N =
      ((N / 2 ^ (8 * 0) % 2 ^ 32) &&& 0x3ffffff)
      + ((N / 2 ^ (8 * 3) % 2 ^ 32 / 2 ^ 2) &&& 0x3ffff03) * 2 ^ 26
      + ((N / 2 ^ (8 * 6) % 2 ^ 32 / 2 ^ 4) &&& 0x3ffc0ff) * 2 ^ 52
      + ((N / 2 ^ (8 * 9) % 2 ^ 32 / 2 ^ 6) &&& 0x3f03fff) * 2 ^ 78
      + ((N / 2 ^ (8 * 12) % 2 ^ 32 / 2 ^ 8) &&& 0x00fffff) * 2 ^ 104 := by
  have e1 : N = N % 2 ^ 26 + 2 ^ 26 * (N / 2 ^ 26 % 2 ^ 26 + 2 ^ 26 * (N / 2 ^ 52 % 2 ^ 26
      + 2 ^ 26 * (N / 2 ^ 78 % 2 ^ 26 + 2 ^ 26 * (N / 2 ^ 104)))) := by omega
  have e2 : (0x0ffffffc0ffffffc0ffffffc0fffffff : Nat) = 0x3ffffff + 2 ^ 26 * (0x3ffff03 + 2 ^ 26 *
      (0x3ffc0ff + 2 ^ 26 * (0x3f03fff + 2 ^ 26 * 0x00fffff))) := by decide
  unfold Spec.Poly1305.clampR
  conv => lhs; rw [e1, e2]
  rw [and_split _ _ _ _ 26 (by omega) (by decide), and_split _ _ _ _ 26 (by omega) (by decide),
    and_split _ _ _ _ 26 (by omega) (by decide), and_split _ _ _ _ 26 (by omega) (by decide)]
  rw [and_mask_mod (N / 2 ^ (8 * 0) % 2 ^ 32) 0x3ffffff 26 (by decide),
    and_mask_mod (N / 2 ^ (8 * 3) % 2 ^ 32 / 2 ^ 2) 0x3ffff03 26 (by decide),
    and_mask_mod (N / 2 ^ (8 * 6) % 2 ^ 32 / 2 ^ 4) 0x3ffc0ff 26 (by decide),
    and_mask_mod (N / 2 ^ (8 * 9) % 2 ^ 32 / 2 ^ 6) 0x3f03fff 26 (by decide),
    and_mask_mod (N / 2 ^ (8 * 12) % 2 ^ 32 / 2 ^ 8) 0x00fffff 26 (by decide)]
  have f0 : N / 2 ^ (8 * 0) % 2 ^ 32 % 2 ^ 26 = N % 2 ^ 26 := by omega
  have f1 : N / 2 ^ (8 * 3) % 2 ^ 32 / 2 ^ 2 % 2 ^ 26 = N / 2 ^ 26 % 2 ^ 26 := by omega
  have f2 : N / 2 ^ (8 * 6) % 2 ^ 32 / 2 ^ 4 % 2 ^ 26 = N / 2 ^ 52 % 2 ^ 26 := by omega
  have f3 : N / 2 ^ (8 * 9) % 2 ^ 32 / 2 ^ 6 % 2 ^ 26 = N / 2 ^ 78 % 2 ^ 26 := by omega
  have f4 : N / 2 ^ (8 * 12) % 2 ^ 32 / 2 ^ 8 % 2 ^ 26 = N / 2 ^ 104 := by omega
  rw [f0, f1, f2, f3, f4]
  generalize N % 2 ^ 26 &&& 0x3ffffff = A
  generalize N / 2 ^ 26 % 2 ^ 26 &&& 0x3ffff03 = B
  generalize N / 2 ^ 52 % 2 ^ 26 &&& 0x3ffc0ff = C
  generalize N / 2 ^ 78 % 2 ^ 26 &&& 0x3f03fff = D
  generalize N / 2 ^ 104 &&& 0x00fffff = E
  omega


/-! ### the three commented sections of one `poly1305_blocks` iteration -/

abbrev D5 := UInt64 × UInt64 × UInt64 × UInt64 × UInt64

/-- `h += m[i]` -/
def addMsg {w : Nat} (h : Limbs5 w) (m : Bytes) (hib : Bool) : Limbs5 w :=
  let hibit : ULong w := if hib then (1 : ULong w) <<< 24 else 0
  let h0 := h.1
  let h1 := h.2.1
  let h2 := h.2.2.1
  let h3 := h.2.2.2.1
  let h4 := h.2.2.2.2
  let h0 := h0 + ulOf32 w ((LOAD32_LE m 0) &&& 0x3ffffff)
  let h1 := h1 + ulOf32 w ((LOAD32_LE m 3 >>> 2) &&& 0x3ffffff)
  let h2 := h2 + ulOf32 w ((LOAD32_LE m 6 >>> 4) &&& 0x3ffffff)
  let h3 := h3 + ulOf32 w ((LOAD32_LE m 9 >>> 6) &&& 0x3ffffff)
  let h4 := h4 + (ulOf32 w (LOAD32_LE m 12 >>> 8) ||| hibit)
  (h0, h1, h2, h3, h4)

/-- `h *= r`: s1..s4 and the five 64-bit sums of products d0..d4 -/
def mulR {w : Nat} (r H : Limbs5 w) : D5 :=
  let r0 := r.1
  let r1 := r.2.1
  let r2 := r.2.2.1
  let r3 := r.2.2.2.1
  let r4 := r.2.2.2.2
  let s1 := r1 * 5
  let s2 := r2 * 5
  let s3 := r3 * 5
  let s4 := r4 * 5
  let h0 := H.1
  let h1 := H.2.1
  let h2 := H.2.2.1
  let h3 := H.2.2.2.1
  let h4 := H.2.2.2.2
  let d0 := (ull h0 * ull r0) + (ull h1 * ull s4) + (ull h2 * ull s3) + (ull h3 * ull s2) + (ull h4 * ull s1)
  let d1 := (ull h0 * ull r1) + (ull h1 * ull r0) + (ull h2 * ull s4) + (ull h3 * ull s3) + (ull h4 * ull s2)
  let d2 := (ull h0 * ull r2) + (ull h1 * ull r1) + (ull h2 * ull r0) + (ull h3 * ull s4) + (ull h4 * ull s3)
  let d3 := (ull h0 * ull r3) + (ull h1 * ull r2) + (ull h2 * ull r1) + (ull h3 * ull r0) + (ull h4 * ull s4)
  let d4 := (ull h0 * ull r4) + (ull h1 * ull r3) + (ull h2 * ull r2) + (ull h3 * ull r1) + (ull h4 * ull r0)
  (d0, d1, d2, d3, d4)

/-- `(partial) h %= p` -/
def carry (w : Nat) (d : D5) : Limbs5 w :=
  let d0 := d.1
  let d1 := d.2.1
  let d2 := d.2.2.1
  let d3 := d.2.2.2.1
  let d4 := d.2.2.2.2
  let c := ulOf64 w (d0 >>> 26)
  let h0 := ulOf64 w d0 &&& 0x3ffffff
  let d1 := d1 + ull c
  let c := ulOf64 w (d1 >>> 26)
  let h1 := ulOf64 w d1 &&& 0x3ffffff
  let d2 := d2 + ull c
  let c := ulOf64 w (d2 >>> 26)
  let h2 := ulOf64 w d2 &&& 0x3ffffff
  let d3 := d3 + ull c
  let c := ulOf64 w (d3 >>> 26)
  let h3 := ulOf64 w d3 &&& 0x3ffffff
  let d4 := d4 + ull c
  let c := ulOf64 w (d4 >>> 26)
  let h4 := ulOf64 w d4 &&& 0x3ffffff
  let h0 := h0 + c * 5
  let c := h0 >>> 26
  let h0 := h0 &&& 0x3ffffff
  let h1 := h1 + c
  (h0, h1, h2, h3, h4)

/-- one `poly1305_blocks` iteration is the composition of its three commented sections -/
theorem blocks_eq {w : Nat} (st : State w) (m : Bytes) (hib : Bool) :
    poly1305_blocks st m hib = { st with h := carry w (mulR st.r (addMsg st.h m hib)) } := rfl

def d5Nat (d : D5) : Nat × Nat × Nat × Nat × Nat :=
  (d.1.toNat, d.2.1.toNat, d.2.2.1.toNat, d.2.2.2.1.toNat, d.2.2.2.2.toNat)

theorem s_toNat {w : Nat} (hw : WOK w) (r : BitVec w) (hr : r.toNat < 2 ^ 26) :
    (r * 5).toNat = 5 * r.toNat := by
  rw [mul5 hw]
  rcases hw with rfl | rfl <;> omega

theorem mulR_spec {w : Nat} (hw : WOK w) (r0 r1 r2 r3 r4 H0 H1 H2 H3 H4 : BitVec w)
    (hr0 : r0.toNat < 2 ^ 26) (hr1 : r1.toNat < 2 ^ 26) (hr2 : r2.toNat < 2 ^ 26)
    (hr3 : r3.toNat < 2 ^ 26) (hr4 : r4.toNat < 2 ^ 20)
    (hH0 : H0.toNat < 2 ^ 27 + 2 ^ 6) (hH1 : H1.toNat < 2 ^ 27 + 2 ^ 6) (hH2 : H2.toNat < 2 ^ 27 + 2 ^ 6)
    (hH3 : H3.toNat < 2 ^ 27 + 2 ^ 6) (hH4 : H4.toNat < 2 ^ 27 + 2 ^ 6) :
    d5Nat (mulR (r0, r1, r2, r3, r4) (H0, H1, H2, H3, H4)) =
      (H0.toNat * r0.toNat + 5 * (H1.toNat * r4.toNat) + 5 * (H2.toNat * r3.toNat)
          + 5 * (H3.toNat * r2.toNat) + 5 * (H4.toNat * r1.toNat),
       H0.toNat * r1.toNat + H1.toNat * r0.toNat + 5 * (H2.toNat * r4.toNat)
          + 5 * (H3.toNat * r3.toNat) + 5 * (H4.toNat * r2.toNat),
       H0.toNat * r2.toNat + H1.toNat * r1.toNat + H2.toNat * r0.toNat
          + 5 * (H3.toNat * r4.toNat) + 5 * (H4.toNat * r3.toNat),
       H0.toNat * r3.toNat + H1.toNat * r2.toNat + H2.toNat * r1.toNat
          + H3.toNat * r0.toNat + 5 * (H4.toNat * r4.toNat),
       H0.toNat * r4.toNat + H1.toNat * r3.toNat + H2.toNat * r2.toNat
          + H3.toNat * r1.toNat + H4.toNat * r0.toNat) := by
  have b00 := Nat.mul_lt_mul'' hH0 hr0
  have b01 := Nat.mul_lt_mul'' hH0 hr1
  have b02 := Nat.mul_lt_mul'' hH0 hr2
  have b03 := Nat.mul_lt_mul'' hH0 hr3
  have b04 := Nat.mul_lt_mul'' hH0 hr4
  have b10 := Nat.mul_lt_mul'' hH1 hr0
  have b11 := Nat.mul_lt_mul'' hH1 hr1
  have b12 := Nat.mul_lt_mul'' hH1 hr2
  have b13 := Nat.mul_lt_mul'' hH1 hr3
  have b14 := Nat.mul_lt_mul'' hH1 hr4
  have b20 := Nat.mul_lt_mul'' hH2 hr0
  have b21 := Nat.mul_lt_mul'' hH2 hr1
  have b22 := Nat.mul_lt_mul'' hH2 hr2
  have b23 := Nat.mul_lt_mul'' hH2 hr3
  have b24 := Nat.mul_lt_mul'' hH2 hr4
  have b30 := Nat.mul_lt_mul'' hH3 hr0
  have b31 := Nat.mul_lt_mul'' hH3 hr1
  have b32 := Nat.mul_lt_mul'' hH3 hr2
  have b33 := Nat.mul_lt_mul'' hH3 hr3
  have b34 := Nat.mul_lt_mul'' hH3 hr4
  have b40 := Nat.mul_lt_mul'' hH4 hr0
  have b41 := Nat.mul_lt_mul'' hH4 hr1
  have b42 := Nat.mul_lt_mul'' hH4 hr2
  have b43 := Nat.mul_lt_mul'' hH4 hr3
  have b44 := Nat.mul_lt_mul'' hH4 hr4
  simp only [d5Nat, mulR, UInt64.toNat_add, UInt64.toNat_mul, ull_toNat hw,
    s_toNat hw r1 hr1, s_toNat hw r2 hr2, s_toNat hw r3 hr3, s_toNat hw r4 (by omega),
    Nat.mul_left_comm _ 5 _]
  generalize H0.toNat * r0.toNat = a00 at *
  generalize H0.toNat * r1.toNat = a01 at *
  generalize H0.toNat * r2.toNat = a02 at *
  generalize H0.toNat * r3.toNat = a03 at *
  generalize H0.toNat * r4.toNat = a04 at *
  generalize H1.toNat * r0.toNat = a10 at *
  generalize H1.toNat * r1.toNat = a11 at *
  generalize H1.toNat * r2.toNat = a12 at *
  generalize H1.toNat * r3.toNat = a13 at *
  generalize H1.toNat * r4.toNat = a14 at *
  generalize H2.toNat * r0.toNat = a20 at *
  generalize H2.toNat * r1.toNat = a21 at *
  generalize H2.toNat * r2.toNat = a22 at *
  generalize H2.toNat * r3.toNat = a23 at *
  generalize H2.toNat * r4.toNat = a24 at *
  generalize H3.toNat * r0.toNat = a30 at *
  generalize H3.toNat * r1.toNat = a31 at *
  generalize H3.toNat * r2.toNat = a32 at *
  generalize H3.toNat * r3.toNat = a33 at *
  generalize H3.toNat * r4.toNat = a34 at *
  generalize H4.toNat * r0.toNat = a40 at *
  generalize H4.toNat * r1.toNat = a41 at *
  generalize H4.toNat * r2.toNat = a42 at *
  generalize H4.toNat * r3.toNat = a43 at *
  generalize H4.toNat * r4.toNat = a44 at *
  refine Prod.ext ?_ (Prod.ext ?_ (Prod.ext ?_ (Prod.ext ?_ ?_))) <;> simp only
  all_goals omega

theorem shr64_26 (t : UInt64) : (t >>> 26).toNat = t.toNat / 2 ^ 26 := shr64_toNat t 26
theorem shr64_32 (t : UInt64) : (t >>> 32).toNat = t.toNat / 2 ^ 32 := shr64_toNat t 32

/-- `(unsigned long)(d >> 26)` loses nothing when d < 2^58 -/
theorem c_toNat {w : Nat} (hw : WOK w) (d : UInt64) (hd : d.toNat < 2 ^ 58) :
    (ulOf64 w (d >>> 26)).toNat = d.toNat / 2 ^ 26 := by
  rw [ulOf64_toNat, shr64_26]
  rcases hw with rfl | rfl <;> omega

/-- `(unsigned long) d & 0x3ffffff` -/
theorem lo_toNat {w : Nat} (hw : WOK w) (d : UInt64) :
    (ulOf64 w d &&& 0x3ffffff).toNat = d.toNat % 2 ^ 26 := by
  rw [lo26 hw, ulOf64_toNat]
  rcases hw with rfl | rfl <;> omega

theorem addc_toNat {w : Nat} (hw : WOK w) (d : UInt64) (c : BitVec w) (h : d.toNat + c.toNat < 2 ^ 64) :
    (d + ull c).toNat = d.toNat + c.toNat := by
  rw [UInt64.toNat_add, ull_toNat hw]; omega

theorem carry_spec {w : Nat} (hw : WOK w) (d0 d1 d2 d3 d4 : UInt64)
    (h0 : d0.toNat < 2 ^ 57 + 2 ^ 50) (h1 : d1.toNat < 2 ^ 57 + 2 ^ 50) (h2 : d2.toNat < 2 ^ 57 + 2 ^ 50)
    (h3 : d3.toNat < 2 ^ 57 + 2 ^ 50) (h4 : d4.toNat < 2 ^ 55 + 2 ^ 48) :
    (carry w (d0, d1, d2, d3, d4)).1.toNat < 2 ^ 26 ∧
    (carry w (d0, d1, d2, d3, d4)).2.1.toNat < 2 ^ 26 + 2 ^ 6 ∧
    (carry w (d0, d1, d2, d3, d4)).2.2.1.toNat < 2 ^ 26 ∧
    (carry w (d0, d1, d2, d3, d4)).2.2.2.1.toNat < 2 ^ 26 ∧
    (carry w (d0, d1, d2, d3, d4)).2.2.2.2.toNat < 2 ^ 26 ∧
    ∃ k, val (carry w (d0, d1, d2, d3, d4)) + (2 ^ 130 - 5) * k
      = d0.toNat + d1.toNat * 2 ^ 26 + d2.toNat * 2 ^ 52 + d3.toNat * 2 ^ 78 + d4.toNat * 2 ^ 104 := by
  obtain ⟨c0, hc0⟩ : ∃ c : BitVec w, c = ulOf64 w (d0 >>> 26) := ⟨_, rfl⟩
  have n0 : c0.toNat = d0.toNat / 2 ^ 26 := by rw [hc0, c_toNat hw _ (by omega)]
  obtain ⟨D1, hD1⟩ : ∃ D : UInt64, D = d1 + ull c0 := ⟨_, rfl⟩
  have m1 : D1.toNat = d1.toNat + c0.toNat := by rw [hD1, addc_toNat hw _ _ (by omega)]
  obtain ⟨c1, hc1⟩ : ∃ c : BitVec w, c = ulOf64 w (D1 >>> 26) := ⟨_, rfl⟩
  have n1 : c1.toNat = D1.toNat / 2 ^ 26 := by rw [hc1, c_toNat hw _ (by omega)]
  obtain ⟨D2, hD2⟩ : ∃ D : UInt64, D = d2 + ull c1 := ⟨_, rfl⟩
  have m2 : D2.toNat = d2.toNat + c1.toNat := by rw [hD2, addc_toNat hw _ _ (by omega)]
  obtain ⟨c2, hc2⟩ : ∃ c : BitVec w, c = ulOf64 w (D2 >>> 26) := ⟨_, rfl⟩
  have n2 : c2.toNat = D2.toNat / 2 ^ 26 := by rw [hc2, c_toNat hw _ (by omega)]
  obtain ⟨D3, hD3⟩ : ∃ D : UInt64, D = d3 + ull c2 := ⟨_, rfl⟩
  have m3 : D3.toNat = d3.toNat + c2.toNat := by rw [hD3, addc_toNat hw _ _ (by omega)]
  obtain ⟨c3, hc3⟩ : ∃ c : BitVec w, c = ulOf64 w (D3 >>> 26) := ⟨_, rfl⟩
  have n3 : c3.toNat = D3.toNat / 2 ^ 26 := by rw [hc3, c_toNat hw _ (by omega)]
  obtain ⟨D4, hD4⟩ : ∃ D : UInt64, D = d4 + ull c3 := ⟨_, rfl⟩
  have m4 : D4.toNat = d4.toNat + c3.toNat := by rw [hD4, addc_toNat hw _ _ (by omega)]
  obtain ⟨c4, hc4⟩ : ∃ c : BitVec w, c = ulOf64 w (D4 >>> 26) := ⟨_, rfl⟩
  have n4 : c4.toNat = D4.toNat / 2 ^ 26 := by rw [hc4, c_toNat hw _ (by omega)]
  obtain ⟨e0, he0⟩ : ∃ e : BitVec w, e = (ulOf64 w d0 &&& 0x3ffffff) + c4 * 5 := ⟨_, rfl⟩
  have n5 : e0.toNat = d0.toNat % 2 ^ 26 + c4.toNat * 5 := by
    rw [he0, BitVec.toNat_add, lo_toNat hw, mul5 hw]
    rcases hw with rfl | rfl <;> omega
  have hs : carry w (d0, d1, d2, d3, d4) =
      (e0 &&& 0x3ffffff, (ulOf64 w D1 &&& (0x3ffffff : BitVec w)) + (e0 >>> 26), ulOf64 w D2 &&& 0x3ffffff,
       ulOf64 w D3 &&& 0x3ffffff, ulOf64 w D4 &&& 0x3ffffff) := by
    rw [he0, hc4, hD4, hc3, hD3, hc2, hD2, hc1, hD1, hc0]; rfl
  have n6 : ((ulOf64 w D1 &&& (0x3ffffff : BitVec w)) + (e0 >>> 26)).toNat = D1.toNat % 2 ^ 26 + e0.toNat / 2 ^ 26 := by
    rw [BitVec.toNat_add, lo_toNat hw, shr_toNat]
    rcases hw with rfl | rfl <;> omega
  rw [hs]
  simp only [val, n6, lo_toNat hw, lo26 hw]
  refine ⟨by omega, by omega, by omega, by omega, by omega, c4.toNat, ?_⟩
  omega

theorem lo26_32 (t : UInt32) : (t &&& 0x3ffffff).toNat = t.toNat % 2 ^ 26 := by
  rw [UInt32.toNat_and]
  exact Nat.and_two_pow_sub_one_eq_mod t.toNat 26

theorem hibit_toNat {w : Nat} (hw : WOK w) (t : UInt32) (hib : Bool) :
    (ulOf32 w (t >>> 8) ||| (if hib then (1 : ULong w) <<< 24 else 0)).toNat
      = t.toNat / 2 ^ 8 + (if hib then 2 ^ 24 else 0) := by
  have h := t.toNat_lt
  have e : (t >>> 8).toNat = t.toNat / 2 ^ 8 := shr32_toNat t 8
  cases hib
  · simp only [Bool.false_eq_true, if_false, Nat.add_zero]
    rw [BitVec.toNat_or, show (0 : ULong w).toNat = 0 from lit_toNat hw 0 (by decide), Nat.or_zero,
      ulOf32_toNat hw, e]
  · simp only [if_true]
    rw [BitVec.toNat_or, ulOf32_toNat hw, e, BitVec.toNat_shiftLeft]
    have h1 : (1 : ULong w).toNat = 1 := lit_toNat hw 1 (by decide)
    rw [h1]
    have := Sodium.PolyDonnaP.or_shl_nat (t.toNat / 2 ^ 8) 1 24 w (by omega) (by rcases hw with rfl | rfl <;> omega)
    rw [this]
    rcases hw with rfl | rfl <;> rfl

/-- no `unsigned long` addition wraps in `h += m`, and the five limbs added are the 26-bit fields of
    the block (plus 2^128) -/
theorem addMsg_spec {w : Nat} (hw : WOK w) (h0 h1 h2 h3 h4 : BitVec w) (m : Bytes) (hib : Bool)
    (b0 : h0.toNat < 2 ^ 26) (b1 : h1.toNat < 2 ^ 26 + 2 ^ 6) (b2 : h2.toNat < 2 ^ 26)
    (b3 : h3.toNat < 2 ^ 26) (b4 : h4.toNat < 2 ^ 26) :
    (addMsg (h0, h1, h2, h3, h4) m hib).1.toNat = h0.toNat + le (m.take 16) % 2 ^ 26 ∧
    (addMsg (h0, h1, h2, h3, h4) m hib).2.1.toNat = h1.toNat + le (m.take 16) / 2 ^ 26 % 2 ^ 26 ∧
    (addMsg (h0, h1, h2, h3, h4) m hib).2.2.1.toNat = h2.toNat + le (m.take 16) / 2 ^ 52 % 2 ^ 26 ∧
    (addMsg (h0, h1, h2, h3, h4) m hib).2.2.2.1.toNat = h3.toNat + le (m.take 16) / 2 ^ 78 % 2 ^ 26 ∧
    (addMsg (h0, h1, h2, h3, h4) m hib).2.2.2.2.toNat =
      h4.toNat + (le (m.take 16) / 2 ^ 104 + (if hib then 2 ^ 24 else 0)) := by
  have hN : le (m.take 16) < 2 ^ 128 := Sodium.PolyDonnaP.le_take_lt m 16
  have hb : (if hib then 2 ^ 24 else 0) ≤ 2 ^ 24 := by split <;> omega
  simp only [addMsg, BitVec.toNat_add, hibit_toNat hw, ulOf32_toNat hw, lo26_32,
    show ∀ t : UInt32, (t >>> 2).toNat = t.toNat / 2 ^ 2 from fun t => shr32_toNat t 2,
    show ∀ t : UInt32, (t >>> 4).toNat = t.toNat / 2 ^ 4 from fun t => shr32_toNat t 4,
    show ∀ t : UInt32, (t >>> 6).toNat = t.toNat / 2 ^ 6 from fun t => shr32_toNat t 6,
    LOAD32_LE_window m 0 (by omega), LOAD32_LE_window m 3 (by omega), LOAD32_LE_window m 6 (by omega),
    LOAD32_LE_window m 9 (by omega), LOAD32_LE_window m 12 (by omega)]
  generalize le (m.take 16) = N at *
  generalize (if hib then 2 ^ 24 else 0) = hb' at *
  rcases hw with rfl | rfl <;> refine ⟨?_, ?_, ?_, ?_, ?_⟩ <;> omega

theorem mul_identity (H0 H1 H2 H3 H4 r0 r1 r2 r3 r4 : Nat) :
    (H0*r0 + 5*(H1*r4) + 5*(H2*r3) + 5*(H3*r2) + 5*(H4*r1))
      + (H0*r1 + H1*r0 + 5*(H2*r4) + 5*(H3*r3) + 5*(H4*r2)) * 2^26
      + (H0*r2 + H1*r1 + H2*r0 + 5*(H3*r4) + 5*(H4*r3)) * 2^52
      + (H0*r3 + H1*r2 + H2*r1 + H3*r0 + 5*(H4*r4)) * 2^78
      + (H0*r4 + H1*r3 + H2*r2 + H3*r1 + H4*r0) * 2^104
      + (2^130-5) * ((H1*r4 + H2*r3 + H3*r2 + H4*r1) + (H2*r4 + H3*r3 + H4*r2) * 2^26
          + (H3*r4 + H4*r3) * 2^52 + (H4*r4) * 2^78)
    = (H0 + H1*2^26 + H2*2^52 + H3*2^78 + H4*2^104) * (r0 + r1*2^26 + r2*2^52 + r3*2^78 + r4*2^104) := by
  grind

/-- the bounds and values of d0..d4 for one block, on raw limbs -/
theorem mulR_bounds {w : Nat} (hw : WOK w) (r0 r1 r2 r3 r4 H0 H1 H2 H3 H4 : BitVec w)
    (hr0 : r0.toNat < 2 ^ 26) (hr1 : r1.toNat < 2 ^ 26) (hr2 : r2.toNat < 2 ^ 26)
    (hr3 : r3.toNat < 2 ^ 26) (hr4 : r4.toNat < 2 ^ 20)
    (hH0 : H0.toNat < 2 ^ 27 + 2 ^ 6) (hH1 : H1.toNat < 2 ^ 27 + 2 ^ 6) (hH2 : H2.toNat < 2 ^ 27 + 2 ^ 6)
    (hH3 : H3.toNat < 2 ^ 27 + 2 ^ 6) (hH4 : H4.toNat < 2 ^ 27 + 2 ^ 6) :
    (mulR (r0, r1, r2, r3, r4) (H0, H1, H2, H3, H4)).1.toNat < 2 ^ 57 + 2 ^ 50 ∧
    (mulR (r0, r1, r2, r3, r4) (H0, H1, H2, H3, H4)).2.1.toNat < 2 ^ 57 + 2 ^ 50 ∧
    (mulR (r0, r1, r2, r3, r4) (H0, H1, H2, H3, H4)).2.2.1.toNat < 2 ^ 57 + 2 ^ 50 ∧
    (mulR (r0, r1, r2, r3, r4) (H0, H1, H2, H3, H4)).2.2.2.1.toNat < 2 ^ 57 + 2 ^ 50 ∧
    (mulR (r0, r1, r2, r3, r4) (H0, H1, H2, H3, H4)).2.2.2.2.toNat < 2 ^ 55 + 2 ^ 48 := by
  have hm := mulR_spec hw r0 r1 r2 r3 r4 H0 H1 H2 H3 H4 hr0 hr1 hr2 hr3 hr4 hH0 hH1 hH2 hH3 hH4
  simp only [d5Nat, Prod.mk.injEq] at hm
  obtain ⟨e0, e1, e2, e3, e4⟩ := hm
  rw [e0, e1, e2, e3, e4]
  have b00 := Nat.mul_lt_mul'' hH0 hr0
  have b01 := Nat.mul_lt_mul'' hH0 hr1
  have b02 := Nat.mul_lt_mul'' hH0 hr2
  have b03 := Nat.mul_lt_mul'' hH0 hr3
  have b04 := Nat.mul_lt_mul'' hH0 hr4
  have b10 := Nat.mul_lt_mul'' hH1 hr0
  have b11 := Nat.mul_lt_mul'' hH1 hr1
  have b12 := Nat.mul_lt_mul'' hH1 hr2
  have b13 := Nat.mul_lt_mul'' hH1 hr3
  have b14 := Nat.mul_lt_mul'' hH1 hr4
  have b20 := Nat.mul_lt_mul'' hH2 hr0
  have b21 := Nat.mul_lt_mul'' hH2 hr1
  have b22 := Nat.mul_lt_mul'' hH2 hr2
  have b23 := Nat.mul_lt_mul'' hH2 hr3
  have b24 := Nat.mul_lt_mul'' hH2 hr4
  have b30 := Nat.mul_lt_mul'' hH3 hr0
  have b31 := Nat.mul_lt_mul'' hH3 hr1
  have b32 := Nat.mul_lt_mul'' hH3 hr2
  have b33 := Nat.mul_lt_mul'' hH3 hr3
  have b34 := Nat.mul_lt_mul'' hH3 hr4
  have b40 := Nat.mul_lt_mul'' hH4 hr0
  have b41 := Nat.mul_lt_mul'' hH4 hr1
  have b42 := Nat.mul_lt_mul'' hH4 hr2
  have b43 := Nat.mul_lt_mul'' hH4 hr3
  have b44 := Nat.mul_lt_mul'' hH4 hr4
  refine ⟨?_, ?_, ?_, ?_, ?_⟩ <;> omega

/-- one block on raw limbs: invariant preserved, value congruent -/
theorem blocks_core {w : Nat} (hw : WOK w) (r0 r1 r2 r3 r4 h0 h1 h2 h3 h4 : BitVec w) (m : Bytes) (hib : Bool)
    (hr0 : r0.toNat < 2 ^ 26) (hr1 : r1.toNat < 2 ^ 26) (hr2 : r2.toNat < 2 ^ 26)
    (hr3 : r3.toNat < 2 ^ 26) (hr4 : r4.toNat < 2 ^ 20)
    (b0 : h0.toNat < 2 ^ 26) (b1 : h1.toNat < 2 ^ 26 + 2 ^ 6) (b2 : h2.toNat < 2 ^ 26)
    (b3 : h3.toNat < 2 ^ 26) (b4 : h4.toNat < 2 ^ 26) :
    (carry w (mulR (r0, r1, r2, r3, r4) (addMsg (h0, h1, h2, h3, h4) m hib))).1.toNat < 2 ^ 26 ∧
    (carry w (mulR (r0, r1, r2, r3, r4) (addMsg (h0, h1, h2, h3, h4) m hib))).2.1.toNat < 2 ^ 26 + 2 ^ 6 ∧
    (carry w (mulR (r0, r1, r2, r3, r4) (addMsg (h0, h1, h2, h3, h4) m hib))).2.2.1.toNat < 2 ^ 26 ∧
    (carry w (mulR (r0, r1, r2, r3, r4) (addMsg (h0, h1, h2, h3, h4) m hib))).2.2.2.1.toNat < 2 ^ 26 ∧
    (carry w (mulR (r0, r1, r2, r3, r4) (addMsg (h0, h1, h2, h3, h4) m hib))).2.2.2.2.toNat < 2 ^ 26 ∧
    ∃ k, val (carry w (mulR (r0, r1, r2, r3, r4) (addMsg (h0, h1, h2, h3, h4) m hib))) + (2 ^ 130 - 5) * k
      = (val (h0, h1, h2, h3, h4) + le (m.take 16) + (if hib then 2 ^ 128 else 0)) * val (r0, r1, r2, r3, r4) := by
  obtain ⟨a0, a1, a2, a3, a4⟩ := addMsg_spec hw h0 h1 h2 h3 h4 m hib b0 b1 b2 b3 b4
  have hN : le (m.take 16) < 2 ^ 128 := Sodium.PolyDonnaP.le_take_lt m 16
  generalize le (m.take 16) = N at *
  obtain ⟨H0, H1, H2, H3, H4, hH⟩ : ∃ H0 H1 H2 H3 H4, addMsg (h0, h1, h2, h3, h4) m hib = (H0, H1, H2, H3, H4) :=
    ⟨_, _, _, _, _, rfl⟩
  rw [hH] at a0 a1 a2 a3 a4 ⊢
  simp only at a0 a1 a2 a3 a4
  have hb : (if hib then 2 ^ 24 else 0) ≤ 2 ^ 24 := by split <;> omega
  have c0 : H0.toNat < 2 ^ 27 + 2 ^ 6 := by omega
  have c1 : H1.toNat < 2 ^ 27 + 2 ^ 6 := by omega
  have c2 : H2.toNat < 2 ^ 27 + 2 ^ 6 := by omega
  have c3 : H3.toNat < 2 ^ 27 + 2 ^ 6 := by omega
  have c4 : H4.toNat < 2 ^ 27 + 2 ^ 6 := by omega
  have hm := mulR_spec hw r0 r1 r2 r3 r4 H0 H1 H2 H3 H4 hr0 hr1 hr2 hr3 hr4 c0 c1 c2 c3 c4
  obtain ⟨m0, m1, m2, m3, m4⟩ := mulR_bounds hw r0 r1 r2 r3 r4 H0 H1 H2 H3 H4 hr0 hr1 hr2 hr3 hr4 c0 c1 c2 c3 c4
  obtain ⟨d0, d1, d2, d3, d4, hd⟩ : ∃ d0 d1 d2 d3 d4,
      mulR (r0, r1, r2, r3, r4) (H0, H1, H2, H3, H4) = (d0, d1, d2, d3, d4) := ⟨_, _, _, _, _, rfl⟩
  rw [hd] at hm m0 m1 m2 m3 m4 ⊢
  simp only [d5Nat, Prod.mk.injEq] at hm m0 m1 m2 m3 m4
  obtain ⟨e0, e1, e2, e3, e4⟩ := hm
  obtain ⟨q0, q1, q2, q3, q4, k1, q5⟩ := carry_spec hw d0 d1 d2 d3 d4 m0 m1 m2 m3 m4
  refine ⟨q0, q1, q2, q3, q4, ?_⟩
  have hv : val (h0, h1, h2, h3, h4) + N + (if hib then 2 ^ 128 else 0)
      = H0.toNat + H1.toNat * 2 ^ 26 + H2.toNat * 2 ^ 52 + H3.toNat * 2 ^ 78 + H4.toNat * 2 ^ 104 := by
    simp only [val]
    rw [a0, a1, a2, a3, a4]
    cases hib <;> simp <;> omega
  rw [hv]
  have hid := mul_identity H0.toNat H1.toNat H2.toNat H3.toNat H4.toNat r0.toNat r1.toNat r2.toNat r3.toNat r4.toNat
  rw [e0, e1, e2, e3, e4] at q5
  simp only [val] at q5 ⊢
  generalize ((H1.toNat * r4.toNat + H2.toNat * r3.toNat + H3.toNat * r2.toNat + H4.toNat * r1.toNat)
    + (H2.toNat * r4.toNat + H3.toNat * r3.toNat + H4.toNat * r2.toNat) * 2 ^ 26
    + (H3.toNat * r4.toNat + H4.toNat * r3.toNat) * 2 ^ 52 + (H4.toNat * r4.toNat) * 2 ^ 78) = k2 at hid
  refine ⟨k1 + k2, ?_⟩
  rw [← hid, ← q5, Nat.mul_add]
  omega

/-! ### poly1305_finish in three stages -/

/-- `fully carry h` -/
def fullCarry {w : Nat} (h : Limbs5 w) : Limbs5 w :=
  let h0 := h.1
  let h1 := h.2.1
  let h2 := h.2.2.1
  let h3 := h.2.2.2.1
  let h4 := h.2.2.2.2
  let c := h1 >>> 26
  let h1 := h1 &&& 0x3ffffff
  let h2 := h2 + c
  let c := h2 >>> 26
  let h2 := h2 &&& 0x3ffffff
  let h3 := h3 + c
  let c := h3 >>> 26
  let h3 := h3 &&& 0x3ffffff
  let h4 := h4 + c
  let c := h4 >>> 26
  let h4 := h4 &&& 0x3ffffff
  let h0 := h0 + c * 5
  let c := h0 >>> 26
  let h0 := h0 &&& 0x3ffffff
  let h1 := h1 + c
  (h0, h1, h2, h3, h4)

/-- `compute h + -p` and `select h if h < p, or h + -p if h >= p` -/
def subP {w : Nat} (h : Limbs5 w) : Limbs5 w :=
  let h0 := h.1
  let h1 := h.2.1
  let h2 := h.2.2.1
  let h3 := h.2.2.2.1
  let h4 := h.2.2.2.2
  let g0 := h0 + 5
  let c := g0 >>> 26
  let g0 := g0 &&& 0x3ffffff
  let g1 := h1 + c
  let c := g1 >>> 26
  let g1 := g1 &&& 0x3ffffff
  let g2 := h2 + c
  let c := g2 >>> 26
  let g2 := g2 &&& 0x3ffffff
  let g3 := h3 + c
  let c := g3 >>> 26
  let g3 := g3 &&& 0x3ffffff
  let g4 := h4 + c - ((1 : ULong w) <<< 26)
  let mask := (g4 >>> (w - 1)) - 1
  let g0 := g0 &&& mask
  let g1 := g1 &&& mask
  let g2 := g2 &&& mask
  let g3 := g3 &&& mask
  let g4 := g4 &&& mask
  let mask := ~~~mask
  let h0 := (h0 &&& mask) ||| g0
  let h1 := (h1 &&& mask) ||| g1
  let h2 := (h2 &&& mask) ||| g2
  let h3 := (h3 &&& mask) ||| g3
  let h4 := (h4 &&& mask) ||| g4
  (h0, h1, h2, h3, h4)

/-- `h = h % (2^128)`, `mac = (h + pad) % (2^128)` and the stores -/
def addPad {w : Nat} (h : Limbs5 w) (pad : Limbs4 w) : Bytes :=
  let h0 := h.1
  let h1 := h.2.1
  let h2 := h.2.2.1
  let h3 := h.2.2.2.1
  let h4 := h.2.2.2.2
  let h0 := (h0 ||| (h1 <<< 26)) &&& 0xffffffff
  let h1 := ((h1 >>> 6) ||| (h2 <<< 20)) &&& 0xffffffff
  let h2 := ((h2 >>> 12) ||| (h3 <<< 14)) &&& 0xffffffff
  let h3 := ((h3 >>> 18) ||| (h4 <<< 8)) &&& 0xffffffff
  let f := ull h0 + ull pad.1
  let h0 := ulOf64 w f
  let f := ull h1 + ull pad.2.1 + (f >>> 32)
  let h1 := ulOf64 w f
  let f := ull h2 + ull pad.2.2.1 + (f >>> 32)
  let h2 := ulOf64 w f
  let f := ull h3 + ull pad.2.2.2 + (f >>> 32)
  let h3 := ulOf64 w f
  store32 (u32Of h0) ++ store32 (u32Of h1) ++ store32 (u32Of h2) ++ store32 (u32Of h3)

theorem finish_eq {w : Nat} (st : State w) :
    poly1305_finish st = addPad (subP (fullCarry st.h)) st.pad := rfl

theorem add_small {w : Nat} (hw : WOK w) (a b : BitVec w) (h : a.toNat + b.toNat < 2 ^ 32) :
    (a + b).toNat = a.toNat + b.toNat := by
  rw [BitVec.toNat_add]
  rcases hw with rfl | rfl <;> omega

theorem mul5_small {w : Nat} (hw : WOK w) (c : BitVec w) (h : c.toNat * 5 < 2 ^ 32) :
    (c * 5).toNat = c.toNat * 5 := by
  rw [mul5 hw]
  rcases hw with rfl | rfl <;> omega

theorem fullCarry_spec {w : Nat} (hw : WOK w) (h0 h1 h2 h3 h4 : BitVec w)
    (b0 : h0.toNat < 2 ^ 26) (b1 : h1.toNat < 2 ^ 26 + 2 ^ 6) (b2 : h2.toNat < 2 ^ 26)
    (b3 : h3.toNat < 2 ^ 26) (b4 : h4.toNat < 2 ^ 26) :
    (fullCarry (h0, h1, h2, h3, h4)).1.toNat < 2 ^ 26 ∧
    (fullCarry (h0, h1, h2, h3, h4)).2.1.toNat < 2 ^ 26 ∧
    (fullCarry (h0, h1, h2, h3, h4)).2.2.1.toNat < 2 ^ 26 ∧
    (fullCarry (h0, h1, h2, h3, h4)).2.2.2.1.toNat < 2 ^ 26 ∧
    (fullCarry (h0, h1, h2, h3, h4)).2.2.2.2.toNat < 2 ^ 26 ∧
    ∃ k, val (fullCarry (h0, h1, h2, h3, h4)) + (2 ^ 130 - 5) * k = val (h0, h1, h2, h3, h4) := by
  obtain ⟨x2, hx2⟩ : ∃ x : BitVec w, x = h2 + (h1 >>> 26) := ⟨_, rfl⟩
  have n2 : x2.toNat = h2.toNat + h1.toNat / 2 ^ 26 := by
    rw [hx2, add_small hw _ _ (by rw [shr_toNat]; omega), shr_toNat]
  obtain ⟨x3, hx3⟩ : ∃ x : BitVec w, x = h3 + (x2 >>> 26) := ⟨_, rfl⟩
  have n3 : x3.toNat = h3.toNat + x2.toNat / 2 ^ 26 := by
    rw [hx3, add_small hw _ _ (by rw [shr_toNat]; omega), shr_toNat]
  obtain ⟨x4, hx4⟩ : ∃ x : BitVec w, x = h4 + (x3 >>> 26) := ⟨_, rfl⟩
  have n4 : x4.toNat = h4.toNat + x3.toNat / 2 ^ 26 := by
    rw [hx4, add_small hw _ _ (by rw [shr_toNat]; omega), shr_toNat]
  obtain ⟨x0, hx0⟩ : ∃ x : BitVec w, x = h0 + (x4 >>> 26) * 5 := ⟨_, rfl⟩
  have n0 : x0.toNat = h0.toNat + x4.toNat / 2 ^ 26 * 5 := by
    have e : ((x4 >>> 26) * 5).toNat = x4.toNat / 2 ^ 26 * 5 := by
      rw [mul5_small hw _ (by rw [shr_toNat]; omega), shr_toNat]
    rw [hx0, add_small hw _ _ (by rw [e]; omega), e]
  obtain ⟨x1, hx1⟩ : ∃ x : BitVec w, x = (h1 &&& (0x3ffffff : BitVec w)) + (x0 >>> 26) := ⟨_, rfl⟩
  have n1 : x1.toNat = h1.toNat % 2 ^ 26 + x0.toNat / 2 ^ 26 := by
    rw [hx1, add_small hw _ _ (by rw [shr_toNat, lo26 hw]; omega), shr_toNat, lo26 hw]
  have hs : fullCarry (h0, h1, h2, h3, h4) =
      (x0 &&& 0x3ffffff, x1, x2 &&& 0x3ffffff, x3 &&& 0x3ffffff, x4 &&& 0x3ffffff) := by
    rw [hx1, hx0, hx4, hx3, hx2]; rfl
  rw [hs]
  simp only [val, lo26 hw]
  refine ⟨by omega, by omega, by omega, by omega, by omega, x4.toNat / 2 ^ 26, by omega⟩

theorem sel0 {w : Nat} (h g : BitVec w) : (h &&& ~~~(0 : BitVec w)) ||| (g &&& 0) = h := by simp
theorem sel1 {w : Nat} (h g : BitVec w) :
    (h &&& ~~~(BitVec.allOnes w)) ||| (g &&& BitVec.allOnes w) = g := by simp

/-- `mask = (g4 >> (sizeof(unsigned long)*8 - 1)) - 1` for `g4 = x - (1UL << 26)`, x < 2^27 -/
theorem mask_spec {w : Nat} (hw : WOK w) (x : BitVec w) (hx : x.toNat < 2 ^ 27) :
    ((x - ((1 : BitVec w) <<< 26)) >>> (w - 1)) - 1 = (if x.toNat < 2 ^ 26 then 0 else BitVec.allOnes w) ∧
    (x.toNat ≥ 2 ^ 26 → (x - ((1 : BitVec w) <<< 26)).toNat = x.toNat - 2 ^ 26) := by
  have h1 : ((1 : BitVec w) <<< 26).toNat = 2 ^ 26 := by
    rw [shl_toNat, show (1 : BitVec w).toNat = 1 from lit_toNat hw 1 (by decide)]
    rcases hw with rfl | rfl <;> rfl
  have h2 : (x - ((1 : BitVec w) <<< 26)).toNat = (2 ^ w - 2 ^ 26 + x.toNat) % 2 ^ w := by
    rw [BitVec.toNat_sub, h1]
  refine ⟨?_, fun hge => by rw [h2]; rcases hw with rfl | rfl <;> omega⟩
  apply BitVec.eq_of_toNat_eq
  rw [BitVec.toNat_sub, shr_toNat, h2, show (1 : BitVec w).toNat = 1 from lit_toNat hw 1 (by decide)]
  split
  · rw [show (0 : BitVec w).toNat = 0 from lit_toNat hw 0 (by decide)]
    rcases hw with rfl | rfl <;> simp only [Nat.reduceSub] <;> omega
  · rw [BitVec.toNat_allOnes]
    rcases hw with rfl | rfl <;> simp only [Nat.reduceSub] <;> omega

theorem subP_spec {w : Nat} (hw : WOK w) (h0 h1 h2 h3 h4 : BitVec w)
    (b0 : h0.toNat < 2 ^ 26) (b1 : h1.toNat < 2 ^ 26) (b2 : h2.toNat < 2 ^ 26)
    (b3 : h3.toNat < 2 ^ 26) (b4 : h4.toNat < 2 ^ 26) :
    (subP (h0, h1, h2, h3, h4)).1.toNat < 2 ^ 26 ∧
    (subP (h0, h1, h2, h3, h4)).2.1.toNat < 2 ^ 26 ∧
    (subP (h0, h1, h2, h3, h4)).2.2.1.toNat < 2 ^ 26 ∧
    (subP (h0, h1, h2, h3, h4)).2.2.2.1.toNat < 2 ^ 26 ∧
    (subP (h0, h1, h2, h3, h4)).2.2.2.2.toNat < 2 ^ 26 ∧
    val (subP (h0, h1, h2, h3, h4)) = val (h0, h1, h2, h3, h4) % (2 ^ 130 - 5) := by
  obtain ⟨g0, hg0⟩ : ∃ g : BitVec w, g = h0 + 5 := ⟨_, rfl⟩
  have n0 : g0.toNat = h0.toNat + 5 := by
    rw [hg0, add_small hw _ _ (by rw [five_toNat hw]; omega), five_toNat hw]
  obtain ⟨g1, hg1⟩ : ∃ g : BitVec w, g = h1 + (g0 >>> 26) := ⟨_, rfl⟩
  have n1 : g1.toNat = h1.toNat + g0.toNat / 2 ^ 26 := by
    rw [hg1, add_small hw _ _ (by rw [shr_toNat]; omega), shr_toNat]
  obtain ⟨g2, hg2⟩ : ∃ g : BitVec w, g = h2 + (g1 >>> 26) := ⟨_, rfl⟩
  have n2 : g2.toNat = h2.toNat + g1.toNat / 2 ^ 26 := by
    rw [hg2, add_small hw _ _ (by rw [shr_toNat]; omega), shr_toNat]
  obtain ⟨g3, hg3⟩ : ∃ g : BitVec w, g = h3 + (g2 >>> 26) := ⟨_, rfl⟩
  have n3 : g3.toNat = h3.toNat + g2.toNat / 2 ^ 26 := by
    rw [hg3, add_small hw _ _ (by rw [shr_toNat]; omega), shr_toNat]
  obtain ⟨x4, hx4⟩ : ∃ g : BitVec w, g = h4 + (g3 >>> 26) := ⟨_, rfl⟩
  have n4 : x4.toNat = h4.toNat + g3.toNat / 2 ^ 26 := by
    rw [hx4, add_small hw _ _ (by rw [shr_toNat]; omega), shr_toNat]
  obtain ⟨mask, hmask⟩ : ∃ g : BitVec w, g = ((x4 - ((1 : BitVec w) <<< 26)) >>> (w - 1)) - 1 := ⟨_, rfl⟩
  have hs : subP (h0, h1, h2, h3, h4) =
      ((h0 &&& ~~~mask) ||| ((g0 &&& (0x3ffffff : BitVec w)) &&& mask),
       (h1 &&& ~~~mask) ||| ((g1 &&& (0x3ffffff : BitVec w)) &&& mask),
       (h2 &&& ~~~mask) ||| ((g2 &&& (0x3ffffff : BitVec w)) &&& mask),
       (h3 &&& ~~~mask) ||| ((g3 &&& (0x3ffffff : BitVec w)) &&& mask),
       (h4 &&& ~~~mask) ||| ((x4 - ((1 : BitVec w) <<< 26)) &&& mask)) := by
    rw [hmask, hx4, hg3, hg2, hg1, hg0]; rfl
  rw [hs]
  obtain ⟨hm, hge⟩ := mask_spec hw x4 (by omega)
  rw [← hmask] at hm
  by_cases hlt : x4.toNat < 2 ^ 26
  · -- h + 5 < 2^130: g4 is negative, mask = 0, keep h
    rw [if_pos hlt] at hm
    rw [hm, sel0, sel0, sel0, sel0, sel0]
    refine ⟨b0, b1, b2, b3, b4, ?_⟩
    simp only [val]
    rw [Nat.mod_eq_of_lt]
    omega
  · -- h + 5 ≥ 2^130: mask = all ones, take g
    rw [if_neg hlt] at hm
    rw [hm, sel1, sel1, sel1, sel1, sel1]
    simp only [val, lo26 hw]
    rw [hge (by omega)]
    refine ⟨by omega, by omega, by omega, by omega, by omega, ?_⟩
    omega

/-- `((a) | (b << k)) & 0xffffffff` for the four shift counts of `h = h % (2^128)` -/
theorem pack_toNat {w : Nat} (hw : WOK w) (a b : BitVec w) (k : Nat)
    (hk : k = 26 ∨ k = 20 ∨ k = 14 ∨ k = 8) (ha : a.toNat < 2 ^ k) :
    ((a ||| (b <<< k)) &&& 0xffffffff).toNat = (a.toNat + b.toNat * 2 ^ k) % 2 ^ 32 := by
  rw [lo32 hw, BitVec.toNat_or, BitVec.toNat_shiftLeft,
    Sodium.PolyDonnaP.or_shl_nat _ _ k w ha (by rcases hw with rfl | rfl <;> omega)]
  have := b.isLt
  rcases hw with rfl | rfl <;> rcases hk with rfl | rfl | rfl | rfl <;> simp only [Nat.reduceSub] <;> omega

theorem store_quad (a b c d : UInt32) (v : Nat)
    (h : a.toNat + 2 ^ 32 * b.toNat + 2 ^ 64 * c.toNat + 2 ^ 96 * d.toNat = v % 2 ^ 128) :
    store32 a ++ store32 b ++ store32 c ++ store32 d = toLE 16 v := by
  apply le_inj
  · simp [toLE_length]
  · rw [le_append, le_append, le_append, le_store32, le_store32, le_store32, le_store32, le_toLE]
    simp only [List.length_append, store32_length]
    rw [← h]

theorem pack_val (g0 g1 g2 g3 g4 : Nat) (b0 : g0 < 2 ^ 26) (b1 : g1 < 2 ^ 26) (b2 : g2 < 2 ^ 26) :
    (g0 + g1 * 2 ^ 26) % 2 ^ 32 + 2 ^ 32 * ((g1 / 2 ^ 6 + g2 * 2 ^ 20) % 2 ^ 32)
      + 2 ^ 64 * ((g2 / 2 ^ 12 + g3 * 2 ^ 14) % 2 ^ 32) + 2 ^ 96 * ((g3 / 2 ^ 18 + g4 * 2 ^ 8) % 2 ^ 32)
    = (g0 + g1 * 2 ^ 26 + g2 * 2 ^ 52 + g3 * 2 ^ 78 + g4 * 2 ^ 104) % 2 ^ 128 := by
  omega

/-- the 64-bit `f` carry chain adds two 128-bit numbers given as four 32-bit words each -/
theorem fchain (w0 w1 w2 w3 p0 p1 p2 p3 f0 f1 f2 f3 : Nat)
    (m0 : f0 = w0 + p0) (m1 : f1 = w1 + p1 + f0 / 2 ^ 32) (m2 : f2 = w2 + p2 + f1 / 2 ^ 32)
    (m3 : f3 = w3 + p3 + f2 / 2 ^ 32) :
    f0 % 2 ^ 32 + 2 ^ 32 * (f1 % 2 ^ 32) + 2 ^ 64 * (f2 % 2 ^ 32) + 2 ^ 96 * (f3 % 2 ^ 32)
      = ((w0 + 2 ^ 32 * w1 + 2 ^ 64 * w2 + 2 ^ 96 * w3) + (p0 + 2 ^ 32 * p1 + 2 ^ 64 * p2 + 2 ^ 96 * p3)) % 2 ^ 128 := by
  omega

theorem addPad_spec {w : Nat} (hw : WOK w) (h0 h1 h2 h3 h4 p0 p1 p2 p3 : BitVec w)
    (b0 : h0.toNat < 2 ^ 26) (b1 : h1.toNat < 2 ^ 26) (b2 : h2.toNat < 2 ^ 26)
    (b3 : h3.toNat < 2 ^ 26) (b4 : h4.toNat < 2 ^ 26)
    (u0 : p0.toNat < 2 ^ 32) (u1 : p1.toNat < 2 ^ 32) (u2 : p2.toNat < 2 ^ 32) (u3 : p3.toNat < 2 ^ 32) :
    addPad (h0, h1, h2, h3, h4) (p0, p1, p2, p3)
      = toLE 16 ((val (h0, h1, h2, h3, h4)
          + (p0.toNat + 2 ^ 32 * p1.toNat + 2 ^ 64 * p2.toNat + 2 ^ 96 * p3.toNat)) % 2 ^ 128) := by
  obtain ⟨w0, hw0⟩ : ∃ x : BitVec w, x = (h0 ||| (h1 <<< 26)) &&& 0xffffffff := ⟨_, rfl⟩
  obtain ⟨w1, hw1⟩ : ∃ x : BitVec w, x = ((h1 >>> 6) ||| (h2 <<< 20)) &&& 0xffffffff := ⟨_, rfl⟩
  obtain ⟨w2, hw2⟩ : ∃ x : BitVec w, x = ((h2 >>> 12) ||| (h3 <<< 14)) &&& 0xffffffff := ⟨_, rfl⟩
  obtain ⟨w3, hw3⟩ : ∃ x : BitVec w, x = ((h3 >>> 18) ||| (h4 <<< 8)) &&& 0xffffffff := ⟨_, rfl⟩
  have n0 : w0.toNat = (h0.toNat + h1.toNat * 2 ^ 26) % 2 ^ 32 := by
    rw [hw0, pack_toNat hw _ _ 26 (by omega) b0]
  have n1 : w1.toNat = (h1.toNat / 2 ^ 6 + h2.toNat * 2 ^ 20) % 2 ^ 32 := by
    rw [hw1, pack_toNat hw _ _ 20 (by omega) (by rw [shr_toNat]; omega), shr_toNat]
  have n2 : w2.toNat = (h2.toNat / 2 ^ 12 + h3.toNat * 2 ^ 14) % 2 ^ 32 := by
    rw [hw2, pack_toNat hw _ _ 14 (by omega) (by rw [shr_toNat]; omega), shr_toNat]
  have n3 : w3.toNat = (h3.toNat / 2 ^ 18 + h4.toNat * 2 ^ 8) % 2 ^ 32 := by
    rw [hw3, pack_toNat hw _ _ 8 (by omega) (by rw [shr_toNat]; omega), shr_toNat]
  obtain ⟨f0, hf0⟩ : ∃ f : UInt64, f = ull w0 + ull p0 := ⟨_, rfl⟩
  have m0 : f0.toNat = w0.toNat + p0.toNat := by
    rw [hf0, UInt64.toNat_add, ull_toNat hw, ull_toNat hw]; omega
  obtain ⟨f1, hf1⟩ : ∃ f : UInt64, f = ull w1 + ull p1 + (f0 >>> 32) := ⟨_, rfl⟩
  have m1 : f1.toNat = w1.toNat + p1.toNat + f0.toNat / 2 ^ 32 := by
    rw [hf1, UInt64.toNat_add, UInt64.toNat_add, ull_toNat hw, ull_toNat hw, shr64_32]; omega
  obtain ⟨f2, hf2⟩ : ∃ f : UInt64, f = ull w2 + ull p2 + (f1 >>> 32) := ⟨_, rfl⟩
  have m2 : f2.toNat = w2.toNat + p2.toNat + f1.toNat / 2 ^ 32 := by
    rw [hf2, UInt64.toNat_add, UInt64.toNat_add, ull_toNat hw, ull_toNat hw, shr64_32]; omega
  obtain ⟨f3, hf3⟩ : ∃ f : UInt64, f = ull w3 + ull p3 + (f2 >>> 32) := ⟨_, rfl⟩
  have m3 : f3.toNat = w3.toNat + p3.toNat + f2.toNat / 2 ^ 32 := by
    rw [hf3, UInt64.toNat_add, UInt64.toNat_add, ull_toNat hw, ull_toNat hw, shr64_32]; omega
  have hs : addPad (h0, h1, h2, h3, h4) (p0, p1, p2, p3) =
      store32 (u32Of (ulOf64 w f0)) ++ store32 (u32Of (ulOf64 w f1)) ++ store32 (u32Of (ulOf64 w f2))
        ++ store32 (u32Of (ulOf64 w f3)) := by
    rw [hf3, hf2, hf1, hf0, hw3, hw2, hw1, hw0]; rfl
  rw [hs]
  apply store_quad
  rw [Nat.mod_mod]
  have t : ∀ f : UInt64, (u32Of (ulOf64 w f)).toNat = f.toNat % 2 ^ 32 := by
    intro f
    rw [u32Of_toNat, ulOf64_toNat]
    rcases hw with rfl | rfl <;> omega
  rw [t, t, t, t, fchain _ _ _ _ _ _ _ _ _ _ _ _ m0 m1 m2 m3, n0, n1, n2, n3,
    pack_val _ _ _ _ _ b0 b1 b2]
  simp only [val]
  omega

/-! ### statements on `State` -/

/-- bounds of the key-derived fields: the clamped limbs r0..r3 < 2^26, r4 < 2^20, and the four pad
    words are 32-bit values (they live in `unsigned long`, which may be wider) -/
def RInv {w : Nat} (st : State w) : Prop :=
  st.r.1.toNat < 2 ^ 26 ∧ st.r.2.1.toNat < 2 ^ 26 ∧ st.r.2.2.1.toNat < 2 ^ 26 ∧
  st.r.2.2.2.1.toNat < 2 ^ 26 ∧ st.r.2.2.2.2.toNat < 2 ^ 20 ∧
  st.pad.1.toNat < 2 ^ 32 ∧ st.pad.2.1.toNat < 2 ^ 32 ∧ st.pad.2.2.1.toNat < 2 ^ 32 ∧
  st.pad.2.2.2.toNat < 2 ^ 32

/-- what the carry chain of `poly1305_blocks` guarantees between blocks -/
def Inv {w : Nat} (st : State w) : Prop :=
  st.h.1.toNat < 2 ^ 26 ∧ st.h.2.1.toNat < 2 ^ 26 + 2 ^ 6 ∧ st.h.2.2.1.toNat < 2 ^ 26 ∧
  st.h.2.2.2.1.toNat < 2 ^ 26 ∧ st.h.2.2.2.2.toNat < 2 ^ 26

/-- the 128-bit pad -/
def padVal {w : Nat} (st : State w) : Nat :=
  st.pad.1.toNat + 2 ^ 32 * st.pad.2.1.toNat + 2 ^ 64 * st.pad.2.2.1.toNat + 2 ^ 96 * st.pad.2.2.2.toNat

theorem le_take_16_4 (l : Bytes) :
    le (l.take 16) = le (l.take 4) + 2 ^ 32 * le ((l.drop 4).take 4) + 2 ^ 64 * le ((l.drop 8).take 4)
      + 2 ^ 96 * le ((l.drop 12).take 4) := by
  have h1 := Sodium.PolyDonnaP.le_take_add l 12 4
  have h2 := Sodium.PolyDonnaP.le_take_add l 8 4
  have h3 := Sodium.PolyDonnaP.le_take_add l 4 4
  simp only [Nat.reduceAdd] at h1 h2 h3
  rw [h1, h2, h3]

theorem and_lt (a m k : Nat) (h : m < k) : a &&& m < k := Nat.lt_of_le_of_lt Nat.and_le_right h

theorem init_spec_aux {w : Nat} (hw : WOK w) (key : Bytes) :
    val (poly1305_init w key).r = Spec.Poly1305.clampR (le (key.take 16)) ∧
    RInv (poly1305_init w key) ∧ (poly1305_init w key).h = (0, 0, 0, 0, 0) ∧
    padVal (poly1305_init w key) = le ((key.drop 16).take 16) := by
  have e2 : ∀ t : UInt32, (t >>> 2).toNat = t.toNat / 2 ^ 2 := fun t => shr32_toNat t 2
  have e4 : ∀ t : UInt32, (t >>> 4).toNat = t.toNat / 2 ^ 4 := fun t => shr32_toNat t 4
  have e6 : ∀ t : UInt32, (t >>> 6).toNat = t.toNat / 2 ^ 6 := fun t => shr32_toNat t 6
  have e8 : ∀ t : UInt32, (t >>> 8).toNat = t.toNat / 2 ^ 8 := fun t => shr32_toNat t 8
  refine ⟨?_, ?_, rfl, ?_⟩
  · rw [clamp_limbs _ (Sodium.PolyDonnaP.le_take_lt key 16)]
    simp only [poly1305_init, val, ulOf32_toNat hw, UInt32.toNat_and, e2, e4, e6, e8,
      LOAD32_LE_window key 0 (by omega), LOAD32_LE_window key 3 (by omega), LOAD32_LE_window key 6 (by omega),
      LOAD32_LE_window key 9 (by omega), LOAD32_LE_window key 12 (by omega)]
    rfl
  · simp only [RInv, poly1305_init, ulOf32_toNat hw, UInt32.toNat_and]
    exact ⟨and_lt _ _ _ (by decide), and_lt _ _ _ (by decide), and_lt _ _ _ (by decide),
      and_lt _ _ _ (by decide), and_lt _ _ _ (by decide), UInt32.toNat_lt _, UInt32.toNat_lt _,
      UInt32.toNat_lt _, UInt32.toNat_lt _⟩
  · simp only [padVal, poly1305_init, ulOf32_toNat hw, LOAD32_LE_toNat]
    rw [le_take_16_4 (key.drop 16)]
    simp only [List.drop_drop, Nat.reduceAdd]

theorem blocks_spec_aux {w : Nat} (hw : WOK w) (st : State w) (m : Bytes) (hib : Bool)
    (hr : RInv st) (hi : Inv st) :
    (poly1305_blocks st m hib).r = st.r ∧ (poly1305_blocks st m hib).pad = st.pad ∧
    Inv (poly1305_blocks st m hib) ∧
    val (poly1305_blocks st m hib).h % (2 ^ 130 - 5) =
      ((val st.h + le (m.take 16) + (if hib then 2 ^ 128 else 0)) * val st.r) % (2 ^ 130 - 5) := by
  obtain ⟨⟨r0, r1, r2, r3, r4⟩, ⟨h0, h1, h2, h3, h4⟩, pad⟩ := st
  obtain ⟨q0, q1, q2, q3, q4, k, hk⟩ := blocks_core hw r0 r1 r2 r3 r4 h0 h1 h2 h3 h4 m hib
    hr.1 hr.2.1 hr.2.2.1 hr.2.2.2.1 hr.2.2.2.2.1 hi.1 hi.2.1 hi.2.2.1 hi.2.2.2.1 hi.2.2.2.2
  rw [blocks_eq]
  refine ⟨rfl, rfl, ⟨q0, q1, q2, q3, q4⟩, ?_⟩
  show val (carry w (mulR (r0, r1, r2, r3, r4) (addMsg (h0, h1, h2, h3, h4) m hib))) % (2 ^ 130 - 5) = _
  rw [← hk, Nat.add_mul_mod_self_left]

theorem finish_spec_aux {w : Nat} (hw : WOK w) (st : State w) (hr : RInv st) (hi : Inv st) :
    poly1305_finish st = toLE 16 ((val st.h % (2 ^ 130 - 5) + padVal st) % 2 ^ 128) := by
  obtain ⟨r, ⟨h0, h1, h2, h3, h4⟩, ⟨p0, p1, p2, p3⟩⟩ := st
  rw [finish_eq]
  obtain ⟨a0, a1, a2, a3, a4, k, hk⟩ := fullCarry_spec hw h0 h1 h2 h3 h4 hi.1 hi.2.1 hi.2.2.1 hi.2.2.2.1 hi.2.2.2.2
  show addPad (subP (fullCarry (h0, h1, h2, h3, h4))) (p0, p1, p2, p3) = _
  generalize fullCarry (h0, h1, h2, h3, h4) = fc at *
  obtain ⟨f0, f1, f2, f3, f4⟩ := fc
  obtain ⟨s0, s1, s2, s3, s4, hs⟩ := subP_spec hw f0 f1 f2 f3 f4 a0 a1 a2 a3 a4
  generalize subP (f0, f1, f2, f3, f4) = sp at *
  obtain ⟨g0, g1, g2, g3, g4⟩ := sp
  rw [addPad_spec hw g0 g1 g2 g3 g4 p0 p1 p2 p3 s0 s1 s2 s3 s4
    hr.2.2.2.2.2.1 hr.2.2.2.2.2.2.1 hr.2.2.2.2.2.2.2.1 hr.2.2.2.2.2.2.2.2, hs]
  show _ = toLE 16 ((val (h0, h1, h2, h3, h4) % (2 ^ 130 - 5)
    + (p0.toNat + 2 ^ 32 * p1.toNat + 2 ^ 64 * p2.toNat + 2 ^ 96 * p3.toNat)) % 2 ^ 128)
  rw [← hk, Nat.add_mul_mod_self_left]

/-! ### the donna32 state simulates the abstract (r, s, acc) state -/

def Rel {w : Nat} (s : State w) (n : PolyNat) : Prop :=
  RInv s ∧ Inv s ∧ val s.r = n.1 ∧ padVal s = n.2.1 ∧ val s.h % (2 ^ 130 - 5) = n.2.2

theorem zero_toNat {w : Nat} (hw : WOK w) : (0 : BitVec w).toNat = 0 := lit_toNat hw 0 (by decide)

theorem rel_init {w : Nat} (hw : WOK w) (key : Bytes) : Rel (poly1305_init w key) (polyInitNat key).st := by
  obtain ⟨h1, h2, h3, h4⟩ := init_spec_aux hw key
  refine ⟨h2, ?_, h1, h4, ?_⟩
  · rw [Inv, h3]; simp only [zero_toNat hw]; decide
  · rw [h3]; simp only [val, zero_toNat hw]; rfl

theorem rel_blk {w : Nat} (hw : WOK w) (s : State w) (n : PolyNat) (b : Bytes) (hib : Bool)
    (h : Rel s n) (hb : b.length = 16) :
    Rel (poly1305_blocks s b hib) (polyBlkNat n b hib) := by
  obtain ⟨hr, hi, e1, e2, e3⟩ := h
  obtain ⟨q1, q2, q3, q4⟩ := blocks_spec_aux hw s b hib hr hi
  refine ⟨?_, q3, ?_, ?_, ?_⟩
  · simpa [RInv, q1, q2] using hr
  · rw [q1]; exact e1
  · simp only [padVal, q2]; exact e2
  · rw [q4, le_take_full b 16 (by omega)]
    simp only [polyBlkNat, Spec.Poly1305.p]
    rw [← e3, ← e1, Nat.add_assoc, Nat.add_assoc, Sodium.PolyDonnaP.add_mul_mod_left]

theorem rel_fin {w : Nat} (hw : WOK w) (s : State w) (n : PolyNat) (h : Rel s n) :
    poly1305_finish s = polyFinNat n := by
  obtain ⟨hr, hi, _, e2, e3⟩ := h
  rw [finish_spec_aux hw s hr hi, e2, e3]; rfl

theorem donna32_eq_abstract_aux {w : Nat} (hw : WOK w) (key : Bytes) (cs : List Bytes) :
    macChunksW w key cs
      = polyFinish polyBlkNat polyFinNat (cs.foldl (polyUpdate polyBlkNat) (polyInitNat key)) := by
  have h := Sodium.PolyDonnaP.polyFold_sim poly1305_blocks polyBlkNat Rel (rel_blk hw) cs
    (Poly1305Donna32.init w key) (polyInitNat key) (rel_init hw key) rfl (by simp [Poly1305Donna32.init])
  exact Sodium.PolyDonnaP.polyFinish_sim poly1305_blocks polyBlkNat poly1305_finish polyFinNat Rel
    (rel_blk hw) (rel_fin hw) _ _ h.1 h.2.1 h.2.2

/-! ### "no overflow": the block function equals the same computation over unbounded naturals -/

/-- the carry chain of `poly1305_blocks` over unbounded naturals (no `% 2^w`, no `% 2^64`) -/
def carryNat (d0 d1 d2 d3 d4 : Nat) : Nat × Nat × Nat × Nat × Nat :=
  let c := d0 / 2 ^ 26
  let h0 := d0 % 2 ^ 26
  let d1 := d1 + c
  let c := d1 / 2 ^ 26
  let h1 := d1 % 2 ^ 26
  let d2 := d2 + c
  let c := d2 / 2 ^ 26
  let h2 := d2 % 2 ^ 26
  let d3 := d3 + c
  let c := d3 / 2 ^ 26
  let h3 := d3 % 2 ^ 26
  let d4 := d4 + c
  let c := d4 / 2 ^ 26
  let h4 := d4 % 2 ^ 26
  let h0 := h0 + c * 5
  let c := h0 / 2 ^ 26
  let h0 := h0 % 2 ^ 26
  let h1 := h1 + c
  (h0, h1, h2, h3, h4)

/-- the five sums of products over unbounded naturals -/
def mulNat (r0 r1 r2 r3 r4 h0 h1 h2 h3 h4 : Nat) : Nat × Nat × Nat × Nat × Nat :=
  let s1 := r1 * 5
  let s2 := r2 * 5
  let s3 := r3 * 5
  let s4 := r4 * 5
  (h0 * r0 + h1 * s4 + h2 * s3 + h3 * s2 + h4 * s1,
   h0 * r1 + h1 * r0 + h2 * s4 + h3 * s3 + h4 * s2,
   h0 * r2 + h1 * r1 + h2 * r0 + h3 * s4 + h4 * s3,
   h0 * r3 + h1 * r2 + h2 * r1 + h3 * r0 + h4 * s4,
   h0 * r4 + h1 * r3 + h2 * r2 + h3 * r1 + h4 * r0)

/-- one `poly1305_blocks` iteration over unbounded naturals: the arithmetic the C code intends
    (`n` = the 16-byte block as a little-endian number, `hibit` = 2^24 or 0) -/
def blocksNat (r0 r1 r2 r3 r4 h0 h1 h2 h3 h4 n hibit : Nat) : Nat × Nat × Nat × Nat × Nat :=
  let h0 := h0 + n % 2 ^ 26
  let h1 := h1 + n / 2 ^ 26 % 2 ^ 26
  let h2 := h2 + n / 2 ^ 52 % 2 ^ 26
  let h3 := h3 + n / 2 ^ 78 % 2 ^ 26
  let h4 := h4 + (n / 2 ^ 104 + hibit)
  let d := mulNat r0 r1 r2 r3 r4 h0 h1 h2 h3 h4
  carryNat d.1 d.2.1 d.2.2.1 d.2.2.2.1 d.2.2.2.2

def limbsNat {w : Nat} (h : Limbs5 w) : Nat × Nat × Nat × Nat × Nat :=
  (h.1.toNat, h.2.1.toNat, h.2.2.1.toNat, h.2.2.2.1.toNat, h.2.2.2.2.toNat)

theorem carry_toNat {w : Nat} (hw : WOK w) (d0 d1 d2 d3 d4 : UInt64)
    (h0 : d0.toNat < 2 ^ 57 + 2 ^ 50) (h1 : d1.toNat < 2 ^ 57 + 2 ^ 50) (h2 : d2.toNat < 2 ^ 57 + 2 ^ 50)
    (h3 : d3.toNat < 2 ^ 57 + 2 ^ 50) (h4 : d4.toNat < 2 ^ 55 + 2 ^ 48) :
    limbsNat (carry w (d0, d1, d2, d3, d4)) = carryNat d0.toNat d1.toNat d2.toNat d3.toNat d4.toNat := by
  obtain ⟨c0, hc0⟩ : ∃ c : BitVec w, c = ulOf64 w (d0 >>> 26) := ⟨_, rfl⟩
  have n0 : c0.toNat = d0.toNat / 2 ^ 26 := by rw [hc0, c_toNat hw _ (by omega)]
  obtain ⟨D1, hD1⟩ : ∃ D : UInt64, D = d1 + ull c0 := ⟨_, rfl⟩
  have m1 : D1.toNat = d1.toNat + c0.toNat := by rw [hD1, addc_toNat hw _ _ (by omega)]
  obtain ⟨c1, hc1⟩ : ∃ c : BitVec w, c = ulOf64 w (D1 >>> 26) := ⟨_, rfl⟩
  have n1 : c1.toNat = D1.toNat / 2 ^ 26 := by rw [hc1, c_toNat hw _ (by omega)]
  obtain ⟨D2, hD2⟩ : ∃ D : UInt64, D = d2 + ull c1 := ⟨_, rfl⟩
  have m2 : D2.toNat = d2.toNat + c1.toNat := by rw [hD2, addc_toNat hw _ _ (by omega)]
  obtain ⟨c2, hc2⟩ : ∃ c : BitVec w, c = ulOf64 w (D2 >>> 26) := ⟨_, rfl⟩
  have n2 : c2.toNat = D2.toNat / 2 ^ 26 := by rw [hc2, c_toNat hw _ (by omega)]
  obtain ⟨D3, hD3⟩ : ∃ D : UInt64, D = d3 + ull c2 := ⟨_, rfl⟩
  have m3 : D3.toNat = d3.toNat + c2.toNat := by rw [hD3, addc_toNat hw _ _ (by omega)]
  obtain ⟨c3, hc3⟩ : ∃ c : BitVec w, c = ulOf64 w (D3 >>> 26) := ⟨_, rfl⟩
  have n3 : c3.toNat = D3.toNat / 2 ^ 26 := by rw [hc3, c_toNat hw _ (by omega)]
  obtain ⟨D4, hD4⟩ : ∃ D : UInt64, D = d4 + ull c3 := ⟨_, rfl⟩
  have m4 : D4.toNat = d4.toNat + c3.toNat := by rw [hD4, addc_toNat hw _ _ (by omega)]
  obtain ⟨c4, hc4⟩ : ∃ c : BitVec w, c = ulOf64 w (D4 >>> 26) := ⟨_, rfl⟩
  have n4 : c4.toNat = D4.toNat / 2 ^ 26 := by rw [hc4, c_toNat hw _ (by omega)]
  obtain ⟨e0, he0⟩ : ∃ e : BitVec w, e = (ulOf64 w d0 &&& 0x3ffffff) + c4 * 5 := ⟨_, rfl⟩
  have n5 : e0.toNat = d0.toNat % 2 ^ 26 + c4.toNat * 5 := by
    rw [he0, BitVec.toNat_add, lo_toNat hw, mul5 hw]
    rcases hw with rfl | rfl <;> omega
  have hs : carry w (d0, d1, d2, d3, d4) =
      (e0 &&& 0x3ffffff, (ulOf64 w D1 &&& (0x3ffffff : BitVec w)) + (e0 >>> 26), ulOf64 w D2 &&& 0x3ffffff,
       ulOf64 w D3 &&& 0x3ffffff, ulOf64 w D4 &&& 0x3ffffff) := by
    rw [he0, hc4, hD4, hc3, hD3, hc2, hD2, hc1, hD1, hc0]; rfl
  have n6 : ((ulOf64 w D1 &&& (0x3ffffff : BitVec w)) + (e0 >>> 26)).toNat = D1.toNat % 2 ^ 26 + e0.toNat / 2 ^ 26 := by
    rw [BitVec.toNat_add, lo_toNat hw, shr_toNat]
    rcases hw with rfl | rfl <;> omega
  rw [hs]
  simp only [limbsNat, carryNat, n6, lo_toNat hw, lo26 hw, n5, n4, m4, n3, m3, n2, m2, n1, m1, n0]

/-- Under the invariants no `unsigned long` addition or multiplication wraps (whether `unsigned long`
    has 32 or 64 bits), no 64-bit product or sum wraps, and no `(unsigned long)(d >> 26)` is truncated:
    the limbs computed by `poly1305_blocks` are those of the same computation over unbounded naturals;
    d0..d3 stay below 2^57 + 2^50 and d4 below 2^55 + 2^48. -/
theorem blocks_no_overflow_aux {w : Nat} (hw : WOK w) (st : State w) (m : Bytes) (hib : Bool)
    (hr : RInv st) (hi : Inv st) :
    limbsNat (poly1305_blocks st m hib).h =
      blocksNat st.r.1.toNat st.r.2.1.toNat st.r.2.2.1.toNat st.r.2.2.2.1.toNat st.r.2.2.2.2.toNat
        st.h.1.toNat st.h.2.1.toNat st.h.2.2.1.toNat st.h.2.2.2.1.toNat st.h.2.2.2.2.toNat
        (le (m.take 16)) (if hib then 2 ^ 24 else 0) ∧
    (mulR st.r (addMsg st.h m hib)).1.toNat < 2 ^ 57 + 2 ^ 50 ∧
    (mulR st.r (addMsg st.h m hib)).2.1.toNat < 2 ^ 57 + 2 ^ 50 ∧
    (mulR st.r (addMsg st.h m hib)).2.2.1.toNat < 2 ^ 57 + 2 ^ 50 ∧
    (mulR st.r (addMsg st.h m hib)).2.2.2.1.toNat < 2 ^ 57 + 2 ^ 50 ∧
    (mulR st.r (addMsg st.h m hib)).2.2.2.2.toNat < 2 ^ 55 + 2 ^ 48 := by
  obtain ⟨⟨r0, r1, r2, r3, r4⟩, ⟨h0, h1, h2, h3, h4⟩, pad⟩ := st
  obtain ⟨hr0, hr1, hr2, hr3, hr4, _⟩ := hr
  obtain ⟨b0, b1, b2, b3, b4⟩ := hi
  simp only at hr0 hr1 hr2 hr3 hr4 b0 b1 b2 b3 b4
  rw [blocks_eq]
  simp only
  obtain ⟨a0, a1, a2, a3, a4⟩ := addMsg_spec hw h0 h1 h2 h3 h4 m hib b0 b1 b2 b3 b4
  have hN : le (m.take 16) < 2 ^ 128 := Sodium.PolyDonnaP.le_take_lt m 16
  generalize le (m.take 16) = N at *
  obtain ⟨H0, H1, H2, H3, H4, hH⟩ : ∃ H0 H1 H2 H3 H4, addMsg (h0, h1, h2, h3, h4) m hib = (H0, H1, H2, H3, H4) :=
    ⟨_, _, _, _, _, rfl⟩
  rw [hH] at a0 a1 a2 a3 a4 ⊢
  simp only at a0 a1 a2 a3 a4
  have hb : (if hib then 2 ^ 24 else 0) ≤ 2 ^ 24 := by split <;> omega
  have c0 : H0.toNat < 2 ^ 27 + 2 ^ 6 := by omega
  have c1 : H1.toNat < 2 ^ 27 + 2 ^ 6 := by omega
  have c2 : H2.toNat < 2 ^ 27 + 2 ^ 6 := by omega
  have c3 : H3.toNat < 2 ^ 27 + 2 ^ 6 := by omega
  have c4 : H4.toNat < 2 ^ 27 + 2 ^ 6 := by omega
  have hm := mulR_spec hw r0 r1 r2 r3 r4 H0 H1 H2 H3 H4 hr0 hr1 hr2 hr3 hr4 c0 c1 c2 c3 c4
  obtain ⟨m0, m1, m2, m3, m4⟩ := mulR_bounds hw r0 r1 r2 r3 r4 H0 H1 H2 H3 H4 hr0 hr1 hr2 hr3 hr4 c0 c1 c2 c3 c4
  refine ⟨?_, m0, m1, m2, m3, m4⟩
  obtain ⟨d0, d1, d2, d3, d4, hd⟩ : ∃ d0 d1 d2 d3 d4,
      mulR (r0, r1, r2, r3, r4) (H0, H1, H2, H3, H4) = (d0, d1, d2, d3, d4) := ⟨_, _, _, _, _, rfl⟩
  rw [hd] at hm m0 m1 m2 m3 m4 ⊢
  simp only [d5Nat, Prod.mk.injEq] at hm m0 m1 m2 m3 m4
  obtain ⟨e0, e1, e2, e3, e4⟩ := hm
  rw [carry_toNat hw d0 d1 d2 d3 d4 m0 m1 m2 m3 m4, e0, e1, e2, e3, e4]
  simp only [blocksNat, mulNat, ← a0, ← a1, ← a2, ← a3, ← a4]
  congr 1 <;> simp only [Nat.mul_left_comm _ 5 _, Nat.mul_comm _ 5]

/-! ### common.h byte-shift fallbacks -/

theorem or_add (a b k : Nat) (ha : a < 2 ^ k) : a ||| b <<< k = a + b * 2 ^ k := by
  rw [Nat.or_comm, ← Nat.shiftLeft_add_eq_or_of_lt ha, Nat.shiftLeft_eq, Nat.add_comm]

theorem le_drop_take1 (l : Bytes) (n : Nat) : le ((l.drop n).take 1) = (l.getD n 0).toNat := by
  induction n generalizing l with
  | zero => cases l <;> simp [le]
  | succ n ih => cases l with
    | nil => simp [le]
    | cons a t => simpa using ih t

theorem le_take_succ (l : Bytes) (n : Nat) :
    le (l.take (n + 1)) = le (l.take n) + 256 ^ n * (l.getD n 0).toNat := by
  rw [Sodium.PolyDonnaP.le_take_add, le_drop_take1]

theorem le_take8 (b : Bytes) :
    le (b.take 8) = (b.getD 0 0).toNat + 2 ^ 8 * (b.getD 1 0).toNat + 2 ^ 16 * (b.getD 2 0).toNat
      + 2 ^ 24 * (b.getD 3 0).toNat + 2 ^ 32 * (b.getD 4 0).toNat + 2 ^ 40 * (b.getD 5 0).toNat
      + 2 ^ 48 * (b.getD 6 0).toNat + 2 ^ 56 * (b.getD 7 0).toNat := by
  rw [le_take_succ b 7, le_take_succ b 6, le_take_succ b 5, le_take_succ b 4, le_take_succ b 3,
    le_take_succ b 2, le_take_succ b 1, le_take_succ b 0]
  simp [le]

theorem le_take4 (b : Bytes) :
    le (b.take 4) = (b.getD 0 0).toNat + 2 ^ 8 * (b.getD 1 0).toNat + 2 ^ 16 * (b.getD 2 0).toNat
      + 2 ^ 24 * (b.getD 3 0).toNat := by
  rw [le_take_succ b 3, le_take_succ b 2, le_take_succ b 1, le_take_succ b 0]
  simp [le]

/-- eight bytes combined with shifts and ORs in 64 bits -/
theorem or8_toNat (a0 a1 a2 a3 a4 a5 a6 a7 : UInt8) :
    (a0.toUInt64 ||| (a1.toUInt64 <<< 8) ||| (a2.toUInt64 <<< 16) ||| (a3.toUInt64 <<< 24)
      ||| (a4.toUInt64 <<< 32) ||| (a5.toUInt64 <<< 40) ||| (a6.toUInt64 <<< 48) ||| (a7.toUInt64 <<< 56)).toNat
    = a0.toNat + 2 ^ 8 * a1.toNat + 2 ^ 16 * a2.toNat + 2 ^ 24 * a3.toNat + 2 ^ 32 * a4.toNat
      + 2 ^ 40 * a5.toNat + 2 ^ 48 * a6.toNat + 2 ^ 56 * a7.toNat := by
  have h0 := a0.toNat_lt; have h1 := a1.toNat_lt; have h2 := a2.toNat_lt; have h3 := a3.toNat_lt
  have h4 := a4.toNat_lt; have h5 := a5.toNat_lt; have h6 := a6.toNat_lt; have h7 := a7.toNat_lt
  simp only [UInt64.toNat_or, UInt64.toNat_shiftLeft, UInt8.toNat_toUInt64]
  have e : ∀ (a k : Nat), a < 256 → k ≤ 56 → a <<< k % 2 ^ 64 = a <<< k := by
    intro a k ha hk
    apply Nat.mod_eq_of_lt
    rw [Nat.shiftLeft_eq]
    calc a * 2 ^ k < 2 ^ 8 * 2 ^ k := Nat.mul_lt_mul_of_pos_right ha (Nat.pow_pos (by decide))
      _ = 2 ^ (8 + k) := (Nat.pow_add 2 8 k).symm
      _ ≤ 2 ^ 64 := Nat.pow_le_pow_right (by decide) (by omega)
  rw [show (8 : UInt64).toNat % 64 = 8 from rfl, show (16 : UInt64).toNat % 64 = 16 from rfl,
    show (24 : UInt64).toNat % 64 = 24 from rfl, show (32 : UInt64).toNat % 64 = 32 from rfl,
    show (40 : UInt64).toNat % 64 = 40 from rfl, show (48 : UInt64).toNat % 64 = 48 from rfl,
    show (56 : UInt64).toNat % 64 = 56 from rfl,
    e _ 8 h1 (by omega), e _ 16 h2 (by omega), e _ 24 h3 (by omega), e _ 32 h4 (by omega),
    e _ 40 h5 (by omega), e _ 48 h6 (by omega), e _ 56 h7 (by omega)]
  rw [or_add _ _ 8 (by omega), or_add _ _ 16 (by omega), or_add _ _ 24 (by omega), or_add _ _ 32 (by omega),
    or_add _ _ 40 (by omega), or_add _ _ 48 (by omega), or_add _ _ 56 (by omega)]
  omega

theorem or4_toNat (a0 a1 a2 a3 : UInt8) :
    (a0.toUInt32 ||| (a1.toUInt32 <<< 8) ||| (a2.toUInt32 <<< 16) ||| (a3.toUInt32 <<< 24)).toNat
    = a0.toNat + 2 ^ 8 * a1.toNat + 2 ^ 16 * a2.toNat + 2 ^ 24 * a3.toNat := by
  have h0 := a0.toNat_lt; have h1 := a1.toNat_lt; have h2 := a2.toNat_lt; have h3 := a3.toNat_lt
  simp only [UInt32.toNat_or, UInt32.toNat_shiftLeft, UInt8.toNat_toUInt32]
  have e : ∀ (a k : Nat), a < 256 → k ≤ 24 → a <<< k % 2 ^ 32 = a <<< k := by
    intro a k ha hk
    apply Nat.mod_eq_of_lt
    rw [Nat.shiftLeft_eq]
    calc a * 2 ^ k < 2 ^ 8 * 2 ^ k := Nat.mul_lt_mul_of_pos_right ha (Nat.pow_pos (by decide))
      _ = 2 ^ (8 + k) := (Nat.pow_add 2 8 k).symm
      _ ≤ 2 ^ 32 := Nat.pow_le_pow_right (by decide) (by omega)
  rw [show (8 : UInt32).toNat % 32 = 8 from rfl, show (16 : UInt32).toNat % 32 = 16 from rfl,
    show (24 : UInt32).toNat % 32 = 24 from rfl,
    e _ 8 h1 (by omega), e _ 16 h2 (by omega), e _ 24 h3 (by omega)]
  rw [or_add _ _ 8 (by omega), or_add _ _ 16 (by omega), or_add _ _ 24 (by omega)]
  omega

theorem load64_le_shift_eq (src : Bytes) : load64_le_shift src = load64_le_native src := by
  apply UInt64.toNat_inj.mp
  rw [load64_le_native, load64_toNat, le_take8]
  exact or8_toNat _ _ _ _ _ _ _ _

theorem load32_le_shift_eq (src : Bytes) : load32_le_shift src = load32_le_native src := by
  apply UInt32.toNat_inj.mp
  rw [load32_le_native, load32_toNat, le_take4]
  exact or4_toNat _ _ _ _

theorem store32_le_shift_eq (w : UInt32) : store32_le_shift w = store32_le_native w := by
  have hw := w.toNat_lt
  have e8 : (8 : UInt32).toNat % 32 = 8 := by decide
  simp only [store32_le_native, store32, store32_le_shift, toLE, List.cons.injEq, and_true]
  refine ⟨?_, ?_, ?_, ?_⟩ <;> apply UInt8.toNat_inj.mp <;>
    simp only [UInt32.toNat_toUInt8, UInt32.toNat_shiftRight, e8, Nat.shiftRight_eq_div_pow,
      UInt8.toNat_ofNat'] <;> omega

theorem store64_le_shift_eq (w : UInt64) : store64_le_shift w = store64_le_native w := by
  have hw := w.toNat_lt
  have e8 : (8 : UInt64).toNat % 64 = 8 := by decide
  simp only [store64_le_native, store64, store64_le_shift, toLE, List.cons.injEq, and_true]
  refine ⟨?_, ?_, ?_, ?_, ?_, ?_, ?_, ?_⟩ <;> apply UInt8.toNat_inj.mp <;>
    simp only [UInt64.toNat_toUInt8, UInt64.toNat_shiftRight, e8, Nat.shiftRight_eq_div_pow,
      UInt8.toNat_ofNat'] <;> omega

theorem store64_be_shift_eq (w : UInt64) : store64_be_shift w = store64_be_native w := by
  have h : store64_be_shift w = (store64_le_shift w).reverse := rfl
  rw [h, store64_le_shift_eq]; rfl

theorem store32_be_shift_eq (w : UInt32) : store32_be_shift w = store32_be_native w := by
  have h : store32_be_shift w = (store32_le_shift w).reverse := rfl
  rw [h, store32_le_shift_eq]; rfl

/-- the big-endian loads need the 8 (4) bytes to be there: `be` of a shorter list is not the
    zero-padded value -/
theorem load64_be_shift_eq (src : Bytes) (h : 8 ≤ src.length) :
    load64_be_shift src = load64_be_native src := by
  match src, h with
  | a0 :: a1 :: a2 :: a3 :: a4 :: a5 :: a6 :: a7 :: r, _ =>
    apply UInt64.toNat_inj.mp
    have e : be ((a0 :: a1 :: a2 :: a3 :: a4 :: a5 :: a6 :: a7 :: r).take 8)
        = le ([a7, a6, a5, a4, a3, a2, a1, a0].take 8) := rfl
    rw [load64_be_native, e, ← load64, load64_toNat, le_take8]
    exact or8_toNat _ _ _ _ _ _ _ _

theorem load32_be_shift_eq (src : Bytes) (h : 4 ≤ src.length) :
    load32_be_shift src = load32_be_native src := by
  match src, h with
  | a0 :: a1 :: a2 :: a3 :: r, _ =>
    apply UInt32.toNat_inj.mp
    have e : be ((a0 :: a1 :: a2 :: a3 :: r).take 4) = le ([a3, a2, a1, a0].take 4) := rfl
    rw [load32_be_native, e, ← load32, load32_toNat, le_take4]
    exact or4_toNat _ _ _ _

end Sodium.Poly1305Donna32P
