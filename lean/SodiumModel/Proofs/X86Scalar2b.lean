import SodiumModel.Proofs.X86Scalar2
/-
  Helper lemmas for `Properties/C05Asm2.lean`, part 2: the 32 byte stores of fe51_pack.S, executed symbolically in five
  chunks (one per limb register).  The statements of the chunk lemmas were produced mechanically from the byte layout
  table of fe51_pack.S: limb, shift, and for the four bytes that straddle two limbs the `shl` count and the `and` mask.
-/
namespace Sodium.X86ScalarP
open Sodium Sodium.Model Sodium.Model.X86Scalar Sodium.Model.Fe51 Sodium.Fe51P Sodium.Spec
open Generated.Sandy2xAsm

/-- `mov x,%rax; and $0xFF,%eax; movb %al` -/
def bA0 (x : UInt64) : UInt8 := ((x.toUInt32 &&& 0xFF).toUInt64).toUInt8
/-- `mov x,%rax; shr $k,%rax; and $0xFF,%eax; movb %al` -/
def bA (x k : UInt64) : UInt8 := (((x >>> k).toUInt32 &&& 0xFF).toUInt64).toUInt8
/-- a byte straddling two limbs: `shr $k,lo; mov hi,t; shl $j,t; and $c,%e(t); xor lo,t; movb` -/
def bJ (lo : UInt64) (k : UInt64) (hi : UInt64) (j : UInt64) (c : UInt32) : UInt8 :=
  (((hi <<< j).toUInt32 &&& c).toUInt64 ^^^ (lo >>> k)).toUInt8
/-- `shr $k,x; movb` (no mask) -/
def bS (x k : UInt64) : UInt8 := (x >>> k).toUInt8

/-- the 32 bytes that fe51_pack.S stores for the limb registers `g` -/
def packBytes (g : Fe) : Bytes := [bA0 g.l0, bA g.l0 8, bA g.l0 16, bA g.l0 24, bA g.l0 32, bA g.l0 40, bJ g.l0 48 g.l1 3 0xF8, bA g.l1 5, bA g.l1 13, bA g.l1 21, bA g.l1 29, bA g.l1 37, bJ g.l1 45 g.l2 6 0xC0, bA g.l2 2, bA g.l2 10, bA g.l2 18, bA g.l2 26, bA g.l2 34, bS g.l2 42, bJ g.l2 50 g.l3 1 0xFE, bA g.l3 7, bA g.l3 15, bA g.l3 23, bA g.l3 31, bA g.l3 39, bJ g.l3 47 g.l4 4 0xF0, bA g.l4 4, bA g.l4 12, bA g.l4 20, bA g.l4 28, bA g.l4 36, bS g.l4 44]

/-- memory after the 32 `movb` -/
def storeMem (m : Mem) (a : UInt64) (g : Fe) : Mem :=
  write8 (write8 (write8 (write8 (write8 (write8 (write8 (write8 (write8 (write8 (write8 (write8 (write8 (write8 (write8 (write8 (write8 (write8 (write8 (write8 (write8 (write8 (write8 (write8 (write8 (write8 (write8 (write8 (write8 (write8 (write8 (write8 (m) (a + 0) (bA0 g.l0)) (a + 1) (bA g.l0 8)) (a + 2) (bA g.l0 16)) (a + 3) (bA g.l0 24)) (a + 4) (bA g.l0 32)) (a + 5) (bA g.l0 40)) (a + 6) (bJ g.l0 48 g.l1 3 0xF8)) (a + 7) (bA g.l1 5)) (a + 8) (bA g.l1 13)) (a + 9) (bA g.l1 21)) (a + 10) (bA g.l1 29)) (a + 11) (bA g.l1 37)) (a + 12) (bJ g.l1 45 g.l2 6 0xC0)) (a + 13) (bA g.l2 2)) (a + 14) (bA g.l2 10)) (a + 15) (bA g.l2 18)) (a + 16) (bA g.l2 26)) (a + 17) (bA g.l2 34)) (a + 18) (bS g.l2 42)) (a + 19) (bJ g.l2 50 g.l3 1 0xFE)) (a + 20) (bA g.l3 7)) (a + 21) (bA g.l3 15)) (a + 22) (bA g.l3 23)) (a + 23) (bA g.l3 31)) (a + 24) (bA g.l3 39)) (a + 25) (bJ g.l3 47 g.l4 4 0xF0)) (a + 26) (bA g.l4 4)) (a + 27) (bA g.l4 12)) (a + 28) (bA g.l4 20)) (a + 29) (bA g.l4 28)) (a + 30) (bA g.l4 36)) (a + 31) (bS g.l4 44)

theorem run_append (a b : List Instr) (s : State) : run (a ++ b) s = run b (run a s) := by
  induction a generalizing s with
  | nil => rfl
  | cons i is ih => exact ih (step i s)

set_option maxRecDepth 8000 in
/-- bytes 0 to 6 -/
theorem store1 (s : State) :
    (run ((fe51_pack_b2.drop 19).take 30) s).mem = write8 (write8 (write8 (write8 (write8 (write8 (write8 (s.mem) (s.rdi + 0) (bA0 s.rdx)) (s.rdi + 1) (bA s.rdx 8)) (s.rdi + 2) (bA s.rdx 16)) (s.rdi + 3) (bA s.rdx 24)) (s.rdi + 4) (bA s.rdx 32)) (s.rdi + 5) (bA s.rdx 40)) (s.rdi + 6) (bJ s.rdx 48 s.rcx 3 0xF8) ∧
    (run ((fe51_pack_b2.drop 19).take 30) s).rcx = s.rcx ∧
    (run ((fe51_pack_b2.drop 19).take 30) s).r8 = s.r8 ∧
    (run ((fe51_pack_b2.drop 19).take 30) s).r9 = s.r9 ∧
    (run ((fe51_pack_b2.drop 19).take 30) s).rsi = s.rsi ∧
    (run ((fe51_pack_b2.drop 19).take 30) s).rdi = s.rdi ∧
    (run ((fe51_pack_b2.drop 19).take 30) s).rsp = s.rsp ∧
    (run ((fe51_pack_b2.drop 19).take 30) s).rbx = s.rbx ∧
    (run ((fe51_pack_b2.drop 19).take 30) s).rbp = s.rbp ∧
    (run ((fe51_pack_b2.drop 19).take 30) s).r13 = s.r13 ∧
    (run ((fe51_pack_b2.drop 19).take 30) s).r14 = s.r14 ∧
    (run ((fe51_pack_b2.drop 19).take 30) s).r15 = s.r15 ∧
    (run ((fe51_pack_b2.drop 19).take 30) s).ok = s.ok := by
  simp only [fe51_pack_b2, List.take, List.drop, run, step, stepAlu, State.read, State.write, State.get, State.set,
    State.flags, ea, bA0, bA, bJ, bS, and_self]

set_option maxRecDepth 8000 in
/-- bytes 7 to 12 -/
theorem store2 (s : State) :
    (run ((fe51_pack_b2.drop 49).take 27) s).mem = write8 (write8 (write8 (write8 (write8 (write8 (s.mem) (s.rdi + 7) (bA s.rcx 5)) (s.rdi + 8) (bA s.rcx 13)) (s.rdi + 9) (bA s.rcx 21)) (s.rdi + 10) (bA s.rcx 29)) (s.rdi + 11) (bA s.rcx 37)) (s.rdi + 12) (bJ s.rcx 45 s.r8 6 0xC0) ∧
    (run ((fe51_pack_b2.drop 49).take 27) s).r8 = s.r8 ∧
    (run ((fe51_pack_b2.drop 49).take 27) s).r9 = s.r9 ∧
    (run ((fe51_pack_b2.drop 49).take 27) s).rsi = s.rsi ∧
    (run ((fe51_pack_b2.drop 49).take 27) s).rdi = s.rdi ∧
    (run ((fe51_pack_b2.drop 49).take 27) s).rsp = s.rsp ∧
    (run ((fe51_pack_b2.drop 49).take 27) s).rbx = s.rbx ∧
    (run ((fe51_pack_b2.drop 49).take 27) s).rbp = s.rbp ∧
    (run ((fe51_pack_b2.drop 49).take 27) s).r13 = s.r13 ∧
    (run ((fe51_pack_b2.drop 49).take 27) s).r14 = s.r14 ∧
    (run ((fe51_pack_b2.drop 49).take 27) s).r15 = s.r15 ∧
    (run ((fe51_pack_b2.drop 49).take 27) s).ok = s.ok := by
  simp only [fe51_pack_b2, List.take, List.drop, run, step, stepAlu, State.read, State.write, State.get, State.set,
    State.flags, ea, bA0, bA, bJ, bS, and_self]

set_option maxRecDepth 8000 in
/-- bytes 13 to 19 -/
theorem store3 (s : State) :
    (run ((fe51_pack_b2.drop 76).take 30) s).mem = write8 (write8 (write8 (write8 (write8 (write8 (write8 (s.mem) (s.rdi + 13) (bA s.r8 2)) (s.rdi + 14) (bA s.r8 10)) (s.rdi + 15) (bA s.r8 18)) (s.rdi + 16) (bA s.r8 26)) (s.rdi + 17) (bA s.r8 34)) (s.rdi + 18) (bS s.r8 42)) (s.rdi + 19) (bJ s.r8 50 s.r9 1 0xFE) ∧
    (run ((fe51_pack_b2.drop 76).take 30) s).r9 = s.r9 ∧
    (run ((fe51_pack_b2.drop 76).take 30) s).rsi = s.rsi ∧
    (run ((fe51_pack_b2.drop 76).take 30) s).rdi = s.rdi ∧
    (run ((fe51_pack_b2.drop 76).take 30) s).rsp = s.rsp ∧
    (run ((fe51_pack_b2.drop 76).take 30) s).rbx = s.rbx ∧
    (run ((fe51_pack_b2.drop 76).take 30) s).rbp = s.rbp ∧
    (run ((fe51_pack_b2.drop 76).take 30) s).r13 = s.r13 ∧
    (run ((fe51_pack_b2.drop 76).take 30) s).r14 = s.r14 ∧
    (run ((fe51_pack_b2.drop 76).take 30) s).r15 = s.r15 ∧
    (run ((fe51_pack_b2.drop 76).take 30) s).ok = s.ok := by
  simp only [fe51_pack_b2, List.take, List.drop, run, step, stepAlu, State.read, State.write, State.get, State.set,
    State.flags, ea, bA0, bA, bJ, bS, and_self]

set_option maxRecDepth 8000 in
/-- bytes 20 to 25 -/
theorem store4 (s : State) :
    (run ((fe51_pack_b2.drop 106).take 27) s).mem = write8 (write8 (write8 (write8 (write8 (write8 (s.mem) (s.rdi + 20) (bA s.r9 7)) (s.rdi + 21) (bA s.r9 15)) (s.rdi + 22) (bA s.r9 23)) (s.rdi + 23) (bA s.r9 31)) (s.rdi + 24) (bA s.r9 39)) (s.rdi + 25) (bJ s.r9 47 s.rsi 4 0xF0) ∧
    (run ((fe51_pack_b2.drop 106).take 27) s).rsi = s.rsi ∧
    (run ((fe51_pack_b2.drop 106).take 27) s).rdi = s.rdi ∧
    (run ((fe51_pack_b2.drop 106).take 27) s).rsp = s.rsp ∧
    (run ((fe51_pack_b2.drop 106).take 27) s).rbx = s.rbx ∧
    (run ((fe51_pack_b2.drop 106).take 27) s).rbp = s.rbp ∧
    (run ((fe51_pack_b2.drop 106).take 27) s).r13 = s.r13 ∧
    (run ((fe51_pack_b2.drop 106).take 27) s).r14 = s.r14 ∧
    (run ((fe51_pack_b2.drop 106).take 27) s).r15 = s.r15 ∧
    (run ((fe51_pack_b2.drop 106).take 27) s).ok = s.ok := by
  simp only [fe51_pack_b2, List.take, List.drop, run, step, stepAlu, State.read, State.write, State.get, State.set,
    State.flags, ea, bA0, bA, bJ, bS, and_self]

set_option maxRecDepth 8000 in
/-- bytes 26 to 31 -/
theorem store5 (s : State) :
    (run ((fe51_pack_b2.drop 133).take 23) s).mem = write8 (write8 (write8 (write8 (write8 (write8 (s.mem) (s.rdi + 26) (bA s.rsi 4)) (s.rdi + 27) (bA s.rsi 12)) (s.rdi + 28) (bA s.rsi 20)) (s.rdi + 29) (bA s.rsi 28)) (s.rdi + 30) (bA s.rsi 36)) (s.rdi + 31) (bS s.rsi 44) ∧
    (run ((fe51_pack_b2.drop 133).take 23) s).rdi = s.rdi ∧
    (run ((fe51_pack_b2.drop 133).take 23) s).rsp = s.rsp ∧
    (run ((fe51_pack_b2.drop 133).take 23) s).rbx = s.rbx ∧
    (run ((fe51_pack_b2.drop 133).take 23) s).rbp = s.rbp ∧
    (run ((fe51_pack_b2.drop 133).take 23) s).r13 = s.r13 ∧
    (run ((fe51_pack_b2.drop 133).take 23) s).r14 = s.r14 ∧
    (run ((fe51_pack_b2.drop 133).take 23) s).r15 = s.r15 ∧
    (run ((fe51_pack_b2.drop 133).take 23) s).ok = s.ok := by
  simp only [fe51_pack_b2, List.take, List.drop, run, step, stepAlu, State.read, State.write, State.get, State.set,
    State.flags, ea, bA0, bA, bJ, bS, and_self]

theorem stores_split : (fe51_pack_b2.drop 19).take 137 =
    (fe51_pack_b2.drop 19).take 30 ++ ((fe51_pack_b2.drop 49).take 27 ++ ((fe51_pack_b2.drop 76).take 30 ++
      ((fe51_pack_b2.drop 106).take 27 ++ (fe51_pack_b2.drop 133).take 23))) := by rfl

/-- **symbolic execution of the 137 store instructions** -/
theorem stores_exec (s : State) :
    (run ((fe51_pack_b2.drop 19).take 137) s).mem = storeMem s.mem s.rdi (limbs s) ∧
    (run ((fe51_pack_b2.drop 19).take 137) s).rdi = s.rdi ∧ (run ((fe51_pack_b2.drop 19).take 137) s).rsp = s.rsp ∧
    (run ((fe51_pack_b2.drop 19).take 137) s).rbx = s.rbx ∧ (run ((fe51_pack_b2.drop 19).take 137) s).rbp = s.rbp ∧
    (run ((fe51_pack_b2.drop 19).take 137) s).r13 = s.r13 ∧ (run ((fe51_pack_b2.drop 19).take 137) s).r14 = s.r14 ∧
    (run ((fe51_pack_b2.drop 19).take 137) s).r15 = s.r15 ∧ (run ((fe51_pack_b2.drop 19).take 137) s).ok = s.ok := by
  rw [stores_split, run_append, run_append, run_append, run_append]
  obtain ⟨m1, c1, e1, n1, i1, d1, p1, x1, q1, y1, z1, w1, k1⟩ := store1 s
  obtain ⟨m2, e2, n2, i2, d2, p2, x2, q2, y2, z2, w2, k2⟩ := store2 (run ((fe51_pack_b2.drop 19).take 30) s)
  obtain ⟨m3, n3, i3, d3, p3, x3, q3, y3, z3, w3, k3⟩ := store3 (run ((fe51_pack_b2.drop 49).take 27) (run ((fe51_pack_b2.drop 19).take 30) s))
  obtain ⟨m4, i4, d4, p4, x4, q4, y4, z4, w4, k4⟩ := store4 (run ((fe51_pack_b2.drop 76).take 30) (run ((fe51_pack_b2.drop 49).take 27) (run ((fe51_pack_b2.drop 19).take 30) s)))
  obtain ⟨m5, d5, p5, x5, q5, y5, z5, w5, k5⟩ := store5 (run ((fe51_pack_b2.drop 106).take 27) (run ((fe51_pack_b2.drop 76).take 30) (run ((fe51_pack_b2.drop 49).take 27) (run ((fe51_pack_b2.drop 19).take 30) s))))
  refine ⟨?_, by rw [d5, d4, d3, d2, d1], by rw [p5, p4, p3, p2, p1], by rw [x5, x4, x3, x2, x1], by rw [q5, q4, q3, q2, q1],
    by rw [y5, y4, y3, y2, y1], by rw [z5, z4, z3, z2, z1], by rw [w5, w4, w3, w2, w1], by rw [k5, k4, k3, k2, k1]⟩
  rw [m5, m4, m3, m2, m1, d4, d3, d2, d1, i4, i3, i2, i1, n3, n2, n1, e2, e1, c1]
  rfl

end Sodium.X86ScalarP
