import SodiumModel.Proofs.EdSignCodec
/-
  Helper lemmas for `Properties/C06Full2.lean`: closed forms of `ge25519_frombytes`,
  `ge25519_frombytes_negate_vartime`, `ge25519_p3_tobytes`, `ge25519_tobytes` over the specification field.
-/
open Sodium Sodium.Spec Sodium.Model.Ge25519
open Sodium.Model.Sign (u8i i2u8)
open Sodium.Ge25519P (toPoint p2Point invert_eq sg_iszero sg_mul sg_sub sg_add sg_neg sg_sq d_eq sqrtm1_eq)
open Sodium.RistrettoRefP (F normX mul_lt sqr_lt neg_lt)
namespace Sodium.EdSignP

theorem vOf_def' (y : Nat) : F25519.add (F25519.mul (F25519.sqr y) Ed25519.d) 1 = vOf y := by
  rw [RistrettoRefP.mul_comm']; rfl

theorem cand1_def (u v : Nat) : F25519.mul u (F25519.pow (F25519.mul u v) ((F25519.p - 5) / 8)) = cand1 u v := rfl

theorem cand2'_def (u v : Nat) :
    F25519.mul (F25519.mul
      (F25519.pow (F25519.mul (F25519.mul (F25519.sqr (F25519.mul (F25519.sqr v) v)) v) u) ((F25519.p - 5) / 8))
      (F25519.mul (F25519.sqr v) v)) u = cand2' u v := rfl

theorem rc_bits (a b : Bool) :
    ((if a then (1 : Int32) else 0) ||| (if b then 1 else 0)) - 1 = if (a || b) then 0 else -1 := by
  cases a <;> cases b <;> rfl

theorem e0 : ¬ (Int32.toUInt32 1 = 0) := by decide
theorem e1 : Int32.toUInt32 0 = 0 := by decide

/-- the point written to `*h`, as a function of the selected root (`dflt`: the value left in `h->X` on failure) -/
def fbPoint (y : Nat) (sg : Bool) (o : Option Nat) (dflt : Nat) : P3 Nat :=
  ⟨normX (o.getD dflt) sg, y, 1, F25519.mul (normX (o.getD dflt) sg) y⟩

/-- the pure case analysis behind `ge25519_frombytes`, on opaque values -/
theorem fb_cases (c ci y : Nat) (sg b1 b2 : Bool) :
    ((if (b1 || b2) = true then (0 : Int32) else -1),
      (⟨normX (if ((1 : Int32) - if b1 = true then 1 else 0).toUInt32 = 0 then c else ci) sg, y, 1,
        F25519.mul (normX (if ((1 : Int32) - if b1 = true then 1 else 0).toUInt32 = 0 then c else ci) sg) y⟩ : P3 Nat)) =
    ((if (if b1 = true then some c else if b2 = true then some ci else none).isSome = true then (0 : Int32) else -1),
      fbPoint y sg (if b1 = true then some c else if b2 = true then some ci else none) ci) := by
  unfold fbPoint
  cases b1 <;> cases b2 <;> simp [e0, e1]

attribute [local irreducible] F25519.mul F25519.sqr F25519.add F25519.sub F25519.neg F25519.pow F25519.isZero
  F25519.isNegative F25519.sqrtM1 F25519.fromBytesMasked normX in
/-- `ge25519_frombytes` over the specification field in closed form -/
theorem frombytes_closed (s : Bytes) :
    ge25519_frombytes specGe s =
      (if (pick (uOf (F25519.fromBytesMasked s)) (vOf (F25519.fromBytesMasked s))
            (cand1 (uOf (F25519.fromBytesMasked s)) (vOf (F25519.fromBytesMasked s)))).isSome then 0 else -1,
       fbPoint (F25519.fromBytesMasked s) (signBit s)
         (pick (uOf (F25519.fromBytesMasked s)) (vOf (F25519.fromBytesMasked s))
            (cand1 (uOf (F25519.fromBytesMasked s)) (vOf (F25519.fromBytesMasked s))))
         (F25519.mul (cand1 (uOf (F25519.fromBytesMasked s)) (vOf (F25519.fromBytesMasked s))) F25519.sqrtM1)) := by
  have hd : ed25519_d specGe = Ed25519.d := d_eq
  have hi : fe25519_sqrtm1 specGe = F25519.sqrtM1 := sqrtm1_eq
  unfold ge25519_frombytes signBit pick
  simp only [sg_frombytes, sg_one, sg_sq, sg_mul, sg_sub, sg_add, sg_neg, sg_iszero, sg_cmov, sg_isneg, hd, hi,
    Ge25519P.pow22523_eq, uOf_def, vOf_def', cand1_def, cmov_sign, rc_bits]
  generalize F25519.fromBytesMasked s = y
  rw [RistrettoRefP.isZero_sub (mul_lt _ _), RistrettoRefP.isZero_add (mul_lt _ _), Nat.mod_eq_of_lt (uOf_lt y)]
  exact fb_cases _ _ _ _ _ _

/-! ### ge25519_frombytes_negate_vartime -/

theorem flag0 (b : Bool) : ((if b = true then (1 : Int32) else 0) = 0) ↔ b = false := by cases b <;> decide

/-- the pure case analysis behind `ge25519_frombytes_negate_vartime` -/
theorem nb_cases (c ci y : Nat) (sg b1 b2 : Bool) :
    (if (if b1 = true then (1 : Int32) else 0) = 0 then
        (if (if b2 = true then (1 : Int32) else 0) = 0 then ((-1 : Int32), (⟨c, y, 1, 0⟩ : P3 Nat))
         else (0, ⟨normX ci sg, y, 1, F25519.mul (normX ci sg) y⟩))
      else (0, ⟨normX c sg, y, 1, F25519.mul (normX c sg) y⟩)) =
    (if (if b1 = true then some c else if b2 = true then some ci else none).isSome = true
      then ((0 : Int32), fbPoint y sg (if b1 = true then some c else if b2 = true then some ci else none) 0)
      else (-1, ⟨c, y, 1, 0⟩)) := by
  unfold fbPoint
  cases b1 <;> cases b2 <;> simp

attribute [local irreducible] F25519.mul F25519.sqr F25519.add F25519.sub F25519.neg F25519.pow F25519.isZero
  F25519.isNegative F25519.sqrtM1 F25519.fromBytesMasked normX in
/-- `ge25519_frombytes_negate_vartime` over the specification field in closed form (on failure `*h` holds the
    candidate in X and the model's 0 in the unwritten T) -/
theorem frombytes_negate_closed (s : Bytes) :
    ge25519_frombytes_negate_vartime specGe s =
      (if (pick (uOf (F25519.fromBytesMasked s)) (vOf (F25519.fromBytesMasked s))
            (cand2' (uOf (F25519.fromBytesMasked s)) (vOf (F25519.fromBytesMasked s)))).isSome
       then (0, fbPoint (F25519.fromBytesMasked s) (!signBit s)
         (pick (uOf (F25519.fromBytesMasked s)) (vOf (F25519.fromBytesMasked s))
            (cand2' (uOf (F25519.fromBytesMasked s)) (vOf (F25519.fromBytesMasked s)))) 0)
       else (-1, ⟨cand2' (uOf (F25519.fromBytesMasked s)) (vOf (F25519.fromBytesMasked s)),
          F25519.fromBytesMasked s, 1, 0⟩)) := by
  have hd : ed25519_d specGe = Ed25519.d := d_eq
  have hi : fe25519_sqrtm1 specGe = F25519.sqrtM1 := sqrtm1_eq
  unfold ge25519_frombytes_negate_vartime signBit pick
  simp only [sg_frombytes, sg_one, sg_zero, sg_sq, sg_mul, sg_sub, sg_add, sg_neg, sg_iszero, sg_isneg, hd, hi,
    Ge25519P.pow22523_eq, uOf_def, vOf_def', cand2'_def, neg_sign]
  generalize F25519.fromBytesMasked s = y
  rw [RistrettoRefP.isZero_sub (mul_lt _ _), RistrettoRefP.isZero_add (mul_lt _ _), Nat.mod_eq_of_lt (uOf_lt y)]
  exact nb_cases _ _ _ _ _ _

/-! ### encoding -/

theorem toLE_le' : ∀ (b : Bytes), toLE b.length (le b) = b
  | [] => rfl
  | x :: xs => by
    have hx := x.toNat_lt
    simp only [List.length_cons, toLE, le]
    have h1 : (x.toNat + 256 * le xs) % 256 = x.toNat := by omega
    have h2 : (x.toNat + 256 * le xs) / 256 = le xs := by omega
    rw [h1, h2, toLE_le' xs]
    simp

set_option maxRecDepth 100000 in
theorem top_xor : ∀ z : UInt8, z.toNat < 128 →
    (i2u8 (u8i z ^^^ ((1 : Int32) <<< 7))).toNat = z.toNat + 128 ∧ i2u8 (u8i z ^^^ ((0 : Int32) <<< 7)) = z := by
  decide +kernel

/-- `s[31] ^= sign << 7` on the canonical encoding of y < 2^255 puts the sign into bit 255 -/
theorem xorSign_toLE (y : Nat) (hy : y < 2 ^ 255) (b : Bool) :
    xorSign (toLE 32 y) (if b then 1 else 0) = toLE 32 (y + 2 ^ 255 * (if b then 1 else 0)) := by
  have hl : (toLE 32 y).length = 32 := toLE_length _ _
  have hv : le (toLE 32 y) = y := by rw [le_toLE, Nat.mod_eq_of_lt (by omega)]
  obtain ⟨a, mid, z, hm, hs⟩ := ScalarP.split32 _ hl
  rw [hs] at hv ⊢
  rw [ScalarP.le_split32 _ _ _ hm] at hv
  have hz : z.toNat < 128 := by have := a.toNat_lt; have := le_lt mid; omega
  have hg : (a :: (mid ++ [z])).getD 31 0 = z := by simp [hm]
  unfold xorSign
  rw [hg, ScalarP.set31 _ _ _ _ hm]
  obtain ⟨t1, t0⟩ := top_xor z hz
  have key : ∀ w : UInt8, toLE 32 (a.toNat + 256 * le mid + 256 ^ 31 * w.toNat) = a :: (mid ++ [w]) := by
    intro w
    have := toLE_le' (a :: (mid ++ [w]))
    rw [ScalarP.le_split32 _ _ _ hm] at this
    have hl2 : (a :: (mid ++ [w])).length = 32 := by simp [hm]
    rw [hl2] at this
    exact this
  cases b
  · simp only [Bool.false_eq_true, if_false, t0, Nat.mul_zero, Nat.add_zero]
    rw [← hv, key]
  · simp only [if_true, Nat.mul_one]
    have e : (2 : Nat) ^ 255 = 256 ^ 31 * 128 := by decide +kernel
    rw [← hv, ← key, t1, e]
    generalize (256 : Nat) ^ 31 = K
    congr 1; ring

attribute [local irreducible] F25519.mul F25519.inv in
/-- `ge25519_p3_tobytes` = RFC 8032 §5.1.2 encoding, for EVERY (X, Y, Z, T) -/
theorem p3_tobytes_eq (h : P3 Nat) : ge25519_p3_tobytes specGe h = Ed25519.encode (toPoint h) := by
  unfold ge25519_p3_tobytes Ed25519.encode Ed25519.toAffine toPoint
  simp only [invert_eq, sg_mul, sg_tobytes, sg_isneg]
  generalize hx : F25519.mul h.X (F25519.inv h.Z) = x
  generalize hy : F25519.mul h.Y (F25519.inv h.Z) = y
  have hxl : x < F25519.p := hx ▸ mul_lt _ _
  have hyl : y < F25519.p := hy ▸ mul_lt _ _
  rw [RistrettoRefP.toBytes_of_lt hyl]
  have hp : F25519.p < 2 ^ 255 := by decide +kernel
  have hb : F25519.isNegative x = decide (x % 2 = 1) := by
    unfold F25519.isNegative; rw [Nat.mod_eq_of_lt hxl]
    rcases Nat.mod_two_eq_zero_or_one x with h2 | h2 <;> rw [h2] <;> rfl
  rw [hb, xorSign_toLE y (by omega)]
  rcases Nat.mod_two_eq_zero_or_one x with h2 | h2 <;> rw [h2] <;> rfl

attribute [local irreducible] F25519.mul F25519.inv in
theorem tobytes_eq (h : P2 Nat) : ge25519_tobytes specGe h = Ed25519.encode (p2Point h) := by
  unfold ge25519_tobytes Ed25519.encode Ed25519.toAffine p2Point
  simp only [invert_eq, sg_mul, sg_tobytes, sg_isneg]
  generalize hx : F25519.mul h.X (F25519.inv h.Z) = x
  generalize hy : F25519.mul h.Y (F25519.inv h.Z) = y
  have hxl : x < F25519.p := hx ▸ mul_lt _ _
  have hyl : y < F25519.p := hy ▸ mul_lt _ _
  rw [RistrettoRefP.toBytes_of_lt hyl]
  have hp : F25519.p < 2 ^ 255 := by decide +kernel
  have hb : F25519.isNegative x = decide (x % 2 = 1) := by
    unfold F25519.isNegative; rw [Nat.mod_eq_of_lt hxl]
    rcases Nat.mod_two_eq_zero_or_one x with h2 | h2 <;> rw [h2] <;> rfl
  rw [hb, xorSign_toLE y (by omega)]
  rcases Nat.mod_two_eq_zero_or_one x with h2 | h2 <;> rw [h2] <;> rfl

theorem encode_length (P : Ed25519.Point) : (Ed25519.encode P).length = 32 := by
  unfold Ed25519.encode; exact toLE_length _ _

end Sodium.EdSignP
