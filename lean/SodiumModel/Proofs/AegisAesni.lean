import SodiumModel.Model.AegisAesni
import SodiumModel.Proofs.AegisRef
/-
  Helper lemmas for `Properties/C01AegisAesni.lean`: the AES-NI backend of `Model/AegisAesni.lean`
  satisfies the conformance predicate `AegisRefP.BackendOk`, so every theorem about the generic
  `aegis*_common.h` code (`Proofs/AegisRef.lean`) applies to it.
-/
namespace Sodium.AegisAesniP
open Sodium Sodium.Model.AegisRef Sodium.Model.AegisAesni Sodium.Spec.Aes Sodium.Spec.Aegis Sodium.AegisRefP

theorem andB_eq : ∀ a b : Bytes, andB a b = andBytes a b
  | [], b => by cases b <;> simp [andB, andBytes]
  | _ :: _, [] => by simp [andB, andBytes]
  | x :: a, y :: b => by simp [andB, andBytes, andB_eq a b]

/-- the SDM's AESENC (ShiftRows, then SubBytes, MixColumns, xor round key) is the FIPS 197 round of
    `Spec/Aes.lean` (SubBytes, then ShiftRows, …): the two byte-wise/positional steps commute -/
theorem aesencBytes_eq (a k : Bytes) (ha : a.length = 16) : aesencBytes a k = aesRound a k := by
  match a, ha with
  | [_, _, _, _, _, _, _, _, _, _, _, _, _, _, _, _], _ =>
    simp [aesencBytes, aesRound, addRoundKey, shiftRows, subBytes]

theorem load_bytes (p : Bytes) (h : 16 ≤ p.length) : (mm_loadu_si128 p).bytes = p.take 16 := by
  have : (p.take 16).length = 16 := by rw [List.length_take]; omega
  simp [mm_loadu_si128, this, zeros]

theorem aesni_ok : BackendOk aesni :=
  { store_len := fun x => x.len
    store_load := fun p h => load_bytes p h
    store_xor := fun _ _ => rfl
    store_and := fun a b => andB_eq a.bytes b.bytes
    store_enc := fun a b => aesencBytes_eq a.bytes b.bytes a.len
    store_load64x2 := fun _ _ => rfl }

end Sodium.AegisAesniP
