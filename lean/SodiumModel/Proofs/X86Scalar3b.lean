import SodiumModel.Proofs.X86Scalar3
/-
  Helper lemmas for `Properties/C05Asm3.lean`, part 2: reading back the 32 stored bytes, and what the stores leave alone.
-/
namespace Sodium.X86ScalarP
open Sodium Sodium.Model Sodium.Model.X86Scalar Sodium.Model.Fe51 Sodium.Fe51P Sodium.Spec
open Generated.Sandy2xAsm

set_option maxRecDepth 8000 in
/-- the 32 bytes at `a` after the 32 `movb` are `packBytes g` -/
theorem loadBytes_storeMem (m : Mem) (a : UInt64) (g : Fe) : loadBytes (storeMem m a g) a 32 = packBytes g := by
  simp only [loadBytes, UInt64.add_assoc]
  simp [storeMem, write8, packBytes]

theorem far_ne (x a : UInt64) (h : 32 ≤ (x - a).toNat) (j : UInt64) (hj : j.toNat < 32) : ¬ x = a + j := by
  intro e
  rw [e, UInt64.toNat_sub, UInt64.toNat_add] at h
  have := a.toNat_lt
  have := j.toNat_lt
  omega

theorem far_ne0 (x a : UInt64) (h : 32 ≤ (x - a).toNat) : ¬ x = a := by
  intro e
  rw [e, UInt64.toNat_sub] at h
  have := a.toNat_lt
  omega

set_option maxRecDepth 8000 in
/-- the stores touch only `a … a+31` -/
theorem storeMem_far (m : Mem) (a : UInt64) (g : Fe) (x : UInt64) (h : 32 ≤ (x - a).toNat) :
    storeMem m a g x = m x := by
  simp [storeMem, write8, far_ne x a h, far_ne0 x a h]

end Sodium.X86ScalarP
