import SodiumModel.Model.OverlapAead2
import SodiumModel.Proofs.OverlapAead2Exit
/-
  C13 / AES-256-GCM, whole detached functions at memory level = stores of the value-level results.
-/
open Sodium Sodium.Model Sodium.Model.Aead Sodium.Model.Overlap Sodium.Model.OverlapAead Sodium.OverlapP
namespace Sodium.OverlapAeadP

/-- stores to disjoint regions commute -/
theorem write_comm (mem : Mem) (o1 o2 : Nat) (a b : Bytes) (h : o1 + a.length ≤ o2 ∨ o2 + b.length ≤ o1) :
    write (write mem o1 a) o2 b = write (write mem o2 b) o1 a := by
  funext x
  by_cases h1 : o1 ≤ x ∧ x < o1 + a.length
  · rw [write_outside _ o2 b x (by omega), write_inside _ o1 a x h1.1 (by omega), write_inside _ o1 a x h1.1 (by omega)]
  · by_cases h2 : o2 ≤ x ∧ x < o2 + b.length
    · rw [write_inside _ o2 b x h2.1 (by omega), write_outside _ o1 a x (by omega), write_inside _ o2 b x h2.1 (by omega)]
    · rw [write_outside _ o2 b x (by omega), write_outside _ o1 a x (by omega), write_outside _ o1 a x (by omega),
        write_outside _ o2 b x (by omega)]

theorem gpad_eq (n : Nat) : gpad n = zeros ((16 - n % 16) % 16) := rfl

structure GcmLens (G : GcmPrims) : Prop where
  ks_len : ∀ st n len, (G.ks st n len).length = len
  ej0_len : ∀ st n, (G.ej0 st n).length = 16
  ghash_len : ∀ st d, (G.ghash st d).length = 16

/-- encrypt_detached_afternm within the limits = store the value-level ciphertext, then the value-level tag -/
theorem gcmEncryptDetachedMem_eq (G : GcmPrims) (hG : GcmLens G) (st : Bytes) (mem : Mem) (c mac m mlen ad adlen npub : Nat)
    (hlim : limitsOk adlen mlen = true) (hcm : c ≤ m ∨ m + mlen ≤ c)
    (hmc : mac + 16 ≤ c ∨ c + mlen ≤ mac) (hmm : mac + 16 ≤ m ∨ m + mlen ≤ mac) :
    gcmEncryptDetachedMem G st mem c mac m mlen ad adlen npub =
      (0, write (write mem c (gcmEncV G st (read mem npub 12) (read mem ad adlen) (read mem m mlen)).1) mac
        (gcmEncV G st (read mem npub 12) (read mem ad adlen) (read mem m mlen)).2) := by
  simp only [gcmEncryptDetachedMem, hlim, Bool.not_true, Bool.false_eq_true, if_false, gcmEncV, length_read]
  generalize hks : G.ks st (read mem npub 12) mlen = ks
  have hksl : mlen ≤ ks.length := by rw [← hks, hG.ks_len]; exact Nat.le_refl _
  obtain ⟨e, _, hi⟩ := gRun_enc ks mem c m mlen hcm hksl _ 0 0 _ _ (encBulk_ok mlen) (Nat.le_refl _) (Nat.zero_le _)
  simp only [List.take_zero, write_nil] at e
  have hX := encBulk_exit mlen
  have hCT : (xorBytes (read mem m mlen) ks).length = mlen := by simp [aead_xorBytes_length]; omega
  have hL : ((xorBytes (read mem m mlen) ks).take (encBulk mlen).1).length = (encBulk mlen).1 := by
    rw [List.length_take, hCT]; omega
  have hE : (G.ej0 st (read mem npub 12)).length = 16 := hG.ej0_len _ _
  rw [e]
  -- the tail, uniformly
  have hT : (if mlen - (encBulk mlen).1 ≠ 0 then
        (write (write (write mem c ((xorBytes (read mem m mlen) ks).take (encBulk mlen).1)) mac (G.ej0 st (read mem npub 12)))
            (c + (encBulk mlen).1)
            (xorBytes (read (write (write mem c ((xorBytes (read mem m mlen) ks).take (encBulk mlen).1)) mac (G.ej0 st (read mem npub 12)))
              (m + (encBulk mlen).1) (mlen - (encBulk mlen).1)) ((ks.drop (encBulk mlen).1).take (mlen - (encBulk mlen).1))),
          (xorBytes (read mem m mlen) ks).take (encBulk mlen).1 ++
            xorBytes (read (write (write mem c ((xorBytes (read mem m mlen) ks).take (encBulk mlen).1)) mac (G.ej0 st (read mem npub 12)))
              (m + (encBulk mlen).1) (mlen - (encBulk mlen).1)) ((ks.drop (encBulk mlen).1).take (mlen - (encBulk mlen).1)) ++
            zeros (16 - (mlen - (encBulk mlen).1)))
      else (write (write mem c ((xorBytes (read mem m mlen) ks).take (encBulk mlen).1)) mac (G.ej0 st (read mem npub 12)),
          (xorBytes (read mem m mlen) ks).take (encBulk mlen).1)) =
      (write (write mem c (xorBytes (read mem m mlen) ks)) mac (G.ej0 st (read mem npub 12)),
        xorBytes (read mem m mlen) ks ++ gpad mlen) := by
    rw [gpad_eq, ← tail_pad mlen _ hX]
    by_cases hl : mlen - (encBulk mlen).1 = 0
    · have : (encBulk mlen).1 = mlen := by omega
      simp only [hl, ne_eq, not_true_eq_false, if_false, List.append_nil]
      rw [this, List.take_of_length_le (by omega)]
    · simp only [hl, ne_eq, not_false_eq_true, if_true]
      rw [read_write_disj _ _ _ _ _ (by rw [hE]; omega), read_write_disj _ _ _ _ _ (by rw [hL]; omega),
        xor_slice mem m mlen _ _ ks (by omega),
        write_comm _ mac _ _ _ (by rw [hE]; simp [hCT]; omega),
        write_write_adj' _ _ _ _ _ hL, take_take_drop]
      have : (encBulk mlen).1 + (mlen - (encBulk mlen).1) = mlen := by omega
      rw [this, List.take_of_length_le (by omega)]
  rw [hT]
  simp only [List.append_assoc]
  rw [read_write_same _ _ _ _ hE.symm, write_write_same _ _ _ _ (by simp [aead_xorBytes_length, hE, hG.ghash_len]), hCT]

/-- value-level tag of a ciphertext -/
def gcmTagV (G : GcmPrims) (st nonce ad c : Bytes) : Bytes :=
  xorBytes (G.ej0 st nonce) (G.ghash st (ad ++ gpad ad.length ++ c ++ gpad c.length ++ finalBlock ad.length c.length))

/-- decrypt_detached_afternm (m != NULL) within the limits: the verdict of the value-level tag comparison on the
    ciphertext / tag found ON ENTRY, and one store: the plaintext, or `0xd0` bytes -/
theorem gcmDecryptDetachedMem_eq (G : GcmPrims) (hG : GcmLens G) (st : Bytes) (mem : Mem) (m c clen mac ad adlen npub : Nat)
    (hlim : limitsOk adlen clen = true) (hcm : m ≤ c ∨ c + clen ≤ m) (hmac : mac + 16 ≤ m ∨ m + clen ≤ mac) :
    gcmDecryptDetachedMem G st mem m c clen mac ad adlen npub =
      if Sodium.Model.verify_n_sse2 1 (read mem mac 16)
          (gcmTagV G st (read mem npub 12) (read mem ad adlen) (read mem c clen)) ≠ 0 then
        (-1, write mem m (List.replicate clen 0xd0))
      else (0, write mem m (xorBytes (read mem c clen) (G.ks st (read mem npub 12) clen))) := by
  simp only [gcmDecryptDetachedMem, hlim, Bool.not_true, Bool.false_eq_true, if_false, gcmTagV, length_read]
  generalize hks : G.ks st (read mem npub 12) clen = ks
  have hksl : clen ≤ ks.length := by rw [← hks, hG.ks_len]; exact Nat.le_refl _
  obtain ⟨e, hi, _⟩ := gRun_dec ks mem m c clen hcm hksl _ 0 0 _ _ (decBulk_ok clen) (Nat.zero_le _) (Nat.zero_le _)
  simp only [List.take_zero, write_nil] at e
  have hX := decBulk_exit clen
  have hPT : (xorBytes (read mem c clen) ks).length = clen := by simp [aead_xorBytes_length]; omega
  have hL : ((xorBytes (read mem c clen) ks).take (decBulk clen).1).length = (decBulk clen).1 := by
    rw [List.length_take, hPT]; omega
  rw [e]
  have hT : (if clen - (decBulk clen).1 ≠ 0 then
        (write (write mem m ((xorBytes (read mem c clen) ks).take (decBulk clen).1)) (m + (decBulk clen).1)
            (xorBytes (read (write mem m ((xorBytes (read mem c clen) ks).take (decBulk clen).1)) (c + (decBulk clen).1)
              (clen - (decBulk clen).1)) ((ks.drop (decBulk clen).1).take (clen - (decBulk clen).1))),
          (read mem c clen).take (decBulk clen).1 ++
            read (write mem m ((xorBytes (read mem c clen) ks).take (decBulk clen).1)) (c + (decBulk clen).1)
              (clen - (decBulk clen).1) ++ zeros (16 - (clen - (decBulk clen).1)))
      else (write mem m ((xorBytes (read mem c clen) ks).take (decBulk clen).1), (read mem c clen).take (decBulk clen).1)) =
      (write mem m (xorBytes (read mem c clen) ks), read mem c clen ++ gpad clen) := by
    rw [gpad_eq, ← tail_pad clen _ hX]
    by_cases hl : clen - (decBulk clen).1 = 0
    · have : (decBulk clen).1 = clen := by omega
      simp only [hl, ne_eq, not_true_eq_false, if_false, List.append_nil]
      rw [this, List.take_of_length_le (by omega), List.take_of_length_le (by simp)]
    · simp only [hl, ne_eq, not_false_eq_true, if_true]
      have e2 : read mem (c + (decBulk clen).1) (clen - (decBulk clen).1) =
          ((read mem c clen).drop (decBulk clen).1).take (clen - (decBulk clen).1) := by
        rw [drop_read _ _ _ _ (by omega), take_read _ _ _ _ (by omega)]
      rw [read_write_disj _ _ _ _ _ (by rw [hL]; omega), xor_slice mem c clen _ _ ks (by omega),
        write_write_adj' _ _ _ _ _ hL, take_take_drop, e2, take_take_drop]
      have : (decBulk clen).1 + (clen - (decBulk clen).1) = clen := by omega
      rw [this, List.take_of_length_le (by omega), List.take_of_length_le (by simp)]
  rw [hT]
  simp only [List.append_assoc]
  rw [read_write_disj _ _ _ _ _ (by rw [hPT]; omega)]
  split
  · simp only [Overlap.memset]
    rw [write_write_same _ _ _ _ (by simp [hPT])]
  · rfl

end Sodium.OverlapAeadP
