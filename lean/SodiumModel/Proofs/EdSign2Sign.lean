import SodiumModel.Proofs.EdSign2Group
/-
  keygen / sign of `Model/Ed25519Full.lean` = `Spec/Ed25519.lean`, under `CurveGroup` + `Faithful`.
-/
open Sodium Sodium.Spec Sodium.Model Sodium.Model.Ge25519 Sodium.Model.Ed25519Full
open Sodium.Ge25519P (CurveGroup toPoint K)
namespace Sodium.EdSignP

section
variable {G : Type} [AddCommGroup G] (C : CurveGroup G)

theorem keypair_eq (hF : Faithful C) {B : G} (hB : C.Rep Ed25519.basePoint B) (seed : Bytes) (hs : seed.length = 32) :
    crypto_sign_ed25519_seed_keypair seed =
      (Ed25519.publicKey Sha512.hash seed, seed ++ Ed25519.publicKey Sha512.hash seed) := by
  have ht : seed.take 32 = seed := List.take_of_length_le (by omega)
  unfold crypto_sign_ed25519_seed_keypair Ed25519.publicKey Ed25519.secretExpand
  simp only [ht, sha_one]
  have hl : 32 ≤ (Sha512.hash seed).length := by rw [← sha_one, sha_length]; omega
  obtain ⟨c1, c2, c3⟩ := clamp_le (Sha512.hash seed) hl
  rw [smb_encode C hF hB _ c2 c3, c1]
  have hp : (Ed25519.encode (Ed25519.scalarMult (Ed25519.clamp (Sha512.hash seed)) Ed25519.basePoint)).length = 32 :=
    encode_length _
  generalize Ed25519.encode (Ed25519.scalarMult (Ed25519.clamp (Sha512.hash seed)) Ed25519.basePoint) = pk at *
  have h1 : (seed ++ List.drop 32 (Sign.clamp (Sha512.hash seed))).take 32 = seed := by
    rw [List.take_left' hs]
  rw [h1, List.take_of_length_le (by omega)]

theorem reduce_le (s : Bytes) (hs : s.length = 64) :
    ScReduce.sc25519_reduce s = toLE 32 (le s % Ed25519.L) ∧ (ScReduce.sc25519_reduce s).length = 32 ∧
    le (ScReduce.sc25519_reduce s) = le s % Ed25519.L ∧ ((ScReduce.sc25519_reduce s).getD 31 0).toNat ≤ 127 := by
  have h := C07Reduce.sc25519_reduce_spec s hs
  have hL : le s % Ed25519.L < Ed25519.L := Nat.mod_lt _ (by decide +kernel)
  have hv : le (ScReduce.sc25519_reduce s) = le s % Ed25519.L := by rw [h]; exact ScalarP.le_toLE32_of_lt _ hL
  have hlen : (ScReduce.sc25519_reduce s).length = 32 := by rw [h]; exact toLE_length _ _
  have hL2 : Ed25519.L < 2 ^ 255 := by decide +kernel
  exact ⟨h, hlen, hv, top_le_127 _ hlen (by rw [hv]; omega)⟩

theorem L_eq : Spec.Scalar.L = Ed25519.L := rfl

attribute [local irreducible] Ed25519.scalarMult Ed25519.encode Ed25519.basePoint Sha512.hash Ed25519.clamp
  Ed25519.L in
/-- `_crypto_sign_ed25519_detached` on sk = seed ‖ pk, for ANY 32 bytes pk in the second half -/
theorem sign_core (hF : Faithful C) {B : G} (hB : C.Rep Ed25519.basePoint B) (seed m pk : Bytes) (ph : Bool)
    (hs : seed.length = 32) (hpk : pk.length = 32) :
    _crypto_sign_ed25519_detached m (seed ++ pk) ph =
      Ed25519.encode (Ed25519.scalarMult
        (le (Sha512.hash (Sign.hinit ph ++ (((Sha512.hash seed).drop 32).take 32 ++ m))) % Ed25519.L) Ed25519.basePoint) ++
      toLE 32 ((le (Sha512.hash (Sign.hinit ph ++ (((Sha512.hash seed).drop 32).take 32 ++ m))) % Ed25519.L +
        le (Sha512.hash (Sign.hinit ph ++ (Ed25519.encode (Ed25519.scalarMult
          (le (Sha512.hash (Sign.hinit ph ++ (((Sha512.hash seed).drop 32).take 32 ++ m))) % Ed25519.L) Ed25519.basePoint)
          ++ (pk ++ m)))) % Ed25519.L * Ed25519.clamp (Sha512.hash seed)) % Ed25519.L) := by
  have hsk1 : (seed ++ pk).take 32 = seed := List.take_left' hs
  have hsk2 : ((seed ++ pk).drop 32).take 32 = pk := by
    rw [List.drop_left' hs, List.take_of_length_le (by omega)]
  have hl64 : ∀ b, (Sha512.hash b).length = 64 := fun b => by rw [← sha_one, sha_length]
  unfold _crypto_sign_ed25519_detached
  rw [hsk1, hsk2, sha_one]
  generalize hh : Sha512.hash seed = h
  have hhl : h.length = 64 := hh ▸ hl64 seed
  have hn := hinit_chunks ph [(h.drop 32).take 32, m]
  simp only [List.foldl_cons, List.foldl_nil, List.flatten_cons, List.flatten_nil, List.append_nil, sha_one] at hn
  dsimp only
  rw [hn]
  generalize hN : Sha512.hash (Sign.hinit ph ++ ((h.drop 32).take 32 ++ m)) = N
  have hNl : N.length = 64 := hN ▸ hl64 _
  obtain ⟨-, r2, r3, r4⟩ := reduce_le N hNl
  rw [smb_encode C hF hB _ r2 r4, r3]
  generalize hR : Ed25519.encode (Ed25519.scalarMult (le N % Ed25519.L) Ed25519.basePoint) = R
  have hh2 := hinit_chunks ph [R ++ pk, m]
  simp only [List.foldl_cons, List.foldl_nil, List.flatten_cons, List.flatten_nil, List.append_nil, sha_one,
    List.append_assoc] at hh2
  rw [hh2]
  generalize hM : Sha512.hash (Sign.hinit ph ++ (R ++ (pk ++ m))) = M
  have hMl : M.length = 64 := hM ▸ hl64 _
  obtain ⟨c1, c2, -⟩ := clamp_le h (by omega)
  obtain ⟨-, k2, k3, -⟩ := reduce_le M hMl
  rw [C07Reduce.sc25519_muladd_spec _ _ _ k2 c2 r2, k3, c1, r3, Nat.add_comm, L_eq]

/-- `_crypto_sign_ed25519_detached` = RFC 8032 §5.1.6 signing with the domain prefix `hinit prehashed`, for sk = seed ‖ pk -/
theorem sign_eq (hF : Faithful C) {B : G} (hB : C.Rep Ed25519.basePoint B) (seed m : Bytes) (ph : Bool)
    (hs : seed.length = 32) :
    _crypto_sign_ed25519_detached m (seed ++ Ed25519.publicKey Sha512.hash seed) ph =
      Ed25519.signWith Sha512.hash (Sign.hinit ph) seed m := by
  rw [sign_core C hF hB seed m (Ed25519.publicKey Sha512.hash seed) ph hs
    (by unfold Ed25519.publicKey; exact encode_length _)]
  have ht : seed.take 32 = seed := List.take_of_length_le (by omega)
  simp only [Ed25519.signWith, Ed25519.secretExpand, Ed25519.publicKey, ht, List.append_assoc]

end

end Sodium.EdSignP
