import SodiumModel.Proofs.AllocMem
/-
  Helper lemmas for C17Mem, part 2: the address arithmetic of `_sodium_malloc` in the 64-bit
  arithmetic of the C code, on absolute addresses.  Namespace Sodium.AllocMemP.
-/
open Sodium Sodium.Model Sodium.Model.AllocMem
open Sodium.Model.Alloc (pageRound)
namespace Sodium.AllocMemP

/-- `unprotected_size = _page_round(sizeof canary + size)` -/
def R (pg size : UInt64) : UInt64 := pageRound pg (16 + size)

/-- the user pointer returned for a mapping at `base`, exactly as the C code computes it -/
def userPtr (pg base size : UInt64) : UInt64 := base + pg * 2 + R pg size - (16 + size) + 16

theorem geo_facts (pg size base : UInt64) (k : Nat) (hk5 : 5 ≤ k) (hk30 : k ≤ 30) (hpg : pg.toNat = 2 ^ k)
    (hb : size.toNat < 2 ^ 64 - 1 - 5 * pg.toNat)
    (hfit : base.toNat + 3 * pg.toNat + (R pg size).toNat < 2 ^ 64) :
    32 ≤ pg.toNat ∧ pg.toNat ≤ 2 ^ 30 ∧ pg.toNat ∣ (R pg size).toNat ∧
    16 + size.toNat ≤ (R pg size).toNat ∧ (R pg size).toNat < 16 + size.toNat + pg.toNat ∧
    (pg * 2).toNat = 2 * pg.toNat ∧
    (pg + pg + R pg size + pg).toNat = 3 * pg.toNat + (R pg size).toNat ∧
    (base + pg).toNat = base.toNat + pg.toNat ∧
    (base + pg * 2).toNat = base.toNat + 2 * pg.toNat ∧
    (base + pg * 2 + R pg size).toNat = base.toNat + 2 * pg.toNat + (R pg size).toNat ∧
    (base + pg * 2 + R pg size - (16 + size)).toNat =
      base.toNat + 2 * pg.toNat + (R pg size).toNat - 16 - size.toNat ∧
    (userPtr pg base size).toNat = base.toNat + 2 * pg.toNat + (R pg size).toNat - size.toNat ∧
    (userPtr pg base size - 16).toNat = base.toNat + 2 * pg.toNat + (R pg size).toNat - 16 - size.toNat := by
  obtain ⟨hlo, hhi⟩ := AllocP.pg_bounds pg k hk5 hk30 hpg
  have hswc : ((16 : UInt64) + size).toNat = 16 + size.toNat := by
    rw [UInt64.toNat_add]; show (16 + size.toNat) % 2 ^ 64 = _; omega
  have hR : (R pg size).toNat = (16 + size.toNat + pg.toNat - 1) / pg.toNat * pg.toNat := by
    unfold R; rw [AllocP.pageRound_toNat pg _ k hk30 hpg (by omega), hswc]
  obtain ⟨r0, r1, r2⟩ := AllocP.round_facts (16 + size.toNat) pg.toNat (by omega)
  rw [← hR] at r0 r1 r2
  have h2 : (pg * 2).toNat = 2 * pg.toNat := by
    rw [UInt64.toNat_mul]; show (pg.toNat * 2) % 2 ^ 64 = _; omega
  have h3 : (pg + pg + R pg size + pg).toNat = 3 * pg.toNat + (R pg size).toNat := by
    rw [UInt64.toNat_add, UInt64.toNat_add, UInt64.toNat_add]; omega
  have h4 : (base + pg).toNat = base.toNat + pg.toNat := by rw [UInt64.toNat_add]; omega
  have h5 : (base + pg * 2).toNat = base.toNat + 2 * pg.toNat := by rw [UInt64.toNat_add, h2]; omega
  have h6 : (base + pg * 2 + R pg size).toNat = base.toNat + 2 * pg.toNat + (R pg size).toNat := by
    rw [UInt64.toNat_add, h5]; omega
  have h7 : (base + pg * 2 + R pg size - (16 + size)).toNat =
      base.toNat + 2 * pg.toNat + (R pg size).toNat - 16 - size.toNat := by
    rw [UInt64.toNat_sub_of_le _ _ (UInt64.le_iff_toNat_le.mpr (by rw [h6, hswc]; omega)), h6, hswc]; omega
  have h8 : (userPtr pg base size).toNat = base.toNat + 2 * pg.toNat + (R pg size).toNat - size.toNat := by
    unfold userPtr
    rw [UInt64.toNat_add, h7]; show (_ + 16) % 2 ^ 64 = _; omega
  have h9 : (userPtr pg base size - 16).toNat = base.toNat + 2 * pg.toNat + (R pg size).toNat - 16 - size.toNat := by
    rw [UInt64.toNat_sub_of_le _ _ (UInt64.le_iff_toNat_le.mpr (by rw [h8]; show 16 ≤ _; omega)), h8]
    show _ - 16 = _; omega
  exact ⟨hlo, hhi, r0, r1, r2, h2, h3, h4, h5, h6, h7, h8, h9⟩

theorem ring_id2 (base p2 R swc : UInt64) : base + p2 + R - swc + 16 - 16 = (base + p2) + (R - swc) := by
  grind

theorem sub_add_id (base p2 : UInt64) : base + p2 - p2 = base := by grind

/-- `_unprotected_ptr_from_user_ptr` recovers `base + 2·page_size` from the user pointer (no misuse) -/
theorem unprot_from_user (s : State) (size base : UInt64) (k : Nat) (hk5 : 5 ≤ k) (hk30 : k ≤ 30)
    (hpg : s.pageSize.toNat = 2 ^ k) (hb : size.toNat < 2 ^ 64 - 1 - 5 * s.pageSize.toNat)
    (hfit : base.toNat + 3 * s.pageSize.toNat + (R s.pageSize size).toNat < 2 ^ 64)
    (hal : s.pageSize.toNat ∣ base.toNat) (hpos : 0 < base.toNat) :
    _unprotected_ptr_from_user_ptr s (userPtr s.pageSize base size) = .ok (base + s.pageSize * 2) := by
  obtain ⟨hlo, hhi, r0, r1, r2, h2, h3, h4, h5, h6, h7, h8, h9⟩ :=
    geo_facts s.pageSize size base k hk5 hk30 hpg hb hfit
  have hswc : ((16 : UInt64) + size).toNat = 16 + size.toNat := by
    rw [UInt64.toNat_add]; show (16 + size.toNat) % 2 ^ 64 = _; omega
  have hd : (R s.pageSize size - (16 + size)).toNat < s.pageSize.toNat := by
    rw [UInt64.toNat_sub_of_le _ _ (UInt64.le_iff_toNat_le.mpr (by rw [hswc]; omega)), hswc]; omega
  have ha : (base + s.pageSize * 2).toNat % s.pageSize.toNat = 0 := by
    rw [h5]; apply Nat.mod_eq_zero_of_dvd
    exact Nat.dvd_add hal (Nat.dvd_mul_left _ _)
  have hu : (userPtr s.pageSize base size - 16) &&& ~~~(s.pageSize - 1) = base + s.pageSize * 2 := by
    unfold userPtr
    rw [ring_id2]
    exact AllocP.and_mask_add s.pageSize _ _ k hk30 hpg ha hd
  unfold _unprotected_ptr_from_user_ptr
  simp only [hu]
  rw [if_neg]
  rw [UInt64.le_iff_toNat_le, h5, h2]; omega

end Sodium.AllocMemP
