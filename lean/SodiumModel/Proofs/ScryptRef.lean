import SodiumModel.Spec.Scrypt
import SodiumModel.Model.ScryptRef
import SodiumModel.Proofs.CoresRef
/-
  Helper lemmas for Properties/C08Scrypt.lean: the reference scrypt core of libsodium
  (Model/ScryptRef.lean) against RFC 7914 (Spec/Scrypt.lean).
-/
namespace Sodium.ScryptRefP
open Sodium Sodium.Model Sodium.Model.ScryptRef Sodium.Spec

/-! ### counted loops -/

/-- `s` after `body a`, `body (a+1)`, …, `body (a+cnt-1)` -/
def iter {α : Type} (body : Nat → α → α) : Nat → Nat → α → α
  | 0, _, s => s
  | cnt + 1, a, s => iter body cnt (a + 1) (body a s)

theorem iter_congr {α : Type} {f g : Nat → α → α} : ∀ (cnt a : Nat) (s : α),
    (∀ j, a ≤ j → j < a + cnt → ∀ s, f j s = g j s) → iter f cnt a s = iter g cnt a s
  | 0, _, _, _ => rfl
  | cnt + 1, a, s, h => by
    rw [iter, iter, h a (Nat.le_refl _) (by omega)]
    exact iter_congr cnt (a + 1) _ (fun j h1 h2 => h j (by omega) (by omega))

theorem iter_succ_last {α : Type} (f : Nat → α → α) : ∀ (cnt a : Nat) (s : α),
    iter f (cnt + 1) a s = f (a + cnt) (iter f cnt a s)
  | 0, a, s => by simp [iter]
  | cnt + 1, a, s => by
    rw [iter, iter_succ_last f cnt (a + 1), iter]
    congr 1; omega

/-- invariant rule for counted loops -/
theorem iter_inv {α : Type} (f : Nat → α → α) (P : Nat → α → Prop) (cnt a : Nat) (s : α)
    (h0 : P a s) (hstep : ∀ j s, a ≤ j → j < a + cnt → P j s → P (j + 1) (f j s)) :
    P (a + cnt) (iter f cnt a s) := by
  induction cnt with
  | zero => simpa [iter] using h0
  | succ n ih =>
    rw [iter_succ_last]
    have := ih (fun j s h1 h2 => hstep j s h1 (by omega))
    exact hstep (a + n) _ (by omega) (by omega) this

theorem ofNat_toNat_lt {k : Nat} (h : k < 2 ^ 64) : (UInt64.ofNat k).toNat = k := by
  rw [UInt64.toNat_ofNat']; exact Nat.mod_eq_of_lt h

/-- a `for (i = d*a; i < n; i += d)` loop whose bound is `d * (a + cnt)` runs `cnt` times -/
theorem forU64_eq_iter {α : Type} (n step : UInt64) (body : UInt64 → α → α) (bodyN : Nat → α → α) (d : Nat)
    (hd : step.toNat = d) (hd0 : 0 < d) : ∀ (cnt a fuel : Nat) (s : α),
    n.toNat = d * (a + cnt) → cnt ≤ fuel →
    (∀ j, a ≤ j → j < a + cnt → ∀ s, body (UInt64.ofNat (d * j)) s = bodyN j s) →
    forU64 n step body fuel (UInt64.ofNat (d * a)) s = iter bodyN cnt a s
  | 0, a, fuel, s, hn, _, _ => by
    cases fuel with
    | zero => rfl
    | succ f =>
      rw [forU64, if_neg, iter]
      have hlt := n.toNat_lt
      rw [Nat.add_zero] at hn
      rw [UInt64.lt_iff_toNat_lt, UInt64.toNat_ofNat', hn]
      have := Nat.mod_le (d * a) (2 ^ 64)
      omega
  | cnt + 1, a, fuel, s, hn, hf, hb => by
    cases fuel with
    | zero => omega
    | succ f =>
      have hnlt := n.toNat_lt
      have h1 : d * a < d * (a + (cnt + 1)) := Nat.mul_lt_mul_of_pos_left (by omega) hd0
      have hda : (UInt64.ofNat (d * a)).toNat = d * a := ofNat_toNat_lt (by omega)
      have h2 : d * (a + 1) ≤ d * (a + (cnt + 1)) := Nat.mul_le_mul_left d (by omega)
      rw [forU64, if_pos (by rw [UInt64.lt_iff_toNat_lt, hda]; omega), iter, hb a (Nat.le_refl _) (by omega)]
      have hnext : UInt64.ofNat (d * a) + step = UInt64.ofNat (d * (a + 1)) := by
        apply UInt64.toNat_inj.mp
        rw [UInt64.toNat_add, hda, hd, ofNat_toNat_lt (by omega), Nat.mul_succ]
        apply Nat.mod_eq_of_lt
        rw [Nat.mul_succ] at h2; omega
      rw [hnext]
      exact forU64_eq_iter n step body bodyN d hd hd0 cnt (a + 1) f _ (by rw [hn]; congr 1; omega) (by omega)
        (fun j h1 h2 => hb j (by omega) (by omega))

/-- step-1 loops from 0 -/
theorem forU64_one {α : Type} (n : UInt64) (body : UInt64 → α → α) (bodyN : Nat → α → α) (fuel : Nat) (s : α)
    (hf : n.toNat ≤ fuel) (hb : ∀ j, j < n.toNat → ∀ s, body (UInt64.ofNat j) s = bodyN j s) :
    forU64 n 1 body fuel 0 s = iter bodyN n.toNat 0 s := by
  have := forU64_eq_iter n 1 body bodyN 1 rfl (by decide) n.toNat 0 fuel s (by omega) hf
    (fun j _ h2 s => by rw [Nat.one_mul]; exact hb j (by omega) s)
  simpa using this

/-- step-2 loops from 0 with an even bound -/
theorem forU64_two {α : Type} (n : UInt64) (body : UInt64 → α → α) (bodyN : Nat → α → α) (m fuel : Nat) (s : α)
    (hn : n.toNat = 2 * m) (hf : m ≤ fuel) (hb : ∀ j, j < m → ∀ s, body (UInt64.ofNat (2 * j)) s = bodyN j s) :
    forU64 n 2 body fuel 0 s = iter bodyN m 0 s := by
  have := forU64_eq_iter n 2 body bodyN 2 rfl (by decide) m 0 fuel s (by omega) hf
    (fun j _ h2 s => hb j (by omega) s)
  simpa using this

/-! ### loops that write one array cell per iteration -/

/-- `d[off + j] = g j d[off + j]` for `j = a … a+cnt-1` -/
theorem iter_set_size {β : Type} (off : Nat) (g : Nat → β → β) (z : β) : ∀ (cnt a : Nat) (d : Array β),
    (iter (fun j d => d.setIfInBounds (off + j) (g j (d.getD (off + j) z))) cnt a d).size = d.size
  | 0, _, _ => rfl
  | cnt + 1, a, d => by rw [iter, iter_set_size off g z cnt]; simp

theorem iter_set_getD {β : Type} (off : Nat) (g : Nat → β → β) (z : β) : ∀ (cnt a : Nat) (d : Array β) (t : Nat),
    (iter (fun j d => d.setIfInBounds (off + j) (g j (d.getD (off + j) z))) cnt a d).getD t z =
      if off + a ≤ t ∧ t < off + a + cnt ∧ t < d.size then g (t - off) (d.getD t z) else d.getD t z
  | 0, a, d, t => by rw [iter, if_neg (by omega)]
  | cnt + 1, a, d, t => by
    rw [iter, iter_set_getD off g z cnt (a + 1)]
    simp only [Array.size_setIfInBounds, Array.getD_eq_getD_getElem?, Array.getElem?_setIfInBounds]
    by_cases h1 : off + a = t
    · subst h1
      rw [if_neg (by omega), if_pos rfl]
      by_cases h2 : off + a < d.size
      · rw [if_pos h2, if_pos ⟨Nat.le_refl _, by omega, h2⟩]
        simp
      · rw [if_neg h2, if_neg (by omega)]
        simp [Array.getElem?_eq_none (Nat.le_of_not_lt h2)]
    · rw [if_neg h1]
      by_cases h2 : off + (a + 1) ≤ t ∧ t < off + (a + 1) + cnt ∧ t < d.size
      · rw [if_pos h2, if_pos (by omega)]
      · rw [if_neg h2, if_neg (by omega)]

/-! ### blkcpy / blkxor -/

theorem blkcpy_eq (dest : Array UInt32) (doff : Nat) (src : Array UInt32) (soff : Nat) (len : UInt64)
    (hl : len.toNat * 64 < 2 ^ 64) :
    blkcpy dest doff src soff len =
      iter (fun j d => d.setIfInBounds (doff + j) ((fun j _ => src.getD (soff + j) 0) j (d.getD (doff + j) 0)))
        (16 * len.toNat) 0 dest := by
  have hn : (len * 64 / 4).toNat = 16 * len.toNat := by
    rw [UInt64.toNat_div, UInt64.toNat_mul]
    simp only [UInt64.toNat_ofNat, Nat.reducePow, Nat.reduceMod]; omega
  unfold blkcpy
  rw [forU64_one _ _ _ _ _ (Nat.le_refl _), hn]
  intro j hj s
  rw [ofNat_toNat_lt (by have := (len * 64 / 4).toNat_lt; omega)]

theorem blkcpy_size (dest : Array UInt32) (doff : Nat) (src : Array UInt32) (soff : Nat) (len : UInt64)
    (hl : len.toNat * 64 < 2 ^ 64) : (blkcpy dest doff src soff len).size = dest.size := by
  rw [blkcpy_eq _ _ _ _ _ hl, iter_set_size doff (fun j _ => src.getD (soff + j) 0) 0]

theorem blkcpy_getD (dest : Array UInt32) (doff : Nat) (src : Array UInt32) (soff : Nat) (len : UInt64)
    (hl : len.toNat * 64 < 2 ^ 64) (t : Nat) :
    (blkcpy dest doff src soff len).getD t 0 =
      if doff ≤ t ∧ t < doff + 16 * len.toNat ∧ t < dest.size then src.getD (soff + (t - doff)) 0
      else dest.getD t 0 := by
  rw [blkcpy_eq _ _ _ _ _ hl, iter_set_getD doff (fun j _ => src.getD (soff + j) 0) 0]
  simp only [Nat.add_zero]

theorem blkxor_eq (dest : Array UInt32) (doff : Nat) (src : Array UInt32) (soff : Nat) (len : UInt64)
    (hl : len.toNat * 16 < 2 ^ 64) :
    blkxor dest doff src soff len =
      iter (fun j d => d.setIfInBounds (doff + j) ((fun j v => v ^^^ src.getD (soff + j) 0) j (d.getD (doff + j) 0)))
        (16 * len.toNat) 0 dest := by
  have hn : (len * 16).toNat = 16 * len.toNat := by
    rw [UInt64.toNat_mul]
    simp only [UInt64.toNat_ofNat, Nat.reducePow, Nat.reduceMod]; omega
  unfold blkxor
  rw [forU64_one _ _ _ _ _ (Nat.le_refl _), hn]
  intro j hj s
  rw [ofNat_toNat_lt (by have := (len * 16).toNat_lt; omega)]

theorem blkxor_size (dest : Array UInt32) (doff : Nat) (src : Array UInt32) (soff : Nat) (len : UInt64)
    (hl : len.toNat * 16 < 2 ^ 64) : (blkxor dest doff src soff len).size = dest.size := by
  rw [blkxor_eq _ _ _ _ _ hl, iter_set_size doff (fun j v => v ^^^ src.getD (soff + j) 0) 0]

theorem blkxor_getD (dest : Array UInt32) (doff : Nat) (src : Array UInt32) (soff : Nat) (len : UInt64)
    (hl : len.toNat * 16 < 2 ^ 64) (t : Nat) :
    (blkxor dest doff src soff len).getD t 0 =
      if doff ≤ t ∧ t < doff + 16 * len.toNat ∧ t < dest.size then dest.getD t 0 ^^^ src.getD (soff + (t - doff)) 0
      else dest.getD t 0 := by
  rw [blkxor_eq _ _ _ _ _ hl, iter_set_getD doff (fun j v => v ^^^ src.getD (soff + j) 0) 0]
  simp only [Nat.add_zero]

/-- two arrays of the same size with the same `getD` are equal -/
theorem ext_getD {β : Type} {a b : Array β} (z : β) (hs : a.size = b.size) (h : ∀ t, t < a.size → a.getD t z = b.getD t z) :
    a = b := by
  apply Array.ext hs
  intro i h1 h2
  have := h i h1
  simpa [Array.getD_eq_getD_getElem?, Array.getElem?_eq_getElem h1, Array.getElem?_eq_getElem h2] using this

/-! ### salsa20_8 -/

theorem xr_eq_step (x : Array UInt32) (t a b : Nat) (k : UInt32) : xr x t a b k = Scrypt.step x t a b k := rfl

theorem body_eq_doubleRound (x : Array UInt32) : salsa20_8_body x = Scrypt.doubleRound x := by
  simp only [salsa20_8_body, Scrypt.doubleRound, Scrypt.quarter, xr_eq_step]

theorem step_size (x : Array UInt32) (t a b : Nat) (k : UInt32) : (Scrypt.step x t a b k).size = x.size := by
  simp [Scrypt.step]

theorem doubleRound_size (x : Array UInt32) : (Scrypt.doubleRound x).size = x.size := by
  simp only [Scrypt.doubleRound, Scrypt.quarter, step_size]

theorem salsa20_8_eq (B : Array UInt32) (hB : B.size = 16) : salsa20_8 B = Scrypt.salsa20_8 B := by
  have hx : blkcpy (Array.replicate 16 0) 0 B 0 1 = B := by
    apply ext_getD 0
    · rw [blkcpy_size _ _ _ _ _ (by decide), hB]; simp
    · intro t ht
      rw [blkcpy_size _ _ _ _ _ (by decide)] at ht
      simp only [Array.size_replicate] at ht
      rw [blkcpy_getD _ _ _ _ _ (by decide), if_pos]
      · simp
      · simp only [Array.size_replicate]
        refine ⟨by omega, ?_, ht⟩
        show t < 0 + 16 * 1; omega
  have h4 : forU64 8 2 (fun _ x => salsa20_8_body x) 8 0 B =
      Scrypt.doubleRound (Scrypt.doubleRound (Scrypt.doubleRound (Scrypt.doubleRound B))) := by
    have := forU64_two 8 (fun _ x => salsa20_8_body x) (fun _ x => Scrypt.doubleRound x) 4 8 B rfl (by omega)
      (fun j _ s => body_eq_doubleRound s)
    rw [this]; rfl
  generalize hD : Scrypt.doubleRound (Scrypt.doubleRound (Scrypt.doubleRound (Scrypt.doubleRound B))) = D at h4
  have hDs : D.size = 16 := by rw [← hD]; simp only [doubleRound_size]; exact hB
  unfold salsa20_8
  simp only []
  rw [hx, h4, forU64_one 16 _ (fun j B' => B'.setIfInBounds (0 + j) ((fun j v => v + D.getD j 0) j (B'.getD (0 + j) 0)))
    16 B (Nat.le_refl _)]
  · apply ext_getD 0
    · rw [iter_set_size 0 (fun j v => v + D.getD j 0) 0]; simp [Scrypt.salsa20_8, hD, hDs, hB]
    · intro t ht
      rw [iter_set_size 0 (fun j v => v + D.getD j 0) 0] at ht
      rw [iter_set_getD 0 (fun j v => v + D.getD j 0) 0, if_pos ⟨by omega, by (show t < 0 + 0 + 16); omega, ht⟩]
      have hsz : t < D.size := by omega
      simp only [Scrypt.salsa20_8, hD, Array.getD_eq_getD_getElem?, Array.getElem?_mapIdx, Nat.sub_zero,
        Array.getElem?_eq_getElem ht, Array.getElem?_eq_getElem hsz, Option.getD_some, Option.map_some,
        Array.getElem!_eq_getD]
      exact UInt32.add_comm _ _
  · intro j hj s
    rw [ofNat_toNat_lt (by change j < 16 at hj; omega)]
    simp

/-! ### scryptBlockMix: normal form of the specification -/

/-- the i-th 16-word sub-block B[i] -/
def blk (B : Array UInt32) (i : Nat) : Array UInt32 := B.extract (16 * i) (16 * i + 16)

/-- X after i steps of scryptBlockMix: X_0 = B[2r-1], X_{i+1} = Salsa(X_i xor B[i]) (= Y[i]) -/
def chain (r : Nat) (B : Array UInt32) : Nat → Array UInt32
  | 0 => B.extract (16 * (2 * r - 1)) (16 * (2 * r))
  | i + 1 => Scrypt.salsa20_8 (Scrypt.xorWords (chain r B i) (blk B i))

def bmStep (B : Array UInt32) (st : Array UInt32 × Array UInt32 × Array UInt32) (i : Nat) :
    Array UInt32 × Array UInt32 × Array UInt32 :=
  if i % 2 = 0 then
    (Scrypt.salsa20_8 (Scrypt.xorWords st.1 (B.extract (16 * i) (16 * i + 16))),
      st.2.1 ++ Scrypt.salsa20_8 (Scrypt.xorWords st.1 (B.extract (16 * i) (16 * i + 16))), st.2.2)
  else
    (Scrypt.salsa20_8 (Scrypt.xorWords st.1 (B.extract (16 * i) (16 * i + 16))), st.2.1,
      st.2.2 ++ Scrypt.salsa20_8 (Scrypt.xorWords st.1 (B.extract (16 * i) (16 * i + 16))))

theorem ite_pure_yield {β : Type} (c : Prop) [Decidable c] (a b : β) :
    (if c then (pure (ForInStep.yield a) : Id (ForInStep β)) else pure (ForInStep.yield b)) =
      pure (ForInStep.yield (if c then a else b)) := by
  split <;> rfl

theorem blockMix_eq (r : Nat) (B : Array UInt32) :
    Scrypt.blockMix r B =
      ((List.range (2 * r)).foldl (bmStep B) (B.extract (16 * (2 * r - 1)) (16 * (2 * r)), #[], #[])).2.1 ++
      ((List.range (2 * r)).foldl (bmStep B) (B.extract (16 * (2 * r - 1)) (16 * (2 * r)), #[], #[])).2.2 := by
  unfold Scrypt.blockMix
  simp only [Std.Legacy.Range.forIn_eq_forIn_range', Std.Legacy.Range.size, ite_pure_yield,
    List.forIn_pure_yield_eq_foldl, pure_bind, Id.run_pure]
  have h1 : (2 * r - 0 + 1 - 1) / 1 = 2 * r := by omega
  rw [h1, ← List.range_eq_range']
  rfl

/-- f 0 ‖ f 1 ‖ … ‖ f (m-1) -/
def catBlocks (f : Nat → Array UInt32) : Nat → Array UInt32
  | 0 => #[]
  | m + 1 => catBlocks f m ++ f m

theorem bm_fold (r : Nat) (B : Array UInt32) : ∀ n,
    (List.range n).foldl (bmStep B) (B.extract (16 * (2 * r - 1)) (16 * (2 * r)), #[], #[]) =
      (chain r B n, catBlocks (fun k => chain r B (2 * k + 1)) ((n + 1) / 2), catBlocks (fun k => chain r B (2 * k + 2)) (n / 2))
  | 0 => rfl
  | n + 1 => by
    rw [List.range_succ, List.foldl_append, bm_fold r B n]
    simp only [List.foldl_cons, List.foldl_nil, bmStep]
    by_cases h : n % 2 = 0
    · rw [if_pos h]
      have e1 : (n + 1 + 1) / 2 = (n + 1) / 2 + 1 := by omega
      have e2 : (n + 1) / 2 = n / 2 := by omega
      have e3 : 2 * (n / 2) + 1 = n + 1 := by omega
      rw [e1, catBlocks, e2, e3]; rfl
    · rw [if_neg h]
      have e1 : (n + 1 + 1) / 2 = (n + 1) / 2 := by omega
      have e2 : (n + 1) / 2 = n / 2 + 1 := by omega
      have e3 : 2 * (n / 2) + 2 = n + 1 := by omega
      have eo : catBlocks (fun k => chain r B (2 * k + 2)) ((n + 1) / 2) =
          catBlocks (fun k => chain r B (2 * k + 2)) (n / 2) ++ chain r B (n + 1) := by rw [e2, catBlocks, e3]
      rw [e1, eo]; rfl

theorem blockMix_cat (r : Nat) (B : Array UInt32) :
    Scrypt.blockMix r B =
      catBlocks (fun k => chain r B (2 * k + 1)) r ++ catBlocks (fun k => chain r B (2 * k + 2)) r := by
  rw [blockMix_eq, bm_fold]
  have e1 : (2 * r + 1) / 2 = r := by omega
  have e2 : 2 * r / 2 = r := by omega
  simp only [e1, e2]

theorem catBlocks_size (f : Nat → Array UInt32) (hf : ∀ k, (f k).size = 16) : ∀ m, (catBlocks f m).size = 16 * m
  | 0 => rfl
  | m + 1 => by rw [catBlocks, Array.size_append, catBlocks_size f hf m, hf]; omega

theorem catBlocks_getD (f : Nat → Array UInt32) (hf : ∀ k, (f k).size = 16) : ∀ m t, t < 16 * m →
    (catBlocks f m).getD t 0 = (f (t / 16)).getD (t % 16) 0
  | 0, t, h => by omega
  | m + 1, t, h => by
    rw [catBlocks]
    simp only [Array.getD_eq_getD_getElem?, Array.getElem?_append, catBlocks_size f hf m]
    by_cases h1 : t < 16 * m
    · rw [if_pos h1]
      have := catBlocks_getD f hf m t h1
      simpa [Array.getD_eq_getD_getElem?] using this
    · rw [if_neg h1]
      have e1 : t / 16 = m := by omega
      have e2 : t - 16 * m = t % 16 := by omega
      rw [e1, e2]

theorem salsa_size (x : Array UInt32) : (Scrypt.salsa20_8 x).size = x.size := by
  simp [Scrypt.salsa20_8, doubleRound_size]

theorem xorWords_size (x y : Array UInt32) : (Scrypt.xorWords x y).size = x.size := by
  simp [Scrypt.xorWords]

theorem chain_size (r : Nat) (B : Array UInt32) (hr : 1 ≤ r) (hB : B.size = 32 * r) : ∀ i, (chain r B i).size = 16
  | 0 => by simp only [chain, Array.size_extract]; omega
  | i + 1 => by rw [chain, salsa_size, xorWords_size, chain_size r B hr hB i]

/-! ### blockmix_salsa8 -/

theorem blockMix_size (r : Nat) (B : Array UInt32) (hr : 1 ≤ r) (hB : B.size = 32 * r) :
    (Scrypt.blockMix r B).size = 32 * r := by
  rw [blockMix_cat, Array.size_append, catBlocks_size _ (fun k => chain_size r B hr hB _),
    catBlocks_size _ (fun k => chain_size r B hr hB _)]; omega

theorem blockMix_getD_lo (r : Nat) (B : Array UInt32) (hr : 1 ≤ r) (hB : B.size = 32 * r) (t : Nat) (ht : t < 16 * r) :
    (Scrypt.blockMix r B).getD t 0 = (chain r B (2 * (t / 16) + 1)).getD (t % 16) 0 := by
  rw [blockMix_cat]
  have := catBlocks_getD (fun k => chain r B (2 * k + 1)) (fun k => chain_size r B hr hB _) r t ht
  rw [← this]
  simp only [Array.getD_eq_getD_getElem?, Array.getElem?_append, catBlocks_size _ (fun k => chain_size r B hr hB (2 * k + 1)),
    if_pos ht]

theorem blockMix_getD_hi (r : Nat) (B : Array UInt32) (hr : 1 ≤ r) (hB : B.size = 32 * r) (t : Nat)
    (ht1 : 16 * r ≤ t) (ht : t < 32 * r) :
    (Scrypt.blockMix r B).getD t 0 = (chain r B (2 * ((t - 16 * r) / 16) + 2)).getD (t % 16) 0 := by
  rw [blockMix_cat]
  have := catBlocks_getD (fun k => chain r B (2 * k + 2)) (fun k => chain_size r B hr hB _) r (t - 16 * r) (by omega)
  have e : (t - 16 * r) % 16 = t % 16 := by omega
  rw [e] at this
  rw [← this]
  simp only [Array.getD_eq_getD_getElem?, Array.getElem?_append, catBlocks_size _ (fun k => chain_size r B hr hB (2 * k + 1)),
    if_neg (Nat.not_lt.mpr ht1)]

/-- `blkxor(X, &Bin[i * 16], 1)` = X xor B[i] -/
theorem blkxor_blk (X Bin : Array UInt32) (i : Nat) (hX : X.size = 16) (hi : 16 * i + 16 ≤ Bin.size) :
    blkxor X 0 Bin (16 * i) 1 = Scrypt.xorWords X (blk Bin i) := by
  apply ext_getD 0
  · rw [blkxor_size _ _ _ _ _ (by decide), xorWords_size]
  · intro t ht
    rw [blkxor_size _ _ _ _ _ (by decide)] at ht
    rw [blkxor_getD _ _ _ _ _ (by decide), if_pos ⟨by omega, by (show t < 0 + 16 * 1); omega, ht⟩]
    have h2 : t < min (16 * i + 16) Bin.size - 16 * i := by omega
    have h3 : 16 * i + t < Bin.size := by omega
    simp only [Scrypt.xorWords, blk, Array.getD_eq_getD_getElem?, Array.getElem?_mapIdx, Array.getElem?_eq_getElem ht,
      Option.map_some, Option.getD_some, Array.getElem!_eq_getD, Array.getElem?_extract, if_pos h2, Nat.sub_zero]
    rfl

/-- the loop body of `blockmix_salsa8` with the index arithmetic done in `Nat` -/
def bmBodyN (Bin : Array UInt32) (R : Nat) (k : Nat) (s : Array UInt32 × Array UInt32) : Array UInt32 × Array UInt32 :=
  let X := blkxor s.2 0 Bin (16 * (2 * k)) 1
  let X := salsa20_8 X
  let Bout := blkcpy s.1 (16 * k) X 0 1
  let X := blkxor X 0 Bin (16 * (2 * k + 1)) 1
  let X := salsa20_8 X
  let Bout := blkcpy Bout (16 * k + 16 * R) X 0 1
  (Bout, X)

theorem blockmix_eq_iter (Bin Bout X : Array UInt32) (r : UInt64) (hr : 1 ≤ r.toNat) (hr2 : 32 * r.toNat < 2 ^ 64) :
    blockmix_salsa8 Bin Bout X r =
      iter (bmBodyN Bin r.toNat) r.toNat 0 (Bout, blkcpy X 0 Bin (16 * (2 * r.toNat - 1)) 1) := by
  unfold blockmix_salsa8
  have h2r : (2 * r).toNat = 2 * r.toNat := by
    rw [UInt64.toNat_mul]; simp only [UInt64.toNat_ofNat, Nat.reducePow, Nat.reduceMod]; omega
  have h0 : ((2 * r - 1) * 16).toNat = 16 * (2 * r.toNat - 1) := by
    rw [UInt64.toNat_mul, UInt64.toNat_sub_of_le _ _ (by rw [UInt64.le_iff_toNat_le, h2r]; simp; omega), h2r]
    simp only [UInt64.toNat_ofNat, Nat.reducePow, Nat.reduceMod]; omega
  simp only []
  rw [h0, forU64_two (2 * r) _ (bmBodyN Bin r.toNat) r.toNat _ _ h2r (by omega)]
  intro j hj s
  obtain ⟨s1, s2⟩ := s
  have hj2 : (UInt64.ofNat (2 * j)).toNat = 2 * j := ofNat_toNat_lt (by omega)
  have e1 : (UInt64.ofNat (2 * j) * 16).toNat = 16 * (2 * j) := by
    rw [UInt64.toNat_mul, hj2]; simp only [UInt64.toNat_ofNat, Nat.reducePow, Nat.reduceMod]; omega
  have e2 : (UInt64.ofNat (2 * j) * 8).toNat = 16 * j := by
    rw [UInt64.toNat_mul, hj2]; simp only [UInt64.toNat_ofNat, Nat.reducePow, Nat.reduceMod]; omega
  have e3 : (UInt64.ofNat (2 * j) * 16 + 16).toNat = 16 * (2 * j + 1) := by
    rw [UInt64.toNat_add, e1]; simp only [UInt64.toNat_ofNat, Nat.reducePow, Nat.reduceMod]; omega
  have e4 : (UInt64.ofNat (2 * j) * 8 + r * 16).toNat = 16 * j + 16 * r.toNat := by
    rw [UInt64.toNat_add, e2, UInt64.toNat_mul]; simp only [UInt64.toNat_ofNat, Nat.reducePow, Nat.reduceMod]; omega
  simp only [bmBodyN, e1, e2, e3, e4]

/-- `blkcpy(X, &Bin[off], 1)` = the 16 words at `off` -/
theorem blkcpy_blk (X Bin : Array UInt32) (off : Nat) (hX : X.size = 16) (hi : off + 16 ≤ Bin.size) :
    blkcpy X 0 Bin off 1 = Bin.extract off (off + 16) := by
  apply ext_getD 0
  · rw [blkcpy_size _ _ _ _ _ (by decide), Array.size_extract]; omega
  · intro t ht
    rw [blkcpy_size _ _ _ _ _ (by decide)] at ht
    rw [blkcpy_getD _ _ _ _ _ (by decide), if_pos ⟨by omega, by (show t < 0 + 16 * 1); omega, ht⟩]
    have h2 : t < min (off + 16) Bin.size - off := by omega
    simp only [Array.getD_eq_getD_getElem?, Array.getElem?_extract, if_pos h2, Nat.sub_zero]

/-- the loop invariant of `blockmix_salsa8` after `k` iterations -/
def BmInv (R : Nat) (Bin : Array UInt32) (k : Nat) (s : Array UInt32 × Array UInt32) : Prop :=
  s.2 = chain R Bin (2 * k) ∧ s.1.size = 32 * R ∧
  (∀ t, t < 16 * k → s.1.getD t 0 = (chain R Bin (2 * (t / 16) + 1)).getD (t % 16) 0) ∧
  (∀ t, 16 * R ≤ t → t < 16 * R + 16 * k → s.1.getD t 0 = (chain R Bin (2 * ((t - 16 * R) / 16) + 2)).getD (t % 16) 0)

theorem bmBody_inv (R : Nat) (Bin : Array UInt32) (hR : 1 ≤ R) (hBin : Bin.size = 32 * R) (k : Nat) (hk : k < R)
    (s : Array UInt32 × Array UInt32) (h : BmInv R Bin k s) : BmInv R Bin (k + 1) (bmBodyN Bin R k s) := by
  obtain ⟨Bout, X⟩ := s
  obtain ⟨hX, hsz, hlo, hhi⟩ := h
  simp only at hX hsz hlo hhi
  have cs := chain_size R Bin hR hBin
  subst hX
  have step : ∀ i, i < 2 * R → salsa20_8 (blkxor (chain R Bin i) 0 Bin (16 * i) 1) = chain R Bin (i + 1) := by
    intro i hi
    have hi' : 16 * i + 16 ≤ Bin.size := by omega
    rw [blkxor_blk (chain R Bin i) Bin i (cs i) hi', salsa20_8_eq _ (by rw [xorWords_size, cs])]; rfl
  have e2 := step (2 * k) (by omega)
  have e3 : salsa20_8 (blkxor (chain R Bin (2 * k + 1)) 0 Bin (16 * (2 * k + 1)) 1) = chain R Bin (2 * k + 2) :=
    step (2 * k + 1) (by omega)
  simp only [bmBodyN, e2, e3]
  unfold BmInv
  simp only []
  refine ⟨?_, ?_, ?_, ?_⟩
  · rw [Nat.mul_succ]
  · simp only [blkcpy_size _ _ _ _ _ (show (1 : UInt64).toNat * 64 < 2 ^ 64 by decide), hsz]
  · intro t ht
    simp only [blkcpy_getD _ _ _ _ _ (show (1 : UInt64).toNat * 64 < 2 ^ 64 by decide),
      blkcpy_size _ _ _ _ _ (show (1 : UInt64).toNat * 64 < 2 ^ 64 by decide), hsz]
    have h16 : (16 : Nat) * (1 : UInt64).toNat = 16 := rfl
    rw [h16, if_neg (by omega)]
    by_cases hc : 16 * k ≤ t
    · rw [if_pos ⟨hc, by omega, by omega⟩]
      have a1 : t / 16 = k := by omega
      have a2 : 0 + (t - 16 * k) = t % 16 := by omega
      rw [a1, a2]
    · rw [if_neg (by omega)]
      exact hlo t (by omega)
  · intro t ht1 ht2
    simp only [blkcpy_getD _ _ _ _ _ (show (1 : UInt64).toNat * 64 < 2 ^ 64 by decide),
      blkcpy_size _ _ _ _ _ (show (1 : UInt64).toNat * 64 < 2 ^ 64 by decide), hsz]
    have h16 : (16 : Nat) * (1 : UInt64).toNat = 16 := rfl
    rw [h16]
    by_cases hc : 16 * k + 16 * R ≤ t
    · rw [if_pos ⟨hc, by omega, by omega⟩]
      have a1 : (t - 16 * R) / 16 = k := by omega
      have a2 : 0 + (t - (16 * k + 16 * R)) = t % 16 := by omega
      rw [a1, a2]
    · rw [if_neg (by omega), if_neg (by omega)]
      exact hhi t ht1 (by omega)

theorem blockmix_spec (Bin Bout X : Array UInt32) (r : UInt64) (hr : 1 ≤ r.toNat) (hr2 : 32 * r.toNat < 2 ^ 64)
    (hBin : Bin.size = 32 * r.toNat) (hBout : Bout.size = 32 * r.toNat) (hX : X.size = 16) :
    (blockmix_salsa8 Bin Bout X r).1 = Scrypt.blockMix r.toNat Bin ∧ (blockmix_salsa8 Bin Bout X r).2.size = 16 := by
  rw [blockmix_eq_iter _ _ _ _ hr hr2]
  have h0 : BmInv r.toNat Bin 0 (Bout, blkcpy X 0 Bin (16 * (2 * r.toNat - 1)) 1) := by
    refine ⟨?_, hBout, fun t ht => by omega, fun t h1 h2 => by omega⟩
    simp only [chain]
    rw [blkcpy_blk _ _ _ hX (by omega)]
    congr 1; omega
  have := iter_inv (bmBodyN Bin r.toNat) (BmInv r.toNat Bin) r.toNat 0 _ h0
    (fun j s _ h2 h => bmBody_inv r.toNat Bin hr hBin j (by omega) s h)
  rw [Nat.zero_add] at this
  obtain ⟨hX', hsz, hlo, hhi⟩ := this
  refine ⟨?_, by rw [hX', chain_size _ _ hr hBin]⟩
  apply ext_getD 0
  · rw [hsz, blockMix_size _ _ hr hBin]
  · intro t ht
    rw [hsz] at ht
    by_cases hc : t < 16 * r.toNat
    · rw [hlo t hc, blockMix_getD_lo _ _ hr hBin t hc]
    · rw [hhi t (by omega) (by omega), blockMix_getD_hi _ _ hr hBin t (by omega) ht]

/-! ### scryptROMix: normal form of the specification -/

/-- X after k applications of scryptBlockMix -/
def xs (r : Nat) (B : Array UInt32) : Nat → Array UInt32
  | 0 => B
  | k + 1 => Scrypt.blockMix r (xs r B k)

/-- one step of the second loop of scryptROMix, with V[j] = xs j -/
def step2 (r N : Nat) (B X : Array UInt32) : Array UInt32 :=
  Scrypt.blockMix r (Scrypt.xorWords X (xs r B (Scrypt.integerify r X % N)))

def ys (r N : Nat) (B : Array UInt32) : Nat → Array UInt32
  | 0 => xs r B N
  | k + 1 => step2 r N B (ys r N B k)

theorem roMix_loop1 (r : Nat) (B : Array UInt32) : ∀ n,
    (List.range n).foldl (fun (b : Array UInt32 × Array (Array UInt32)) (_ : Nat) => (Scrypt.blockMix r b.1, b.2.push b.1)) (B, #[]) =
      (xs r B n, ((List.range n).map (xs r B)).toArray)
  | 0 => rfl
  | n + 1 => by
    rw [List.range_succ, List.foldl_append, roMix_loop1 r B n]
    simp [xs]

theorem vget (r N : Nat) (B : Array UInt32) (j : Nat) (hN : 0 < N) :
    ((List.range N).map (xs r B)).toArray[j % N]! = xs r B (j % N) := by
  have h := Nat.mod_lt j hN
  simp [h]

theorem roMix_eq (r N : Nat) (B : Array UInt32) : Scrypt.roMix r N B = ys r N B N := by
  unfold Scrypt.roMix
  simp only [Std.Legacy.Range.forIn_eq_forIn_range', Std.Legacy.Range.size,
    List.forIn_pure_yield_eq_foldl, pure_bind, Id.run_pure]
  have h1 : (N - 0 + 1 - 1) / 1 = N := by omega
  rw [h1, ← List.range_eq_range']
  have := roMix_loop1 r B N
  simp only [Array.mkEmpty_eq] at *
  rw [this]
  simp only []
  by_cases hN : N = 0
  · subst hN; rfl
  have key : ∀ n, (List.range n).foldl (fun (b : Array UInt32) (_ : Nat) =>
      Scrypt.blockMix r (Scrypt.xorWords b ((List.map (xs r B) (List.range N)).toArray[Scrypt.integerify r b % N]!)))
        (xs r B N) = ys r N B n := by
    intro n
    induction n with
    | zero => rfl
    | succ n ih =>
      rw [List.range_succ, List.foldl_append, ih]
      simp only [List.foldl_cons, List.foldl_nil, ys, step2]
      rw [vget r N B _ (by omega)]
  exact key N

theorem xs_size (r : Nat) (B : Array UInt32) (hr : 1 ≤ r) (hB : B.size = 32 * r) : ∀ k, (xs r B k).size = 32 * r
  | 0 => hB
  | k + 1 => blockMix_size r _ hr (xs_size r B hr hB k)

theorem ys_size (r N : Nat) (B : Array UInt32) (hr : 1 ≤ r) (hB : B.size = 32 * r) : ∀ k, (ys r N B k).size = 32 * r
  | 0 => xs_size r B hr hB N
  | k + 1 => blockMix_size r _ hr (by rw [xorWords_size]; exact ys_size r N B hr hB k)

/-! ### integerify -/

theorem integerify_spec (X : Array UInt32) (r N : UInt64) (n : Nat) (hr : 1 ≤ r.toNat) (hr2 : 32 * r.toNat < 2 ^ 64)
    (hX : X.size = 32 * r.toNat) (hN : N.toNat = 2 ^ n) (hn : n < 64) :
    (integerify X r &&& (N - 1)).toNat = Scrypt.integerify r.toNat X % N.toNat := by
  have h2r : (2 * r).toNat = 2 * r.toNat := by
    rw [UInt64.toNat_mul]; simp only [UInt64.toNat_ofNat, Nat.reducePow, Nat.reduceMod]; omega
  have h0 : ((2 * r - 1) * 16).toNat = 16 * (2 * r.toNat - 1) := by
    rw [UInt64.toNat_mul, UInt64.toNat_sub_of_le _ _ (by rw [UInt64.le_iff_toNat_le, h2r]; simp; omega), h2r]
    simp only [UInt64.toNat_ofNat, Nat.reducePow, Nat.reduceMod]; omega
  have hpos : 0 < 2 ^ n := Nat.pow_pos (by decide)
  have hN1 : (N - 1).toNat = 2 ^ n - 1 := by
    rw [UInt64.toNat_sub_of_le _ _ (by rw [UInt64.le_iff_toNat_le, hN]; simp; omega), hN]; rfl
  unfold integerify Scrypt.integerify
  simp only []
  rw [UInt64.toNat_and, hN1, Nat.and_two_pow_sub_one_eq_mod, h0, hN]
  generalize hoff : 16 * (2 * r.toNat - 1) = off
  have hE : (X.extract off (16 * (2 * r.toNat))).size = 16 := by rw [Array.size_extract]; omega
  generalize hEd : X.extract off (16 * (2 * r.toNat)) = E at hE
  have g0 : X.getD (off + 0) 0 = E[0] := by
    subst hEd
    rw [Array.getElem_extract]
    simp [Array.getD_eq_getD_getElem?, Array.getElem?_eq_getElem (show off < X.size by omega)]
  have g1 : X.getD (off + 1) 0 = E[1] := by
    subst hEd
    rw [Array.getElem_extract]
    simp [Array.getD_eq_getD_getElem?, Array.getElem?_eq_getElem (show off + 1 < X.size by omega)]
  rw [g0, g1, ← Array.foldr_toList]
  have hl : E.toList = E[0] :: E[1] :: E.toList.drop 2 := by
    have hlen : E.toList.length = 16 := by simpa using hE
    have a0 : E.toList = E.toList.drop 0 := rfl
    rw [a0, List.drop_eq_getElem_cons (by omega), List.drop_eq_getElem_cons (by omega)]
    simp
  rw [hl]
  simp only [List.foldr_cons]
  generalize List.foldr (fun (w : UInt32) acc => w.toNat + 2 ^ 32 * acc) 0 (List.drop 2 E.toList) = rest
  have hw0 := E[0].toNat_lt
  have hw1 := E[1].toNat_lt
  have e64 : ((E[1].toUInt64 <<< 32) + E[0].toUInt64).toNat = E[0].toNat + 2 ^ 32 * E[1].toNat := by
    rw [UInt64.toNat_add, UInt64.toNat_shiftLeft]
    simp only [UInt32.toNat_toUInt64, UInt64.toNat_ofNat, Nat.reducePow, Nat.reduceMod, Nat.shiftLeft_eq]
    omega
  rw [e64]
  have hdvd : 2 ^ n ∣ 2 ^ 64 := Nat.pow_dvd_pow 2 (by omega)
  obtain ⟨q, hq⟩ := hdvd
  have : E[0].toNat + 2 ^ 32 * (E[1].toNat + 2 ^ 32 * rest) = E[0].toNat + 2 ^ 32 * E[1].toNat + 2 ^ n * (q * rest) := by
    rw [← Nat.mul_assoc (2 ^ n), ← hq]; omega
  rw [this, Nat.add_mul_mod_self_left]

/-! ### rows of V -/

theorem row_iff (W a u : Nat) (hW : 0 < W) : (W * a ≤ u ∧ u < W * a + W) ↔ u / W = a := by
  rw [Nat.div_eq_iff hW, Nat.mul_comm a W]; omega

theorem row_mod (W a u : Nat) (h : u / W = a) : u - W * a = u % W := by
  have := Nat.div_add_mod u W
  rw [h] at this; omega

/-- `blkcpy(&V[a * W], src, len)` with `W = 16 * len` words per row -/
theorem blkcpy_row (V src : Array UInt32) (W a : Nat) (len : UInt64) (hl : len.toNat * 64 < 2 ^ 64)
    (hW : 16 * len.toNat = W) (hpos : 0 < W) (u : Nat) :
    (blkcpy V (W * a) src 0 len).getD u 0 =
      if u / W = a ∧ u < V.size then src.getD (u % W) 0 else V.getD u 0 := by
  rw [blkcpy_getD _ _ _ _ _ hl, hW]
  by_cases h : u / W = a
  · have h1 := (row_iff W a u hpos).mpr h
    by_cases h2 : u < V.size
    · rw [if_pos ⟨h1.1, h1.2, h2⟩, if_pos ⟨h, h2⟩, Nat.zero_add, row_mod W a u h]
    · rw [if_neg (by omega), if_neg (by omega)]
  · have h1 := mt (row_iff W a u hpos).mp h
    rw [if_neg (by omega), if_neg (by omega)]

/-- `blkxor(X, &V[a * W], len)` when row `a` of `V` holds `S` -/
theorem blkxor_row (X V S : Array UInt32) (W a : Nat) (len : UInt64) (hl : len.toNat * 16 < 2 ^ 64)
    (hW : 16 * len.toNat = W) (hX : X.size = W) (hS : S.size = W)
    (hV : ∀ t, t < W → V.getD (W * a + t) 0 = S.getD t 0) :
    blkxor X 0 V (W * a) len = Scrypt.xorWords X S := by
  apply ext_getD 0
  · rw [blkxor_size _ _ _ _ _ hl, xorWords_size]
  · intro t ht
    rw [blkxor_size _ _ _ _ _ hl] at ht
    rw [blkxor_getD _ _ _ _ _ hl, hW, if_pos ⟨by omega, by omega, ht⟩, Nat.sub_zero, hV t (by omega)]
    have h3 : t < S.size := by omega
    simp only [Scrypt.xorWords, Array.getD_eq_getD_getElem?, Array.getElem?_mapIdx, Array.getElem?_eq_getElem ht,
      Array.getElem?_eq_getElem h3, Option.map_some, Option.getD_some, Array.getElem!_eq_getD]

/-! ### smix: first loop -/

theorem two_r (r : UInt64) (h : 2 * r.toNat < 2 ^ 64) : (2 * r).toNat = 2 * r.toNat := by
  rw [UInt64.toNat_mul]; simp only [UInt64.toNat_ofNat, Nat.reducePow, Nat.reduceMod]; omega

theorem w_r (r : UInt64) (h : 32 * r.toNat < 2 ^ 64) : (32 * r).toNat = 32 * r.toNat := by
  rw [UInt64.toNat_mul]; simp only [UInt64.toNat_ofNat, Nat.reducePow, Nat.reduceMod]; omega

theorem row_off (r i : UInt64) (bound : Nat) (hr2 : 32 * r.toNat * bound < 2 ^ 64) (hb : 1 ≤ bound) (hi : i.toNat ≤ bound) :
    (i * (32 * r)).toNat = 32 * r.toNat * i.toNat := by
  have h1 : 32 * r.toNat * 1 ≤ 32 * r.toNat * bound := Nat.mul_le_mul_left _ hb
  have h2 : 32 * r.toNat * i.toNat ≤ 32 * r.toNat * bound := Nat.mul_le_mul_left _ hi
  rw [UInt64.toNat_mul, w_r r (by omega), Nat.mul_comm]
  exact Nat.mod_eq_of_lt (by omega)

theorem smix_loop1_eq (r N : UInt64) (V X Y Z : Array UInt32) (m : Nat) (hN : N.toNat = 2 * m) :
    smix_loop1 r N V X Y Z = iter (fun j s => smix_loop1_body r (UInt64.ofNat (2 * j)) s) m 0 (V, X, Y, Z) := by
  unfold smix_loop1
  have hm : m ≤ N.toNat := by omega
  rw [forU64_two N (smix_loop1_body r) (fun j s => smix_loop1_body r (UInt64.ofNat (2 * j)) s) m N.toNat (V, X, Y, Z) hN hm]
  intro j _ s
  rfl

theorem xs_succ (r : Nat) (B : Array UInt32) (k : Nat) : xs r B (k + 1) = Scrypt.blockMix r (xs r B k) := by
  rw [xs]

theorem xs_succ2 (r : Nat) (B : Array UInt32) (k : Nat) :
    xs r B (2 * (k + 1)) = Scrypt.blockMix r (Scrypt.blockMix r (xs r B (2 * k))) := by
  rw [show 2 * (k + 1) = 2 * k + 1 + 1 by omega, xs_succ, xs_succ]

/-- invariant of the first loop after `k` iterations (`W = 32 r`) -/
def L1Inv (R Nn : Nat) (B : Array UInt32) (k : Nat) (s : Array UInt32 × Array UInt32 × Array UInt32 × Array UInt32) : Prop :=
  s.2.1 = xs R B (2 * k) ∧ s.1.size = 32 * R * Nn ∧ s.2.2.1.size = 32 * R ∧ s.2.2.2.size = 16 ∧
  ∀ u, u / (32 * R) < 2 * k → s.1.getD u 0 = (xs R B (u / (32 * R))).getD (u % (32 * R)) 0

theorem smix_loop1_body_eq (r i : UInt64) (V X Y Z : Array UInt32) :
    smix_loop1_body r i (V, X, Y, Z) =
      (blkcpy (blkcpy V (i * (32 * r)).toNat X 0 (2 * r)) ((i + 1) * (32 * r)).toNat (blockmix_salsa8 X Y Z r).1 0 (2 * r),
       (blockmix_salsa8 (blockmix_salsa8 X Y Z r).1 X (blockmix_salsa8 X Y Z r).2 r).1,
       (blockmix_salsa8 X Y Z r).1,
       (blockmix_salsa8 (blockmix_salsa8 X Y Z r).1 X (blockmix_salsa8 X Y Z r).2 r).2) := by
  rw [smix_loop1_body]

theorem L1Inv_mk {R Nn : Nat} {B : Array UInt32} {k : Nat} {V X Y Z : Array UInt32}
    (h1 : X = xs R B (2 * k)) (h2 : V.size = 32 * R * Nn) (h3 : Y.size = 32 * R) (h4 : Z.size = 16)
    (h5 : ∀ u, u / (32 * R) < 2 * k → V.getD u 0 = (xs R B (u / (32 * R))).getD (u % (32 * R)) 0) :
    L1Inv R Nn B k (V, X, Y, Z) := ⟨h1, h2, h3, h4, h5⟩

theorem l1Body_inv (r : UInt64) (Nn : Nat) (B : Array UInt32) (hr : 1 ≤ r.toNat) (hr2 : 128 * r.toNat * Nn < 2 ^ 64)
    (hB : B.size = 32 * r.toNat) (k : Nat) (hk : 2 * k + 2 ≤ Nn)
    (s : Array UInt32 × Array UInt32 × Array UInt32 × Array UInt32) (h : L1Inv r.toNat Nn B k s) :
    L1Inv r.toNat Nn B (k + 1) (smix_loop1_body r (UInt64.ofNat (2 * k)) s) := by
  obtain ⟨V, X, Y, Z⟩ := s
  obtain ⟨hX, hV, hY, hZ, hrow⟩ := h
  simp only at hX hV hY hZ hrow
  subst hX
  have hbig : 128 * r.toNat * 2 ≤ 128 * r.toNat * Nn := Nat.mul_le_mul_left _ (by omega)
  have h32 : 32 * r.toNat < 2 ^ 64 := by omega
  have hNn : Nn ≤ 128 * r.toNat * Nn := Nat.le_mul_of_pos_left Nn (by omega)
  have h32N : 32 * r.toNat * Nn < 2 ^ 64 := by
    have : 32 * r.toNat * Nn ≤ 128 * r.toNat * Nn := Nat.mul_le_mul_right _ (by omega)
    omega
  have h2r := two_r r (by omega)
  have hl : (2 * r).toNat * 64 < 2 ^ 64 := by rw [h2r]; omega
  have hW : 16 * (2 * r).toNat = 32 * r.toNat := by rw [h2r]; omega
  have hWpos : 0 < 32 * r.toNat := by omega
  have hj2 : (UInt64.ofNat (2 * k)).toNat = 2 * k := ofNat_toNat_lt (by omega)
  have hj3 : (UInt64.ofNat (2 * k) + 1).toNat = 2 * k + 1 := by
    rw [UInt64.toNat_add, hj2]; simp only [UInt64.toNat_ofNat, Nat.reducePow, Nat.reduceMod]
    omega
  have e1 := row_off r (UInt64.ofNat (2 * k)) Nn h32N (by omega) (by omega)
  have e2 := row_off r (UInt64.ofNat (2 * k) + 1) Nn h32N (by omega) (by omega)
  rw [hj2] at e1
  rw [hj3] at e2
  have xsz := xs_size r.toNat B hr hB
  have bm1 := blockmix_spec (xs r.toNat B (2 * k)) Y Z r hr h32 (xsz _) hY hZ
  rw [← xs_succ] at bm1
  rw [smix_loop1_body_eq, e1, e2, bm1.1]
  have bm2 := blockmix_spec (xs r.toNat B (2 * k + 1)) (xs r.toNat B (2 * k))
    (blockmix_salsa8 (xs r.toNat B (2 * k)) Y Z r).2 r hr h32 (xsz _) (xsz _) bm1.2
  rw [← xs_succ] at bm2
  apply L1Inv_mk
  · rw [bm2.1, Nat.mul_succ]
  · rw [blkcpy_size _ _ _ _ _ hl, blkcpy_size _ _ _ _ _ hl, hV]
  · exact xsz _
  · exact bm2.2
  · intro u hu
    have hVs : ∀ q, u / (32 * r.toNat) = q → q < Nn → u < V.size := by
      intro q hq hqn
      rw [hV, Nat.mul_comm]
      exact (Nat.div_lt_iff_lt_mul hWpos).mp (by omega)
    rw [blkcpy_row _ _ _ _ _ hl hW hWpos, blkcpy_size _ _ _ _ _ hl, blkcpy_row _ _ _ _ _ hl hW hWpos]
    by_cases c1 : u / (32 * r.toNat) = 2 * k + 1
    · rw [if_pos ⟨c1, hVs _ c1 (by omega)⟩, c1]
    · rw [if_neg (by omega)]
      by_cases c2 : u / (32 * r.toNat) = 2 * k
      · rw [if_pos ⟨c2, hVs _ c2 (by omega)⟩, c2]
      · rw [if_neg (by omega)]
        exact hrow u (by omega)

/-- result of the first loop -/
theorem smix_loop1_spec (r N : UInt64) (B V Y Z : Array UInt32) (m : Nat) (hN : N.toNat = 2 * m)
    (hr : 1 ≤ r.toNat) (hr2 : 128 * r.toNat * N.toNat < 2 ^ 64) (hB : B.size = 32 * r.toNat)
    (hV : V.size = 32 * r.toNat * N.toNat) (hY : Y.size = 32 * r.toNat) (hZ : Z.size = 16) :
    L1Inv r.toNat N.toNat B m (smix_loop1 r N V B Y Z) := by
  rw [smix_loop1_eq r N V B Y Z m hN]
  have h0 : L1Inv r.toNat N.toNat B 0 (V, B, Y, Z) := L1Inv_mk rfl hV hY hZ (fun u hu => absurd hu (by rw [Nat.mul_zero]; exact Nat.not_lt_zero _))
  have := iter_inv (fun j s => smix_loop1_body r (UInt64.ofNat (2 * j)) s) (L1Inv r.toNat N.toNat B) m 0 _ h0
    (fun j s _ h2 h => l1Body_inv r N.toNat B hr hr2 hB j (by omega) s h)
  rw [Nat.zero_add] at this
  exact this

/-! ### smix: second loop -/

theorem smix_loop2_body_eq (r N : UInt64) (V : Array UInt32) (i : UInt64) (X Y Z : Array UInt32) :
    smix_loop2_body r N V i (X, Y, Z) =
      ((blockmix_salsa8
          (blkxor (blockmix_salsa8 (blkxor X 0 V ((integerify X r &&& (N - 1)) * (32 * r)).toNat (2 * r)) Y Z r).1 0 V
            ((integerify (blockmix_salsa8 (blkxor X 0 V ((integerify X r &&& (N - 1)) * (32 * r)).toNat (2 * r)) Y Z r).1 r &&& (N - 1)) * (32 * r)).toNat (2 * r))
          (blkxor X 0 V ((integerify X r &&& (N - 1)) * (32 * r)).toNat (2 * r))
          (blockmix_salsa8 (blkxor X 0 V ((integerify X r &&& (N - 1)) * (32 * r)).toNat (2 * r)) Y Z r).2 r).1,
       blkxor (blockmix_salsa8 (blkxor X 0 V ((integerify X r &&& (N - 1)) * (32 * r)).toNat (2 * r)) Y Z r).1 0 V
            ((integerify (blockmix_salsa8 (blkxor X 0 V ((integerify X r &&& (N - 1)) * (32 * r)).toNat (2 * r)) Y Z r).1 r &&& (N - 1)) * (32 * r)).toNat (2 * r),
       (blockmix_salsa8
          (blkxor (blockmix_salsa8 (blkxor X 0 V ((integerify X r &&& (N - 1)) * (32 * r)).toNat (2 * r)) Y Z r).1 0 V
            ((integerify (blockmix_salsa8 (blkxor X 0 V ((integerify X r &&& (N - 1)) * (32 * r)).toNat (2 * r)) Y Z r).1 r &&& (N - 1)) * (32 * r)).toNat (2 * r))
          (blkxor X 0 V ((integerify X r &&& (N - 1)) * (32 * r)).toNat (2 * r))
          (blockmix_salsa8 (blkxor X 0 V ((integerify X r &&& (N - 1)) * (32 * r)).toNat (2 * r)) Y Z r).2 r).2) := by
  rw [smix_loop2_body]

theorem ys_succ (r N : Nat) (B : Array UInt32) (k : Nat) : ys r N B (k + 1) = step2 r N B (ys r N B k) := by
  rw [ys]

/-- one half-step of the second loop: X xor V_j, then blockmix -/
theorem half_step2 (r N : UInt64) (n : Nat) (B V X Y Z : Array UInt32) (hr : 1 ≤ r.toNat)
    (hr2 : 128 * r.toNat * N.toNat < 2 ^ 64) (hN : N.toNat = 2 ^ n) (hn : n < 64) (hB : B.size = 32 * r.toNat)
    (hV : ∀ u, u / (32 * r.toNat) < N.toNat → V.getD u 0 = (xs r.toNat B (u / (32 * r.toNat))).getD (u % (32 * r.toNat)) 0)
    (hX : X.size = 32 * r.toNat) (hY : Y.size = 32 * r.toNat) (hZ : Z.size = 16) :
    (blockmix_salsa8 (blkxor X 0 V ((integerify X r &&& (N - 1)) * (32 * r)).toNat (2 * r)) Y Z r).1 = step2 r.toNat N.toNat B X ∧
    (blockmix_salsa8 (blkxor X 0 V ((integerify X r &&& (N - 1)) * (32 * r)).toNat (2 * r)) Y Z r).2.size = 16 ∧
    (blkxor X 0 V ((integerify X r &&& (N - 1)) * (32 * r)).toNat (2 * r)).size = 32 * r.toNat := by
  have hNpos : 0 < N.toNat := by rw [hN]; exact Nat.pow_pos (by decide)
  have hNn : N.toNat ≤ 128 * r.toNat * N.toNat := Nat.le_mul_of_pos_left _ (by omega)
  have hbig : 128 * r.toNat * 1 ≤ 128 * r.toNat * N.toNat := Nat.mul_le_mul_left _ hNpos
  have h32 : 32 * r.toNat < 2 ^ 64 := by omega
  have h32N : 32 * r.toNat * N.toNat < 2 ^ 64 := by
    have : 32 * r.toNat * N.toNat ≤ 128 * r.toNat * N.toNat := Nat.mul_le_mul_right _ (by omega)
    omega
  have h2r := two_r r (by omega)
  have hl : (2 * r).toNat * 16 < 2 ^ 64 := by rw [h2r]; omega
  have hW : 16 * (2 * r).toNat = 32 * r.toNat := by rw [h2r]; omega
  have hWpos : 0 < 32 * r.toNat := by omega
  have hj := integerify_spec X r N n hr h32 hX hN hn
  have hjlt : (integerify X r &&& (N - 1)).toNat < N.toNat := by rw [hj]; exact Nat.mod_lt _ hNpos
  have eoff := row_off r (integerify X r &&& (N - 1)) N.toNat h32N (by omega) (by omega)
  have xsz := xs_size r.toNat B hr hB
  have hx : blkxor X 0 V ((integerify X r &&& (N - 1)) * (32 * r)).toNat (2 * r) =
      Scrypt.xorWords X (xs r.toNat B (Scrypt.integerify r.toNat X % N.toNat)) := by
    rw [eoff, hj]
    apply blkxor_row X V _ (32 * r.toNat) _ (2 * r) hl hW hX (xsz _)
    intro t ht
    have := hV (32 * r.toNat * (Scrypt.integerify r.toNat X % N.toNat) + t)
    rw [Nat.mul_add_div hWpos, Nat.div_eq_of_lt ht, Nat.add_zero, Nat.mul_add_mod, Nat.mod_eq_of_lt ht] at this
    exact this (Nat.mod_lt _ hNpos)
  rw [hx]
  have bm := blockmix_spec (Scrypt.xorWords X (xs r.toNat B (Scrypt.integerify r.toNat X % N.toNat))) Y Z r hr h32
    (by rw [xorWords_size, hX]) hY hZ
  exact ⟨bm.1, bm.2, by rw [xorWords_size, hX]⟩

def L2Inv (R Nn : Nat) (B : Array UInt32) (k : Nat) (s : Array UInt32 × Array UInt32 × Array UInt32) : Prop :=
  s.1 = ys R Nn B (2 * k) ∧ s.2.1.size = 32 * R ∧ s.2.2.size = 16

theorem L2Inv_mk {R Nn : Nat} {B : Array UInt32} {k : Nat} {X Y Z : Array UInt32}
    (h1 : X = ys R Nn B (2 * k)) (h3 : Y.size = 32 * R) (h4 : Z.size = 16) : L2Inv R Nn B k (X, Y, Z) := ⟨h1, h3, h4⟩

theorem step2_size (r N : Nat) (B X : Array UInt32) (hr : 1 ≤ r) (hX : X.size = 32 * r) : (step2 r N B X).size = 32 * r :=
  blockMix_size r _ hr (by rw [xorWords_size]; exact hX)

theorem l2Body_inv (r N : UInt64) (n : Nat) (B V : Array UInt32) (hr : 1 ≤ r.toNat)
    (hr2 : 128 * r.toNat * N.toNat < 2 ^ 64) (hN : N.toNat = 2 ^ n) (hn : n < 64) (hB : B.size = 32 * r.toNat)
    (hV : ∀ u, u / (32 * r.toNat) < N.toNat → V.getD u 0 = (xs r.toNat B (u / (32 * r.toNat))).getD (u % (32 * r.toNat)) 0)
    (k : Nat) (i : UInt64) (s : Array UInt32 × Array UInt32 × Array UInt32) (h : L2Inv r.toNat N.toNat B k s) :
    L2Inv r.toNat N.toNat B (k + 1) (smix_loop2_body r N V i s) := by
  obtain ⟨X, Y, Z⟩ := s
  obtain ⟨hX, hY, hZ⟩ := h
  simp only at hX hY hZ
  have hXs : X.size = 32 * r.toNat := by rw [hX]; exact ys_size _ _ _ hr hB _
  have a := half_step2 r N n B V X Y Z hr hr2 hN hn hB hV hXs hY hZ
  have b := half_step2 r N n B V
    (blockmix_salsa8 (blkxor X 0 V ((integerify X r &&& (N - 1)) * (32 * r)).toNat (2 * r)) Y Z r).1
    (blkxor X 0 V ((integerify X r &&& (N - 1)) * (32 * r)).toNat (2 * r))
    (blockmix_salsa8 (blkxor X 0 V ((integerify X r &&& (N - 1)) * (32 * r)).toNat (2 * r)) Y Z r).2
    hr hr2 hN hn hB hV (by rw [a.1]; exact step2_size _ _ _ _ hr hXs) a.2.2 a.2.1
  rw [smix_loop2_body_eq]
  apply L2Inv_mk
  · rw [b.1, a.1, hX, show 2 * (k + 1) = 2 * k + 1 + 1 by omega, ys_succ, ys_succ]
  · exact b.2.2
  · exact b.2.1

theorem smix_loop2_spec (r N : UInt64) (n m : Nat) (B V X Y Z : Array UInt32) (hr : 1 ≤ r.toNat)
    (hr2 : 128 * r.toNat * N.toNat < 2 ^ 64) (hN : N.toNat = 2 ^ n) (hn : n < 64) (hm : N.toNat = 2 * m)
    (hB : B.size = 32 * r.toNat)
    (hV : ∀ u, u / (32 * r.toNat) < N.toNat → V.getD u 0 = (xs r.toNat B (u / (32 * r.toNat))).getD (u % (32 * r.toNat)) 0)
    (hX : X = xs r.toNat B N.toNat) (hY : Y.size = 32 * r.toNat) (hZ : Z.size = 16) :
    L2Inv r.toNat N.toNat B m (smix_loop2 r N V X Y Z) := by
  unfold smix_loop2
  have hmf : m ≤ N.toNat := by omega
  rw [forU64_two N (smix_loop2_body r N V) (fun j s => smix_loop2_body r N V (UInt64.ofNat (2 * j)) s) m N.toNat (X, Y, Z) hm hmf
    (fun j _ s => rfl)]
  have h0 : L2Inv r.toNat N.toNat B 0 (X, Y, Z) := L2Inv_mk hX hY hZ
  have := iter_inv (fun j s => smix_loop2_body r N V (UInt64.ofNat (2 * j)) s) (L2Inv r.toNat N.toNat B) m 0 _ h0
    (fun j s _ _ h => l2Body_inv r N n B V hr hr2 hN hn hB hV j _ s h)
  rw [Nat.zero_add] at this
  exact this

/-- the two loops of `smix` on the words `X0` = scryptROMix -/
theorem smix_loops_spec (r N : UInt64) (n : Nat) (X0 V Y Z : Array UInt32) (hr : 1 ≤ r.toNat)
    (hr2 : 128 * r.toNat * N.toNat < 2 ^ 64) (hN : N.toNat = 2 ^ n) (hn1 : 1 ≤ n) (hn : n < 64)
    (hX : X0.size = 32 * r.toNat) (hV : V.size = 32 * r.toNat * N.toNat) (hY : Y.size = 32 * r.toNat) (hZ : Z.size = 16) :
    let s1 := smix_loop1 r N V X0 Y Z
    let s2 := smix_loop2 r N s1.1 s1.2.1 s1.2.2.1 s1.2.2.2
    s2.1 = Scrypt.roMix r.toNat N.toNat X0 ∧ s1.1.size = V.size ∧ s2.2.1.size = 32 * r.toNat ∧ s2.2.2.size = 16 := by
  intro s1 s2
  have hm : N.toNat = 2 * 2 ^ (n - 1) := by
    rw [hN]; obtain ⟨n', rfl⟩ : ∃ n', n = n' + 1 := ⟨n - 1, by omega⟩
    rw [Nat.pow_succ]; simp; omega
  have h1 : L1Inv r.toNat N.toNat X0 (2 ^ (n - 1)) s1 := smix_loop1_spec r N X0 V Y Z _ hm hr hr2 hX hV hY hZ
  obtain ⟨a1, a2, a3, a4, a5⟩ := h1
  have h2 : L2Inv r.toNat N.toNat X0 (2 ^ (n - 1)) s2 :=
    smix_loop2_spec r N n _ X0 s1.1 s1.2.1 s1.2.2.1 s1.2.2.2 hr hr2 hN hn hm hX
      (fun u hu => a5 u (by omega)) (by rw [a1, ← hm]) a3 a4
  obtain ⟨b1, b2, b3⟩ := h2
  refine ⟨?_, by rw [a2, hV], b2, b3⟩
  rw [b1, ← hm, roMix_eq]

/-! ### PBKDF2 -/

theorem xor32_aux (U : Bytes) : ∀ (n : Nat) (T : Bytes),
    (Nat.fold n (fun k _ T => T.set k (T.getD k 0 ^^^ U.getD k 0)) T).length = T.length ∧
    ∀ k, (Nat.fold n (fun k _ T => T.set k (T.getD k 0 ^^^ U.getD k 0)) T)[k]? =
      if k < n then (T[k]?).map (· ^^^ U.getD k 0) else T[k]?
  | 0, T => ⟨rfl, fun k => by simp⟩
  | n + 1, T => by
    rw [Nat.fold_succ]
    obtain ⟨h1, h2⟩ := xor32_aux U n T
    refine ⟨by rw [List.length_set, h1], fun k => ?_⟩
    rw [List.getElem?_set, h1]
    by_cases hk : n = k
    · subst hk
      rw [if_pos rfl, if_pos (show n < n + 1 from Nat.lt_succ_self n)]
      by_cases hl : n < T.length
      · rw [if_pos hl, List.getD_eq_getElem?_getD, h2 n, if_neg (by omega)]
        simp [List.getElem?_eq_getElem hl]
      · rw [if_neg hl, List.getElem?_eq_none (by omega)]; rfl
    · rw [if_neg hk, h2 k]
      by_cases hk2 : k < n
      · rw [if_pos hk2, if_pos (show k < n + 1 by omega)]
      · rw [if_neg hk2, if_neg (show ¬ k < n + 1 by omega)]

theorem xorBytes_getElem? : ∀ (T U : Bytes) (k : Nat), k < T.length → k < U.length →
    (xorBytes T U)[k]? = some (T.getD k 0 ^^^ U.getD k 0)
  | [], _, _, h, _ => by simp at h
  | _ :: _, [], _, _, h => by simp at h
  | t :: T, u :: U, 0, _, _ => by simp [xorBytes]
  | t :: T, u :: U, k + 1, h1, h2 => by
    simp only [xorBytes, List.getElem?_cons_succ, List.getD_cons_succ]
    exact xorBytes_getElem? T U k (by simpa using h1) (by simpa using h2)

theorem xorBytes_length : ∀ (T U : Bytes), T.length = U.length → (xorBytes T U).length = T.length
  | [], [], _ => rfl
  | [], _ :: _, h => by simp at h
  | _ :: _, [], h => by simp at h
  | t :: T, u :: U, h => by simp only [xorBytes, List.length_cons]; rw [xorBytes_length T U (by simpa using h)]

theorem xor32_eq (T U : Bytes) (hT : T.length = 32) (hU : U.length = 32) : xor32 T U = xorBytes T U := by
  obtain ⟨h1, h2⟩ := xor32_aux U 32 T
  apply List.ext_getElem?
  intro k
  unfold xor32
  rw [h2 k]
  by_cases hk : k < 32
  · rw [if_pos hk, xorBytes_getElem? T U k (by omega) (by omega), List.getElem?_eq_getElem (by omega)]
    simp [List.getD_eq_getElem?_getD, List.getElem?_eq_getElem (show k < T.length by omega)]
  · rw [if_neg hk, List.getElem?_eq_none (by omega), List.getElem?_eq_none (by rw [xorBytes_length T U (by omega)]; omega)]

theorem inner_spec {σ : Type} (H : HashOps σ) (mac : Bytes → Bytes → Bytes) (pw : Bytes) (c : UInt64)
    (m1 : ∀ U, hmacFinal H (hmacUpdate H (hmacInit H pw) U) = mac pw U) (hlen : ∀ k m, (mac k m).length = 32)
    (hc : c.toNat < 2 ^ 64 - 1) : ∀ (cnt fuel : Nat) (j : UInt64) (U T : Bytes),
    j.toNat + cnt = c.toNat + 1 → cnt ≤ fuel → U.length = 32 → T.length = 32 →
    (pbkdf2_inner H pw c fuel j (U, T)).2 = Scrypt.pbkdf2F.go mac pw cnt U T
  | 0, fuel, j, U, T, hj, _, _, _ => by
    cases fuel with
    | zero => rfl
    | succ f =>
      rw [pbkdf2_inner, if_neg (by rw [UInt64.le_iff_toNat_le]; omega)]; rfl
  | cnt + 1, fuel, j, U, T, hj, hf, hU, hT => by
    cases fuel with
    | zero => omega
    | succ f =>
      rw [pbkdf2_inner, if_pos (by rw [UInt64.le_iff_toNat_le]; omega)]
      simp only [m1]
      rw [Scrypt.pbkdf2F.go, xor32_eq T _ hT (hlen _ _)]
      have hj1 : (j + 1).toNat = j.toNat + 1 := by
        rw [UInt64.toNat_add]; simp only [UInt64.toNat_ofNat, Nat.reducePow, Nat.reduceMod]; omega
      exact inner_spec H mac pw c m1 hlen hc cnt f (j + 1) _ _ (by omega) (by omega) (hlen _ _)
        (by rw [xorBytes_length _ _ (by rw [hT, hlen])]; exact hT)

theorem inner_spec' {σ : Type} (H : HashOps σ) (mac : Bytes → Bytes → Bytes) (pw : Bytes) (c : UInt64)
    (m1 : ∀ U, hmacFinal H (hmacUpdate H (hmacInit H pw) U) = mac pw U) (hlen : ∀ k m, (mac k m).length = 32)
    (hc : c.toNat < 2 ^ 64 - 1) (U : Bytes) (hU : U.length = 32) :
    (pbkdf2_inner H pw c c.toNat 2 (U, U)).2 = Scrypt.pbkdf2F.go mac pw (c.toNat - 1) U U := by
  by_cases h0 : c.toNat = 0
  · rw [h0]; rfl
  · exact inner_spec H mac pw c m1 hlen hc (c.toNat - 1) c.toNat 2 U U (by (show 2 + _ = _); omega) (by omega) hU hU

theorem store32_be_eq (w : UInt32) : store32_be w = toBE 4 w.toNat := by
  have : store32_be w = (CoresRef.store32_le w).reverse := rfl
  rw [this, CoresRefP.store32_le_eq_toLE]; rfl

theorem toLE4_mod (v : Nat) : toLE 4 (v % 2 ^ 32) = toLE 4 v := by
  simp only [toLE]
  have e : ∀ a b : Nat, a % 256 = b % 256 → UInt8.ofNat a = UInt8.ofNat b := by
    intro a b h
    apply UInt8.toNat_inj.mp
    simp only [UInt8.toNat_ofNat']; exact h
  rw [e (v % 2 ^ 32 % 256) (v % 256) (by omega), e (v % 2 ^ 32 / 256 % 256) (v / 256 % 256) (by omega),
    e (v % 2 ^ 32 / 256 / 256 % 256) (v / 256 / 256 % 256) (by omega),
    e (v % 2 ^ 32 / 256 / 256 / 256 % 256) (v / 256 / 256 / 256 % 256) (by omega)]

theorem memcpy8_size (buf : Array UInt8) (off : Nat) (src : Bytes) (n : UInt64) : (memcpy8 buf off src n).size = buf.size := by
  unfold memcpy8
  rw [forU64_one n _ (fun j d => d.setIfInBounds (off + j) ((fun j _ => src.getD j 0) j (d.getD (off + j) 0))) _ _ (Nat.le_refl _)
    (fun j hj s => by rw [ofNat_toNat_lt (by have := n.toNat_lt; omega)])]
  exact iter_set_size off (fun j _ => src.getD j 0) 0 _ _ _

theorem memcpy8_getD (buf : Array UInt8) (off : Nat) (src : Bytes) (n : UInt64) (u : Nat) :
    (memcpy8 buf off src n).getD u 0 =
      if off ≤ u ∧ u < off + n.toNat ∧ u < buf.size then src.getD (u - off) 0 else buf.getD u 0 := by
  unfold memcpy8
  rw [forU64_one n _ (fun j d => d.setIfInBounds (off + j) ((fun j _ => src.getD j 0) j (d.getD (off + j) 0))) _ _ (Nat.le_refl _)
    (fun j hj s => by rw [ofNat_toNat_lt (by have := n.toNat_lt; omega)])]
  rw [iter_set_getD off (fun j _ => src.getD j 0) 0]
  simp only [Nat.add_zero]

theorem go_length (mac : Bytes → Bytes → Bytes) (pw : Bytes) (hlen : ∀ k m, (mac k m).length = 32) :
    ∀ (n : Nat) (u acc : Bytes), acc.length = 32 → (Scrypt.pbkdf2F.go mac pw n u acc).length = 32
  | 0, _, _, h => h
  | n + 1, u, acc, h => by
    rw [Scrypt.pbkdf2F.go]
    exact go_length mac pw hlen n _ _ (by rw [xorBytes_length _ _ (by rw [h, hlen]), h])

theorem pbkdf2F_length (mac : Bytes → Bytes → Bytes) (pw salt : Bytes) (hlen : ∀ k m, (mac k m).length = 32) (c i : Nat) :
    (Scrypt.pbkdf2F mac pw salt c i).length = 32 := by
  unfold Scrypt.pbkdf2F
  exact go_length mac pw hlen _ _ _ (hlen _ _)

theorem outer_spec {σ : Type} (H : HashOps σ) (mac : Bytes → Bytes → Bytes) (pw salt : Bytes) (c dkLen : UInt64)
    (PS : HmacState σ)
    (m1 : ∀ U, hmacFinal H (hmacUpdate H (hmacInit H pw) U) = mac pw U)
    (m2 : ∀ iv, hmacFinal H (hmacUpdate H PS iv) = mac pw (salt ++ iv))
    (hlen : ∀ k m, (mac k m).length = 32) (hc : c.toNat < 2 ^ 64 - 1) (hD : dkLen.toNat ≤ 0x1fffffffe0) :
    ∀ (fuel : Nat) (i : UInt64) (buf : Array UInt8), 32 * i.toNat ≤ dkLen.toNat + 32 →
      (dkLen.toNat + 31) / 32 ≤ i.toNat + fuel →
      (pbkdf2_outer H PS pw c dkLen fuel i buf).size = buf.size ∧
      ∀ u, (pbkdf2_outer H PS pw c dkLen fuel i buf).getD u 0 =
        if 32 * i.toNat ≤ u ∧ u < dkLen.toNat ∧ u < buf.size then
          (Scrypt.pbkdf2F mac pw salt c.toNat (u / 32 + 1)).getD (u % 32) 0
        else buf.getD u 0
  | 0, i, buf, h1, h2 => by
    refine ⟨rfl, fun u => ?_⟩
    rw [pbkdf2_outer, if_neg (by omega)]
  | fuel + 1, i, buf, h1, h2 => by
    have hi32 : (i * 32).toNat = 32 * i.toNat := by
      rw [UInt64.toNat_mul]; simp only [UInt64.toNat_ofNat, Nat.reducePow, Nat.reduceMod]; omega
    rw [pbkdf2_outer]
    by_cases hlt : i * 32 < dkLen
    · rw [if_pos hlt]
      rw [UInt64.lt_iff_toNat_lt, hi32] at hlt
      have hi1 : (i + 1).toNat = i.toNat + 1 := by
        rw [UInt64.toNat_add]; simp only [UInt64.toNat_ofNat, Nat.reducePow, Nat.reduceMod]; omega
      have hiv : store32_be (i + 1).toUInt32 = toBE 4 (i.toNat + 1) := by
        rw [store32_be_eq, UInt64.toNat_toUInt32, hi1]
        unfold toBE; rw [toLE4_mod]
      have hT : (pbkdf2_inner H pw c c.toNat 2
          (hmacFinal H (hmacUpdate H PS (store32_be (i + 1).toUInt32)),
           hmacFinal H (hmacUpdate H PS (store32_be (i + 1).toUInt32)))).2 =
          Scrypt.pbkdf2F mac pw salt c.toNat (i.toNat + 1) := by
        rw [m2, hiv, inner_spec' H mac pw c m1 hlen hc _ (hlen _ _)]
        rfl
      simp only [hT]
      have hsub : (dkLen - i * 32).toNat = dkLen.toNat - 32 * i.toNat := by
        rw [UInt64.toNat_sub_of_le _ _ (by rw [UInt64.le_iff_toNat_le, hi32]; omega), hi32]
      have hclen : (if dkLen - i * 32 > 32 then (32 : UInt64) else dkLen - i * 32).toNat = min 32 (dkLen.toNat - 32 * i.toNat) := by
        by_cases hg : dkLen - i * 32 > 32
        · rw [if_pos hg]
          have : (32 : UInt64).toNat < (dkLen - i * 32).toNat := UInt64.lt_iff_toNat_lt.mp hg
          rw [hsub] at this
          have e32 : (32 : UInt64).toNat = 32 := rfl
          rw [e32] at this ⊢; omega
        · rw [if_neg hg]
          have : ¬ (32 : UInt64).toNat < (dkLen - i * 32).toNat := fun h => hg (UInt64.lt_iff_toNat_lt.mpr h)
          rw [hsub] at this ⊢
          have e32 : (32 : UInt64).toNat = 32 := rfl
          rw [e32] at this; omega
      obtain ⟨ih1, ih2⟩ := outer_spec H mac pw salt c dkLen PS m1 m2 hlen hc hD fuel (i + 1)
        (memcpy8 buf (i * 32).toNat (Scrypt.pbkdf2F mac pw salt c.toNat (i.toNat + 1))
          (if dkLen - i * 32 > 32 then 32 else dkLen - i * 32)) (by omega) (by omega)
      refine ⟨by rw [ih1, memcpy8_size], fun u => ?_⟩
      rw [ih2 u, memcpy8_size, memcpy8_getD, hclen, hi32, hi1]
      by_cases c1 : 32 * (i.toNat + 1) ≤ u ∧ u < dkLen.toNat ∧ u < buf.size
      · rw [if_pos c1, if_pos (by omega)]
      · rw [if_neg c1]
        by_cases c2 : 32 * i.toNat ≤ u ∧ u < 32 * i.toNat + min 32 (dkLen.toNat - 32 * i.toNat) ∧ u < buf.size
        · rw [if_pos c2, if_pos (by omega)]
          have a1 : u / 32 = i.toNat := by omega
          have a2 : u - 32 * i.toNat = u % 32 := by omega
          rw [a1, a2]
        · rw [if_neg c2, if_neg (by omega)]
    · rw [if_neg hlt]
      rw [UInt64.lt_iff_toNat_lt, hi32] at hlt
      refine ⟨rfl, fun u => ?_⟩
      rw [if_neg (by omega)]

theorem flatMap_range_length (f : Nat → Bytes) (hf : ∀ k, (f k).length = 32) : ∀ l, ((List.range l).flatMap f).length = 32 * l
  | 0 => rfl
  | l + 1 => by rw [List.range_succ, List.flatMap_append, List.length_append, flatMap_range_length f hf l]; simp [hf]; omega

theorem flatMap_range_getD (f : Nat → Bytes) (hf : ∀ k, (f k).length = 32) : ∀ l u, u < 32 * l →
    ((List.range l).flatMap f).getD u 0 = (f (u / 32)).getD (u % 32) 0
  | 0, u, h => by omega
  | l + 1, u, h => by
    rw [List.range_succ, List.flatMap_append]
    simp only [List.getD_eq_getElem?_getD, List.getElem?_append, flatMap_range_length f hf l]
    by_cases h1 : u < 32 * l
    · rw [if_pos h1]
      have := flatMap_range_getD f hf l u h1
      simpa [List.getD_eq_getElem?_getD] using this
    · rw [if_neg h1]
      have e1 : u / 32 = l := by omega
      have e2 : u - 32 * l = u % 32 := by omega
      rw [e1, e2]; simp

theorem list_eq_of_getD {a b : Bytes} (hl : a.length = b.length) (h : ∀ u, u < a.length → a.getD u 0 = b.getD u 0) : a = b := by
  apply List.ext_getElem hl
  intro i h1 h2
  have := h i h1
  simpa [List.getD_eq_getElem?_getD, List.getElem?_eq_getElem h1, List.getElem?_eq_getElem h2] using this

theorem pbkdf2_spec {σ : Type} (H : HashOps σ) (mac : Bytes → Bytes → Bytes) (pw salt : Bytes) (c dkLen : UInt64)
    (buf : Array UInt8)
    (m1 : ∀ U, hmacFinal H (hmacUpdate H (hmacInit H pw) U) = mac pw U)
    (m2 : ∀ iv, hmacFinal H (hmacUpdate H (hmacUpdate H (hmacInit H pw) salt) iv) = mac pw (salt ++ iv))
    (hlen : ∀ k m, (mac k m).length = 32) (hc : c.toNat < 2 ^ 64 - 1) (hbuf : buf.size = dkLen.toNat) :
    escrypt_PBKDF2_SHA256 H pw salt c buf dkLen =
      if dkLen > 0x1fffffffe0 then none
      else some (Scrypt.pbkdf2HmacSha256 mac pw salt c.toNat dkLen.toNat).toArray := by
  unfold escrypt_PBKDF2_SHA256
  by_cases hD : dkLen > 0x1fffffffe0
  · rw [if_pos hD, if_pos hD]
  · rw [if_neg hD, if_neg hD]
    have hD' : dkLen.toNat ≤ 0x1fffffffe0 := by
      have : ¬ (0x1fffffffe0 : UInt64).toNat < dkLen.toNat := fun h => hD (UInt64.lt_iff_toNat_lt.mpr h)
      have e : (0x1fffffffe0 : UInt64).toNat = 0x1fffffffe0 := rfl
      rw [e] at this; omega
    simp only []
    obtain ⟨s1, s2⟩ := outer_spec H mac pw salt c dkLen _ m1 m2 hlen hc hD' (dkLen.toNat / 32 + 1) 0 buf
      (by (show 32 * 0 ≤ _); omega) (by (show _ ≤ 0 + _); omega)
    congr 1
    apply Array.ext'
    have hF := fun k => pbkdf2F_length mac pw salt hlen c.toNat (k + 1)
    have hlS : (Scrypt.pbkdf2HmacSha256 mac pw salt c.toNat dkLen.toNat).length = dkLen.toNat := by
      unfold Scrypt.pbkdf2HmacSha256
      simp only [List.length_take, flatMap_range_length _ hF]; omega
    apply list_eq_of_getD
    · rw [Array.length_toList, s1, hbuf, hlS]
    · intro u hu
      rw [Array.length_toList, s1, hbuf] at hu
      have := s2 u
      rw [if_pos ⟨by (show 32 * 0 ≤ u); omega, hu, by omega⟩] at this
      have e1 : (pbkdf2_outer H (hmacUpdate H (hmacInit H pw) salt) pw c dkLen (dkLen.toNat / 32 + 1) 0 buf).toList.getD u 0 =
          (pbkdf2_outer H (hmacUpdate H (hmacInit H pw) salt) pw c dkLen (dkLen.toNat / 32 + 1) 0 buf).getD u 0 := by
        simp [List.getD_eq_getElem?_getD, Array.getD_eq_getD_getElem?]
      rw [e1, this]
      unfold Scrypt.pbkdf2HmacSha256
      simp only [List.getD_eq_getElem?_getD, List.getElem?_take, if_pos hu]
      have := flatMap_range_getD (fun k => Scrypt.pbkdf2F mac pw salt c.toNat (k + 1)) hF ((dkLen.toNat + 31) / 32) u (by omega)
      simpa [List.getD_eq_getElem?_getD] using this.symm

/-- `N & (N - 1) == 0` with `N ≥ 1` means `N` is a power of two -/
theorem pow2_of_and_pred : ∀ (N : Nat), 1 ≤ N → N &&& (N - 1) = 0 → ∃ n, N = 2 ^ n := by
  intro N
  induction N using Nat.strongRecOn with
  | _ N ih =>
    intro h1 h
    by_cases hN1 : N = 1
    · exact ⟨0, by rw [hN1]⟩
    by_cases hodd : N % 2 = 1
    · -- N odd ≥ 3: bit 0 of N and bit ≥1 shared with N-1
      exfalso
      have h2 : (N &&& (N - 1)) / 2 = N / 2 &&& (N - 1) / 2 := Nat.and_div_two_pow (n := 1) ..
      rw [h] at h2
      have e : (N - 1) / 2 = N / 2 := by omega
      rw [e, Nat.and_self] at h2
      omega
    · have hev : N % 2 = 0 := by omega
      have h2 : (N &&& (N - 1)) / 2 = N / 2 &&& (N - 1) / 2 := Nat.and_div_two_pow (n := 1) ..
      rw [h] at h2
      have e : (N - 1) / 2 = N / 2 - 1 := by omega
      rw [e] at h2
      obtain ⟨n, hn⟩ := ih (N / 2) (by omega) (by omega) h2.symm
      exact ⟨n + 1, by rw [Nat.pow_succ, ← hn]; omega⟩

/-- the six parameter tests of `escrypt_kdf_nosse` all pass (C types, as in the model) -/
def KdfChecksPass (N : UInt64) (r p : UInt32) (buflen : UInt64) : Prop :=
  ¬ buflen > (((1 : UInt64) <<< 32) - 1) * 32 ∧ ¬ r.toUInt64 * p.toUInt64 ≥ (1 : UInt64) <<< 30 ∧ ¬ N > 0xffffffff ∧
  ¬ ((N &&& (N - 1)) ≠ 0 ∨ N < 2) ∧ ¬ (r.toUInt64 = 0 ∨ p.toUInt64 = 0) ∧
  ¬ (r.toUInt64 > 0xffffffffffffffff / 128 / p.toUInt64 ∨ N > 0xffffffffffffffff / 128 / r.toUInt64)

theorem kdf_guards_aux (N : UInt64) (r p : UInt32) (buflen : UInt64) (h : KdfChecksPass N r p buflen) :
    buflen.toNat ≤ 0x1fffffffe0 ∧ 1 ≤ r.toNat ∧ 1 ≤ p.toNat ∧ r.toNat * p.toNat < 2 ^ 30 ∧
    (∃ n, N.toNat = 2 ^ n ∧ 1 ≤ n ∧ n ≤ 31) ∧
    128 * r.toNat * p.toNat < 2 ^ 64 ∧ 128 * r.toNat * N.toNat < 2 ^ 64 := by
  obtain ⟨h1, h2, h3, h4, h5, h6⟩ := h
  have hr := r.toNat_lt
  have hp := p.toNat_lt
  have e1 : (((1 : UInt64) <<< 32) - 1) * 32 = (0x1fffffffe0 : UInt64) := by decide
  have e2 : ((1 : UInt64) <<< 30) = (0x40000000 : UInt64) := by decide
  rw [e1] at h1
  rw [e2] at h2
  have hrp : r.toNat * p.toNat < 2 ^ 64 := by
    have : r.toNat * p.toNat ≤ (2 ^ 32 - 1) * (2 ^ 32 - 1) := Nat.mul_le_mul (by omega) (by omega)
    omega
  have hmul : (r.toUInt64 * p.toUInt64).toNat = r.toNat * p.toNat := by
    rw [UInt64.toNat_mul, UInt32.toNat_toUInt64, UInt32.toNat_toUInt64]; exact Nat.mod_eq_of_lt hrp
  have g1 : buflen.toNat ≤ 0x1fffffffe0 := by
    have : ¬ (0x1fffffffe0 : UInt64).toNat < buflen.toNat := fun hh => h1 (UInt64.lt_iff_toNat_lt.mpr hh)
    have e : (0x1fffffffe0 : UInt64).toNat = 0x1fffffffe0 := rfl
    rw [e] at this; omega
  have g2 : r.toNat * p.toNat < 2 ^ 30 := by
    have : ¬ (0x40000000 : UInt64).toNat ≤ (r.toUInt64 * p.toUInt64).toNat := fun hh => h2 (UInt64.le_iff_toNat_le.mpr hh)
    have e : (0x40000000 : UInt64).toNat = 0x40000000 := rfl
    rw [e, hmul] at this; omega
  have g3 : N.toNat ≤ 0xffffffff := by
    have : ¬ (0xffffffff : UInt64).toNat < N.toNat := fun hh => h3 (UInt64.lt_iff_toNat_lt.mpr hh)
    have e : (0xffffffff : UInt64).toNat = 0xffffffff := rfl
    rw [e] at this; omega
  have g4a : 2 ≤ N.toNat := by
    have : ¬ N.toNat < (2 : UInt64).toNat := fun hh => h4 (Or.inr (UInt64.lt_iff_toNat_lt.mpr hh))
    have e : (2 : UInt64).toNat = 2 := rfl
    rw [e] at this; omega
  have g4b : N.toNat &&& (N.toNat - 1) = 0 := by
    have : (N &&& (N - 1)) = 0 := Classical.not_not.mp (fun hh => h4 (Or.inl hh))
    have := congrArg UInt64.toNat this
    rw [UInt64.toNat_and, UInt64.toNat_sub_of_le _ _ (by rw [UInt64.le_iff_toNat_le]; (show 1 ≤ N.toNat); omega)] at this
    exact this
  have g5r : 1 ≤ r.toNat := by
    have : ¬ r.toUInt64 = 0 := fun hh => h5 (Or.inl hh)
    have : r.toUInt64.toNat ≠ 0 := fun hh => this (UInt64.toNat_inj.mp hh)
    rw [UInt32.toNat_toUInt64] at this; omega
  have g5p : 1 ≤ p.toNat := by
    have : ¬ p.toUInt64 = 0 := fun hh => h5 (Or.inr hh)
    have : p.toUInt64.toNat ≠ 0 := fun hh => this (UInt64.toNat_inj.mp hh)
    rw [UInt32.toNat_toUInt64] at this; omega
  have emax : (0xffffffffffffffff : UInt64).toNat = 2 ^ 64 - 1 := rfl
  have e128 : (128 : UInt64).toNat = 128 := rfl
  have g6a : r.toNat ≤ (2 ^ 64 - 1) / 128 / p.toNat := by
    have : ¬ (0xffffffffffffffff / 128 / p.toUInt64 : UInt64).toNat < r.toUInt64.toNat :=
      fun hh => h6 (Or.inl (UInt64.lt_iff_toNat_lt.mpr hh))
    rw [UInt64.toNat_div, UInt64.toNat_div, emax, e128, UInt32.toNat_toUInt64, UInt32.toNat_toUInt64] at this
    omega
  have g6b : N.toNat ≤ (2 ^ 64 - 1) / 128 / r.toNat := by
    have : ¬ (0xffffffffffffffff / 128 / r.toUInt64 : UInt64).toNat < N.toNat :=
      fun hh => h6 (Or.inr (UInt64.lt_iff_toNat_lt.mpr hh))
    rw [UInt64.toNat_div, UInt64.toNat_div, emax, e128, UInt32.toNat_toUInt64] at this
    omega
  have k1 : r.toNat * p.toNat ≤ (2 ^ 64 - 1) / 128 := (Nat.le_div_iff_mul_le (by omega)).mp g6a
  have k2 : N.toNat * r.toNat ≤ (2 ^ 64 - 1) / 128 := (Nat.le_div_iff_mul_le (by omega)).mp g6b
  obtain ⟨n, hn⟩ := pow2_of_and_pred N.toNat (by omega) g4b
  refine ⟨g1, g5r, g5p, g2, ⟨n, hn, ?_, ?_⟩, ?_, ?_⟩
  · cases n with
    | zero => rw [hn] at g4a; simp at g4a
    | succ n => omega
  · have : ¬ 32 ≤ n := by
      intro h32
      have : 2 ^ 32 ≤ 2 ^ n := Nat.pow_le_pow_right (by decide) h32
      omega
    omega
  · rw [Nat.mul_assoc]; omega
  · rw [Nat.mul_assoc, Nat.mul_comm r.toNat]; omega

end Sodium.ScryptRefP
