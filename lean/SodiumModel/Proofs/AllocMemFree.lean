import SodiumModel.Proofs.AllocMemOps
import SodiumModel.Properties.C14
/-
  Helper lemmas for C17Mem, part 4: `sodium_malloc` (fill), the protection calls, `sodium_free`.
  Namespace Sodium.AllocMemP.
-/
open Sodium Sodium.Model Sodium.Model.AllocMem
open Sodium.Model.Alloc (pageRound)
namespace Sodium.AllocMemP

/-- `sodium_malloc` on an accepted request with a successful mmap -/
theorem malloc_ok (s : State) (base size : UInt64) (g : Geo s base size) :
    ∃ s', sodium_malloc s (some base) size = .ok (s', userPtr s.pageSize base size) ∧
      Live s' base size .rw ∧ s'.pageSize = s.pageSize ∧ s'.canary = s.canary ∧ s'.errno = s.errno ∧
      s'.log = s.log ++ [.mmap (T s.pageSize size) base,
        .mprotect (base + s.pageSize) s.pageSize .none,
        .mprotect (base + s.pageSize * 2 + R s.pageSize size) s.pageSize .none,
        .mlock (base + s.pageSize * 2) (R s.pageSize size),
        .mprotect base s.pageSize .ro] ∧
      (∀ x, ¬ (base.toNat ≤ x ∧ x < base.toNat + 3 * s.pageSize.toNat + (R s.pageSize size).toNat) →
        permA s' x = permA s x) ∧
      (∀ x, s'.byte x =
        if (userPtr s.pageSize base size).toNat ≤ x ∧ x < (userPtr s.pageSize base size).toNat + size.toNat
          then 0xdb
        else if base.toNat ≤ x ∧ x < base.toNat + 8
          then (toLE 8 (R s.pageSize size).toNat).getD (x - base.toNat) 0
        else if (canPtr s.pageSize base size).toNat ≤ x ∧ x < (canPtr s.pageSize base size).toNat + 16
          then s.canary.getD (x - (canPtr s.pageSize base size).toNat) 0
        else s.byte x) := by
  obtain ⟨s1, hm, live, e1, c1, er1, l1, po1, by1⟩ := _malloc_ok s base size g
  obtain ⟨⟨k, hk5, hk30, hpg⟩, hcan, hb, hal, hpos, hfit⟩ := g
  obtain ⟨hlo, hhi, r0, r1, r2, h2, h3, h4, h5, h6, h7, h8, h9⟩ :=
    geo_facts s.pageSize size base k hk5 hk30 hpg hb hfit
  have hu0 : userPtr s.pageSize base size ≠ 0 := by
    intro h
    have : (userPtr s.pageSize base size).toNat = 0 := by rw [h]; rfl
    omega
  unfold sodium_malloc
  rw [hm]
  simp only [hu0, if_false]
  unfold memset
  rw [storeBytes_ok _ s1 _ (fun x hx1 hx2 => by
      rw [List.length_replicate] at hx2
      exact live.usr x (by rw [e1]; omega) (by rw [e1]; omega))
    (by rw [List.length_replicate]; omega)]
  simp only
  refine ⟨_, rfl, ⟨?_, ?_, ?_, ?_, ?_, ?_, by decide⟩, e1, c1, er1, l1, ?_, ?_⟩
  · exact live.geo.congr rfl rfl
  · exact live.hdr
  · exact live.g1
  · exact live.usr
  · exact live.g2
  · rw [← live.hsz]
    apply readBytes_congr
    intro x hx1 hx2
    show (writeBytes _ _ _).getD x 0 = _
    rw [getD_writeBytes, List.length_replicate, if_neg (by omega)]
    rfl
  · exact po1
  · intro x
    show (writeBytes _ _ _).getD x 0 = _
    rw [getD_writeBytes, List.length_replicate]
    by_cases c : (userPtr s.pageSize base size).toNat ≤ x ∧ x < (userPtr s.pageSize base size).toNat + size.toNat
    · rw [if_pos c, if_pos c, getD_replicate _ _ _ (by omega)]; rfl
    · rw [if_neg c, if_neg c]; exact by1 x

/-- the header read of `sodium_free` / `_sodium_mprotect` -/
theorem loadSize_live (s : State) (base size : UInt64) (q : Perm) (L : Live s base size q) :
    loadSize s base = .ok (R s.pageSize size) := by
  obtain ⟨⟨k, hk5, hk30, hpg⟩, hcan, hb, hal, hpos, hfit⟩ := L.geo
  obtain ⟨hlo, hhi, -⟩ := geo_facts s.pageSize size base k hk5 hk30 hpg hb hfit
  unfold loadSize
  rw [loadBytes_ok 8 s base (fun x hx1 hx2 => Or.inl (L.hdr x hx1 (by omega))) (by omega)]
  simp only
  rw [L.hsz, le_toLE, Nat.mod_eq_of_lt (by have := (R s.pageSize size).toNat_lt; omega)]
  simp

/-- one protection call on a live allocation -/
theorem mprotect_live (s : State) (base size : UInt64) (q p : Perm) (L : Live s base size q)
    (hp : p ≠ .unmapped) :
    ∃ s', _sodium_mprotect s (userPtr s.pageSize base size) p = .ok (s', 0) ∧ Live s' base size p ∧
      s'.data = s.data ∧ s'.pageSize = s.pageSize ∧ s'.canary = s.canary ∧ s'.errno = s.errno ∧
      s'.log = s.log ++ [.mprotect (base + s.pageSize * 2) (R s.pageSize size) p] ∧
      (∀ x, ¬ (base.toNat + 2 * s.pageSize.toNat ≤ x ∧
               x < base.toNat + 2 * s.pageSize.toNat + (R s.pageSize size).toNat) → permA s' x = permA s x) := by
  obtain ⟨⟨k, hk5, hk30, hpg⟩, hcan, hb, hal, hpos, hfit⟩ := L.geo
  obtain ⟨hlo, hhi, r0, r1, r2, h2, h3, h4, h5, h6, h7, h8, h9⟩ :=
    geo_facts s.pageSize size base k hk5 hk30 hpg hb hfit
  have hP : 0 < s.pageSize.toNat := by omega
  unfold _sodium_mprotect
  rw [unprot_from_user s size base k hk5 hk30 hpg hb hfit hal hpos]
  simp only
  rw [sub_add_id, loadSize_live s base size q L]
  simp only
  have f := mprotect_frame s (base + s.pageSize * 2) (R s.pageSize size) p
  have pp := mprotect_ok' s s.pageSize rfl (base + s.pageSize * 2) (R s.pageSize size) p hP
    (by rw [h5]; exact Nat.dvd_add hal (Nat.dvd_mul_left _ _)) r0
    (fun x hx1 hx2 => by rw [L.usr x (by omega) (by omega)]; exact L.qok)
  generalize sys_mprotect s (base + s.pageSize * 2) (R s.pageSize size) p = r at f pp
  obtain ⟨s', rc⟩ := r
  simp only at f pp
  obtain ⟨hrc, pp⟩ := pp
  subst hrc
  obtain ⟨fd, fp, fc, fe, fl⟩ := f
  rw [h5] at pp
  refine ⟨s', rfl, ⟨?_, ?_, ?_, ?_, ?_, ?_, hp⟩, fd, fp, fc, fe, fl, ?_⟩
  · exact L.geo.congr fp fc
  · intro x hx1 hx2; rw [fp] at hx2; rw [pp x, if_neg (by omega)]; exact L.hdr x hx1 hx2
  · intro x hx1 hx2; rw [fp] at hx1 hx2; rw [pp x, if_neg (by omega)]; exact L.g1 x hx1 hx2
  · intro x hx1 hx2; rw [fp] at hx1 hx2; rw [pp x, if_pos ⟨hx1, hx2⟩]
  · intro x hx1 hx2; rw [fp] at hx1 hx2; rw [pp x, if_neg (by omega)]; exact L.g2 x hx1 hx2
  · rw [fp, ← L.hsz]
    apply readBytes_congr
    intro x _ _
    unfold State.byte; rw [fd]
  · intro x hx; rw [pp x, if_neg hx]

/-- `sodium_free` on a live allocation, whatever the protection of its user pages -/
theorem free_live (s : State) (base size : UInt64) (q : Perm) (L : Live s base size q) :
    (readBytes s (canPtr s.pageSize base size).toNat 16 ≠ s.canary →
      sodium_free s (userPtr s.pageSize base size) = .error .abort) ∧
    (readBytes s (canPtr s.pageSize base size).toNat 16 = s.canary →
      ∃ s', sodium_free s (userPtr s.pageSize base size) = .ok s' ∧
        (∀ x, permA s' x =
          if base.toNat ≤ x ∧ x < base.toNat + 3 * s.pageSize.toNat + (R s.pageSize size).toNat
          then .unmapped else permA s x) ∧
        (∀ x, s'.byte x =
          if base.toNat + 2 * s.pageSize.toNat ≤ x ∧
             x < base.toNat + 2 * s.pageSize.toNat + (R s.pageSize size).toNat then 0 else s.byte x) ∧
        s'.pageSize = s.pageSize ∧ s'.canary = s.canary ∧ s'.errno = s.errno ∧
        s'.log = s.log ++ [.mprotect base (T s.pageSize size) .rw,
          .munlock (base + s.pageSize * 2) (R s.pageSize size), .munmap base (T s.pageSize size)]) := by
  obtain ⟨⟨k, hk5, hk30, hpg⟩, hcan, hb, hal, hpos, hfit⟩ := L.geo
  obtain ⟨hlo, hhi, r0, r1, r2, h2, h3, h4, h5, h6, h7, h8, h9⟩ :=
    geo_facts s.pageSize size base k hk5 hk30 hpg hb hfit
  have hP : 0 < s.pageSize.toNat := by omega
  have hcp : (canPtr s.pageSize base size).toNat =
      base.toNat + 2 * s.pageSize.toNat + (R s.pageSize size).toNat - 16 - size.toNat := h7
  have hT : (T s.pageSize size).toNat = 3 * s.pageSize.toNat + (R s.pageSize size).toNat := h3
  have hTd : s.pageSize.toNat ∣ (T s.pageSize size).toNat := by
    rw [hT]; exact Nat.dvd_add (Nat.dvd_mul_left _ _) r0
  have hu0 : userPtr s.pageSize base size ≠ 0 := by
    intro h
    have : (userPtr s.pageSize base size).toNat = 0 := by rw [h]; rfl
    omega
  -- the first system call: the whole mapping becomes read-write
  have f1 := mprotect_frame s base (T s.pageSize size) .rw
  have p1 := (mprotect_ok' s s.pageSize rfl base (T s.pageSize size) .rw hP hal hTd
    (fun x hx1 hx2 => by
      rw [hT] at hx2
      by_cases c1 : x < base.toNat + s.pageSize.toNat
      · rw [L.hdr x hx1 c1]; decide
      · by_cases c2 : x < base.toNat + 2 * s.pageSize.toNat
        · rw [L.g1 x (by omega) c2]; decide
        · by_cases c3 : x < base.toNat + 2 * s.pageSize.toNat + (R s.pageSize size).toNat
          · rw [L.usr x (by omega) c3]; exact L.qok
          · rw [L.g2 x (by omega) (by omega)]; decide)).2
  have hfree : sodium_free s (userPtr s.pageSize base size) =
      (let s1 := (sys_mprotect s base (T s.pageSize size) .rw).1
       match loadBytes s1 (userPtr s.pageSize base size - 16) 16 with
       | .error e => .error e
       | .ok cb =>
       if sodium_memcmp cb (s1.canary.take 16) ≠ 0 then .error .abort else
       match sodium_munlock s1 (base + s.pageSize * 2) (R s.pageSize size) with
       | .error e => .error e
       | .ok r => .ok (_free_aligned r.1 base (T s.pageSize size))) := by
    unfold sodium_free
    rw [if_neg hu0]
    simp only
    rw [unprot_from_user s size base k hk5 hk30 hpg hb hfit hal hpos]
    simp only
    rw [sub_add_id, loadSize_live s base size q L]
    rfl
  rw [hfree]
  generalize sys_mprotect s base (T s.pageSize size) .rw = r1 at f1 p1
  obtain ⟨s1, rc1⟩ := r1
  simp only at f1 p1 ⊢
  obtain ⟨fd, fp, fc, fe, fl⟩ := f1
  rw [hT] at p1
  have hs1 : ∀ x, s1.byte x = s.byte x := by intro x; unfold State.byte; rw [fd]
  rw [loadBytes_ok 16 s1 _ (fun x hx1 hx2 => by
      rw [h9] at hx1 hx2
      rw [p1 x, if_pos (by omega)]; exact Or.inr rfl) (by rw [h9]; omega)]
  simp only
  rw [h9, ← hcp, readBytes_congr s s1 _ 16 (fun x _ _ => hs1 x), fc, List.take_of_length_le (by omega),
    Sodium.C14.memcmp_exact _ _ (by rw [readBytes_length, hcan])]
  constructor
  · intro hne
    rw [if_neg hne]; simp
  · intro heq
    rw [if_pos heq]
    simp only [ne_eq, not_true_eq_false, if_false]
    unfold sodium_munlock sodium_memzero
    rw [storeBytes_ok _ s1 _ (fun x hx1 hx2 => by
        rw [List.length_replicate, h5] at hx2; rw [h5] at hx1
        rw [p1 x, if_pos (by omega)])
      (by rw [List.length_replicate, h5]; omega)]
    simp only
    unfold _free_aligned
    generalize hs2 : ({ s1 with
      data := writeBytes s1.data (base + s.pageSize * 2).toNat (List.replicate (R s.pageSize size).toNat 0),
      log := s1.log ++ [Call.munlock (base + s.pageSize * 2) (R s.pageSize size)] } : State) = s2
    have e2 : s2.pageSize = s.pageSize := by rw [← hs2]; exact fp
    have p2 : ∀ x, permA s2 x = permA s1 x := by intro x; rw [← hs2]; simp only [permA, State.perm]
    have f3 := munmap_frame s2 base (T s.pageSize size)
    have p3 := munmap_ok s2 base (T s.pageSize size) (by rw [e2]; exact hP) (by rw [e2]; exact hal)
      (by rw [e2]; exact hTd)
    rw [hT] at p3
    refine ⟨_, rfl, ?_, ?_, ?_, ?_, ?_, ?_⟩
    · intro x
      rw [p3 x]
      by_cases c : base.toNat ≤ x ∧ x < base.toNat + (3 * s.pageSize.toNat + (R s.pageSize size).toNat)
      · rw [if_pos c, if_pos (by omega)]
      · rw [if_neg c, if_neg (by omega), p2 x, p1 x, if_neg (by omega)]
    · intro x
      unfold State.byte
      rw [f3.1, ← hs2]
      simp only
      rw [getD_writeBytes, List.length_replicate, h5, fd]
      by_cases c : base.toNat + 2 * s.pageSize.toNat ≤ x ∧
             x < base.toNat + 2 * s.pageSize.toNat + (R s.pageSize size).toNat
      · rw [if_pos c, if_pos c, getD_replicate _ _ _ (by omega)]
      · rw [if_neg c, if_neg c]
    · exact f3.2.1.trans e2
    · rw [f3.2.2.1, ← hs2]; exact fc
    · rw [f3.2.2.2.1, ← hs2]; exact fe
    · rw [f3.2.2.2.2, ← hs2]
      simp only
      rw [fl]; simp

end Sodium.AllocMemP
