import SodiumModel.Model.Limits
import SodiumModel.Proofs.Hash
/-
  Helper lemmas for C12: association-list lookup in the limits table, and the buffer-length parts of the
  streaming invariants of Proofs/Hash.lean.
-/
open Sodium Sodium.Model Sodium.Model.Limits
namespace Sodium.LimitsP

/-- in a list with distinct keys every member is what `lookup` finds under its key -/
theorem lookup_of_mem {α : Type} : ∀ (l : List (String × α)), (l.map (·.1)).Nodup → ∀ e ∈ l, l.lookup e.1 = some e.2
  | [], _, e, he => by cases he
  | (k, v) :: rest, hnd, e, he => by
    rw [List.map_cons, List.nodup_cons] at hnd
    rcases List.mem_cons.mp he with h | h
    · subst h; simp [List.lookup]
    · have hne : (e.1 == k) = false := by
        apply beq_false_of_ne
        intro hk
        have hm : e.1 ∈ rest.map (·.1) := List.mem_map_of_mem (f := (·.1)) h
        rw [hk] at hm
        exact hnd.1 hm
      rw [List.lookup_cons, hne]
      exact lookup_of_mem rest hnd.2 e h

theorem refusal_eq (api : String) (l : Limit) (h : limits.lookup api = some l) (n : Nat) :
    refusal api n = if n < l.lo then some l.below else if n > l.hi then some l.above else none := by
  unfold refusal; rw [h]

theorem refuses_below (api : String) (l : Limit) (h : limits.lookup api = some l) (n : Nat) (hn : n < l.lo) :
    refusal api n = some l.below := by
  rw [refusal_eq api l h, if_pos hn]

theorem refuses_above (api : String) (l : Limit) (h : limits.lookup api = some l) (n : Nat) (hlo : l.lo ≤ n) (hn : l.hi < n) :
    refusal api n = some l.above := by
  rw [refusal_eq api l h, if_neg (by omega), if_pos hn]

theorem accepts (api : String) (l : Limit) (h : limits.lookup api = some l) (n : Nat) (hlo : l.lo ≤ n) (hhi : n ≤ l.hi) :
    refusal api n = none := by
  rw [refusal_eq api l h, if_neg (by omega), if_neg (by omega)]

/-- `refusal = none` exactly on `[lo, hi]` -/
theorem accepts_iff (api : String) (l : Limit) (h : limits.lookup api = some l) (n : Nat) :
    refusal api n = none ↔ (l.lo ≤ n ∧ n ≤ l.hi) := by
  rw [refusal_eq api l h]
  by_cases h1 : n < l.lo
  · rw [if_pos h1]
    constructor
    · intro h; cases h
    · intro h; omega
  · by_cases h2 : n > l.hi
    · rw [if_neg h1, if_pos h2]
      constructor
      · intro h; cases h
      · intro h; omega
    · rw [if_neg h1, if_neg h2]
      constructor
      · intro _; omega
      · intro _; rfl

/-! ### buffer lengths of the streaming states -/

theorem md_buf_lt {σ : Type} (C : σ → Bytes → σ) (W cbits q : Nat) (hW : 0 < W) (hd : 2 ^ cbits = 8 * (W * q)) (iv : σ)
    (chunks : List Bytes) :
    (chunks.foldl (mdUpdate C W cbits) (mdInit iv)).buf.length < W ∧
      ((chunks.foldl (mdUpdate C W cbits) (mdInit iv)).count / 8) % W = (chunks.foldl (mdUpdate C W cbits) (mdInit iv)).buf.length := by
  have h := mdFold_inv C W cbits hW iv chunks (mdInit iv) [] (mdInit_inv C W cbits hW iv) (fun n _ => countOk_of_dvd hd n)
  have hr := (h.rem (countOk_of_dvd hd _)).1
  obtain ⟨_, _, _, hlt, _, _⟩ := h
  exact ⟨hlt, hr⟩

theorem b2_buf_le {σ : Type} (F : σ → Bytes → Nat → Bool → σ) (paramInit : Nat → Nat → Bytes → Bytes → σ)
    (outlen : Nat) (key salt personal : Bytes) (hk : key.length ≤ 128) (cs : List Bytes) :
    (cs.foldl (fun s c => b2Update F (c.length + 1) s c) (b2Init F paramInit outlen key salt personal)).buf.length ≤ 256 := by
  have h := b2Fold_inv F _ cs _ _ (b2Init_inv F paramInit outlen key salt personal hk)
  obtain ⟨_, _, _, hle, _⟩ := h
  exact hle

theorem poly_buf_lt {σ : Type} (blk : σ → Bytes → Bool → σ) (st0 : σ) (cs : List Bytes) :
    (cs.foldl (polyUpdate blk) ⟨st0, []⟩).buffer.length < 16 := by
  have h0 : PolyInv blk st0 (⟨st0, []⟩ : PolyState σ) [] := ⟨[], AllLen.nil 16, rfl, by simp, rfl⟩
  have h := polyFold_inv blk st0 cs _ _ h0
  obtain ⟨_, _, _, hlt, _⟩ := h
  exact hlt

end Sodium.LimitsP
