import SodiumModel.Proofs.GcmAesniGhash
/-
  The aggregated (deferred-reduction) GHASH of the C file with the precomputed powers `hx[]` equals the
  sequential GHASH (`ghFold`): Horner regrouping  Σ X_i·H^(n−i).
-/
open Polynomial
namespace Sodium.GcmAesniP.GF
open Sodium Sodium.Model.GcmAesni Sodium.Spec Sodium.Spec.Gcm Sodium.GcmAesniP

/-- θ = η·x^(-127): multiplication by θ is the specification's "• H" -/
noncomputable def theta (h0 : BlockVec) : K := kap h0.toNat * u ^ 127

theorem kap_XOR128 (a b : BlockVec) : kap (XOR128 a b).toNat = kap a.toNat + kap b.toNat := by
  rw [XOR128_toNat, kap_xor]

theorem kap_ghB (h0 acc : BlockVec) (blk : Bytes) :
    kap (ghB h0 acc blk).toNat = (kap acc.toNat + kap (REV128 (LOAD128 blk)).toNat) * theta h0 := by
  rw [ghB, kap_mont, kap_hshift, kap_XOR128, theta]
  have : u ^ 128 = u ^ 127 * u := pow_succ u 127
  rw [this]
  linear_combination ((kap acc.toNat + kap (REV128 (LOAD128 blk)).toNat) * kap h0.toNat * u ^ 127) * x_mul_u

theorem ghFold_zero (h0 acc : BlockVec) (d : Bytes) : ghFold h0 acc d 0 = acc := rfl
theorem ghFold_succ (h0 acc : BlockVec) (d : Bytes) (n : Nat) :
    ghFold h0 acc d (n + 1) = ghB h0 (ghFold h0 acc d n) (d.drop (16 * n)) := by
  simp [ghFold, List.range_succ, List.foldl_append]

/-- the precomputed powers: `hx[j]` holds H^(j+1) in the shifted (Montgomery-like) form -/
def HxOK (st : State) (h0 : BlockVec) : Prop :=
  ∀ j, j < 14 → kap (st.hx.getD j 0).toNat = x * kap h0.toNat ^ (j + 1) * u ^ (127 * j)

theorem hx_theta {st : State} {h0 : BlockVec} (h : HxOK st h0) (j : Nat) (hj : j < 14) :
    kap (st.hx.getD j 0).toNat * u ^ 128 = theta h0 ^ (j + 1) := by
  rw [h j hj, theta, mul_pow, ← pow_mul]
  have e1 : 127 * (j + 1) = 127 * j + 127 := by ring
  have e2 : u ^ 128 = u ^ 127 * u := pow_succ u 127
  rw [e1, pow_add, e2]
  linear_combination (kap h0.toNat ^ (j + 1) * u ^ (127 * j) * u ^ 127) * x_mul_u

/-- `w` (an unreduced accumulator) stands for `F·θ^e` -/
def Acc (h0 : BlockVec) (w : I256) (F : K) (e : Nat) : Prop :=
  AdjoinRoot.mk Q (polyI w) * u ^ 128 = F * theta h0 ^ e

theorem polyI_gh_update (w : I256) (p : Bytes) (hn : BlockVec) :
    polyI (gh_update w p hn) = polyI w + phi (REV128 (LOAD128 p)).toNat * phi hn.toNat := by
  have h := polyI_clmul128 (REV128 (LOAD128 p)) hn
  unfold polyI at h ⊢
  simp only [gh_update, XOR128_toNat, phi_xor]
  rw [← h]; ring

theorem polyI_gh_update0 (acc : BlockVec) (p : Bytes) (hn : BlockVec) :
    polyI (gh_update0 acc p hn) = phi (XOR128 acc (REV128 (LOAD128 p))).toNat * phi hn.toNat := by
  rw [gh_update0, polyI_clmul128]

theorem Acc_start {st : State} {h0 : BlockVec} (h : HxOK st h0) (acc : BlockVec) (p : Bytes) (e : Nat) (he : e < 14) :
    Acc h0 (gh_update0 acc p (st.hx.getD e 0)) (kap (ghB h0 acc p).toNat) e := by
  unfold Acc
  rw [polyI_gh_update0, map_mul, kap_ghB, ← kap_XOR128]
  have := hx_theta h e he
  simp only [kap_def] at this ⊢
  rw [mul_assoc, this, pow_succ]; ring

theorem Acc_step {st : State} {h0 : BlockVec} (h : HxOK st h0) (w : I256) (a : BlockVec) (p : Bytes) (e : Nat) (he : e < 14)
    (hw : Acc h0 w (kap a.toNat) (e + 1)) :
    Acc h0 (gh_update w p (st.hx.getD e 0)) (kap (ghB h0 a p).toNat) e := by
  unfold Acc at hw ⊢
  rw [polyI_gh_update, map_add, map_mul, add_mul, hw, kap_ghB]
  have := hx_theta h e he
  simp only [kap_def] at this ⊢
  rw [mul_assoc, this, pow_succ]; ring

theorem Acc_done {h0 : BlockVec} (w : I256) (a : BlockVec) (hw : Acc h0 w (kap a.toNat) 0) : gcm_reduce w = a := by
  apply toNat_inj_of_kap
  rw [kap_reduce']
  unfold Acc at hw
  rw [hw, pow_zero, mul_one]


theorem fold1 {st : State} {h0 : BlockVec} (h : HxOK st h0) (acc : BlockVec) (p : Bytes) (top : Nat) (ht : top < 14)
    (i : Nat) (hi : i ≤ top) :
    Acc h0 ((List.range' 1 i).foldl (fun w j => gh_update w (p.drop (j * 16)) (st.hx.getD (top - j) 0))
        (gh_update0 acc p (st.hx.getD (top - 0) 0)))
      (kap (ghFold h0 acc p (i + 1)).toNat) (top - i) := by
  induction i with
  | zero =>
    simp only [List.range'_zero, List.foldl_nil, Nat.sub_zero]
    have : ghFold h0 acc p (0 + 1) = ghB h0 acc p := by simp [ghFold_succ, ghFold_zero]
    rw [this]
    exact Acc_start h acc p top ht
  | succ i ih =>
    rw [List.range'_1_concat, List.foldl_append]
    simp only [List.foldl_cons, List.foldl_nil]
    have ih := ih (by omega)
    have e1 : top - i = (top - (1 + i)) + 1 := by omega
    rw [e1] at ih
    have := Acc_step h _ _ (p.drop ((1 + i) * 16)) (top - (1 + i)) (by omega) ih
    have hb : ghB h0 (ghFold h0 acc p (i + 1)) (p.drop ((1 + i) * 16)) = ghFold h0 acc p (i + 1 + 1) := by
      have e : (1 + i) * 16 = 16 * (i + 1) := by omega
      rw [e]; exact (ghFold_succ h0 acc p (i + 1)).symm
    rw [hb] at this
    have e3 : top - (i + 1) = top - (1 + i) := by omega
    rw [e3]; exact this

theorem fold2 {st : State} {h0 : BlockVec} (h : HxOK st h0) (w : I256) (a : BlockVec) (q : Bytes) (e0 : Nat) (he : e0 ≤ 14)
    (hw : Acc h0 w (kap a.toNat) e0) (i : Nat) (hi : i ≤ e0) :
    Acc h0 ((List.range i).foldl (fun w j => gh_update w (q.drop (j * 16)) (st.hx.getD (e0 - 1 - j) 0)) w)
      (kap (ghFold h0 a q i).toNat) (e0 - i) := by
  induction i with
  | zero => simpa [ghFold_zero] using hw
  | succ i ih =>
    rw [List.range_succ, List.foldl_append]
    simp only [List.foldl_cons, List.foldl_nil]
    have ih := ih (by omega)
    have e1 : e0 - i = (e0 - 1 - i) + 1 := by omega
    rw [e1] at ih
    have := Acc_step h _ _ (q.drop (i * 16)) (e0 - 1 - i) (by omega) ih
    have hb : ghB h0 (ghFold h0 a q i) (q.drop (i * 16)) = ghFold h0 a q (i + 1) := by
      have e : i * 16 = 16 * i := by omega
      rw [e]; exact (ghFold_succ h0 a q i).symm
    rw [hb] at this
    have e3 : e0 - (i + 1) = e0 - 1 - i := by omega
    rw [e3]; exact this

theorem agg_ok {st : State} {h0 : BlockVec} (h : HxOK st h0) (acc : BlockVec) (p : Bytes) (n : Nat) (h1 : 1 ≤ n) (h2 : n ≤ PC_COUNT) :
    gh_agg st acc p n = ghFold h0 acc p n := by
  have h2 : n ≤ 14 := h2
  unfold gh_agg
  apply Acc_done
  have := fold1 h acc p (n - 1) (by omega) (n - 1) (Nat.le_refl _)
  have e : n - 1 + 1 = n := by omega
  rw [e, Nat.sub_self] at this
  exact this

theorem split_ok {st : State} {h0 : BlockVec} (h : HxOK st h0) (acc : BlockVec) (p q : Bytes) :
    gcm_reduce ((List.range PARALLEL_BLOCKS).foldl
        (fun u j => gh_update u (q.drop (j * 16)) (st.hx.getD (PARALLEL_BLOCKS - 1 - j) 0))
        ((List.range' 1 (PARALLEL_BLOCKS - 1)).foldl
          (fun u j => gh_update u (p.drop (j * 16)) (st.hx.getD (2 * PARALLEL_BLOCKS - 1 - j) 0))
          (gh_update0 acc p (st.hx.getD (2 * PARALLEL_BLOCKS - 1 - 0) 0))))
      = ghFold h0 (ghFold h0 acc p PARALLEL_BLOCKS) q PARALLEL_BLOCKS := by
  apply Acc_done
  have s1 := fold1 h acc p 13 (by decide) 6 (by decide)
  have s2 := fold2 h _ _ q 7 (by decide) s1 7 (Nat.le_refl _)
  exact s2

end Sodium.GcmAesniP.GF
