import SodiumModel.Proofs.EdSign2Round
import SodiumModel.Proofs.EdSign2Sign
/-
  The final test of `_crypto_sign_ed25519_verify_detached`: coordinates of
  `check = expected_r − p2_to_p3(sb_ah_p2)` and `ge25519_has_small_order` in the field.
-/
open Sodium Sodium.Spec Sodium.Model Sodium.Model.Ge25519
open Sodium.Ge25519P (CurveGroup toPoint K dK s_add s_sub s_mul s_neg s_d2 Sc Sc2)
open Sodium.ScalarmultLow (c_add c_mul c_sqr c_sub)
open Sodium.RistrettoRefP (c_neg c_inv c_mod)
namespace Sodium.EdSignP

/-- the coordinates of `ge25519_p3_sub(&check, &expected_r, &sb_ah)` with `expected_r = (x1, y1, 1, t1)` (the output of
    `ge25519_frombytes`) and `sb_ah = ge25519_p2_to_p3(Q)` (T := X·Y with Z kept): with
    Nx = x1·Y − y1·X, Ny = y1·Y − x1·X, Dp = Z + d·t1·X·Y, Dm = Z − d·t1·X·Y:  check = (4·Nx·Dp, 4·Ny·Dm, 4·Dm·Dp) -/
theorem check_coords (x1 y1 t1 : Nat) (Q : P2 Nat) :
    (((ge25519_p3_sub specGe ⟨x1, y1, 1, t1⟩ (ge25519_p2_to_p3 specGe Q)).X : Nat) : K) =
      4 * ((x1 : K) * Q.Y - y1 * Q.X) * (Q.Z + dK * t1 * Q.X * Q.Y) ∧
    (((ge25519_p3_sub specGe ⟨x1, y1, 1, t1⟩ (ge25519_p2_to_p3 specGe Q)).Y : Nat) : K) =
      4 * ((y1 : K) * Q.Y - x1 * Q.X) * (Q.Z - dK * t1 * Q.X * Q.Y) ∧
    (((ge25519_p3_sub specGe ⟨x1, y1, 1, t1⟩ (ge25519_p2_to_p3 specGe Q)).Z : Nat) : K) =
      4 * ((Q.Z : K) - dK * t1 * Q.X * Q.Y) * (Q.Z + dK * t1 * Q.X * Q.Y) := by
  simp only [ge25519_p3_sub, ge25519_p3_add, ge25519_p3_neg, ge25519_p2_to_p3, ge25519_p3_to_cached,
    ge25519_add_cached, ge25519_p1p1_to_p3, s_add, s_sub, s_mul, s_neg, s_d2, Nat.cast_one]
  refine ⟨by ring, by ring, by ring⟩

theorem isZero_iff (a : Nat) : F25519.isZero a = true ↔ ((a : Nat) : K) = 0 := by
  unfold F25519.isZero
  rw [beq_iff_eq, ZMod.natCast_eq_zero_iff, Nat.dvd_iff_mod_eq_zero]

/-- `ge25519_has_small_order(q) = 1` in the field: x = 0 ∨ y = 0 ∨ y·√−1 = x ∨ y·√−1 = −X (x = X·Z⁻¹, y = Y·Z⁻¹ with
    0⁻¹ = 0; the last disjunct really uses the PROJECTIVE X) -/
theorem hso_iff (q : P3 Nat) :
    ge25519_has_small_order specGe q = 1 ↔
      ((q.X : K) * (q.Z : K)⁻¹ = 0 ∨ (q.Y : K) * (q.Z : K)⁻¹ = 0 ∨
       (q.Y : K) * (q.Z : K)⁻¹ * (F25519.sqrtM1 : K) = (q.X : K) * (q.Z : K)⁻¹ ∨
       (q.Y : K) * (q.Z : K)⁻¹ * (F25519.sqrtM1 : K) = -(q.X : K)) := by
  rw [Ge25519P.has_small_order_eq]
  unfold Sign.hasSmallOrderC toPoint
  simp only
  have e : ∀ c : Bool, ((if c = true then (1 : Int32) else 0) = 1) ↔ c = true := by
    intro c; cases c <;> decide
  rw [e]
  simp only [Bool.or_eq_true, isZero_iff, c_mul, c_sub, c_neg, c_inv, sub_eq_zero, or_assoc]

/-- in particular a vanishing X coordinate makes the test succeed -/
theorem hso_of_X_zero (q : P3 Nat) (h : ((q.X : Nat) : K) = 0) : ge25519_has_small_order specGe q = 1 := by
  rw [hso_iff]; left; rw [h, zero_mul]

end Sodium.EdSignP
