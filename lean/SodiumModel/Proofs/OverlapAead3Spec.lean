import SodiumModel.Model.OverlapAead2
import SodiumModel.Model.OverlapAead3
import SodiumModel.Proofs.OverlapAead2Full
import SodiumModel.Properties.C01Gcm
/-
  C13 / AES-256-GCM: the abstract primitives of `Model/OverlapAead2.lean` instantiated with the specification
  (`Spec.Aes` / `Spec.Gcm`), and `gcmEncV specPrims = Spec.Gcm.encrypt` (GCTR = XOR with the GCTR keystream).
-/
open Sodium Sodium.Model Sodium.Model.Aead Sodium.Model.Overlap Sodium.Model.OverlapAead Sodium.OverlapP Sodium.Spec
namespace Sodium.OverlapAeadP

theorem zeros_take (n k : Nat) : (zeros n).take k = zeros (min k n) := by simp [zeros]
theorem zeros_drop' (n k : Nat) : (zeros n).drop k = zeros (n - k) := by simp [zeros]

theorem inc32_length (x : Bytes) (h : x.length = 16) : (Gcm.inc32 x).length = 16 := by
  simp [Gcm.inc32, toBE, Sodium.GcmAesniP.Ctr.toLE_length, h]

/-- GCTR of `x` = `x` XOR the GCTR of as many zero bytes (block functions of output length 16) -/
theorem gctrBlocks_xor (ciph : Bytes → Bytes) (hc : ∀ b, b.length = 16 → (ciph b).length = 16) :
    ∀ (fuel : Nat) (cb x : Bytes), cb.length = 16 →
      (Gcm.gctrBlocks ciph cb (Aes.chunksAux 16 fuel x)).flatten =
        xorBytes x (Gcm.gctrBlocks ciph cb (Aes.chunksAux 16 fuel (zeros x.length))).flatten
  | 0, cb, x, _ => by cases x <;> simp [Aes.chunksAux, Gcm.gctrBlocks, xorBytes]
  | fuel + 1, cb, x, hcb => by
    by_cases hx : x = []
    · subst hx; simp [Aes.chunksAux, Gcm.gctrBlocks, xorBytes, zeros]
    · have hx1 : x.isEmpty = false := by cases x <;> simp_all
      have hz1 : (zeros x.length).isEmpty = false := by cases x <;> simp_all [zeros]
      have ih := gctrBlocks_xor ciph hc fuel (Gcm.inc32 cb) (x.drop 16) (inc32_length cb hcb)
      simp only [Aes.chunksAux, hx1, hz1, Bool.false_eq_true, if_false, Gcm.gctrBlocks, List.flatten_cons,
        zeros_take, zeros_drop', xorBytes_zeros]
      rw [ih, List.length_drop]
      have hK := hc cb hcb
      conv => rhs; arg 1; rw [← List.take_append_drop 16 x]
      rw [aead_xorBytes_append _ _ _ _ (by simp [hK]), aead_xorBytes_take_right _ _ _ (by simp)]

theorem gctr_xor (ciph : Bytes → Bytes) (hc : ∀ b, b.length = 16 → (ciph b).length = 16) (icb x : Bytes)
    (hi : icb.length = 16) :
    Gcm.gctr ciph icb x = xorBytes x (Gcm.gctr ciph icb (zeros x.length)) := by
  unfold Gcm.gctr Aes.chunks
  have := gctrBlocks_xor ciph hc x.length icb x hi
  simpa [zeros] using this

theorem gctrBlocks_len (ciph : Bytes → Bytes) (hc : ∀ b, b.length = 16 → (ciph b).length = 16) :
    ∀ (fuel : Nat) (cb x : Bytes), cb.length = 16 → x.length ≤ fuel →
      (Gcm.gctrBlocks ciph cb (Aes.chunksAux 16 fuel x)).flatten.length = x.length
  | 0, cb, x, _, hx => by
    have : x = [] := List.eq_nil_of_length_eq_zero (by omega)
    subst this; simp [Aes.chunksAux, Gcm.gctrBlocks]
  | fuel + 1, cb, x, hcb, hx => by
    by_cases hx0 : x = []
    · subst hx0; simp [Aes.chunksAux, Gcm.gctrBlocks]
    · have hx1 : x.isEmpty = false := by cases x <;> simp_all
      have ih := gctrBlocks_len ciph hc fuel (Gcm.inc32 cb) (x.drop 16) (inc32_length cb hcb) (by simp; omega)
      simp only [Aes.chunksAux, hx1, Bool.false_eq_true, if_false, Gcm.gctrBlocks, List.flatten_cons, List.length_append, ih,
        aead_xorBytes_length, hc cb hcb, List.length_take, List.length_drop]
      omega

theorem gctr_len (ciph : Bytes → Bytes) (hc : ∀ b, b.length = 16 → (ciph b).length = 16) (icb x : Bytes)
    (hi : icb.length = 16) : (Gcm.gctr ciph icb x).length = x.length :=
  gctrBlocks_len ciph hc x.length icb x hi (Nat.le_refl _)

theorem ciph16 (key : Bytes) (hk : key.length = 32) :
    ∀ b, b.length = 16 → (Aes.cipher (Aes.keyExpansion256 key) b).length = 16 := by
  intro b hb
  rw [← Sodium.GcmAesniP.AesK.expand256_eq key hk]
  exact Sodium.GcmAesniP.GF.cipher_length _ (Sodium.GcmAesniP.AesK.expand256_length key) b hb

theorem ghash_len (h d : Bytes) : (Gcm.ghash h d).length = 16 := by
  simp [Gcm.ghash, Gcm.Block.toBytes, toBE, Sodium.GcmAesniP.Ctr.toLE_length]

theorem j0_len (nonce : Bytes) (hn : nonce.length = 12) : (nonce ++ [0, 0, 0, 1]).length = 16 := by simp [hn]

theorem gctr_block16 (ciph : Bytes → Bytes) (icb s : Bytes) (hs : s.length = 16) :
    Gcm.gctr ciph icb s = xorBytes (ciph icb) s := by
  rw [Gcm.gctr, Sodium.GcmAesniP.GF.chunks16_single _ hs]
  simp only [Gcm.gctrBlocks, List.flatten_cons, List.flatten_nil, List.append_nil]
  rw [Sodium.GcmAesniP.GF.xorBytes_comm]

theorem spec_ks (key nonce : Bytes) (len : Nat) (hk : key.length = 32) (hn : nonce.length = 12) :
    specPrims.ks key nonce len =
      Gcm.gctr (Aes.cipher (Aes.keyExpansion256 key)) (Gcm.inc32 (nonce ++ [0, 0, 0, 1])) (zeros len) := by
  simp only [specPrims]; rw [if_pos (And.intro hk hn)]

theorem spec_ej0 (key nonce : Bytes) (hk : key.length = 32) (hn : nonce.length = 12) :
    specPrims.ej0 key nonce = Aes.cipher (Aes.keyExpansion256 key) (nonce ++ [0, 0, 0, 1]) := by
  simp only [specPrims]; rw [if_pos (And.intro hk hn)]

theorem spec_ghash (key d : Bytes) :
    specPrims.ghash key d = Gcm.ghash (Aes.cipher (Aes.keyExpansion256 key) (zeros 16)) d := by
  simp only [specPrims]

theorem specPrims_lens : GcmLens specPrims where
  ks_len := by
    intro st n len
    by_cases h : st.length = 32 ∧ n.length = 12
    · rw [spec_ks st n len h.1 h.2, gctr_len _ (ciph16 st h.1) _ _ (inc32_length _ (j0_len n h.2))]; simp [zeros]
    · simp only [specPrims]; rw [if_neg h]; simp [zeros]
  ej0_len := by
    intro st n
    by_cases h : st.length = 32 ∧ n.length = 12
    · rw [spec_ej0 st n h.1 h.2]; exact ciph16 st h.1 _ (j0_len n h.2)
    · simp only [specPrims]; rw [if_neg h]; simp [zeros]
  ghash_len := fun _ _ => ghash_len _ _

/-- the value-level reference over the specification primitives IS SP 800-38D GCM-AE -/
theorem gcmEncV_spec (key nonce ad m : Bytes) (hk : key.length = 32) (hn : nonce.length = 12) :
    gcmEncV specPrims key nonce ad m = Gcm.encrypt key nonce ad m := by
  have hc := ciph16 key hk
  have hj := j0_len nonce hn
  simp only [gcmEncV, Gcm.encrypt]
  rw [spec_ks key nonce _ hk hn, spec_ej0 key nonce hk hn, spec_ghash, ← gctr_xor _ hc _ m (inc32_length _ hj)]
  rw [Prod.mk.injEq]
  refine ⟨rfl, ?_⟩
  rw [gctr_block16 _ _ (Gcm.authBlock _ _ _) (by unfold Gcm.authBlock; exact ghash_len _ _)]
  simp only [Gcm.authBlock, gpad, Gcm.pad16, finalBlock, List.append_assoc]

/-- the value-level tag over the specification primitives is the tag GCM-AD recomputes -/
theorem gcmTagV_spec (key nonce ad c : Bytes) (hk : key.length = 32) (hn : nonce.length = 12) :
    gcmTagV specPrims key nonce ad c =
      Gcm.gctr (Aes.cipher (Aes.keyExpansion256 key)) (nonce ++ [0, 0, 0, 1])
        (Gcm.authBlock (Aes.cipher (Aes.keyExpansion256 key) (zeros 16)) ad c) := by
  simp only [gcmTagV]
  rw [spec_ej0 key nonce hk hn, spec_ghash, gctr_block16 _ _ (Gcm.authBlock _ _ _) (by unfold Gcm.authBlock; exact ghash_len _ _)]
  simp only [Gcm.authBlock, gpad, Gcm.pad16, finalBlock, List.append_assoc]

end Sodium.OverlapAeadP
