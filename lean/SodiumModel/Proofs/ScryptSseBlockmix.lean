import SodiumModel.Proofs.ScryptSseMix
/-
  Helper lemmas for Properties/C08ScryptSse.lean, part 3: `blockmix_salsa8`, `blockmix_salsa8_xor` and `integerify` of the
  SSE2 file against scryptBlockMix / Integerify of RFC 7914 on rows in the shuffled layout.
-/
namespace Sodium.ScryptSseP
open Sodium Sodium.Model Sodium.Model.ScryptSse Sodium.Spec Sodium.ScryptRefP
open Sodium.Model.ChachaSimd (V128 mm_add_epi32 mm_xor_si128 mm_slli_epi32 mm_srli_epi32 mm_shuffle_epi32)

/-! ### `forB` loops as counted loops -/

theorem forB_eq_iter {α : Type} (n : UInt64) (body : UInt64 → α → UInt64 × α) (bodyN : Nat → α → α) (a d : Nat) :
    ∀ (cnt j fuel : Nat) (s : α),
    a + d * (j + cnt) < 2 ^ 64 → n.toNat ≤ a + d * (j + cnt) →
    (∀ k, j ≤ k → k < j + cnt → a + d * k < n.toNat) → cnt ≤ fuel →
    (∀ k, j ≤ k → k < j + cnt → ∀ s, body (UInt64.ofNat (a + d * k)) s = (UInt64.ofNat (a + d * (k + 1)), bodyN k s)) →
    forB n body fuel (UInt64.ofNat (a + d * j)) s = (UInt64.ofNat (a + d * (j + cnt)), iter bodyN cnt j s)
  | 0, j, fuel, s, hlt, hge, _, _, _ => by
    cases fuel with
    | zero => rfl
    | succ f =>
      rw [forB, if_neg, iter]; · rfl
      rw [UInt64.lt_iff_toNat_lt, ofNat_toNat_lt (by simpa using hlt)]
      simp only [Nat.add_zero] at hge; omega
  | cnt + 1, j, fuel, s, hlt, hge, hin, hf, hb => by
    cases fuel with
    | zero => omega
    | succ f =>
      have hmono : d * j ≤ d * (j + (cnt + 1)) := Nat.mul_le_mul_left d (by omega)
      rw [forB, if_pos (by rw [UInt64.lt_iff_toNat_lt, ofNat_toNat_lt (by omega)]; exact hin j (Nat.le_refl _) (by omega)),
        hb j (Nat.le_refl _) (by omega), iter]
      have e : j + (cnt + 1) = j + 1 + cnt := by omega
      rw [e] at hlt hge ⊢
      exact forB_eq_iter n body bodyN a d cnt (j + 1) f _ hlt hge (fun k h1 h2 => hin k (by omega) (by omega)) (by omega)
        (fun k h1 h2 => hb k (by omega) (by omega))

/-! ### the two blockmix functions as runs of `gstep` -/

/-- how `blockmix_salsa8` reads input block `i` -/
def rdP (Bin : Nat) (M : Array UInt32) (i : Nat) : Regs := ld4 M (Bin + 16 * i)
/-- how `blockmix_salsa8_xor` reads input block `i` -/
def rdX (Bin1 Bin2 : Nat) (M : Array UInt32) (i : Nat) : Regs := xorR (ld4 M (Bin1 + 16 * i)) (ld4 M (Bin2 + 16 * i))

theorem stepP (Bin Bout R i : Nat) (s : Array UInt32 × Regs) (inp out : Nat) (h1 : inp = Bin + 16 * i)
    (h2 : out = Bout + 16 * dOf R i) : SALSA20_8_XOR s.1 s.2 inp out = gstep (rdP Bin) Bout R i s := by
  subst h1; subst h2; rfl

theorem stepX (Bin1 Bin2 Bout R i : Nat) (s : Array UInt32 × Regs) (in1 in2 out : Nat) (h1 : in1 = Bin1 + 16 * i)
    (h2 : in2 = Bin2 + 16 * i) (h3 : out = Bout + 16 * dOf R i) :
    SALSA20_8_XOR s.1 (XOR4 s.1 s.2 in1) in2 out = gstep (rdX Bin1 Bin2) Bout R i s := by
  subst h1; subst h2; subst h3
  rw [SALSA20_8_XOR_eq, XOR4_eq, xorR_assoc]; rfl

theorem ld4_of (M : Array UInt32) (p a b c d : Nat) (ha : a = p + 4 * 0) (hb : b = p + 4 * 1) (hc : c = p + 4 * 2)
    (hd : d = p + 4 * 3) : (⟨ld128 M a, ld128 M b, ld128 M c, ld128 M d⟩ : Regs) = ld4 M p := by
  subst ha; subst hb; subst hc; subst hd; rfl

theorem dOf_odd (R k : Nat) : dOf R (2 * k + 1) = R + k := by unfold dOf; rw [if_neg (by omega)]; omega
theorem dOf_even (R k : Nat) : dOf R (2 * k) = k := by unfold dOf; rw [if_pos (by omega)]; omega

macro "u64" : tactic => `(tactic|
  (simp only [UInt64.toNat_add, UInt64.toNat_mul, UInt64.toNat_sub, UInt64.toNat_ofNat', UInt64.toNat_ofNat, Nat.reducePow,
     Nat.reduceMod] <;> omega))

theorem pred_toNat (r : UInt64) (hr : 1 ≤ r.toNat) : (r - 1).toNat = r.toNat - 1 := by
  have := r.toNat_lt
  u64

theorem ofNat_succ (k : Nat) (hk : k + 1 < 2 ^ 64) : UInt64.ofNat k + 1 = UInt64.ofNat (k + 1) := by
  apply UInt64.toNat_inj.mp
  u64

theorem blockmix_eq_run (M : Array UInt32) (Bin Bout : Nat) (r : UInt64) (hr : 1 ≤ r.toNat) (hr2 : 32 * r.toNat < 2 ^ 64) :
    blockmix_salsa8 M Bin Bout r =
      (iter (gstep (rdP Bin) Bout r.toNat) (2 * r.toNat) 0 (M, ld4 M (Bin + 16 * (2 * r.toNat - 1)))).1 := by
  have hr' := pred_toNat r hr
  unfold blockmix_salsa8
  simp only []
  rw [ld4_of M (Bin + 16 * (2 * r.toNat - 1)) _ _ _ _ (by u64) (by u64) (by u64) (by u64)]
  generalize ld4 M (Bin + 16 * (2 * r.toNat - 1)) = X0
  rw [← run_shape _ r.toNat hr]
  have h0 : SALSA20_8_XOR M X0 Bin Bout = gstep (rdP Bin) Bout r.toNat 0 (M, X0) :=
    stepP Bin Bout r.toNat 0 (M, X0) Bin Bout (by omega) (by rw [dOf_even r.toNat 0]; omega)
  rw [h0]
  generalize gstep (rdP Bin) Bout r.toNat 0 (M, X0) = s0
  generalize hq : r - 1 = r' at hr'
  have hloop := forB_eq_iter r' (blockmix_body Bin Bout r')
    (fun k s => gstep (rdP Bin) Bout r.toNat (2 * k + 2) (gstep (rdP Bin) Bout r.toNat (2 * k + 1) s)) 0 1
    (r.toNat - 1) 0 r'.toNat s0 (by omega) (by omega) (fun k _ hk => by omega) (by omega)
    (fun k _ hk s => by
      have hk1 : k + 1 < r.toNat := by omega
      unfold blockmix_body
      simp only []
      have e0 : (0 : Nat) + 1 * k = k := by omega
      have e1 : (0 : Nat) + 1 * (k + 1) = k + 1 := by omega
      rw [e0, e1, ofNat_succ k (by omega)]
      rw [stepP Bin Bout r.toNat (2 * k + 1) s _ _ (by u64) (by rw [dOf_odd]; u64)]
      rw [stepP Bin Bout r.toNat (2 * k + 2) _ _ _ (by u64) (by rw [show 2 * k + 2 = 2 * (k + 1) by omega, dOf_even]; u64)])
  simp only [Nat.mul_zero, Nat.add_zero, Nat.zero_add, Nat.one_mul] at hloop
  rw [show UInt64.ofNat 0 = 0 from rfl] at hloop
  rw [hloop]
  simp only []
  rw [stepP Bin Bout r.toNat (2 * r.toNat - 1) _ _ _ (by u64)
    (by rw [show 2 * r.toNat - 1 = 2 * (r.toNat - 1) + 1 by omega, dOf_odd]; u64)]

theorem blockmix_xor_eq_run (M : Array UInt32) (Bin1 Bin2 Bout : Nat) (r : UInt64) (hr : 1 ≤ r.toNat)
    (hr2 : 32 * r.toNat < 2 ^ 64) :
    blockmix_salsa8_xor M Bin1 Bin2 Bout r =
      ((iter (gstep (rdX Bin1 Bin2) Bout r.toNat) (2 * r.toNat) 0
          (M, xorR (ld4 M (Bin1 + 16 * (2 * r.toNat - 1))) (ld4 M (Bin2 + 16 * (2 * r.toNat - 1))))).1,
       (iter (gstep (rdX Bin1 Bin2) Bout r.toNat) (2 * r.toNat) 0
          (M, xorR (ld4 M (Bin1 + 16 * (2 * r.toNat - 1))) (ld4 M (Bin2 + 16 * (2 * r.toNat - 1))))).2.X0.e0) := by
  have hr' := pred_toNat r hr
  unfold blockmix_salsa8_xor
  simp only []
  rw [XOR4_2_eq]
  have ea : Bin1 + 4 * (8 * r - 4).toNat = Bin1 + 16 * (2 * r.toNat - 1) := by u64
  have eb : Bin2 + 4 * (8 * r - 4).toNat = Bin2 + 16 * (2 * r.toNat - 1) := by u64
  rw [ea, eb]
  generalize xorR (ld4 M (Bin1 + 16 * (2 * r.toNat - 1))) (ld4 M (Bin2 + 16 * (2 * r.toNat - 1))) = X0
  rw [← run_shape _ r.toNat hr]
  have h0 : SALSA20_8_XOR M (XOR4 M X0 Bin1) Bin2 Bout = gstep (rdX Bin1 Bin2) Bout r.toNat 0 (M, X0) :=
    stepX Bin1 Bin2 Bout r.toNat 0 (M, X0) Bin1 Bin2 Bout (by omega) (by omega) (by rw [dOf_even r.toNat 0]; omega)
  rw [h0]
  generalize gstep (rdX Bin1 Bin2) Bout r.toNat 0 (M, X0) = s0
  generalize hq : r - 1 = r' at hr'
  have hloop := forB_eq_iter r' (blockmix_xor_body Bin1 Bin2 Bout r')
    (fun k s => gstep (rdX Bin1 Bin2) Bout r.toNat (2 * k + 2) (gstep (rdX Bin1 Bin2) Bout r.toNat (2 * k + 1) s)) 0 1
    (r.toNat - 1) 0 r'.toNat s0 (by omega) (by omega) (fun k _ hk => by omega) (by omega)
    (fun k _ hk s => by
      have hk1 : k + 1 < r.toNat := by omega
      unfold blockmix_xor_body
      simp only []
      have e0 : (0 : Nat) + 1 * k = k := by omega
      have e1 : (0 : Nat) + 1 * (k + 1) = k + 1 := by omega
      rw [e0, e1, ofNat_succ k (by omega)]
      rw [stepX Bin1 Bin2 Bout r.toNat (2 * k + 1) s _ _ _ (by u64) (by u64) (by rw [dOf_odd]; u64)]
      rw [stepX Bin1 Bin2 Bout r.toNat (2 * k + 2) _ _ _ _ (by u64) (by u64)
        (by rw [show 2 * k + 2 = 2 * (k + 1) by omega, dOf_even]; u64)])
  simp only [Nat.mul_zero, Nat.add_zero, Nat.zero_add, Nat.one_mul] at hloop
  rw [show UInt64.ofNat 0 = 0 from rfl] at hloop
  rw [hloop]
  simp only []
  rw [stepX Bin1 Bin2 Bout r.toNat (2 * r.toNat - 1) _ _ _ _ (by u64) (by u64)
    (by rw [show 2 * r.toNat - 1 = 2 * (r.toNat - 1) + 1 by omega, dOf_odd]; u64)]
  rfl

/-! ### values -/

theorem ld4_congr (M M' : Array UInt32) (p : Nat) (h : ∀ k, k < 16 → M'.getD (p + k) 0 = M.getD (p + k) 0) :
    ld4 M' p = ld4 M p := by
  have h0 := h 0 (by omega); rw [Nat.add_zero] at h0
  simp only [ld4, ld128, Nat.mul_zero, Nat.add_zero, Nat.mul_one, Nat.add_assoc, Nat.reduceAdd, Nat.reduceMul, h0,
    h 1 (by omega), h 2 (by omega), h 3 (by omega), h 4 (by omega), h 5 (by omega), h 6 (by omega), h 7 (by omega),
    h 8 (by omega), h 9 (by omega), h 10 (by omega), h 11 (by omega), h 12 (by omega), h 13 (by omega), h 14 (by omega),
    h 15 (by omega)]

theorem xorWords_getD (x y : Array UInt32) (j : Nat) (hj : j < x.size) :
    (Scrypt.xorWords x y).getD j 0 = x.getD j 0 ^^^ y.getD j 0 := by
  simp only [Scrypt.xorWords, Array.getD_eq_getD_getElem?]
  rw [Array.getElem?_eq_getElem (by simpa using hj), Array.getElem?_eq_getElem hj]
  simp [Array.getElem!_eq_getD, Array.getD_eq_getD_getElem?]
  rfl

theorem blk_xorWords (A1 A2 : Array UInt32) (R i : Nat) (h1 : A1.size = 32 * R) (h2 : A2.size = 32 * R) (hi : i < 2 * R) :
    blk (Scrypt.xorWords A1 A2) i = Scrypt.xorWords (blk A1 i) (blk A2 i) := by
  have hs : (Scrypt.xorWords A1 A2).size = 32 * R := by rw [xorWords_size, h1]
  apply ext_getD 0
  · rw [xorWords_size]; simp only [blk, Array.size_extract]; omega
  · intro j hj
    have hj16 : j < 16 := by simp only [blk, Array.size_extract] at hj; omega
    rw [xorWords_getD _ _ j (by simp only [blk, Array.size_extract]; omega)]
    simp only [blk]
    rw [getD_extract _ _ _ j (by omega) (by omega), getD_extract _ _ _ j (by omega) (by omega),
      getD_extract _ _ _ j (by omega) (by omega), xorWords_getD _ _ _ (by omega)]

theorem chain_zero_blk (R : Nat) (B : Array UInt32) (hR : 1 ≤ R) : chain R B 0 = blk B (2 * R - 1) := by
  unfold chain blk
  congr 1; omega

/-- what a completed run leaves: the output row holds scryptBlockMix of the block sequence that was read -/
theorem ginv_row (Z : Nat → Regs) (X0 : Regs) (M0 : Array UInt32) (Bout R : Nat) (B : Array UInt32) (hR : 1 ≤ R)
    (hB : B.size = 32 * R) (h0 : diag X0 = chain R B 0) (hZ : ∀ i, i < 2 * R → diag (Z i) = blk B i)
    (s : Array UInt32 × Regs) (h : GInv Z X0 M0 Bout R (2 * R) s) :
    s.1.size = M0.size ∧ RowS s.1 Bout (Scrypt.blockMix R B) ∧
      (∀ t, ¬ (Bout ≤ t ∧ t < Bout + 32 * R) → s.1.getD t 0 = M0.getD t 0) ∧
      s.2.X0.e0 = (Scrypt.blockMix R B).getD (16 * (2 * R - 1)) 0 := by
  obtain ⟨h1, h2, h3⟩ := h
  have hbm := blockMix_size R B hR hB
  refine ⟨h1, ?_, fun t ht => by rw [h3 t, if_neg (by omega)], ?_⟩
  · intro t ht
    rw [hbm] at ht
    have hd : t / 16 < 2 * R := by omega
    have hi : iOf R (t / 16) < 2 * R := by unfold iOf; split <;> omega
    have hp := perm_inv' (t % 16) (by omega)
    have hplt : t % 16 * 5 % 16 < 16 := by omega
    rw [h3 (Bout + t), Nat.add_sub_cancel_left, if_pos ⟨by omega, by omega, hi⟩, toWords_getD _ _ (by omega),
      chainR_diag Z X0 R B h0 hZ _ (by omega)]
    by_cases hlo : t / 16 < R
    · rw [blockMix_getD_lo R B hR hB _ (by omega)]
      have e1 : (16 * (t / 16) + t % 16 * 5 % 16) / 16 = t / 16 := by omega
      have e2 : (16 * (t / 16) + t % 16 * 5 % 16) % 16 = t % 16 * 5 % 16 := by omega
      rw [e1, e2]; unfold iOf; rw [if_pos hlo]
    · rw [blockMix_getD_hi R B hR hB _ (by omega) (by omega)]
      have e1 : (16 * (t / 16) + t % 16 * 5 % 16 - 16 * R) / 16 = t / 16 - R := by omega
      have e2 : (16 * (t / 16) + t % 16 * 5 % 16) % 16 = t % 16 * 5 % 16 := by omega
      rw [e1, e2]; unfold iOf; rw [if_neg hlo]
  · rw [h2, blockMix_getD_hi R B hR hB _ (by omega) (by omega)]
    have e1 : 2 * ((16 * (2 * R - 1) - 16 * R) / 16) + 2 = 2 * R := by omega
    have e2 : 16 * (2 * R - 1) % 16 = 0 := by omega
    rw [e1, e2, ← chainR_diag Z X0 R B h0 hZ (2 * R) (Nat.le_refl _)]
    rfl

/-- `blockmix_salsa8(Bin, Bout, r)`: if the row at `Bin` holds `A` (shuffled layout) and the rows at `Bin`, `Bout` are
    disjoint and inside the memory, the row at `Bout` afterwards holds scryptBlockMix_r(A) (shuffled layout) and nothing else
    changed -/
theorem blockmix_sse_spec (M : Array UInt32) (Bin Bout : Nat) (r : UInt64) (A : Array UInt32) (hr : 1 ≤ r.toNat)
    (hr2 : 32 * r.toNat < 2 ^ 64) (hA : A.size = 32 * r.toNat) (hin : Bin + 32 * r.toNat ≤ M.size)
    (hout : Bout + 32 * r.toNat ≤ M.size) (hdisj : Bin + 32 * r.toNat ≤ Bout ∨ Bout + 32 * r.toNat ≤ Bin)
    (hrow : RowS M Bin A) :
    (blockmix_salsa8 M Bin Bout r).size = M.size ∧ RowS (blockmix_salsa8 M Bin Bout r) Bout (Scrypt.blockMix r.toNat A) ∧
      (∀ t, ¬ (Bout ≤ t ∧ t < Bout + 32 * r.toNat) → (blockmix_salsa8 M Bin Bout r).getD t 0 = M.getD t 0) := by
  rw [blockmix_eq_run M Bin Bout r hr hr2]
  have hg := grun_spec (rdP Bin) (fun i => ld4 M (Bin + 16 * i)) (ld4 M (Bin + 16 * (2 * r.toNat - 1))) M Bout r.toNat hout
    (fun M' _ hM' i hi => ld4_congr M M' _ (fun k hk => hM' _ (by omega)))
  have := ginv_row _ _ M Bout r.toNat A hr hA
    (by rw [chain_zero_blk _ _ hr]; exact diag_ld4_row M Bin A r.toNat hA hrow _ (by omega))
    (fun i hi => diag_ld4_row M Bin A r.toNat hA hrow i hi) _ hg
  exact ⟨this.1, this.2.1, this.2.2.1⟩

/-- `blockmix_salsa8_xor(Bin1, Bin2, Bout, r)`: the row at `Bout` afterwards holds scryptBlockMix_r(A1 xor A2), the return
    value is word 0 of its last 64-byte block, nothing else changed -/
theorem blockmix_xor_sse_spec (M : Array UInt32) (Bin1 Bin2 Bout : Nat) (r : UInt64) (A1 A2 : Array UInt32) (hr : 1 ≤ r.toNat)
    (hr2 : 32 * r.toNat < 2 ^ 64) (hA1 : A1.size = 32 * r.toNat) (hA2 : A2.size = 32 * r.toNat)
    (hin1 : Bin1 + 32 * r.toNat ≤ M.size) (hin2 : Bin2 + 32 * r.toNat ≤ M.size)
    (hout : Bout + 32 * r.toNat ≤ M.size) (hdisj1 : Bin1 + 32 * r.toNat ≤ Bout ∨ Bout + 32 * r.toNat ≤ Bin1)
    (hdisj2 : Bin2 + 32 * r.toNat ≤ Bout ∨ Bout + 32 * r.toNat ≤ Bin2)
    (hrow1 : RowS M Bin1 A1) (hrow2 : RowS M Bin2 A2) :
    (blockmix_salsa8_xor M Bin1 Bin2 Bout r).1.size = M.size ∧
      RowS (blockmix_salsa8_xor M Bin1 Bin2 Bout r).1 Bout (Scrypt.blockMix r.toNat (Scrypt.xorWords A1 A2)) ∧
      (∀ t, ¬ (Bout ≤ t ∧ t < Bout + 32 * r.toNat) → (blockmix_salsa8_xor M Bin1 Bin2 Bout r).1.getD t 0 = M.getD t 0) ∧
      (blockmix_salsa8_xor M Bin1 Bin2 Bout r).2 =
        (Scrypt.blockMix r.toNat (Scrypt.xorWords A1 A2)).getD (16 * (2 * r.toNat - 1)) 0 := by
  rw [blockmix_xor_eq_run M Bin1 Bin2 Bout r hr hr2]
  have hg := grun_spec (rdX Bin1 Bin2) (fun i => xorR (ld4 M (Bin1 + 16 * i)) (ld4 M (Bin2 + 16 * i)))
    (xorR (ld4 M (Bin1 + 16 * (2 * r.toNat - 1))) (ld4 M (Bin2 + 16 * (2 * r.toNat - 1)))) M Bout r.toNat hout
    (fun M' _ hM' i hi => by
      unfold rdX
      rw [ld4_congr M M' _ (fun k hk => hM' _ (by omega)), ld4_congr M M' _ (fun k hk => hM' _ (by omega))])
  have hz : ∀ i, i < 2 * r.toNat →
      diag (xorR (ld4 M (Bin1 + 16 * i)) (ld4 M (Bin2 + 16 * i))) = blk (Scrypt.xorWords A1 A2) i := by
    intro i hi
    rw [diag_xorR, diag_ld4_row M Bin1 A1 r.toNat hA1 hrow1 i hi, diag_ld4_row M Bin2 A2 r.toNat hA2 hrow2 i hi,
      blk_xorWords A1 A2 r.toNat i hA1 hA2 hi]
  exact ginv_row _ _ M Bout r.toNat (Scrypt.xorWords A1 A2) hr (by rw [xorWords_size, hA1])
    (by rw [chain_zero_blk _ _ hr]; exact hz _ (by omega)) hz _ hg

end Sodium.ScryptSseP
