import SodiumModel.Spec.Argon2
import SodiumModel.Model.Argon2Ref
/-
  Helper lemmas for Properties/C08Core.lean, part 2: `index_alpha` (argon2-core.h) against the
  reference-index mapping of RFC 9106 §3.4.2 (`Spec.Argon2.refIndex`), and the bounds it guarantees.
-/
open Sodium Sodium.Spec Sodium.Model Sodium.Model.Argon2Ref
namespace Sodium.Argon2RefP

/-- |W|, the number of referenceable blocks (RFC 9106 §3.4.2), `same` = "the reference lane is the current lane" -/
def sizeW (S r sl idx : Nat) (same : Bool) : Nat :=
  let finished := (if r = 0 then sl else 3) * S
  if same then finished + idx - 1 else if idx = 0 then finished - 1 else finished

/-- the column where W starts -/
def startW (S r sl : Nat) : Nat := if r = 0 ∨ sl = 3 then 0 else (sl + 1) * S

/-- the column of the reference block (RFC 9106 §3.4.2) -/
def refZ (q r sl idx J1 : Nat) (same : Bool) : Nat :=
  (startW (q / 4) r sl +
    (sizeW (q / 4) r sl idx same - 1 - sizeW (q / 4) r sl idx same * (J1 * J1 / 2 ^ 32) / 2 ^ 32)) % q

theorem refIndex_eq (p q r lane sl idx J1 J2 : Nat) :
    Argon2.refIndex p q r lane sl idx J1 J2 =
      ((if r = 0 ∧ sl = 0 then lane else J2 % p),
       refZ q r sl idx J1 (decide ((if r = 0 ∧ sl = 0 then lane else J2 % p) = lane))) := by
  unfold Argon2.refIndex refZ sizeW startW
  simp only [decide_eq_true_eq]

structure IdxOk (inst : Instance) (pos : Position) (same : Bool) : Prop where
  hll : inst.lane_length.toNat = 4 * inst.segment_length.toNat
  hS : 2 ≤ inst.segment_length.toNat
  hsl : pos.slice.toNat < 4
  hidx : pos.index.toNat < inst.segment_length.toNat
  h0 : pos.pass = 0 → pos.slice = 0 → 2 ≤ pos.index.toNat ∧ same = true

theorem sizeW_bound (S r sl idx : Nat) (same : Bool) (hS : 2 ≤ S) (hsl : sl < 4) (hidx : idx < S)
    (h0 : r = 0 → sl = 0 → 2 ≤ idx ∧ same = true) :
    1 ≤ sizeW S r sl idx same ∧ startW S r sl + sizeW S r sl idx same < 8 * S ∧ startW S r sl < 4 * S ∧
      (r = 0 → sizeW S r sl idx same < 4 * S) := by
  unfold sizeW startW
  have hsl4 : sl = 0 ∨ sl = 1 ∨ sl = 2 ∨ sl = 3 := by omega
  by_cases hr : r = 0 <;> cases same <;> by_cases hi : idx = 0 <;>
    rcases hsl4 with rfl | rfl | rfl | rfl <;> simp [hr, hi] at h0 ⊢ <;> omega

theorem u8_toUInt32_toNat (x : UInt8) : x.toUInt32.toNat = x.toNat := by simp

theorem ras_eq (inst : Instance) (pos : Position) (same : Bool) (h : IdxOk inst pos same) :
    (if pos.pass = 0 then
      if pos.slice = 0 then
        pos.index - 1
      else if same then
        pos.slice.toUInt32 * inst.segment_length + pos.index - 1
      else
        pos.slice.toUInt32 * inst.segment_length + (if pos.index = 0 then 0xFFFFFFFF else 0)
    else
      if same then
        inst.lane_length - inst.segment_length + pos.index - 1
      else
        inst.lane_length - inst.segment_length + (if pos.index = 0 then 0xFFFFFFFF else 0) : UInt32).toNat
    = sizeW inst.segment_length.toNat pos.pass.toNat pos.slice.toNat pos.index.toNat same ∧
    1 ≤ sizeW inst.segment_length.toNat pos.pass.toNat pos.slice.toNat pos.index.toNat same := by
  obtain ⟨hll, hS, hsl, hidx, h0⟩ := h
  have hp : pos.pass = 0 ↔ pos.pass.toNat = 0 := by
    rw [← UInt32.toNat_inj]; rfl
  have hs : pos.slice = 0 ↔ pos.slice.toNat = 0 := by
    rw [← UInt8.toNat_inj]; rfl
  have hi : pos.index = 0 ↔ pos.index.toNat = 0 := by
    rw [← UInt32.toNat_inj]; rfl
  have hL := inst.lane_length.toNat_lt
  unfold sizeW
  have hS32 : (4294967295 : UInt32).toNat = 4294967295 := rfl
  have h032 : (0 : UInt32).toNat = 0 := rfl
  have h132 : (1 : UInt32).toNat = 1 := rfl
  generalize hSv : inst.segment_length.toNat = S at *
  generalize hLv : inst.lane_length.toNat = L at *
  generalize hiv : pos.index.toNat = idx at *
  generalize hslv : pos.slice.toNat = sl at *
  by_cases c1 : pos.pass = 0
  · have c1' := hp.mp c1
    rw [if_pos c1, if_pos c1']
    by_cases c2 : pos.slice = 0
    · have c2' := hs.mp c2
      obtain ⟨h2, h3⟩ := h0 c1 c2
      subst h3
      rw [if_pos c2, c2', UInt32.toNat_sub, hiv, h132]
      simp only [if_true]
      omega
    · have c2' : sl ≠ 0 := fun hh => c2 (hs.mpr hh)
      rw [if_neg c2]
      have hsl3 : sl = 1 ∨ sl = 2 ∨ sl = 3 := by omega
      cases same
      · simp only [Bool.false_eq_true, if_false]
        by_cases c3 : pos.index = 0
        · have c3' := hi.mp c3
          rw [if_pos c3, if_pos c3', UInt32.toNat_add, UInt32.toNat_mul, u8_toUInt32_toNat, hslv, hSv, hS32]
          rcases hsl3 with rfl | rfl | rfl <;> omega
        · have c3' : idx ≠ 0 := fun hh => c3 (hi.mpr hh)
          rw [if_neg c3, if_neg c3', UInt32.toNat_add, UInt32.toNat_mul, u8_toUInt32_toNat, hslv, hSv, h032]
          rcases hsl3 with rfl | rfl | rfl <;> omega
      · simp only [if_true]
        rw [UInt32.toNat_sub, UInt32.toNat_add, UInt32.toNat_mul, u8_toUInt32_toNat, hslv, hSv, hiv, h132]
        rcases hsl3 with rfl | rfl | rfl <;> omega
  · have c1' : pos.pass.toNat ≠ 0 := fun hh => c1 (hp.mpr hh)
    rw [if_neg c1, if_neg c1']
    cases same
    · simp only [Bool.false_eq_true, if_false]
      by_cases c3 : pos.index = 0
      · have c3' := hi.mp c3
        rw [if_pos c3, if_pos c3', UInt32.toNat_add, UInt32.toNat_sub, hLv, hSv, hS32]
        omega
      · have c3' : idx ≠ 0 := fun hh => c3 (hi.mpr hh)
        rw [if_neg c3, if_neg c3', UInt32.toNat_add, UInt32.toNat_sub, hLv, hSv, h032]
        omega
    · simp only [if_true]
      rw [UInt32.toNat_sub, UInt32.toNat_add, UInt32.toNat_sub, hLv, hSv, hiv, h132]
      omega




theorem abs_wrap (st : UInt32) (rp : UInt64) (L : UInt32) (h : st.toNat + rp.toNat < 2 * L.toNat) :
    ((st.toUInt64 + rp - L.toUInt64) + (L.toUInt64 &&& ((st.toUInt64 + rp - L.toUInt64) >>> 32))).toUInt32.toNat
      = (st.toNat + rp.toNat) % L.toNat := by
  have hL := L.toNat_lt
  have hst := st.toNat_lt
  have h32 : (32 : UInt64).toNat % 64 = 32 := by decide
  have e1 : (st.toUInt64 + rp - L.toUInt64).toNat = (2 ^ 64 - L.toNat + (st.toNat + rp.toNat)) % 2 ^ 64 := by
    rw [UInt64.toNat_sub, UInt64.toNat_add, UInt32.toNat_toUInt64, UInt32.toNat_toUInt64]
    omega
  rw [UInt64.toNat_toUInt32, UInt64.toNat_add, UInt64.toNat_and, UInt64.toNat_shiftRight, e1, h32,
    Nat.shiftRight_eq_div_pow, UInt32.toNat_toUInt64]
  generalize st.toNat + rp.toNat = t at *
  by_cases c : L.toNat ≤ t
  · have e2 : (2 ^ 64 - L.toNat + t) % 2 ^ 64 = t - L.toNat := by omega
    rw [e2]
    have e3 : (t - L.toNat) / 2 ^ 32 = 0 := by omega
    rw [e3, Nat.and_zero]
    have : t % L.toNat = t - L.toNat := by
      rw [Nat.mod_eq_sub_mod c, Nat.mod_eq_of_lt (by omega)]
    omega
  · have e2 : (2 ^ 64 - L.toNat + t) % 2 ^ 64 = 2 ^ 64 - L.toNat + t := by omega
    rw [e2]
    have e3 : (2 ^ 64 - L.toNat + t) / 2 ^ 32 = 2 ^ 32 - 1 := by omega
    rw [e3, Nat.and_two_pow_sub_one_eq_mod, Nat.mod_eq_of_lt (a := t) (by omega)]
    omega



theorem rel_pos (ras J1 : UInt32) (h1 : 1 ≤ ras.toNat) :
    ((ras - 1).toUInt64 - ((ras.toUInt64 * ((J1.toUInt64 * J1.toUInt64) >>> 32)) >>> 32)).toNat =
      ras.toNat - 1 - ras.toNat * (J1.toNat * J1.toNat / 2 ^ 32) / 2 ^ 32 ∧
    ras.toNat * (J1.toNat * J1.toNat / 2 ^ 32) / 2 ^ 32 < ras.toNat := by
  have hr := ras.toNat_lt
  have hj := J1.toNat_lt
  have h32 : (32 : UInt64).toNat % 64 = 32 := by decide
  have hjj : J1.toNat * J1.toNat < 2 ^ 32 * 2 ^ 32 := Nat.mul_lt_mul'' hj hj
  have hx : J1.toNat * J1.toNat / 2 ^ 32 < 2 ^ 32 := by
    apply Nat.div_lt_of_lt_mul; exact hjj
  rw [UInt64.toNat_sub, UInt64.toNat_shiftRight, UInt64.toNat_mul, UInt64.toNat_shiftRight, UInt64.toNat_mul,
    UInt32.toNat_toUInt64, UInt32.toNat_toUInt64, UInt32.toNat_toUInt64, UInt32.toNat_sub, h32,
    Nat.shiftRight_eq_div_pow, Nat.shiftRight_eq_div_pow]
  rw [Nat.mod_eq_of_lt (a := J1.toNat * J1.toNat) (by omega)]
  generalize J1.toNat * J1.toNat / 2 ^ 32 = x at *
  have hwx : ras.toNat * x < ras.toNat * 2 ^ 32 := Nat.mul_lt_mul_of_pos_left hx (by omega)
  have hy : ras.toNat * x / 2 ^ 32 < ras.toNat := by
    apply Nat.div_lt_of_lt_mul; rw [Nat.mul_comm (2 ^ 32)]; exact hwx
  rw [Nat.mod_eq_of_lt (a := ras.toNat * x) (by omega)]
  generalize ras.toNat * x / 2 ^ 32 = y at *
  have : (1 : UInt32).toNat = 1 := rfl
  refine ⟨?_, hy⟩
  omega


theorem start_pos (inst : Instance) (pos : Position) (hsl : pos.slice.toNat < 4)
    (hS : 4 * inst.segment_length.toNat < 2 ^ 32) :
    (if pos.pass ≠ 0 then
        if pos.slice.toUInt32 = ARGON2_SYNC_POINTS - 1 then 0
        else (pos.slice.toUInt32 + 1) * inst.segment_length
      else (0 : UInt32)).toNat = startW inst.segment_length.toNat pos.pass.toNat pos.slice.toNat := by
  have hp : pos.pass = 0 ↔ pos.pass.toNat = 0 := by
    rw [← UInt32.toNat_inj]; rfl
  have h3 : pos.slice.toUInt32 = ARGON2_SYNC_POINTS - 1 ↔ pos.slice.toNat = 3 := by
    rw [← UInt32.toNat_inj, u8_toUInt32_toNat]; rfl
  unfold startW
  by_cases c1 : pos.pass = 0
  · rw [if_neg (by simp [c1]), if_pos (Or.inl (hp.mp c1))]; rfl
  · have c1' : pos.pass.toNat ≠ 0 := fun hh => c1 (hp.mpr hh)
    rw [if_pos c1]
    by_cases c2 : pos.slice.toNat = 3
    · rw [if_pos (h3.mpr c2), if_pos (Or.inr c2)]; rfl
    · rw [if_neg (fun hh => c2 (h3.mp hh)), if_neg (by omega), UInt32.toNat_mul, UInt32.toNat_add,
        u8_toUInt32_toNat]
      have : (1 : UInt32).toNat = 1 := rfl
      rw [this]
      generalize pos.slice.toNat = sl at *
      have hsl3 : sl = 0 ∨ sl = 1 ∨ sl = 2 := by omega
      rcases hsl3 with rfl | rfl | rfl <;> omega

theorem index_alpha_eq (inst : Instance) (pos : Position) (J1 : UInt32) (same : Bool) (h : IdxOk inst pos same) :
    (index_alpha inst pos J1 same).toNat =
      refZ inst.lane_length.toNat pos.pass.toNat pos.slice.toNat pos.index.toNat J1.toNat same := by
  obtain ⟨hW, hW1⟩ := ras_eq inst pos same h
  obtain ⟨hll, hS, hsl, hidx, h0⟩ := h
  have hp : pos.pass = 0 ↔ pos.pass.toNat = 0 := by
    rw [← UInt32.toNat_inj]; rfl
  have hs : pos.slice = 0 ↔ pos.slice.toNat = 0 := by
    rw [← UInt8.toNat_inj]; rfl
  have hL := inst.lane_length.toNat_lt
  obtain ⟨b1, b2, b3, b4⟩ := sizeW_bound inst.segment_length.toNat pos.pass.toNat pos.slice.toNat pos.index.toNat
    same hS hsl hidx (fun a b => h0 (hp.mpr a) (hs.mpr b))
  have hst := start_pos inst pos hsl (by omega)
  unfold index_alpha refZ
  dsimp only
  generalize (if pos.pass = 0 then
      if pos.slice = 0 then
        pos.index - 1
      else if same then
        pos.slice.toUInt32 * inst.segment_length + pos.index - 1
      else
        pos.slice.toUInt32 * inst.segment_length + (if pos.index = 0 then 0xFFFFFFFF else 0)
    else
      if same then
        inst.lane_length - inst.segment_length + pos.index - 1
      else
        inst.lane_length - inst.segment_length + (if pos.index = 0 then 0xFFFFFFFF else 0) : UInt32) = ras at hW
  generalize (if pos.pass ≠ 0 then
        if pos.slice.toUInt32 = ARGON2_SYNC_POINTS - 1 then 0
        else (pos.slice.toUInt32 + 1) * inst.segment_length
      else (0 : UInt32)) = st at hst
  have hq4 : inst.lane_length.toNat / 4 = inst.segment_length.toNat := by omega
  rw [hq4]
  obtain ⟨r1, r2⟩ := rel_pos ras J1 (by omega)
  rw [abs_wrap st _ inst.lane_length (by rw [r1]; omega), r1, hst, hW]


theorem refZ_props (S r sl idx J1 : Nat) (same : Bool) (hS : 2 ≤ S) (hsl : sl < 4) (hidx : idx < S)
    (h0 : r = 0 → sl = 0 → 2 ≤ idx ∧ same = true) :
    let z := refZ (4 * S) r sl idx J1 same
    let j := sl * S + idx
    z < 4 * S ∧
    (same = true → z ≠ j ∧ (j = 0 → z ≠ 4 * S - 1) ∧ (j ≠ 0 → z ≠ j - 1)) ∧
    ¬ (j ≤ z ∧ z < (sl + 1) * S) ∧
    (r = 0 → z < j) ∧
    (same = false → ¬ (sl * S ≤ z ∧ z < (sl + 1) * S)) ∧
    (same = false → idx = 0 → (j = 0 → z ≠ 4 * S - 1) ∧ (j ≠ 0 → z ≠ j - 1)) := by
  intro z j
  obtain ⟨t, ht, hz⟩ : ∃ t, t = startW S r sl + (sizeW S r sl idx same - 1 -
      sizeW S r sl idx same * (J1 * J1 / 2 ^ 32) / 2 ^ 32) ∧ z = t % (4 * S) := by
    refine ⟨_, rfl, ?_⟩
    show refZ (4 * S) r sl idx J1 same = _
    unfold refZ
    rw [show 4 * S / 4 = S by omega]
  generalize sizeW S r sl idx same * (J1 * J1 / 2 ^ 32) / 2 ^ 32 = y at ht
  have hj : j = sl * S + idx := rfl
  generalize j = j' at *
  generalize z = z' at *
  have hsl4 : sl = 0 ∨ sl = 1 ∨ sl = 2 ∨ sl = 3 := by omega
  have hmod : ∀ t, t < 8 * S → (t % (4 * S) = t ∧ t < 4 * S) ∨ (t % (4 * S) = t - 4 * S ∧ 4 * S ≤ t) := by
    intro t ht
    by_cases c : t < 4 * S
    · left; exact ⟨Nat.mod_eq_of_lt c, c⟩
    · right; rw [Nat.mod_eq_sub_mod (by omega), Nat.mod_eq_of_lt (by omega)]; exact ⟨rfl, by omega⟩
  by_cases hr : r = 0 <;> cases same <;> by_cases hi : idx = 0 <;>
    rcases hsl4 with rfl | rfl | rfl | rfl <;> simp [sizeW, startW, hr, hi] at h0 ht ⊢ <;>
    (rcases hmod t (by omega) with ⟨e, e'⟩ | ⟨e, e'⟩ <;> rw [e] at hz <;> omega)
end Sodium.Argon2RefP
