import SodiumModel.Proofs.GcmAesniAgg
import SodiumModel.Proofs.GcmAesniAdBlocks
/-
  The table `st->hx` built by `precomp_for_block_count` / `precomp`: entry j holds H^(j+1) in the shifted form
  (x · η^(j+1) · x^(-127 j)), for an arbitrary previous content of the array.
-/
open Polynomial
namespace Sodium.GcmAesniP.GF
open Sodium Sodium.Model.GcmAesni Sodium.Spec Sodium.Spec.Gcm Sodium.GcmAesniP

theorem getD_set {α : Type} (l : List α) (i j : Nat) (a d : α) (hi : i < l.length) :
    (l.set i a).getD j d = if i = j then a else l.getD j d := by
  simp only [List.getD_eq_getElem?_getD, List.getElem?_set]
  split <;> simp [*]

noncomputable def pw (h0 : BlockVec) (j : Nat) : K := x * kap h0.toNat ^ (j + 1) * u ^ (127 * j)

theorem pw_mul (h0 : BlockVec) (i : Nat) (hi : 1 ≤ i) : pw h0 (i - 1) * pw h0 0 * u ^ 128 = pw h0 i := by
  obtain ⟨k, rfl⟩ : ∃ k, i = k + 1 := ⟨i - 1, by omega⟩
  simp only [pw, Nat.add_sub_cancel, Nat.mul_zero, pow_zero, mul_one, Nat.zero_add, pow_one]
  have e1 : 127 * (k + 1) = 127 * k + 127 := by ring
  have e2 : u ^ 128 = u ^ 127 * u := pow_succ u 127
  rw [e1, e2, pow_add, pow_succ (kap h0.toNat) (k + 1)]
  linear_combination (x * kap h0.toNat ^ (k + 1) * kap h0.toNat * u ^ (127 * k) * u ^ 127) * x_mul_u

theorem pw_sq (h0 : BlockVec) (k : Nat) : pw h0 k * pw h0 k * u ^ 128 = pw h0 (2 * k + 1) := by
  simp only [pw]
  have e1 : 127 * (2 * k + 1) = 127 * k + 127 * k + 127 := by ring
  have e2 : u ^ 128 = u ^ 127 * u := pow_succ u 127
  have e3 : 2 * k + 1 + 1 = (k + 1) + (k + 1) := by ring
  rw [e1, e2, e3, pow_add, pow_add, pow_add]
  linear_combination (x * kap h0.toNat ^ (k + 1) * kap h0.toNat ^ (k + 1) * u ^ (127 * k) * u ^ (127 * k) * u ^ 127) * x_mul_u

/-- `hx` is a 14-element array whose first `i` entries are right -/
def HxUpTo (h0 : BlockVec) (i : Nat) (hx : List BlockVec) : Prop :=
  hx.length = 14 ∧ ∀ j, j < i → kap (hx.getD j 0).toNat = pw h0 j

/-- one pass of the `precomp` loop body -/
def precompBody (h : BlockVec) (i : Nat) (hx : List BlockVec) : List BlockVec :=
  let hx := hx.set i (gcm_reduce (clmul128 (hx.getD (i - 1) 0) h))
  hx.set (i + 1) (gcm_reduce (clsq128 (hx.getD (i / 2) 0)))

theorem precompBody_ok (h0 h : BlockVec) (hh : kap h.toNat = pw h0 0) (k : Nat) (hk1 : 1 ≤ k) (hk2 : 2 * k + 1 < 14)
    (hx : List BlockVec) (H : HxUpTo h0 (2 * k) hx) : HxUpTo h0 (2 * k + 2) (precompBody h (2 * k) hx) := by
  obtain ⟨hl, H⟩ := H
  unfold precompBody
  refine ⟨by simp [hl], ?_⟩
  intro j hj
  have hdiv : 2 * k / 2 = k := by omega
  rw [getD_set _ _ _ _ _ (by simp [hl]; omega)]
  by_cases h1 : 2 * k + 1 = j
  · rw [if_pos h1, kap_sq, getD_set _ _ _ _ _ (by omega), hdiv, if_neg (by omega), H k (by omega), ← h1]
    exact pw_sq h0 k
  · rw [if_neg h1, getD_set _ _ _ _ _ (by omega)]
    by_cases h2 : 2 * k = j
    · rw [if_pos h2, ← mont, kap_mont, H (2 * k - 1) (by omega), hh, ← h2]
      exact pw_mul h0 (2 * k) (by omega)
    · rw [if_neg h2]; exact H j (by omega)

theorem precomp_unroll (hx : List BlockVec) :
    precomp hx 2 PC_COUNT =
      let h := hx.getD 0 0
      precompBody h 12 (precompBody h 10 (precompBody h 8 (precompBody h 6 (precompBody h 4 (precompBody h 2 hx))))) := by
  have e : (2 : Nat) &&& 0xfffffffe = 2 := by decide
  simp only [precomp, PC_COUNT, PARALLEL_BLOCKS, e]
  simp [forLoop, precompBody]

/-- the table built by `precomp_for_block_count(hx, gh_key, PC_COUNT)` -/
theorem precomp_ok (hx0 : List BlockVec) (hl : hx0.length = 14) (gh_key : Bytes) :
    HxUpTo (REV128 (LOAD128 gh_key)) 14 (precomp_for_block_count hx0 gh_key PC_COUNT) := by
  generalize hh0 : REV128 (LOAD128 gh_key) = h0
  have hstart : precomp_for_block_count hx0 gh_key PC_COUNT
      = precomp ((hx0.set 0 (hshift h0)).set 1 (gcm_reduce (clsq128 ((hx0.set 0 (hshift h0)).getD 0 0)))) 2 PC_COUNT := by
    unfold precomp_for_block_count
    simp only [hh0, ge_iff_le, Nat.le_refl, if_true]
    rfl
  rw [hstart, precomp_unroll]
  have g0 : (hx0.set 0 (hshift h0)).getD 0 0 = hshift h0 := by rw [getD_set _ _ _ _ _ (by omega)]; simp
  rw [g0]
  generalize hhx : (hx0.set 0 (hshift h0)).set 1 (gcm_reduce (clsq128 (hshift h0))) = hx
  have gh : hx.getD 0 0 = hshift h0 := by
    rw [← hhx, getD_set _ _ _ _ _ (by simp [hl]), if_neg (by decide), g0]
  have hp0 : kap (hshift h0).toNat = pw h0 0 := by rw [kap_hshift]; simp [pw]
  have H2 : HxUpTo h0 (2 * 1) hx := by
    refine ⟨by simp [← hhx, hl], ?_⟩
    intro j hj
    rw [← hhx, getD_set _ _ _ _ _ (by simp [hl])]
    by_cases h1 : 1 = j
    · rw [if_pos h1, kap_sq, hp0, ← h1]; exact pw_sq h0 0
    · have : j = 0 := by omega
      rw [if_neg h1, this, g0, hp0]
  dsimp only
  rw [gh]
  have H4 := precompBody_ok h0 _ hp0 1 (by decide) (by decide) _ H2
  have H6 := precompBody_ok h0 _ hp0 2 (by decide) (by decide) _ H4
  have H8 := precompBody_ok h0 _ hp0 3 (by decide) (by decide) _ H6
  have H10 := precompBody_ok h0 _ hp0 4 (by decide) (by decide) _ H8
  have H12 := precompBody_ok h0 _ hp0 5 (by decide) (by decide) _ H10
  have H14 := precompBody_ok h0 _ hp0 6 (by decide) (by decide) _ H12
  exact H14

end Sodium.GcmAesniP.GF
