import SodiumModel.Model.GcmAesni
import SodiumModel.Spec.Gcm
import SodiumModel.Proofs.GcmAesniBasic
/-
  AES-NI AES-256-GCM model: the counter blocks.

  The C keeps the counter block byte-reversed in a register:
    counter = REV128(LOAD128(counter_)),   counter_ = npub(12 bytes) ‖ STORE32_BE(2)
  so the NUMBER in the register is  be(npub) * 2^32 + ctr,  `REV128(counter)` stored to memory is
  the block `npub ‖ BE32(ctr)`, and `ADD64x2(counter, ONE128)` adds 1 to the low 64-bit lane
  (= be(npub[8..12]) * 2^32 + ctr).

  Results (all for EVERY starting counter value, so all byte-boundary carries are covered):
  * `counter_init`, `counter_step_spec`, `incr_counters_spec`: as long as the 32-bit counter field
    does not wrap, the blocks produced are exactly `ctrBlock npub (c + j) = npub ‖ BE32(c + j)`;
  * `inc32_ctrBlock`, `inc32_iter`, `gctrBlocks_ctrBlock`: these are the counter blocks of SP 800-38D;
  * `wrap_deviation*`: when the 32-bit field WOULD wrap the code carries into the nonce bytes 8..11
    instead of wrapping modulo 2^32 (`inc32`), unreachable because of `required_blocks`.
-/
namespace Sodium.GcmAesniP.Ctr
open Sodium Sodium.Spec Sodium.Model.GcmAesni

/-- the counter block `npub ‖ BE32(c)` -/
def ctrBlock (npub : Bytes) (c : Nat) : Bytes := npub ++ toBE 4 c

theorem ctrBlock_length (npub : Bytes) (h : npub.length = 12) (c : Nat) : (ctrBlock npub c).length = 16 := by
  simp [ctrBlock, toBE_length, h]

theorem ctrBlock_mod (npub : Bytes) (c : Nat) : ctrBlock npub (c % 2 ^ 32) = ctrBlock npub c := by
  unfold ctrBlock
  rw [show (2 : Nat) ^ 32 = 256 ^ 4 from by decide, toBE_mod]

/-- the number held (byte-reversed) in the register for the block `npub ‖ BE32(c)` -/
theorem be_ctrBlock (npub : Bytes) (c : Nat) (hc : c < 2 ^ 32) :
    be (ctrBlock npub c) = be npub * 2 ^ 32 + c := by
  unfold ctrBlock
  rw [be_append, be_toBE, toBE_length, show (256 : Nat) ^ 4 = 2 ^ 32 from by decide, Nat.mod_eq_of_lt hc]

/-- big-endian image of `be npub * 2^32 + c` -/
theorem toBE16_ctr (npub : Bytes) (h : npub.length = 12) (c : Nat) (hc : c < 2 ^ 32) :
    toBE 16 (be npub * 2 ^ 32 + c) = ctrBlock npub c := by
  rw [← be_ctrBlock npub c hc, toBE_be 16 _ (ctrBlock_length npub h c)]

/-! ### initial counter -/

theorem counter_init_gen (npub : Bytes) (h : npub.length = 12) (w : UInt32) :
    (REV128 (LOAD128 (npub.take NPUBBYTES ++ STORE32_BE w))).toNat = be npub * 2 ^ 32 + w.toNat := by
  have ht : npub.take NPUBBYTES = npub := List.take_of_length_le (by rw [h]; decide)
  rw [ht, STORE32_BE_eq, REV128_LOAD128_toNat _ (by simp [toBE_length, h])]
  exact be_ctrBlock npub w.toNat w.toNat_lt

theorem counter_init (npub : Bytes) (h : npub.length = 12) :
    (REV128 (LOAD128 (npub.take NPUBBYTES ++ STORE32_BE 2))).toNat = be npub * 2 ^ 32 + 2 :=
  counter_init_gen npub h 2

/-- the block used for the tag: `counter_.take NPUBBYTES ++ STORE32_BE 1 = npub ‖ 0 0 0 1 = J0` -/
theorem j0_block (npub : Bytes) (h : npub.length = 12) (w : UInt32) :
    (npub.take NPUBBYTES ++ STORE32_BE w).take NPUBBYTES ++ STORE32_BE 1 = npub ++ [0, 0, 0, 1] := by
  have ht : npub.take NPUBBYTES = npub := List.take_of_length_le (by rw [h]; decide)
  rw [ht, List.take_left' (by rw [h]; rfl)]
  rfl

/-! ### one step -/

/-- the block produced from the register -/
theorem counter_block_spec (npub : Bytes) (h : npub.length = 12) (counter : BlockVec) (c : Nat)
    (hc : counter.toNat = be npub * 2 ^ 32 + c) (h1 : c < 2 ^ 32) :
    STORE128 (REV128 counter) = ctrBlock npub c := by
  rw [STORE128_REV128, hc, toBE16_ctr npub h c h1]

theorem REV128_counter (npub : Bytes) (h : npub.length = 12) (counter : BlockVec) (c : Nat)
    (hc : counter.toNat = be npub * 2 ^ 32 + c) (h1 : c < 2 ^ 32) :
    REV128 counter = LOAD128 (ctrBlock npub c) := by
  rw [← counter_block_spec npub h counter c hc h1, LOAD128_STORE128]

/-- the increment: exact as long as the low 64-bit lane does not overflow, which holds when the 32-bit counter
    field does not overflow (`c + 1 < 2^32`), or when it just reaches `2^32` and the nonce bytes 8..11 are not
    all `ff` -/
theorem counter_add_spec (npub : Bytes) (counter : BlockVec) (c : Nat)
    (hc : counter.toNat = be npub * 2 ^ 32 + c)
    (h1 : c + 1 < 2 ^ 32 ∨ (c + 1 ≤ 2 ^ 32 ∧ be npub % 2 ^ 32 + 1 < 2 ^ 32)) :
    (ADD64x2 counter ONE128).toNat = be npub * 2 ^ 32 + (c + 1) := by
  rw [ADD64x2_ONE128_toNat counter (by rw [hc]; omega), hc]
  omega

/-- single-block loop step: `REV128(counter)` is the block `npub ‖ BE32(c)` and `ADD64x2(counter, one)` holds `c + 1` -/
theorem counter_step_spec (npub : Bytes) (h : npub.length = 12) (counter : BlockVec) (c : Nat)
    (hc : counter.toNat = be npub * 2 ^ 32 + c) (h1 : c + 1 < 2 ^ 32) :
    STORE128 (REV128 counter) = ctrBlock npub c ∧
    (ADD64x2 counter ONE128).toNat = be npub * 2 ^ 32 + (c + 1) :=
  ⟨counter_block_spec npub h counter c hc (by omega), counter_add_spec npub counter c hc (Or.inl h1)⟩

/-- the same with `c + 1 ≤ 2^32`, which needs the nonce bytes 8..11 not to be `ff ff ff ff` (see `counter_step_corner`) -/
theorem counter_step_spec_le (npub : Bytes) (h : npub.length = 12) (counter : BlockVec) (c : Nat)
    (hc : counter.toNat = be npub * 2 ^ 32 + c) (h1 : c + 1 ≤ 2 ^ 32) (hnp : be npub % 2 ^ 32 + 1 < 2 ^ 32) :
    STORE128 (REV128 counter) = ctrBlock npub c ∧
    (ADD64x2 counter ONE128).toNat = be npub * 2 ^ 32 + (c + 1) :=
  ⟨counter_block_spec npub h counter c hc (by omega), counter_add_spec npub counter c hc (Or.inr ⟨h1, hnp⟩)⟩

/-! ### `incr_counters` -/

theorem incr_counters_zero (counter : BlockVec) : incr_counters counter 0 = ([], counter) := rfl

theorem incr_counters_succ (counter : BlockVec) (n : Nat) :
    incr_counters counter (n + 1) =
      ((incr_counters counter n).1 ++ [REV128 (incr_counters counter n).2],
       ADD64x2 (incr_counters counter n).2 ONE128) := by
  simp only [incr_counters, List.range_succ, List.foldl_append, List.foldl_cons, List.foldl_nil]

theorem incr_counters_length (counter : BlockVec) (n : Nat) : (incr_counters counter n).1.length = n := by
  induction n with
  | zero => rfl
  | succ n ih => rw [incr_counters_succ]; simp [ih]

/-- the low-lane condition under which a batch of `n` increments is exact -/
theorem incr_counters_spec_gen (npub : Bytes) (h : npub.length = 12) (counter : BlockVec) (c n : Nat)
    (hc : counter.toNat = be npub * 2 ^ 32 + c) (hn : c + n ≤ 2 ^ 32)
    (hw : c + n < 2 ^ 32 ∨ be npub % 2 ^ 32 + 1 < 2 ^ 32) :
    (incr_counters counter n).1.map STORE128 = (List.range n).map (fun j => ctrBlock npub (c + j)) ∧
    (incr_counters counter n).2.toNat = be npub * 2 ^ 32 + (c + n) := by
  induction n with
  | zero => exact ⟨rfl, hc⟩
  | succ n ih =>
    obtain ⟨ih1, ih2⟩ := ih (by omega) (by omega)
    rw [incr_counters_succ]
    refine ⟨?_, ?_⟩
    · simp only [List.map_append, List.map_cons, List.map_nil, List.range_succ, ih1,
        counter_block_spec npub h _ (c + n) ih2 (by omega)]
    · show (ADD64x2 (incr_counters counter n).2 ONE128).toNat = _
      rw [counter_add_spec npub _ (c + n) ih2 (by omega)]
      omega

/-- `incr_counters(rev_counters, counter, n)`: for every `n` and every starting value `c` with `c + n < 2^32` the
    `n` blocks are `npub ‖ BE32(c)`, …, `npub ‖ BE32(c + n - 1)` and the returned register holds `c + n`. -/
theorem incr_counters_spec (npub : Bytes) (h : npub.length = 12) (counter : BlockVec) (c n : Nat)
    (hc : counter.toNat = be npub * 2 ^ 32 + c) (hn : c + n < 2 ^ 32) :
    (incr_counters counter n).1.map STORE128 = (List.range n).map (fun j => ctrBlock npub (c + j)) ∧
    (incr_counters counter n).2.toNat = be npub * 2 ^ 32 + (c + n) :=
  incr_counters_spec_gen npub h counter c n hc (by omega) (Or.inl hn)

/-- the BLOCKS are right up to and including the last value `2^32 - 1` of the 32-bit field (`c + n ≤ 2^32`) -/
theorem incr_counters_blocks (npub : Bytes) (h : npub.length = 12) (counter : BlockVec) (c n : Nat)
    (hc : counter.toNat = be npub * 2 ^ 32 + c) (hn : c + n ≤ 2 ^ 32) :
    (incr_counters counter n).1.map STORE128 = (List.range n).map (fun j => ctrBlock npub (c + j)) := by
  cases n with
  | zero => rfl
  | succ n =>
    obtain ⟨ih1, ih2⟩ := incr_counters_spec npub h counter c n hc (by omega)
    rw [incr_counters_succ]
    simp only [List.map_append, List.map_cons, List.map_nil, List.range_succ, ih1,
      counter_block_spec npub h _ (c + n) ih2 (by omega)]

/-- the registers themselves (what `encrypt_xor_wide` / `encrypt_xor_block` receive) -/
theorem incr_counters_regs (npub : Bytes) (h : npub.length = 12) (counter : BlockVec) (c n : Nat)
    (hc : counter.toNat = be npub * 2 ^ 32 + c) (hn : c + n ≤ 2 ^ 32) :
    (incr_counters counter n).1 = (List.range n).map (fun j => LOAD128 (ctrBlock npub (c + j))) := by
  have := congrArg (List.map LOAD128) (incr_counters_blocks npub h counter c n hc hn)
  simpa [List.map_map, Function.comp_def, LOAD128_STORE128] using this

theorem incr_counters_getD (npub : Bytes) (h : npub.length = 12) (counter : BlockVec) (c n : Nat)
    (hc : counter.toNat = be npub * 2 ^ 32 + c) (hn : c + n ≤ 2 ^ 32) (j : Nat) (hj : j < n) :
    (incr_counters counter n).1.getD j 0 = LOAD128 (ctrBlock npub (c + j)) := by
  rw [incr_counters_regs npub h counter c n hc hn]
  simp [List.getD, hj]

/-! ### link to the specification (SP 800-38D `inc_32`, GCTR) -/

/-- `inc_32` on a counter block, for EVERY `c` (both sides reduce the 32-bit field modulo 2^32) -/
theorem inc32_ctrBlock_gen (npub : Bytes) (h : npub.length = 12) (c : Nat) :
    Gcm.inc32 (ctrBlock npub c) = ctrBlock npub (c + 1) := by
  unfold Gcm.inc32 ctrBlock
  rw [List.take_left' h, List.drop_left' h, be_toBE, ← toBE_mod 4 (c % 256 ^ 4 + 1), ← toBE_mod 4 (c + 1)]
  congr 2
  omega

theorem inc32_ctrBlock (npub : Bytes) (h : npub.length = 12) (c : Nat) (_hc : c + 1 < 2 ^ 32) :
    Gcm.inc32 (ctrBlock npub c) = ctrBlock npub (c + 1) := inc32_ctrBlock_gen npub h c

theorem inc32_iter_gen (npub : Bytes) (h : npub.length = 12) (i c : Nat) :
    Nat.repeat Gcm.inc32 i (ctrBlock npub c) = ctrBlock npub (c + i) := by
  induction i generalizing c with
  | zero => rfl
  | succ i ih =>
    show Gcm.inc32 (Nat.repeat Gcm.inc32 i (ctrBlock npub c)) = _
    rw [ih, inc32_ctrBlock_gen npub h]
    rfl

theorem j0_eq (npub : Bytes) : npub ++ [0, 0, 0, 1] = ctrBlock npub 1 := rfl

/-- `inc_32^i(J0) = npub ‖ BE32(i + 1)`  (J0 = npub ‖ 0 0 0 1) -/
theorem inc32_iter (npub : Bytes) (h : npub.length = 12) (i : Nat) (_hi : i + 1 < 2 ^ 32) :
    Nat.repeat Gcm.inc32 i (npub ++ [0, 0, 0, 1]) = ctrBlock npub (i + 1) := by
  rw [j0_eq, inc32_iter_gen npub h, Nat.add_comm]

/-- the i-th CTR block of `Gcm.encrypt` (ICB = inc_32(J0)) is `npub ‖ BE32(i + 2)` -/
theorem ctr_block_i (npub : Bytes) (h : npub.length = 12) (i : Nat) (_hi : i < 2 ^ 32 - 2) :
    Nat.repeat Gcm.inc32 i (Gcm.inc32 (npub ++ [0, 0, 0, 1])) = ctrBlock npub (i + 2) := by
  rw [j0_eq, inc32_ctrBlock_gen npub h, inc32_iter_gen npub h, Nat.add_comm]

theorem icb_eq (npub : Bytes) (h : npub.length = 12) : Gcm.inc32 (npub ++ [0, 0, 0, 1]) = ctrBlock npub 2 := by
  rw [j0_eq, inc32_ctrBlock_gen npub h]

/-- GCTR with the counter blocks written out: block `j` is XORed with `CIPH(npub ‖ BE32(c + j))` -/
theorem gctrBlocks_ctrBlock (ciph : Bytes → Bytes) (npub : Bytes) (h : npub.length = 12) (xs : List Bytes) (c : Nat) :
    Gcm.gctrBlocks ciph (ctrBlock npub c) xs =
      List.zipWith (fun x k => xorBytes x (ciph (ctrBlock npub k))) xs (List.range' c xs.length) := by
  induction xs generalizing c with
  | nil => rfl
  | cons x xs ih =>
    rw [Gcm.gctrBlocks, inc32_ctrBlock_gen npub h, ih, List.length_cons, List.range'_succ,
      List.zipWith_cons_cons]

/-- the keystream part of `Gcm.encrypt` / `Gcm.decrypt`: block `j` uses `npub ‖ BE32(j + 2)` -/
theorem gctr_icb (ciph : Bytes → Bytes) (npub : Bytes) (h : npub.length = 12) (xs : List Bytes) :
    Gcm.gctrBlocks ciph (Gcm.inc32 (npub ++ [0, 0, 0, 1])) xs =
      List.zipWith (fun x k => xorBytes x (ciph (ctrBlock npub k))) xs (List.range' 2 xs.length) := by
  rw [icb_eq npub h, gctrBlocks_ctrBlock ciph npub h]

/-! ### the deviation at the limit of the 32-bit counter

  `inc_32` wraps the last four bytes modulo 2^32.  The code's `ADD64x2` is a 64-bit add on the low lane
  `be(npub[8..12]) * 2^32 + ctr`: when `ctr` passes `2^32 - 1` the carry goes INTO NONCE BYTES 8..11
  (and if those are `ff ff ff ff` the low lane wraps to 0 and the carry is lost: bytes 8..15 become 0).
  `required_blocks` refuses messages of `2^32 - 2` blocks or more (`required_blocks_ne_zero`), so the
  counter values used are `2 ≤ ctr ≤ 2 + m_blocks - 1 < 2^32 - 1` and the deviation is unreachable. -/

/-- general form: from the counter value `2^32 - 1` one more increment gives the block
    `BE96(be(npub) + 1) ‖ 00 00 00 00`, whereas `inc_32` gives `npub ‖ 00 00 00 00`; they differ. -/
theorem wrap_deviation (npub : Bytes) (h : npub.length = 12) (counter : BlockVec)
    (hc : counter.toNat = be npub * 2 ^ 32 + (2 ^ 32 - 1)) (hnp : be npub % 2 ^ 32 + 1 < 2 ^ 32) :
    STORE128 (REV128 counter) = ctrBlock npub (2 ^ 32 - 1) ∧
    STORE128 (REV128 (ADD64x2 counter ONE128)) = toBE 12 (be npub + 1) ++ [0, 0, 0, 0] ∧
    Gcm.inc32 (ctrBlock npub (2 ^ 32 - 1)) = npub ++ [0, 0, 0, 0] ∧
    STORE128 (REV128 (ADD64x2 counter ONE128)) ≠ Gcm.inc32 (STORE128 (REV128 counter)) := by
  have hb := counter_block_spec npub h counter _ hc (by decide)
  have ha := counter_add_spec npub counter _ hc (Or.inr ⟨by decide, hnp⟩)
  have e1 : STORE128 (REV128 (ADD64x2 counter ONE128)) = toBE 12 (be npub + 1) ++ [0, 0, 0, 0] := by
    rw [STORE128_REV128, ha,
      show be npub * 2 ^ 32 + (2 ^ 32 - 1 + 1) = (be npub + 1) * 256 ^ 4 + 0 from by omega,
      toBE_add 12 4 _ 0 (by decide)]
    rfl
  have e2 : Gcm.inc32 (ctrBlock npub (2 ^ 32 - 1)) = npub ++ [0, 0, 0, 0] := by
    rw [inc32_ctrBlock_gen npub h, ← ctrBlock_mod]
    rfl
  refine ⟨hb, e1, e2, ?_⟩
  rw [hb, e1, e2]
  intro he
  have h12 : toBE 12 (be npub + 1) = npub :=
    List.append_inj_left he (by rw [toBE_length, h])
  have := congrArg be h12
  rw [be_toBE] at this
  have hlt := be_lt npub
  rw [h] at hlt
  omega

/-- concrete counterexample: all-zero nonce, counter field `ff ff ff ff`; one `ADD64x2` sets nonce byte 11 to 1 -/
theorem wrap_deviation_example :
    let counter : BlockVec := REV128 (LOAD128 (zeros 12 ++ [0xff, 0xff, 0xff, 0xff]))
    counter.toNat = 2 ^ 32 - 1 ∧
    STORE128 (REV128 (ADD64x2 counter ONE128)) = [0, 0, 0, 0, 0, 0, 0, 0, 0, 0, 0, 1, 0, 0, 0, 0] ∧
    Gcm.inc32 (STORE128 (REV128 counter)) = [0, 0, 0, 0, 0, 0, 0, 0, 0, 0, 0, 0, 0, 0, 0, 0] ∧
    STORE128 (REV128 (ADD64x2 counter ONE128)) ≠ Gcm.inc32 (STORE128 (REV128 counter)) := by
  decide +kernel

/-- the corner where the carry is LOST: nonce bytes 8..11 = `ff ff ff ff` and counter field `ff ff ff ff`;
    the low lane wraps to 0 and the high lane is unchanged (this is also why `incr_counters_spec` with
    `c + n = 2^32` needs `be npub % 2^32 + 1 < 2^32` for the returned register) -/
theorem counter_step_corner :
    let npub : Bytes := [1, 2, 3, 4, 5, 6, 7, 8, 0xff, 0xff, 0xff, 0xff]
    let counter : BlockVec := REV128 (LOAD128 (ctrBlock npub (2 ^ 32 - 1)))
    counter.toNat = be npub * 2 ^ 32 + (2 ^ 32 - 1) ∧
    (ADD64x2 counter ONE128).toNat ≠ be npub * 2 ^ 32 + 2 ^ 32 ∧
    STORE128 (REV128 (ADD64x2 counter ONE128)) = [1, 2, 3, 4, 5, 6, 7, 8, 0, 0, 0, 0, 0, 0, 0, 0] := by
  decide +kernel

/-- hence the returned-register half of `incr_counters_spec` / `counter_step_spec` does NOT hold with the weaker
    hypothesis `c + n ≤ 2^32` alone (n = 1, c = 2^32 - 1, nonce bytes 8..11 = ff ff ff ff) -/
theorem incr_counters_spec_le_false :
    ¬ ∀ (npub : Bytes) (_ : npub.length = 12) (counter : BlockVec) (c n : Nat)
        (_ : counter.toNat = be npub * 2 ^ 32 + c) (_ : c + n ≤ 2 ^ 32),
        (incr_counters counter n).2.toNat = be npub * 2 ^ 32 + (c + n) := by
  intro hall
  have := hall [1, 2, 3, 4, 5, 6, 7, 8, 0xff, 0xff, 0xff, 0xff] rfl
    (REV128 (LOAD128 (ctrBlock [1, 2, 3, 4, 5, 6, 7, 8, 0xff, 0xff, 0xff, 0xff] (2 ^ 32 - 1)))) (2 ^ 32 - 1) 1
    (by decide +kernel) (by decide)
  revert this
  decide +kernel

/-- `required_blocks` accepts only `m_blocks < 2^32 - 2`: with the counter starting at 2 the largest counter value
    used is `2 + m_blocks - 1 < 2^32 - 1` and the register after the last increment holds `2 + m_blocks < 2^32` -/
theorem required_blocks_ne_zero (ad_len m_len : UInt64) (h : required_blocks ad_len m_len ≠ 0) :
    (m_len.toNat + 15) / 16 < 2 ^ 32 - 2 := by
  unfold required_blocks at h
  simp only at h
  split at h
  · exact absurd rfl h
  · rename_i hcond
    simp only [Bool.or_eq_true, decide_eq_true_eq, not_or] at hcond
    obtain ⟨⟨⟨⟨_, h2⟩, _⟩, _⟩, h5⟩ := hcond
    have e1 : (0xffffffffffffffff - UInt64.ofNat (2 * PARALLEL_BLOCKS * 16)).toNat = 2 ^ 64 - 1 - 224 := by decide
    have e2 : ((1 : UInt64) <<< 32 - 2).toNat = 2 ^ 32 - 2 := by decide
    rw [UInt64.not_lt, UInt64.le_iff_toNat_le, e1] at h2
    rw [UInt64.not_le, UInt64.lt_iff_toNat_lt, e2, UInt64.toNat_div, UInt64.toNat_add] at h5
    have e15 : (15 : UInt64).toNat = 15 := rfl
    have e16 : (16 : UInt64).toNat = 16 := rfl
    rw [e15, e16] at h5
    have := m_len.toNat_lt
    omega

/-- so every counter value reached while processing an accepted message is below `2^32` -/
theorem required_blocks_counter_bound (ad_len m_len : UInt64) (h : required_blocks ad_len m_len ≠ 0) :
    2 + (m_len.toNat + 15) / 16 < 2 ^ 32 := by
  have := required_blocks_ne_zero ad_len m_len h
  omega

/-! ### non-vacuity: concrete batches crossing byte boundaries -/

/-- a batch of 7 from 254: the second block already carries from byte 15 into byte 14 -/
example :
    let npub : Bytes := [0xca, 0xfe, 0xba, 0xbe, 0xfa, 0xce, 0xdb, 0xad, 0xde, 0xca, 0xf8, 0x88]
    let counter : BlockVec := REV128 (LOAD128 (ctrBlock npub 254))
    counter.toNat = be npub * 2 ^ 32 + 254 ∧
    (incr_counters counter 7).1.map STORE128 =
      [npub ++ [0, 0, 0, 254], npub ++ [0, 0, 0, 255], npub ++ [0, 0, 1, 0], npub ++ [0, 0, 1, 1],
       npub ++ [0, 0, 1, 2], npub ++ [0, 0, 1, 3], npub ++ [0, 0, 1, 4]] ∧
    (incr_counters counter 7).2.toNat = be npub * 2 ^ 32 + 261 := by
  decide +kernel

/-- the same through the theorem (hypotheses are satisfiable) -/
example :
    let npub : Bytes := [0xca, 0xfe, 0xba, 0xbe, 0xfa, 0xce, 0xdb, 0xad, 0xde, 0xca, 0xf8, 0x88]
    (incr_counters (REV128 (LOAD128 (ctrBlock npub 254))) 7).1.map STORE128 =
      (List.range 7).map (fun j => ctrBlock npub (254 + j)) :=
  (incr_counters_spec _ rfl _ 254 7 (by decide +kernel) (by decide)).1

/-- carries across two and three byte boundaries inside a batch, and up to the last value `2^32 - 1` -/
example :
    let npub : Bytes := [0xca, 0xfe, 0xba, 0xbe, 0xfa, 0xce, 0xdb, 0xad, 0xde, 0xca, 0xf8, 0x88]
    ((incr_counters (REV128 (LOAD128 (ctrBlock npub 65533))) 4).1.map STORE128 =
      [npub ++ [0, 0, 0xff, 0xfd], npub ++ [0, 0, 0xff, 0xfe], npub ++ [0, 0, 0xff, 0xff], npub ++ [0, 1, 0, 0]]) ∧
    ((incr_counters (REV128 (LOAD128 (ctrBlock npub (2 ^ 24 - 1)))) 2).1.map STORE128 =
      [npub ++ [0, 0xff, 0xff, 0xff], npub ++ [1, 0, 0, 0]]) ∧
    ((incr_counters (REV128 (LOAD128 (ctrBlock npub (2 ^ 32 - 2)))) 2).1.map STORE128 =
      [npub ++ [0xff, 0xff, 0xff, 0xfe], npub ++ [0xff, 0xff, 0xff, 0xff]]) := by
  decide +kernel

/-- `inc_32` side: `inc_32^5(J0) = npub ‖ 00 00 00 06` -/
example : Nat.repeat Gcm.inc32 5 (zeros 12 ++ [0, 0, 0, 1]) = zeros 12 ++ [0, 0, 0, 6] := by decide +kernel

/-- the initial register of the API entry points -/
example : (REV128 (LOAD128 ((zeros 12).take NPUBBYTES ++ STORE32_BE 2))).toNat = 2 := by decide +kernel

end Sodium.GcmAesniP.Ctr
