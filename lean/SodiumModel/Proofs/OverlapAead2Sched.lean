import SodiumModel.Model.OverlapAead
import SodiumModel.Proofs.OverlapAeadGcm
/-
  C13 / AES-256-GCM: the transcribed loop schedules `encBulk n` / `decBulk n` pass `encCheck` / `decCheck`
  for EVERY message length `n`, by induction over the loop structure.

  One generic loop lemma (`whileOps_check`): if a loop body, run from the state `S i` attached to the loop
  index, reaches `S (i + step)` whenever the loop condition holds (and an index invariant `Inv` is
  preserved), then the whole loop takes `S i` to `S (final index)`.  The checks distribute over `++`
  (`check_append`).  The pipelined loops use the lagged state `S i = (i, i − 112)` ("stored up to i, hashed
  up to i − 112"), all the others `S i = (i, i)`.
-/
open Sodium Sodium.Model Sodium.Model.Overlap Sodium.Model.OverlapAead
namespace Sodium.OverlapAeadP

/-- a schedule check that distributes over concatenation -/
def Seq (chk : List GOp → Nat × Nat → Option (Nat × Nat)) : Prop :=
  ∀ a b s, chk (a ++ b) s = (chk a s).bind (chk b)

theorem encCheck_seq (n : Nat) : Seq (encCheck n) := by
  intro a
  induction a with
  | nil => intro b s; simp [encCheck]
  | cons op a ih =>
    intro b s
    cases op with
    | xor off len =>
      simp only [List.cons_append, encCheck]
      split
      · exact ih b _
      · rfl
    | gh off len =>
      simp only [List.cons_append, encCheck]
      split
      · exact ih b _
      · rfl

theorem decCheck_seq (n : Nat) : Seq (decCheck n) := by
  intro a
  induction a with
  | nil => intro b s; simp [decCheck]
  | cons op a ih =>
    intro b s
    cases op with
    | xor off len =>
      simp only [List.cons_append, decCheck]
      split
      · exact ih b _
      · rfl
    | gh off len =>
      simp only [List.cons_append, decCheck]
      split
      · exact ih b _
      · rfl

theorem Seq.step {chk : List GOp → Nat × Nat → Option (Nat × Nat)} (hs : Seq chk) (a b : List GOp) (s t : Nat × Nat)
    (h : chk a s = some t) : chk (a ++ b) s = chk b t := by
  rw [hs a b s, h]; rfl

/-- the generic loop lemma -/
theorem whileOps_check {chk : List GOp → Nat × Nat → Option (Nat × Nat)} (hs : Seq chk) (hnil : ∀ s, chk [] s = some s)
    (cond : Nat → Bool) (step : Nat) (body : Nat → List GOp) (S : Nat → Nat × Nat) (Inv : Nat → Prop)
    (hInv : ∀ i, Inv i → cond i = true → Inv (i + step))
    (hbody : ∀ i, Inv i → cond i = true → chk (body i) (S i) = some (S (i + step))) :
    ∀ (fuel i : Nat), Inv i →
      chk (whileOps cond step body fuel i).2 (S i) = some (S (whileOps cond step body fuel i).1) ∧
      Inv (whileOps cond step body fuel i).1 ∧ i ≤ (whileOps cond step body fuel i).1
  | 0, i, hi => by simp [whileOps, hnil, hi]
  | fuel + 1, i, hi => by
    by_cases hc : cond i = true
    · obtain ⟨a, b, c⟩ := whileOps_check hs hnil cond step body S Inv hInv hbody fuel (i + step) (hInv i hi hc)
      simp only [whileOps, hc, if_true]
      rw [hs.step _ _ _ _ (hbody i hi hc)]
      exact ⟨a, b, by omega⟩
    · simp [whileOps, hc, hnil, hi]

theorem encCheck_nil (n : Nat) (s : Nat × Nat) : encCheck n [] s = some s := rfl
theorem decCheck_nil (n : Nat) (s : Nat × Nat) : decCheck n [] s = some s := rfl

/-- one XOR-store step of the encrypt check -/
theorem enc_xor (n off len : Nat) (r : List GOp) (x g : Nat) (h1 : off = x) (h2 : x + len ≤ n) :
    encCheck n (.xor off len :: r) (x, g) = encCheck n r (x + len, g) := by
  simp only [encCheck]; rw [if_pos ⟨h1, h2⟩]

theorem enc_gh (n off len : Nat) (r : List GOp) (x g : Nat) (h1 : off = g) (h2 : g + len ≤ x) :
    encCheck n (.gh off len :: r) (x, g) = encCheck n r (x, g + len) := by
  simp only [encCheck]; rw [if_pos ⟨h1, h2⟩]

theorem dec_xor (n off len : Nat) (r : List GOp) (x g : Nat) (h1 : off = x) (h2 : x + len ≤ n) :
    decCheck n (.xor off len :: r) (x, g) = decCheck n r (x + len, g) := by
  simp only [decCheck]; rw [if_pos ⟨h1, h2⟩]

theorem dec_gh (n off len : Nat) (r : List GOp) (x g : Nat) (h1 : off = g) (h2 : x ≤ g) (h3 : g + len ≤ n) :
    decCheck n (.gh off len :: r) (x, g) = decCheck n r (x, g + len) := by
  simp only [decCheck]; rw [if_pos ⟨h1, h2, h3⟩]

theorem some_pair {a b c d : Nat} (h1 : a = c) (h2 : b = d) : (some (a, b) : Option (Nat × Nat)) = some (c, d) := by
  subst h1; subst h2; rfl

end Sodium.OverlapAeadP
