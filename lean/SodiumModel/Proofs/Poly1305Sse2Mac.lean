import SodiumModel.Proofs.Poly1305Sse2
import SodiumModel.Proofs.Hash
/-
  Second part of the helper lemmas for Properties/C04PolySse2.lean: the padded last block of
  `poly1305_finish_ext`, the whole of `poly1305_finish_ext`, the `poly1305_update` buffering
  invariant, the link to `Spec.Poly1305.mac`, the end-to-end theorems.
-/
open Sodium Sodium.Model Sodium.Model.Poly1305Sse2
open Sodium.Model.Blake2bSimd (M128)
open Sodium.PolyDonnaP (val)
namespace Sodium.Poly1305Sse2P

/-! ### `poly1305_blocks(st, m, 32)` with an arbitrary HIBIT (the padded last block) -/

/-- a 16-byte block plus `hb·2^104` (`hb` = 2^24: the 2^128 bit; `hb` = 0: none), in the field -/
def cFh (hb : Nat) (m : Bytes) : F := ((blkVal m + hb * 2 ^ 104 : Nat) : F)

theorem blocks32_first_eq (st : State) (m : Bytes) (hs : st.flags &&& poly1305_started = 0) :
    poly1305_blocks st (some m) 32 =
      ({ st with H := blocks_store_H (blocks_first (hibitOf st.flags) m)
                 flags := st.flags ||| poly1305_started } : State) := by
  rw [blocks_some_eq]
  simp only [hs, if_true, show ¬ ((32 : Nat) - 32 ≥ 64) by omega, show ¬ ((32 : Nat) - 32 ≥ 32) by omega, if_false]

theorem blocks32_next_eq (st : State) (m : Bytes) (hs : st.flags &&& poly1305_started ≠ 0) :
    poly1305_blocks st (some m) 32 =
      ({ st with
          H := blocks_store_H
            (blocks_tail (hibitOf st.flags) (blocks_load_R2 st st.flags) (blocks_load_H st) (some m)) } : State) := by
  have hs' : ¬ (st.flags &&& poly1305_started = 0) := hs
  rw [blocks_some_eq]
  simp only [hs', if_false, show ¬ ((32 : Nat) ≥ 64) by omega, ge_iff_le, Nat.le_refl, if_true]

/-- first call with 32 bytes: lane `j` := block `j` (+ its hibit) -/
theorem blocks32_first (st : State) (m : Bytes) (hs : st.flags &&& poly1305_started = 0)
    (hH : ∀ j, HibOK j (hibitOf st.flags)) :
    HBst (poly1305_blocks st (some m) 32) ∧
    ∀ j, vF (stN j (poly1305_blocks st (some m) 32).H) =
      cFh (lane j (hibitOf st.flags)).toNat (blk j (m.drop 0) (m.drop 16)) := by
  rw [blocks32_first_eq st m hs]
  have lj : ∀ j, HBound (hN j (blocks_first (hibitOf st.flags) m)) ∧
      vF (hN j (blocks_first (hibitOf st.flags) m)) =
        cFh (lane j (hibitOf st.flags)).toNat (blk j (m.drop 0) (m.drop 16)) := by
    intro j
    obtain ⟨lt, v⟩ := first_val j (hibitOf st.flags) m (hH j)
    have hb : HBound (toNat5 j (blocks_first (hibitOf st.flags) m)) := by
      obtain ⟨l0, l1, l2, l3, l4⟩ := lt
      exact ⟨l0, by omega, l2, l3, by omega⟩
    rw [hN_of_hbound _ _ hb]
    refine ⟨hb, ?_⟩
    simp only [vF, cFh]
    rw [v]
  refine ⟨⟨?_, ?_⟩, ?_⟩
  · simp only [store_H_lane]; exact (lj false).1
  · simp only [store_H_lane]; exact (lj true).1
  · intro j; simp only [store_H_lane]; exact (lj j).2

/-- later call with 32 bytes: lane `j` := lane·r^2 + block `j` (+ its hibit) -/
theorem blocks32_next (r : F) (st : State) (m : Bytes) (hs : st.flags &&& poly1305_started ≠ 0)
    (hf : st.flags &&& (poly1305_final_r2_r ||| poly1305_final_r_1) = 0)
    (hH : ∀ j, HibOK j (hibitOf st.flags)) (hst : HBst st)
    (hR2 : RBound (nat5 st.R2)) (e2 : vF (nat5 st.R2) = r ^ 2) :
    HBst (poly1305_blocks st (some m) 32) ∧
    ∀ j, vF (stN j (poly1305_blocks st (some m) 32).H) =
      vF (stN j st.H) * r ^ 2 + cFh (lane j (hibitOf st.flags)).toNat (blk j (m.drop 0) (m.drop 16)) := by
  rw [blocks32_next_eq st m hs]
  have hK := multOK_R2 st st.flags hf hR2
  have lj : ∀ j, HBound (hN j (blocks_tail (hibitOf st.flags) (blocks_load_R2 st st.flags) (blocks_load_H st) (some m))) ∧
      vF (hN j (blocks_tail (hibitOf st.flags) (blocks_load_R2 st st.flags) (blocks_load_H st) (some m))) =
        vF (stN j st.H) * r ^ 2 + cFh (lane j (hibitOf st.flags)).toNat (blk j (m.drop 0) (m.drop 16)) := by
    intro j
    obtain ⟨a2, b2⟩ := hK.2 j
    obtain ⟨hb, k, hk⟩ := tail_some_lane j (hibitOf st.flags) (blocks_load_R2 st st.flags) (blocks_load_H st) m
      b2 (by rw [a2]; exact hK.1) (by rw [load_H_lane]; cases j; exact hst.1; exact hst.2) (hH j)
    rw [hN_of_hbound _ _ hb]
    refine ⟨hb, ?_⟩
    have := castF hk
    rw [a2, load_H_lane] at this
    simp only [vF, cFh]
    rw [this, Nat.cast_add, Nat.cast_mul]
    simp only [vF] at e2
    rw [e2]
  refine ⟨⟨?_, ?_⟩, ?_⟩
  · simp only [store_H_lane]; exact (lj false).1
  · simp only [store_H_lane]; exact (lj true).1
  · intro j; simp only [store_H_lane]; exact (lj j).2

/-! ### HIBIT for the flag values that occur -/

theorem hibitOf_shift8 (f : UInt64) (h8 : f &&& poly1305_final_shift8 ≠ 0)
    (h16 : f &&& poly1305_final_shift16 = 0) :
    (lane false (hibitOf f)).toNat = 2 ^ 24 ∧ (lane true (hibitOf f)).toNat = 0 := by
  have h16' : ¬ (f &&& poly1305_final_shift16 ≠ 0) := by simp [h16]
  unfold hibitOf
  simp only []
  rw [if_pos h8, if_neg h16', srli_si128_8]
  exact ⟨by decide, by decide⟩

theorem hibitOf_shift16 (f : UInt64) (h16 : f &&& poly1305_final_shift16 ≠ 0) :
    (lane false (hibitOf f)).toNat = 0 ∧ (lane true (hibitOf f)).toNat = 0 := by
  unfold hibitOf
  simp only []
  rw [if_pos h16]
  exact ⟨by decide, by decide⟩


/-! ### `poly1305_block_copy31` and the padded final block -/

theorem copy_step (t : Bytes) (off k : Nat) (h : off + k ≤ t.length) :
    storeAt (t.take off ++ zeros (32 - off)) off ((t.drop off).take k)
      = t.take (off + k) ++ zeros (32 - (off + k)) := by
  have hl : (t.take off).length = off := by simp; omega
  have hk : ((t.drop off).take k).length = k := by simp; omega
  unfold storeAt
  rw [hk, List.take_append, List.drop_append, hl, List.take_add]
  simp only [Nat.sub_self, List.take_zero, List.append_nil, List.take_take, Nat.min_self, zeros,
    List.drop_replicate, Nat.add_sub_cancel_left, List.append_assoc]
  have : (t.take off).drop (off + k) = [] := by
    apply List.drop_eq_nil_of_le; omega
  rw [this, List.nil_append]
  congr 3
  omega

theorem bits31 : ∀ L, L < 32 →
    (L &&& 16 = 0 ∨ L &&& 16 = 16) ∧ (L &&& 8 = 0 ∨ L &&& 8 = 8) ∧ (L &&& 4 = 0 ∨ L &&& 4 = 4) ∧
    (L &&& 2 = 0 ∨ L &&& 2 = 2) ∧ (L &&& 1 = 0 ∨ L &&& 1 = 1) ∧
    (L &&& 16) + (L &&& 8) + (L &&& 4) + (L &&& 2) + (L &&& 1) = L := by decide

theorem copy_step' (t : Bytes) (L k : Nat) (s : Bytes × Nat) (hk0 : k ≠ 0) (hk : L &&& k = 0 ∨ L &&& k = k)
    (hs : s.1 = t.take s.2 ++ zeros (32 - s.2)) (hb : s.2 + (L &&& k) ≤ t.length) :
    (if L &&& k ≠ 0 then (storeAt s.1 s.2 ((t.drop s.2).take k), s.2 + k) else s).1
      = t.take (s.2 + (L &&& k)) ++ zeros (32 - (s.2 + (L &&& k))) ∧
    (if L &&& k ≠ 0 then (storeAt s.1 s.2 ((t.drop s.2).take k), s.2 + k) else s).2 = s.2 + (L &&& k) := by
  rcases hk with h | h
  · have : ¬ (L &&& k ≠ 0) := by simp [h]
    rw [if_neg this, h, Nat.add_zero]
    exact ⟨hs, rfl⟩
  · have : L &&& k ≠ 0 := by rw [h]; exact hk0
    rw [if_pos this, h]
    rw [h] at hb
    exact ⟨by rw [hs]; exact copy_step t s.2 k hb, rfl⟩

theorem copy31_spec (t : Bytes) (L : Nat) (hL : L < 32) (ht : t.length = L) :
    poly1305_block_copy31 (zeros 32) t L = t ++ zeros (32 - L) := by
  obtain ⟨b16, b8, b4, b2, b1, hsum⟩ := bits31 L hL
  unfold poly1305_block_copy31
  simp only []
  obtain ⟨a1, a2⟩ := copy_step' t L 16 (zeros 32, 0) (by decide) b16 (by simp) (by simp only; omega)
  generalize (if L &&& 16 ≠ 0 then (storeAt (zeros 32, 0).1 (zeros 32, 0).2 ((t.drop (zeros 32, 0).2).take 16),
    (zeros 32, 0).2 + 16) else (zeros 32, 0)) = s1 at a1 a2 ⊢
  simp only [Nat.zero_add] at a1 a2
  obtain ⟨c1, c2⟩ := copy_step' t L 8 s1 (by decide) b8 (by rw [a1, a2]) (by rw [a2]; omega)
  generalize (if L &&& 8 ≠ 0 then (storeAt s1.1 s1.2 ((t.drop s1.2).take 8), s1.2 + 8) else s1) = s2 at c1 c2 ⊢
  obtain ⟨d1, d2⟩ := copy_step' t L 4 s2 (by decide) b4 (by rw [c1, c2]) (by rw [c2, a2]; omega)
  generalize (if L &&& 4 ≠ 0 then (storeAt s2.1 s2.2 ((t.drop s2.2).take 4), s2.2 + 4) else s2) = s3 at d1 d2 ⊢
  obtain ⟨e1, e2⟩ := copy_step' t L 2 s3 (by decide) b2 (by rw [d1, d2]) (by rw [d2, c2, a2]; omega)
  generalize (if L &&& 2 ≠ 0 then (storeAt s3.1 s3.2 ((t.drop s3.2).take 2), s3.2 + 2) else s3) = s4 at e1 e2 ⊢
  obtain ⟨f1, f2⟩ := copy_step' t L 1 s4 (by decide) b1 (by rw [e1, e2]) (by rw [e2, d2, c2, a2]; omega)
  rw [f1, e2, d2, c2, a2]
  have : (L &&& 16) + (L &&& 8) + (L &&& 4) + (L &&& 2) + (L &&& 1) = t.length := by omega
  rw [this, List.take_length, ht]

theorem set_pad (t : Bytes) (n : Nat) : (t ++ zeros (n + 1)).set t.length 1 = t ++ 1 :: zeros n := by
  induction t with
  | nil => simp [zeros, List.replicate_succ]
  | cons x xs ih => simpa using ih

theorem pow8 (L : Nat) : 256 ^ L = 2 ^ (8 * L) := by
  rw [Nat.pow_mul]

/-- the two 16-byte halves of a 32-byte buffer as numbers -/
theorem halves (f : Bytes) (hf : f.length = 32) :
    blkVal f = le f % 2 ^ 128 ∧ blkVal (f.drop 16) = le f / 2 ^ 128 := by
  have h1 := le_split f 16 (by omega)
  have h2 := PolyDonnaP.le_take_lt f 16
  have h3 : le ((f.drop 16).take 16) = le (f.drop 16) := le_take_full _ 16 (by simp; omega)
  simp only [blkVal]
  rw [h3]
  have e : (256 : Nat) ^ 16 = 2 ^ 128 := by decide
  rw [e] at h1 h2
  omega

/-- `final` of `poly1305_finish_ext` -/
def finalBuf (t : Bytes) (L : Nat) : Bytes :=
  let final := poly1305_block_copy31 (zeros 32) t L
  if L ≠ 16 then final.set L 1 else final

theorem finalBuf_spec (t : Bytes) (L : Nat) (hL : L < 32) (ht : t.length = L) :
    (finalBuf t L).length = 32 ∧ le (finalBuf t L) = le t + (if L = 16 then 0 else 2 ^ (8 * L)) := by
  unfold finalBuf
  simp only []
  rw [copy31_spec t L hL ht]
  by_cases h : L = 16
  · have : ¬ (L ≠ 16) := by simp [h]
    rw [if_neg this, if_pos h]
    refine ⟨by simp [zeros_length, ht]; omega, ?_⟩
    rw [le_append, le_zeros]; simp
  · rw [if_pos h, if_neg h]
    obtain ⟨n, hn⟩ : ∃ n, 32 - L = n + 1 := ⟨31 - L, by omega⟩
    rw [hn, ← ht, set_pad]
    refine ⟨by simp [zeros_length]; omega, ?_⟩
    rw [le_pad1]

/-! ### the specification's Horner form with a short last chunk -/

/-- a (possibly short) chunk with its padding bit, in the field -/
def chunkF (b : Bytes) : F := ((le b + 2 ^ (8 * b.length) : Nat) : F)

/-- RFC 8439 §2.5.1 over the 16-byte chunks of `m` (the last may be short), in the field -/
def hornerF (r : F) : Nat → F → Bytes → F
  | 0, A, _ => A
  | n + 1, A, m => if m.isEmpty then A else hornerF r n ((A + chunkF (m.take 16)) * r) (m.drop 16)

theorem final_vals (t : Bytes) (L : Nat) (hL : L < 32) (ht : t.length = L) :
    (L < 16 → blkVal (finalBuf t L) = le t + 2 ^ (8 * L) ∧ blkVal ((finalBuf t L).drop 16) = 0) ∧
    (L = 16 → blkVal (finalBuf t L) = le t ∧ blkVal ((finalBuf t L).drop 16) = 0) ∧
    (16 < L → blkVal (finalBuf t L) = le (t.take 16) ∧
      blkVal ((finalBuf t L).drop 16) = le (t.drop 16) + 2 ^ (8 * (L - 16))) := by
  obtain ⟨fl, fv⟩ := finalBuf_spec t L hL ht
  obtain ⟨h1, h2⟩ := halves _ fl
  have hlt := le_lt t
  rw [ht, pow8] at hlt
  rw [h1, h2, fv]
  refine ⟨?_, ?_, ?_⟩
  · intro h
    have : ¬ L = 16 := by omega
    rw [if_neg this]
    have hp : 2 ^ (8 * L) ≤ 2 ^ 120 := Nat.pow_le_pow_right (by decide) (by omega)
    generalize 2 ^ (8 * L) = E at *
    omega
  · intro h
    rw [if_pos h]
    rw [h] at hlt
    omega
  · intro h
    have : ¬ L = 16 := by omega
    rw [if_neg this]
    have hs := le_split t 16 (by omega)
    have ht16 := PolyDonnaP.le_take_lt t 16
    have e : (256 : Nat) ^ 16 = 2 ^ 128 := by decide
    rw [e] at hs ht16
    have hp : 2 ^ (8 * L) = 2 ^ 128 * 2 ^ (8 * (L - 16)) := by
      rw [← Nat.pow_add]; congr 1; omega
    rw [hp, hs]
    generalize 2 ^ (8 * (L - 16)) = E at *
    generalize le (t.take 16) = lo at *
    generalize le (t.drop 16) = hi at *
    have e1 : lo + 2 ^ 128 * hi + 2 ^ 128 * E = lo + 2 ^ 128 * (hi + E) := by rw [Nat.mul_add]; omega
    rw [e1]
    constructor
    · rw [Nat.add_mul_mod_self_left]; omega
    · rw [Nat.add_mul_div_left _ _ (by decide : 0 < 2 ^ 128)]; omega

/-! ### `poly1305_finish_ext` in two stages -/

/-- stage 1: the padded last block -/
def fin1 (st : State) (t : Bytes) (L : Nat) : State :=
  if L ≠ 0 then
    poly1305_blocks { st with flags := st.flags |||
      (if L ≥ 16 then poly1305_final_shift8 else poly1305_final_shift16) } (some (finalBuf t L)) 32
  else st

/-- stage 2: the final multiplication and reduction -/
def fin2 (st : State) (L : Nat) : State :=
  if st.flags &&& poly1305_started ≠ 0 then
    poly1305_blocks
      (if L = 0 ∨ L > 16 then { st with flags := st.flags ||| poly1305_final_r2_r }
       else { st with flags := st.flags ||| poly1305_final_r_1 }) none 32
  else st

theorem finish_ext_eq (st : State) (t : Bytes) (L : Nat) :
    poly1305_finish_ext st t L =
      finish_tail (fin2 (fin1 st t L) L).H.l0 (fin2 (fin1 st t L) L).H.l1 (fin2 (fin1 st t L) L).H.l2
        (fin2 (fin1 st t L) L).pad := rfl

/-- the accumulated lanes (a, b) as field elements, 0 before the first block -/
def laneF (st : State) (j : Bool) : F := if st.flags &&& poly1305_started ≠ 0 then vF (stN j st.H) else 0

/-- The padded last block at state level: for `0 < L < 32` bytes `t`, with flags = 0 or `started`,
    `fin1` sets `started`, keeps R / R2 / pad, and the lanes become
    (a·r^2 + x_a, b·r^2 + x_b) (resp. (x_a, x_b) before the first block) where, for L ≤ 16,
    x_a = the padded chunk `t` and x_b = 0, and for L > 16, x_a = the full block `t[0..16)` and
    x_b = the padded chunk `t[16..L)` — exactly the chunks of RFC 8439. -/
theorem fin1_spec (r : F) (st : State) (t : Bytes) (L : Nat) (h0 : 0 < L) (hL : L < 32) (ht : t.length = L)
    (hfl : st.flags = 0 ∨ st.flags = 1) (hst : st.flags = 1 → HBst st)
    (hR2 : st.flags = 1 → RBound (nat5 st.R2) ∧ vF (nat5 st.R2) = r ^ 2) :
    ((fin1 st t L).flags = 5 ∨ (fin1 st t L).flags = 9) ∧ HBst (fin1 st t L) ∧
    (fin1 st t L).R = st.R ∧ (fin1 st t L).R2 = st.R2 ∧ (fin1 st t L).pad = st.pad ∧
    vF (stN false (fin1 st t L).H) = laneF st false * r ^ 2 + (if L ≤ 16 then chunkF t else chunkF (t.take 16)) ∧
    vF (stN true (fin1 st t L).H) = laneF st true * r ^ 2 + (if L ≤ 16 then 0 else chunkF (t.drop 16)) := by
  have hne : L ≠ 0 := by omega
  obtain ⟨v1, v2, v3⟩ := final_vals t L hL ht
  unfold fin1
  rw [if_pos hne]
  -- the values of the two lanes of the padded block, for the HIBIT selected by the flags
  have key : ∀ (f : UInt64),
      ((L ≥ 16 → f &&& poly1305_final_shift8 ≠ 0 ∧ f &&& poly1305_final_shift16 = 0) ∧
       (¬ L ≥ 16 → f &&& poly1305_final_shift16 ≠ 0)) →
      (∀ j, HibOK j (hibitOf f)) ∧
      cFh (lane false (hibitOf f)).toNat (blk false ((finalBuf t L).drop 0) ((finalBuf t L).drop 16))
        = (if L ≤ 16 then chunkF t else chunkF (t.take 16)) ∧
      cFh (lane true (hibitOf f)).toNat (blk true ((finalBuf t L).drop 0) ((finalBuf t L).drop 16))
        = (if L ≤ 16 then 0 else chunkF (t.drop 16)) := by
    intro f hf
    simp only [blk, Bool.false_eq_true, if_false, if_true, List.drop_zero, cFh, chunkF]
    by_cases h16 : L ≥ 16
    · obtain ⟨e1, e2⟩ := hibitOf_shift8 f (hf.1 h16).1 (hf.1 h16).2
      refine ⟨fun j => by cases j; exact Or.inr e1; exact Or.inl e2, ?_, ?_⟩
      · rw [e1]
        by_cases hq : L = 16
        · rw [if_pos (by omega), (v2 hq).1, ht, hq, show (2 : Nat) ^ 24 * 2 ^ 104 = 2 ^ (8 * 16) by decide]
        · rw [if_neg (by omega), (v3 (by omega)).1]
          have : (t.take 16).length = 16 := by simp; omega
          rw [this, show (2 : Nat) ^ 24 * 2 ^ 104 = 2 ^ (8 * 16) by decide]
      · rw [e2]
        by_cases hq : L = 16
        · rw [if_pos (by omega), (v2 hq).2]; simp
        · rw [if_neg (by omega), (v3 (by omega)).2]
          have : (t.drop 16).length = L - 16 := by simp; omega
          rw [this]; simp
    · obtain ⟨e1, e2⟩ := hibitOf_shift16 f (hf.2 h16)
      refine ⟨fun j => by cases j; exact Or.inl e1; exact Or.inl e2, ?_, ?_⟩
      · rw [e1, if_pos (by omega), (v1 (by omega)).1, ht]; simp
      · rw [e2, if_pos (by omega), (v1 (by omega)).2]; simp
  rcases hfl with f0 | f1
  · -- not started
    have hl0 : ∀ j, laneF st j = 0 := by
      intro j; unfold laneF; rw [f0]; rfl
    rw [hl0, hl0, zero_mul, zero_add, zero_add]
    generalize hst' : ({ st with flags := st.flags |||
      (if L ≥ 16 then poly1305_final_shift8 else poly1305_final_shift16) } : State) = st'
    have hfl' : st'.flags = if L ≥ 16 then 4 else 8 := by
      rw [← hst']; simp only [f0]; split <;> decide
    have hs : st'.flags &&& poly1305_started = 0 := by rw [hfl']; split <;> decide
    obtain ⟨k1, k2, k3⟩ := key st'.flags (by
      rw [hfl']
      constructor
      · intro h; rw [if_pos h]; exact ⟨by decide, by decide⟩
      · intro h; rw [if_neg h]; decide)
    obtain ⟨b1, b2⟩ := blocks32_first st' (finalBuf t L) hs k1
    rw [blocks32_first_eq st' _ hs] at b1 b2 ⊢
    refine ⟨?_, b1, by rw [← hst'], by rw [← hst'], by rw [← hst'], ?_, ?_⟩
    · show st'.flags ||| poly1305_started = 5 ∨ st'.flags ||| poly1305_started = 9
      rw [hfl']; split
      · left; decide
      · right; decide
    · rw [b2 false, k2]
    · rw [b2 true, k3]
  · -- started
    have hl1 : ∀ j, laneF st j = vF (stN j st.H) := by
      intro j; unfold laneF; rw [f1]; rfl
    rw [hl1, hl1]
    generalize hst' : ({ st with flags := st.flags |||
      (if L ≥ 16 then poly1305_final_shift8 else poly1305_final_shift16) } : State) = st'
    have hfl' : st'.flags = if L ≥ 16 then 5 else 9 := by
      rw [← hst']; simp only [f1]; split <;> decide
    have hs : st'.flags &&& poly1305_started ≠ 0 := by rw [hfl']; split <;> decide
    have hf : st'.flags &&& (poly1305_final_r2_r ||| poly1305_final_r_1) = 0 := by rw [hfl']; split <;> decide
    obtain ⟨k1, k2, k3⟩ := key st'.flags (by
      rw [hfl']
      constructor
      · intro h; rw [if_pos h]; exact ⟨by decide, by decide⟩
      · intro h; rw [if_neg h]; decide)
    have eH : st'.H = st.H := by rw [← hst']
    have eR2 : st'.R2 = st.R2 := by rw [← hst']
    obtain ⟨b1, b2⟩ := blocks32_next r st' (finalBuf t L) hs hf k1
      (by unfold HBst; rw [eH]; exact hst f1) (by rw [eR2]; exact (hR2 f1).1) (by rw [eR2]; exact (hR2 f1).2)
    rw [blocks32_next_eq st' _ hs] at b1 b2 ⊢
    refine ⟨?_, b1, by rw [← hst'], by rw [← hst'], by rw [← hst'], ?_, ?_⟩
    · show st'.flags = 5 ∨ st'.flags = 9
      rw [hfl']; split
      · left; rfl
      · right; rfl
    · rw [b2 false, k2, eH]
    · rw [b2 true, k3, eH]

theorem val26_one : val26 (⟨1, 0, 0, 0, 0⟩ : L5 Nat) = 1 := by simp [val26]

/-- stage 2 at state level: from `started` lanes (a, b) the three words `h[0 … 2]` are canonical
    limbs of a·r^2 + b·r (L = 0 or L > 16) resp. a·r + b (0 < L ≤ 16) -/
theorem fin2_spec (r : F) (st : State) (L : Nat)
    (hc : st.flags = 1 ∨ st.flags = 5 ∨ st.flags = 9) (hst : HBst st)
    (hR : RBound (nat5 st.R) ∧ vF (nat5 st.R) = r)
    (hR2 : (L = 0 ∨ L > 16) → RBound (nat5 st.R2) ∧ vF (nat5 st.R2) = r ^ 2) :
    (fin2 st L).H.l0.toNat < 2 ^ 44 ∧ (fin2 st L).H.l1.toNat < 2 ^ 44 ∧ (fin2 st L).H.l2.toNat < 2 ^ 42 ∧
    (fin2 st L).pad = st.pad ∧
    ∃ X, val ((fin2 st L).H.l0, (fin2 st L).H.l1, (fin2 st L).H.l2) = X % (2 ^ 130 - 5) ∧
      (X : F) = if L = 0 ∨ L > 16 then vF (stN false st.H) * r ^ 2 + vF (stN true st.H) * r
                else vF (stN false st.H) * r + vF (stN true st.H) := by
  have hs : st.flags &&& poly1305_started ≠ 0 := by
    rcases hc with h | h | h <;> rw [h] <;> decide
  unfold fin2
  rw [if_pos hs]
  by_cases hq : L = 0 ∨ L > 16
  · rw [if_pos hq, if_pos hq]
    generalize hst' : ({ st with flags := st.flags ||| poly1305_final_r2_r } : State) = st'
    have hfl : st'.flags = st.flags ||| poly1305_final_r2_r := by rw [← hst']
    have f1 : st'.flags &&& poly1305_started ≠ 0 := by
      rw [hfl]; rcases hc with h | h | h <;> rw [h] <;> decide
    have f2 : st'.flags &&& (poly1305_final_r2_r ||| poly1305_final_r_1) ≠ 0 := by
      rw [hfl]; rcases hc with h | h | h <;> rw [h] <;> decide
    have f3 : st'.flags &&& poly1305_final_r2_r ≠ 0 := by
      rw [hfl]; rcases hc with h | h | h <;> rw [h] <;> decide
    have eH : st'.H = st.H := by rw [← hst']
    have eR : st'.R = st.R := by rw [← hst']
    have eR2 : st'.R2 = st.R2 := by rw [← hst']
    have eP : st'.pad = st.pad := by rw [← hst']
    obtain ⟨a0, a1, a2, av, ap⟩ := blocks_null_spec st' f1 f2 (by rw [eH]; exact hst.1) (by rw [eH]; exact hst.2)
      (by rw [eR]; exact hR.1) (fun _ => by rw [eR2]; exact (hR2 hq).1)
    refine ⟨a0, a1, a2, by rw [ap, eP], _, av, ?_⟩
    simp only [finalK, if_pos f3, Bool.false_eq_true, if_false, if_true, eH, eR, eR2]
    rw [Nat.cast_add, Nat.cast_mul, Nat.cast_mul]
    have e1 := hR.2
    have e2 := (hR2 hq).2
    simp only [vF] at e1 e2 ⊢
    rw [e1, e2]
  · rw [if_neg hq, if_neg hq]
    generalize hst' : ({ st with flags := st.flags ||| poly1305_final_r_1 } : State) = st'
    have hfl : st'.flags = st.flags ||| poly1305_final_r_1 := by rw [← hst']
    have f1 : st'.flags &&& poly1305_started ≠ 0 := by
      rw [hfl]; rcases hc with h | h | h <;> rw [h] <;> decide
    have f2 : st'.flags &&& (poly1305_final_r2_r ||| poly1305_final_r_1) ≠ 0 := by
      rw [hfl]; rcases hc with h | h | h <;> rw [h] <;> decide
    have f3 : ¬ (st'.flags &&& poly1305_final_r2_r ≠ 0) := by
      rw [hfl]; rcases hc with h | h | h <;> rw [h] <;> decide
    have eH : st'.H = st.H := by rw [← hst']
    have eR : st'.R = st.R := by rw [← hst']
    have eP : st'.pad = st.pad := by rw [← hst']
    obtain ⟨a0, a1, a2, av, ap⟩ := blocks_null_spec st' f1 f2 (by rw [eH]; exact hst.1) (by rw [eH]; exact hst.2)
      (by rw [eR]; exact hR.1) (fun h => absurd h f3)
    refine ⟨a0, a1, a2, by rw [ap, eP], _, av, ?_⟩
    simp only [finalK, if_neg f3, Bool.false_eq_true, if_false, if_true, eH, eR, val26_one]
    rw [Nat.cast_add, Nat.cast_mul, Nat.cast_mul, Nat.cast_one, mul_one]
    have e1 := hR.2
    simp only [vF] at e1 ⊢
    rw [e1]

theorem hornerF_nil (r A : F) (n : Nat) : hornerF r n A [] = A := by
  cases n <;> simp [hornerF]

theorem hornerF_short (r A : F) (t : Bytes) (n : Nat) (h0 : 0 < t.length) (h16 : t.length ≤ 16) :
    hornerF r (n + 1) A t = (A + chunkF t) * r := by
  have hne : t.isEmpty = false := by
    cases t with
    | nil => simp at h0
    | cons _ _ => rfl
  simp only [hornerF, hne, Bool.false_eq_true, if_false]
  rw [List.take_of_length_le h16, List.drop_eq_nil_of_le h16, hornerF_nil]

theorem hornerF_long (r A : F) (t : Bytes) (n : Nat) (h16 : 16 < t.length) (h32 : t.length ≤ 32) :
    hornerF r (n + 2) A t = ((A + chunkF (t.take 16)) * r + chunkF (t.drop 16)) * r := by
  have hne : t.isEmpty = false := by
    cases t with
    | nil => simp at h16
    | cons _ _ => rfl
  simp only [hornerF, hne, Bool.false_eq_true, if_false]
  exact hornerF_short r _ (t.drop 16) n (by simp; omega) (by simp; omega)

/-- `poly1305_finish_ext(st, t, L)` (`L = |t| < 32` leftover bytes) from a state that is fresh
    (flags = 0, H = 0) or `started` with lanes standing for the accumulator `A`: the tag is
    `(X mod p + pad) mod 2^128` where X is `A` advanced over the chunks of `t` as in RFC 8439.
    `R2` has to be valid only if `started` or `L > 16`. -/
theorem finish_ext_spec (r : F) (s : Nat) (st : State) (A : F) (t : Bytes) (L : Nat)
    (hL : L < 32) (ht : t.length = L) (hfl : st.flags = 0 ∨ st.flags = 1)
    (h0 : st.flags = 0 → st.H.l0 = 0 ∧ st.H.l1 = 0 ∧ st.H.l2 = 0 ∧ A = 0)
    (h1 : st.flags = 1 → HBst st ∧ AFst r st = A)
    (hR : RBound (nat5 st.R) ∧ vF (nat5 st.R) = r)
    (hR2 : (st.flags = 1 ∨ L > 16) → RBound (nat5 st.R2) ∧ vF (nat5 st.R2) = r ^ 2)
    (hp : st.pad.1.toNat + 2 ^ 64 * st.pad.2.toNat = s) :
    ∃ X : Nat, (X : F) = hornerF r 2 A t ∧
      poly1305_finish_ext st t L = toLE 16 ((X % (2 ^ 130 - 5) + s) % 2 ^ 128) := by
  rw [finish_ext_eq]
  by_cases hz : L = 0
  · have ht0 : t = [] := List.eq_nil_of_length_eq_zero (by omega)
    have e1 : fin1 st t L = st := by unfold fin1; simp [hz]
    rw [e1, ht0, hornerF_nil]
    rcases hfl with f0 | f1
    · have ns : ¬ (st.flags &&& poly1305_started ≠ 0) := by rw [f0]; decide
      have e2 : fin2 st L = st := by unfold fin2; rw [if_neg ns]
      obtain ⟨z0, z1, z2, zA⟩ := h0 f0
      rw [e2, z0, z1, z2, finish_tail_spec 0 0 0 st.pad (by decide) (by decide) (by decide), hp]
      refine ⟨0, by rw [zA]; simp, ?_⟩
      simp [val]
    · obtain ⟨hb, hA⟩ := h1 f1
      obtain ⟨a0, a1, a2, ap, X, hX, hXF⟩ := fin2_spec r st L (Or.inl f1) hb hR
        (fun h => hR2 (Or.inl f1))
      rw [finish_tail_spec _ _ _ _ a0 a1 a2, ap, hp, hX]
      refine ⟨X, ?_, rfl⟩
      rw [hXF, if_pos (Or.inl hz), ← hA]
      rfl
  · have hpos : 0 < L := by omega
    obtain ⟨c, hb, eR, eR2, eP, vA, vB⟩ := fin1_spec r st t L hpos hL ht hfl (fun h => (h1 h).1)
      (fun h => hR2 (Or.inl h))
    obtain ⟨a0, a1, a2, ap, X, hX, hXF⟩ := fin2_spec r (fin1 st t L) L
      (by rcases c with h | h; exact Or.inr (Or.inl h); exact Or.inr (Or.inr h)) hb
      (by rw [eR]; exact hR) (fun h => by rw [eR2]; exact hR2 (Or.inr (by omega)))
    rw [finish_tail_spec _ _ _ _ a0 a1 a2, ap, eP, hp, hX]
    refine ⟨X, ?_, rfl⟩
    rw [hXF, vA, vB]
    have hAcc : laneF st false * r ^ 2 + laneF st true * r = A := by
      rcases hfl with f0 | f1
      · have : ∀ j, laneF st j = 0 := by intro j; unfold laneF; rw [f0]; rfl
        rw [this, this, (h0 f0).2.2.2]; ring
      · have : ∀ j, laneF st j = vF (stN j st.H) := by intro j; unfold laneF; rw [f1]; rfl
        rw [this, this, ← (h1 f1).2]; rfl
    by_cases h16 : L > 16
    · rw [if_pos (Or.inr h16), if_neg (by omega), if_neg (by omega),
        hornerF_long r A t 0 (by omega) (by omega), ← hAcc]
      ring
    · rw [if_neg (by omega), if_pos (by omega), if_pos (by omega),
        hornerF_short r A t 1 (by omega) (by omega), ← hAcc]
      ring

/-! ### the link to `Spec.Poly1305.mac` -/

theorem chunkF_full (m : Bytes) (h : 16 ≤ m.length) : chunkF (m.take 16) = cF m := by
  have : (m.take 16).length = 16 := by simp; omega
  simp only [chunkF, cF, blkVal, this]
  rfl

theorem hornerF_full (r A : F) (m : Bytes) (n : Nat) (h : 16 ≤ m.length) :
    hornerF r (n + 1) A m = hornerF r n ((A + cF m) * r) (m.drop 16) := by
  have hne : m.isEmpty = false := by
    cases m with
    | nil => simp at h
    | cons _ _ => rfl
  simp only [hornerF, hne, Bool.false_eq_true, if_false, chunkF_full m h]

/-- skipping `k` full blocks -/
theorem hornerF_skip (r : F) : ∀ (k fuel : Nat) (A : F) (m : Bytes), 16 * k ≤ m.length →
    hornerF r (k + fuel) A m = hornerF r fuel (horner16 r k A m) (m.drop (16 * k))
  | 0, fuel, A, m, _ => by simp [horner16]
  | k + 1, fuel, A, m, h => by
    rw [show k + 1 + fuel = (k + fuel) + 1 by omega, hornerF_full r A m _ (by omega)]
    rw [hornerF_skip r k fuel _ (m.drop 16) (by simp; omega), List.drop_drop]
    simp only [horner16]
    congr 2
    omega

/-- more fuel than chunks changes nothing -/
theorem hornerF_fuel (r : F) : ∀ (n k : Nat) (A : F) (m : Bytes), m.length ≤ 16 * n →
    hornerF r (n + k) A m = hornerF r n A m
  | 0, k, A, m, h => by
    have : m = [] := List.eq_nil_of_length_eq_zero (by omega)
    rw [this, hornerF_nil, hornerF_nil]
  | n + 1, k, A, m, h => by
    rw [show n + 1 + k = (n + k) + 1 by omega]
    simp only [hornerF]
    split
    · rfl
    · exact hornerF_fuel r n k _ (m.drop 16) (by simp; omega)

/-- the fold of `Spec.Poly1305.mac`, in the field -/
theorem spec_fold_F (r : Nat) : ∀ (fuel : Nat) (m : Bytes) (a : Nat),
    (((Spec.Poly1305.chunks16 fuel m).foldl
      (fun a blk => ((a + le blk + 2 ^ (8 * blk.length)) * r) % Spec.Poly1305.p) a : Nat) : F)
      = hornerF (r : F) fuel (a : F) m
  | 0, _, _ => rfl
  | fuel + 1, m, a => by
    simp only [Spec.Poly1305.chunks16, hornerF]
    split
    · rfl
    · simp only [List.foldl_cons]
      rw [spec_fold_F r fuel]
      congr 1
      show (((((a + le (m.take 16) + 2 ^ (8 * (m.take 16).length)) * r) % (2 ^ 130 - 5) : Nat)) : F) = _
      rw [ZMod.natCast_mod, Nat.cast_mul, Nat.add_assoc, Nat.cast_add]
      rfl

theorem spec_fold_lt (r : Nat) : ∀ (fuel : Nat) (m : Bytes) (a : Nat), a < 2 ^ 130 - 5 →
    (Spec.Poly1305.chunks16 fuel m).foldl
      (fun a blk => ((a + le blk + 2 ^ (8 * blk.length)) * r) % Spec.Poly1305.p) a < 2 ^ 130 - 5
  | 0, _, _, h => h
  | fuel + 1, m, a, h => by
    simp only [Spec.Poly1305.chunks16]
    split
    · exact h
    · simp only [List.foldl_cons]
      exact spec_fold_lt r fuel _ _ (Nat.mod_lt _ (by decide))

/-- r and s of the specification -/
def specR (key : Bytes) : Nat := Spec.Poly1305.clampR (le (key.take 16))
def specS (key : Bytes) : Nat := le ((key.drop 16).take 16)

/-- If X stands for the accumulator after `k` full blocks advanced over the remaining (< 32) bytes,
    the tag computed from it is the specification's. -/
theorem tag_eq_spec (key m : Bytes) (k X : Nat) (h16 : 16 * k ≤ m.length) (hlt : m.length - 16 * k < 32)
    (hX : (X : F) = hornerF (specR key : F) 2 (horner16 (specR key : F) k 0 m) (m.drop (16 * k))) :
    toLE 16 ((X % (2 ^ 130 - 5) + specS key) % 2 ^ 128) = Spec.Poly1305.mac key m := by
  unfold Spec.Poly1305.mac
  simp only []
  have hF := spec_fold_F (specR key) (m.length + 1) m 0
  have hlt' := spec_fold_lt (specR key) (m.length + 1) m 0 (by decide)
  have hacc : ((0 : Nat) : F) = 0 := Nat.cast_zero
  rw [hacc] at hF
  have e : hornerF (specR key : F) (m.length + 1) 0 m = (X : F) := by
    rw [hX, show m.length + 1 = k + (m.length + 1 - k) by omega, hornerF_skip _ k _ _ _ h16]
    by_cases hz : m.length - 16 * k = 0
    · have : m.drop (16 * k) = [] := List.drop_eq_nil_of_le (by omega)
      rw [this, hornerF_nil, hornerF_nil]
    · obtain ⟨j, hj⟩ : ∃ j, m.length + 1 - k = 2 + j := ⟨m.length + 1 - k - 2, by omega⟩
      rw [hj, hornerF_fuel _ 2 j _ _ (by simp; omega)]
  rw [e] at hF
  have hmod := (ZMod.natCast_eq_natCast_iff' _ _ _).mp hF
  rw [Nat.mod_eq_of_lt hlt'] at hmod
  show _ = toLE 16 ((_ + specS key) % 2 ^ 128)
  rw [← hmod]
  rfl

/-! ### the one-shot function -/

theorem natCast_of_mod {a b : Nat} (h : a % Spec.Poly1305.p = b % Spec.Poly1305.p) : (a : F) = (b : F) :=
  (ZMod.natCast_eq_natCast_iff' a b _).mpr h

/-- what `poly1305_init_ext(st, key, bytes)` guarantees, in the form the later theorems use -/
theorem init_ready (st : State) (key : Bytes) (bytes : Nat) :
    (RBound (nat5 (poly1305_init_ext st key bytes).R) ∧
      vF (nat5 (poly1305_init_ext st key bytes).R) = (specR key : F)) ∧
    (effBytes bytes > 16 → RBound (nat5 (poly1305_init_ext st key bytes).R2) ∧
      vF (nat5 (poly1305_init_ext st key bytes).R2) = (specR key : F) ^ 2) ∧
    (effBytes bytes ≥ 96 → RBound (nat5 (poly1305_init_ext st key bytes).R4) ∧
      vF (nat5 (poly1305_init_ext st key bytes).R4) = (specR key : F) ^ 4) ∧
    (poly1305_init_ext st key bytes).pad.1.toNat + 2 ^ 64 * (poly1305_init_ext st key bytes).pad.2.toNat
      = specS key ∧
    (poly1305_init_ext st key bytes).H = ⟨0, 0, 0, 0, 0⟩ ∧ (poly1305_init_ext st key bytes).flags = 0 ∧
    (poly1305_init_ext st key bytes).buffer = [] := by
  obtain ⟨iR, iRv, i2, i4, _, _, ipad, iH, ifl, ibuf⟩ := init_ext_spec_aux st key bytes
  refine ⟨⟨iR, ?_⟩, ?_, ?_, ipad, iH, ifl, ibuf⟩
  · simp only [vF]; rw [iRv]; rfl
  · intro h
    obtain ⟨a, b⟩ := i2 h
    refine ⟨a, ?_⟩
    simp only [vF]
    rw [natCast_of_mod b, Nat.cast_pow]; rfl
  · intro h
    obtain ⟨a, b⟩ := i4 h
    refine ⟨a, ?_⟩
    simp only [vF]
    rw [natCast_of_mod b, Nat.cast_pow]; rfl

theorem effBytes_gt (L n : Nat) (h : L > n) : effBytes L > n := by
  unfold effBytes; split <;> omega
theorem effBytes_ge (L n : Nat) (h0 : 0 < n) (h : L ≥ n) : effBytes L ≥ n := by
  unfold effBytes; split <;> omega

/-- `crypto_onetimeauth_poly1305_sse2` = RFC 8439 §2.5, for every key, every message and EVERY prior
    content `st` of the (uninitialised) state -/
theorem mac_eq_spec_aux (st : State) (key m : Bytes) : mac st key m = Spec.Poly1305.mac key m := by
  obtain ⟨hR, hR2, hR4, hpad, hH, hfl, _⟩ := init_ready st key m.length
  unfold mac
  simp only []
  generalize poly1305_init_ext st key m.length = st1 at *
  by_cases hb : m.length / 32 * 32 > 0
  · rw [if_pos hb]
    simp only []
    obtain ⟨b1, b2, b3, b4, b5, b6, b7, b8⟩ := blocks_data_spec (specR key : F) st1 m (m.length / 32 * 32)
      (Or.inl hfl) (by omega) (by omega) (fun h => by rw [hfl] at h; exact absurd h (by decide))
      (fun h => hR2 (effBytes_gt _ _ (by rcases h with h | h; (rw [hfl] at h; exact absurd h (by decide)); omega)))
      (fun h => hR4 (effBytes_ge _ _ (by decide) (by
        rcases h with h | h
        · rw [hfl] at h; exact absurd h.1 (by decide)
        · omega)))
    rw [hfl, if_neg (by decide)] at b8
    obtain ⟨X, hX, hT⟩ := finish_ext_spec (specR key : F) (specS key) (poly1305_blocks st1 (some m) (m.length / 32 * 32))
      (horner16 (specR key : F) (m.length / 32 * 32 / 16) 0 m) (m.drop (m.length / 32 * 32))
      (m.length - m.length / 32 * 32) (by omega) (by simp)
      (Or.inr b1) (fun h => by rw [b1] at h; exact absurd h (by decide)) (fun _ => ⟨b2, b8⟩)
      (by rw [b3]; exact hR) (fun _ => by rw [b4]; exact hR2 (effBytes_gt _ _ (by omega)))
      (by rw [b6]; exact hpad)
    rw [hT]
    apply tag_eq_spec key m (m.length / 32 * 32 / 16) X (by omega) (by omega)
    rw [hX, show 16 * (m.length / 32 * 32 / 16) = m.length / 32 * 32 by omega]
  · rw [if_neg hb]
    simp only []
    obtain ⟨X, hX, hT⟩ := finish_ext_spec (specR key : F) (specS key) st1 0 m m.length (by omega) rfl
      (Or.inl hfl) (fun _ => by rw [hH]; exact ⟨rfl, rfl, rfl, rfl⟩)
      (fun h => by rw [hfl] at h; exact absurd h (by decide)) hR
      (fun h => hR2 (effBytes_gt _ _ (by rcases h with h | h; (rw [hfl] at h; exact absurd h (by decide)); omega)))
      hpad
    rw [hT]
    apply tag_eq_spec key m 0 X (by omega) (by omega)
    rw [hX]
    simp [horner16]

/-! ### `poly1305_update`: the buffering invariant -/

theorem cF_append (x y : Bytes) (h : 16 ≤ x.length) : cF (x ++ y) = cF x := by
  simp only [cF, blkVal, List.take_append_of_le_length h]

theorem horner16_append_right (r : F) : ∀ (k : Nat) (A : F) (x y : Bytes), 16 * k ≤ x.length →
    horner16 r k A (x ++ y) = horner16 r k A x
  | 0, _, _, _, _ => rfl
  | k + 1, A, x, y, h => by
    simp only [horner16]
    rw [cF_append x y (by omega), List.drop_append_of_le_length (by omega)]
    exact horner16_append_right r k _ _ y (by simp; omega)

/-- R, R2, R4 and pad are those of the key -/
def KeyInv (key : Bytes) (st : State) : Prop :=
  (RBound (nat5 st.R) ∧ vF (nat5 st.R) = (specR key : F)) ∧
  (RBound (nat5 st.R2) ∧ vF (nat5 st.R2) = (specR key : F) ^ 2) ∧
  (RBound (nat5 st.R4) ∧ vF (nat5 st.R4) = (specR key : F) ^ 4) ∧
  st.pad.1.toNat + 2 ^ 64 * st.pad.2.toNat = specS key

/-- the accumulator the state stands for -/
def accOf (r : F) (st : State) : F := if st.flags = 1 then AFst r st else 0

/-- everything but the buffer: after `n` 32-byte pairs of `M` have been absorbed -/
def Core (key : Bytes) (st : State) (n : Nat) (M : Bytes) : Prop :=
  KeyInv key st ∧ (st.flags = 0 ∨ st.flags = 1) ∧ (st.flags = 0 → st.H = ⟨0, 0, 0, 0, 0⟩) ∧
  (st.flags = 1 → HBst st) ∧ accOf (specR key : F) st = horner16 (specR key : F) (2 * n) 0 M

/-- the invariant of the streaming interface: the state has absorbed `M`, of which the last
    `leftover` bytes sit in the buffer -/
def StreamInv (key : Bytes) (st : State) (M : Bytes) : Prop :=
  st.buffer.length < 32 ∧ ∃ n, Core key st n M ∧ M.length = 32 * n + st.buffer.length ∧
    st.buffer = M.drop (32 * n)

theorem core_append (key : Bytes) (st : State) (n : Nat) (M c : Bytes) (h : Core key st n M)
    (hl : 32 * n ≤ M.length) : Core key st n (M ++ c) := by
  obtain ⟨a, b, c', d, e⟩ := h
  exact ⟨a, b, c', d, by rw [e, horner16_append_right _ _ _ _ _ (by omega)]⟩

/-- `poly1305_blocks` on `32·q` bytes `x` that continue `M` after `32·n` bytes -/
theorem blocks_stream (key : Bytes) (st : State) (n : Nat) (M x rest : Bytes) (q : Nat)
    (h : Core key st n M) (hM : M.drop (32 * n) = x ++ rest) (hq : 1 ≤ q) (hx : 32 * q ≤ x.length) :
    Core key (poly1305_blocks st (some x) (32 * q)) (n + q) M ∧
    (poly1305_blocks st (some x) (32 * q)).buffer = st.buffer := by
  obtain ⟨⟨kR, kR2, kR4, kP⟩, hfl, hH0, hHB, hacc⟩ := h
  obtain ⟨b1, b2, b3, b4, b5, b6, b7, b8⟩ := blocks_data_spec (specR key : F) st x (32 * q) hfl (by omega) (by omega)
    hHB (fun _ => kR2) (fun _ => kR4)
  refine ⟨⟨⟨by rw [b3]; exact kR, by rw [b4]; exact kR2, by rw [b5]; exact kR4, by rw [b6]; exact kP⟩,
    Or.inr b1, fun h => by rw [b1] at h; exact absurd h (by decide), fun _ => b2, ?_⟩, b7⟩
  unfold accOf
  rw [if_pos b1, b8]
  have hacc' : (if st.flags = 1 then AFst (specR key : F) st else 0) = horner16 (specR key : F) (2 * n) 0 M := hacc
  rw [hacc', show 2 * (n + q) = 2 * n + 2 * q by omega, horner16_add,
    show 16 * (2 * n) = 32 * n by omega, hM, horner16_append_right _ _ _ _ _ (by omega),
    show 32 * q / 16 = 2 * q by omega]

/-- the part of `poly1305_update` after the leftover handling -/
def upd2 (st : State) (m : Bytes) (bytes : Nat) : State :=
  let s2 : State × Bytes × Nat :=
    if bytes ≥ poly1305_block_size then
      let want := bytes / poly1305_block_size * poly1305_block_size
      (poly1305_blocks st (some m) want, m.drop want, bytes - want)
    else (st, m, bytes)
  if s2.2.2 ≠ 0 then { s2.1 with buffer := s2.1.buffer ++ s2.2.1.take s2.2.2 } else s2.1

theorem update_eq (st : State) (c : Bytes) :
    poly1305_update st c =
      if st.buffer.length ≠ 0 then
        (if (st.buffer ++ c.take (min (32 - st.buffer.length) c.length)).length < 32 then
          { st with buffer := st.buffer ++ c.take (min (32 - st.buffer.length) c.length) }
         else
          upd2 { (poly1305_blocks { st with buffer := st.buffer ++ c.take (min (32 - st.buffer.length) c.length) }
                  (some (st.buffer ++ c.take (min (32 - st.buffer.length) c.length))) 32) with buffer := [] }
            (c.drop (min (32 - st.buffer.length) c.length)) (c.length - min (32 - st.buffer.length) c.length))
      else upd2 st c c.length := by
  have hw : (if poly1305_block_size - st.buffer.length > c.length then c.length
      else poly1305_block_size - st.buffer.length) = min (32 - st.buffer.length) c.length := by
    show (if 32 - st.buffer.length > c.length then c.length else 32 - st.buffer.length) = _
    split <;> omega
  unfold poly1305_update
  simp only [hw]
  by_cases h0 : st.buffer.length ≠ 0
  · rw [if_pos h0, if_pos h0]
    by_cases h1 : (st.buffer ++ c.take (min (32 - st.buffer.length) c.length)).length < 32
    · have h1' : (st.buffer ++ c.take (min (32 - st.buffer.length) c.length)).length < poly1305_block_size := h1
      rw [if_pos h1, if_pos h1']
    · have h1' : ¬ (st.buffer ++ c.take (min (32 - st.buffer.length) c.length)).length < poly1305_block_size := h1
      rw [if_neg h1, if_neg h1']
      rfl
  · rw [if_neg h0, if_neg h0]
    rfl

/-- phase 2: full blocks straight from the input, the rest into the (empty) buffer -/
theorem upd2_inv (key : Bytes) (st : State) (n : Nat) (M m : Bytes)
    (h : Core key st n M) (hb : st.buffer = []) (hM : M.drop (32 * n) = m) (hl : M.length = 32 * n + m.length) :
    StreamInv key (upd2 st m m.length) M := by
  unfold upd2
  simp only []
  by_cases hge : m.length ≥ poly1305_block_size
  · have hge' : m.length ≥ 32 := hge
    rw [if_pos hge]
    simp only []
    show StreamInv key (if m.length - m.length / 32 * 32 ≠ 0 then
      { poly1305_blocks st (some m) (m.length / 32 * 32) with
        buffer := (poly1305_blocks st (some m) (m.length / 32 * 32)).buffer ++
          (m.drop (m.length / 32 * 32)).take (m.length - m.length / 32 * 32) }
      else poly1305_blocks st (some m) (m.length / 32 * 32)) M
    obtain ⟨c1, c2⟩ := blocks_stream key st n M m [] (m.length / 32) h (by rw [hM]; simp) (by omega) (by omega)
    rw [show 32 * (m.length / 32) = m.length / 32 * 32 by omega] at c1 c2
    rw [hb] at c2
    have hd : M.drop (32 * (n + m.length / 32)) = m.drop (m.length / 32 * 32) := by
      rw [← hM, List.drop_drop]; congr 1; omega
    by_cases hz : m.length - m.length / 32 * 32 ≠ 0
    · rw [if_pos hz, c2, List.nil_append, List.take_of_length_le (by simp)]
      refine ⟨by simp; omega, n + m.length / 32, c1, by simp; omega, hd.symm⟩
    · rw [if_neg hz]
      refine ⟨by rw [c2]; simp, n + m.length / 32, c1, by rw [c2]; simp; omega, ?_⟩
      rw [c2, hd]
      exact (List.drop_eq_nil_of_le (by omega)).symm
  · have hlt : m.length < 32 := by
      have : ¬ m.length ≥ 32 := hge
      omega
    rw [if_neg hge]
    simp only []
    by_cases hz : m.length ≠ 0
    · rw [if_pos hz, hb, List.nil_append, List.take_length]
      exact ⟨hlt, n, h, hl, hM.symm⟩
    · rw [if_neg hz]
      have : m = [] := List.eq_nil_of_length_eq_zero (by omega)
      refine ⟨by rw [hb]; simp, n, h, by rw [hb, hl, this], ?_⟩
      rw [hb, hM, this]

/-- (4) `poly1305_update` preserves the invariant: absorbing `c` after `M` is absorbing `M ++ c` -/
theorem update_inv (key : Bytes) (st : State) (M c : Bytes) (h : StreamInv key st M) :
    StreamInv key (poly1305_update st c) (M ++ c) := by
  obtain ⟨hlt, n, hC, hl, hb⟩ := h
  have hC' := core_append key st n M c hC (by omega)
  have hd : (M ++ c).drop (32 * n) = st.buffer ++ c := by
    rw [List.drop_append_of_le_length (by omega), ← hb]
  rw [update_eq]
  by_cases h0 : st.buffer.length ≠ 0
  · rw [if_pos h0]
    by_cases h1 : (st.buffer ++ c.take (min (32 - st.buffer.length) c.length)).length < 32
    · rw [if_pos h1]
      have hw : min (32 - st.buffer.length) c.length = c.length := by
        simp at h1; omega
      rw [hw, List.take_length]
      rw [hw, List.take_length] at h1
      exact ⟨h1, n, hC', by simp; omega, hd.symm⟩
    · rw [if_neg h1]
      have hw : min (32 - st.buffer.length) c.length = 32 - st.buffer.length := by
        simp at h1; omega
      have hcl : 32 - st.buffer.length ≤ c.length := by simp at h1; omega
      rw [hw]
      have hx : (st.buffer ++ c.take (32 - st.buffer.length)).length = 32 := by simp; omega
      obtain ⟨c1, c2⟩ := blocks_stream key
        { st with buffer := st.buffer ++ c.take (32 - st.buffer.length) } n (M ++ c)
        (st.buffer ++ c.take (32 - st.buffer.length)) (c.drop (32 - st.buffer.length)) 1 hC'
        (by rw [hd, List.append_assoc, List.take_append_drop]) (by omega) (by omega)
      have e : c.length - (32 - st.buffer.length) = (c.drop (32 - st.buffer.length)).length := by simp
      rw [e]
      rw [show 32 * 1 = 32 from rfl] at c1
      generalize poly1305_blocks { st with buffer := st.buffer ++ c.take (32 - st.buffer.length) }
        (some (st.buffer ++ c.take (32 - st.buffer.length))) 32 = st1 at c1 ⊢
      have c1' : Core key { st1 with buffer := [] } (n + 1) (M ++ c) := c1
      refine upd2_inv key { st1 with buffer := [] } (n + 1) (M ++ c) _ c1' rfl ?_ ?_
      · rw [show 32 * (n + 1) = 32 * n + 32 by omega, ← List.drop_drop, hd, List.drop_append,
          List.drop_eq_nil_of_le (by omega), List.nil_append]
      · simp; omega
  · rw [if_neg h0]
    have hb0 : st.buffer = [] := List.eq_nil_of_length_eq_zero (by omega)
    apply upd2_inv key st n (M ++ c) c hC' hb0
    · rw [hd, hb0, List.nil_append]
    · simp; rw [hb0] at hl; simp at hl; omega

/-! ### init / update … / final, and `_verify` -/

theorem init_inv (st : State) (key : Bytes) : StreamInv key (init st key) [] := by
  obtain ⟨hR, hR2, hR4, hpad, hH, hfl, hbuf⟩ := init_ready st key 0
  have e16 : effBytes 0 > 16 := by decide
  have e96 : effBytes 0 ≥ 96 := by decide
  unfold init
  refine ⟨by rw [hbuf]; decide, 0, ⟨⟨hR, hR2 e16, hR4 e96, hpad⟩, Or.inl hfl, fun _ => hH,
    fun h => by rw [hfl] at h; exact absurd h (by decide), ?_⟩, by rw [hbuf]; rfl, by rw [hbuf]; rfl⟩
  unfold accOf
  rw [hfl, if_neg (by decide)]
  rfl

theorem fold_inv (key : Bytes) : ∀ (cs : List Bytes) (st : State) (M : Bytes), StreamInv key st M →
    StreamInv key (cs.foldl update st) (M ++ cs.flatten)
  | [], _, _, h => by simpa using h
  | c :: cs, st, M, h => by
    have := fold_inv key cs (update st c) _ (update_inv key st M c h)
    rw [List.append_assoc] at this
    exact this

theorem final_spec (key : Bytes) (st : State) (M : Bytes) (h : StreamInv key st M) :
    final st = Spec.Poly1305.mac key M := by
  obtain ⟨hlt, n, ⟨⟨kR, kR2, _, kP⟩, hfl, hH0, hHB, hacc⟩, hl, hb⟩ := h
  unfold final
  obtain ⟨X, hX, hT⟩ := finish_ext_spec (specR key : F) (specS key) st (accOf (specR key : F) st)
    st.buffer st.buffer.length hlt rfl hfl
    (fun h => by
      rw [hH0 h]
      refine ⟨rfl, rfl, rfl, ?_⟩
      unfold accOf; rw [h, if_neg (by decide)])
    (fun h => ⟨hHB h, by unfold accOf; rw [if_pos h]⟩) kR (fun _ => kR2) kP
  rw [hT]
  apply tag_eq_spec key M (2 * n) X (by omega) (by omega)
  rw [hX, hacc, show 16 * (2 * n) = 32 * n by omega, ← hb]

/-- init / update … / final with any chunking = RFC 8439 §2.5 on the concatenation, from every prior
    content of the caller's state -/
theorem macChunks_eq_spec_aux (st : State) (key : Bytes) (cs : List Bytes) :
    macChunks st key cs = Spec.Poly1305.mac key cs.flatten := by
  unfold macChunks
  have := fold_inv key cs (init st key) [] (init_inv st key)
  rw [List.nil_append] at this
  exact final_spec key _ _ this

theorem spec_mac_length (key m : Bytes) : (Spec.Poly1305.mac key m).length = 16 := by
  unfold Spec.Poly1305.mac
  simp only []
  exact toLE_length _ _

/-- `crypto_onetimeauth_poly1305_sse2_verify` accepts exactly the specification's tag -/
theorem verify_spec_aux (st : State) (h m key : Bytes) (hh : h.length = 16) :
    verify st h m key = if h = Spec.Poly1305.mac key m then 0 else -1 := by
  unfold verify
  rw [mac_eq_spec_aux]
  exact verify_n_sse2_spec 1 (by decide) h _ (by omega) (by rw [spec_mac_length])

end Sodium.Poly1305Sse2P
