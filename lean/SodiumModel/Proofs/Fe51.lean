import Mathlib.Tactic.Ring
import Mathlib.Tactic.Linarith
import Mathlib.Data.ZMod.Basic
import SodiumModel.Model.Fe51
import SodiumModel.Proofs.LadderRef10
import SodiumModel.Properties.C14
/-
  Helper lemmas for `Properties/C05Fe51.lean`: the radix-2^51 limb arithmetic of
  `private/ed25519_ref10_fe_51.h` / `fe_51/fe.h` (`Model/Fe51.lean`) implements GF(2^255-19).

  Method: every function is cut into (1) the 128-bit products / sums, shown to be the untruncated
  natural-number expressions under the limb bounds (no overflow: products are generalised to atoms
  with their bounds and `omega` does the rest), (2) the carry chain, whose effect on the weighted sum
  is `val h + c·p = Σ rᵢ·2^(51 i)` (linear arithmetic with `/` and `%` by literals: `omega`), and
  (3) one polynomial identity 2^255 ≡ 19 (`ring`).  `omega` is always called in small lemmas or after
  `clear`/`generalize`: with many `/`, `%` and truncated subtractions in one context it does not return.
  `fe25519_reduce` is described through the weighted sum `T` of its five words: a carry pass yields
  the base-2^51 digits of `T`, the fold maps `T` to `T % 2^255 + 19·(T / 2^255)`.  `fe25519_invert` is
  exponent bookkeeping (`IsPow`), and the specification's `powLoop` is shown to be `a^e % p`.
  Last part: the two-level refinement `RefinesTL` (tight/loose representatives), the generic
  `ladder_refinesTL` and the instance `fe51_refinesTL`.
-/
open Sodium Sodium.Model Sodium.Model.Fe51 Sodium.Model.LadderRef10 Sodium.Spec Sodium.LadderRef10P
namespace Sodium.Fe51P

/-! ### representation -/

/-- the value of five radix-2^51 limbs -/
def val (f : Fe) : Nat :=
  f.l0.toNat + f.l1.toNat * 2 ^ 51 + f.l2.toNat * 2 ^ 102 + f.l3.toNat * 2 ^ 153 + f.l4.toNat * 2 ^ 204

/-- every limb below `B` -/
def Bounded (B : Nat) (f : Fe) : Prop :=
  f.l0.toNat < B ∧ f.l1.toNat < B ∧ f.l2.toNat < B ∧ f.l3.toNat < B ∧ f.l4.toNat < B

def Tight (f : Fe) : Prop := Bounded (2 ^ 52) f
def Loose (f : Fe) : Prop := Bounded (2 ^ 54) f

/-! ### `uint128_t` / `uint64_t` primitives as naturals -/

theorem trunc128_eq (x : Nat) : trunc128 x = x % 2 ^ 128 := by
  unfold trunc128; split <;> omega

theorem mask_toNat (x : UInt64) : (x &&& mask).toNat = x.toNat % 2 ^ 51 := by
  rw [UInt64.toNat_and]; exact Nat.and_two_pow_sub_one_eq_mod x.toNat 51

theorem shr51 (x : UInt64) : (x >>> 51).toNat = x.toNat / 2 ^ 51 := by
  rw [UInt64.toNat_shiftRight, Nat.shiftRight_eq_div_pow]; rfl

theorem lo64_toNat (a : Nat) : (lo64 a).toNat = a % 2 ^ 64 := UInt64.toNat_ofNat'
theorem shr128_eq (a k : Nat) : shr128 a k = a / 2 ^ k := Nat.shiftRight_eq_div_pow a k
theorem mul128_eq (a b : Nat) : mul128 a b = a * b % 2 ^ 128 := trunc128_eq _
theorem add128_eq (a b : Nat) : add128 a b = (a + b) % 2 ^ 128 := trunc128_eq _

/-! ### the carry chain of fe25519_mul / fe25519_sq / fe25519_sq2 -/

theorem carry_chain_spec (r0 r1 r2 r3 r4 : Nat)
    (h0 : r0 < 77 * 2 ^ 108) (h1 : r1 < 77 * 2 ^ 108) (h2 : r2 < 77 * 2 ^ 108) (h3 : r3 < 77 * 2 ^ 108)
    (h4 : r4 < 5 * 2 ^ 108) :
    let h := carry_chain r0 r1 r2 r3 r4
    h.l0.toNat < 2 ^ 51 ∧ h.l1.toNat < 2 ^ 51 ∧ h.l2.toNat ≤ 2 ^ 51 ∧ h.l3.toNat < 2 ^ 51 ∧ h.l4.toNat < 2 ^ 51 ∧
    ∃ c, val h + c * (2 ^ 255 - 19) = r0 + r1 * 2 ^ 51 + r2 * 2 ^ 102 + r3 * 2 ^ 153 + r4 * 2 ^ 204 := by
  intro h
  obtain ⟨c0, hc0⟩ : ∃ c0, c0 = r0 / 2 ^ 51 := ⟨_, rfl⟩
  obtain ⟨R1, hR1⟩ : ∃ R1, R1 = r1 + c0 := ⟨_, rfl⟩
  obtain ⟨c1, hc1⟩ : ∃ c1, c1 = R1 / 2 ^ 51 := ⟨_, rfl⟩
  obtain ⟨R2, hR2⟩ : ∃ R2, R2 = r2 + c1 := ⟨_, rfl⟩
  obtain ⟨c2, hc2⟩ : ∃ c2, c2 = R2 / 2 ^ 51 := ⟨_, rfl⟩
  obtain ⟨R3, hR3⟩ : ∃ R3, R3 = r3 + c2 := ⟨_, rfl⟩
  obtain ⟨c3, hc3⟩ : ∃ c3, c3 = R3 / 2 ^ 51 := ⟨_, rfl⟩
  obtain ⟨R4, hR4⟩ : ∃ R4, R4 = r4 + c3 := ⟨_, rfl⟩
  obtain ⟨c4, hc4⟩ : ∃ c4, c4 = R4 / 2 ^ 51 := ⟨_, rfl⟩
  have b0 : c0 < 77 * 2 ^ 57 := by omega
  have b1 : c1 < 78 * 2 ^ 57 := by omega
  have b2 : c2 < 78 * 2 ^ 57 := by omega
  have b3 : c3 < 78 * 2 ^ 57 := by omega
  have b4 : c4 < 6 * 2 ^ 57 := by omega
  have e0 : (lo64 (shr128 r0 51)).toNat = c0 := by rw [lo64_toNat, shr128_eq, ← hc0]; omega
  have e1 : add128 r1 (u128 (lo64 (shr128 r0 51))) = R1 := by rw [add128_eq, u128, e0]; omega
  have e2 : (lo64 (shr128 R1 51)).toNat = c1 := by rw [lo64_toNat, shr128_eq, ← hc1]; omega
  have e3 : add128 r2 (u128 (lo64 (shr128 R1 51))) = R2 := by rw [add128_eq, u128, e2]; omega
  have e4 : (lo64 (shr128 R2 51)).toNat = c2 := by rw [lo64_toNat, shr128_eq, ← hc2]; omega
  have e5 : add128 r3 (u128 (lo64 (shr128 R2 51))) = R3 := by rw [add128_eq, u128, e4]; omega
  have e6 : (lo64 (shr128 R3 51)).toNat = c3 := by rw [lo64_toNat, shr128_eq, ← hc3]; omega
  have e7 : add128 r4 (u128 (lo64 (shr128 R3 51))) = R4 := by rw [add128_eq, u128, e6]; omega
  have e8 : (lo64 (shr128 R4 51)).toNat = c4 := by rw [lo64_toNat, shr128_eq, ← hc4]; omega
  have hh : h = carry_chain r0 r1 r2 r3 r4 := rfl
  simp only [carry_chain, e1, e3, e5, e7] at hh
  have m0 : (lo64 r0 &&& mask).toNat = r0 - 2 ^ 51 * c0 := by rw [mask_toNat, lo64_toNat]; omega
  have m1 : (lo64 R1 &&& mask).toNat = R1 - 2 ^ 51 * c1 := by rw [mask_toNat, lo64_toNat]; omega
  have m2 : (lo64 R2 &&& mask).toNat = R2 - 2 ^ 51 * c2 := by rw [mask_toNat, lo64_toNat]; omega
  have m3 : (lo64 R3 &&& mask).toNat = R3 - 2 ^ 51 * c3 := by rw [mask_toNat, lo64_toNat]; omega
  have m4 : (lo64 R4 &&& mask).toNat = R4 - 2 ^ 51 * c4 := by rw [mask_toNat, lo64_toNat]; omega
  have n0 : ((lo64 r0 &&& mask) + 19 * lo64 (shr128 R4 51)).toNat = r0 - 2 ^ 51 * c0 + 19 * c4 := by
    rw [UInt64.toNat_add, UInt64.toNat_mul, m0, e8]; show (_ + 19 * c4 % 2 ^ 64) % 2 ^ 64 = _; omega
  obtain ⟨d0, hd0⟩ : ∃ d0, d0 = (r0 - 2 ^ 51 * c0 + 19 * c4) / 2 ^ 51 := ⟨_, rfl⟩
  have bd0 : d0 < 2 ^ 13 := by omega
  have n1 : ((lo64 R1 &&& mask) + ((lo64 r0 &&& mask) + 19 * lo64 (shr128 R4 51)) >>> 51).toNat =
      R1 - 2 ^ 51 * c1 + d0 := by
    rw [UInt64.toNat_add, shr51, n0, m1, ← hd0]; omega
  rw [hh]
  simp only [val, mask_toNat, shr51, UInt64.toNat_add, n0, n1, m2, m3, m4]
  refine ⟨?_, ?_, ?_, ?_, ?_, c4, ?_⟩ <;> omega

/-! ### fe25519_mul -/

/-- the five column sums of the schoolbook product with the wrap-around factor 19, as naturals -/
def mulCols (f g : Fe) : Nat × Nat × Nat × Nat × Nat :=
  let f0 := f.l0.toNat; let f1 := f.l1.toNat; let f2 := f.l2.toNat; let f3 := f.l3.toNat; let f4 := f.l4.toNat
  let g0 := g.l0.toNat; let g1 := g.l1.toNat; let g2 := g.l2.toNat; let g3 := g.l3.toNat; let g4 := g.l4.toNat
  (f0 * g0 + 19 * (f1 * g4) + 19 * (f2 * g3) + 19 * (f3 * g2) + 19 * (f4 * g1),
   f0 * g1 + f1 * g0 + 19 * (f2 * g4) + 19 * (f3 * g3) + 19 * (f4 * g2),
   f0 * g2 + f1 * g1 + f2 * g0 + 19 * (f3 * g4) + 19 * (f4 * g3),
   f0 * g3 + f1 * g2 + f2 * g1 + f3 * g0 + 19 * (f4 * g4),
   f0 * g4 + f1 * g3 + f2 * g2 + f3 * g1 + f4 * g0)

theorem mul19 (x : Nat) (h : x < 2 ^ 54) : 19 * x % 2 ^ 128 = 19 * x := by omega

theorem mul_eq_cols (f g : Fe) (hf : Loose f) (hg : Loose g) :
    fe25519_mul f g = carry_chain (mulCols f g).1 (mulCols f g).2.1 (mulCols f g).2.2.1
      (mulCols f g).2.2.2.1 (mulCols f g).2.2.2.2 ∧
    (mulCols f g).1 < 77 * 2 ^ 108 ∧ (mulCols f g).2.1 < 77 * 2 ^ 108 ∧ (mulCols f g).2.2.1 < 77 * 2 ^ 108 ∧
    (mulCols f g).2.2.2.1 < 77 * 2 ^ 108 ∧ (mulCols f g).2.2.2.2 < 5 * 2 ^ 108 := by
  obtain ⟨f0, f1, f2, f3, f4⟩ := f
  obtain ⟨g0, g1, g2, g3, g4⟩ := g
  obtain ⟨hf0, hf1, hf2, hf3, hf4⟩ := hf
  obtain ⟨hg0, hg1, hg2, hg3, hg4⟩ := hg
  simp only at hf0 hf1 hf2 hf3 hf4 hg0 hg1 hg2 hg3 hg4
  have b00 := Nat.mul_lt_mul'' hf0 hg0
  have b01 := Nat.mul_lt_mul'' hf0 hg1
  have b02 := Nat.mul_lt_mul'' hf0 hg2
  have b03 := Nat.mul_lt_mul'' hf0 hg3
  have b04 := Nat.mul_lt_mul'' hf0 hg4
  have b10 := Nat.mul_lt_mul'' hf1 hg0
  have b11 := Nat.mul_lt_mul'' hf1 hg1
  have b12 := Nat.mul_lt_mul'' hf1 hg2
  have b13 := Nat.mul_lt_mul'' hf1 hg3
  have b14 := Nat.mul_lt_mul'' hf1 hg4
  have b20 := Nat.mul_lt_mul'' hf2 hg0
  have b21 := Nat.mul_lt_mul'' hf2 hg1
  have b22 := Nat.mul_lt_mul'' hf2 hg2
  have b23 := Nat.mul_lt_mul'' hf2 hg3
  have b24 := Nat.mul_lt_mul'' hf2 hg4
  have b30 := Nat.mul_lt_mul'' hf3 hg0
  have b31 := Nat.mul_lt_mul'' hf3 hg1
  have b32 := Nat.mul_lt_mul'' hf3 hg2
  have b33 := Nat.mul_lt_mul'' hf3 hg3
  have b34 := Nat.mul_lt_mul'' hf3 hg4
  have b40 := Nat.mul_lt_mul'' hf4 hg0
  have b41 := Nat.mul_lt_mul'' hf4 hg1
  have b42 := Nat.mul_lt_mul'' hf4 hg2
  have b43 := Nat.mul_lt_mul'' hf4 hg3
  have b44 := Nat.mul_lt_mul'' hf4 hg4
  simp only [fe25519_mul, mulCols, mul128_eq, add128_eq, u128, mul19 _ hf1, mul19 _ hf2, mul19 _ hf3,
    mul19 _ hf4, Nat.mul_assoc]
  generalize f0.toNat * g0.toNat = a00 at *
  generalize f0.toNat * g1.toNat = a01 at *
  generalize f0.toNat * g2.toNat = a02 at *
  generalize f0.toNat * g3.toNat = a03 at *
  generalize f0.toNat * g4.toNat = a04 at *
  generalize f1.toNat * g0.toNat = a10 at *
  generalize f1.toNat * g1.toNat = a11 at *
  generalize f1.toNat * g2.toNat = a12 at *
  generalize f1.toNat * g3.toNat = a13 at *
  generalize f1.toNat * g4.toNat = a14 at *
  generalize f2.toNat * g0.toNat = a20 at *
  generalize f2.toNat * g1.toNat = a21 at *
  generalize f2.toNat * g2.toNat = a22 at *
  generalize f2.toNat * g3.toNat = a23 at *
  generalize f2.toNat * g4.toNat = a24 at *
  generalize f3.toNat * g0.toNat = a30 at *
  generalize f3.toNat * g1.toNat = a31 at *
  generalize f3.toNat * g2.toNat = a32 at *
  generalize f3.toNat * g3.toNat = a33 at *
  generalize f3.toNat * g4.toNat = a34 at *
  generalize f4.toNat * g0.toNat = a40 at *
  generalize f4.toNat * g1.toNat = a41 at *
  generalize f4.toNat * g2.toNat = a42 at *
  generalize f4.toNat * g3.toNat = a43 at *
  generalize f4.toNat * g4.toNat = a44 at *
  refine ⟨?_, ?_, ?_, ?_, ?_, ?_⟩
  · congr 1 <;> omega
  all_goals omega


/-- 2^255 ≡ 19: the weighted column sums represent the product -/
theorem mulCols_val (f g : Fe) : ∃ q,
    val f * val g = (mulCols f g).1 + (mulCols f g).2.1 * 2 ^ 51 + (mulCols f g).2.2.1 * 2 ^ 102 +
      (mulCols f g).2.2.2.1 * 2 ^ 153 + (mulCols f g).2.2.2.2 * 2 ^ 204 + q * (2 ^ 255 - 19) := by
  obtain ⟨f0, f1, f2, f3, f4⟩ := f
  obtain ⟨g0, g1, g2, g3, g4⟩ := g
  refine ⟨f1.toNat * g4.toNat + f2.toNat * g3.toNat + f3.toNat * g2.toNat + f4.toNat * g1.toNat
    + (f2.toNat * g4.toNat + f3.toNat * g3.toNat + f4.toNat * g2.toNat) * 2 ^ 51
    + (f3.toNat * g4.toNat + f4.toNat * g3.toNat) * 2 ^ 102 + (f4.toNat * g4.toNat) * 2 ^ 153, ?_⟩
  simp only [val, mulCols]
  have e : (2 : Nat) ^ 255 - 19 = 57896044618658097711785492504343953926634992332820282019728792003956564819949 := by
    norm_num
  rw [e]
  ring

theorem mod_of_eq_add_mul (x s c q p : Nat) (v : Nat) (h1 : v + c * p = s) (h2 : x = s + q * p) :
    v % p = x % p := by
  rw [h2, ← h1, Nat.add_mul_mod_self_right, Nat.add_mul_mod_self_right]

theorem mul_spec (f g : Fe) (hf : Loose f) (hg : Loose g) :
    Tight (fe25519_mul f g) ∧ val (fe25519_mul f g) % F25519.p = (val f * val g) % F25519.p := by
  obtain ⟨e, c0, c1, c2, c3, c4⟩ := mul_eq_cols f g hf hg
  obtain ⟨k0, k1, k2, k3, k4, c, hc⟩ := carry_chain_spec _ _ _ _ _ c0 c1 c2 c3 c4
  obtain ⟨q, hq⟩ := mulCols_val f g
  rw [e]
  refine ⟨⟨?_, ?_, ?_, ?_, ?_⟩, ?_⟩
  · omega
  · omega
  · omega
  · omega
  · omega
  · exact mod_of_eq_add_mul _ _ c q _ _ hc hq

/-! ### fe25519_sq -/

theorem shl1_eq (x : Nat) (h : x < 2 ^ 127) : shl128 x 1 = 2 * x := by
  unfold shl128; rw [Nat.shiftLeft_eq]; omega

theorem mul38 (x : Nat) (h : x < 2 ^ 54) : 38 * x % 2 ^ 128 = 38 * x := by omega

theorem sq_eq_cols (f : Fe) (hf : Loose f) : sq_products f = mulCols f f := by
  obtain ⟨f0, f1, f2, f3, f4⟩ := f
  obtain ⟨hf0, hf1, hf2, hf3, hf4⟩ := hf
  simp only at hf0 hf1 hf2 hf3 hf4
  have b00 := Nat.mul_lt_mul'' hf0 hf0
  have b01 := Nat.mul_lt_mul'' hf0 hf1
  have b02 := Nat.mul_lt_mul'' hf0 hf2
  have b03 := Nat.mul_lt_mul'' hf0 hf3
  have b04 := Nat.mul_lt_mul'' hf0 hf4
  have b11 := Nat.mul_lt_mul'' hf1 hf1
  have b12 := Nat.mul_lt_mul'' hf1 hf2
  have b13 := Nat.mul_lt_mul'' hf1 hf3
  have b14 := Nat.mul_lt_mul'' hf1 hf4
  have b22 := Nat.mul_lt_mul'' hf2 hf2
  have b23 := Nat.mul_lt_mul'' hf2 hf3
  have b24 := Nat.mul_lt_mul'' hf2 hf4
  have b33 := Nat.mul_lt_mul'' hf3 hf3
  have b34 := Nat.mul_lt_mul'' hf3 hf4
  have b44 := Nat.mul_lt_mul'' hf4 hf4
  simp only [sq_products, mulCols, mul128_eq, add128_eq, u128, mul19 _ hf3, mul19 _ hf4,
    mul38 _ hf1, mul38 _ hf2, mul38 _ hf3, shl1_eq _ (Nat.lt_trans hf0 (by decide)),
    shl1_eq _ (Nat.lt_trans hf1 (by decide)), Nat.mul_assoc,
    Nat.mul_comm f1.toNat f0.toNat, Nat.mul_comm f2.toNat f0.toNat, Nat.mul_comm f3.toNat f0.toNat,
    Nat.mul_comm f4.toNat f0.toNat, Nat.mul_comm f2.toNat f1.toNat, Nat.mul_comm f3.toNat f1.toNat,
    Nat.mul_comm f4.toNat f1.toNat, Nat.mul_comm f3.toNat f2.toNat, Nat.mul_comm f4.toNat f2.toNat,
    Nat.mul_comm f4.toNat f3.toNat]
  generalize f0.toNat * f0.toNat = a00 at *
  generalize f0.toNat * f1.toNat = a01 at *
  generalize f0.toNat * f2.toNat = a02 at *
  generalize f0.toNat * f3.toNat = a03 at *
  generalize f0.toNat * f4.toNat = a04 at *
  generalize f1.toNat * f1.toNat = a11 at *
  generalize f1.toNat * f2.toNat = a12 at *
  generalize f1.toNat * f3.toNat = a13 at *
  generalize f1.toNat * f4.toNat = a14 at *
  generalize f2.toNat * f2.toNat = a22 at *
  generalize f2.toNat * f3.toNat = a23 at *
  generalize f2.toNat * f4.toNat = a24 at *
  generalize f3.toNat * f3.toNat = a33 at *
  generalize f3.toNat * f4.toNat = a34 at *
  generalize f4.toNat * f4.toNat = a44 at *
  refine Prod.ext ?_ (Prod.ext ?_ (Prod.ext ?_ (Prod.ext ?_ ?_))) <;> simp only <;> omega

theorem sq_eq_mul (f : Fe) (hf : Loose f) : fe25519_sq f = fe25519_mul f f := by
  rw [(mul_eq_cols f f hf hf).1, fe25519_sq, sq_eq_cols f hf]

theorem sq_spec (f : Fe) (hf : Loose f) :
    Tight (fe25519_sq f) ∧ val (fe25519_sq f) % F25519.p = (val f * val f) % F25519.p := by
  rw [sq_eq_mul f hf]; exact mul_spec f f hf hf


/-! ### fe25519_add, fe25519_sub -/

theorem add_spec (f g : Fe) (hf : Tight f) (hg : Tight g) :
    Loose (fe25519_add f g) ∧ val (fe25519_add f g) = val f + val g := by
  obtain ⟨f0, f1, f2, f3, f4⟩ := f
  obtain ⟨g0, g1, g2, g3, g4⟩ := g
  obtain ⟨hf0, hf1, hf2, hf3, hf4⟩ := hf
  obtain ⟨hg0, hg1, hg2, hg3, hg4⟩ := hg
  simp only at hf0 hf1 hf2 hf3 hf4 hg0 hg1 hg2 hg3 hg4
  simp only [fe25519_add, Loose, Bounded, val, UInt64.toNat_add]
  refine ⟨⟨?_, ?_, ?_, ?_, ?_⟩, ?_⟩ <;> omega

theorem p_eq : F25519.p = 2 ^ 255 - 19 := rfl

theorem sub_mod (R G F k : Nat) (h : R + G = F + k * (2 ^ 255 - 19)) :
    R % (2 ^ 255 - 19) = (F % (2 ^ 255 - 19) + ((2 ^ 255 - 19) - G % (2 ^ 255 - 19))) % (2 ^ 255 - 19) := by
  omega

theorem c19 : (19 : UInt64).toNat = 19 := rfl
theorem cb0 : (0xfffffffffffda : UInt64).toNat = 2 ^ 52 - 38 := rfl
theorem cb1 : (0xffffffffffffe : UInt64).toNat = 2 ^ 52 - 2 := rfl

theorem bias_sub (a b K : UInt64) (ha : a.toNat + K.toNat < 2 ^ 64) (hb : b.toNat ≤ a.toNat + K.toNat) :
    (a + K - b).toNat = a.toNat + K.toNat - b.toNat := by
  have h : (a + K).toNat = a.toNat + K.toNat := by rw [UInt64.toNat_add]; omega
  rw [UInt64.toNat_sub_of_le _ _ (by rw [UInt64.le_iff_toNat_le, h]; exact hb), h]

theorem sub_spec (f g : Fe) (hf : Tight f) (hg : Loose g) :
    Bounded (2 ^ 53) (fe25519_sub f g) ∧
    val (fe25519_sub f g) % F25519.p = F25519.sub (val f % F25519.p) (val g % F25519.p) := by
  obtain ⟨f0, f1, f2, f3, f4⟩ := f
  obtain ⟨g0, g1, g2, g3, g4⟩ := g
  obtain ⟨hf0, hf1, hf2, hf3, hf4⟩ := hf
  obtain ⟨hg0, hg1, hg2, hg3, hg4⟩ := hg
  simp only at hf0 hf1 hf2 hf3 hf4 hg0 hg1 hg2 hg3 hg4
  obtain ⟨c0, hc0⟩ : ∃ c0, c0 = g0.toNat / 2 ^ 51 := ⟨_, rfl⟩
  obtain ⟨c1, hc1⟩ : ∃ c1, c1 = (g1.toNat + c0) / 2 ^ 51 := ⟨_, rfl⟩
  obtain ⟨c2, hc2⟩ : ∃ c2, c2 = (g2.toNat + c1) / 2 ^ 51 := ⟨_, rfl⟩
  obtain ⟨c3, hc3⟩ : ∃ c3, c3 = (g3.toNat + c2) / 2 ^ 51 := ⟨_, rfl⟩
  obtain ⟨c4, hc4⟩ : ∃ c4, c4 = (g4.toNat + c3) / 2 ^ 51 := ⟨_, rfl⟩
  have e1 : (g1 + g0 >>> 51).toNat = g1.toNat + c0 := by rw [UInt64.toNat_add, shr51]; omega
  have e2 : (g2 + (g1 + g0 >>> 51) >>> 51).toNat = g2.toNat + c1 := by rw [UInt64.toNat_add, shr51, e1]; omega
  have e3 : (g3 + (g2 + (g1 + g0 >>> 51) >>> 51) >>> 51).toNat = g3.toNat + c2 := by
    rw [UInt64.toNat_add, shr51, e2]; omega
  have e4 : (g4 + (g3 + (g2 + (g1 + g0 >>> 51) >>> 51) >>> 51) >>> 51).toNat = g4.toNat + c3 := by
    rw [UInt64.toNat_add, shr51, e3]; omega
  have e0 : ((g0 &&& mask) + (19 : UInt64) * (g4 + (g3 + (g2 + (g1 + g0 >>> 51) >>> 51) >>> 51) >>> 51) >>> 51).toNat
      = g0.toNat % 2 ^ 51 + 19 * c4 := by
    rw [UInt64.toNat_add, UInt64.toNat_mul, shr51, e4, mask_toNat, c19]; omega
  have s0 := bias_sub f0 _ (0xfffffffffffda : UInt64) (by rw [cb0]; omega) (by rw [e0, cb0]; omega)
  have s1 := bias_sub f1 ((g1 + g0 >>> 51) &&& mask) (0xffffffffffffe : UInt64) (by rw [cb1]; omega) (by rw [mask_toNat, cb1]; omega)
  have s2 := bias_sub f2 ((g2 + (g1 + g0 >>> 51) >>> 51) &&& mask) (0xffffffffffffe : UInt64) (by rw [cb1]; omega) (by rw [mask_toNat, cb1]; omega)
  have s3 := bias_sub f3 ((g3 + (g2 + (g1 + g0 >>> 51) >>> 51) >>> 51) &&& mask) (0xffffffffffffe : UInt64) (by rw [cb1]; omega) (by rw [mask_toNat, cb1]; omega)
  have s4 := bias_sub f4 ((g4 + (g3 + (g2 + (g1 + g0 >>> 51) >>> 51) >>> 51) >>> 51) &&& mask) (0xffffffffffffe : UInt64) (by rw [cb1]; omega) (by rw [mask_toNat, cb1]; omega)
  rw [mask_toNat, cb1] at s1 s2 s3 s4
  rw [e1] at s1
  rw [e2] at s2
  rw [e3] at s3
  rw [e4] at s4
  rw [e0, cb0] at s0
  obtain ⟨m0, hm0⟩ : ∃ m0, m0 = g0.toNat % 2 ^ 51 := ⟨_, rfl⟩
  obtain ⟨m1, hm1⟩ : ∃ m1, m1 = (g1.toNat + c0) % 2 ^ 51 := ⟨_, rfl⟩
  obtain ⟨m2, hm2⟩ : ∃ m2, m2 = (g2.toNat + c1) % 2 ^ 51 := ⟨_, rfl⟩
  obtain ⟨m3, hm3⟩ : ∃ m3, m3 = (g3.toNat + c2) % 2 ^ 51 := ⟨_, rfl⟩
  obtain ⟨m4, hm4⟩ : ∃ m4, m4 = (g4.toNat + c3) % 2 ^ 51 := ⟨_, rfl⟩
  rw [← hm0] at s0
  rw [← hm1] at s1
  rw [← hm2] at s2
  rw [← hm3] at s3
  rw [← hm4] at s4
  have k0 : m0 + 2 ^ 51 * c0 = g0.toNat := by omega
  have k1 : m1 + 2 ^ 51 * c1 = g1.toNat + c0 := by omega
  have k2 : m2 + 2 ^ 51 * c2 = g2.toNat + c1 := by omega
  have k3 : m3 + 2 ^ 51 * c3 = g3.toNat + c2 := by omega
  have k4 : m4 + 2 ^ 51 * c4 = g4.toNat + c3 := by omega
  have l0 : m0 < 2 ^ 51 := by omega
  have l1 : m1 < 2 ^ 51 := by omega
  have l2 : m2 < 2 ^ 51 := by omega
  have l3 : m3 < 2 ^ 51 := by omega
  have l4 : m4 < 2 ^ 51 := by omega
  have l5 : c4 < 2 ^ 4 := by omega
  clear hm0 hm1 hm2 hm3 hm4 hc0 hc1 hc2 hc3 hc4 e0 e1 e2 e3 e4
  rw [p_eq, F25519.sub, p_eq, Nat.mod_mod, Nat.mod_mod]
  refine ⟨?_, ?_⟩
  · simp only [fe25519_sub, Bounded, s0, s1, s2, s3, s4]
    refine ⟨?_, ?_, ?_, ?_, ?_⟩ <;> omega
  · apply sub_mod _ _ _ (2 + c4)
    simp only [fe25519_sub, val, s0, s1, s2, s3, s4]
    omega

/-! ### fe25519_mul32 -/

theorem lo_mask (x : Nat) : x % 2 ^ 64 % 2 ^ 51 = x % 2 ^ 51 := Nat.mod_mod_of_dvd x (by decide)
theorem split51 (x : Nat) : x % 2 ^ 51 + 2 ^ 51 * (x / 2 ^ 51) = x := Nat.mod_add_div x _
theorem acc_step (a c : Nat) (ha : a < 2 ^ 86) (hc : c < 2 ^ 36) :
    (a % 2 ^ 128 + c % 2 ^ 64) % 2 ^ 128 = a + c := by omega
theorem carry_lt (a : Nat) (ha : a < 2 ^ 87) : a / 2 ^ 51 < 2 ^ 36 := by omega
theorem acc_last (m c : Nat) (hm : m < 2 ^ 51) (hc : c < 2 ^ 36) :
    (m + c * 19 % 2 ^ 128) % 2 ^ 128 % 2 ^ 64 = m + 19 * c := by omega

theorem mul32_spec (f : Fe) (n : UInt32) (hf : Loose f) :
    Tight (fe25519_mul32 f n) ∧ val (fe25519_mul32 f n) % F25519.p = (val f * n.toNat) % F25519.p := by
  obtain ⟨f0, f1, f2, f3, f4⟩ := f
  obtain ⟨hf0, hf1, hf2, hf3, hf4⟩ := hf
  simp only at hf0 hf1 hf2 hf3 hf4
  have hn : n.toNat < 2 ^ 32 := n.toNat_lt
  have b0 := Nat.mul_lt_mul'' hf0 hn
  have b1 := Nat.mul_lt_mul'' hf1 hn
  have b2 := Nat.mul_lt_mul'' hf2 hn
  have b3 := Nat.mul_lt_mul'' hf3 hn
  have b4 := Nat.mul_lt_mul'' hf4 hn
  have hv : val ⟨f0, f1, f2, f3, f4⟩ * n.toNat = f0.toNat * n.toNat + f1.toNat * n.toNat * 2 ^ 51 +
      f2.toNat * n.toNat * 2 ^ 102 + f3.toNat * n.toNat * 2 ^ 153 + f4.toNat * n.toNat * 2 ^ 204 := by
    simp only [val]; ring
  rw [hv]
  simp only [fe25519_mul32, u128, mul128_eq, add128_eq, shr128_eq, lo64_toNat, mask_toNat, Tight, Bounded, val,
    lo_mask]
  generalize f0.toNat * n.toNat = a0 at *
  generalize f1.toNat * n.toNat = a1 at *
  generalize f2.toNat * n.toNat = a2 at *
  generalize f3.toNat * n.toNat = a3 at *
  generalize f4.toNat * n.toNat = a4 at *
  clear hv hf0 hf1 hf2 hf3 hf4 hn
  have t0 : a0 % 2 ^ 128 = a0 := Nat.mod_eq_of_lt (by omega)
  rw [t0]; clear t0
  have t1 := acc_step a1 (a0 / 2 ^ 51) (by omega) (carry_lt a0 (by omega))
  rw [t1]; clear t1
  have bc0 := carry_lt a0 (by omega)
  have t2 := acc_step a2 ((a1 + a0 / 2 ^ 51) / 2 ^ 51) (by omega) (carry_lt _ (by omega))
  rw [t2]; clear t2
  have bc1 := carry_lt (a1 + a0 / 2 ^ 51) (by omega)
  have t3 := acc_step a3 ((a2 + (a1 + a0 / 2 ^ 51) / 2 ^ 51) / 2 ^ 51) (by omega) (carry_lt _ (by omega))
  rw [t3]; clear t3
  have bc2 := carry_lt (a2 + (a1 + a0 / 2 ^ 51) / 2 ^ 51) (by omega)
  have t4 := acc_step a4 ((a3 + (a2 + (a1 + a0 / 2 ^ 51) / 2 ^ 51) / 2 ^ 51) / 2 ^ 51) (by omega) (carry_lt _ (by omega))
  rw [t4]; clear t4
  have bc3 := carry_lt (a3 + (a2 + (a1 + a0 / 2 ^ 51) / 2 ^ 51) / 2 ^ 51) (by omega)
  have bc4 := carry_lt (a4 + (a3 + (a2 + (a1 + a0 / 2 ^ 51) / 2 ^ 51) / 2 ^ 51) / 2 ^ 51) (by omega)
  rw [acc_last _ _ (Nat.mod_lt _ (by decide)) bc4]
  have k0 := split51 a0
  have k1 := split51 (a1 + a0 / 2 ^ 51)
  have k2 := split51 (a2 + (a1 + a0 / 2 ^ 51) / 2 ^ 51)
  have k3 := split51 (a3 + (a2 + (a1 + a0 / 2 ^ 51) / 2 ^ 51) / 2 ^ 51)
  have k4 := split51 (a4 + (a3 + (a2 + (a1 + a0 / 2 ^ 51) / 2 ^ 51) / 2 ^ 51) / 2 ^ 51)
  have l0 : a0 % 2 ^ 51 < 2 ^ 51 := Nat.mod_lt _ (by decide)
  have l1 : (a1 + a0 / 2 ^ 51) % 2 ^ 51 < 2 ^ 51 := Nat.mod_lt _ (by decide)
  have l2 : (a2 + (a1 + a0 / 2 ^ 51) / 2 ^ 51) % 2 ^ 51 < 2 ^ 51 := Nat.mod_lt _ (by decide)
  have l3 : (a3 + (a2 + (a1 + a0 / 2 ^ 51) / 2 ^ 51) / 2 ^ 51) % 2 ^ 51 < 2 ^ 51 := Nat.mod_lt _ (by decide)
  have l4 : (a4 + (a3 + (a2 + (a1 + a0 / 2 ^ 51) / 2 ^ 51) / 2 ^ 51) / 2 ^ 51) % 2 ^ 51 < 2 ^ 51 := Nat.mod_lt _ (by decide)
  generalize (a4 + (a3 + (a2 + (a1 + a0 / 2 ^ 51) / 2 ^ 51) / 2 ^ 51) / 2 ^ 51) % 2 ^ 51 = m4 at *
  generalize (a4 + (a3 + (a2 + (a1 + a0 / 2 ^ 51) / 2 ^ 51) / 2 ^ 51) / 2 ^ 51) / 2 ^ 51 = c4 at *
  generalize (a3 + (a2 + (a1 + a0 / 2 ^ 51) / 2 ^ 51) / 2 ^ 51) % 2 ^ 51 = m3 at *
  generalize (a3 + (a2 + (a1 + a0 / 2 ^ 51) / 2 ^ 51) / 2 ^ 51) / 2 ^ 51 = c3 at *
  generalize (a2 + (a1 + a0 / 2 ^ 51) / 2 ^ 51) % 2 ^ 51 = m2 at *
  generalize (a2 + (a1 + a0 / 2 ^ 51) / 2 ^ 51) / 2 ^ 51 = c2 at *
  generalize (a1 + a0 / 2 ^ 51) % 2 ^ 51 = m1 at *
  generalize (a1 + a0 / 2 ^ 51) / 2 ^ 51 = c1 at *
  generalize a0 % 2 ^ 51 = m0 at *
  generalize a0 / 2 ^ 51 = c0 at *
  refine ⟨⟨?_, ?_, ?_, ?_, ?_⟩, ?_⟩
  · omega
  · omega
  · omega
  · omega
  · omega
  · rw [p_eq]
    apply mod_of_eq_add_mul _ (a0 + a1 * 2 ^ 51 + a2 * 2 ^ 102 + a3 * 2 ^ 153 + a4 * 2 ^ 204) c4 0 _ _ _ (by omega)
    omega


/-! ### fe25519_cswap, fe25519_cmov -/

theorem xor_and_zero (a b : UInt64) : a ^^^ ((a ^^^ b) &&& 0) = a := by simp
theorem xor_and_ones (a b : UInt64) : a ^^^ ((a ^^^ b) &&& (0 - 1)) = b := by
  have : (0 : UInt64) - 1 = -1 := by decide
  rw [this, UInt64.and_neg_one, ← UInt64.xor_assoc, UInt64.xor_self, UInt64.zero_xor]
theorem xor_and_ones' (a b : UInt64) : b ^^^ ((a ^^^ b) &&& (0 - 1)) = a := by
  rw [UInt64.xor_comm a b]; exact xor_and_ones b a

theorem cswap0 (f g : Fe) : fe25519_cswap f g 0 = (f, g) := by
  have h : (0 : UInt64) - (0 : UInt32).toUInt64 = 0 := by decide
  simp only [fe25519_cswap, h, xor_and_zero]
  simp

theorem cswap1 (f g : Fe) : fe25519_cswap f g 1 = (g, f) := by
  have h : (0 : UInt64) - (1 : UInt32).toUInt64 = 0 - 1 := by decide
  simp only [fe25519_cswap, h, xor_and_ones, xor_and_ones']

theorem cmov0 (f g : Fe) : fe25519_cmov f g 0 = f := by
  have h : (0 : UInt64) - (0 : UInt32).toUInt64 = 0 := by decide
  simp only [fe25519_cmov, h, xor_and_zero]

theorem cmov1 (f g : Fe) : fe25519_cmov f g 1 = g := by
  have h : (0 : UInt64) - (1 : UInt32).toUInt64 = 0 - 1 := by decide
  simp only [fe25519_cmov, h, xor_and_ones]


/-! ### fe25519_frombytes -/

theorem le_take_add (l : Bytes) (a b : Nat) :
    le (l.take (a + b)) = le (l.take a) + 256 ^ a * le ((l.drop a).take b) := by
  rw [List.take_add, le_append]
  by_cases h : a ≤ l.length
  · rw [List.length_take, Nat.min_eq_left h]
  · have : l.drop a = [] := List.drop_eq_nil_of_le (by omega)
    simp [this, le]

theorem le_take_lt (l : Bytes) (k : Nat) : le (l.take k) < 256 ^ k := by
  have h1 := le_lt (l.take k)
  have h2 : (l.take k).length ≤ k := by simp
  exact Nat.lt_of_lt_of_le h1 (Nat.pow_le_pow_right (by decide) h2)

/-- the 8 bytes at offset `off` of the first 32 bytes, as a bit field of the 256-bit value -/
theorem load_field (s : Bytes) (off : Nat) (h : off + 8 ≤ 32) :
    (LOAD64_LE s off).toNat = le (s.take 32) / 256 ^ off % 256 ^ 8 := by
  obtain ⟨r, hr⟩ : ∃ r, 32 = off + (8 + r) := ⟨32 - off - 8, by omega⟩
  rw [LOAD64_LE, load64_toNat, hr, le_take_add s off (8 + r), le_take_add (s.drop off) 8 r]
  have h1 := le_take_lt s off
  have h2 := le_take_lt (s.drop off) 8
  have hp : 0 < 256 ^ off := Nat.pow_pos (by decide)
  rw [Nat.add_comm (le (s.take off)), Nat.mul_add_div hp, Nat.div_eq_of_lt h1, Nat.add_zero,
    Nat.add_mul_mod_self_left, Nat.mod_eq_of_lt h2]

theorem shr_lit (x k : UInt64) : (x >>> k).toNat = x.toNat / 2 ^ (k.toNat % 64) := by
  rw [UInt64.toNat_shiftRight, Nat.shiftRight_eq_div_pow]

theorem field_limbs (N : Nat) :
    N % 256 ^ 8 % 2 ^ 51 + (N / 256 ^ 6 % 256 ^ 8 / 2 ^ 3 % 2 ^ 51) * 2 ^ 51 +
      (N / 256 ^ 12 % 256 ^ 8 / 2 ^ 6 % 2 ^ 51) * 2 ^ 102 + (N / 256 ^ 19 % 256 ^ 8 / 2 ^ 1 % 2 ^ 51) * 2 ^ 153 +
      (N / 256 ^ 24 % 256 ^ 8 / 2 ^ 12 % 2 ^ 51) * 2 ^ 204 = N % 2 ^ 255 := by
  omega

theorem frombytes_val (s : Bytes) :
    val (fe25519_frombytes s) = le (s.take 32) % 2 ^ 255 ∧ Bounded (2 ^ 51) (fe25519_frombytes s) := by
  have e0 := load_field s 0 (by omega)
  have e1 := load_field s 6 (by omega)
  have e2 := load_field s 12 (by omega)
  have e3 := load_field s 19 (by omega)
  have e4 := load_field s 24 (by omega)
  have k3 : ((3 : UInt64).toNat % 64) = 3 := rfl
  have k6 : ((6 : UInt64).toNat % 64) = 6 := rfl
  have k1 : ((1 : UInt64).toNat % 64) = 1 := rfl
  have k12 : ((12 : UInt64).toNat % 64) = 12 := rfl
  refine ⟨?_, ?_⟩
  · simp only [val, fe25519_frombytes, mask_toNat, shr_lit, e0, e1, e2, e3, e4, k1, k3, k6, k12]
    rw [Nat.pow_zero, Nat.div_one]
    exact field_limbs _
  · simp only [Bounded, fe25519_frombytes, mask_toNat]
    refine ⟨?_, ?_, ?_, ?_, ?_⟩ <;> exact Nat.mod_lt _ (by decide)


/-! ### fe25519_reduce -/

abbrev T5 := Nat × Nat × Nat × Nat × Nat

/-- weighted sum of five 128-bit words -/
def wsum (t : T5) : Nat := t.1 + t.2.1 * 2 ^ 51 + t.2.2.1 * 2 ^ 102 + t.2.2.2.1 * 2 ^ 153 + t.2.2.2.2 * 2 ^ 204

theorem mask_nat : mask.toNat = 2 ^ 51 - 1 := rfl
theorem and_mask (x : Nat) : x &&& mask.toNat = x % 2 ^ 51 := by
  rw [mask_nat]; exact Nat.and_two_pow_sub_one_eq_mod x 51

/-- the result of one carry pass followed by the `19 *` fold, in terms of the weighted sum `T` -/
def FP (T : Nat) : T5 :=
  (T % 2 ^ 51 + 19 * (T / 2 ^ 255), T / 2 ^ 51 % 2 ^ 51, T / 2 ^ 102 % 2 ^ 51, T / 2 ^ 153 % 2 ^ 51,
   T / 2 ^ 204 % 2 ^ 51)

theorem pass_digits (t0 t1 t2 t3 t4 : Nat) :
    t0 % 2 ^ 51 = (t0 + t1 * 2 ^ 51 + t2 * 2 ^ 102 + t3 * 2 ^ 153 + t4 * 2 ^ 204) % 2 ^ 51 ∧
    (t1 + t0 / 2 ^ 51) % 2 ^ 51 = (t0 + t1 * 2 ^ 51 + t2 * 2 ^ 102 + t3 * 2 ^ 153 + t4 * 2 ^ 204) / 2 ^ 51 % 2 ^ 51 ∧
    (t2 + (t1 + t0 / 2 ^ 51) / 2 ^ 51) % 2 ^ 51 =
      (t0 + t1 * 2 ^ 51 + t2 * 2 ^ 102 + t3 * 2 ^ 153 + t4 * 2 ^ 204) / 2 ^ 102 % 2 ^ 51 ∧
    (t3 + (t2 + (t1 + t0 / 2 ^ 51) / 2 ^ 51) / 2 ^ 51) % 2 ^ 51 =
      (t0 + t1 * 2 ^ 51 + t2 * 2 ^ 102 + t3 * 2 ^ 153 + t4 * 2 ^ 204) / 2 ^ 153 % 2 ^ 51 ∧
    t4 + (t3 + (t2 + (t1 + t0 / 2 ^ 51) / 2 ^ 51) / 2 ^ 51) / 2 ^ 51 =
      (t0 + t1 * 2 ^ 51 + t2 * 2 ^ 102 + t3 * 2 ^ 153 + t4 * 2 ^ 204) / 2 ^ 204 := by
  refine ⟨?_, ?_, ?_, ?_, ?_⟩ <;> omega


theorem add128_small (a b : Nat) (h : a + b < 2 ^ 128) : add128 a b = a + b := by
  rw [add128_eq]; exact Nat.mod_eq_of_lt h

/-- a carry pass on words below 2^100 produces the base-2^51 digits of the weighted sum (the top
    word keeps everything above 2^204); nothing wraps in 128 bits -/
theorem carry_pass_eq (t : T5) (h0 : t.1 < 2 ^ 100) (h1 : t.2.1 < 2 ^ 100) (h2 : t.2.2.1 < 2 ^ 100)
    (h3 : t.2.2.2.1 < 2 ^ 100) (h4 : t.2.2.2.2 < 2 ^ 100) :
    carry_pass t = (wsum t % 2 ^ 51, wsum t / 2 ^ 51 % 2 ^ 51, wsum t / 2 ^ 102 % 2 ^ 51,
      wsum t / 2 ^ 153 % 2 ^ 51, wsum t / 2 ^ 204) := by
  obtain ⟨t0, t1, t2, t3, t4⟩ := t
  simp only at h0 h1 h2 h3 h4
  obtain ⟨d0, d1, d2, d3, d4⟩ := pass_digits t0 t1 t2 t3 t4
  have a1 : add128 t1 (shr128 t0 51) = t1 + t0 / 2 ^ 51 := by
    rw [shr128_eq]; exact add128_small _ _ (by omega)
  have a2 : add128 t2 (shr128 (t1 + t0 / 2 ^ 51) 51) = t2 + (t1 + t0 / 2 ^ 51) / 2 ^ 51 := by
    rw [shr128_eq]; exact add128_small _ _ (by omega)
  have a3 : add128 t3 (shr128 (t2 + (t1 + t0 / 2 ^ 51) / 2 ^ 51) 51) = t3 + (t2 + (t1 + t0 / 2 ^ 51) / 2 ^ 51) / 2 ^ 51 := by
    rw [shr128_eq]; exact add128_small _ _ (by omega)
  have a4 : add128 t4 (shr128 (t3 + (t2 + (t1 + t0 / 2 ^ 51) / 2 ^ 51) / 2 ^ 51) 51) =
      t4 + (t3 + (t2 + (t1 + t0 / 2 ^ 51) / 2 ^ 51) / 2 ^ 51) / 2 ^ 51 := by
    rw [shr128_eq]; exact add128_small _ _ (by omega)
  simp only [carry_pass, a1, a2, a3, a4, and_mask, wsum, d0, d1, d2, d3, d4]

theorem div_div_255 (T : Nat) : T / 2 ^ 204 / 2 ^ 51 = T / 2 ^ 255 := by
  rw [Nat.div_div_eq_div_mul]; rfl

/-- carry pass + fold on words below 2^100 -/
theorem fold_pass (t : T5) (h0 : t.1 < 2 ^ 100) (h1 : t.2.1 < 2 ^ 100) (h2 : t.2.2.1 < 2 ^ 100)
    (h3 : t.2.2.2.1 < 2 ^ 100) (h4 : t.2.2.2.2 < 2 ^ 100) : fold19 (carry_pass t) = FP (wsum t) := by
  rw [carry_pass_eq t h0 h1 h2 h3 h4]
  have hT : wsum t < 2 ^ 305 := by
    obtain ⟨t0, t1, t2, t3, t4⟩ := t
    simp only [wsum] at *
    omega
  generalize wsum t = T at *
  have e : add128 (T % 2 ^ 51) (mul128 19 (shr128 (T / 2 ^ 204) 51)) = T % 2 ^ 51 + 19 * (T / 2 ^ 255) := by
    have b1 : 19 * (T / 2 ^ 255) < 2 ^ 128 := by omega
    have b2 : T % 2 ^ 51 + 19 * (T / 2 ^ 255) < 2 ^ 128 := by omega
    rw [shr128_eq, div_div_255, mul128_eq, Nat.mod_eq_of_lt b1]
    exact add128_small _ _ b2
  simp only [fold19, FP, e, and_mask]

theorem wsum_FP (T : Nat) : wsum (FP T) = T % 2 ^ 255 + 19 * (T / 2 ^ 255) := by
  simp only [wsum, FP]; omega

theorem fold_mod (T : Nat) : (T % 2 ^ 255 + 19 * (T / 2 ^ 255)) % (2 ^ 255 - 19) = T % (2 ^ 255 - 19) := by
  omega

theorem fold_lt (T : Nat) (h : T < 2 ^ 255 + 2 ^ 19) :
    T % 2 ^ 255 + 19 * (T / 2 ^ 255) < 2 ^ 255 ∧ T % 2 ^ 51 + 19 * (T / 2 ^ 255) < 2 ^ 51 := by
  omega

/-- the last two steps on a fully carried value below 2^255: `+19`, fold, `+ (2^255 - 19)`, drop bit 255 -/
theorem final_sub (W : Nat) (h : W < 2 ^ 255) :
    ((W + 19) % 2 ^ 255 + 19 * ((W + 19) / 2 ^ 255) + (2 ^ 255 - 19)) % 2 ^ 255 = W % (2 ^ 255 - 19) := by
  by_cases hc : W < 2 ^ 255 - 19
  · have e1 : (W + 19) / 2 ^ 255 = 0 := Nat.div_eq_of_lt (by omega)
    have e2 : (W + 19) % 2 ^ 255 = W + 19 := Nat.mod_eq_of_lt (by omega)
    have e3 : W % (2 ^ 255 - 19) = W := Nat.mod_eq_of_lt hc
    rw [e1, e2, e3]; omega
  · have e1 : (W + 19) / 2 ^ 255 = 1 := by omega
    have e2 : (W + 19) % 2 ^ 255 = W + 19 - 2 ^ 255 := by omega
    have e3 : W % (2 ^ 255 - 19) = W - (2 ^ 255 - 19) := by omega
    rw [e1, e2, e3]; omega


def add19 (t : T5) : T5 := (add128 t.1 19, t.2)
def addc (t : T5) : T5 :=
  (add128 t.1 (0x8000000000000 - 19), add128 t.2.1 (0x8000000000000 - 1), add128 t.2.2.1 (0x8000000000000 - 1),
   add128 t.2.2.2.1 (0x8000000000000 - 1), add128 t.2.2.2.2 (0x8000000000000 - 1))
def outFe (t : T5) : Fe :=
  ⟨lo64 t.1, lo64 t.2.1, lo64 t.2.2.1, lo64 t.2.2.2.1, lo64 (t.2.2.2.2 &&& mask.toNat)⟩

theorem reduce_eq (f : Fe) : fe25519_reduce f = outFe (carry_pass (addc (fold19 (carry_pass (add19
    (fold19 (carry_pass (fold19 (carry_pass (u128 f.l0, u128 f.l1, u128 f.l2, u128 f.l3, u128 f.l4)))))))))) := rfl

theorem FP_lt (T : Nat) (h : T < 2 ^ 269) : (FP T).1 < 2 ^ 100 ∧ (FP T).2.1 < 2 ^ 100 ∧ (FP T).2.2.1 < 2 ^ 100 ∧
    (FP T).2.2.2.1 < 2 ^ 100 ∧ (FP T).2.2.2.2 < 2 ^ 100 := by
  simp only [FP]; refine ⟨?_, ?_, ?_, ?_, ?_⟩ <;> omega

theorem val_lt (f : Fe) : val f < 2 ^ 269 := by
  have h0 := f.l0.toNat_lt; have h1 := f.l1.toNat_lt; have h2 := f.l2.toNat_lt
  have h3 := f.l3.toNat_lt; have h4 := f.l4.toNat_lt
  simp only [val]; omega

theorem digits_sum (T : Nat) : T % 2 ^ 51 + (T / 2 ^ 51 % 2 ^ 51) * 2 ^ 51 + (T / 2 ^ 102 % 2 ^ 51) * 2 ^ 102 +
    (T / 2 ^ 153 % 2 ^ 51) * 2 ^ 153 + (T / 2 ^ 204 % 2 ^ 51) * 2 ^ 204 = T % 2 ^ 255 := by omega



/-! ### fe25519_reduce: the constants -/

theorem add19_FP (T : Nat) (hT : T < 2 ^ 255 + 2 ^ 19) :
    wsum (add19 (FP T)) = T % 2 ^ 255 + 19 * (T / 2 ^ 255) + 19 ∧
    (add19 (FP T)).1 < 2 ^ 100 ∧ (add19 (FP T)).2.1 < 2 ^ 100 ∧ (add19 (FP T)).2.2.1 < 2 ^ 100 ∧
    (add19 (FP T)).2.2.2.1 < 2 ^ 100 ∧ (add19 (FP T)).2.2.2.2 < 2 ^ 100 := by
  have hl := (fold_lt T hT).2
  have e19 : add19 (FP T) = ((FP T).1 + 19, (FP T).2) := by
    simp only [add19]; rw [add128_small _ _ (by simp only [FP]; omega)]
  rw [e19, ← wsum_FP T]
  simp only [FP, wsum] at hl ⊢
  refine ⟨?_, ?_, ?_, ?_, ?_, ?_⟩ <;> omega

theorem addc_FP (T : Nat) (hT : T < 2 ^ 255 + 2 ^ 19) :
    wsum (addc (FP T)) = T % 2 ^ 255 + 19 * (T / 2 ^ 255) + (2 ^ 255 - 19) ∧
    (addc (FP T)).1 < 2 ^ 100 ∧ (addc (FP T)).2.1 < 2 ^ 100 ∧ (addc (FP T)).2.2.1 < 2 ^ 100 ∧
    (addc (FP T)).2.2.2.1 < 2 ^ 100 ∧ (addc (FP T)).2.2.2.2 < 2 ^ 100 := by
  have hl := (fold_lt T hT).2
  rw [← wsum_FP T]
  simp only [addc, FP, wsum] at hl ⊢
  have m1 : T / 2 ^ 51 % 2 ^ 51 < 2 ^ 51 := Nat.mod_lt _ (by decide)
  have m2 : T / 2 ^ 102 % 2 ^ 51 < 2 ^ 51 := Nat.mod_lt _ (by decide)
  have m3 : T / 2 ^ 153 % 2 ^ 51 < 2 ^ 51 := Nat.mod_lt _ (by decide)
  have m4 : T / 2 ^ 204 % 2 ^ 51 < 2 ^ 51 := Nat.mod_lt _ (by decide)
  generalize T % 2 ^ 51 + 19 * (T / 2 ^ 255) = a0 at *
  generalize T / 2 ^ 51 % 2 ^ 51 = a1 at *
  generalize T / 2 ^ 102 % 2 ^ 51 = a2 at *
  generalize T / 2 ^ 153 % 2 ^ 51 = a3 at *
  generalize T / 2 ^ 204 % 2 ^ 51 = a4 at *
  rw [add128_small _ _ (by omega), add128_small _ _ (by omega), add128_small _ _ (by omega),
      add128_small _ _ (by omega), add128_small _ _ (by omega)]
  refine ⟨?_, ?_, ?_, ?_, ?_, ?_⟩ <;> omega


/-! ### fe25519_reduce: the whole function -/

theorem outFe_digits (T : Nat) :
    Bounded (2 ^ 51) (outFe (T % 2 ^ 51, T / 2 ^ 51 % 2 ^ 51, T / 2 ^ 102 % 2 ^ 51, T / 2 ^ 153 % 2 ^ 51, T / 2 ^ 204)) ∧
    val (outFe (T % 2 ^ 51, T / 2 ^ 51 % 2 ^ 51, T / 2 ^ 102 % 2 ^ 51, T / 2 ^ 153 % 2 ^ 51, T / 2 ^ 204)) = T % 2 ^ 255 := by
  have m0 : T % 2 ^ 51 < 2 ^ 51 := Nat.mod_lt _ (by decide)
  have m1 : T / 2 ^ 51 % 2 ^ 51 < 2 ^ 51 := Nat.mod_lt _ (by decide)
  have m2 : T / 2 ^ 102 % 2 ^ 51 < 2 ^ 51 := Nat.mod_lt _ (by decide)
  have m3 : T / 2 ^ 153 % 2 ^ 51 < 2 ^ 51 := Nat.mod_lt _ (by decide)
  have m4 : T / 2 ^ 204 % 2 ^ 51 < 2 ^ 51 := Nat.mod_lt _ (by decide)
  have d := digits_sum T
  simp only [outFe, Bounded, val, lo64_toNat, and_mask]
  rw [Nat.mod_eq_of_lt (Nat.lt_trans m0 (by decide)), Nat.mod_eq_of_lt (Nat.lt_trans m1 (by decide)),
    Nat.mod_eq_of_lt (Nat.lt_trans m2 (by decide)), Nat.mod_eq_of_lt (Nat.lt_trans m3 (by decide)),
    Nat.mod_eq_of_lt (Nat.lt_trans m4 (by decide))]
  exact ⟨⟨m0, m1, m2, m3, m4⟩, d⟩

theorem fold_lt0 (T : Nat) (h : T < 2 ^ 269) : T % 2 ^ 255 + 19 * (T / 2 ^ 255) < 2 ^ 255 + 2 ^ 19 := by omega

/-- `fe25519_reduce` returns the canonical representative, fully carried, for EVERY input -/
theorem reduce_spec (f : Fe) :
    Bounded (2 ^ 51) (fe25519_reduce f) ∧ val (fe25519_reduce f) = val f % (2 ^ 255 - 19) := by
  rw [reduce_eq]
  have hw : wsum (u128 f.l0, u128 f.l1, u128 f.l2, u128 f.l3, u128 f.l4) = val f := rfl
  have hT0 := val_lt f
  have g0 := f.l0.toNat_lt; have g1 := f.l1.toNat_lt; have g2 := f.l2.toNat_lt
  have g3 := f.l3.toNat_lt; have g4 := f.l4.toNat_lt
  rw [fold_pass (u128 f.l0, u128 f.l1, u128 f.l2, u128 f.l3, u128 f.l4) (by show f.l0.toNat < _; omega)
    (by show f.l1.toNat < _; omega) (by show f.l2.toNat < _; omega)
    (by show f.l3.toNat < _; omega) (by show f.l4.toNat < _; omega), hw]
  generalize val f = T0 at *
  clear g0 g1 g2 g3 g4 hw
  -- second pass
  obtain ⟨q0, q1, q2, q3, q4⟩ := FP_lt T0 hT0
  rw [fold_pass (FP T0) q0 q1 q2 q3 q4, wsum_FP]
  clear q0 q1 q2 q3 q4
  have hm1 := fold_mod T0
  have hT1 := fold_lt0 T0 hT0
  generalize T0 % 2 ^ 255 + 19 * (T0 / 2 ^ 255) = T1 at *
  clear hT0
  -- `t[0] += 19` and the third pass
  have hT2 := (fold_lt T1 hT1).1
  have hm2 := fold_mod T1
  obtain ⟨w19, r0, r1, r2, r3, r4⟩ := add19_FP T1 hT1
  rw [fold_pass (add19 (FP T1)) r0 r1 r2 r3 r4, w19]
  clear r0 r1 r2 r3 r4 w19
  generalize T1 % 2 ^ 255 + 19 * (T1 / 2 ^ 255) = T2 at *
  clear hT1
  -- the constants and the fourth pass
  have hfin := final_sub T2 hT2
  obtain ⟨wc, r0, r1, r2, r3, r4⟩ := addc_FP (T2 + 19) (Nat.add_lt_add hT2 (by decide))
  rw [carry_pass_eq (addc (FP (T2 + 19))) r0 r1 r2 r3 r4, wc]
  obtain ⟨hb, hv⟩ := outFe_digits ((T2 + 19) % 2 ^ 255 + 19 * ((T2 + 19) / 2 ^ 255) + (2 ^ 255 - 19))
  refine ⟨hb, ?_⟩
  rw [hv, hfin, hm2, hm1]


/-! ### fe25519_tobytes -/

theorem or_shl_nat (a b k n : Nat) (ha : a < 2 ^ k) (hk : k ≤ n) :
    a ||| (b <<< k % 2 ^ n) = a + (b % 2 ^ (n - k)) * 2 ^ k := by
  have h1 : b <<< k % 2 ^ n = (b % 2 ^ (n - k)) <<< k := by
    rw [Nat.shiftLeft_eq, Nat.shiftLeft_eq]
    have : 2 ^ n = 2 ^ (n - k) * 2 ^ k := by rw [← Nat.pow_add]; congr 1; omega
    rw [this, Nat.mul_mod_mul_right]
  rw [h1, Nat.or_comm, ← Nat.shiftLeft_add_eq_or_of_lt ha, Nat.shiftLeft_eq, Nat.add_comm]

/-- `lo | (hi << k)` on UInt64 when `lo < 2^k` -/
theorem or_shl (lo hi k : UInt64) (hk : k.toNat < 64) (h : lo.toNat < 2 ^ k.toNat) :
    (lo ||| (hi <<< k)).toNat = lo.toNat + (hi.toNat % 2 ^ (64 - k.toNat)) * 2 ^ k.toNat := by
  rw [UInt64.toNat_or, UInt64.toNat_shiftLeft, Nat.mod_eq_of_lt hk]
  exact or_shl_nat _ _ _ 64 h (by omega)

theorem pack_words (h0 h1 h2 h3 h4 : Nat) (b4 : h4 < 2 ^ 51) :
    (h0 + h1 % 2 ^ 13 * 2 ^ 51) + 2 ^ 64 * ((h1 / 2 ^ 13 + h2 % 2 ^ 26 * 2 ^ 38) +
      2 ^ 64 * ((h2 / 2 ^ 26 + h3 % 2 ^ 39 * 2 ^ 25) + 2 ^ 64 * (h3 / 2 ^ 39 + h4 % 2 ^ 52 * 2 ^ 12))) =
    h0 + h1 * 2 ^ 51 + h2 * 2 ^ 102 + h3 * 2 ^ 153 + h4 * 2 ^ 204 := by
  omega

/-- the four stores of `fe25519_tobytes` on fully carried limbs -/
theorem pack_spec (t : Fe) (ht : Bounded (2 ^ 51) t) :
    STORE64_LE (t.l0 ||| (t.l1 <<< 51)) ++ STORE64_LE ((t.l1 >>> 13) ||| (t.l2 <<< 38)) ++
      STORE64_LE ((t.l2 >>> 26) ||| (t.l3 <<< 25)) ++ STORE64_LE ((t.l3 >>> 39) ||| (t.l4 <<< 12)) =
    toLE 32 (val t) := by
  obtain ⟨b0, b1, b2, b3, b4⟩ := ht
  have k51 : (51 : UInt64).toNat = 51 := rfl
  have k38 : (38 : UInt64).toNat = 38 := rfl
  have k25 : (25 : UInt64).toNat = 25 := rfl
  have k12 : (12 : UInt64).toNat = 12 := rfl
  have k13 : (13 : UInt64).toNat % 64 = 13 := rfl
  have k26 : (26 : UInt64).toNat % 64 = 26 := rfl
  have k39 : (39 : UInt64).toNat % 64 = 39 := rfl
  have s1 : (t.l1 >>> 13).toNat = t.l1.toNat / 2 ^ 13 := by rw [shr_lit, k13]
  have s2 : (t.l2 >>> 26).toNat = t.l2.toNat / 2 ^ 26 := by rw [shr_lit, k26]
  have s3 : (t.l3 >>> 39).toNat = t.l3.toNat / 2 ^ 39 := by rw [shr_lit, k39]
  have w0 := or_shl t.l0 t.l1 51 (by decide) (by rw [k51]; exact b0)
  have w1 := or_shl (t.l1 >>> 13) t.l2 38 (by decide) (by rw [k38, s1]; omega)
  have w2 := or_shl (t.l2 >>> 26) t.l3 25 (by decide) (by rw [k25, s2]; omega)
  have w3 := or_shl (t.l3 >>> 39) t.l4 12 (by decide) (by rw [k12, s3]; omega)
  rw [k51] at w0; rw [k38, s1] at w1; rw [k25, s2] at w2; rw [k12, s3] at w3
  have hv : val t < 256 ^ 32 := by simp only [val]; omega
  apply le_inj
  · simp [STORE64_LE, toLE_length]
  · simp only [STORE64_LE, le_append, le_store64, store64_length, List.length_append, le_toLE,
      w0, w1, w2, w3, val]
    have := pack_words t.l0.toNat t.l1.toNat t.l2.toNat t.l3.toNat t.l4.toNat b4
    omega

theorem tobytes_spec_all (f : Fe) : fe25519_tobytes f = toLE 32 (val f % F25519.p) := by
  obtain ⟨hb, hv⟩ := reduce_spec f
  rw [p_eq, ← hv]
  exact pack_spec _ hb


/-! ### the specification's power -/

/-! the specification's square-and-multiply is the natural-number power -/

theorem powLoop_mod : ∀ (fuel b e acc : Nat), e < 2 ^ fuel →
    F25519.powLoop fuel b e acc % F25519.p = (acc * b ^ e) % F25519.p
  | 0, b, e, acc, h => by
    have : e = 0 := by omega
    subst this; simp [F25519.powLoop]
  | fuel + 1, b, e, acc, h => by
    simp only [F25519.powLoop]
    split
    · next h0 => subst h0; simp
    · next h0 =>
      have he : e / 2 < 2 ^ fuel := by rw [Nat.pow_succ] at h; omega
      rw [powLoop_mod fuel _ _ _ he]
      have hsq : (F25519.sqr b) ^ (e / 2) % F25519.p = (b ^ (2 * (e / 2))) % F25519.p := by
        rw [F25519.sqr, Nat.pow_mul, ← Nat.pow_mod, Nat.pow_two]
      split
      · next h1 =>
        have e2 : e = 2 * (e / 2) + 1 := by omega
        rw [Nat.mul_mod, hsq, F25519.mul, Nat.mod_mod, ← Nat.mul_mod]
        conv => rhs; rw [e2, Nat.pow_succ]
        rw [Nat.mul_assoc, Nat.mul_comm b]
      · next h1 =>
        have e2 : e = 2 * (e / 2) := by omega
        rw [Nat.mul_mod, hsq, ← Nat.mul_mod]
        conv => rhs; rw [e2]

theorem pow_eq (a e : Nat) : F25519.pow a e = a ^ e % F25519.p := by
  have hlt : F25519.pow a e < F25519.p := LadderRef10P.powLoop_lt _ _ _ _ (by decide)
  have h := powLoop_mod (e.log2 + 1) (a % F25519.p) e 1 Nat.lt_log2_self
  rw [Nat.one_mul, ← Nat.pow_mod] at h
  rw [← h]; exact (Nat.mod_eq_of_lt hlt).symm

theorem inv_eq (a : Nat) : F25519.inv a = a ^ (2 ^ 255 - 21) % F25519.p := by
  rw [F25519.inv, pow_eq]; rfl


/-! ### fe25519_invert -/

theorem Bounded.mono {A B : Nat} (h : A ≤ B) {f : Fe} (hf : Bounded A f) : Bounded B f :=
  ⟨Nat.lt_of_lt_of_le hf.1 h, Nat.lt_of_lt_of_le hf.2.1 h, Nat.lt_of_lt_of_le hf.2.2.1 h,
   Nat.lt_of_lt_of_le hf.2.2.2.1 h, Nat.lt_of_lt_of_le hf.2.2.2.2 h⟩

theorem Tight.loose {f : Fe} (h : Tight f) : Loose f := Bounded.mono (by decide) h

/-- `t` is a loosely bounded representative of `x^k` -/
def IsPow (x : Nat) (t : Fe) (k : Nat) : Prop := Loose t ∧ val t % F25519.p = x ^ k % F25519.p

theorem IsPow.sq {x : Nat} {t : Fe} {k : Nat} (h : IsPow x t k) : IsPow x (fe25519_sq t) (2 * k) := by
  obtain ⟨h1, h2⟩ := sq_spec t h.1
  refine ⟨h1.loose, ?_⟩
  rw [h2, Nat.mul_mod, h.2, ← Nat.mul_mod, ← Nat.pow_add]; congr 2; omega

theorem IsPow.mul {x : Nat} {s t : Fe} {j k : Nat} (hs : IsPow x s j) (ht : IsPow x t k) :
    IsPow x (fe25519_mul s t) (j + k) := by
  obtain ⟨h1, h2⟩ := mul_spec s t hs.1 ht.1
  refine ⟨h1.loose, ?_⟩
  rw [h2, Nat.mul_mod, hs.2, ht.2, ← Nat.mul_mod, ← Nat.pow_add]

theorem IsPow.sqN {x : Nat} : ∀ (n : Nat) {t : Fe} {k : Nat}, IsPow x t k → IsPow x (sqN n t) (2 ^ n * k)
  | 0, t, k, h => by simpa [Fe51.sqN] using h
  | n + 1, t, k, h => by
    have := IsPow.sqN n h.sq
    rw [Fe51.sqN]
    have e : 2 ^ (n + 1) * k = 2 ^ n * (2 * k) := by rw [Nat.pow_succ, Nat.mul_assoc]
    rw [e]; exact this

theorem IsPow.cast {x : Nat} {t : Fe} {k k' : Nat} (h : IsPow x t k) (e : k = k') : IsPow x t k' := e ▸ h

theorem invert_pow (z : Fe) (hz : Loose z) :
    IsPow (val z) (fe25519_invert z) (2 ^ 255 - 21) ∧ Tight (fe25519_invert z) := by
  have z1 : IsPow (val z) z 1 := ⟨hz, by rw [Nat.pow_one]⟩
  have a0 : IsPow (val z) _ 2 := z1.sq                                            -- t0 = z^2
  have a1 : IsPow (val z) _ 8 := (a0.sq).sq                                       -- t1 = z^8
  have a2 : IsPow (val z) _ 9 := z1.mul a1                                        -- t1 = z^9
  have a3 : IsPow (val z) _ 11 := a0.mul a2                                       -- t0 = z^11
  have a4 : IsPow (val z) _ 22 := a3.sq                                           -- t2 = z^22
  have a5 : IsPow (val z) _ (2 ^ 5 - 1) := a2.mul a4                              -- t1 = z^31
  have a6 : IsPow (val z) _ (2 ^ 10 - 2 ^ 5) := (IsPow.sqN 4 a5.sq).cast (by decide)
  have a7 : IsPow (val z) _ (2 ^ 10 - 1) := (a6.mul a5).cast (by decide)         -- t1
  have a8 : IsPow (val z) _ (2 ^ 20 - 2 ^ 10) := (IsPow.sqN 9 a7.sq).cast (by decide)
  have a9 : IsPow (val z) _ (2 ^ 20 - 1) := (a8.mul a7).cast (by decide)         -- t2
  have a10 : IsPow (val z) _ (2 ^ 40 - 2 ^ 20) := (IsPow.sqN 19 a9.sq).cast (by decide)
  have a11 : IsPow (val z) _ (2 ^ 40 - 1) := (a10.mul a9).cast (by decide)       -- t2
  have a12 : IsPow (val z) _ (2 ^ 50 - 2 ^ 10) := (IsPow.sqN 10 a11).cast (by decide)
  have a13 : IsPow (val z) _ (2 ^ 50 - 1) := (a12.mul a7).cast (by decide)       -- t1
  have a14 : IsPow (val z) _ (2 ^ 100 - 2 ^ 50) := (IsPow.sqN 49 a13.sq).cast (by decide)
  have a15 : IsPow (val z) _ (2 ^ 100 - 1) := (a14.mul a13).cast (by decide)     -- t2
  have a16 : IsPow (val z) _ (2 ^ 200 - 2 ^ 100) := (IsPow.sqN 99 a15.sq).cast (by decide)
  have a17 : IsPow (val z) _ (2 ^ 200 - 1) := (a16.mul a15).cast (by decide)     -- t2
  have a18 : IsPow (val z) _ (2 ^ 250 - 2 ^ 50) := (IsPow.sqN 50 a17).cast (by decide)
  have a19 : IsPow (val z) _ (2 ^ 250 - 1) := (a18.mul a13).cast (by decide)     -- t1
  have a20 : IsPow (val z) _ (2 ^ 255 - 2 ^ 5) := (IsPow.sqN 5 a19).cast (by decide)
  have a21 : IsPow (val z) _ (2 ^ 255 - 21) := (a20.mul a3).cast (by decide)     -- out
  exact ⟨a21, (mul_spec _ _ a20.1 a3.1).1⟩


/-! ### fe25519_invert = the specification's inverse; refinement -/

theorem invert_spec (z : Fe) (hz : Loose z) :
    Tight (fe25519_invert z) ∧ val (fe25519_invert z) % F25519.p = F25519.inv (val z % F25519.p) := by
  obtain ⟨h1, h2⟩ := invert_pow z hz
  refine ⟨h2, ?_⟩
  rw [h1.2, inv_eq, ← Nat.pow_mod]

/-! ### two-level refinement: tight / loose representatives -/

/-- `ops` implements the specification field through TWO representation relations: `T` (what `mul`,
    `sq`, `mul32`, `invert`, `frombytes` return and `add`/`sub` accept) and the weaker `L` (what
    `add`/`sub` return and `mul`, `sq`, `mul32`, `invert`, `tobytes` accept).  With `T = L` this is
    `Refines` of `Proofs/LadderRef10.lean`. -/
structure RefinesTL {F : Type} (ops : FieldOps F) (T L : F → Nat → Prop) : Prop where
  loose : ∀ a x, T a x → L a x
  add : ∀ a b x y, T a x → T b y → L (ops.add a b) (specField.add x y)
  sub : ∀ a b x y, T a x → L b y → L (ops.sub a b) (specField.sub x y)
  mul : ∀ a b x y, L a x → L b y → T (ops.mul a b) (specField.mul x y)
  sq : ∀ a x, L a x → T (ops.sq a) (specField.sq x)
  mul32 : ∀ a x, L a x → T (ops.mul32 a 121666) (specField.mul32 x 121666)
  invert : ∀ a x, L a x → T (ops.invert a) (specField.invert x)
  frombytes : ∀ b, T (ops.frombytes b) (specField.frombytes b)
  tobytes : ∀ a x, L a x → ops.tobytes a = specField.tobytes x
  cswap0 : ∀ a b, ops.cswap a b 0 = (a, b)
  cswap1 : ∀ a b, ops.cswap a b 1 = (b, a)
  one : T ops.one specField.one
  zero : T ops.zero specField.zero

theorem Refines.toTL {F : Type} {ops : FieldOps F} {R : F → Nat → Prop} (h : Refines ops R) :
    RefinesTL ops R R :=
  ⟨fun _ _ h => h, h.add, h.sub, h.mul, h.sq, h.mul32, h.invert, h.frombytes, h.tobytes, h.cswap0, h.cswap1,
   h.one, h.zero⟩

theorem cswap_relTL {F : Type} {ops : FieldOps F} {T L : F → Nat → Prop} (h : RefinesTL ops T L)
    (a b : F) (x y : Nat) (c : UInt32) (hc : c = 0 ∨ c = 1) (ha : T a x) (hb : T b y) :
    T (ops.cswap a b c).1 (specField.cswap x y c).1 ∧ T (ops.cswap a b c).2 (specField.cswap x y c).2 := by
  rcases hc with rfl | rfl
  · rw [h.cswap0]; exact ⟨ha, hb⟩
  · rw [h.cswap1]; exact ⟨hb, ha⟩

theorem step_refinesTL {F : Type} {ops : FieldOps F} {T L : F → Nat → Prop} (h : RefinesTL ops T L)
    (x1 : F) (y1 : Nat) (h1 : T x1 y1) (t : Bytes) (pos : Nat) (s : State F) (r : State Nat)
    (hs : RelS T s r) : RelS T (step ops x1 t pos s) (step specField y1 t pos r) := by
  obtain ⟨hx2, hz2, hx3, hz3, hsw, h01⟩ := hs
  have hc := xor01' _ _ h01 (scalarBit01 t pos)
  have cx := cswap_relTL h s.x2 s.x3 r.x2 r.x3 _ hc hx2 hx3
  have cz := cswap_relTL h s.z2 s.z3 r.z2 r.z3 _ hc hz2 hz3
  simp only [step, hsw]
  have ha := h.add _ _ _ _ cx.1 cz.1                      -- a
  have hb := h.sub _ _ _ _ cx.1 (h.loose _ _ cz.1)        -- b
  have haa := h.sq _ _ ha                                  -- aa
  have hbb := h.sq _ _ hb                                  -- bb
  have he := h.sub _ _ _ _ haa (h.loose _ _ hbb)           -- e
  have hda := h.mul _ _ _ _ (h.sub _ _ _ _ cx.2 (h.loose _ _ cz.2)) ha    -- da
  have hcb := h.mul _ _ _ _ (h.add _ _ _ _ cx.2 cz.2) hb                  -- cb
  refine ⟨?_, ?_, ?_, ?_, rfl, scalarBit01 t pos⟩
  · exact h.mul _ _ _ _ (h.loose _ _ haa) (h.loose _ _ hbb)
  · exact h.mul _ _ _ _ (h.add _ _ _ _ (h.mul32 _ _ he) hbb) he
  · exact h.sq _ _ (h.add _ _ _ _ hda hcb)
  · exact h.mul _ _ _ _ (h.loose _ _ (h.sq _ _ (h.sub _ _ _ _ hda (h.loose _ _ hcb)))) (h.loose _ _ h1)

theorem loop_refinesTL {F : Type} {ops : FieldOps F} {T L : F → Nat → Prop} (h : RefinesTL ops T L)
    (x1 : F) (y1 : Nat) (h1 : T x1 y1) (t : Bytes) : ∀ (n : Nat) (s : State F) (r : State Nat),
    RelS T s r → RelS T (loop ops x1 t n s) (loop specField y1 t n r)
  | 0, _, _, hs => hs
  | n + 1, s, r, hs => by
    simp only [loop]
    exact loop_refinesTL h x1 y1 h1 t n _ _ (step_refinesTL h x1 y1 h1 t n s r hs)

/-- the ladder over ANY implementation of the field operations that refines the specification field
    with tight/loose representatives returns the same 32 bytes as over the specification field -/
theorem ladder_refinesTL {F : Type} (ops : FieldOps F) (T L : F → Nat → Prop) (h : RefinesTL ops T L)
    (t p : Bytes) : ladder ops t p = ladder specField t p := by
  have hl := loop_refinesTL h (ops.frombytes p) (specField.frombytes p) (h.frombytes p) t 255
    { x2 := ops.one, z2 := ops.zero, x3 := ops.frombytes p, z3 := ops.one, swap := 0 }
    { x2 := specField.one, z2 := specField.zero, x3 := specField.frombytes p, z3 := specField.one, swap := 0 }
    ⟨h.one, h.zero, h.frombytes p, h.one, rfl, Or.inl rfl⟩
  obtain ⟨hx2, hz2, hx3, hz3, hsw, h01⟩ := hl
  have cx := cswap_relTL h _ _ _ _ _ h01 hx2 hx3
  have cz := cswap_relTL h _ _ _ _ _ h01 hz2 hz3
  simp only [ladder, hsw]
  exact h.tobytes _ _ (h.loose _ _ (h.mul _ _ _ _ (h.loose _ _ cx.1) (h.loose _ _ (h.invert _ _ (h.loose _ _ cz.1)))))

/-! ### the limb model refines the specification field -/

/-- tight representative: every limb below 2^52 -/
def RT (f : Fe) (x : Nat) : Prop := Tight f ∧ val f % F25519.p = x
/-- loose representative: every limb below 2^54 -/
def RL (f : Fe) (x : Nat) : Prop := Loose f ∧ val f % F25519.p = x

theorem spec_invert (x : Nat) : specField.invert x = F25519.inv x := by simp only [specField]

theorem one_tight : Tight fe25519_1 := by unfold Tight Bounded; decide
theorem zero_tight : Tight fe25519_0 := by unfold Tight Bounded; decide

theorem fe51_refinesTL : RefinesTL fe51Field RT RL := by
  refine ⟨?_, ?_, ?_, ?_, ?_, ?_, ?_, ?_, ?_, ?_, ?_, ?_, ?_⟩
  · rintro a x ⟨h1, h2⟩; exact ⟨h1.loose, h2⟩
  · rintro a b x y ⟨ha, rfl⟩ ⟨hb, rfl⟩
    obtain ⟨h1, h2⟩ := add_spec a b ha hb
    refine ⟨h1, ?_⟩
    show val (fe25519_add a b) % F25519.p = F25519.add _ _
    rw [h2, F25519.add, Nat.add_mod]
  · rintro a b x y ⟨ha, rfl⟩ ⟨hb, rfl⟩
    obtain ⟨h1, h2⟩ := sub_spec a b ha hb
    exact ⟨Bounded.mono (by decide) h1, h2⟩
  · rintro a b x y ⟨ha, rfl⟩ ⟨hb, rfl⟩
    obtain ⟨h1, h2⟩ := mul_spec a b ha hb
    refine ⟨h1, ?_⟩
    show val (fe25519_mul a b) % F25519.p = F25519.mul _ _
    rw [h2, F25519.mul, ← Nat.mul_mod]
  · rintro a x ⟨ha, rfl⟩
    obtain ⟨h1, h2⟩ := sq_spec a ha
    refine ⟨h1, ?_⟩
    show val (fe25519_sq a) % F25519.p = F25519.sqr _
    rw [h2, F25519.sqr, ← Nat.mul_mod]
  · rintro a x ⟨ha, rfl⟩
    obtain ⟨h1, h2⟩ := mul32_spec a 121666 ha
    refine ⟨h1, ?_⟩
    show val (fe25519_mul32 a 121666) % F25519.p = F25519.mul _ _
    rw [h2, F25519.mul, Nat.mod_mul_mod]
  · rintro a x ⟨ha, rfl⟩
    obtain ⟨h1, h2⟩ := invert_spec a ha
    refine ⟨h1, ?_⟩
    have e1 : fe51Field.invert a = fe25519_invert a := rfl
    rw [e1, spec_invert]; exact h2
  · intro b
    obtain ⟨h1, h2⟩ := frombytes_val b
    refine ⟨Bounded.mono (by decide) h2, ?_⟩
    show val (fe25519_frombytes b) % F25519.p = F25519.fromBytesMasked b
    rw [h1, F25519.fromBytesMasked]
  · rintro a x ⟨_, rfl⟩
    show fe25519_tobytes a = F25519.toBytes _
    rw [tobytes_spec_all, F25519.toBytes, Nat.mod_mod]
  · exact cswap0
  · exact cswap1
  · exact ⟨one_tight, by decide⟩
  · exact ⟨zero_tight, by decide⟩


/-! ### no single-relation refinement -/

/-- `k` doublings of 1 by `fe25519_add` (never carried) -/
def dblFe : Nat → Fe
  | 0 => fe25519_1
  | k + 1 => fe25519_add (dblFe k) (dblFe k)

/-- the same in the specification field -/
def dblSpec : Nat → Nat
  | 0 => 1
  | k + 1 => F25519.add (dblSpec k) (dblSpec k)

theorem dbl_rel {R : Fe → Nat → Prop} (h : Refines fe51Field R) : ∀ k, R (dblFe k) (dblSpec k)
  | 0 => h.one
  | k + 1 => h.add _ _ _ _ (dbl_rel h k) (dbl_rel h k)

theorem dblFe_64 : dblFe 64 = fe25519_0 := by decide +kernel
theorem dblSpec_64 : dblSpec 64 = 2 ^ 64 := by decide +kernel

/-- No SINGLE representation relation makes the limb arithmetic a `Refines` instance:
    `fe25519_add` does not carry, so 64 doublings of 1 wrap around to the limbs of 0 while the
    field element is 2^64.  (Hence the two-level `RefinesTL`.) -/
theorem fe51_no_single_relation : ¬ ∃ R : Fe → Nat → Prop, Refines fe51Field R := by
  rintro ⟨R, h⟩
  have h1 := h.tobytes _ _ (dbl_rel h 64)
  have h0 := h.tobytes _ _ h.zero
  rw [dblFe_64, dblSpec_64] at h1
  have e : fe51Field.zero = fe25519_0 := rfl
  rw [e, h1] at h0
  revert h0
  simp only [specField]
  decide +kernel


/-! ### fe25519_neg, fe25519_sq2, fe25519_isnegative, fe25519_iszero -/

theorem neg_spec (f : Fe) (hf : Loose f) :
    Bounded (2 ^ 53) (fe25519_neg f) ∧ val (fe25519_neg f) % F25519.p = F25519.neg (val f) := by
  obtain ⟨h1, h2⟩ := sub_spec fe25519_0 f zero_tight hf
  refine ⟨h1, ?_⟩
  have : val fe25519_0 % F25519.p = 0 := by decide
  rw [fe25519_neg, h2, F25519.sub, F25519.neg, this, Nat.zero_mod, Nat.zero_add, Nat.mod_mod]

/-! ### fe25519_sq2 -/

theorem mulCols_lt53 (f g : Fe) (hf : Bounded (2 ^ 53) f) (hg : Bounded (2 ^ 53) g) :
    (mulCols f g).1 < 77 * 2 ^ 106 ∧ (mulCols f g).2.1 < 77 * 2 ^ 106 ∧ (mulCols f g).2.2.1 < 77 * 2 ^ 106 ∧
    (mulCols f g).2.2.2.1 < 77 * 2 ^ 106 ∧ (mulCols f g).2.2.2.2 < 5 * 2 ^ 106 := by
  obtain ⟨f0, f1, f2, f3, f4⟩ := f
  obtain ⟨g0, g1, g2, g3, g4⟩ := g
  obtain ⟨hf0, hf1, hf2, hf3, hf4⟩ := hf
  obtain ⟨hg0, hg1, hg2, hg3, hg4⟩ := hg
  simp only at hf0 hf1 hf2 hf3 hf4 hg0 hg1 hg2 hg3 hg4
  have b00 := Nat.mul_lt_mul'' hf0 hg0
  have b01 := Nat.mul_lt_mul'' hf0 hg1
  have b02 := Nat.mul_lt_mul'' hf0 hg2
  have b03 := Nat.mul_lt_mul'' hf0 hg3
  have b04 := Nat.mul_lt_mul'' hf0 hg4
  have b10 := Nat.mul_lt_mul'' hf1 hg0
  have b11 := Nat.mul_lt_mul'' hf1 hg1
  have b12 := Nat.mul_lt_mul'' hf1 hg2
  have b13 := Nat.mul_lt_mul'' hf1 hg3
  have b14 := Nat.mul_lt_mul'' hf1 hg4
  have b20 := Nat.mul_lt_mul'' hf2 hg0
  have b21 := Nat.mul_lt_mul'' hf2 hg1
  have b22 := Nat.mul_lt_mul'' hf2 hg2
  have b23 := Nat.mul_lt_mul'' hf2 hg3
  have b24 := Nat.mul_lt_mul'' hf2 hg4
  have b30 := Nat.mul_lt_mul'' hf3 hg0
  have b31 := Nat.mul_lt_mul'' hf3 hg1
  have b32 := Nat.mul_lt_mul'' hf3 hg2
  have b33 := Nat.mul_lt_mul'' hf3 hg3
  have b34 := Nat.mul_lt_mul'' hf3 hg4
  have b40 := Nat.mul_lt_mul'' hf4 hg0
  have b41 := Nat.mul_lt_mul'' hf4 hg1
  have b42 := Nat.mul_lt_mul'' hf4 hg2
  have b43 := Nat.mul_lt_mul'' hf4 hg3
  have b44 := Nat.mul_lt_mul'' hf4 hg4
  simp only [mulCols]
  refine ⟨?_, ?_, ?_, ?_, ?_⟩ <;> omega

theorem sq2_spec (f : Fe) (hf : Bounded (2 ^ 53) f) :
    Tight (fe25519_sq2 f) ∧ val (fe25519_sq2 f) % F25519.p = (2 * (val f * val f)) % F25519.p := by
  have hl : Loose f := Bounded.mono (by decide) hf
  obtain ⟨c0, c1, c2, c3, c4⟩ := mulCols_lt53 f f hf hf
  obtain ⟨q, hq⟩ := mulCols_val f f
  rw [p_eq, fe25519_sq2, sq_eq_cols f hl]
  rw [shl1_eq _ (by omega), shl1_eq _ (by omega), shl1_eq _ (by omega), shl1_eq _ (by omega), shl1_eq _ (by omega)]
  obtain ⟨k0, k1, k2, k3, k4, c, hc⟩ := carry_chain_spec _ _ _ _ _
    (show 2 * (mulCols f f).1 < _ by omega) (show 2 * (mulCols f f).2.1 < _ by omega)
    (show 2 * (mulCols f f).2.2.1 < _ by omega) (show 2 * (mulCols f f).2.2.2.1 < _ by omega)
    (show 2 * (mulCols f f).2.2.2.2 < _ by omega)
  refine ⟨⟨by omega, by omega, by omega, by omega, by omega⟩, ?_⟩
  exact mod_of_eq_add_mul _ _ c (2 * q) _ _ hc (by omega)

/-! ### fe25519_isnegative, fe25519_iszero -/

theorem bit0 : ∀ b : UInt8, (b &&& 1).toUInt32.toInt32 = if b.toNat % 2 = 1 then 1 else 0 := by decide +kernel

theorem toLE_head (n v : Nat) : (toLE (n + 1) v).getD 0 0 = UInt8.ofNat (v % 256) := rfl

theorem isnegative_spec (f : Fe) :
    fe25519_isnegative f = if F25519.isNegative (val f) then 1 else 0 := by
  rw [fe25519_isnegative, tobytes_spec_all, toLE_head, bit0, F25519.isNegative]
  have : (UInt8.ofNat (val f % F25519.p % 256)).toNat % 2 = val f % F25519.p % 2 := by
    rw [UInt8.toNat_ofNat']; omega
  rw [this]
  by_cases h : val f % F25519.p % 2 = 1 <;> simp [h]

theorem toLE32_zero_iff (v : Nat) (hv : v < 2 ^ 256) : toLE 32 v = zeros 32 ↔ v = 0 := by
  constructor
  · intro h
    have := congrArg le h
    rw [le_toLE] at this
    have hz : le (zeros 32) = 0 := by decide
    omega
  · rintro rfl; decide

theorem iszero_spec (f : Fe) :
    fe25519_iszero f = if F25519.isZero (val f) then 1 else 0 := by
  have hv : val f % F25519.p < 2 ^ 256 := Nat.lt_trans (Nat.mod_lt _ (by decide)) (by decide)
  rw [fe25519_iszero, tobytes_spec_all, C14.is_zero_exact, toLE_length, F25519.isZero]
  by_cases h : val f % F25519.p = 0
  · simp [h]; decide
  · have : ¬ toLE 32 (val f % F25519.p) = zeros 32 := fun e => h ((toLE32_zero_iff _ hv).1 e)
    simp [h, this]


end Sodium.Fe51P
