import SodiumModel.Proofs.OverlapAead2Sched
/-
  C13 / AES-256-GCM: `decCheck n (decBulk n).2 (0, 0) = some (i, i)` for every `n` (all loops: hash, then store).
-/
open Sodium Sodium.Model Sodium.Model.Overlap Sodium.Model.OverlapAead
namespace Sodium.OverlapAeadP

def decA (n i : Nat) := whileOps (fun i => i + 224 ≤ n) 224
    (fun i => [.gh i 112, .xor i 112, .gh (i + 112) 112, .xor (i + 112) 112]) n i
def decB (n i : Nat) := whileOps (fun i => i + 112 ≤ n) 112 (fun i => [.gh i 112, .xor i 112]) n i
def decC (n i : Nat) := whileOps (fun i => i + 64 ≤ n) 64
    (fun i => [.gh i 64, .xor i 16, .xor (i + 16) 16, .xor (i + 32) 16, .xor (i + 48) 16]) n i
def decD (n i : Nat) := whileOps (fun i => i + 32 ≤ n) 32 (fun i => [.gh i 32, .xor i 16, .xor (i + 16) 16]) n i
def decE (n i : Nat) := whileOps (fun i => i + 16 < n) 16 (fun i => [.gh i 16, .xor i 16]) n i

theorem decBulk_stages (n : Nat) :
    decBulk n = ((decE n (decD n (decC n (decB n (decA n 0).1).1).1).1).1,
      (decA n 0).2 ++ (decB n (decA n 0).1).2 ++ (decC n (decB n (decA n 0).1).1).2 ++
        (decD n (decC n (decB n (decA n 0).1).1).1).2 ++ (decE n (decD n (decC n (decB n (decA n 0).1).1).1).1).2) := rfl

theorem decA_ok (n i : Nat) : decCheck n (decA n i).2 (i, i) = some ((decA n i).1, (decA n i).1) :=
  (whileOps_check (decCheck_seq n) (decCheck_nil n) (fun i => i + 224 ≤ n) 224
    (fun i => [.gh i 112, .xor i 112, .gh (i + 112) 112, .xor (i + 112) 112])
    (fun i => (i, i)) (fun _ => True) (fun _ _ _ => trivial)
    (by
      intro i _ hc
      have hc' : i + 224 ≤ n := by simpa using hc
      rw [dec_gh _ _ _ _ _ _ rfl (by omega) (by omega), dec_xor _ _ _ _ _ _ rfl (by omega),
        dec_gh _ _ _ _ _ _ rfl (by omega) (by omega), dec_xor _ _ _ _ _ _ rfl (by omega), decCheck_nil]) n i trivial).1

theorem decB_ok (n i : Nat) : decCheck n (decB n i).2 (i, i) = some ((decB n i).1, (decB n i).1) :=
  (whileOps_check (decCheck_seq n) (decCheck_nil n) (fun i => i + 112 ≤ n) 112
    (fun i => [.gh i 112, .xor i 112])
    (fun i => (i, i)) (fun _ => True) (fun _ _ _ => trivial)
    (by
      intro i _ hc
      have hc' : i + 112 ≤ n := by simpa using hc
      rw [dec_gh _ _ _ _ _ _ rfl (by omega) (by omega), dec_xor _ _ _ _ _ _ rfl (by omega), decCheck_nil]) n i trivial).1

theorem decC_ok (n i : Nat) : decCheck n (decC n i).2 (i, i) = some ((decC n i).1, (decC n i).1) :=
  (whileOps_check (decCheck_seq n) (decCheck_nil n) (fun i => i + 64 ≤ n) 64
    (fun i => [.gh i 64, .xor i 16, .xor (i + 16) 16, .xor (i + 32) 16, .xor (i + 48) 16])
    (fun i => (i, i)) (fun _ => True) (fun _ _ _ => trivial)
    (by
      intro i _ hc
      have hc' : i + 64 ≤ n := by simpa using hc
      rw [dec_gh _ _ _ _ _ _ rfl (by omega) (by omega), dec_xor _ _ _ _ _ _ rfl (by omega),
        dec_xor _ _ _ _ _ _ rfl (by omega), dec_xor _ _ _ _ _ _ (by omega) (by omega),
        dec_xor _ _ _ _ _ _ (by omega) (by omega), decCheck_nil]) n i trivial).1

theorem decD_ok (n i : Nat) : decCheck n (decD n i).2 (i, i) = some ((decD n i).1, (decD n i).1) :=
  (whileOps_check (decCheck_seq n) (decCheck_nil n) (fun i => i + 32 ≤ n) 32
    (fun i => [.gh i 32, .xor i 16, .xor (i + 16) 16])
    (fun i => (i, i)) (fun _ => True) (fun _ _ _ => trivial)
    (by
      intro i _ hc
      have hc' : i + 32 ≤ n := by simpa using hc
      rw [dec_gh _ _ _ _ _ _ rfl (by omega) (by omega), dec_xor _ _ _ _ _ _ rfl (by omega),
        dec_xor _ _ _ _ _ _ rfl (by omega), decCheck_nil]) n i trivial).1

theorem decE_ok (n i : Nat) : decCheck n (decE n i).2 (i, i) = some ((decE n i).1, (decE n i).1) :=
  (whileOps_check (decCheck_seq n) (decCheck_nil n) (fun i => i + 16 < n) 16
    (fun i => [.gh i 16, .xor i 16])
    (fun i => (i, i)) (fun _ => True) (fun _ _ _ => trivial)
    (by
      intro i _ hc
      have hc' : i + 16 < n := by simpa using hc
      rw [dec_gh _ _ _ _ _ _ rfl (by omega) (by omega), dec_xor _ _ _ _ _ _ rfl (by omega), decCheck_nil]) n i trivial).1

/-- the transcribed decrypt schedule passes the check for EVERY length -/
theorem decBulk_ok (n : Nat) : decCheck n (decBulk n).2 (0, 0) = some ((decBulk n).1, (decBulk n).1) := by
  rw [decBulk_stages]
  simp only [List.append_assoc]
  rw [(decCheck_seq n).step _ _ _ _ (decA_ok n 0), (decCheck_seq n).step _ _ _ _ (decB_ok n _),
    (decCheck_seq n).step _ _ _ _ (decC_ok n _), (decCheck_seq n).step _ _ _ _ (decD_ok n _), decE_ok]

end Sodium.OverlapAeadP
