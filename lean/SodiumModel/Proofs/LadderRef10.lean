import Mathlib.Data.ZMod.Basic
import Mathlib.Tactic.Ring
import SodiumModel.Model.LadderRef10
import SodiumModel.Proofs.ScalarmultLowOrder
/-
  Helper lemmas for `Properties/C05Ladder.lean`: the ref10 Montgomery ladder of x25519_ref10.c
  (`Model/LadderRef10.lean`), instantiated with the specification field, computes the RFC 7748 ladder
  of `Spec/Curve25519.lean`.

  Method: the two loops have the same shape (255 iterations, bit `pos` of the scalar, the `swap ^= bit`
  trick).  `Rel` relates the two states (same four field elements, `swap` = 0/1 encoding of the
  specification's Boolean).  One iteration preserves `Rel` (`step_rel`): x2, x3 are computed by the same
  expression, z3 differs by the order of the last multiplication, z2 is
  `(121666·E + BB)·E` in the C code versus `E·(AA + 121665·E)` in RFC 7748 with `E = AA − BB`
  (`z2_eq`, by `ring` in `ZMod p`; no primality of p is used).  Then induction over the iterations.
-/
open Sodium Sodium.Spec Sodium.Spec.F25519 Sodium.Model.LadderRef10

namespace Sodium.LadderRef10P

/-! ### the scalar bit -/

set_option maxRecDepth 100000 in
/-- `(x >> j) & 1` on a byte promoted to 32 bits is bit `j` -/
theorem byteBit : ∀ (x : UInt8) (j : Fin 8),
    (x.toUInt32 >>> UInt32.ofNat j.val) &&& 1 = if x.toNat.testBit j.val then 1 else 0 := by
  decide +kernel

/-- bit `pos` of the little-endian value is bit `pos % 8` of byte `pos / 8` (any length; bytes beyond
    the end count as 0) -/
theorem testBit_le : ∀ (t : Bytes) (pos : Nat),
    (le t).testBit pos = ((t.getD (pos / 8) 0).toNat.testBit (pos % 8))
  | [], pos => by simp [le]
  | b :: bs, pos => by
    have hb : b.toNat < 2 ^ 8 := b.toNat_lt
    have h := Nat.testBit_two_pow_mul_add (le bs) hb pos
    have e : le (b :: bs) = 2 ^ 8 * le bs + b.toNat := by simp only [le]; omega
    rw [e, h]
    by_cases hp : pos < 8
    · have h0 : pos / 8 = 0 := by omega
      have h1 : pos % 8 = pos := by omega
      simp [hp, h0, h1]
    · obtain ⟨q, hq⟩ : ∃ q, pos / 8 = q + 1 := ⟨pos / 8 - 1, by omega⟩
      have h0 : (pos - 8) / 8 = q := by omega
      have h1 : (pos - 8) % 8 = pos % 8 := by omega
      rw [if_neg hp, testBit_le bs (pos - 8), hq, h0, h1]
      simp

/-- `bit = t[pos / 8] >> (pos & 7); bit &= 1;` is bit `pos` of the little-endian value of `t` -/
theorem scalarBit_eq (t : Bytes) (pos : Nat) :
    scalarBit t pos = if (le t).testBit pos then 1 else 0 := by
  have h7 : pos &&& 7 = pos % 8 := Nat.and_two_pow_sub_one_eq_mod pos 3
  have hlt : pos % 8 < 8 := Nat.mod_lt _ (by decide)
  have := byteBit (t.getD (pos / 8) 0) ⟨pos % 8, hlt⟩
  simp only [scalarBit, h7, testBit_le]
  exact this

/-! ### one iteration -/

/-- the relation between the C state and the RFC 7748 state: same field elements, and the
    `unsigned int swap` is 0 or 1 according to the specification's Boolean -/
structure Rel (s : State Nat) (r : X25519.Ladder) : Prop where
  x2 : s.x2 = r.x2
  z2 : s.z2 = r.z2
  x3 : s.x3 = r.x3
  z3 : s.z3 = r.z3
  swap : s.swap = if r.swap then 1 else 0

/-- `swap ^= bit` on 0/1 values is the Boolean `!=` -/
theorem xor01 (a b : Bool) :
    ((if a then (1 : UInt32) else 0) ^^^ (if b then 1 else 0)) = if (a != b) then 1 else 0 := by
  cases a <;> cases b <;> decide

/-- the specification's cswap and the model's agree on 0/1 -/
theorem cswap01 (c : Bool) (f g : Nat) :
    specField.cswap f g (if c then 1 else 0) = X25519.cswap c f g := by
  cases c <;> simp [specField, X25519.cswap]

theorem mul_comm' (a b : Nat) : F25519.mul a b = F25519.mul b a := by
  simp [F25519.mul, Nat.mul_comm]

/-- the only genuinely different formula: `z2 = (121666·E + BB)·E` (ref10) versus
    `z2 = E·(AA + a24·E)` (RFC 7748), `E = AA − BB` -/
theorem z2_eq (AA BB : Nat) :
    F25519.mul (F25519.add (F25519.mul (F25519.sub AA BB) (121666 : UInt32).toNat) BB) (F25519.sub AA BB) =
      F25519.mul (F25519.sub AA BB) (F25519.add AA (F25519.mul X25519.a24 (F25519.sub AA BB))) := by
  have h32 : (121666 : UInt32).toNat = 121666 := by decide
  rw [h32]
  unfold F25519.mul
  generalize hE : F25519.sub AA BB = E
  have hEc : ((E : Nat) : ScalarmultLow.F) = (AA : ScalarmultLow.F) - BB := by
    rw [← hE]; exact ScalarmultLow.c_sub AA BB
  apply (ZMod.natCast_eq_natCast_iff' _ _ F25519.p).1
  have ha : ((X25519.a24 : Nat) : ScalarmultLow.F) = 121665 := by simp [X25519.a24]
  simp only [Nat.cast_mul, ScalarmultLow.c_add, ZMod.natCast_mod, ha, hEc, Nat.cast_ofNat]
  ring

theorem step_rel (x1 : Nat) (t : Bytes) (pos : Nat) (s : State Nat) (r : X25519.Ladder)
    (h : Rel s r) :
    Rel (step specField x1 t pos s) (X25519.ladderStep x1 ((le t).testBit pos) r) := by
  obtain ⟨s2, sz2, s3, sz3, ssw⟩ := s
  obtain ⟨r2, rz2, r3, rz3, rsw⟩ := r
  obtain ⟨h1, h2, h3, h4, h5⟩ := h
  simp only at h1 h2 h3 h4 h5
  subst h1 h2 h3 h4 h5
  simp only [step, X25519.ladderStep, scalarBit_eq, xor01, cswap01]
  constructor
  · rfl
  · exact z2_eq _ _
  · rfl
  · exact mul_comm' _ _
  · rfl

/-! ### the loop -/

theorem loop_rel (x1 : Nat) (t : Bytes) : ∀ (n : Nat) (s : State Nat) (r : X25519.Ladder), Rel s r →
    Rel (loop specField x1 t n s) (X25519.ladderLoop x1 (le t) n r)
  | 0, _, _, h => h
  | n + 1, s, r, h => by
    simp only [loop, X25519.ladderLoop]
    exact loop_rel x1 t n _ _ (step_rel x1 t n s r h)

/-- the `swap` variable only ever holds 0 or 1, i.e. `fe25519_cswap` is called within its contract -/
theorem swap_le_one (x1 : Nat) (t : Bytes) (n : Nat) (s : State Nat) (hs : s.swap = 0 ∨ s.swap = 1) :
    (loop specField x1 t n s).swap = 0 ∨ (loop specField x1 t n s).swap = 1 := by
  induction n generalizing s with
  | zero => exact hs
  | succ n ih =>
    simp only [loop]
    apply ih
    simp only [step, scalarBit_eq]
    split <;> simp

/-! ### the whole function -/

theorem decodeU_mod (u : Bytes) : X25519.decodeU u % F25519.p = X25519.decodeU u := by
  simp [X25519.decodeU]

/-- **General form** (every `t`, every `p`, any lengths): the ref10 ladder is the RFC 7748 ladder on
    the little-endian value of `t` (of which only bits 0 … 254 are read) -/
theorem ladder_eq_spec_le (t p : Bytes) :
    x25519_ref10 t p = X25519.encodeU (X25519.ladder (le t) (X25519.decodeU p)) := by
  have hrel := loop_rel (X25519.decodeU p) t 255
    { x2 := 1, z2 := 0, x3 := X25519.decodeU p, z3 := 1, swap := 0 }
    { x2 := 1, z2 := 0, x3 := X25519.decodeU p, z3 := 1, swap := false }
    ⟨rfl, rfl, rfl, rfl, rfl⟩
  obtain ⟨h1, h2, h3, h4, h5⟩ := hrel
  unfold x25519_ref10 Model.LadderRef10.ladder X25519.ladder
  simp only [decodeU_mod]
  have e1 : specField.frombytes p = X25519.decodeU p := rfl
  have e2 : specField.one = 1 := rfl
  have e3 : specField.zero = 0 := rfl
  simp only [e1, e2, e3, h1, h2, h3, h4, h5, cswap01]
  generalize X25519.ladderLoop _ _ _ _ = L
  simp only [specField, F25519.toBytes, X25519.encodeU, F25519.inv]

/-- the RFC 7748 ladder reads only the bits below `n` of the scalar -/
theorem ladderLoop_congr (x1 k k' : Nat) : ∀ (n : Nat) (s : X25519.Ladder),
    (∀ i, i < n → k.testBit i = k'.testBit i) →
    X25519.ladderLoop x1 k n s = X25519.ladderLoop x1 k' n s
  | 0, _, _ => rfl
  | n + 1, s, h => by
    simp only [X25519.ladderLoop]
    rw [h n (Nat.lt_succ_self n)]
    exact ladderLoop_congr x1 k k' n _ (fun i hi => h i (Nat.lt_succ_of_lt hi))

theorem ladder_mod (k u : Nat) : X25519.ladder (k % 2 ^ 255) u = X25519.ladder k u := by
  have h := ladderLoop_congr (u % F25519.p) (k % 2 ^ 255) k 255
    { x2 := 1, z2 := 0, x3 := u % F25519.p, z3 := 1, swap := false } (fun i hi => by
    rw [Nat.testBit_mod_two_pow]; simp [hi])
  simp only [X25519.ladder, h]

theorem x25519_ref10_length (t p : Bytes) : (x25519_ref10 t p).length = 32 := by
  rw [ladder_eq_spec_le]; simp [X25519.encodeU, toLE_length]

/-! ### refinement: any representation of the field gives the same bytes -/

/-- `ops` implements the specification field through the representation relation `R`
    (`R a x`: the C-side value `a` represents the field element `x`).  `cswap` is only constrained
    for `b ∈ {0, 1}`, which is all the ladder uses. -/
structure Refines {F : Type} (ops : FieldOps F) (R : F → Nat → Prop) : Prop where
  add : ∀ a b x y, R a x → R b y → R (ops.add a b) (specField.add x y)
  sub : ∀ a b x y, R a x → R b y → R (ops.sub a b) (specField.sub x y)
  mul : ∀ a b x y, R a x → R b y → R (ops.mul a b) (specField.mul x y)
  sq : ∀ a x, R a x → R (ops.sq a) (specField.sq x)
  mul32 : ∀ a x, R a x → R (ops.mul32 a 121666) (specField.mul32 x 121666)
  invert : ∀ a x, R a x → R (ops.invert a) (specField.invert x)
  frombytes : ∀ b, R (ops.frombytes b) (specField.frombytes b)
  tobytes : ∀ a x, R a x → ops.tobytes a = specField.tobytes x
  cswap0 : ∀ a b, ops.cswap a b 0 = (a, b)
  cswap1 : ∀ a b, ops.cswap a b 1 = (b, a)
  one : R ops.one specField.one
  zero : R ops.zero specField.zero

structure RelS {F : Type} (R : F → Nat → Prop) (s : State F) (r : State Nat) : Prop where
  x2 : R s.x2 r.x2
  z2 : R s.z2 r.z2
  x3 : R s.x3 r.x3
  z3 : R s.z3 r.z3
  swap : s.swap = r.swap
  swap01 : r.swap = 0 ∨ r.swap = 1

theorem scalarBit01 (t : Bytes) (pos : Nat) : scalarBit t pos = 0 ∨ scalarBit t pos = 1 := by
  rw [scalarBit_eq]; split <;> simp

theorem xor01' (a b : UInt32) (ha : a = 0 ∨ a = 1) (hb : b = 0 ∨ b = 1) : a ^^^ b = 0 ∨ a ^^^ b = 1 := by
  rcases ha with rfl | rfl <;> rcases hb with rfl | rfl <;> decide

theorem cswap_rel {F : Type} {ops : FieldOps F} {R : F → Nat → Prop} (h : Refines ops R)
    (a b : F) (x y : Nat) (c : UInt32) (hc : c = 0 ∨ c = 1) (ha : R a x) (hb : R b y) :
    R (ops.cswap a b c).1 (specField.cswap x y c).1 ∧ R (ops.cswap a b c).2 (specField.cswap x y c).2 := by
  rcases hc with rfl | rfl
  · rw [h.cswap0]; exact ⟨ha, hb⟩
  · rw [h.cswap1]; exact ⟨hb, ha⟩

theorem step_refines {F : Type} {ops : FieldOps F} {R : F → Nat → Prop} (h : Refines ops R)
    (x1 : F) (y1 : Nat) (h1 : R x1 y1) (t : Bytes) (pos : Nat) (s : State F) (r : State Nat)
    (hs : RelS R s r) : RelS R (step ops x1 t pos s) (step specField y1 t pos r) := by
  obtain ⟨hx2, hz2, hx3, hz3, hsw, h01⟩ := hs
  have hc := xor01' _ _ h01 (scalarBit01 t pos)
  have cx := cswap_rel h s.x2 s.x3 r.x2 r.x3 _ hc hx2 hx3
  have cz := cswap_rel h s.z2 s.z3 r.z2 r.z3 _ hc hz2 hz3
  simp only [step, hsw]
  refine ⟨?_, ?_, ?_, ?_, rfl, scalarBit01 t pos⟩
  · exact h.mul _ _ _ _ (h.sq _ _ (h.add _ _ _ _ cx.1 cz.1)) (h.sq _ _ (h.sub _ _ _ _ cx.1 cz.1))
  · have hbb := h.sq _ _ (h.sub _ _ _ _ cx.1 cz.1)
    have he := h.sub _ _ _ _ (h.sq _ _ (h.add _ _ _ _ cx.1 cz.1)) hbb
    exact h.mul _ _ _ _ (h.add _ _ _ _ (h.mul32 _ _ he) hbb) he
  · exact h.sq _ _ (h.add _ _ _ _
      (h.mul _ _ _ _ (h.sub _ _ _ _ cx.2 cz.2) (h.add _ _ _ _ cx.1 cz.1))
      (h.mul _ _ _ _ (h.add _ _ _ _ cx.2 cz.2) (h.sub _ _ _ _ cx.1 cz.1)))
  · exact h.mul _ _ _ _ (h.sq _ _ (h.sub _ _ _ _
      (h.mul _ _ _ _ (h.sub _ _ _ _ cx.2 cz.2) (h.add _ _ _ _ cx.1 cz.1))
      (h.mul _ _ _ _ (h.add _ _ _ _ cx.2 cz.2) (h.sub _ _ _ _ cx.1 cz.1)))) h1

theorem loop_refines {F : Type} {ops : FieldOps F} {R : F → Nat → Prop} (h : Refines ops R)
    (x1 : F) (y1 : Nat) (h1 : R x1 y1) (t : Bytes) : ∀ (n : Nat) (s : State F) (r : State Nat),
    RelS R s r → RelS R (loop ops x1 t n s) (loop specField y1 t n r)
  | 0, _, _, hs => hs
  | n + 1, s, r, hs => by
    simp only [loop]
    exact loop_refines h x1 y1 h1 t n _ _ (step_refines h x1 y1 h1 t n s r hs)

/-- the ladder over ANY implementation of the field operations that refines the specification
    field returns the same 32 bytes as over the specification field -/
theorem ladder_refines {F : Type} (ops : FieldOps F) (R : F → Nat → Prop) (h : Refines ops R)
    (t p : Bytes) : ladder ops t p = ladder specField t p := by
  have hl := loop_refines h (ops.frombytes p) (specField.frombytes p) (h.frombytes p) t 255
    { x2 := ops.one, z2 := ops.zero, x3 := ops.frombytes p, z3 := ops.one, swap := 0 }
    { x2 := specField.one, z2 := specField.zero, x3 := specField.frombytes p, z3 := specField.one, swap := 0 }
    ⟨h.one, h.zero, h.frombytes p, h.one, rfl, Or.inl rfl⟩
  obtain ⟨hx2, hz2, hx3, hz3, hsw, h01⟩ := hl
  have cx := cswap_rel h _ _ _ _ _ h01 hx2 hx3
  have cz := cswap_rel h _ _ _ _ _ h01 hz2 hz3
  simp only [ladder, hsw]
  exact h.tobytes _ _ (h.mul _ _ _ _ cx.1 (h.invert _ _ cz.1))

/-! #### a lazily reduced representation (non-vacuity of `Refines`) -/

/-- naturals that are NOT kept reduced by `add`, `sub` and `mul32` (as ref10's limb arithmetic
    does not carry after additions); `R a x := a % p = x` -/
def lazyField : FieldOps Nat :=
  { specField with
    add := fun a b => a + b
    sub := fun a b => a + (F25519.p - b % F25519.p)
    mul32 := fun a n => a * n.toNat }

theorem powLoop_lt : ∀ (fuel b e acc : Nat), acc < F25519.p → F25519.powLoop fuel b e acc < F25519.p
  | 0, _, _, _, h => h
  | fuel + 1, b, e, acc, h => by
    have hp : 0 < F25519.p := by decide
    simp only [F25519.powLoop]
    split
    · exact h
    · apply powLoop_lt
      split
      · exact Nat.mod_lt _ hp
      · exact h

theorem lazy_refines : Refines lazyField (fun a x => a % F25519.p = x) := by
  have hp : 0 < F25519.p := by decide
  refine ⟨?_, ?_, ?_, ?_, ?_, ?_, ?_, ?_, ?_, ?_, ?_, ?_⟩
  · intro a b x y ha hb; subst ha hb
    simp [lazyField, specField, F25519.add, Nat.add_mod]
  · intro a b x y ha hb; subst ha hb
    simp only [lazyField, specField, F25519.sub, Nat.mod_mod]
    exact (Nat.mod_add_mod _ _ _).symm
  · intro a b x y ha hb; subst ha hb
    simp [lazyField, specField, F25519.mul, Nat.mul_mod]
  · intro a x ha; subst ha
    simp [lazyField, specField, F25519.sqr, Nat.mul_mod]
  · intro a x ha; subst ha
    simp [lazyField, specField, F25519.mul, Nat.mul_mod]
  · intro a x ha; subst ha
    have e : F25519.inv (a % F25519.p) = F25519.inv a := by simp [F25519.inv, F25519.pow]
    simp only [lazyField, specField, e]
    exact Nat.mod_eq_of_lt (powLoop_lt _ _ _ _ (by decide))
  · intro b; simp [lazyField, specField, F25519.fromBytesMasked]
  · intro a x ha; subst ha; simp [lazyField, specField, F25519.toBytes]
  · intro a b; rfl
  · intro a b; rfl
  · rfl
  · rfl

end Sodium.LadderRef10P
