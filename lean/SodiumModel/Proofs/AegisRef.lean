import SodiumModel.Model.AegisRef
import SodiumModel.Spec.Aegis
import SodiumModel.Proofs.ByteDecide
import SodiumModel.Proofs.Utils
/-
  Helper lemmas for `Properties/C01Aegis.lean`: the software AES round of softaes.c and the portable
  AEGIS-128L / AEGIS-256 code (`Model/AegisRef.lean`) against `Spec/Aes.lean` / `Spec/Aegis.lean`.
-/
namespace Sodium.AegisRefP
open Sodium Sodium.Model.AegisRef Sodium.Spec.Aes Sodium.Spec.Aegis

/-! ## Part 1: softaes.c -/

/-- how a table word is generated from an S-box output `s`: the MixColumns column of (s,0,0,0),
    little-endian: byte 0 = {02}·s, bytes 1, 2 = s, byte 3 = {03}·s -/
def lutGen (s : UInt8) : UInt32 :=
  (mul2 s).toUInt32 ||| (s.toUInt32 <<< 8) ||| (s.toUInt32 <<< 16) ||| ((mul3 s).toUInt32 <<< 24)

/-- every entry of `_aes_lut` is generated from the FIPS 197 S-box -/
theorem lut_gen : ∀ x : UInt8, LUT x.toNat = lutGen (subByte x) := by decide +kernel

/-- the strided gather-then-select of `_encrypt` returns the plain table entry -/
theorem ct_lookup : ∀ x : UInt8, tSel (tFill (ofOf x)) x = LUT x.toNat := by decide +kernel

theorem gen_r0 : ∀ s : UInt8, (lutGen s).toUInt8 = mul2 s ∧ (lutGen s >>> 8).toUInt8 = s ∧
    (lutGen s >>> 16).toUInt8 = s ∧ (lutGen s >>> 24).toUInt8 = mul3 s := by decide +kernel
theorem gen_r8 : ∀ s : UInt8, (ROTL32 (lutGen s) 8).toUInt8 = mul3 s ∧ (ROTL32 (lutGen s) 8 >>> 8).toUInt8 = mul2 s ∧
    (ROTL32 (lutGen s) 8 >>> 16).toUInt8 = s ∧ (ROTL32 (lutGen s) 8 >>> 24).toUInt8 = s := by decide +kernel
theorem gen_r16 : ∀ s : UInt8, (ROTL32 (lutGen s) 16).toUInt8 = s ∧ (ROTL32 (lutGen s) 16 >>> 8).toUInt8 = mul3 s ∧
    (ROTL32 (lutGen s) 16 >>> 16).toUInt8 = mul2 s ∧ (ROTL32 (lutGen s) 16 >>> 24).toUInt8 = s := by decide +kernel
theorem gen_r24 : ∀ s : UInt8, (ROTL32 (lutGen s) 24).toUInt8 = s ∧ (ROTL32 (lutGen s) 24 >>> 8).toUInt8 = s ∧
    (ROTL32 (lutGen s) 24 >>> 16).toUInt8 = mul3 s ∧ (ROTL32 (lutGen s) 24 >>> 24).toUInt8 = mul2 s := by decide +kernel

theorem shr8_8 (w : UInt32) : w >>> 8 >>> 8 = w >>> 16 := by
  apply UInt32.toNat_inj.1; simp [UInt32.toNat_shiftRight, Nat.shiftRight_eq_div_pow]; omega
theorem shr16_8 (w : UInt32) : w >>> 16 >>> 8 = w >>> 24 := by
  apply UInt32.toNat_inj.1; simp [UInt32.toNat_shiftRight, Nat.shiftRight_eq_div_pow]; omega

theorem store32_le_eq (w : UInt32) :
    store32_le w = [w.toUInt8, (w >>> 8).toUInt8, (w >>> 16).toUInt8, (w >>> 24).toUInt8] := by
  simp [store32_le, shr8_8, shr16_8]

theorem store_eq (b : SoftAesBlock) : softaes_block_store b =
    [b.w0.toUInt8, (b.w0 >>> 8).toUInt8, (b.w0 >>> 16).toUInt8, (b.w0 >>> 24).toUInt8,
     b.w1.toUInt8, (b.w1 >>> 8).toUInt8, (b.w1 >>> 16).toUInt8, (b.w1 >>> 24).toUInt8,
     b.w2.toUInt8, (b.w2 >>> 8).toUInt8, (b.w2 >>> 16).toUInt8, (b.w2 >>> 24).toUInt8,
     b.w3.toUInt8, (b.w3 >>> 8).toUInt8, (b.w3 >>> 16).toUInt8, (b.w3 >>> 24).toUInt8] := by
  simp [softaes_block_store, store32_le_eq]

/-- the looked-up, rotated table word for index byte `x` -/
theorem tword (x : UInt8) : tSel (tFill (ofOf x)) x = lutGen (subByte x) := by
  rw [ct_lookup, lut_gen]

/-- **softaes_block_encrypt is one AES round**: SubBytes, ShiftRows, MixColumns, AddRoundKey -/
theorem softaes_block_encrypt_spec (block rk : SoftAesBlock) :
    softaes_block_store (softaes_block_encrypt block rk) =
      aesRound (softaes_block_store block) (softaes_block_store rk) := by
  obtain ⟨s0, s1, s2, s3⟩ := block
  obtain ⟨r0, r1, r2, r3⟩ := rk
  simp only [store_eq, softaes_block_encrypt, _encrypt, tword, aesRound, subBytes, shiftRows, mixColumns,
    mixColumn, addRoundKey, xorBytes, List.map, List.cons_append, List.nil_append,
    UInt32.shiftRight_xor, UInt32.toUInt8_xor,
    (gen_r0 _).1, (gen_r0 _).2.1, (gen_r0 _).2.2.1, (gen_r0 _).2.2.2,
    (gen_r8 _).1, (gen_r8 _).2.1, (gen_r8 _).2.2.1, (gen_r8 _).2.2.2,
    (gen_r16 _).1, (gen_r16 _).2.1, (gen_r16 _).2.2.1, (gen_r16 _).2.2.2,
    (gen_r24 _).1, (gen_r24 _).2.1, (gen_r24 _).2.2.1, (gen_r24 _).2.2.2]

/-! ## Part 2: the SoftAesBlock operations on the byte image -/

theorem u8_sh0 : ∀ b : UInt8, b.toUInt32.toUInt8 = b ∧ (b.toUInt32 >>> 8).toUInt8 = 0 ∧
    (b.toUInt32 >>> 16).toUInt8 = 0 ∧ (b.toUInt32 >>> 24).toUInt8 = 0 := by decide +kernel
theorem u8_sh8 : ∀ b : UInt8, (b.toUInt32 <<< 8).toUInt8 = 0 ∧ (b.toUInt32 <<< 8 >>> 8).toUInt8 = b ∧
    (b.toUInt32 <<< 8 >>> 16).toUInt8 = 0 ∧ (b.toUInt32 <<< 8 >>> 24).toUInt8 = 0 := by decide +kernel
theorem u8_sh16 : ∀ b : UInt8, (b.toUInt32 <<< 16).toUInt8 = 0 ∧ (b.toUInt32 <<< 16 >>> 8).toUInt8 = 0 ∧
    (b.toUInt32 <<< 16 >>> 16).toUInt8 = b ∧ (b.toUInt32 <<< 16 >>> 24).toUInt8 = 0 := by decide +kernel
theorem u8_sh24 : ∀ b : UInt8, (b.toUInt32 <<< 24).toUInt8 = 0 ∧ (b.toUInt32 <<< 24 >>> 8).toUInt8 = 0 ∧
    (b.toUInt32 <<< 24 >>> 16).toUInt8 = 0 ∧ (b.toUInt32 <<< 24 >>> 24).toUInt8 = b := by decide +kernel

theorem store32_load32 (p : Bytes) (h : 4 ≤ p.length) : store32_le (load32_le p) = p.take 4 := by
  match p, h with
  | a :: b :: c :: d :: rest, _ =>
    simp only [store32_le_eq, load32_le, List.getD_cons_zero, List.getD_cons_succ, UInt32.shiftRight_or,
      UInt32.toUInt8_or, (u8_sh0 _).1, (u8_sh0 _).2.1, (u8_sh0 _).2.2.1, (u8_sh0 _).2.2.2,
      (u8_sh8 _).1, (u8_sh8 _).2.1, (u8_sh8 _).2.2.1, (u8_sh8 _).2.2.2,
      (u8_sh16 _).1, (u8_sh16 _).2.1, (u8_sh16 _).2.2.1, (u8_sh16 _).2.2.2,
      (u8_sh24 _).1, (u8_sh24 _).2.1, (u8_sh24 _).2.2.1, (u8_sh24 _).2.2.2]
    simp

theorem store_load (p : Bytes) (h : 16 ≤ p.length) : softaes_block_store (softaes_block_load p) = p.take 16 := by
  simp only [softaes_block_store, softaes_block_load]
  rw [store32_load32 p (by omega), store32_load32 (p.drop 4) (by simp; omega),
    store32_load32 (p.drop 8) (by simp; omega), store32_load32 (p.drop 12) (by simp; omega)]
  have e : p.take 16 = p.take (4 + (4 + (4 + 4))) := rfl
  rw [e, List.take_add, List.take_add, List.take_add]
  simp [List.drop_drop]


theorem store_xor (a b : SoftAesBlock) : softaes_block_store (softaes_block_xor a b) =
    xorBytes (softaes_block_store a) (softaes_block_store b) := by
  simp [store_eq, softaes_block_xor, xorBytes, UInt32.shiftRight_xor]

theorem store_and (a b : SoftAesBlock) : softaes_block_store (softaes_block_and a b) =
    andBytes (softaes_block_store a) (softaes_block_store b) := by
  simp [store_eq, softaes_block_and, andBytes, UInt32.shiftRight_and]

theorem store_len (a : SoftAesBlock) : (softaes_block_store a).length = 16 := by simp [store_eq]

theorem toLE8 (a : UInt64) : toLE 8 a.toNat =
    [a.toUInt32.toUInt8, (a.toUInt32 >>> 8).toUInt8, (a.toUInt32 >>> 16).toUInt8, (a.toUInt32 >>> 24).toUInt8,
     (a >>> 32).toUInt32.toUInt8, ((a >>> 32).toUInt32 >>> 8).toUInt8, ((a >>> 32).toUInt32 >>> 16).toUInt8,
     ((a >>> 32).toUInt32 >>> 24).toUInt8] := by
  have h := a.toNat_lt
  simp only [toLE, List.cons.injEq, and_true]
  refine ⟨?_, ?_, ?_, ?_, ?_, ?_, ?_, ?_⟩ <;> apply UInt8.toNat_inj.1 <;>
    simp [UInt32.toNat_shiftRight, UInt64.toNat_shiftRight, Nat.shiftRight_eq_div_pow] <;> omega

theorem store_load64x2 (a b : UInt64) : softaes_block_store (softaes_block_load64x2 a b) =
    toLE 8 b.toNat ++ toLE 8 a.toNat := by
  simp [store_eq, softaes_block_load64x2, toLE8]

/-! ## Part 3: the generic `*_common.h` code over any backend whose operations act on the byte image -/

structure BackendOk {β : Type} (B : Backend β) : Prop where
  store_len : ∀ x, (B.STORE x).length = 16
  store_load : ∀ p, 16 ≤ p.length → B.STORE (B.LOAD p) = p.take 16
  store_xor : ∀ a b, B.STORE (B.XOR a b) = xorBytes (B.STORE a) (B.STORE b)
  store_and : ∀ a b, B.STORE (B.AND a b) = andBytes (B.STORE a) (B.STORE b)
  store_enc : ∀ a b, B.STORE (B.ENC a b) = aesRound (B.STORE a) (B.STORE b)
  store_load64x2 : ∀ a b, B.STORE (B.LOAD_64x2 a b) = toLE 8 b.toNat ++ toLE 8 a.toNat

theorem soft_ok : BackendOk soft :=
  { store_len := store_len, store_load := store_load, store_xor := store_xor, store_and := store_and,
    store_enc := softaes_block_encrypt_spec, store_load64x2 := store_load64x2 }

theorem xor_assoc : ∀ a b c : Bytes, xorBytes (xorBytes a b) c = xorBytes a (xorBytes b c)
  | [], _, _ => by simp [xorBytes]
  | _ :: _, [], _ => by simp [xorBytes]
  | _ :: _, _ :: _, [] => by simp [xorBytes]
  | x :: a, y :: b, z :: c => by simp [xorBytes, xor_assoc a b c, UInt8.xor_assoc]

theorem xor_comm : ∀ a b : Bytes, xorBytes a b = xorBytes b a
  | [], b => by cases b <;> simp [xorBytes]
  | _ :: _, [] => by simp [xorBytes]
  | x :: a, y :: b => by simp [xorBytes, xor_comm a b, UInt8.xor_comm]

theorem xor_left_comm (a b c : Bytes) : xorBytes a (xorBytes b c) = xorBytes b (xorBytes a c) := by
  rw [← xor_assoc, xor_comm a b, xor_assoc]

instance : Std.Associative xorBytes := ⟨xor_assoc⟩
instance : Std.Commutative xorBytes := ⟨xor_comm⟩

theorem xor_length : ∀ a b : Bytes, (xorBytes a b).length = min a.length b.length
  | [], b => by cases b <;> simp [xorBytes]
  | _ :: _, [] => by simp [xorBytes]
  | x :: a, y :: b => by simp [xorBytes, xor_length a b]

theorem and_length : ∀ a b : Bytes, (andBytes a b).length = min a.length b.length
  | [], b => by cases b <;> simp [andBytes]
  | _ :: _, [] => by simp [andBytes]
  | x :: a, y :: b => by simp [andBytes, and_length a b]

theorem aesRound_xor (a k d : Bytes) : xorBytes (aesRound a k) d = aesRound a (xorBytes k d) := by
  simp only [aesRound, addRoundKey, xor_assoc]

theorem zeros_len (n : Nat) : (zeros n).length = n := by simp [zeros]
theorem zeros_drop (n k : Nat) : (zeros n).drop k = zeros (n - k) := by simp [zeros]

theorem zeroPad_short (x : Bytes) (R : Nat) (h0 : 0 < x.length) (h : x.length < R) :
    zeroPad x R = x ++ zeros (R - x.length) := by
  simp only [zeroPad, Nat.mod_eq_of_lt h]
  rw [Nat.mod_eq_of_lt (by omega)]

theorem memcpy_zeros (R : Nat) (p : Bytes) (len : Nat) :
    memcpy (zeros R) p len = p.take len ++ zeros (R - len) := by
  simp [memcpy, zeros_drop]

theorem storeAt2 (pad o0 o1 : Bytes) (hpad : pad.length = 32) (h0 : o0.length = 16) (h1 : o1.length = 16) :
    storeAt (storeAt pad 0 o0) 16 o1 = o0 ++ o1 := by
  simp [storeAt, h0, h1, List.drop_append, hpad]

theorem storeAt1 (pad o0 : Bytes) (hpad : pad.length = 16) (h0 : o0.length = 16) :
    storeAt pad 0 o0 = o0 := by
  simp [storeAt, h0, hpad]

theorem memset0At_tail (buf : Bytes) (R len : Nat) (hb : buf.length = R) (hl : len ≤ R) :
    memset0At buf len (R - len) = buf.take len ++ zeros (R - len) := by
  simp only [memset0At]
  rw [List.drop_eq_nil_of_le (by omega)]; simp

theorem shl3 (a : Nat) (h : a < 2 ^ 61) : (UInt64.ofNat a <<< 3).toNat = 8 * a := by
  simp [UInt64.toNat_shiftLeft, UInt64.toNat_ofNat']
  omega

/-- draft-irtf-cfrg-aegis-aead §2.5.6 Finalize with tag_len_bits = 128:
    `tag = S0 ^ S1 ^ S2 ^ S3 ^ S4 ^ S5 ^ S6` -/
def finalize128L_16 (S : Aegis128L.State) (adLenBits msgLenBits : Nat) : Bytes :=
  let t := xorBytes S.s2 (le64 adLenBits ++ le64 msgLenBits)
  let S := repeatN 7 (fun S => Aegis128L.update S t t) S
  xorBytes (xorBytes (xorBytes (xorBytes (xorBytes (xorBytes S.s0 S.s1) S.s2) S.s3) S.s4) S.s5) S.s6

/-- draft §3.5.6 Finalize with tag_len_bits = 128: `tag = S0 ^ S1 ^ S2 ^ S3 ^ S4 ^ S5` -/
def finalize256_16 (S : Aegis256.State) (adLenBits msgLenBits : Nat) : Bytes :=
  let t := xorBytes S.s3 (le64 adLenBits ++ le64 msgLenBits)
  let S := repeatN 7 (fun S => Aegis256.update S t) S
  xorBytes (xorBytes (xorBytes (xorBytes (xorBytes S.s0 S.s1) S.s2) S.s3) S.s4) S.s5

theorem repeat_abs {τ σ : Type} (abs : τ → σ) (f : τ → τ) (g : σ → σ) (h : ∀ s, abs (f s) = g (abs s)) :
    ∀ (n : Nat) (s : τ), abs (Nat.repeat f n s) = Nat.repeat g n (abs s)
  | 0, _ => rfl
  | n + 1, s => by simp only [Nat.repeat]; rw [h, repeat_abs abs f g h n s]

theorem take16_of_len {p : Bytes} (h : p.length = 16) : p.take 16 = p := by
  rw [← h]; exact List.take_length

namespace A128L
open Sodium.Model.AegisRef.A128L
variable {β : Type} {B : Backend β}

def abs (B : Backend β) (st : State β) : Aegis128L.State :=
  { s0 := B.STORE st.s0, s1 := B.STORE st.s1, s2 := B.STORE st.s2, s3 := B.STORE st.s3,
    s4 := B.STORE st.s4, s5 := B.STORE st.s5, s6 := B.STORE st.s6, s7 := B.STORE st.s7 }

theorem update_spec (ok : BackendOk B) (st : State β) (d1 d2 : β) :
    abs B (aegis128l_update B st d1 d2) = Aegis128L.update (abs B st) (B.STORE d1) (B.STORE d2) := by
  simp only [abs, aegis128l_update, Aegis128L.update, ok.store_enc, ok.store_xor, aesRound_xor]


theorem init_spec (ok : BackendOk B) (key nonce : Bytes) (hk : key.length = 16) (hn : nonce.length = 16) :
    abs B (aegis128l_init B key nonce) = Aegis128L.init key nonce := by
  simp only [aegis128l_init, Aegis128L.init, repeatN]
  rw [repeat_abs (abs B) _ (fun S => Aegis128L.update S nonce key)]
  · have e0 : c0_.take 16 = C0 := rfl
    have e1 : c1_.take 16 = C1 := rfl
    simp only [abs, ok.store_xor, ok.store_load _ (Nat.le_of_eq hk.symm), ok.store_load _ (Nat.le_of_eq hn.symm),
      ok.store_load c0_ (by decide), ok.store_load c1_ (by decide), take16_of_len hk, take16_of_len hn, e0, e1]
  · intro s
    rw [update_spec ok, ok.store_load _ (Nat.le_of_eq hk.symm), ok.store_load _ (Nat.le_of_eq hn.symm),
      take16_of_len hk, take16_of_len hn]

theorem absorb_spec (ok : BackendOk B) (p : Bytes) (st : State β) (h : 32 ≤ p.length) :
    abs B (aegis128l_absorb B p st) = Aegis128L.absorb (abs B st) (p.take 32) := by
  simp only [aegis128l_absorb, Aegis128L.absorb, update_spec ok, AES_BLOCK_LENGTH]
  rw [ok.store_load _ (by omega), ok.store_load _ (by simp; omega)]
  simp [List.take_take, List.drop_take]

theorem absorb2_eq (p : Bytes) (st : State β) :
    aegis128l_absorb2 B p st = aegis128l_absorb B (p.drop 32) (aegis128l_absorb B p st) := by
  simp [aegis128l_absorb2, aegis128l_absorb, AES_BLOCK_LENGTH, List.drop_drop]

theorem enc_spec (ok : BackendOk B) (p : Bytes) (st : State β) (h : 32 ≤ p.length) :
    (aegis128l_enc B p st).1 = (Aegis128L.enc (abs B st) (p.take 32)).2 ∧
    abs B (aegis128l_enc B p st).2 = (Aegis128L.enc (abs B st) (p.take 32)).1 := by
  have l0 : B.STORE (B.LOAD p) = (p.take 32).take 16 := by rw [ok.store_load _ (by omega)]; simp [List.take_take]
  have l1 : B.STORE (B.LOAD (p.drop 16)) = (p.take 32).drop 16 := by
    rw [ok.store_load _ (by simp; omega)]; simp [List.drop_take]
  constructor
  · simp only [aegis128l_enc, Aegis128L.enc, AES_BLOCK_LENGTH, ok.store_xor, ok.store_and, l0, l1,
      Aegis128L.z0, Aegis128L.z1, abs]
    congr 1 <;> ac_rfl
  · simp only [aegis128l_enc, Aegis128L.enc, AES_BLOCK_LENGTH]
    rw [update_spec ok, l0, l1]


theorem dec_spec (ok : BackendOk B) (p : Bytes) (st : State β) (h : 32 ≤ p.length) :
    (aegis128l_dec B p st).1 = (Aegis128L.dec (abs B st) (p.take 32)).2 ∧
    abs B (aegis128l_dec B p st).2 = (Aegis128L.dec (abs B st) (p.take 32)).1 := by
  have l0 : B.STORE (B.LOAD p) = (p.take 32).take 16 := by rw [ok.store_load _ (by omega)]; simp [List.take_take]
  have l1 : B.STORE (B.LOAD (p.drop 16)) = (p.take 32).drop 16 := by
    rw [ok.store_load _ (by simp; omega)]; simp [List.drop_take]
  have e0 : ∀ (x s6 s1 s2 s3 : Bytes), xorBytes (xorBytes (xorBytes x s6) s1) (andBytes s2 s3) =
      xorBytes x (xorBytes (xorBytes s1 s6) (andBytes s2 s3)) := by intros; ac_rfl
  constructor
  · simp only [aegis128l_dec, Aegis128L.dec, AES_BLOCK_LENGTH, ok.store_xor, ok.store_and, l0, l1,
      Aegis128L.z0, Aegis128L.z1, abs, e0]
  · simp only [aegis128l_dec, Aegis128L.dec, AES_BLOCK_LENGTH]
    rw [update_spec ok]
    simp only [ok.store_xor, ok.store_and, l0, l1, Aegis128L.z0, Aegis128L.z1, abs, e0]


theorem declast_spec (ok : BackendOk B) (p : Bytes) (len : Nat) (st : State β)
    (h0 : 0 < len) (h1 : len < 32) (hp : len ≤ p.length) :
    (aegis128l_declast B p len st).1 = (Aegis128L.decPartial (abs B st) (p.take len)).2 ∧
    abs B (aegis128l_declast B p len st).2 = (Aegis128L.decPartial (abs B st) (p.take len)).1 := by
  have hcn : (p.take len).length = len := by simp; omega
  have e0 : ∀ (x s6 s1 s2 s3 : Bytes), xorBytes (xorBytes (xorBytes x s6) s1) (andBytes s2 s3) =
      xorBytes x (xorBytes (xorBytes s1 s6) (andBytes s2 s3)) := by intros; ac_rfl
  have hpad : (p.take len ++ zeros (32 - len)).length = 32 := by simp [zeros_len]; omega
  have hzp : zeroPad (p.take len) 32 = p.take len ++ zeros (32 - len) := by
    rw [zeroPad_short _ _ (by omega) (by omega), hcn]
  generalize hpd : p.take len ++ zeros (32 - len) = pad at hpad hzp
  have l0 : B.STORE (B.LOAD pad) = pad.take 16 := ok.store_load _ (by omega)
  have l1 : B.STORE (B.LOAD (pad.drop 16)) = pad.drop 16 := by
    rw [ok.store_load _ (by simp; omega)]; exact List.take_of_length_le (by simp; omega)
  simp only [aegis128l_declast, Aegis128L.decPartial, RATE, AES_BLOCK_LENGTH, memcpy_zeros, hpd, hzp, hcn]
  rw [storeAt2 _ _ _ hpad (ok.store_len _) (ok.store_len _)]
  rw [memset0At_tail _ 32 len (by simp [ok.store_len]) (by omega)]
  simp only [ok.store_xor, ok.store_and, l0, l1, e0]
  have hz0 : Aegis128L.z0 (abs B st) = xorBytes (xorBytes (B.STORE st.s1) (B.STORE st.s6))
      (andBytes (B.STORE st.s2) (B.STORE st.s3)) := rfl
  have hz1 : Aegis128L.z1 (abs B st) = xorBytes (xorBytes (B.STORE st.s2) (B.STORE st.s5))
      (andBytes (B.STORE st.s6) (B.STORE st.s7)) := rfl
  rw [hz0, hz1]
  have hol : (xorBytes (pad.take 16) (xorBytes (xorBytes (B.STORE st.s1) (B.STORE st.s6))
      (andBytes (B.STORE st.s2) (B.STORE st.s3))) ++ xorBytes (pad.drop 16) (xorBytes (xorBytes (B.STORE st.s2) (B.STORE st.s5))
      (andBytes (B.STORE st.s6) (B.STORE st.s7)))).length = 32 := by
    simp [xor_length, and_length, ok.store_len, hpad]
  generalize (xorBytes (pad.take 16) (xorBytes (xorBytes (B.STORE st.s1) (B.STORE st.s6))
      (andBytes (B.STORE st.s2) (B.STORE st.s3))) ++ xorBytes (pad.drop 16) (xorBytes (xorBytes (B.STORE st.s2) (B.STORE st.s5))
      (andBytes (B.STORE st.s6) (B.STORE st.s7)))) = out at hol ⊢
  have hxn : (out.take len).length = len := by simp; omega
  generalize out.take len = xn at hxn ⊢
  have hv : (xn ++ zeros (32 - len)).length = 32 := by simp [zeros_len]; omega
  refine ⟨by rw [← hxn]; simp, ?_⟩
  rw [update_spec ok, zeroPad_short _ _ (by omega) (by omega), hxn, ok.store_load _ (by omega),
    ok.store_load _ (by simp [zeros_len]; omega)]
  congr 1
  exact List.take_of_length_le (by simp [zeros_len]; omega)


theorem mac_spec (ok : BackendOk B) (maclen a m : Nat) (st : State β) (ha : a < 2 ^ 61) (hm : m < 2 ^ 61) :
    aegis128l_mac B maclen (UInt64.ofNat a) (UInt64.ofNat m) st =
      if maclen = 16 then (0, finalize128L_16 (abs B st) (8 * a) (8 * m))
      else if maclen = 32 then (0, Aegis128L.finalize (abs B st) (8 * a) (8 * m))
      else (-1, zeros maclen) := by
  have ht : B.STORE (B.XOR (B.LOAD_64x2 (UInt64.ofNat m <<< 3) (UInt64.ofNat a <<< 3)) st.s2) =
      xorBytes (abs B st).s2 (le64 (8 * a) ++ le64 (8 * m)) := by
    rw [ok.store_xor, ok.store_load64x2, shl3 a ha, shl3 m hm, xor_comm]; rfl
  have hrep := repeat_abs (abs B)
    (fun state => aegis128l_update B state (B.XOR (B.LOAD_64x2 (UInt64.ofNat m <<< 3) (UInt64.ofNat a <<< 3)) st.s2)
      (B.XOR (B.LOAD_64x2 (UInt64.ofNat m <<< 3) (UInt64.ofNat a <<< 3)) st.s2))
    (fun S => Aegis128L.update S (xorBytes (abs B st).s2 (le64 (8 * a) ++ le64 (8 * m)))
      (xorBytes (abs B st).s2 (le64 (8 * a) ++ le64 (8 * m))))
    (fun s => by rw [update_spec ok, ht]) 7 st
  simp only [aegis128l_mac, finalize128L_16, Aegis128L.finalize, repeatN, ← hrep]
  split
  · simp only [ok.store_xor, abs]; congr 1; ac_rfl
  · split
    · simp only [ok.store_xor, abs]; congr 2 <;> ac_rfl
    · rfl

end A128L

namespace A256
open Sodium.Model.AegisRef.A256
variable {β : Type} {B : Backend β}

def abs (B : Backend β) (st : State β) : Aegis256.State :=
  { s0 := B.STORE st.s0, s1 := B.STORE st.s1, s2 := B.STORE st.s2, s3 := B.STORE st.s3,
    s4 := B.STORE st.s4, s5 := B.STORE st.s5 }

theorem update_spec (ok : BackendOk B) (st : State β) (d : β) :
    abs B (aegis256_update B st d) = Aegis256.update (abs B st) (B.STORE d) := by
  simp only [abs, aegis256_update, Aegis256.update, ok.store_enc, ok.store_xor, aesRound_xor]

theorem init_spec (ok : BackendOk B) (key nonce : Bytes) (hk : key.length = 32) (hn : nonce.length = 32) :
    abs B (aegis256_init B key nonce) = Aegis256.init key nonce := by
  have k0 : B.STORE (B.LOAD key) = key.take 16 := ok.store_load _ (by omega)
  have n0 : B.STORE (B.LOAD nonce) = nonce.take 16 := ok.store_load _ (by omega)
  have k1 : B.STORE (B.LOAD (key.drop 16)) = key.drop 16 := by
    rw [ok.store_load _ (by simp; omega)]; exact List.take_of_length_le (by simp; omega)
  have n1 : B.STORE (B.LOAD (nonce.drop 16)) = nonce.drop 16 := by
    rw [ok.store_load _ (by simp; omega)]; exact List.take_of_length_le (by simp; omega)
  simp only [aegis256_init, Aegis256.init, repeatN, AES_BLOCK_LENGTH]
  rw [repeat_abs (abs B) _ (fun S =>
    let S := Aegis256.update S (key.take 16)
    let S := Aegis256.update S (key.drop 16)
    let S := Aegis256.update S (xorBytes (key.take 16) (nonce.take 16))
    Aegis256.update S (xorBytes (key.drop 16) (nonce.drop 16)))]
  · have e0 : c0_.take 16 = C0 := rfl
    have e1 : c1_.take 16 = C1 := rfl
    simp only [abs, ok.store_xor, k0, k1, n0, n1, ok.store_load c0_ (by decide), ok.store_load c1_ (by decide), e0, e1]
  · intro s
    simp only [update_spec ok, ok.store_xor, k0, k1, n0, n1]

theorem absorb_spec (ok : BackendOk B) (p : Bytes) (st : State β) (h : 16 ≤ p.length) :
    abs B (aegis256_absorb B p st) = Aegis256.absorb (abs B st) (p.take 16) := by
  simp only [aegis256_absorb, Aegis256.absorb, update_spec ok]
  rw [ok.store_load _ h]

theorem absorb2_eq (p : Bytes) (st : State β) :
    aegis256_absorb2 B p st = aegis256_absorb B (p.drop 16) (aegis256_absorb B p st) := by
  simp [aegis256_absorb2, aegis256_absorb, AES_BLOCK_LENGTH]

theorem ez : ∀ (x s5 s4 s1 s2 s3 : Bytes), xorBytes (xorBytes (xorBytes (xorBytes x s5) s4) s1) (andBytes s2 s3) =
    xorBytes x (xorBytes (xorBytes (xorBytes s1 s4) s5) (andBytes s2 s3)) := by intros; ac_rfl

theorem enc_spec (ok : BackendOk B) (p : Bytes) (st : State β) (h : 16 ≤ p.length) :
    (aegis256_enc B p st).1 = (Aegis256.enc (abs B st) (p.take 16)).2 ∧
    abs B (aegis256_enc B p st).2 = (Aegis256.enc (abs B st) (p.take 16)).1 := by
  constructor
  · simp only [aegis256_enc, Aegis256.enc, ok.store_xor, ok.store_and, ok.store_load _ h, Aegis256.z, abs, ez]
  · simp only [aegis256_enc, Aegis256.enc]
    rw [update_spec ok, ok.store_load _ h]

theorem dec_spec (ok : BackendOk B) (p : Bytes) (st : State β) (h : 16 ≤ p.length) :
    (aegis256_dec B p st).1 = (Aegis256.dec (abs B st) (p.take 16)).2 ∧
    abs B (aegis256_dec B p st).2 = (Aegis256.dec (abs B st) (p.take 16)).1 := by
  constructor
  · simp only [aegis256_dec, Aegis256.dec, ok.store_xor, ok.store_and, ok.store_load _ h, Aegis256.z, abs, ez]
  · simp only [aegis256_dec, Aegis256.dec]
    rw [update_spec ok]
    simp only [ok.store_xor, ok.store_and, ok.store_load _ h, Aegis256.z, abs, ez]

theorem declast_spec (ok : BackendOk B) (p : Bytes) (len : Nat) (st : State β)
    (h0 : 0 < len) (h1 : len < 16) (hp : len ≤ p.length) :
    (aegis256_declast B p len st).1 = (Aegis256.decPartial (abs B st) (p.take len)).2 ∧
    abs B (aegis256_declast B p len st).2 = (Aegis256.decPartial (abs B st) (p.take len)).1 := by
  have hcn : (p.take len).length = len := by simp; omega
  have hpad : (p.take len ++ zeros (16 - len)).length = 16 := by simp [zeros_len]; omega
  have hzp : zeroPad (p.take len) 16 = p.take len ++ zeros (16 - len) := by
    rw [zeroPad_short _ _ (by omega) (by omega), hcn]
  generalize hpd : p.take len ++ zeros (16 - len) = pad at hpad hzp
  have l0 : B.STORE (B.LOAD pad) = pad := by
    rw [ok.store_load _ (by omega)]; exact List.take_of_length_le (by omega)
  simp only [aegis256_declast, Aegis256.decPartial, RATE, memcpy_zeros, hpd, hzp, hcn]
  rw [storeAt1 _ _ hpad (ok.store_len _)]
  rw [memset0At_tail _ 16 len (ok.store_len _) (by omega)]
  simp only [ok.store_xor, ok.store_and, l0, ez]
  have hz : Aegis256.z (abs B st) = xorBytes (xorBytes (xorBytes (B.STORE st.s1) (B.STORE st.s4)) (B.STORE st.s5))
      (andBytes (B.STORE st.s2) (B.STORE st.s3)) := rfl
  rw [hz]
  have hol : (xorBytes pad (xorBytes (xorBytes (xorBytes (B.STORE st.s1) (B.STORE st.s4)) (B.STORE st.s5))
      (andBytes (B.STORE st.s2) (B.STORE st.s3)))).length = 16 := by
    simp [xor_length, and_length, ok.store_len, hpad]
  generalize (xorBytes pad (xorBytes (xorBytes (xorBytes (B.STORE st.s1) (B.STORE st.s4)) (B.STORE st.s5))
      (andBytes (B.STORE st.s2) (B.STORE st.s3)))) = out at hol ⊢
  have hxn : (out.take len).length = len := by simp; omega
  generalize out.take len = xn at hxn ⊢
  have hv : (xn ++ zeros (16 - len)).length = 16 := by simp [zeros_len]; omega
  refine ⟨by rw [← hxn]; simp, ?_⟩
  rw [update_spec ok, zeroPad_short _ _ (by omega) (by omega), hxn, ok.store_load _ (by omega)]
  congr 1
  exact List.take_of_length_le (by omega)

theorem mac_spec (ok : BackendOk B) (maclen a m : Nat) (st : State β) (ha : a < 2 ^ 61) (hm : m < 2 ^ 61) :
    aegis256_mac B maclen (UInt64.ofNat a) (UInt64.ofNat m) st =
      if maclen = 16 then (0, finalize256_16 (abs B st) (8 * a) (8 * m))
      else if maclen = 32 then (0, Aegis256.finalize (abs B st) (8 * a) (8 * m))
      else (-1, zeros maclen) := by
  have ht : B.STORE (B.XOR (B.LOAD_64x2 (UInt64.ofNat m <<< 3) (UInt64.ofNat a <<< 3)) st.s3) =
      xorBytes (abs B st).s3 (le64 (8 * a) ++ le64 (8 * m)) := by
    rw [ok.store_xor, ok.store_load64x2, shl3 a ha, shl3 m hm, xor_comm]; rfl
  have hrep := repeat_abs (abs B)
    (fun state => aegis256_update B state (B.XOR (B.LOAD_64x2 (UInt64.ofNat m <<< 3) (UInt64.ofNat a <<< 3)) st.s3))
    (fun S => Aegis256.update S (xorBytes (abs B st).s3 (le64 (8 * a) ++ le64 (8 * m))))
    (fun s => by rw [update_spec ok, ht]) 7 st
  simp only [aegis256_mac, finalize256_16, Aegis256.finalize, repeatN, ← hrep]
  split
  · simp only [ok.store_xor, abs]; congr 1; ac_rfl
  · split
    · simp only [ok.store_xor, abs]; congr 2 <;> ac_rfl
    · rfl

end A256

/-! ## Part 4: the block loops of `encrypt_detached` / `decrypt_detached` -/

/-- `q` iterations of a `for (…; i += step)` body from index `i` -/
def iter {σ : Type} (step : Nat) (body : Nat → σ → σ) : Nat → Nat → σ → σ
  | 0, _, s => s
  | q + 1, i, s => iter step body q (i + step) (body i s)

theorem forBlocks_eq {σ : Type} (step len : Nat) (hs : 0 < step) (body : Nat → σ → σ) :
    ∀ (fuel i : Nat) (s : σ), len - i ≤ fuel →
      forBlocks step len body fuel i s = (i + (len - i) / step * step, iter step body ((len - i) / step) i s)
  | 0, i, s, h => by
    have : len - i = 0 := by omega
    simp [forBlocks, this, iter]
  | fuel + 1, i, s, h => by
    by_cases hc : i + step ≤ len
    · have e : len - i = (len - (i + step)) + step := by omega
      have e2 : (len - i) / step = (len - (i + step)) / step + 1 := by rw [e, Nat.add_div_right _ hs]
      rw [forBlocks, if_pos hc, forBlocks_eq step len hs body fuel (i + step) (body i s) (by omega), e2, iter]
      congr 1
      rw [Nat.add_mul]; omega
    · have : (len - i) / step = 0 := Nat.div_eq_of_lt (by omega)
      rw [forBlocks, if_neg hc, this]; simp [iter]

theorem iter_add {σ : Type} (step : Nat) (body : Nat → σ → σ) :
    ∀ (a b i : Nat) (s : σ), iter step body (a + b) i s = iter step body b (i + a * step) (iter step body a i s)
  | 0, b, i, s => by simp [iter]
  | a + 1, b, i, s => by
    have : a + 1 + b = (a + b) + 1 := by omega
    rw [this, iter, iter_add step body a b (i + step) (body i s), iter]
    congr 1
    rw [Nat.add_mul]; omega

/-! ### `chunks` / `zeroPad` / `mapBlocks` -/

theorem chunksAux_fuel (n : Nat) (hn : 0 < n) : ∀ (f1 f2 : Nat) (l : Bytes), l.length ≤ f1 → l.length ≤ f2 →
    chunksAux n f1 l = chunksAux n f2 l
  | 0, f2, l, h1, _ => by
    have : l = [] := List.eq_nil_of_length_eq_zero (by omega)
    subst this; cases f2 <;> simp [chunksAux]
  | f1 + 1, 0, l, _, h2 => by
    have : l = [] := List.eq_nil_of_length_eq_zero (by omega)
    subst this; simp [chunksAux]
  | f1 + 1, f2 + 1, l, h1, h2 => by
    simp only [chunksAux]
    by_cases he : l.isEmpty
    · simp [he]
    · simp only [he, Bool.false_eq_true, if_false]
      have : 0 < l.length := by cases l <;> simp_all
      rw [chunksAux_fuel n hn f1 f2 (l.drop n) (by simp; omega) (by simp; omega)]

theorem chunks_nil (n : Nat) : chunks n [] = [] := by simp [chunks, chunksAux]

theorem chunks_cons (n : Nat) (hn : 0 < n) (l : Bytes) (hl : 0 < l.length) :
    chunks n l = l.take n :: chunks n (l.drop n) := by
  unfold chunks
  obtain ⟨k, hk⟩ : ∃ k, l.length = k + 1 := ⟨l.length - 1, by omega⟩
  have he : l.isEmpty = false := by cases l <;> simp_all
  rw [hk, chunksAux, he]
  simp only [Bool.false_eq_true, if_false]
  rw [chunksAux_fuel n hn k (l.drop n).length (l.drop n) (by simp; omega) (Nat.le_refl _)]

theorem chunks_single (n : Nat) (hn : 0 < n) (l : Bytes) (h0 : 0 < l.length) (h : l.length ≤ n) :
    chunks n l = [l] := by
  rw [chunks_cons n hn l h0, List.take_of_length_le h, List.drop_eq_nil_of_le h, chunks_nil]

theorem chunks_append (n : Nat) (hn : 0 < n) : ∀ (q : Nat) (a b : Bytes), a.length = q * n →
    chunks n (a ++ b) = chunks n a ++ chunks n b
  | 0, a, b, h => by
    have : a = [] := List.eq_nil_of_length_eq_zero (by simpa using h)
    subst this; simp [chunks_nil]
  | q + 1, a, b, h => by
    have hl : n ≤ a.length := by rw [h, Nat.add_mul]; omega
    rw [chunks_cons n hn (a ++ b) (by simp; omega), chunks_cons n hn a (by omega)]
    rw [List.take_append_of_le_length hl, List.drop_append_of_le_length hl]
    rw [chunks_append n hn q (a.drop n) b (by simp [h, Nat.add_mul])]
    simp


theorem chunks_zeroPad (R : Nat) (hR : 0 < R) (x : Bytes) :
    chunks R (zeroPad x R) = chunks R (x.take (x.length / R * R)) ++
      (if x.length % R = 0 then [] else [x.drop (x.length / R * R) ++ zeros (R - x.length % R)]) := by
  have hfull : x.length / R * R + x.length % R = x.length := Nat.div_add_mod' _ _
  have hr : x.length % R < R := Nat.mod_lt _ hR
  have hx : zeroPad x R = x.take (x.length / R * R) ++ (x.drop (x.length / R * R) ++ zeros ((R - x.length % R) % R)) := by
    rw [← List.append_assoc, List.take_append_drop]; rfl
  rw [hx, chunks_append R hR (x.length / R) _ _ (by simp; omega)]
  congr 1
  by_cases h0 : x.length % R = 0
  · rw [if_pos h0, h0, Nat.sub_zero, Nat.mod_self, List.drop_eq_nil_of_le (by omega)]
    simp [zeros, chunks_nil]
  · rw [if_neg h0, Nat.mod_eq_of_lt (by omega)]
    exact chunks_single R hR _ (by simp [zeros_len]; omega) (by simp [zeros_len]; omega)

theorem chunks_take_succ (R : Nat) (hR : 0 < R) (y : Bytes) (q : Nat) (h : (q + 1) * R ≤ y.length) :
    chunks R (y.take ((q + 1) * R)) = y.take R :: chunks R ((y.drop R).take (q * R)) := by
  have e : (q + 1) * R = q * R + R := by rw [Nat.add_mul]; omega
  rw [e] at h ⊢
  rw [chunks_cons R hR _ (by rw [List.length_take]; omega), List.take_take, List.drop_take]
  congr 2
  · omega
  · rw [Nat.add_sub_cancel]

theorem mapBlocks_cons {σ : Type} (f : σ → Bytes → σ × Bytes) (S : σ) (b : Bytes) (bs : List Bytes) :
    mapBlocks f S (b :: bs) = ((mapBlocks f (f S b).1 bs).1, (f S b).2 ++ (mapBlocks f (f S b).1 bs).2) := by
  simp only [mapBlocks]

theorem mapBlocks_append {σ : Type} (f : σ → Bytes → σ × Bytes) : ∀ (xs ys : List Bytes) (S : σ),
    mapBlocks f S (xs ++ ys) =
      ((mapBlocks f (mapBlocks f S xs).1 ys).1, (mapBlocks f S xs).2 ++ (mapBlocks f (mapBlocks f S xs).1 ys).2)
  | [], ys, S => by simp [mapBlocks]
  | x :: xs, ys, S => by
    rw [List.cons_append, mapBlocks_cons, mapBlocks_cons, mapBlocks_append f xs ys]
    simp


/-! ### the per-block functions of a specification (rate `R`) and what it means for a `Variant`
    to implement them -/

structure Scheme (σ : Type) where
  R : Nat
  absorb : σ → Bytes → σ
  enc : σ → Bytes → σ × Bytes
  dec : σ → Bytes → σ × Bytes
  decPartial : σ → Bytes → σ × Bytes

namespace Scheme
variable {σ : Type} (Sc : Scheme σ)

/-- the associated-data phase of `Spec.Aegis.aegis*_encrypt/_decrypt` -/
def absorbAll (S : σ) (ad : Bytes) : σ := (chunks Sc.R (zeroPad ad Sc.R)).foldl Sc.absorb S

/-- the message phase of `Spec.Aegis.aegis*_encrypt` (state, ciphertext truncated to |msg|) -/
def encAll (S : σ) (msg : Bytes) : σ × Bytes :=
  let r := mapBlocks Sc.enc S (chunks Sc.R (zeroPad msg Sc.R))
  (r.1, r.2.take msg.length)

/-- the ciphertext phase of `Spec.Aegis.aegis*_decrypt` -/
def decAll (S : σ) (ct : Bytes) : σ × Bytes :=
  let full := ct.length / Sc.R * Sc.R
  let r := mapBlocks Sc.dec S (chunks Sc.R (ct.take full))
  let cn := ct.drop full
  if cn.isEmpty then r else
    let r' := Sc.decPartial r.1 cn
    (r'.1, r.2 ++ r'.2)

end Scheme

structure Refines {τ σ : Type} (V : Variant τ) (Sc : Scheme σ) (abs : τ → σ) : Prop where
  rate : V.RATE = Sc.R
  rate_val : Sc.R = 16 ∨ Sc.R = 32
  absorb : ∀ p st, Sc.R ≤ p.length → abs (V.absorb p st) = Sc.absorb (abs st) (p.take Sc.R)
  absorb2 : ∀ p st, V.absorb2 p st = V.absorb (p.drop Sc.R) (V.absorb p st)
  enc : ∀ p st, Sc.R ≤ p.length → (V.enc p st).1 = (Sc.enc (abs st) (p.take Sc.R)).2 ∧
    abs (V.enc p st).2 = (Sc.enc (abs st) (p.take Sc.R)).1
  dec : ∀ p st, Sc.R ≤ p.length → (V.dec p st).1 = (Sc.dec (abs st) (p.take Sc.R)).2 ∧
    abs (V.dec p st).2 = (Sc.dec (abs st) (p.take Sc.R)).1
  declast : ∀ p len st, 0 < len → len < Sc.R → len ≤ p.length →
    (V.declast p len st).1 = (Sc.decPartial (abs st) (p.take len)).2 ∧
    abs (V.declast p len st).2 = (Sc.decPartial (abs st) (p.take len)).1
  enc_len : ∀ p st, (V.enc p st).1.length = Sc.R
  dec_len : ∀ p st, (V.dec p st).1.length = Sc.R
  declast_len : ∀ p len st, 0 < len → len < Sc.R → len ≤ p.length → (V.declast p len st).1.length = len

section Loops
variable {τ σ : Type} {V : Variant τ} {Sc : Scheme σ} {abs : τ → σ}

theorem Refines.rpos (rf : Refines V Sc abs) : 0 < Sc.R := by
  rcases rf.rate_val with h | h <;> omega

theorem iter_absorb (rf : Refines V Sc abs) (ad : Bytes) : ∀ (q i : Nat) (st : τ), i + q * Sc.R ≤ ad.length →
    abs (iter Sc.R (fun i st => V.absorb (ad.drop i) st) q i st) =
      (chunks Sc.R ((ad.drop i).take (q * Sc.R))).foldl Sc.absorb (abs st)
  | 0, i, st, _ => by simp [iter, chunks_nil]
  | q + 1, i, st, h => by
    have e : (q + 1) * Sc.R = q * Sc.R + Sc.R := by rw [Nat.add_mul]; omega
    rw [iter, iter_absorb rf ad q (i + Sc.R) _ (by omega), chunks_take_succ Sc.R rf.rpos _ q (by simp; omega),
      List.foldl_cons, rf.absorb _ _ (by simp; omega), List.drop_drop]

theorem iter_absorb2 (rf : Refines V Sc abs) (ad : Bytes) : ∀ (q i : Nat) (st : τ),
    iter (Sc.R * 2) (fun i st => V.absorb2 (ad.drop i) st) q i st =
      iter Sc.R (fun i st => V.absorb (ad.drop i) st) (2 * q) i st
  | 0, i, st => by simp [iter]
  | q + 1, i, st => by
    have e : 2 * (q + 1) = 2 * q + 1 + 1 := by omega
    rw [iter, e, iter, iter, iter_absorb2 rf ad q, rf.absorb2, List.drop_drop]
    congr 1
    omega


theorem absorbAd_spec (rf : Refines V Sc abs) (ad : Bytes) (st : τ) :
    abs (absorbAd V ad st) = Sc.absorbAll (abs st) ad := by
  have habs := iter_absorb rf ad
  have h2 := iter_absorb2 rf ad
  have hab := rf.absorb
  have hpos := rf.rpos
  have hval := rf.rate_val
  simp only [absorbAd, rf.rate, Scheme.absorbAll]
  generalize Sc.R = R at *
  rw [forBlocks_eq (R * 2) ad.length (by omega) _ ad.length 0 st (by omega)]
  dsimp only
  rw [forBlocks_eq R ad.length hpos _ ad.length _ _ (by omega)]
  dsimp only
  rw [h2, Nat.sub_zero, Nat.zero_add]
  generalize hq2 : ad.length / (R * 2) = q2
  generalize hq1 : (ad.length - q2 * (R * 2)) / R = q1
  have hi1 : q2 * (R * 2) = 0 + (2 * q2) * R := by rcases hval with rfl | rfl <;> omega
  rw [hi1, ← iter_add R _ (2 * q2) q1 0 st]
  have hQ : (2 * q2 + q1) * R = ad.length / R * R := by
    subst hq1 hq2; rcases hval with rfl | rfl <;> omega
  have hi2 : 0 + 2 * q2 * R + q1 * R = ad.length / R * R := by rw [← hQ, Nat.add_mul]; omega
  have hfull : ad.length / R * R + ad.length % R = ad.length := Nat.div_add_mod' _ _
  have hr : ad.length % R < R := Nat.mod_lt _ hpos
  have hst := habs (2 * q2 + q1) 0 st (by rw [hQ]; omega)
  rw [hQ, List.drop_zero] at hst
  rw [chunks_zeroPad R hpos, List.foldl_append, hi2]
  by_cases h0 : ad.length % R = 0
  · simp only [h0, ne_eq, not_true_eq_false, if_false, if_true, List.foldl_nil]
    exact hst
  · have hlen : (ad.drop (ad.length / R * R)).length = ad.length % R := by rw [List.length_drop]; omega
    simp only [h0, ne_eq, not_false_eq_true, if_true, if_false, List.foldl_cons, List.foldl_nil]
    rw [memcpy_zeros, ← hlen, List.take_length, hlen, hab _ _ (by simp [zeros_len]; omega), hst]
    congr 1
    exact List.take_of_length_le (by rw [List.length_append, hlen, zeros_len]; omega)


/-- the `enc` / `dec` block loop against `mapBlocks` of the specification -/
theorem iter_blocks (R : Nat) (hR : 0 < R) (fC : Bytes → τ → Bytes × τ) (fS : σ → Bytes → σ × Bytes) (abs : τ → σ)
    (h : ∀ p st, R ≤ p.length → (fC p st).1 = (fS (abs st) (p.take R)).2 ∧ abs (fC p st).2 = (fS (abs st) (p.take R)).1)
    (hl : ∀ p st, (fC p st).1.length = R)
    (m : Bytes) : ∀ (q i : Nat) (st : τ) (acc : Bytes), i + q * R ≤ m.length →
      abs (iter R (fun i (sc : τ × Bytes) => ((fC (m.drop i) sc.1).2, sc.2 ++ (fC (m.drop i) sc.1).1)) q i (st, acc)).1 =
        (mapBlocks fS (abs st) (chunks R ((m.drop i).take (q * R)))).1 ∧
      (iter R (fun i (sc : τ × Bytes) => ((fC (m.drop i) sc.1).2, sc.2 ++ (fC (m.drop i) sc.1).1)) q i (st, acc)).2 =
        acc ++ (mapBlocks fS (abs st) (chunks R ((m.drop i).take (q * R)))).2 ∧
      (iter R (fun i (sc : τ × Bytes) => ((fC (m.drop i) sc.1).2, sc.2 ++ (fC (m.drop i) sc.1).1)) q i (st, acc)).2.length =
        acc.length + q * R
  | 0, i, st, acc, _ => by simp [iter, chunks_nil, mapBlocks]
  | q + 1, i, st, acc, hq => by
    have e : (q + 1) * R = q * R + R := by rw [Nat.add_mul]; omega
    have ih := iter_blocks R hR fC fS abs h hl m q (i + R) (fC (m.drop i) st).2 (acc ++ (fC (m.drop i) st).1) (by omega)
    have hb := h (m.drop i) st (by simp; omega)
    rw [iter, chunks_take_succ R hR _ q (by simp; omega), mapBlocks_cons, List.drop_drop]
    dsimp only
    refine ⟨by rw [ih.1, hb.2], by rw [ih.2.1, hb.2, hb.1]; simp, ?_⟩
    rw [ih.2.2, List.length_append, hl]; omega


theorem encMsg_spec (rf : Refines V Sc abs) (m : Bytes) (st : τ) :
    abs (encMsg V m st).1 = (Sc.encAll (abs st) m).1 ∧ (encMsg V m st).2 = (Sc.encAll (abs st) m).2 := by
  have hpos := rf.rpos
  have hit := iter_blocks Sc.R hpos V.enc Sc.enc abs rf.enc rf.enc_len m (m.length / Sc.R) 0 st []
    (by have := Nat.div_mul_le_self m.length Sc.R; omega)
  have henc := rf.enc
  have hencl := rf.enc_len
  simp only [encMsg, rf.rate, Scheme.encAll]
  generalize Sc.R = R at *
  rw [forBlocks_eq R m.length hpos _ m.length 0 (st, []) (by omega)]
  dsimp only
  rw [Nat.sub_zero, Nat.zero_add]
  rw [List.drop_zero, List.nil_append, List.length_nil, Nat.zero_add] at hit
  have hfull : m.length / R * R + m.length % R = m.length := Nat.div_add_mod' _ _
  have hr : m.length % R < R := Nat.mod_lt _ hpos
  rw [chunks_zeroPad R hpos, mapBlocks_append]
  generalize iter R _ (m.length / R) 0 (st, []) = r at hit ⊢
  obtain ⟨h1, h2, h3⟩ := hit
  rw [← h2, ← h1]
  by_cases h0 : m.length % R = 0
  · simp only [h0, ne_eq, not_true_eq_false, if_false, if_true, mapBlocks, List.append_nil]
    refine ⟨trivial, ?_⟩
    rw [List.take_of_length_le (by omega)]
  · have hlen : (m.drop (m.length / R * R)).length = m.length % R := by rw [List.length_drop]; omega
    have hblk : (m.drop (m.length / R * R) ++ zeros (R - m.length % R)).length = R := by
      rw [List.length_append, hlen, zeros_len]; omega
    simp only [h0, ne_eq, not_false_eq_true, if_true, if_false, mapBlocks, List.append_nil]
    rw [memcpy_zeros, ← hlen, List.take_length, hlen]
    have hb := henc _ r.1 (Nat.le_of_eq hblk.symm)
    rw [List.take_of_length_le (Nat.le_of_eq hblk)] at hb
    refine ⟨hb.2, ?_⟩
    rw [List.take_append, h3, hb.1, List.take_of_length_le (l := r.2) (by omega)]
    congr 2
    omega

theorem decMsg_spec (rf : Refines V Sc abs) (c : Bytes) (st : τ) :
    abs (decMsg V c st).1 = (Sc.decAll (abs st) c).1 ∧ (decMsg V c st).2 = (Sc.decAll (abs st) c).2 ∧
    (decMsg V c st).2.length = c.length := by
  have hpos := rf.rpos
  have hit := iter_blocks Sc.R hpos V.dec Sc.dec abs rf.dec rf.dec_len c (c.length / Sc.R) 0 st []
    (by have := Nat.div_mul_le_self c.length Sc.R; omega)
  have hdl := rf.declast
  have hdll := rf.declast_len
  simp only [decMsg, rf.rate, Scheme.decAll]
  generalize Sc.R = R at *
  rw [forBlocks_eq R c.length hpos _ c.length 0 (st, []) (by omega)]
  dsimp only
  rw [Nat.sub_zero, Nat.zero_add]
  rw [List.drop_zero, List.nil_append, List.length_nil, Nat.zero_add] at hit
  have hfull : c.length / R * R + c.length % R = c.length := Nat.div_add_mod' _ _
  have hr : c.length % R < R := Nat.mod_lt _ hpos
  generalize iter R _ (c.length / R) 0 (st, []) = r at hit ⊢
  obtain ⟨h1, h2, h3⟩ := hit
  have hlen : (c.drop (c.length / R * R)).length = c.length % R := by rw [List.length_drop]; omega
  by_cases h0 : c.length % R = 0
  · have : c.drop (c.length / R * R) = [] := List.eq_nil_of_length_eq_zero (by omega)
    simp only [h0, this, ne_eq, not_true_eq_false, if_false, List.isEmpty_nil, if_true]
    exact ⟨h1, h2, by omega⟩
  · have hne : (c.drop (c.length / R * R)).isEmpty = false := by
      cases hc : c.drop (c.length / R * R) with
      | nil => rw [hc] at hlen; simp at hlen; omega
      | cons _ _ => rfl
    have hd := hdl (c.drop (c.length / R * R)) (c.length % R) r.1 (by omega) hr (by omega)
    rw [← hlen, List.take_length, hlen] at hd
    simp only [h0, ne_eq, not_false_eq_true, if_true, hne, Bool.false_eq_true, if_false]
    rw [← h1, ← h2]
    refine ⟨hd.2, by rw [hd.1], ?_⟩
    rw [List.length_append, h3, hdll _ _ _ (by omega) hr (by omega)]; omega

end Loops

/-! ## Part 5: the two algorithms -/

def scheme128L : Scheme Aegis128L.State :=
  { R := 32, absorb := Aegis128L.absorb, enc := Aegis128L.enc, dec := Aegis128L.dec, decPartial := Aegis128L.decPartial }

def scheme256 : Scheme Aegis256.State :=
  { R := 16, absorb := Aegis256.absorb, enc := Aegis256.enc, dec := Aegis256.dec, decPartial := Aegis256.decPartial }

theorem refines128L {β : Type} {B : Backend β} (ok : BackendOk B) :
    Refines (Model.AegisRef.A128L.variant B) scheme128L (A128L.abs B) :=
  { rate := rfl
    rate_val := Or.inr rfl
    absorb := fun p st h => A128L.absorb_spec ok p st h
    absorb2 := fun p st => A128L.absorb2_eq p st
    enc := fun p st h => A128L.enc_spec ok p st h
    dec := fun p st h => A128L.dec_spec ok p st h
    declast := fun p len st h0 h1 hp => A128L.declast_spec ok p len st h0 h1 hp
    enc_len := fun p st => by
      simp [Model.AegisRef.A128L.variant, Model.AegisRef.A128L.aegis128l_enc, ok.store_len, scheme128L]
    dec_len := fun p st => by
      simp [Model.AegisRef.A128L.variant, Model.AegisRef.A128L.aegis128l_dec, ok.store_len, scheme128L]
    declast_len := fun p len st h0 h1 hp => by
      have h := (A128L.declast_spec ok p len st h0 h1 hp).1
      have h1' : len < 32 := h1
      simp only [Model.AegisRef.A128L.variant]
      rw [h]
      simp only [Aegis128L.decPartial, Aegis128L.z0, Aegis128L.z1, A128L.abs]
      rw [zeroPad_short _ _ (by simp; omega) (by simp; omega)]
      simp [xor_length, and_length, ok.store_len, zeros_len]
      omega }

theorem refines256 {β : Type} {B : Backend β} (ok : BackendOk B) :
    Refines (Model.AegisRef.A256.variant B) scheme256 (A256.abs B) :=
  { rate := rfl
    rate_val := Or.inl rfl
    absorb := fun p st h => A256.absorb_spec ok p st h
    absorb2 := fun p st => A256.absorb2_eq p st
    enc := fun p st h => A256.enc_spec ok p st h
    dec := fun p st h => A256.dec_spec ok p st h
    declast := fun p len st h0 h1 hp => A256.declast_spec ok p len st h0 h1 hp
    enc_len := fun p st => by
      simp [Model.AegisRef.A256.variant, Model.AegisRef.A256.aegis256_enc, ok.store_len, scheme256]
    dec_len := fun p st => by
      simp [Model.AegisRef.A256.variant, Model.AegisRef.A256.aegis256_dec, ok.store_len, scheme256]
    declast_len := fun p len st h0 h1 hp => by
      have h := (A256.declast_spec ok p len st h0 h1 hp).1
      have h1' : len < 16 := h1
      simp only [Model.AegisRef.A256.variant]
      rw [h]
      simp only [Aegis256.decPartial, Aegis256.z, A256.abs]
      rw [zeroPad_short _ _ (by simp; omega) (by simp; omega)]
      simp [xor_length, and_length, ok.store_len, zeros_len]
      omega }


/-! ## Part 6: `encrypt_detached` / `decrypt_detached` -/

/-- Encrypt of the draft with tag_len = 128 bits (Spec/Aegis.lean fixes 256) -/
def aegis128l_encrypt_tag16 (key nonce ad msg : Bytes) : Bytes × Bytes :=
  let S := scheme128L.absorbAll (Aegis128L.init key nonce) ad
  let r := scheme128L.encAll S msg
  (r.2, finalize128L_16 r.1 (8 * ad.length) (8 * msg.length))

def aegis256_encrypt_tag16 (key nonce ad msg : Bytes) : Bytes × Bytes :=
  let S := scheme256.absorbAll (Aegis256.init key nonce) ad
  let r := scheme256.encAll S msg
  (r.2, finalize256_16 r.1 (8 * ad.length) (8 * msg.length))

/-- Decrypt of the draft with tag_len = 128 bits -/
def aegis128l_decrypt_tag16 (key nonce ad ct tag : Bytes) : Option Bytes :=
  let S := scheme128L.absorbAll (Aegis128L.init key nonce) ad
  let r := scheme128L.decAll S ct
  if tag = finalize128L_16 r.1 (8 * ad.length) (8 * r.2.length) then some r.2 else none

def aegis256_decrypt_tag16 (key nonce ad ct tag : Bytes) : Option Bytes :=
  let S := scheme256.absorbAll (Aegis256.init key nonce) ad
  let r := scheme256.decAll S ct
  if tag = finalize256_16 r.1 (8 * ad.length) (8 * r.2.length) then some r.2 else none

theorem spec128L_encrypt (key nonce ad msg : Bytes) : aegis128l_encrypt key nonce ad msg =
    ((scheme128L.encAll (scheme128L.absorbAll (Aegis128L.init key nonce) ad) msg).2,
     Aegis128L.finalize (scheme128L.encAll (scheme128L.absorbAll (Aegis128L.init key nonce) ad) msg).1
       (8 * ad.length) (8 * msg.length)) := by
  simp only [aegis128l_encrypt, Scheme.encAll, Scheme.absorbAll, scheme128L]

theorem spec256_encrypt (key nonce ad msg : Bytes) : aegis256_encrypt key nonce ad msg =
    ((scheme256.encAll (scheme256.absorbAll (Aegis256.init key nonce) ad) msg).2,
     Aegis256.finalize (scheme256.encAll (scheme256.absorbAll (Aegis256.init key nonce) ad) msg).1
       (8 * ad.length) (8 * msg.length)) := by
  simp only [aegis256_encrypt, Scheme.encAll, Scheme.absorbAll, scheme256]

theorem decrypt_shape {σ : Type} (Sc : Scheme σ) (fin : σ → Nat → Nat → Bytes) (S : σ) (ct tag : Bytes) (adl : Nat) :
    (let full := ct.length / Sc.R * Sc.R
     let (S, msg) := mapBlocks Sc.dec S (chunks Sc.R (ct.take full))
     let cn := ct.drop full
     let (S, msg) := if cn.isEmpty then (S, msg) else
       let (S', xn) := Sc.decPartial S cn
       (S', msg ++ xn)
     let expected := fin S adl (8 * msg.length)
     if tag = expected then some msg else none) =
    (let r := Sc.decAll S ct
     if tag = fin r.1 adl (8 * r.2.length) then some r.2 else none) := by
  simp only [Scheme.decAll]

theorem spec128L_decrypt (key nonce ad ct tag : Bytes) : aegis128l_decrypt key nonce ad ct tag =
    (let r := scheme128L.decAll (scheme128L.absorbAll (Aegis128L.init key nonce) ad) ct
     if tag = Aegis128L.finalize r.1 (8 * ad.length) (8 * r.2.length) then some r.2 else none) :=
  decrypt_shape scheme128L Aegis128L.finalize (scheme128L.absorbAll (Aegis128L.init key nonce) ad) ct tag (8 * ad.length)

theorem spec256_decrypt (key nonce ad ct tag : Bytes) : aegis256_decrypt key nonce ad ct tag =
    (let r := scheme256.decAll (scheme256.absorbAll (Aegis256.init key nonce) ad) ct
     if tag = Aegis256.finalize r.1 (8 * ad.length) (8 * r.2.length) then some r.2 else none) :=
  decrypt_shape scheme256 Aegis256.finalize (scheme256.absorbAll (Aegis256.init key nonce) ad) ct tag (8 * ad.length)


section Generic
variable {τ σ : Type} {V : Variant τ} {Sc : Scheme σ} {abs : τ → σ}

theorem encrypt_detached_gen (rf : Refines V Sc abs) (maclen : Nat) (m ad n k : Bytes) (S0 : σ)
    (fin : σ → Int32 × Bytes) (hinit : abs (V.init k n) = S0)
    (hmac : ∀ st, V.mac maclen (UInt64.ofNat ad.length) (UInt64.ofNat m.length) st = fin (abs st)) :
    encrypt_detached V maclen m ad n k =
      ((fin (Sc.encAll (Sc.absorbAll S0 ad) m).1).1, (Sc.encAll (Sc.absorbAll S0 ad) m).2,
       (fin (Sc.encAll (Sc.absorbAll S0 ad) m).1).2) := by
  have ha := absorbAd_spec rf ad (V.init k n)
  have he := encMsg_spec rf m (absorbAd V ad (V.init k n))
  simp only [encrypt_detached, hmac]
  rw [he.1, he.2, ha, hinit]

/-- the part of `decrypt_detached` after the MAC has been computed -/
def decFinish (wantM : Bool) (maclen : Nat) (mac : Bytes) (mlen : Nat) (m : Bytes) (f : Int32 × Bytes) : Int32 × Option Bytes :=
  let ret : Int32 :=
    if f.1 = 0 then
      if maclen = 16 then Sodium.Model.verify_n_sse2 1 f.2 mac
      else if maclen = 32 then Sodium.Model.verify_n_sse2 2 f.2 mac
      else -1
    else -1
  if ret ≠ 0 ∧ wantM then (ret, some (zeros mlen))
  else (ret, if wantM then some m else none)

theorem decrypt_detached_gen (rf : Refines V Sc abs) (wantM : Bool) (maclen : Nat) (c mac ad n k : Bytes) (S0 : σ)
    (fin : σ → Int32 × Bytes) (hinit : abs (V.init k n) = S0)
    (hmac : ∀ st, V.mac maclen (UInt64.ofNat ad.length) (UInt64.ofNat c.length) st = fin (abs st)) :
    decrypt_detached V wantM c mac maclen ad n k =
      decFinish wantM maclen mac c.length (Sc.decAll (Sc.absorbAll S0 ad) c).2 (fin (Sc.decAll (Sc.absorbAll S0 ad) c).1) ∧
    (Sc.decAll (Sc.absorbAll S0 ad) c).2.length = c.length ∧
    ∃ st, (Sc.decAll (Sc.absorbAll S0 ad) c).1 = abs st := by
  have ha := absorbAd_spec rf ad (V.init k n)
  have hd := decMsg_spec rf c (absorbAd V ad (V.init k n))
  simp only [decrypt_detached, hmac, decFinish]
  have hl := hd.2.2
  have h1 := hd.1
  rw [hd.2.1, ha, hinit] at hl
  rw [ha, hinit] at h1
  rw [hd.2.1, hd.1, ha, hinit]
  exact ⟨rfl, hl, _, h1.symm⟩

end Generic

/-- what `decrypt_detached` returns, given the specification's verdict -/
def decOutcome (wantM : Bool) (clen : Nat) : Option Bytes → Int32 × Option Bytes
  | some m => (0, if wantM then some m else none)
  | none => (-1, if wantM then some (zeros clen) else none)

theorem decFinish_outcome (wantM : Bool) (maclen : Nat) (hml : maclen = 16 ∨ maclen = 32) (mac m tag : Bytes) (clen : Nat)
    (hmac : mac.length = maclen) (htag : tag.length = maclen) :
    decFinish wantM maclen mac clen m (0, tag) = decOutcome wantM clen (if mac = tag then some m else none) := by
  have hv : (if maclen = 16 then Sodium.Model.verify_n_sse2 1 tag mac
      else if maclen = 32 then Sodium.Model.verify_n_sse2 2 tag mac else -1) = if tag = mac then (0 : Int32) else -1 := by
    rcases hml with h | h
    · rw [if_pos h]; exact Sodium.verify_n_sse2_spec 1 (by decide) _ _ (by omega) (by omega)
    · rw [if_neg (by omega), if_pos h]; exact Sodium.verify_n_sse2_spec 2 (by decide) _ _ (by omega) (by omega)
  simp only [decFinish, if_true, hv]
  by_cases he : tag = mac
  · subst he; cases wantM <;> simp [decOutcome]
  · have he' : ¬ mac = tag := fun h => he h.symm
    cases wantM <;> simp [decOutcome, he, he']

namespace A128L
open Sodium.Model.AegisRef.A128L
variable {β : Type} {B : Backend β}

theorem mac_len (ok : BackendOk B) (maclen : Nat) (a m : UInt64) (st : State β) :
    (aegis128l_mac B maclen a m st).2.length = maclen := by
  simp only [aegis128l_mac]
  split
  · simp [ok.store_len, *]
  · split <;> simp [ok.store_len, zeros_len, *]

end A128L

namespace A256
open Sodium.Model.AegisRef.A256
variable {β : Type} {B : Backend β}

theorem mac_len (ok : BackendOk B) (maclen : Nat) (a m : UInt64) (st : State β) :
    (aegis256_mac B maclen a m st).2.length = maclen := by
  simp only [aegis256_mac]
  split
  · simp [ok.store_len, *]
  · split <;> simp [ok.store_len, zeros_len, *]

end A256

section Top
variable {β : Type} {B : Backend β}

/-- Finalize of the draft for either tag length; any other `maclen` is the C code's error path -/
def fin128L (maclen a m : Nat) (S : Aegis128L.State) : Int32 × Bytes :=
  if maclen = 16 then (0, finalize128L_16 S (8 * a) (8 * m))
  else if maclen = 32 then (0, Aegis128L.finalize S (8 * a) (8 * m)) else (-1, zeros maclen)

def fin256 (maclen a m : Nat) (S : Aegis256.State) : Int32 × Bytes :=
  if maclen = 16 then (0, finalize256_16 S (8 * a) (8 * m))
  else if maclen = 32 then (0, Aegis256.finalize S (8 * a) (8 * m)) else (-1, zeros maclen)

theorem mac128L (ok : BackendOk B) (maclen a m : Nat) (ha : a < 2 ^ 61) (hm : m < 2 ^ 61) (st : A128L.State β) :
    (A128L.variant B).mac maclen (UInt64.ofNat a) (UInt64.ofNat m) st =
      fin128L maclen a m (A128L.abs B st) :=
  A128L.mac_spec ok maclen a m st ha hm

theorem mac256 (ok : BackendOk B) (maclen a m : Nat) (ha : a < 2 ^ 61) (hm : m < 2 ^ 61) (st : A256.State β) :
    (A256.variant B).mac maclen (UInt64.ofNat a) (UInt64.ofNat m) st =
      fin256 maclen a m (A256.abs B st) :=
  A256.mac_spec ok maclen a m st ha hm

/-- AEGIS-128L `encrypt_detached`, every tag length -/
theorem encrypt_detached_128L (ok : BackendOk B) (maclen : Nat) (m ad n k : Bytes) (hk : k.length = 16) (hn : n.length = 16)
    (hm : m.length < 2 ^ 61) (ha : ad.length < 2 ^ 61) :
    encrypt_detached (A128L.variant B) maclen m ad n k =
      if maclen = 16 then (0, (aegis128l_encrypt_tag16 k n ad m).1, (aegis128l_encrypt_tag16 k n ad m).2)
      else if maclen = 32 then (0, (aegis128l_encrypt k n ad m).1, (aegis128l_encrypt k n ad m).2)
      else (-1, (aegis128l_encrypt k n ad m).1, zeros maclen) := by
  rw [encrypt_detached_gen (refines128L ok) maclen m ad n k _ (fin128L maclen ad.length m.length)
    (A128L.init_spec ok k n hk hn) (mac128L ok maclen ad.length m.length ha hm), spec128L_encrypt]
  simp only [aegis128l_encrypt_tag16, fin128L]
  by_cases h16 : maclen = 16
  · simp only [if_pos h16]
  · by_cases h32 : maclen = 32
    · simp only [if_neg h16, if_pos h32]
    · simp only [if_neg h16, if_neg h32]

theorem encrypt_detached_256 (ok : BackendOk B) (maclen : Nat) (m ad n k : Bytes) (hk : k.length = 32) (hn : n.length = 32)
    (hm : m.length < 2 ^ 61) (ha : ad.length < 2 ^ 61) :
    encrypt_detached (A256.variant B) maclen m ad n k =
      if maclen = 16 then (0, (aegis256_encrypt_tag16 k n ad m).1, (aegis256_encrypt_tag16 k n ad m).2)
      else if maclen = 32 then (0, (aegis256_encrypt k n ad m).1, (aegis256_encrypt k n ad m).2)
      else (-1, (aegis256_encrypt k n ad m).1, zeros maclen) := by
  rw [encrypt_detached_gen (refines256 ok) maclen m ad n k _ (fin256 maclen ad.length m.length)
    (A256.init_spec ok k n hk hn) (mac256 ok maclen ad.length m.length ha hm), spec256_encrypt]
  simp only [aegis256_encrypt_tag16, fin256]
  by_cases h16 : maclen = 16
  · simp only [if_pos h16]
  · by_cases h32 : maclen = 32
    · simp only [if_neg h16, if_pos h32]
    · simp only [if_neg h16, if_neg h32]


/-- the draft's Decrypt for tag length `maclen` ∈ {16, 32} -/
def specDecrypt128L (maclen : Nat) (k n ad c mac : Bytes) : Option Bytes :=
  if maclen = 16 then aegis128l_decrypt_tag16 k n ad c mac else aegis128l_decrypt k n ad c mac
def specDecrypt256 (maclen : Nat) (k n ad c mac : Bytes) : Option Bytes :=
  if maclen = 16 then aegis256_decrypt_tag16 k n ad c mac else aegis256_decrypt k n ad c mac

theorem fin128L_len (ok : BackendOk B) (maclen a m : Nat) (ha : a < 2 ^ 61) (hm : m < 2 ^ 61) (st : A128L.State β) :
    (fin128L maclen a m (A128L.abs B st)).2.length = maclen := by
  rw [← mac128L ok maclen a m ha hm st]; exact A128L.mac_len ok _ _ _ _

theorem fin256_len (ok : BackendOk B) (maclen a m : Nat) (ha : a < 2 ^ 61) (hm : m < 2 ^ 61) (st : A256.State β) :
    (fin256 maclen a m (A256.abs B st)).2.length = maclen := by
  rw [← mac256 ok maclen a m ha hm st]; exact A256.mac_len ok _ _ _ _

/-- AEGIS-128L `decrypt_detached`, tag lengths 16 and 32 -/
theorem decrypt_detached_128L (ok : BackendOk B) (wantM : Bool) (maclen : Nat) (hml : maclen = 16 ∨ maclen = 32)
    (c mac ad n k : Bytes) (hk : k.length = 16) (hn : n.length = 16) (hmac : mac.length = maclen)
    (hc : c.length < 2 ^ 61) (ha : ad.length < 2 ^ 61) :
    decrypt_detached (A128L.variant B) wantM c mac maclen ad n k =
      decOutcome wantM c.length (specDecrypt128L maclen k n ad c mac) := by
  obtain ⟨h1, h2, st, h3⟩ := decrypt_detached_gen (refines128L ok) wantM maclen c mac ad n k _
    (fin128L maclen ad.length c.length) (A128L.init_spec ok k n hk hn) (mac128L ok maclen ad.length c.length ha hc)
  have hlen := fin128L_len ok maclen ad.length c.length ha hc st
  rw [← h3] at hlen
  rw [h1]
  simp only [specDecrypt128L, aegis128l_decrypt_tag16, spec128L_decrypt, h2]
  rcases hml with h | h
  · simp only [fin128L, if_pos h] at hlen ⊢
    exact decFinish_outcome wantM maclen (Or.inl h) mac _ _ _ hmac hlen
  · have h16 : ¬ maclen = 16 := by omega
    simp only [fin128L, if_neg h16, if_pos h] at hlen ⊢
    exact decFinish_outcome wantM maclen (Or.inr h) mac _ _ _ hmac hlen

theorem decrypt_detached_256 (ok : BackendOk B) (wantM : Bool) (maclen : Nat) (hml : maclen = 16 ∨ maclen = 32)
    (c mac ad n k : Bytes) (hk : k.length = 32) (hn : n.length = 32) (hmac : mac.length = maclen)
    (hc : c.length < 2 ^ 61) (ha : ad.length < 2 ^ 61) :
    decrypt_detached (A256.variant B) wantM c mac maclen ad n k =
      decOutcome wantM c.length (specDecrypt256 maclen k n ad c mac) := by
  obtain ⟨h1, h2, st, h3⟩ := decrypt_detached_gen (refines256 ok) wantM maclen c mac ad n k _
    (fin256 maclen ad.length c.length) (A256.init_spec ok k n hk hn) (mac256 ok maclen ad.length c.length ha hc)
  have hlen := fin256_len ok maclen ad.length c.length ha hc st
  rw [← h3] at hlen
  rw [h1]
  simp only [specDecrypt256, aegis256_decrypt_tag16, spec256_decrypt, h2]
  rcases hml with h | h
  · simp only [fin256, if_pos h] at hlen ⊢
    exact decFinish_outcome wantM maclen (Or.inl h) mac _ _ _ hmac hlen
  · have h16 : ¬ maclen = 16 := by omega
    simp only [fin256, if_neg h16, if_pos h] at hlen ⊢
    exact decFinish_outcome wantM maclen (Or.inr h) mac _ _ _ hmac hlen

/-- any other tag length: `decrypt_detached` fails -/
theorem decrypt_detached_other {τ : Type} (V : Variant τ) (wantM : Bool) (maclen : Nat) (h16 : maclen ≠ 16) (h32 : maclen ≠ 32)
    (c mac ad n k : Bytes) :
    decrypt_detached V wantM c mac maclen ad n k = (-1, if wantM then some (zeros c.length) else none) := by
  simp only [decrypt_detached, if_neg h16, if_neg h32]
  cases wantM <;> simp

end Top

/-! ## Part 7: failure output, wrappers -/

theorem finish_fail (ret : Int32) (w : Bool) (z m : Bytes) :
    (if ret ≠ 0 ∧ w then (ret, some z) else (ret, if w then some m else none)).1 ≠ 0 →
    (if ret ≠ 0 ∧ w then (ret, some z) else (ret, if w then some m else none)).2 = if w then some z else none := by
  cases w <;> by_cases h : ret = 0 <;> simp [h]

theorem decrypt_detached_fail {τ : Type} (V : Variant τ) (wantM : Bool) (c mac : Bytes) (maclen : Nat)
    (ad npub k : Bytes) (h : (decrypt_detached V wantM c mac maclen ad npub k).1 ≠ 0) :
    (decrypt_detached V wantM c mac maclen ad npub k).2 = if wantM then some (zeros c.length) else none :=
  finish_fail _ wantM _ _ h

theorem msgmax : MESSAGEBYTES_MAX = 2 ^ 61 - 1 := by decide


section Wrap
variable {β : Type} {B : Backend β}

theorem wrap_encrypt_detached_128L (ok : BackendOk B) (m ad n k : Bytes) (hk : k.length = 16) (hn : n.length = 16) :
    crypto_aead_encrypt_detached (A128L.variant B) m ad n k =
      if m.length > 2 ^ 61 - 1 ∨ ad.length > 2 ^ 61 - 1 then .misuse
      else .done 0 (aegis128l_encrypt k n ad m).1 (aegis128l_encrypt k n ad m).2 32 := by
  simp only [crypto_aead_encrypt_detached, msgmax, ABYTES]
  by_cases h : m.length > 2 ^ 61 - 1 ∨ ad.length > 2 ^ 61 - 1
  · rw [if_pos h, if_pos h]
  · rw [if_neg h, if_neg h, encrypt_detached_128L ok 32 m ad n k hk hn (by omega) (by omega)]
    rfl

theorem wrap_encrypt_detached_256 (ok : BackendOk B) (m ad n k : Bytes) (hk : k.length = 32) (hn : n.length = 32) :
    crypto_aead_encrypt_detached (A256.variant B) m ad n k =
      if m.length > 2 ^ 61 - 1 ∨ ad.length > 2 ^ 61 - 1 then .misuse
      else .done 0 (aegis256_encrypt k n ad m).1 (aegis256_encrypt k n ad m).2 32 := by
  simp only [crypto_aead_encrypt_detached, msgmax, ABYTES]
  by_cases h : m.length > 2 ^ 61 - 1 ∨ ad.length > 2 ^ 61 - 1
  · rw [if_pos h, if_pos h]
  · rw [if_neg h, if_neg h, encrypt_detached_256 ok 32 m ad n k hk hn (by omega) (by omega)]
    rfl

theorem wrap_decrypt_detached_128L (ok : BackendOk B) (w : Bool) (c mac ad n k : Bytes) (hk : k.length = 16)
    (hn : n.length = 16) (hmac : mac.length = 32) :
    crypto_aead_decrypt_detached (A128L.variant B) w c mac ad n k =
      if c.length > 2 ^ 61 - 1 ∨ ad.length > 2 ^ 61 - 1 then (-1, none)
      else decOutcome w c.length (aegis128l_decrypt k n ad c mac) := by
  simp only [crypto_aead_decrypt_detached, msgmax, ABYTES]
  by_cases h : c.length > 2 ^ 61 - 1 ∨ ad.length > 2 ^ 61 - 1
  · rw [if_pos h, if_pos h]
  · rw [if_neg h, if_neg h, decrypt_detached_128L ok w 32 (Or.inr rfl) c mac ad n k hk hn hmac (by omega) (by omega)]
    rfl

theorem wrap_decrypt_detached_256 (ok : BackendOk B) (w : Bool) (c mac ad n k : Bytes) (hk : k.length = 32)
    (hn : n.length = 32) (hmac : mac.length = 32) :
    crypto_aead_decrypt_detached (A256.variant B) w c mac ad n k =
      if c.length > 2 ^ 61 - 1 ∨ ad.length > 2 ^ 61 - 1 then (-1, none)
      else decOutcome w c.length (aegis256_decrypt k n ad c mac) := by
  simp only [crypto_aead_decrypt_detached, msgmax, ABYTES]
  by_cases h : c.length > 2 ^ 61 - 1 ∨ ad.length > 2 ^ 61 - 1
  · rw [if_pos h, if_pos h]
  · rw [if_neg h, if_neg h, decrypt_detached_256 ok w 32 (Or.inr rfl) c mac ad n k hk hn hmac (by omega) (by omega)]
    rfl

end Wrap

/-! ## Part 8: round trip -/

theorem chunks_all_len (R : Nat) (hR : 0 < R) : ∀ (q : Nat) (a : Bytes), a.length = q * R →
    (∀ b ∈ chunks R a, b.length = R) ∧ (chunks R a).flatten = a ∧ (chunks R a).length = q
  | 0, a, h => by
    have : a = [] := List.eq_nil_of_length_eq_zero (by simpa using h)
    subst this; simp [chunks_nil]
  | q + 1, a, h => by
    have e : (q + 1) * R = q * R + R := by rw [Nat.add_mul]; omega
    have ih := chunks_all_len R hR q (a.drop R) (by rw [List.length_drop, h, e]; omega)
    rw [chunks_cons R hR a (by omega)]
    refine ⟨?_, ?_, ?_⟩
    · intro b hb
      rcases List.mem_cons.1 hb with rfl | hb
      · rw [List.length_take]; omega
      · exact ih.1 b hb
    · rw [List.flatten_cons, ih.2.1, List.take_append_drop]
    · rw [List.length_cons, ih.2.2]

structure RoundTrip {τ σ : Type} (Sc : Scheme σ) (abs : τ → σ) : Prop where
  full : ∀ st b, b.length = Sc.R → Sc.dec (abs st) (Sc.enc (abs st) b).2 = ((Sc.enc (abs st) b).1, b)
  part : ∀ st x, 0 < x.length → x.length < Sc.R →
    Sc.decPartial (abs st) ((Sc.enc (abs st) (x ++ zeros (Sc.R - x.length))).2.take x.length) =
      ((Sc.enc (abs st) (x ++ zeros (Sc.R - x.length))).1, x)

section RT
variable {τ σ : Type} {V : Variant τ} {Sc : Scheme σ} {abs : τ → σ}

theorem enc_block (rf : Refines V Sc abs) (st : τ) (b : Bytes) (hb : b.length = Sc.R) :
    (Sc.enc (abs st) b).2.length = Sc.R ∧ ∃ st', (Sc.enc (abs st) b).1 = abs st' := by
  have h := rf.enc b st (Nat.le_of_eq hb.symm)
  rw [List.take_of_length_le (Nat.le_of_eq hb)] at h
  exact ⟨by rw [← h.1]; exact rf.enc_len _ _, _, h.2.symm⟩

theorem rt_blocks (rf : Refines V Sc abs) (rt : RoundTrip Sc abs) : ∀ (bs : List Bytes), (∀ b ∈ bs, b.length = Sc.R) →
    ∀ st : τ, (mapBlocks Sc.enc (abs st) bs).2.length = bs.length * Sc.R ∧
      (∃ st', (mapBlocks Sc.enc (abs st) bs).1 = abs st') ∧
      mapBlocks Sc.dec (abs st) (chunks Sc.R (mapBlocks Sc.enc (abs st) bs).2) =
        ((mapBlocks Sc.enc (abs st) bs).1, bs.flatten)
  | [], _, st => by
    refine ⟨by simp [mapBlocks], ⟨st, by simp [mapBlocks]⟩, by simp [mapBlocks, chunks_nil]⟩
  | b :: bs, hl, st => by
    have hb : b.length = Sc.R := hl b (List.mem_cons_self)
    obtain ⟨ho, st1, hs1⟩ := enc_block rf st b hb
    have ih := rt_blocks rf rt bs (fun x hx => hl x (List.mem_cons_of_mem _ hx)) st1
    have hpos := rf.rpos
    rw [mapBlocks_cons, hs1]
    dsimp only
    refine ⟨?_, ih.2.1, ?_⟩
    · rw [List.length_append, ho, ih.1, List.length_cons, Nat.add_mul]; omega
    · rw [chunks_cons Sc.R hpos _ (by rw [List.length_append]; omega),
        List.take_left' ho, List.drop_left' ho, mapBlocks_cons, rt.full st b hb, hs1]
      dsimp only
      rw [ih.2.2, List.flatten_cons]


theorem decAll_split (Sc : Scheme σ) (_hpos : 0 < Sc.R) (S : σ) (a t : Bytes) (q : Nat) (ha : a.length = q * Sc.R)
    (ht : t.length < Sc.R) :
    Sc.decAll S (a ++ t) =
      if t.isEmpty then mapBlocks Sc.dec S (chunks Sc.R a)
      else ((Sc.decPartial (mapBlocks Sc.dec S (chunks Sc.R a)).1 t).1,
            (mapBlocks Sc.dec S (chunks Sc.R a)).2 ++ (Sc.decPartial (mapBlocks Sc.dec S (chunks Sc.R a)).1 t).2) := by
  have hq : (a ++ t).length / Sc.R = q :=
    Nat.div_eq_of_lt_le (by rw [List.length_append]; omega) (by rw [List.length_append, Nat.add_mul]; omega)
  simp only [Scheme.decAll]
  rw [hq, ← ha, List.take_left, List.drop_left]

theorem roundtrip_gen (rf : Refines V Sc abs) (rt : RoundTrip Sc abs) (m : Bytes) (st : τ) :
    Sc.decAll (abs st) (Sc.encAll (abs st) m).2 = ((Sc.encAll (abs st) m).1, m) := by
  have hpos := rf.rpos
  have hfull : m.length / Sc.R * Sc.R + m.length % Sc.R = m.length := Nat.div_add_mod' _ _
  have hr : m.length % Sc.R < Sc.R := Nat.mod_lt _ hpos
  have htl : (m.take (m.length / Sc.R * Sc.R)).length = m.length / Sc.R * Sc.R := by rw [List.length_take]; omega
  obtain ⟨hall, hflat, hcnt⟩ := chunks_all_len Sc.R hpos (m.length / Sc.R) _ htl
  obtain ⟨hAl, ⟨st1, hA1⟩, hAd⟩ := rt_blocks rf rt (chunks Sc.R (m.take (m.length / Sc.R * Sc.R))) hall st
  rw [hcnt] at hAl
  rw [hflat] at hAd
  simp only [Scheme.encAll]
  rw [chunks_zeroPad Sc.R hpos, mapBlocks_append]
  generalize mapBlocks Sc.enc (abs st) (chunks Sc.R (m.take (m.length / Sc.R * Sc.R))) = A at hAl hA1 hAd ⊢
  dsimp only
  by_cases h0 : m.length % Sc.R = 0
  · have hlen : m.length / Sc.R * Sc.R = m.length := by omega
    rw [if_pos h0]
    simp only [mapBlocks, List.append_nil]
    rw [List.take_of_length_le (by omega)]
    have := decAll_split Sc hpos (abs st) A.2 [] _ hAl (by simpa using hpos)
    rw [List.append_nil] at this
    rw [this, hAd, hlen, List.take_length]
    rfl
  · have hx : (m.drop (m.length / Sc.R * Sc.R)).length = m.length % Sc.R := by rw [List.length_drop]; omega
    have hblk : (m.drop (m.length / Sc.R * Sc.R) ++ zeros (Sc.R - m.length % Sc.R)).length = Sc.R := by
      rw [List.length_append, hx, zeros_len]; omega
    rw [if_neg h0]
    simp only [mapBlocks, List.append_nil]
    rw [hA1] at hAd ⊢
    obtain ⟨hol, -⟩ := enc_block rf st1 _ hblk
    have hp := rt.part st1 (m.drop (m.length / Sc.R * Sc.R)) (by omega) (by omega)
    rw [hx] at hp
    rw [List.take_append, hAl, List.take_of_length_le (l := A.2) (by omega)]
    have e : m.length - m.length / Sc.R * Sc.R = m.length % Sc.R := by omega
    rw [e, decAll_split Sc hpos (abs st) A.2 _ _ hAl (by rw [List.length_take]; omega), hAd]
    have hne : (List.take (m.length % Sc.R) (Sc.enc (abs st1) (m.drop (m.length / Sc.R * Sc.R) ++
        zeros (Sc.R - m.length % Sc.R))).2).isEmpty = false := by
      rw [List.isEmpty_eq_false_iff, ← List.length_pos_iff, List.length_take]; omega
    rw [hne]
    simp only [Bool.false_eq_true, if_false]
    rw [hp, List.take_append_drop]

end RT

theorem xor_cancel : ∀ a k : Bytes, a.length ≤ k.length → xorBytes (xorBytes a k) k = a
  | [], k, _ => by cases k <;> simp [xorBytes]
  | _ :: _, [], h => by simp at h
  | x :: a, y :: k, h => by
    simp only [xorBytes, xor_cancel a k (by simpa using h), UInt8.xor_assoc, UInt8.xor_self, UInt8.xor_zero]

theorem xor_take : ∀ (n : Nat) (a b : Bytes), (xorBytes a b).take n = xorBytes (a.take n) (b.take n)
  | 0, _, _ => by simp [xorBytes]
  | _ + 1, [], b => by cases b <;> simp [xorBytes]
  | _ + 1, _ :: _, [] => by simp [xorBytes]
  | n + 1, x :: a, y :: b => by simp [xorBytes, xor_take n a b]

theorem xor_append : ∀ a b c d : Bytes, a.length = c.length →
    xorBytes (a ++ b) (c ++ d) = xorBytes a c ++ xorBytes b d
  | [], b, [], d, _ => by simp [xorBytes]
  | [], _, _ :: _, _, h => by simp at h
  | _ :: _, _, [], _, h => by simp at h
  | x :: a, b, y :: c, d, h => by
    simp only [List.cons_append, xorBytes, xor_append a b c d (by simpa using h)]

theorem rt256 {β : Type} {B : Backend β} (ok : BackendOk B) : RoundTrip scheme256 (A256.abs B) := by
  have hz : ∀ st : Model.AegisRef.A256.State β, (Aegis256.z (A256.abs B st)).length = 16 := by
    intro st; simp [Aegis256.z, A256.abs, xor_length, and_length, ok.store_len]
  constructor
  · intro st b hb
    have hb' : b.length = 16 := hb
    simp only [scheme256, Aegis256.dec, Aegis256.enc]
    rw [xor_cancel _ _ (by rw [hz]; omega)]
  · intro st x h0 h1
    have h1' : x.length < 16 := h1
    simp only [scheme256, Aegis256.decPartial, Aegis256.enc]
    generalize hZ : Aegis256.z (A256.abs B st) = Z
    have hzl : Z.length = 16 := by rw [← hZ]; exact hz st
    have hcnv : List.take x.length (xorBytes (x ++ zeros (16 - x.length)) Z) = xorBytes x (Z.take x.length) := by
      rw [xor_take, List.take_left]
    have hcl : (xorBytes x (Z.take x.length)).length = x.length := by
      rw [xor_length, List.length_take]; omega
    have hzp : zeroPad (xorBytes x (Z.take x.length)) 16 = xorBytes x (Z.take x.length) ++ zeros (16 - x.length) := by
      rw [zeroPad_short _ _ (by rw [hcl]; omega) (by rw [hcl]; omega), hcl]
    have hxn : List.take x.length (xorBytes (xorBytes x (Z.take x.length) ++ zeros (16 - x.length)) Z) = x := by
      rw [xor_take, List.take_left' hcl, xor_cancel _ _ (by rw [List.length_take]; omega)]
    rw [hcnv, hcl, hzp, hxn, zeroPad_short x 16 h0 h1']


theorem xor_split16 (a z0 z1 : Bytes) (ha : 16 ≤ a.length) (hz : z0.length = 16) :
    xorBytes (a.take 16) z0 ++ xorBytes (a.drop 16) z1 = xorBytes a (z0 ++ z1) := by
  rw [← xor_append _ _ _ _ (by rw [List.length_take, hz]; omega), List.take_append_drop]

theorem rt128L {β : Type} {B : Backend β} (ok : BackendOk B) : RoundTrip scheme128L (A128L.abs B) := by
  have hz0 : ∀ st : Model.AegisRef.A128L.State β, (Aegis128L.z0 (A128L.abs B st)).length = 16 := by
    intro st; simp [Aegis128L.z0, A128L.abs, xor_length, and_length, ok.store_len]
  have hz1 : ∀ st : Model.AegisRef.A128L.State β, (Aegis128L.z1 (A128L.abs B st)).length = 16 := by
    intro st; simp [Aegis128L.z1, A128L.abs, xor_length, and_length, ok.store_len]
  constructor
  · intro st b hb
    have hb' : b.length = 32 := hb
    simp only [scheme128L, Aegis128L.dec, Aegis128L.enc]
    have hl0 : (xorBytes (b.take 16) (Aegis128L.z0 (A128L.abs B st))).length = 16 := by
      rw [xor_length, List.length_take, hz0]; omega
    rw [List.take_left' hl0, List.drop_left' hl0, xor_cancel _ _ (by rw [List.length_take, hz0]; omega),
      xor_cancel _ _ (by rw [List.length_drop, hz1]; omega), List.take_append_drop]
  · intro st x h0 h1
    have h1' : x.length < 32 := h1
    simp only [scheme128L, Aegis128L.decPartial, Aegis128L.enc]
    generalize hZ0 : Aegis128L.z0 (A128L.abs B st) = Z0
    generalize hZ1 : Aegis128L.z1 (A128L.abs B st) = Z1
    have hzl0 : Z0.length = 16 := by rw [← hZ0]; exact hz0 st
    have hzl1 : Z1.length = 16 := by rw [← hZ1]; exact hz1 st
    have hzl : (Z0 ++ Z1).length = 32 := by rw [List.length_append]; omega
    rw [xor_split16 _ _ _ (by rw [List.length_append, zeros_len]; omega) hzl0]
    have hcnv : List.take x.length (xorBytes (x ++ zeros (32 - x.length)) (Z0 ++ Z1)) =
        xorBytes x ((Z0 ++ Z1).take x.length) := by
      rw [xor_take, List.take_left]
    have hcl : (xorBytes x ((Z0 ++ Z1).take x.length)).length = x.length := by
      rw [xor_length, List.length_take]; omega
    have hzp : zeroPad (xorBytes x ((Z0 ++ Z1).take x.length)) 32 =
        xorBytes x ((Z0 ++ Z1).take x.length) ++ zeros (32 - x.length) := by
      rw [zeroPad_short _ _ (by rw [hcl]; omega) (by rw [hcl]; omega), hcl]
    have hxn : List.take x.length (xorBytes (xorBytes x ((Z0 ++ Z1).take x.length) ++ zeros (32 - x.length)) (Z0 ++ Z1)) = x := by
      rw [xor_take, List.take_left' hcl, xor_cancel _ _ (by rw [List.length_take]; omega)]
    rw [hcnv, hcl, hzp, xor_split16 _ _ _ (by rw [List.length_append, hcl, zeros_len]; omega) hzl0, hxn,
      zeroPad_short x 32 h0 h1']

section RTTop
variable {β : Type} {B : Backend β}

/-- Spec-level consequence used for the model: Decrypt (Encrypt m) = m for AEGIS-128L -/
theorem spec_roundtrip_128L (ok : BackendOk B) (k n ad m : Bytes) (hk : k.length = 16) (hn : n.length = 16) :
    aegis128l_decrypt k n ad (aegis128l_encrypt k n ad m).1 (aegis128l_encrypt k n ad m).2 = some m := by
  have hi := A128L.init_spec ok k n hk hn
  have ha := absorbAd_spec (refines128L ok) ad (Model.AegisRef.A128L.aegis128l_init B k n)
  have hrt := roundtrip_gen (refines128L ok) (rt128L ok) m (absorbAd (Model.AegisRef.A128L.variant B) ad
    (Model.AegisRef.A128L.aegis128l_init B k n))
  rw [ha, hi] at hrt
  rw [spec128L_decrypt, spec128L_encrypt]
  simp only [hrt, if_true]

theorem spec_roundtrip_256 (ok : BackendOk B) (k n ad m : Bytes) (hk : k.length = 32) (hn : n.length = 32) :
    aegis256_decrypt k n ad (aegis256_encrypt k n ad m).1 (aegis256_encrypt k n ad m).2 = some m := by
  have hi := A256.init_spec ok k n hk hn
  have ha := absorbAd_spec (refines256 ok) ad (Model.AegisRef.A256.aegis256_init B k n)
  have hrt := roundtrip_gen (refines256 ok) (rt256 ok) m (absorbAd (Model.AegisRef.A256.variant B) ad
    (Model.AegisRef.A256.aegis256_init B k n))
  rw [ha, hi] at hrt
  rw [spec256_decrypt, spec256_encrypt]
  simp only [hrt, if_true]


theorem encAll_len {τ σ : Type} {V : Variant τ} {Sc : Scheme σ} {abs : τ → σ} (rf : Refines V Sc abs)
    (rt : RoundTrip Sc abs) (m : Bytes) (st : τ) : (Sc.encAll (abs st) m).2.length = m.length := by
  have hd := decMsg_spec rf (Sc.encAll (abs st) m).2 st
  rw [roundtrip_gen rf rt m st] at hd
  have h := hd.2.2
  rw [hd.2.1] at h
  exact h.symm

theorem enc_lengths_128L (ok : BackendOk B) (k n ad m : Bytes) (hk : k.length = 16) (hn : n.length = 16)
    (hm : m.length < 2 ^ 61) (ha : ad.length < 2 ^ 61) :
    (aegis128l_encrypt k n ad m).1.length = m.length ∧ (aegis128l_encrypt k n ad m).2.length = 32 := by
  constructor
  · have h := encAll_len (refines128L ok) (rt128L ok) m (absorbAd (Model.AegisRef.A128L.variant B) ad
      (Model.AegisRef.A128L.aegis128l_init B k n))
    rw [absorbAd_spec (refines128L ok), A128L.init_spec ok k n hk hn] at h
    rw [spec128L_encrypt]; exact h
  · have he := encrypt_detached_128L ok 32 m ad n k hk hn hm ha
    have : (encrypt_detached (Model.AegisRef.A128L.variant B) 32 m ad n k).2.2.length = 32 :=
      A128L.mac_len ok 32 _ _ _
    rw [he] at this
    exact this

theorem enc_lengths_256 (ok : BackendOk B) (k n ad m : Bytes) (hk : k.length = 32) (hn : n.length = 32)
    (hm : m.length < 2 ^ 61) (ha : ad.length < 2 ^ 61) :
    (aegis256_encrypt k n ad m).1.length = m.length ∧ (aegis256_encrypt k n ad m).2.length = 32 := by
  constructor
  · have h := encAll_len (refines256 ok) (rt256 ok) m (absorbAd (Model.AegisRef.A256.variant B) ad
      (Model.AegisRef.A256.aegis256_init B k n))
    rw [absorbAd_spec (refines256 ok), A256.init_spec ok k n hk hn] at h
    rw [spec256_encrypt]; exact h
  · have he := encrypt_detached_256 ok 32 m ad n k hk hn hm ha
    have : (encrypt_detached (Model.AegisRef.A256.variant B) 32 m ad n k).2.2.length = 32 :=
      A256.mac_len ok 32 _ _ _
    rw [he] at this
    exact this

/-- model-level round trip: `decrypt_detached (encrypt_detached m) = (0, m)` -/
theorem model_roundtrip_128L (ok : BackendOk B) (m ad n k : Bytes) (hk : k.length = 16) (hn : n.length = 16)
    (hm : m.length < 2 ^ 61) (ha : ad.length < 2 ^ 61) :
    decrypt_detached (Model.AegisRef.A128L.variant B) true (encrypt_detached (Model.AegisRef.A128L.variant B) 32 m ad n k).2.1
      (encrypt_detached (Model.AegisRef.A128L.variant B) 32 m ad n k).2.2 32 ad n k = (0, some m) := by
  obtain ⟨hl1, hl2⟩ := enc_lengths_128L ok k n ad m hk hn hm ha
  rw [encrypt_detached_128L ok 32 m ad n k hk hn hm ha]
  simp only [show (32 : Nat) ≠ 16 by decide, if_false, if_true]
  rw [decrypt_detached_128L ok true 32 (Or.inr rfl) _ _ ad n k hk hn hl2 (by omega) ha]
  simp only [specDecrypt128L, show (32 : Nat) ≠ 16 by decide, if_false, spec_roundtrip_128L ok k n ad m hk hn]
  rfl

theorem model_roundtrip_256 (ok : BackendOk B) (m ad n k : Bytes) (hk : k.length = 32) (hn : n.length = 32)
    (hm : m.length < 2 ^ 61) (ha : ad.length < 2 ^ 61) :
    decrypt_detached (Model.AegisRef.A256.variant B) true (encrypt_detached (Model.AegisRef.A256.variant B) 32 m ad n k).2.1
      (encrypt_detached (Model.AegisRef.A256.variant B) 32 m ad n k).2.2 32 ad n k = (0, some m) := by
  obtain ⟨hl1, hl2⟩ := enc_lengths_256 ok k n ad m hk hn hm ha
  rw [encrypt_detached_256 ok 32 m ad n k hk hn hm ha]
  simp only [show (32 : Nat) ≠ 16 by decide, if_false, if_true]
  rw [decrypt_detached_256 ok true 32 (Or.inr rfl) _ _ ad n k hk hn hl2 (by omega) ha]
  simp only [specDecrypt256, show (32 : Nat) ≠ 16 by decide, if_false, spec_roundtrip_256 ok k n ad m hk hn]
  rfl

end RTTop

end Sodium.AegisRefP
