import SodiumModel.Model.OverlapAead
import SodiumModel.Proofs.Overlap
import SodiumModel.Proofs.AegisRef
/-
  Helper lemmas for C13 / AEAD at memory level, part 2 (AEGIS block loops): the memory-level block loop
  with the output at or before the input (in place: equal) or disjoint = the list-level `forBlocks`
  loop of `Model/AegisRef.lean` on the bytes found on entry, stored once.
-/
open Sodium Sodium.Model Sodium.Model.Aead Sodium.Model.Overlap Sodium.Model.OverlapAead Sodium.OverlapP
open Sodium.Model.AegisRef
namespace Sodium.OverlapAeadP

/-- what the loops need from the block functions: output sizes -/
structure BlockLens {τ : Type} (V : Variant τ) : Prop where
  rpos : 0 < V.RATE
  enc_len : ∀ p st, (V.enc p st).1.length = V.RATE
  dec_len : ∀ p st, (V.dec p st).1.length = V.RATE
  declast_len : ∀ p len st, 0 < len → len < V.RATE → len ≤ p.length → (V.declast p len st).1.length = len
  mac_len : ∀ maclen a b st, (V.mac maclen a b st).2.length = maclen

theorem mac128L_len {β : Type} {B : Backend β} (ok : AegisRefP.BackendOk B) (maclen : Nat) (a b : UInt64) (st : A128L.State β) :
    (A128L.aegis128l_mac B maclen a b st).2.length = maclen := by
  unfold A128L.aegis128l_mac
  by_cases h1 : maclen = 16
  · simp [h1, ok.store_len]
  · by_cases h2 : maclen = 32 <;> simp [h1, h2, ok.store_len, zeros]

theorem mac256_len {β : Type} {B : Backend β} (ok : AegisRefP.BackendOk B) (maclen : Nat) (a b : UInt64) (st : A256.State β) :
    (A256.aegis256_mac B maclen a b st).2.length = maclen := by
  unfold A256.aegis256_mac
  by_cases h1 : maclen = 16
  · simp [h1, ok.store_len]
  · by_cases h2 : maclen = 32 <;> simp [h1, h2, ok.store_len, zeros]

theorem BlockLens.of_refines {τ σ : Type} {V : Variant τ} {Sc : AegisRefP.Scheme σ} {abs : τ → σ}
    (rf : AegisRefP.Refines V Sc abs) (hmac : ∀ maclen a b st, (V.mac maclen a b st).2.length = maclen) : BlockLens V :=
  { mac_len := hmac
    rpos := by rw [rf.rate]; exact rf.rpos
    enc_len := by intro p st; rw [rf.rate]; exact rf.enc_len p st
    dec_len := by intro p st; rw [rf.rate]; exact rf.dec_len p st
    declast_len := by intro p len st h1 h2 h3; exact rf.declast_len p len st h1 (by rw [← rf.rate]; exact h2) h3 }

theorem blockLens128L {β : Type} {B : Backend β} (ok : AegisRefP.BackendOk B) : BlockLens (A128L.variant B) :=
  BlockLens.of_refines (AegisRefP.refines128L ok) (mac128L_len ok)

theorem blockLens256 {β : Type} {B : Backend β} (ok : AegisRefP.BackendOk B) : BlockLens (A256.variant B) :=
  BlockLens.of_refines (AegisRefP.refines256 ok) (mac256_len ok)

section
variable {τ : Type} (V : Variant τ)

/-- storing loop, output at or before the input or disjoint -/
theorem blockLoop_store (fn : Bytes → τ → Bytes × τ) (hl : ∀ p st, (fn p st).1.length = V.RATE)
    (mem0 : Mem) (dst src len : Nat) (h : dst ≤ src ∨ src + len ≤ dst)
    (body : Nat → τ × Bytes → τ × Bytes)
    (hbody : ∀ i sc, body i sc = ((fn ((read mem0 src len).drop i) sc.1).2, sc.2 ++ (fn ((read mem0 src len).drop i) sc.1).1)) :
    ∀ (fuel i : Nat) (acc : Bytes) (st : τ), acc.length = i →
      blockLoop V fn true dst src len fuel i (write mem0 dst acc) st =
        ((forBlocks V.RATE len body fuel i (st, acc)).1,
         write mem0 dst (forBlocks V.RATE len body fuel i (st, acc)).2.2,
         (forBlocks V.RATE len body fuel i (st, acc)).2.1) ∧
      (forBlocks V.RATE len body fuel i (st, acc)).2.2.length = (forBlocks V.RATE len body fuel i (st, acc)).1
  | 0, i, acc, st, ha => by simp [blockLoop, forBlocks, ha]
  | fuel + 1, i, acc, st, ha => by
    by_cases hc : i + V.RATE ≤ len
    · have e1 : read (write mem0 dst acc) (src + i) (len - i) = (read mem0 src len).drop i := by
        rw [read_write_disj _ _ _ _ _ (by rw [ha]; omega), drop_read _ _ _ _ (by omega)]
      have e2 : write (write mem0 dst acc) (dst + i) (fn ((read mem0 src len).drop i) st).1 =
          write mem0 dst (acc ++ (fn ((read mem0 src len).drop i) st).1) := by
        rw [← ha, write_write_adj]
      have ih := blockLoop_store fn hl mem0 dst src len h body hbody fuel (i + V.RATE)
        (acc ++ (fn ((read mem0 src len).drop i) st).1) (fn ((read mem0 src len).drop i) st).2
        (by rw [List.length_append, hl, ha])
      simp only [blockLoop, forBlocks, if_pos hc, if_true, e1, e2, hbody]
      exact ih
    · simp [blockLoop, forBlocks, if_neg hc, ha]

/-- non-storing loop (`m == NULL`): memory unchanged -/
theorem blockLoop_nostore (fn : Bytes → τ → Bytes × τ)
    (mem0 : Mem) (dst src len : Nat)
    (body : Nat → τ × Bytes → τ × Bytes)
    (hbody : ∀ i sc, body i sc = ((fn ((read mem0 src len).drop i) sc.1).2, sc.2 ++ (fn ((read mem0 src len).drop i) sc.1).1)) :
    ∀ (fuel i : Nat) (acc : Bytes) (st : τ),
      blockLoop V fn false dst src len fuel i mem0 st =
        ((forBlocks V.RATE len body fuel i (st, acc)).1, mem0, (forBlocks V.RATE len body fuel i (st, acc)).2.1)
  | 0, i, acc, st => by simp [blockLoop, forBlocks]
  | fuel + 1, i, acc, st => by
    by_cases hc : i + V.RATE ≤ len
    · have e1 : read mem0 (src + i) (len - i) = (read mem0 src len).drop i := by
        rw [drop_read _ _ _ _ (by omega)]
      simp only [blockLoop, forBlocks, if_pos hc, e1, hbody, Bool.false_eq_true, if_false]
      exact blockLoop_nostore fn mem0 dst src len body hbody fuel (i + V.RATE) _ _
    · simp [blockLoop, forBlocks, if_neg hc]

/-- exit index of the loop started at 0 with `len` fuel -/
theorem forBlocks_exit {σ : Type} (hR : 0 < V.RATE) (len : Nat) (body : Nat → σ → σ) (s : σ) :
    (forBlocks V.RATE len body len 0 s).1 = len / V.RATE * V.RATE := by
  rw [AegisRefP.forBlocks_eq V.RATE len hR body len 0 s (by omega)]
  simp

end

end Sodium.OverlapAeadP

namespace Sodium.OverlapAeadP
section
variable {τ : Type} (V : Variant τ)

/-- encrypt_detached on memory = two stores of the list-level result -/
theorem aegisEncryptDetached_eq (hB : BlockLens V) (klen nlen : Nat) (mem : Mem)
    (c mac maclen m mlen ad adlen npub k : Nat) (h : c ≤ m ∨ m + mlen ≤ c) :
    aegisEncryptDetached V klen nlen mem c mac maclen m mlen ad adlen npub k =
      ((AegisRef.encrypt_detached V maclen (read mem m mlen) (read mem ad adlen) (read mem npub nlen) (read mem k klen)).1,
       write (write mem c
        (AegisRef.encrypt_detached V maclen (read mem m mlen) (read mem ad adlen) (read mem npub nlen) (read mem k klen)).2.1) mac
        (AegisRef.encrypt_detached V maclen (read mem m mlen) (read mem ad adlen) (read mem npub nlen) (read mem k klen)).2.2) ∧
    (AegisRef.encrypt_detached V maclen (read mem m mlen) (read mem ad adlen) (read mem npub nlen) (read mem k klen)).2.1.length = mlen := by
  simp only [aegisEncryptDetached, AegisRef.encrypt_detached, AegisRef.encMsg, length_read]
  generalize AegisRef.absorbAd V (read mem ad adlen) (V.init (read mem k klen) (read mem npub nlen)) = st0
  have L := blockLoop_store V V.enc hB.enc_len mem c m mlen h
    (fun i (sc : τ × Bytes) => let (dst, state) := V.enc ((read mem m mlen).drop i) sc.1; (state, sc.2 ++ dst))
    (fun _ _ => rfl) mlen 0 [] st0 rfl
  rw [write_nil] at L
  have E := forBlocks_exit V hB.rpos mlen
    (fun i (sc : τ × Bytes) => let (dst, state) := V.enc ((read mem m mlen).drop i) sc.1; (state, sc.2 ++ dst)) (st0, [])
  rw [L.1]
  generalize forBlocks V.RATE mlen
    (fun i (sc : τ × Bytes) => let (dst, state) := V.enc ((read mem m mlen).drop i) sc.1; (state, sc.2 ++ dst)) mlen 0 (st0, []) = fb at L E ⊢
  obtain ⟨i, st, acc⟩ := fb
  simp only at L E ⊢
  have hlen := L.2
  have hi : i ≤ mlen := by rw [E]; exact Nat.div_mul_le_self _ _
  have hdm : mlen / V.RATE * V.RATE + mlen % V.RATE = mlen := Nat.div_add_mod' _ _
  by_cases hr : mlen % V.RATE = 0
  · simp only [hr, ne_eq, not_true_eq_false, if_false]
    exact ⟨trivial, by omega⟩
  · have hlt : mlen % V.RATE < V.RATE := Nat.mod_lt _ hB.rpos
    simp only [hr, ne_eq, not_false_eq_true, if_true]
    rw [read_write_disj _ _ _ _ _ (by rw [hlen]; omega), ← drop_read _ _ _ _ hi]
    refine ⟨?_, ?_⟩
    · rw [← hlen, write_write_adj]
    · rw [List.length_append, List.length_take, hB.enc_len, hlen]; omega

omit V in
theorem dec_finish (ret : Int32) (mem : Mem) (m clen : Nat) (out : Bytes) (hout : out.length = clen) :
    (if ¬ ret = 0 then (ret, memset (write mem m out) m 0 clen) else (ret, write mem m out)) =
      ((if ¬ ret = 0 then (ret, some (zeros clen)) else (ret, some out)).1,
       match (if ¬ ret = 0 then (ret, some (zeros clen)) else (ret, some out)).2 with
       | none => mem
       | some o => write mem m o) ∧
    ∀ o, (if ¬ ret = 0 then (ret, some (zeros clen)) else (ret, some out)).2 = some o → o.length = clen := by
  by_cases h : ret = 0
  · simp only [h, not_true_eq_false, if_false]
    exact ⟨trivial, by intro o ho; simp at ho; rw [← ho]; exact hout⟩
  · simp only [h, not_false_eq_true, if_true, Overlap.memset]
    rw [write_write_same _ _ _ _ (by simp [hout])]
    exact ⟨rfl, by intro o ho; simp at ho; rw [← ho]; simp [zeros]⟩

/-- decrypt_detached on memory = verdict of the list-level function on the bytes found on entry, and
    one store of what it writes (or nothing for `m == NULL`) -/
theorem aegisDecryptDetached_eq (hB : BlockLens V) (klen nlen : Nat) (mem : Mem)
    (m c clen mac maclen ad adlen npub k : Nat) (h : m ≤ c ∨ c + clen ≤ m)
    (hmac : m = 0 ∨ mac + maclen ≤ m ∨ m + clen ≤ mac) :
    aegisDecryptDetached V klen nlen mem m c clen mac maclen ad adlen npub k =
      ((AegisRef.decrypt_detached V (decide (m ≠ 0)) (read mem c clen) (read mem mac maclen) maclen (read mem ad adlen)
          (read mem npub nlen) (read mem k klen)).1,
       match (AegisRef.decrypt_detached V (decide (m ≠ 0)) (read mem c clen) (read mem mac maclen) maclen (read mem ad adlen)
          (read mem npub nlen) (read mem k klen)).2 with
       | none => mem
       | some out => write mem m out) ∧
    ∀ out, (AegisRef.decrypt_detached V (decide (m ≠ 0)) (read mem c clen) (read mem mac maclen) maclen (read mem ad adlen)
          (read mem npub nlen) (read mem k klen)).2 = some out → out.length = clen := by
  simp only [aegisDecryptDetached, AegisRef.decrypt_detached, AegisRef.decMsg, length_read]
  generalize AegisRef.absorbAd V (read mem ad adlen) (V.init (read mem k klen) (read mem npub nlen)) = st0
  by_cases hm : m = 0
  · -- verify only: no store at all
    have L := blockLoop_nostore V V.dec mem m c clen
      (fun i (sm : τ × Bytes) => let (dst, state) := V.dec ((read mem c clen).drop i) sm.1; (state, sm.2 ++ dst))
      (fun _ _ => rfl) clen 0 [] st0
    have E := forBlocks_exit V hB.rpos clen
      (fun i (sm : τ × Bytes) => let (dst, state) := V.dec ((read mem c clen).drop i) sm.1; (state, sm.2 ++ dst)) (st0, [])
    simp only [hm, ne_eq, not_true_eq_false, decide_false, and_false, if_false, Bool.false_eq_true] at L ⊢
    rw [L]
    generalize forBlocks V.RATE clen
      (fun i (sm : τ × Bytes) => let (dst, state) := V.dec ((read mem c clen).drop i) sm.1; (state, sm.2 ++ dst)) clen 0 (st0, []) = fb at E ⊢
    obtain ⟨i, st, acc⟩ := fb
    simp only at E ⊢
    have hi : i ≤ clen := by rw [E]; exact Nat.div_mul_le_self _ _
    rw [← drop_read _ _ _ _ hi]
    by_cases hr : clen % V.RATE = 0 <;> simp [hr]
  · have L := blockLoop_store V V.dec hB.dec_len mem m c clen h
      (fun i (sm : τ × Bytes) => let (dst, state) := V.dec ((read mem c clen).drop i) sm.1; (state, sm.2 ++ dst))
      (fun _ _ => rfl) clen 0 [] st0 rfl
    rw [write_nil] at L
    have E := forBlocks_exit V hB.rpos clen
      (fun i (sm : τ × Bytes) => let (dst, state) := V.dec ((read mem c clen).drop i) sm.1; (state, sm.2 ++ dst)) (st0, [])
    simp only [hm, ne_eq, not_false_eq_true, decide_true, and_true, if_true] at L ⊢
    rw [L.1]
    generalize forBlocks V.RATE clen
      (fun i (sm : τ × Bytes) => let (dst, state) := V.dec ((read mem c clen).drop i) sm.1; (state, sm.2 ++ dst)) clen 0 (st0, []) = fb at L E ⊢
    obtain ⟨i, st, acc⟩ := fb
    simp only at L E ⊢
    have hlen := L.2
    have hi : i ≤ clen := by rw [E]; exact Nat.div_mul_le_self _ _
    have hdm : clen / V.RATE * V.RATE + clen % V.RATE = clen := Nat.div_add_mod' _ _
    have hmac' : mac + maclen ≤ m ∨ m + clen ≤ mac := by omega
    by_cases hr : clen % V.RATE = 0
    · simp only [hr, ne_eq, not_true_eq_false, if_false]
      have hacc : acc.length = clen := by omega
      rw [read_write_disj _ _ _ _ _ (by rw [hacc]; omega)]
      exact dec_finish _ mem m clen _ hacc
    · have hlt : clen % V.RATE < V.RATE := Nat.mod_lt _ hB.rpos
      simp only [hr, ne_eq, not_false_eq_true, if_true]
      rw [read_write_disj _ _ _ _ _ (by rw [hlen]; omega), ← drop_read _ _ _ _ hi]
      have hdl : (V.declast ((read mem c clen).drop i) (clen % V.RATE) st).1.length = clen % V.RATE :=
        hB.declast_len _ _ _ (by omega) hlt (by simp; omega)
      have e2 : write (write mem m acc) (m + i) (V.declast ((read mem c clen).drop i) (clen % V.RATE) st).1 =
          write mem m (acc ++ (V.declast ((read mem c clen).drop i) (clen % V.RATE) st).1) := by
        rw [← hlen, write_write_adj]
      have hacc : (acc ++ (V.declast ((read mem c clen).drop i) (clen % V.RATE) st).1).length = clen := by
        rw [List.length_append, hdl]; omega
      rw [e2, read_write_disj _ _ _ _ _ (by rw [hacc]; omega)]
      exact dec_finish _ mem m clen _ hacc

theorem aegis_enc_mac_len (hB : BlockLens V) (maclen : Nat) (m ad npub k : Bytes) :
    (AegisRef.encrypt_detached V maclen m ad npub k).2.2.length = maclen := by
  simp only [AegisRef.encrypt_detached]
  exact hB.mac_len _ _ _ _

omit V in
theorem fin_shape (w : Bool) (ret : Int32) (z m : Bytes) :
    ((if ret ≠ 0 ∧ w then (ret, some z) else (ret, if w then some m else none)).1 = ret) ∧
    (w = true → ret ≠ 0 → (if ret ≠ 0 ∧ w then (ret, some z) else (ret, if w then some m else none)).2 = some z) ∧
    (w = true → (if ret ≠ 0 ∧ w then (ret, some z) else (ret, if w then some m else none)).2 ≠ none) := by
  by_cases h : ret = 0 <;> cases w <;> simp [h]

theorem aegis_dec_failure (maclen : Nat) (c mac ad npub k : Bytes)
    (h : (AegisRef.decrypt_detached V true c mac maclen ad npub k).1 ≠ 0) :
    (AegisRef.decrypt_detached V true c mac maclen ad npub k).2 = some (zeros c.length) := by
  unfold AegisRef.decrypt_detached at h ⊢
  rw [(fin_shape true _ _ _).1] at h
  exact (fin_shape true _ _ _).2.1 rfl h

theorem aegis_dec_wantM (maclen : Nat) (c mac ad npub k : Bytes) :
    (AegisRef.decrypt_detached V true c mac maclen ad npub k).2 ≠ none := by
  unfold AegisRef.decrypt_detached
  exact (fin_shape true _ _ _).2.2 rfl

theorem aegis_dec_verify_only (maclen : Nat) (c mac ad npub k : Bytes) :
    (AegisRef.decrypt_detached V false c mac maclen ad npub k).2 = none := by
  simp [AegisRef.decrypt_detached]

end
end Sodium.OverlapAeadP
