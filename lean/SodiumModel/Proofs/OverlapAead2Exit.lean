import SodiumModel.Proofs.OverlapAead2Enc
import SodiumModel.Proofs.OverlapAead2Dec
/-
  C13 / AES-256-GCM: where the block loops stop.  For every `n` the final index `i` of `encBulk n` / `decBulk n` is a
  multiple of 16 with `i ≤ n ≤ i + 16` (so the tail `left = n − i` has 0 … 16 bytes, and 16 ∣ n when `left = 0`).
-/
open Sodium Sodium.Model Sodium.Model.Overlap Sodium.Model.OverlapAead
namespace Sodium.OverlapAeadP

theorem whileOps_idx (n : Nat) (cond : Nat → Bool) (step : Nat) (body : Nat → List GOp)
    (hstep : 16 ∣ step) (hcond : ∀ i, cond i = true → i + step ≤ n) :
    ∀ (fuel i : Nat), 16 ∣ i → i ≤ n →
      16 ∣ (whileOps cond step body fuel i).1 ∧ (whileOps cond step body fuel i).1 ≤ n
  | 0, i, h1, h2 => by simp [whileOps, h1, h2]
  | fuel + 1, i, h1, h2 => by
    by_cases hc : cond i = true
    · simp only [whileOps, hc, if_true]
      exact whileOps_idx n cond step body hstep hcond fuel (i + step) (Nat.dvd_add h1 hstep) (hcond i hc)
    · simp [whileOps, hc, h1, h2]

theorem whileOps_exit (n : Nat) (cond : Nat → Bool) (step : Nat) (body : Nat → List GOp)
    (hstep : 0 < step) (hcond : ∀ i, cond i = true → i < n) :
    ∀ (fuel i : Nat), n - i ≤ fuel → cond (whileOps cond step body fuel i).1 = false
  | 0, i, h => by
    simp only [whileOps]
    cases hc : cond i with
    | false => rfl
    | true => have := hcond i hc; omega
  | fuel + 1, i, h => by
    cases hc : cond i with
    | true =>
      simp only [whileOps, hc, if_true]
      have := hcond i hc
      exact whileOps_exit n cond step body hstep hcond fuel (i + step) (by omega)
    | false => simp [whileOps, hc]

theorem encA_idx (n : Nat) : 16 ∣ (encA n).1 ∧ (encA n).1 ≤ n := by
  unfold encA
  by_cases h : n ≥ 224
  · rw [if_pos h]
    exact whileOps_idx n _ 224 _ ⟨14, rfl⟩ (by intro i hc; simpa using hc) n 112 ⟨7, rfl⟩ (by omega)
  · rw [if_neg h]; exact ⟨⟨0, rfl⟩, Nat.zero_le _⟩

theorem encB_idx (n : Nat) (a : Nat × List GOp) (ha : 16 ∣ a.1 ∧ a.1 ≤ n) : 16 ∣ (encB n a).1 ∧ (encB n a).1 ≤ n := by
  unfold encB
  by_cases h : n - a.1 ≥ 112
  · rw [if_pos h]
    exact whileOps_idx n _ 112 _ ⟨7, rfl⟩ (by intro i hc; simpa using hc) n (a.1 + 112)
      (Nat.dvd_add ha.1 ⟨7, rfl⟩) (by omega)
  · rw [if_neg h]; exact ha

/-- encrypt loops: exit index -/
theorem encBulk_exit (n : Nat) : 16 ∣ (encBulk n).1 ∧ (encBulk n).1 ≤ n ∧ n ≤ (encBulk n).1 + 16 := by
  rw [encBulk_stages]
  have hb := encB_idx n _ (encA_idx n)
  have hc := whileOps_idx n (fun i => i + 64 ≤ n) 64
    (fun i => [.xor i 16, .xor (i + 16) 16, .xor (i + 32) 16, .xor (i + 48) 16, .gh i 64]) ⟨4, rfl⟩
    (by intro i hc; simpa using hc) n _ hb.1 hb.2
  have hd := whileOps_idx n (fun i => i + 32 ≤ n) 32 (fun i => [.xor i 16, .xor (i + 16) 16, .gh i 32]) ⟨2, rfl⟩
    (by intro i hc; simpa using hc) n _ hc.1 hc.2
  have he := whileOps_idx n (fun i => i + 16 < n) 16 (fun i => [.xor i 16, .gh i 16]) ⟨1, rfl⟩
    (by intro i hc; have : i + 16 < n := by simpa using hc
        omega) n _ hd.1 hd.2
  have hx := whileOps_exit n (fun i => i + 16 < n) 16 (fun i => [.xor i 16, .gh i 16]) (by omega)
    (by intro i hc; have : i + 16 < n := by simpa using hc
        omega) n (encD n (encC n (encB n (encA n)).1).1).1 (by omega)
  refine ⟨he.1, he.2, ?_⟩
  simp only [decide_eq_false_iff_not, Nat.not_lt] at hx
  exact hx

/-- decrypt loops: exit index -/
theorem decBulk_exit (n : Nat) : 16 ∣ (decBulk n).1 ∧ (decBulk n).1 ≤ n ∧ n ≤ (decBulk n).1 + 16 := by
  rw [decBulk_stages]
  have ha := whileOps_idx n (fun i => i + 224 ≤ n) 224
    (fun i => [.gh i 112, .xor i 112, .gh (i + 112) 112, .xor (i + 112) 112]) ⟨14, rfl⟩
    (by intro i hc; simpa using hc) n 0 ⟨0, rfl⟩ (Nat.zero_le _)
  have hb := whileOps_idx n (fun i => i + 112 ≤ n) 112 (fun i => [.gh i 112, .xor i 112]) ⟨7, rfl⟩
    (by intro i hc; simpa using hc) n _ ha.1 ha.2
  have hc := whileOps_idx n (fun i => i + 64 ≤ n) 64
    (fun i => [.gh i 64, .xor i 16, .xor (i + 16) 16, .xor (i + 32) 16, .xor (i + 48) 16]) ⟨4, rfl⟩
    (by intro i hc; simpa using hc) n _ hb.1 hb.2
  have hd := whileOps_idx n (fun i => i + 32 ≤ n) 32 (fun i => [.gh i 32, .xor i 16, .xor (i + 16) 16]) ⟨2, rfl⟩
    (by intro i hc; simpa using hc) n _ hc.1 hc.2
  have he := whileOps_idx n (fun i => i + 16 < n) 16 (fun i => [.gh i 16, .xor i 16]) ⟨1, rfl⟩
    (by intro i hc; have : i + 16 < n := by simpa using hc
        omega) n _ hd.1 hd.2
  have hx := whileOps_exit n (fun i => i + 16 < n) 16 (fun i => [.gh i 16, .xor i 16]) (by omega)
    (by intro i hc; have : i + 16 < n := by simpa using hc
        omega) n (decD n (decC n (decB n (decA n 0).1).1).1).1 (by omega)
  refine ⟨he.1, he.2, ?_⟩
  simp only [decide_eq_false_iff_not, Nat.not_lt] at hx
  exact hx

/-- the zero padding appended to the GHASH input of the tail is the specification's `0^u` -/
theorem tail_pad (n i : Nat) (h : 16 ∣ i ∧ i ≤ n ∧ n ≤ i + 16) :
    (if n - i ≠ 0 then zeros (16 - (n - i)) else []) = zeros ((16 - n % 16) % 16) := by
  obtain ⟨⟨k, rfl⟩, h2, h3⟩ := h
  by_cases h0 : n - 16 * k = 0
  · have : n = 16 * k := by omega
    subst this
    simp [zeros]
  · rw [if_pos h0]
    congr 1
    omega

end Sodium.OverlapAeadP
