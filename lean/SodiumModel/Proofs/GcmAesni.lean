import SodiumModel.Proofs.GcmAesniGlue
import SodiumModel.Proofs.GcmAesniLimits
import SodiumModel.Proofs.GcmAesniEnc
import SodiumModel.Proofs.GcmAesniDec
/-
  End to end: the API functions of `Model/GcmAesni.lean` against `Spec.Gcm.encrypt` / `Spec.Gcm.decrypt`.
-/
namespace Sodium.GcmAesniP
open Sodium Sodium.Model.GcmAesni Sodium.Spec Sodium.Spec.Gcm

/-- the specification, with its `let`s spelled out -/
theorem spec_encrypt_unfold (k n ad m : Bytes) :
    Gcm.encrypt k n ad m =
      (Gcm.gctr (Aes.cipher (Aes.keyExpansion256 k)) (Gcm.inc32 (n ++ [0, 0, 0, 1])) m,
       Gcm.gctr (Aes.cipher (Aes.keyExpansion256 k)) (n ++ [0, 0, 0, 1])
         (Gcm.authBlock (Aes.cipher (Aes.keyExpansion256 k) (zeros 16)) ad
           (Gcm.gctr (Aes.cipher (Aes.keyExpansion256 k)) (Gcm.inc32 (n ++ [0, 0, 0, 1])) m))) := rfl

theorem spec_decrypt_unfold (k n ad c tag : Bytes) :
    Gcm.decrypt k n ad c tag =
      if tag = Gcm.gctr (Aes.cipher (Aes.keyExpansion256 k)) (n ++ [0, 0, 0, 1])
          (Gcm.authBlock (Aes.cipher (Aes.keyExpansion256 k) (zeros 16)) ad c)
      then some (Gcm.gctr (Aes.cipher (Aes.keyExpansion256 k)) (Gcm.inc32 (n ++ [0, 0, 0, 1])) c) else none := rfl

/-- the tag both generic functions produce, in the specification's terms -/
theorem tag_spec (k : Bytes) (rkeys : List BlockVec) (hl : rkeys.length = 15)
    (hr : rkeys.map STORE128 = Aes.keyExpansion256 k) (npub : Bytes) (hn : npub.length = 12) (ad ct : Bytes) :
    STORE128 (XOR128 (LOAD128 (Aes.cipher (rkeys.map STORE128) (npub ++ [0, 0, 0, 1])))
        (REV128 (ghB (REV128 (LOAD128 (Aes.encryptBlock256 k (zeros 16))))
          (ghFold (REV128 (LOAD128 (Aes.encryptBlock256 k (zeros 16))))
            (ghFold (REV128 (LOAD128 (Aes.encryptBlock256 k (zeros 16)))) gh_init (ad ++ pad16 ad.length) ((ad.length + 15) / 16))
            (ct ++ pad16 ct.length) ((ct.length + 15) / 16))
          (STORE128 (final_block ad.length ct.length)))))
      = Gcm.gctr (Aes.cipher (Aes.keyExpansion256 k)) (npub ++ [0, 0, 0, 1])
          (Gcm.authBlock (Aes.cipher (Aes.keyExpansion256 k) (zeros 16)) ad ct) := by
  have hH : (Aes.encryptBlock256 k (zeros 16)).length = 16 := by
    unfold Aes.encryptBlock256; rw [← hr]; exact GF.cipher_length rkeys hl _ (by simp [zeros])
  rw [GF.tag_eq rkeys hl _ (by simp [hn]), GF.authBlock_eq _ hH, hr]
  rfl


/-- GCTR preserves the length -/
theorem gctr_length (ciph : Bytes → Bytes) (npub : Bytes) (hn : npub.length = 12)
    (hciph : ∀ c, (ciph (Ctr.ctrBlock npub c)).length = 16) (c : Nat) (x : Bytes) :
    (Gcm.gctr ciph (Ctr.ctrBlock npub c) x).length = x.length := by
  have hsplit := Loop.gctr_split ciph npub hn c x (x.length / 16) (by omega)
  have hks := Loop.ks_length ciph npub hciph c x (x.length / 16) (by omega)
  rw [hsplit, List.length_append, hks]
  by_cases hr : x.length % 16 = 0
  · have : x.drop (16 * (x.length / 16)) = [] := List.drop_eq_nil_of_le (by omega)
    rw [this, Loop.gctr_nil]; simp; omega
  · rw [Loop.gctr_single ciph npub hn _ _ (by simp; omega) (by simp; omega), Loop.xorBytes_length, hciph]
    simp; omega

theorem cipher_ctr_length (rkeys : List BlockVec) (hl : rkeys.length = 15) (npub : Bytes) (hn : npub.length = 12) (c : Nat) :
    (Aes.cipher (rkeys.map STORE128) (Ctr.ctrBlock npub c)).length = 16 :=
  GF.cipher_length rkeys hl _ (Ctr.ctrBlock_length npub hn c)

/-- (6) `crypto_aead_aes256gcm_encrypt_detached_afternm` on a state built by `crypto_aead_aes256gcm_beforenm`, with arbitrary
    previous contents of `st->hx` and of the stack buffer `last_blocks`, is SP 800-38D GCM-AE -/
theorem encrypt_detached_gen (m ad npub k : Bytes) (hk : k.length = 32) (hn : npub.length = 12)
    (ha : ad.length ≤ 2 ^ 64 - 225) (hm : m.length ≤ 16 * (2 ^ 32 - 3))
    (hx_init : List Precomp) (hl : hx_init.length = 14) (stack : Bytes) (hs : stack.length = 32) :
    crypto_aead_aes256gcm_encrypt_detached_afternm (crypto_aead_aes256gcm_beforenm k hx_init) m ad npub stack
      = .done 0 (Gcm.encrypt k npub ad m).1 (Gcm.encrypt k npub ad m).2 := by
  obtain ⟨h15, hrk, hg⟩ := GF.beforenm_ok k hk hx_init hl
  have hreq := (required_blocks_ne_zero_iff ad.length m.length (by omega) (by omega)).mpr ⟨ha, hm⟩
  have hS : SODIUM_SIZE_MAX = 2 ^ 64 - 1 := rfl
  have := Enc.encrypt_detached_afternm_spec _ _ hg h15 npub hn m ad (by omega) (by omega) hreq stack hs
  dsimp only at this
  have hlen := gctr_length _ npub hn (cipher_ctr_length _ h15 npub hn) 2 m
  rw [← hlen] at this
  rw [this, spec_encrypt_unfold]
  dsimp only
  rw [tag_spec k _ h15 hrk npub hn, hrk, Ctr.icb_eq npub hn]

/-- (6) `crypto_aead_aes256gcm_encrypt_detached` = `Spec.Gcm.encrypt` for every key, nonce, AD and message within the limits -/
theorem encrypt_detached_eq (m ad npub k : Bytes) (hk : k.length = 32) (hn : npub.length = 12)
    (ha : ad.length ≤ 2 ^ 64 - 225) (hm : m.length ≤ 16 * (2 ^ 32 - 3)) :
    crypto_aead_aes256gcm_encrypt_detached m ad npub k
      = .done 0 (Gcm.encrypt k npub ad m).1 (Gcm.encrypt k npub ad m).2 :=
  encrypt_detached_gen m ad npub k hk hn ha hm _ (by simp [PC_COUNT, PARALLEL_BLOCKS]) _ (by simp [zeros])

/-- beyond the limits: −1, `c` zero-filled, `mac` filled with 0xd0 (no `sodium_misuse`) -/
theorem encrypt_detached_refuses (m ad npub k : Bytes) (ha : ad.length < 2 ^ 64) (hm : m.length < 2 ^ 64)
    (h : ¬ (ad.length ≤ 2 ^ 64 - 225 ∧ m.length ≤ 16 * (2 ^ 32 - 3))) :
    crypto_aead_aes256gcm_encrypt_detached m ad npub k = .done (-1) (zeros m.length) (List.replicate 16 0xd0) := by
  have hreq : required_blocks (UInt64.ofNat ad.length) (UInt64.ofNat m.length) = 0 := by
    by_contra hne
    exact h ((required_blocks_ne_zero_iff ad.length m.length ha hm).mp hne)
  have hS : SODIUM_SIZE_MAX = 2 ^ 64 - 1 := rfl
  unfold crypto_aead_aes256gcm_encrypt_detached crypto_aead_aes256gcm_encrypt_detached_afternm
  rw [if_neg (by omega)]
  simp [hreq, ABYTES]

theorem computed_mac_length (v : BlockVec) : (STORE128 v).take 16 = STORE128 v :=
  List.take_of_length_le (by rw [AesK.STORE128_length])

theorem verify16 (mac : Bytes) (hmac : mac.length = 16) (v : BlockVec) :
    crypto_verify_16 mac (STORE128 v) = if mac = STORE128 v then 0 else -1 := by
  unfold crypto_verify_16
  rw [computed_mac_length, List.take_of_length_le (by omega)]

/-- (6) `crypto_aead_aes256gcm_decrypt_detached`: accepts iff the tag matches, then returns the GCM-AD plaintext; otherwise
    −1 and the output buffer (when there is one) filled with 0xd0 -/
theorem decrypt_detached_eq (wantM : Bool) (c mac ad npub k : Bytes) (hk : k.length = 32) (hn : npub.length = 12)
    (hmac : mac.length = 16) (ha : ad.length ≤ 2 ^ 64 - 225) (hc : c.length ≤ 16 * (2 ^ 32 - 3)) :
    crypto_aead_aes256gcm_decrypt_detached wantM c mac ad npub k =
      match Gcm.decrypt k npub ad c mac with
      | some m => some (0, if wantM then some m else none)
      | none => some (-1, if wantM then some (List.replicate c.length 0xd0) else none) := by
  obtain ⟨h15, hrk, hg⟩ := GF.beforenm_ok k hk (List.replicate PC_COUNT 0) (by simp [PC_COUNT, PARALLEL_BLOCKS])
  have hreq := (required_blocks_ne_zero_iff ad.length c.length (by omega) (by omega)).mpr ⟨ha, hc⟩
  have hS : SODIUM_SIZE_MAX = 2 ^ 64 - 1 := rfl
  have hb := Ctr.required_blocks_counter_bound _ _ hreq
  rw [UInt64.toNat_ofNat', Nat.mod_eq_of_lt (by omega)] at hb
  unfold crypto_aead_aes256gcm_decrypt_detached crypto_aead_aes256gcm_decrypt_detached_afternm
  rw [if_neg (by omega), spec_decrypt_unfold]
  cases wantM
  · -- m == NULL: verify_mac
    have hv := Dec.verify_mac_spec _ _ hg h15 npub hn c mac ad hreq ⟨by omega, by omega⟩
    dsimp only at hv
    simp only [Bool.not_false, if_true]
    rw [hv, verify16 mac hmac, tag_spec k _ h15 hrk npub hn]
    split <;> simp
  · have hd := Dec.decrypt_generic_spec _ _ hg h15 npub hn c ad (by omega) (by omega) gh_init
    dsimp only at hd
    simp only [Bool.not_true, Bool.false_eq_true, if_false, beq_iff_eq, hreq]
    rw [hd]
    dsimp only
    rw [verify16 mac hmac, tag_spec k _ h15 hrk npub hn, hrk, Ctr.icb_eq npub hn]
    split <;> simp


/-- beyond the limits decryption returns −1 and does not touch `m` -/
theorem decrypt_detached_refuses (wantM : Bool) (c mac ad npub k : Bytes) (ha : ad.length < 2 ^ 64) (hc : c.length < 2 ^ 64)
    (h : ¬ (ad.length ≤ 2 ^ 64 - 225 ∧ c.length ≤ 16 * (2 ^ 32 - 3))) :
    crypto_aead_aes256gcm_decrypt_detached wantM c mac ad npub k = some (-1, none) := by
  have hreq : required_blocks (UInt64.ofNat ad.length) (UInt64.ofNat c.length) = 0 := by
    by_contra hne
    exact h ((required_blocks_ne_zero_iff ad.length c.length ha hc).mp hne)
  have hS : SODIUM_SIZE_MAX = 2 ^ 64 - 1 := rfl
  unfold crypto_aead_aes256gcm_decrypt_detached crypto_aead_aes256gcm_decrypt_detached_afternm
  have hnot : ¬(ad.length > SODIUM_SIZE_MAX ∨ c.length > SODIUM_SIZE_MAX) := by omega
  rw [if_neg hnot]
  cases wantM
  · unfold crypto_aead_aes256gcm_verify_mac
    rw [if_neg hnot]
    simp [hreq]
  · simp [hreq]

/-- combined mode: `c ‖ mac`, `*clen_p = mlen + 16` -/
theorem encrypt_combined_eq (m ad npub k : Bytes) (hk : k.length = 32) (hn : npub.length = 12)
    (ha : ad.length ≤ 2 ^ 64 - 225) (hm : m.length ≤ 16 * (2 ^ 32 - 3)) :
    crypto_aead_aes256gcm_encrypt m ad npub k
      = some (0, (Gcm.encrypt k npub ad m).1 ++ (Gcm.encrypt k npub ad m).2, m.length + 16) := by
  unfold crypto_aead_aes256gcm_encrypt
  rw [encrypt_detached_eq m ad npub k hk hn ha hm]
  rfl

/-- combined mode decryption: the last 16 bytes are the tag; fewer than 16 bytes give −1 without touching `m` -/
theorem decrypt_combined_eq (wantM : Bool) (cm ad npub k : Bytes) (hk : k.length = 32) (hn : npub.length = 12)
    (h16 : 16 ≤ cm.length) (ha : ad.length ≤ 2 ^ 64 - 225) (hc : cm.length - 16 ≤ 16 * (2 ^ 32 - 3)) :
    crypto_aead_aes256gcm_decrypt wantM cm ad npub k =
      match Gcm.decrypt k npub ad (cm.take (cm.length - 16)) (cm.drop (cm.length - 16)) with
      | some m => some (0, if wantM then some m else none, cm.length - 16)
      | none => some (-1, if wantM then some (List.replicate (cm.length - 16) 0xd0) else none, 0) := by
  unfold crypto_aead_aes256gcm_decrypt crypto_aead_aes256gcm_decrypt_afternm
  have hA : ABYTES = 16 := rfl
  have hd := decrypt_detached_eq wantM (cm.take (cm.length - 16)) (cm.drop (cm.length - 16)) ad npub k hk hn
    (by simp; omega) ha (by simp; omega)
  unfold crypto_aead_aes256gcm_decrypt_detached at hd
  simp only [hA, ge_iff_le, h16, if_true]
  rw [hd]
  have hl : (cm.take (cm.length - 16)).length = cm.length - 16 := by simp
  split <;> simp [hl]

theorem decrypt_combined_short (wantM : Bool) (cm ad npub k : Bytes) (h : cm.length < 16) :
    crypto_aead_aes256gcm_decrypt wantM cm ad npub k = some (-1, none, 0) := by
  unfold crypto_aead_aes256gcm_decrypt crypto_aead_aes256gcm_decrypt_afternm
  have hA : ABYTES = 16 := rfl
  simp only [hA, ge_iff_le]
  rw [if_neg (by omega)]

end Sodium.GcmAesniP
