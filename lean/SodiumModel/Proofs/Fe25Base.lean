import SodiumModel.Proofs.ScReduceBase
set_option linter.unusedVariables false
/-
  Base of the refinement proofs for the radix-2^25.5 field arithmetic (`Model/Fe25Gen.lean`,
  `Model/Fe25.lean`), Mathlib-free.

  `R32 a i B` / `R64 a i B`: the machine word `a : Int32` / `a : Int64` is the image of the ideal
  integer `i` (`a.toInt = i`: no wrap-around has happened on the way to `a`) and `|i| ≤ B`.
  `R64` is `ScReduceP.R` (the relation used for the scalar limb code); its `R_add`, `R_sub`, `R_mul`,
  `R_weaken` are reused.  One lemma per syntactic form occurring in the model: each proves that the
  fixed-width operation does not overflow (so it equals the operation over `Int`) and propagates the bound.
  `Proofs/Fe25Gen.lean` (generated) applies them statement by statement.

  C semantics used (gcc/clang, two's complement): signed overflow is undefined behaviour — the `R*`
  lemmas show it does not occur; `>>` on a negative `int32_t`/`int64_t` is implementation-defined and is the
  ARITHMETIC shift (floor division) on gcc and clang: that is what `Int32`/`Int64` `>>>` is; conversion of an
  out-of-range value to a signed type is implementation-defined and is reduction modulo 2^N on gcc/clang:
  that is what `toInt32` / `toInt64` are.
-/
namespace Sodium.Fe25P
open Sodium Sodium.ScReduceP

/-- `a : Int32` is the machine image of the ideal integer `i`, and `|i| ≤ B` -/
def R32 (a : Int32) (i : Int) (B : Nat) : Prop := a.toInt = i ∧ -(B : Int) ≤ i ∧ i ≤ B

/-- the same for `Int64` -/
abbrev R64 (a : Int64) (i : Int) (B : Nat) : Prop := ScReduceP.R a i B

/-! ### Int32 -/

theorem toInt32_add_exact (a b : Int32) (h1 : -2^31 ≤ a.toInt + b.toInt) (h2 : a.toInt + b.toInt < 2^31) :
    (a + b).toInt = a.toInt + b.toInt := by
  rw [Int32.toInt_add]; apply Int.bmod_eq_of_le <;> omega

theorem toInt32_sub_exact (a b : Int32) (h1 : -2^31 ≤ a.toInt - b.toInt) (h2 : a.toInt - b.toInt < 2^31) :
    (a - b).toInt = a.toInt - b.toInt := by
  rw [Int32.toInt_sub]; apply Int.bmod_eq_of_le <;> omega

theorem toInt32_mul_exact (a b : Int32) (h1 : -2^31 ≤ a.toInt * b.toInt) (h2 : a.toInt * b.toInt < 2^31) :
    (a * b).toInt = a.toInt * b.toInt := by
  rw [Int32.toInt_mul]; apply Int.bmod_eq_of_le <;> omega

theorem toInt32_neg_exact (a : Int32) (h : -2^31 < a.toInt) : (-a).toInt = -a.toInt := by
  have := Int32.toInt_lt a
  rw [Int32.toInt_neg]; apply Int.bmod_eq_of_le <;> omega

theorem R32_weaken {a : Int32} {i : Int} {A B : Nat} (h : R32 a i A) (hAB : A ≤ B) : R32 a i B := by
  obtain ⟨h, h1, h2⟩ := h
  exact ⟨h, by omega, by omega⟩

theorem R32_self (a : Int32) (B : Nat) (h1 : -(B : Int) ≤ a.toInt) (h2 : a.toInt ≤ B) : R32 a a.toInt B :=
  ⟨rfl, h1, h2⟩

theorem R32_add {a b : Int32} {i j : Int} {A B : Nat} (ha : R32 a i A) (hb : R32 b j B) (h : A + B < 2^31) :
    R32 (a + b) (i + j) (A + B) := by
  obtain ⟨ha, ha1, ha2⟩ := ha; obtain ⟨hb, hb1, hb2⟩ := hb
  refine ⟨?_, by omega, by omega⟩
  rw [toInt32_add_exact] <;> omega

theorem R32_sub {a b : Int32} {i j : Int} {A B : Nat} (ha : R32 a i A) (hb : R32 b j B) (h : A + B < 2^31) :
    R32 (a - b) (i - j) (A + B) := by
  obtain ⟨ha, ha1, ha2⟩ := ha; obtain ⟨hb, hb1, hb2⟩ := hb
  refine ⟨?_, by omega, by omega⟩
  rw [toInt32_sub_exact] <;> omega

theorem R32_neg {a : Int32} {i : Int} {A : Nat} (ha : R32 a i A) (h : A < 2^31) : R32 (-a) (-i) A := by
  obtain ⟨ha, ha1, ha2⟩ := ha
  refine ⟨?_, by omega, by omega⟩
  rw [toInt32_neg_exact] <;> omega

/-- `c * a` in `int32_t` for a literal `c` with value `cn` -/
theorem R32_mulc (c : Int32) (cn : Nat) (hc : c.toInt = cn) {a : Int32} {i : Int} {A : Nat} (ha : R32 a i A)
    (h : cn * A < 2^31) : R32 (c * a) (cn * i) (cn * A) := by
  obtain ⟨ha, ha1, ha2⟩ := ha
  have hb := abs_mul_le (A := cn) (B := A) (i := cn) (j := i) (by omega) (by omega) ha1 ha2
  have hlt : ((cn * A : Nat) : Int) < 2 ^ 31 := by exact_mod_cast h
  refine ⟨?_, hb.1, hb.2⟩
  rw [toInt32_mul_exact, hc, ha] <;> rw [hc, ha] <;> omega

theorem R32_mulc2 {a : Int32} {i : Int} {A : Nat} (ha : R32 a i A) (h : 2 * A < 2^31) :
    R32 (2 * a) (2 * i) (2 * A) := R32_mulc 2 2 (by decide) ha h
theorem R32_mulc19 {a : Int32} {i : Int} {A : Nat} (ha : R32 a i A) (h : 19 * A < 2^31) :
    R32 (19 * a) (19 * i) (19 * A) := R32_mulc 19 19 (by decide) ha h
theorem R32_mulc38 {a : Int32} {i : Int} {A : Nat} (ha : R32 a i A) (h : 38 * A < 2^31) :
    R32 (38 * a) (38 * i) (38 * A) := R32_mulc 38 38 (by decide) ha h

/-- `>> k` on `int32_t` is the arithmetic shift: floor division by 2^k -/
theorem toInt32_shr_of (a k : Int32) (n : Nat) (h : (k.toBitVec.smod 32).toNat = n) :
    (a >>> k).toInt = a.toInt / ((2 ^ n : Nat) : Int) := by
  rw [← Int32.toInt_toBitVec, Int32.toBitVec_shiftRight, BitVec.toInt_sshiftRight', h, Int32.toInt_toBitVec,
    Int.shiftRight_eq_div_pow]

/-! ### Int32 → Int64 → Int32 -/

/-- `(int64_t) a` -/
theorem R64_of32 {a : Int32} {i : Int} {A : Nat} (ha : R32 a i A) : R64 a.toInt64 i A := by
  obtain ⟨ha, ha1, ha2⟩ := ha
  exact ⟨by rw [Int32.toInt_toInt64, ha], ha1, ha2⟩

/-- `a * (int64_t) b` for `int32_t a, b`: the `int64_t` product -/
theorem R64_prod {a b : Int32} {i j : Int} {A B : Nat} (ha : R32 a i A) (hb : R32 b j B) (h : A * B < 2^63) :
    R64 (a.toInt64 * b.toInt64) (i * j) (A * B) := R_mul (R64_of32 ha) (R64_of32 hb) h

/-- `(int32_t) a` for an `int64_t` in range -/
theorem R32_of64 {a : Int64} {i : Int} {A : Nat} (ha : R64 a i A) (h : A < 2^31) : R32 a.toInt32 i A := by
  obtain ⟨ha, ha1, ha2⟩ := ha
  refine ⟨?_, ha1, ha2⟩
  rw [Int64.toInt_toInt32, ha]; apply Int.bmod_eq_of_le <;> omega

/-! ### Int64: the carries -/

theorem one_shl_24 : ((1 : Int64) <<< 24) = 16777216 := by decide
theorem one_shl_25 : ((1 : Int64) <<< 25) = 33554432 := by decide
theorem one_shl_26 : ((1 : Int64) <<< 26) = 67108864 := by decide

theorem toInt_shr25 (a : Int64) : (a >>> 25).toInt = a.toInt / 33554432 := toInt_shr_of a 25 25 (by decide)
theorem toInt_shr26 (a : Int64) : (a >>> 26).toInt = a.toInt / 67108864 := toInt_shr_of a 26 26 (by decide)

theorem subcU25_eq (a c : Int64) :
    (a.toUInt64 - c.toUInt64 * ((1 : UInt64) <<< 25)).toInt64 = a - c * 33554432 := by
  rw [UInt64.toInt64_sub, UInt64.toInt64_mul, Int64.toInt64_toUInt64, Int64.toInt64_toUInt64]
  rfl
theorem subcU26_eq (a c : Int64) :
    (a.toUInt64 - c.toUInt64 * ((1 : UInt64) <<< 26)).toInt64 = a - c * 67108864 := by
  rw [UInt64.toInt64_sub, UInt64.toInt64_mul, Int64.toInt64_toUInt64, Int64.toInt64_toUInt64]
  rfl

/-- `carry = (a + (int64_t)(1L << 25)) >> 26` -/
theorem R_carryR26 {a : Int64} {i : Int} {A : Nat} (ha : R64 a i A) (h : A + 33554432 < 2^63) :
    R64 ((a + ((1 : Int64) <<< 25)) >>> 26) ((i + 33554432) / 67108864) ((A + 33554432) / 67108864 + 1) := by
  obtain ⟨ha, ha1, ha2⟩ := ha
  have hk : (33554432 : Int64).toInt = 33554432 := by decide
  refine ⟨?_, by omega, by omega⟩
  rw [toInt_shr26, one_shl_25, toInt_add_exact] <;> omega

/-- `carry = (a + (int64_t)(1L << 24)) >> 25` -/
theorem R_carryR25 {a : Int64} {i : Int} {A : Nat} (ha : R64 a i A) (h : A + 16777216 < 2^63) :
    R64 ((a + ((1 : Int64) <<< 24)) >>> 25) ((i + 16777216) / 33554432) ((A + 16777216) / 33554432 + 1) := by
  obtain ⟨ha, ha1, ha2⟩ := ha
  have hk : (16777216 : Int64).toInt = 16777216 := by decide
  refine ⟨?_, by omega, by omega⟩
  rw [toInt_shr25, one_shl_24, toInt_add_exact] <;> omega

/-- `a - carry * 2^26` after `carry = (a + 2^25) >> 26`, as `int64_t` operations -/
theorem R_carryR26_loS {a : Int64} {i : Int} {A : Nat} (ha : R64 a i A) (h : A + 33554432 < 2^63) :
    R64 (a - ((a + ((1 : Int64) <<< 25)) >>> 26) * 67108864)
      (i - (i + 33554432) / 67108864 * 67108864) 33554432 := by
  obtain ⟨hc, hc1, hc2⟩ := R_carryR26 ha h
  obtain ⟨ha, ha1, ha2⟩ := ha
  have hk : (67108864 : Int64).toInt = 67108864 := by decide
  have hm := toInt_mul_exact ((a + ((1 : Int64) <<< 25)) >>> 26) 67108864
    (by rw [hc, hk]; omega) (by rw [hc, hk]; omega)
  rw [hc, hk] at hm
  refine ⟨?_, by omega, by omega⟩
  rw [toInt_sub_exact, hm, ha] <;> rw [hm, ha] <;> omega

theorem R_carryR25_loS {a : Int64} {i : Int} {A : Nat} (ha : R64 a i A) (h : A + 16777216 < 2^63) :
    R64 (a - ((a + ((1 : Int64) <<< 24)) >>> 25) * 33554432)
      (i - (i + 16777216) / 33554432 * 33554432) 16777216 := by
  obtain ⟨hc, hc1, hc2⟩ := R_carryR25 ha h
  obtain ⟨ha, ha1, ha2⟩ := ha
  have hk : (33554432 : Int64).toInt = 33554432 := by decide
  have hm := toInt_mul_exact ((a + ((1 : Int64) <<< 24)) >>> 25) 33554432
    (by rw [hc, hk]; omega) (by rw [hc, hk]; omega)
  rw [hc, hk] at hm
  refine ⟨?_, by omega, by omega⟩
  rw [toInt_sub_exact, hm, ha] <;> rw [hm, ha] <;> omega

/-- `a -= carry * ((uint64_t) 1L << 26)` after `carry = (a + (int64_t)(1L << 25)) >> 26`: the rounded
    remainder, in [-2^25, 2^25) (the multiplication and subtraction are done in `uint64_t`, where
    wrap-around is defined; the result converted back is the exact difference) -/
theorem R_carryR26_lo {a : Int64} {i : Int} {A : Nat} (ha : R64 a i A) (h : A + 33554432 < 2^63) :
    R64 ((a.toUInt64 - ((a + ((1 : Int64) <<< 25)) >>> 26).toUInt64 * ((1 : UInt64) <<< 26)).toInt64)
      (i - (i + 33554432) / 67108864 * 67108864) 33554432 := by
  rw [subcU26_eq]; exact R_carryR26_loS ha h

theorem R_carryR25_lo {a : Int64} {i : Int} {A : Nat} (ha : R64 a i A) (h : A + 16777216 < 2^63) :
    R64 ((a.toUInt64 - ((a + ((1 : Int64) <<< 24)) >>> 25).toUInt64 * ((1 : UInt64) <<< 25)).toInt64)
      (i - (i + 16777216) / 33554432 * 33554432) 16777216 := by
  rw [subcU25_eq]; exact R_carryR25_loS ha h

/-- `a -= carry * ((int64_t) 1 << 26)` (the form used by `fe25519_mul32`) -/
theorem R_carryR26_lo' {a : Int64} {i : Int} {A : Nat} (ha : R64 a i A) (h : A + 33554432 < 2^63) :
    R64 (a - ((a + ((1 : Int64) <<< 25)) >>> 26) * ((1 : Int64) <<< 26))
      (i - (i + 33554432) / 67108864 * 67108864) 33554432 := by
  rw [one_shl_26]; exact R_carryR26_loS ha h

theorem R_carryR25_lo' {a : Int64} {i : Int} {A : Nat} (ha : R64 a i A) (h : A + 16777216 < 2^63) :
    R64 (a - ((a + ((1 : Int64) <<< 24)) >>> 25) * ((1 : Int64) <<< 25))
      (i - (i + 16777216) / 33554432 * 33554432) 16777216 := by
  rw [one_shl_25]; exact R_carryR25_loS ha h

/-- `carry * 19` in `int64_t` -/
theorem R_mulc19 {a : Int64} {i : Int} {A : Nat} (ha : R64 a i A) (h : A * 19 < 2^63) :
    R64 (a * 19) (i * 19) (A * 19) := by
  obtain ⟨ha, ha1, ha2⟩ := ha
  have hk : (19 : Int64).toInt = 19 := by decide
  have hm := toInt_mul_exact a 19 (by rw [hk]; omega) (by rw [hk]; omega)
  rw [hk] at hm
  exact ⟨by omega, by omega, by omega⟩

end Sodium.Fe25P
