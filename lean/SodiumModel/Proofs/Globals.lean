import SodiumModel.Model.Globals
/-
  Soundness of the bit-mask reachability / access check of Model/Globals.lean with respect to the
  semantic relation `Performs` (helper lemmas for Properties/C19Globals.lean).
-/
namespace GlobalsP
open Sodium.Model.Globals

/-! ### bit masks -/

theorem testBit_setBit (m k j : Nat) : (setBit m k).testBit j = (m.testBit j || decide (k = j)) := by
  simp [setBit, Nat.testBit_or, Nat.testBit_two_pow]

theorem testBit_foldl_or {α : Type} (g : α → Nat) (l : List α) (init j : Nat) :
    (l.foldl (fun acc x => acc ||| g x) init).testBit j = (init.testBit j || l.any (fun x => (g x).testBit j)) := by
  induction l generalizing init with
  | nil => simp
  | cons x xs ih => simp [List.foldl_cons, ih, Nat.testBit_or, Bool.or_assoc]

theorem testBit_foldl_set {α : Type} (p : α → Bool) (k : α → Nat) (l : List α) (init j : Nat) :
    (l.foldl (fun m x => if p x then setBit m (k x) else m) init).testBit j =
      (init.testBit j || l.any (fun x => p x && decide (k x = j))) := by
  induction l generalizing init with
  | nil => simp
  | cons x xs ih =>
    simp only [List.foldl_cons, ih, List.any_cons]
    cases hp : p x <;> simp [testBit_setBit, Bool.or_assoc]

theorem node_inj {f f' : Nat} {h h' : Bool} (e : node f h = node f' h') : f = f' ∧ h = h' := by
  unfold node at e
  cases h <;> cases h' <;> simp [Bool.toNat] at e ⊢ <;> omega

theorem mem_zipIdx {α : Type} {l : List α} {i : Nat} {x : α} (h : l[i]? = some x) : (x, i) ∈ l.zipIdx := by
  rw [List.mem_zipIdx_iff_getElem?]; exact h

theorem of_mem_zipIdx {α : Type} {l : List α} {p : α × Nat} (h : p ∈ l.zipIdx) : l[p.2]? = some p.1 := by
  have : (p.1, p.2) ∈ l.zipIdx := h
  rw [List.mem_zipIdx_iff_getElem?] at this; exact this

/-! ### the masks against their specifications -/

theorem exemptFn_of_mask {pol : Policy} {tbl : Table} {f : Nat}
    (h : (exemptFnMask pol tbl).testBit f = true) : exemptFn pol tbl f = true := by
  unfold exemptFnMask at h
  rw [testBit_foldl_set (fun p : Fn × Nat => (pol.exemptFns.map (·.1)).contains p.1.key) (fun p => p.2)] at h
  simp only [Nat.zero_testBit, Bool.false_or, List.any_eq_true, Bool.and_eq_true, decide_eq_true_eq] at h
  obtain ⟨p, hp, hc, rfl⟩ := h
  unfold exemptFn
  rw [of_mem_zipIdx hp]; exact hc

theorem mask_false_of_exemptFn {pol : Policy} {tbl : Table} {f : Nat}
    (h : exemptFn pol tbl f = false) : (exemptFnMask pol tbl).testBit f = false := by
  cases hm : (exemptFnMask pol tbl).testBit f with
  | false => rfl
  | true => rw [exemptFn_of_mask hm] at h; cases h

theorem objExempt_of_mask {pol : Policy} {tbl : Table} {o : Nat}
    (h : (objExemptMask pol tbl).testBit o = true) : objExempt pol tbl o = true := by
  unfold objExemptMask at h
  rw [testBit_foldl_set (fun p : Obj × Nat => p.1.tls || p.1.mutex || (pol.allowObjs.map (·.1)).contains p.1.key)
        (fun p => p.2)] at h
  simp only [Nat.zero_testBit, Bool.false_or, List.any_eq_true, Bool.and_eq_true, decide_eq_true_eq] at h
  obtain ⟨p, hp, hc, rfl⟩ := h
  unfold objExempt
  rw [of_mem_zipIdx hp]; exact hc

theorem succMask_bit {ex : Nat} {fn : Fn} {h : Bool} {c : Call} (hc : c ∈ fn.calls)
    (hi : c.initOnly = false) (he : ex.testBit c.callee = false) :
    (succMask ex fn h).testBit (node c.callee (c.lock.eff h)) = true := by
  unfold succMask
  rw [testBit_foldl_set (fun c : Call => !c.initOnly && !ex.testBit c.callee) (fun c => node c.callee (c.lock.eff h))]
  simp only [Nat.zero_testBit, Bool.false_or, List.any_eq_true, Bool.and_eq_true, decide_eq_true_eq]
  exact ⟨c, hc, by simp [hi, he], rfl⟩

theorem stepMask_mono (tbl : Table) (ex m j : Nat) (h : m.testBit j = true) :
    (stepMask tbl ex m).testBit j = true := by
  unfold stepMask
  rw [testBit_foldl_or (fun p : Fn × Nat => fnStep ex m p.1 p.2), h]; rfl

/-- a fixpoint of `stepMask` is closed under the (post-init, non-exempt) call edges -/
theorem closed_edge {tbl : Table} {ex m : Nat} (hcl : stepMask tbl ex m = m) {f : Nat} {h : Bool} {fn : Fn} {c : Call}
    (hm : m.testBit (node f h) = true) (hf : tbl.fns[f]? = some fn) (hc : c ∈ fn.calls)
    (hi : c.initOnly = false) (he : ex.testBit c.callee = false) :
    m.testBit (node c.callee (c.lock.eff h)) = true := by
  rw [← hcl]
  unfold stepMask
  rw [testBit_foldl_or (fun p : Fn × Nat => fnStep ex m p.1 p.2)]
  apply Bool.or_eq_true_iff.mpr; right
  rw [List.any_eq_true]
  refine ⟨(fn, f), mem_zipIdx hf, ?_⟩
  show (fnStep ex m fn f).testBit _ = true
  unfold fnStep
  rw [Nat.testBit_or]
  have hs := succMask_bit (ex := ex) (fn := fn) (h := h) hc hi he
  cases h
  · rw [if_pos hm, hs]; rfl
  · rw [if_pos hm, hs]; simp

theorem iterate_mono (tbl : Table) (ex : Nat) (fuel m j : Nat) (h : m.testBit j = true) :
    (iterate tbl ex fuel m).testBit j = true := by
  induction fuel generalizing m with
  | zero => exact h
  | succ n ih =>
    unfold iterate
    simp only
    split
    · exact h
    · exact ih _ (stepMask_mono tbl ex m j h)

theorem root_in_reach {tbl : Table} {pol : Policy} {f : Nat} (hr : isRoot tbl pol f) :
    (reachMask tbl (exemptFnMask pol tbl)).testBit (node f false) = true := by
  obtain ⟨fn, hf, hapi, hex⟩ := hr
  apply iterate_mono
  unfold rootMask
  rw [testBit_foldl_set (fun p : Fn × Nat => p.1.api && !(exemptFnMask pol tbl).testBit p.2) (fun p => node p.2 false)]
  simp only [Nat.zero_testBit, Bool.false_or, List.any_eq_true, Bool.and_eq_true, decide_eq_true_eq]
  exact ⟨(fn, f), mem_zipIdx hf, by simp [hapi, mask_false_of_exemptFn hex], rfl⟩

theorem written_bit {tbl : Table} {m f : Nat} {h : Bool} {fn : Fn} {a : Access}
    (hm : m.testBit (node f h) = true) (hf : tbl.fns[f]? = some fn) (ha : a ∈ fn.accesses)
    (hi : a.initOnly = false) (hw : a.write = true) : (writtenMask tbl m).testBit a.obj = true := by
  unfold writtenMask
  rw [testBit_foldl_or (fun p : Fn × Nat => fnWritten p.1 (m.testBit (node p.2 false) || m.testBit (node p.2 true)))]
  simp only [Nat.zero_testBit, Bool.false_or, List.any_eq_true]
  refine ⟨(fn, f), mem_zipIdx hf, ?_⟩
  show (fnWritten fn _).testBit a.obj = true
  unfold fnWritten
  rw [testBit_foldl_set (fun a : Access => !a.initOnly && a.write && (m.testBit (node f false) || m.testBit (node f true)))
        (fun a => a.obj)]
  simp only [Nat.zero_testBit, Bool.false_or, List.any_eq_true, Bool.and_eq_true, decide_eq_true_eq]
  refine ⟨a, ha, ⟨⟨by simp [hi], hw⟩, ?_⟩, rfl⟩
  cases h <;> simp [hm]

theorem unlocked_bit {tbl : Table} {m f : Nat} {h : Bool} {fn : Fn} {a : Access}
    (hm : m.testBit (node f h) = true) (hf : tbl.fns[f]? = some fn) (ha : a ∈ fn.accesses)
    (hi : a.initOnly = false) (hu : a.lock.eff h = false) : (unlockedMask tbl m).testBit a.obj = true := by
  unfold unlockedMask
  rw [testBit_foldl_or (fun p : Fn × Nat => fnUnlocked p.1 (m.testBit (node p.2 false)) (m.testBit (node p.2 true)))]
  simp only [Nat.zero_testBit, Bool.false_or, List.any_eq_true]
  refine ⟨(fn, f), mem_zipIdx hf, ?_⟩
  show (fnUnlocked fn _ _).testBit a.obj = true
  unfold fnUnlocked
  rw [testBit_foldl_set (fun a : Access => !a.initOnly && ((m.testBit (node f false) && !a.lock.eff false) ||
        (m.testBit (node f true) && !a.lock.eff true))) (fun a => a.obj)]
  simp only [Nat.zero_testBit, Bool.false_or, List.any_eq_true, Bool.and_eq_true, decide_eq_true_eq]
  refine ⟨a, ha, ⟨by simp [hi], ?_⟩, rfl⟩
  cases h <;> simp [hm, hu]

/-- every event a reachable node may perform is recorded in the two masks -/
theorem performs_recorded {tbl : Table} {pol : Policy} {m : Nat}
    (hcl : stepMask tbl (exemptFnMask pol tbl) m = m) {f : Nat} {h : Bool} {e : Eff}
    (hp : Performs tbl pol f h e) (hm : m.testBit (node f h) = true) :
    (e.write = true → (writtenMask tbl m).testBit e.obj = true) ∧
    (e.locked = false → (unlockedMask tbl m).testBit e.obj = true) := by
  induction hp with
  | here hf ha hi => exact ⟨fun hw => written_bit hm hf ha hi hw, fun hu => unlocked_bit hm hf ha hi hu⟩
  | call hf hc hi hex _ ih => exact ih (closed_edge hcl hm hf hc hi (mask_false_of_exemptFn hex))

theorem check_unfold {pol : Policy} {tbl : Table} (h : raceFreeWith pol tbl = true) :
    let r := reachMask tbl (exemptFnMask pol tbl)
    stepMask tbl (exemptFnMask pol tbl) r = r ∧
    ∀ o, (writtenMask tbl r).testBit o = true → (unlockedMask tbl r).testBit o = true → objExempt pol tbl o = true := by
  unfold raceFreeWith at h
  simp only [Bool.and_eq_true, beq_iff_eq] at h
  refine ⟨h.1, fun o hw hu => objExempt_of_mask ?_⟩
  have := congrArg (fun x => Nat.testBit x o) h.2
  simp only [Nat.testBit_or, Nat.testBit_and, hw, hu, Bool.and_self, Bool.true_or] at this
  exact this.symm

theorem threadRun_mem {tbl : Table} {pol : Policy} {fs : List Nat} {evs : List Eff}
    (h : ThreadRun tbl pol fs evs) : ∀ e ∈ evs, ∃ f, isRoot tbl pol f ∧ Performs tbl pol f false e := by
  induction h with
  | nil => intro e he; cases he
  | call hr hp _ ih =>
    intro e he
    rcases List.mem_append.mp he with h1 | h2
    · exact ⟨_, hr, hp e h1⟩
    · exact ih e h2

/-- an event of an interleaving is performed by some API call -/
theorem event_performed {tbl : Table} {pol : Policy} {progs : List (List Nat)} {trace : List Event}
    (hx : Interleaving tbl pol progs trace) {e : Event} (he : e ∈ trace) :
    ∃ f, isRoot tbl pol f ∧ Performs tbl pol f false e.eff := by
  apply threadRun_mem (hx e.tid) e.eff
  exact List.mem_map.mpr ⟨e, List.mem_filter.mpr ⟨he, by simp⟩, rfl⟩

/-- the facts the check establishes about an event of an interleaving -/
theorem event_facts {tbl : Table} {pol : Policy} (hrf : raceFreeWith pol tbl = true)
    {progs : List (List Nat)} {trace : List Event} (hx : Interleaving tbl pol progs trace) {e : Event} (he : e ∈ trace) :
    let r := reachMask tbl (exemptFnMask pol tbl)
    (e.eff.write = true → (writtenMask tbl r).testBit e.eff.obj = true) ∧
    (e.eff.locked = false → (unlockedMask tbl r).testBit e.eff.obj = true) := by
  obtain ⟨f, hr, hp⟩ := event_performed hx he
  exact performs_recorded (check_unfold hrf).1 hp (root_in_reach hr)

/-- core of the race-freedom theorem -/
theorem no_conflict {tbl : Table} {pol : Policy} (hrf : raceFreeWith pol tbl = true)
    {progs : List (List Nat)} {trace : List Event} (hx : Interleaving tbl pol progs trace)
    {e1 e2 : Event} (h1 : e1 ∈ trace) (h2 : e2 ∈ trace) (hobj : e1.eff.obj = e2.eff.obj)
    (hw : e1.eff.write = true ∨ e2.eff.write = true) :
    objExempt pol tbl e1.eff.obj = true ∨ (e1.eff.locked = true ∧ e2.eff.locked = true) := by
  have f1 := event_facts hrf hx h1
  have f2 := event_facts hrf hx h2
  have hck := (check_unfold hrf).2
  simp only at f1 f2 hck
  have hwr : (writtenMask tbl (reachMask tbl (exemptFnMask pol tbl))).testBit e1.eff.obj = true := by
    rcases hw with hw | hw
    · exact f1.1 hw
    · rw [hobj]; exact f2.1 hw
  cases hl1 : e1.eff.locked with
  | false => exact Or.inl (hck _ hwr (f1.2 hl1))
  | true =>
    cases hl2 : e2.eff.locked with
    | false => exact Or.inl (hck _ hwr (by rw [hobj]; exact f2.2 hl2))
    | true => exact Or.inr ⟨rfl, rfl⟩

end GlobalsP
