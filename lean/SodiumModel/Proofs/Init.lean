import SodiumModel.Model.Init
/-
  Helper lemmas for C19 (initialisation protocol). Put all lemmas in namespace Sodium.InitP.

  The proof is by an inductive invariant `Inv n s` phrased with `List.count` over `s.pcs`
  (number of threads at each program counter), so that preservation under `step` reduces to
  linear arithmetic (`omega`) once the effect of `List.set` on the six counts is known
  (`count_set_get`).  Progress uses the potential `mu` (remaining steps, weighted by pc), which
  strictly decreases on every effective step.
-/
open Sodium Sodium.Model
open Sodium.Model.Init
namespace Sodium.InitP

/-! ### counting lemmas -/

/-- effect of overwriting position `t` (holding `p`) by `p'` on the number of occurrences of `q` -/
theorem count_set_get {l : List Pc} {t : Nat} {p p' : Pc} (h : l[t]? = some p) (q : Pc) :
    (l.set t p').count q + (if p = q then 1 else 0) = l.count q + (if p' = q then 1 else 0) := by
  induction l generalizing t with
  | nil => simp at h
  | cons a l ih =>
    cases t with
    | zero =>
      simp at h
      subst h
      simp only [List.set_cons_zero, List.count_cons, beq_iff_eq]
      omega
    | succ t =>
      simp at h
      have := ih h
      simp only [List.set_cons_succ, List.count_cons, beq_iff_eq]
      omega

theorem lt_of_get {l : List Pc} {t : Nat} {p : Pc} (h : l[t]? = some p) : t < l.length := by
  rcases List.getElem?_eq_some_iff.mp h with ⟨h', _⟩
  exact h'

theorem get_set_self {l : List Pc} {t : Nat} {p p' : Pc} (h : l[t]? = some p) :
    (l.set t p')[t]? = some p' := by
  simp [lt_of_get h]

/-- the six counts after a `set`, in the form consumed by `omega` -/
theorem counts_set {l : List Pc} {t : Nat} {p p' : Pc} (h : l[t]? = some p) :
    ((l.set t p').count .start + (if p = .start then 1 else 0)
        = l.count .start + (if p' = .start then 1 else 0)) ∧
    ((l.set t p').count .locked + (if p = .locked then 1 else 0)
        = l.count .locked + (if p' = .locked then 1 else 0)) ∧
    ((l.set t p').count .body + (if p = .body then 1 else 0)
        = l.count .body + (if p' = .body then 1 else 0)) ∧
    ((l.set t p').count .bodyDone + (if p = .bodyDone then 1 else 0)
        = l.count .bodyDone + (if p' = .bodyDone then 1 else 0)) ∧
    ((l.set t p').count (.done 0) + (if p = .done 0 then 1 else 0)
        = l.count (.done 0) + (if p' = .done 0 then 1 else 0)) ∧
    ((l.set t p').count (.done 1) + (if p = .done 1 then 1 else 0)
        = l.count (.done 1) + (if p' = .done 1 then 1 else 0)) :=
  ⟨count_set_get h _, count_set_get h _, count_set_get h _, count_set_get h _,
   count_set_get h _, count_set_get h _⟩

/-! ### `rets` and `allDone` in terms of counts -/

def retOf : Pc → Option Nat
  | .done r => some r
  | _ => none

theorem rets_eq (s : State) : rets s = s.pcs.filterMap retOf := by
  unfold rets
  congr 1

theorem filter_rets_length (l : List Pc) (r : Nat) :
    ((l.filterMap retOf).filter (· == r)).length = l.count (.done r) := by
  induction l with
  | nil => rfl
  | cons a l ih =>
    cases a with
    | done r' =>
      by_cases hr : r' = r
      · subst hr
        simp [retOf, ih]
      · simp [retOf, ih, hr]
    | _ => simp [retOf, List.filterMap_cons, ih]

theorem rets_length (l : List Pc) :
    (l.filterMap retOf).length + l.count .start + l.count .locked + l.count .body
      + l.count .bodyDone = l.length := by
  induction l with
  | nil => rfl
  | cons a l ih =>
    cases a <;> simp [retOf, List.filterMap_cons] <;> omega

theorem filter01_length (l : List Nat) (h : ∀ r ∈ l, r = 0 ∨ r = 1) :
    (l.filter (· == 0)).length + (l.filter (· == 1)).length = l.length := by
  induction l with
  | nil => rfl
  | cons a l ih =>
    have ih' := ih (fun r hr => h r (List.mem_cons_of_mem _ hr))
    rcases h a (List.mem_cons_self) with ha | ha <;> subst ha <;>
      simp <;> omega

def isDone : Pc → Bool
  | .done _ => true
  | _ => false

theorem allDone_eq (s : State) : allDone s = s.pcs.all isDone := by
  unfold allDone
  congr 1

theorem allDone_counts {s : State} (h : allDone s = true) :
    s.pcs.count .start = 0 ∧ s.pcs.count .locked = 0 ∧ s.pcs.count .body = 0 ∧
    s.pcs.count .bodyDone = 0 := by
  rw [allDone_eq, List.all_eq_true] at h
  refine ⟨?_, ?_, ?_, ?_⟩ <;> (rw [List.count_eq_zero]; intro hm; have := h _ hm; simp [isDone] at this)

/-! ### the invariant -/

def Crit (o : Option Pc) : Prop := o = some .locked ∨ o = some .body ∨ o = some .bodyDone

structure Inv (n : Nat) (s : State) : Prop where
  len : s.pcs.length = n
  valid : ∀ r, Pc.done r ∈ s.pcs → r = 0 ∨ r = 1
  own_none : s.owner = none →
    s.pcs.count .locked + s.pcs.count .body + s.pcs.count .bodyDone = 0
  own_some : ∀ t, s.owner = some t →
    s.pcs.count .locked + s.pcs.count .body + s.pcs.count .bodyDone = 1 ∧ Crit s.pcs[t]?
  runs : s.bodyRuns = s.pcs.count .body + s.pcs.count .bodyDone + s.pcs.count (.done 0)
  writes : s.bodyWrites = s.pcs.count .bodyDone + s.pcs.count (.done 0)
  ini : s.initialized = true → s.pcs.count (.done 0) = 1
  ini0 : s.initialized = false → s.pcs.count (.done 0) = 0
  ini1 : s.initialized = false → s.pcs.count (.done 1) = 0
  ini2 : s.initialized = true → s.pcs.count .body + s.pcs.count .bodyDone = 0

theorem inv_init (n : Nat) : Inv n (init n) := by
  constructor
  · simp [init]
  · intro r hr
    have hr' : Pc.done r ∈ List.replicate n Pc.start := hr
    exact Pc.noConfusion (List.eq_of_mem_replicate hr')
  all_goals simp [init, List.count_replicate]

theorem crit_set {l : List Pc} {t t' : Nat} {p p' : Pc} (h : l[t]? = some p)
    (hc : Crit l[t']?) (hp' : Crit (some p')) : Crit (l.set t p')[t']? := by
  rw [List.getElem?_set]
  by_cases e : t = t'
  · subst e
    simp only [if_true, lt_of_get h]
    exact hp'
  · simpa [e] using hc

theorem valid_set {l : List Pc} {t : Nat} {p' : Pc}
    (hv : ∀ r, Pc.done r ∈ l → r = 0 ∨ r = 1) (hp' : ∀ r, p' = Pc.done r → r = 0 ∨ r = 1) :
    ∀ r, Pc.done r ∈ l.set t p' → r = 0 ∨ r = 1 := by
  intro r hr
  rcases List.mem_or_eq_of_mem_set hr with h | h
  · exact hv r h
  · exact hp' r h.symm

theorem inv_step {n : Nat} {s : State} (h : Inv n s) (t : Nat) : Inv n (step s t) := by
  have hsum : s.pcs.count .locked + s.pcs.count .body + s.pcs.count .bodyDone ≤ 1 := by
    cases ho : s.owner with
    | none => have := h.own_none ho; omega
    | some t' => have := (h.own_some t' ho).1; omega
  have hr := h.runs
  have hw := h.writes
  have hcases : (s.initialized = true ∧ s.pcs.count (.done 0) = 1 ∧
        s.pcs.count .body + s.pcs.count .bodyDone = 0) ∨
      (s.initialized = false ∧ s.pcs.count (.done 0) = 0 ∧ s.pcs.count (.done 1) = 0) := by
    cases hb : s.initialized with
    | true => exact Or.inl ⟨rfl, h.ini hb, h.ini2 hb⟩
    | false => exact Or.inr ⟨rfl, h.ini0 hb, h.ini1 hb⟩
  unfold step
  split
  · -- start
    rename_i hg
    split
    · rename_i ho
      have ho' : s.owner = none := by simpa using ho
      obtain ⟨c1, c2, c3, c4, c5, c6⟩ := counts_set (p' := Pc.locked) hg
      simp at c1 c2 c3 c4 c5 c6
      have hn := h.own_none ho'
      constructor <;> simp only [setPc, List.length_set]
      · exact h.len
      · exact valid_set h.valid (by simp)
      · simp
      · intro t' ht'
        simp at ht'
        subst ht'
        refine ⟨by omega, ?_⟩
        rw [get_set_self hg]; simp [Crit]
      · omega
      · omega
      · intro hi; simp [hi] at hcases; omega
      · intro hi; simp [hi] at hcases; omega
      · intro hi; simp [hi] at hcases; omega
      · intro hi; simp [hi] at hcases; omega
    · exact h
  · -- locked
    rename_i hg
    split
    · rename_i hi
      obtain ⟨c1, c2, c3, c4, c5, c6⟩ := counts_set (p' := Pc.done 1) hg
      simp at c1 c2 c3 c4 c5 c6
      simp [hi] at hcases
      constructor <;> simp only [setPc, List.length_set]
      · exact h.len
      · exact valid_set h.valid (by simp)
      · intro _; omega
      · intro t' ht'; simp at ht'
      · omega
      · omega
      · intro _; omega
      · intro hi'; simp [hi] at hi'
      · intro hi'; simp [hi] at hi'
      · intro _; omega
    · rename_i hi
      have hi : s.initialized = false := by simpa using hi
      obtain ⟨c1, c2, c3, c4, c5, c6⟩ := counts_set (p' := Pc.body) hg
      simp at c1 c2 c3 c4 c5 c6
      simp [hi] at hcases
      constructor <;> simp only [setPc, List.length_set]
      · exact h.len
      · exact valid_set h.valid (by simp)
      · intro ho; have := h.own_none ho; omega
      · intro t' ht'
        have := h.own_some t' ht'
        exact ⟨by omega, crit_set hg this.2 (by simp [Crit])⟩
      · omega
      · omega
      · intro hi'; simp [hi] at hi'
      · intro _; omega
      · intro _; omega
      · intro hi'; simp [hi] at hi'
  · -- body
    rename_i hg
    obtain ⟨c1, c2, c3, c4, c5, c6⟩ := counts_set (p' := Pc.bodyDone) hg
    simp at c1 c2 c3 c4 c5 c6
    constructor <;> simp only [setPc, List.length_set]
    · exact h.len
    · exact valid_set h.valid (by simp)
    · intro ho; have := h.own_none ho; omega
    · intro t' ht'
      have := h.own_some t' ht'
      exact ⟨by omega, crit_set hg this.2 (by simp [Crit])⟩
    · omega
    · omega
    · intro hi; simp [hi] at hcases; omega
    · intro hi; simp [hi] at hcases; omega
    · intro hi; simp [hi] at hcases; omega
    · intro hi; simp [hi] at hcases; omega
  · -- bodyDone
    rename_i hg
    obtain ⟨c1, c2, c3, c4, c5, c6⟩ := counts_set (p' := Pc.done 0) hg
    simp at c1 c2 c3 c4 c5 c6
    have hi : s.initialized = false := by
      rcases hcases with ⟨_, _, hx⟩ | ⟨hx, _⟩
      · omega
      · exact hx
    simp [hi] at hcases
    constructor <;> simp only [setPc, List.length_set]
    · exact h.len
    · exact valid_set h.valid (by simp)
    · intro _; omega
    · intro t' ht'; simp at ht'
    · omega
    · omega
    · intro _; omega
    · intro hi'; simp at hi'
    · intro hi'; simp at hi'
    · intro _; omega
  · exact h

theorem inv_run {n : Nat} {s : State} (h : Inv n s) (sched : List Nat) : Inv n (run s sched) := by
  unfold run
  induction sched generalizing s with
  | nil => exact h
  | cons t l ih => exact ih (inv_step h t)

theorem inv_reach (n : Nat) (sched : List Nat) : Inv n (run (init n) sched) :=
  inv_run (inv_init n) sched

/-! ### consequences of the invariant -/

theorem inv_sum_le {n : Nat} {s : State} (h : Inv n s) :
    s.pcs.count .locked + s.pcs.count .body + s.pcs.count .bodyDone ≤ 1 := by
  cases ho : s.owner with
  | none => have := h.own_none ho; omega
  | some t' => have := (h.own_some t' ho).1; omega

theorem inv_rets_valid {n : Nat} {s : State} (h : Inv n s) : ∀ r ∈ rets s, r = 0 ∨ r = 1 := by
  intro r hr
  rw [rets_eq, List.mem_filterMap] at hr
  obtain ⟨p, hp, hpr⟩ := hr
  cases p <;> simp [retOf] at hpr
  subst hpr
  exact h.valid _ hp

theorem inv_cases {n : Nat} {s : State} (h : Inv n s) :
    (s.initialized = true ∧ s.pcs.count (.done 0) = 1 ∧
        s.pcs.count .body + s.pcs.count .bodyDone = 0) ∨
      (s.initialized = false ∧ s.pcs.count (.done 0) = 0 ∧ s.pcs.count (.done 1) = 0) := by
  cases hb : s.initialized with
  | true => exact Or.inl ⟨rfl, h.ini hb, h.ini2 hb⟩
  | false => exact Or.inr ⟨rfl, h.ini0 hb, h.ini1 hb⟩

theorem inv_safety {n : Nat} {s : State} (h : Inv n s) :
    s.bodyRuns ≤ 1 ∧ s.bodyWrites ≤ s.bodyRuns ∧
    ((rets s).filter (· == 0)).length ≤ 1 ∧
    (∀ r ∈ rets s, r = 0 ∨ r = 1) ∧
    ((rets s) ≠ [] → s.initialized = true ∧ s.bodyWrites = 1) := by
  have hsum := inv_sum_le h
  have hr := h.runs
  have hw := h.writes
  have hc := inv_cases h
  have h0 : ((rets s).filter (· == 0)).length = s.pcs.count (.done 0) := by
    rw [rets_eq]; exact filter_rets_length _ 0
  refine ⟨by omega, by omega, by omega, inv_rets_valid h, ?_⟩
  intro hne
  obtain ⟨r, hr'⟩ := List.exists_mem_of_ne_nil _ hne
  have hv := inv_rets_valid h r hr'
  rw [rets_eq, List.mem_filterMap] at hr'
  obtain ⟨p, hp, hpr⟩ := hr'
  cases p <;> simp [retOf] at hpr
  subst hpr
  have hpos := List.count_pos_iff.mpr hp
  rcases hc with ⟨hi, _, _⟩ | ⟨_, _, _⟩
  · exact ⟨hi, by omega⟩
  · rcases hv with hv | hv <;> subst hv <;> omega

theorem inv_once {n : Nat} {s : State} (h : Inv n s) (hn : 0 < n) (hd : allDone s = true) :
    s.bodyRuns = 1 ∧ ((rets s).filter (· == 0)).length = 1 ∧
    ((rets s).filter (· == 1)).length = n - 1 ∧ (rets s).length = n := by
  obtain ⟨d1, d2, d3, d4⟩ := allDone_counts hd
  have hlen : (rets s).length = n := by
    have := rets_length s.pcs
    rw [rets_eq, ← h.len]; omega
  have hne : rets s ≠ [] := by
    intro he; rw [he] at hlen; simp at hlen; omega
  obtain ⟨-, -, -, hv, hfin⟩ := inv_safety h
  obtain ⟨hi, hw⟩ := hfin hne
  have h0 : ((rets s).filter (· == 0)).length = s.pcs.count (.done 0) := by
    rw [rets_eq]; exact filter_rets_length _ 0
  have hini := h.ini hi
  have h01 := filter01_length (rets s) hv
  have hr := h.runs
  refine ⟨by omega, by omega, by omega, hlen⟩

/-- in a state satisfying the invariant that is not final, some thread can move -/
theorem inv_no_deadlock {n : Nat} {s : State} (h : Inv n s) (hd : allDone s = false) :
    ∃ t, t < n ∧ step s t ≠ s := by
  cases ho : s.owner with
  | some t' =>
    obtain ⟨_, hc⟩ := h.own_some t' ho
    have hlt : t' < n := by
      rcases hc with hc | hc | hc <;> (rw [← h.len]; exact lt_of_get hc)
    refine ⟨t', hlt, ?_⟩
    rcases hc with hc | hc | hc
    · unfold step; rw [hc]; simp only
      split
      · intro he
        have := congrArg State.owner he
        simp [ho] at this
      · intro he
        have := congrArg State.bodyRuns he
        simp at this
    · unfold step; rw [hc]; simp only
      intro he
      have := congrArg State.bodyWrites he
      simp at this
    · unfold step; rw [hc]; simp only
      intro he
      have := congrArg State.owner he
      simp [ho] at this
  | none =>
    have hz := h.own_none ho
    rw [allDone_eq, List.all_eq_false] at hd
    obtain ⟨p, hp, hnd⟩ := hd
    have hps : p = .start := by
      have hpos := List.count_pos_iff.mpr hp
      cases p with
      | start => rfl
      | done r => simp [isDone] at hnd
      | locked => omega
      | body => omega
      | bodyDone => omega
    subst hps
    obtain ⟨t, ht⟩ := List.getElem?_of_mem hp
    refine ⟨t, by rw [← h.len]; exact lt_of_get ht, ?_⟩
    unfold step; rw [ht]; simp only [ho, Option.isNone_none, if_true]
    intro he
    have := congrArg State.owner he
    simp [ho] at this

/-! ### progress: the potential `mu` -/

/-- weighted number of remaining steps -/
def mu (s : State) : Nat :=
  4 * s.pcs.count .start + 3 * s.pcs.count .locked + 2 * s.pcs.count .body + s.pcs.count .bodyDone

theorem mu_step (s : State) (t : Nat) : step s t = s ∨ mu (step s t) < mu s := by
  unfold step
  split
  · rename_i hg
    split
    · right
      obtain ⟨c1, c2, c3, c4, c5, c6⟩ := counts_set (p' := Pc.locked) hg
      simp at c1 c2 c3 c4 c5 c6
      simp only [mu, setPc]; omega
    · left; rfl
  · rename_i hg
    split
    · right
      obtain ⟨c1, c2, c3, c4, c5, c6⟩ := counts_set (p' := Pc.done 1) hg
      simp at c1 c2 c3 c4 c5 c6
      simp only [mu, setPc]; omega
    · right
      obtain ⟨c1, c2, c3, c4, c5, c6⟩ := counts_set (p' := Pc.body) hg
      simp at c1 c2 c3 c4 c5 c6
      simp only [mu, setPc]; omega
  · rename_i hg
    right
    obtain ⟨c1, c2, c3, c4, c5, c6⟩ := counts_set (p' := Pc.bodyDone) hg
    simp at c1 c2 c3 c4 c5 c6
    simp only [mu, setPc]; omega
  · rename_i hg
    right
    obtain ⟨c1, c2, c3, c4, c5, c6⟩ := counts_set (p' := Pc.done 0) hg
    simp at c1 c2 c3 c4 c5 c6
    simp only [mu, setPc]; omega
  · left; rfl

theorem mu_step_le (s : State) (t : Nat) : mu (step s t) ≤ mu s := by
  rcases mu_step s t with h | h
  · rw [h]; exact Nat.le_refl _
  · omega

theorem mu_run_le (s : State) (l : List Nat) : mu (run s l) ≤ mu s := by
  unfold run
  induction l generalizing s with
  | nil => exact Nat.le_refl _
  | cons a l ih => exact Nat.le_trans (ih (step s a)) (mu_step_le s a)

/-- a pass over a list containing a thread that can move strictly decreases the potential -/
theorem mu_pass (s : State) (l : List Nat) (h : ∃ t ∈ l, step s t ≠ s) :
    mu (run s l) < mu s := by
  induction l generalizing s with
  | nil => obtain ⟨t, ht, _⟩ := h; simp at ht
  | cons a l ih =>
    show mu (run (step s a) l) < mu s
    rcases mu_step s a with he | hlt
    · rw [he]
      apply ih
      obtain ⟨t, ht, hne⟩ := h
      rcases List.mem_cons.mp ht with e | hm
      · subst e; exact absurd he hne
      · exact ⟨t, hm, hne⟩
    · exact Nat.lt_of_le_of_lt (mu_run_le _ l) hlt

theorem mu_init (n : Nat) : mu (init n) = 4 * n := by
  simp [mu, init, List.count_replicate]

theorem run_append (s : State) (l₁ l₂ : List Nat) : run s (l₁ ++ l₂) = run (run s l₁) l₂ := by
  simp [run, List.foldl_append]

/-- `k` round-robin passes complete every thread as soon as the potential is at most `k` -/
theorem rounds_complete {n : Nat} (k : Nat) {s : State} (h : Inv n s) (hk : mu s ≤ k) :
    allDone (run s (List.replicate k (List.range n)).flatten) = true := by
  induction k generalizing s with
  | zero =>
    cases hd : allDone s with
    | true => simpa [run] using hd
    | false =>
      obtain ⟨t, ht, hne⟩ := inv_no_deadlock h hd
      rcases mu_step s t with he | hlt
      · exact absurd he hne
      · omega
  | succ k ih =>
    rw [List.replicate_succ, List.flatten_cons, run_append]
    apply ih (inv_run h _)
    cases hd : allDone s with
    | true =>
      obtain ⟨d1, d2, d3, d4⟩ := allDone_counts hd
      have : mu s = 0 := by simp [mu, d1, d2, d3, d4]
      have := mu_run_le s (List.range n)
      omega
    | false =>
      obtain ⟨t, ht, hne⟩ := inv_no_deadlock h hd
      have := mu_pass s (List.range n) ⟨t, List.mem_range.mpr ht, hne⟩
      omega

theorem round_robin_completes (n : Nat) :
    allDone (run (init n) ((List.replicate (4 * n + 4) (List.range n)).flatten)) = true :=
  rounds_complete (4 * n + 4) (inv_init n) (by rw [mu_init]; omega)

end Sodium.InitP
