import SodiumModel.Proofs.GcmAesniIface
/-
  Loop-level facts about the GHASH code (core Lean only): `ghFold` algebra, the generic
  `for (; i + step <= len; i += step)` rule for a body that hashes `k` blocks, and
  `gh_ad_blocks` = sequential GHASH over `len / 16` blocks, given that each aggregated group is.
-/
namespace Sodium.GcmAesniP
open Sodium Sodium.Model.GcmAesni

theorem ghFold_zero' (h0 acc : BlockVec) (d : Bytes) : ghFold h0 acc d 0 = acc := rfl
theorem ghFold_succ' (h0 acc : BlockVec) (d : Bytes) (n : Nat) :
    ghFold h0 acc d (n + 1) = ghB h0 (ghFold h0 acc d n) (d.drop (16 * n)) := by
  unfold ghFold
  rw [List.range_succ, List.foldl_append]
  rfl

theorem ghFold_add (h0 acc : BlockVec) (d : Bytes) (a b : Nat) :
    ghFold h0 acc d (a + b) = ghFold h0 (ghFold h0 acc d a) (d.drop (16 * a)) b := by
  induction b with
  | zero => rw [Nat.add_zero, ghFold_zero']
  | succ b ih =>
    have e : 16 * a + 16 * b = 16 * (a + b) := by omega
    rw [← Nat.add_assoc, ghFold_succ', ghFold_succ', ih, List.drop_drop, e]

/-- a `for (; i + step <= len; i += step)` loop whose body hashes `k` blocks at offset `i` -/
theorem forLoop_gh (h0 : BlockVec) (p : Bytes) (k step len : Nat) (hk : 1 ≤ k) (hs : step = 16 * k)
    (f : Nat → BlockVec → BlockVec) (hf : ∀ i a, f i a = ghFold h0 a (p.drop i) k) :
    ∀ (fuel i : Nat) (acc : BlockVec), len + 1 ≤ fuel + i →
      forLoop (fun i => i + step ≤ len) step f fuel i acc
        = (i + step * ((len - i) / step), ghFold h0 acc (p.drop i) (k * ((len - i) / step))) := by
  intro fuel
  induction fuel with
  | zero =>
    intro i acc h
    have : (len - i) / step = 0 := by
      apply Nat.div_eq_of_lt; omega
    simp [forLoop, this, ghFold_zero']
  | succ fuel ih =>
    intro i acc h
    unfold forLoop
    by_cases hc : i + step ≤ len
    · simp only [hc, decide_true, if_true]
      rw [ih _ _ (by omega), hf]
      have hd : (len - i) / step = (len - (i + step)) / step + 1 := by
        have : len - i = (len - (i + step)) + step := by omega
        rw [this, Nat.add_div_right _ (by omega)]
      rw [hd, Nat.mul_add, Nat.mul_one, Nat.mul_add, Nat.mul_one]
      have hg : ghFold h0 acc (p.drop i) (k * ((len - (i + step)) / step) + k)
          = ghFold h0 (ghFold h0 acc (p.drop i) k) (p.drop (i + step)) (k * ((len - (i + step)) / step)) := by
        have e2 : i + 16 * k = i + step := by omega
        rw [Nat.add_comm, ghFold_add, List.drop_drop, e2]
      have e1 : i + step + step * ((len - (i + step)) / step) = i + (step * ((len - (i + step)) / step) + step) := by omega
      rw [hg, e1]
    · have : (len - i) / step = 0 := by
        apply Nat.div_eq_of_lt; omega
      simp [hc, this, ghFold_zero']

theorem ad_blocks_ok {st : State} {h0 : BlockVec}
    (hagg : ∀ (acc : BlockVec) (p : Bytes) (n : Nat), 1 ≤ n → n ≤ PC_COUNT → gh_agg st acc p n = ghFold h0 acc p n)
    (acc : BlockVec) (p : Bytes) (len : Nat) (hl : len % 16 = 0) :
    gh_ad_blocks st acc p len = ghFold h0 acc p (len / 16) := by
  unfold gh_ad_blocks
  dsimp only
  have h1 := forLoop_gh h0 p PC_COUNT (PC_COUNT * 16) len (by decide) (by decide) (fun i acc => gh_agg st acc (p.drop i) PC_COUNT)
    (fun i a => hagg a _ PC_COUNT (by decide) (by decide)) (len + 1) 0 acc (by omega)
  rw [h1]
  dsimp only
  generalize hi1 : 0 + PC_COUNT * 16 * ((len - 0) / (PC_COUNT * 16)) = i1
  generalize ha1 : ghFold h0 acc (List.drop 0 p) (PC_COUNT * ((len - 0) / (PC_COUNT * 16))) = a1
  have h2 := forLoop_gh h0 p (PC_COUNT / 2) (PC_COUNT * 16 / 2) len (by decide) (by decide) (fun i acc => gh_agg st acc (p.drop i) (PC_COUNT / 2))
    (fun i a => hagg a _ (PC_COUNT / 2) (by decide) (by decide)) (len + 1) i1 a1 (by omega)
  rw [h2]
  dsimp only
  generalize hi2 : i1 + PC_COUNT * 16 / 2 * ((len - i1) / (PC_COUNT * 16 / 2)) = i2
  generalize ha2 : ghFold h0 a1 (List.drop i1 p) (PC_COUNT / 2 * ((len - i1) / (PC_COUNT * 16 / 2))) = a2
  have h3 := forLoop_gh h0 p 4 (4 * 16) len (by decide) (by decide) (fun i acc => gh_agg st acc (p.drop i) 4)
    (fun i a => hagg a _ 4 (by decide) (by decide)) (len + 1) i2 a2 (by omega)
  rw [h3]
  dsimp only
  generalize hi3 : i2 + 4 * 16 * ((len - i2) / (4 * 16)) = i3
  generalize ha3 : ghFold h0 a2 (List.drop i2 p) (4 * ((len - i2) / (4 * 16))) = a3
  have h4 := forLoop_gh h0 p 2 (2 * 16) len (by decide) (by decide) (fun i acc => gh_agg st acc (p.drop i) 2)
    (fun i a => hagg a _ 2 (by decide) (by decide)) (len + 1) i3 a3 (by omega)
  rw [h4]
  dsimp only
  generalize hi4 : i3 + 2 * 16 * ((len - i3) / (2 * 16)) = i4
  generalize ha4 : ghFold h0 a3 (List.drop i3 p) (2 * ((len - i3) / (2 * 16))) = a4
  -- block counts
  simp only [PC_COUNT, PARALLEL_BLOCKS] at hi1 ha1 hi2 ha2
  have e1 : i1 = 16 * (14 * (len / 224)) := by omega
  have e2 : i2 = i1 + 16 * (7 * ((len - i1) / 112)) := by omega
  have e3 : i3 = i2 + 16 * (4 * ((len - i2) / 64)) := by omega
  have e4 : i4 = i3 + 16 * (2 * ((len - i3) / 32)) := by omega
  have c1 : a1 = ghFold h0 acc p (14 * (len / 224)) := by rw [← ha1]; simp
  have c2 : a2 = ghFold h0 acc p (14 * (len / 224) + 7 * ((len - i1) / 112)) := by
    rw [← ha2, c1, ghFold_add, e1]
  have c3 : a3 = ghFold h0 acc p (14 * (len / 224) + 7 * ((len - i1) / 112) + 4 * ((len - i2) / 64)) := by
    rw [← ha3, c2, ghFold_add _ _ _ (14 * (len / 224) + 7 * ((len - i1) / 112)), e2, e1]
    try (congr 2; omega)
  have c4 : a4 = ghFold h0 acc p (14 * (len / 224) + 7 * ((len - i1) / 112) + 4 * ((len - i2) / 64) + 2 * ((len - i3) / 32)) := by
    rw [← ha4, c3, ghFold_add _ _ _ (14 * (len / 224) + 7 * ((len - i1) / 112) + 4 * ((len - i2) / 64)), e3, e2, e1]
    try (congr 2; omega)
  have hb : i4 = 16 * (14 * (len / 224) + 7 * ((len - i1) / 112) + 4 * ((len - i2) / 64) + 2 * ((len - i3) / 32)) := by omega
  generalize 14 * (len / 224) + 7 * ((len - i1) / 112) + 4 * ((len - i2) / 64) + 2 * ((len - i3) / 32) = m at c4 hb
  split
  · have hm : len / 16 = m + 1 := by omega
    rw [hagg _ _ 1 (by decide) (by decide), hm, c4, hb]
    exact (ghFold_add h0 acc p m 1).symm
  · have hm : len / 16 = m := by omega
    rw [hm, c4]

end Sodium.GcmAesniP
