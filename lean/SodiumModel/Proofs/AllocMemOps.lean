import SodiumModel.Proofs.AllocMemGeo
/-
  Helper lemmas for C17Mem, part 3: `_sodium_malloc` / `sodium_malloc` step by step.
  Namespace Sodium.AllocMemP.
-/
open Sodium Sodium.Model Sodium.Model.AllocMem
open Sodium.Model.Alloc (pageRound)
namespace Sodium.AllocMemP

def canPtr (pg base size : UInt64) : UInt64 := base + pg * 2 + R pg size - (16 + size)
def T (pg size : UInt64) : UInt64 := pg + pg + R pg size + pg
def st1 (s : State) (base size : UInt64) : State := (sys_mmap s (some base) (T s.pageSize size)).1
def st2 (s : State) (base size : UInt64) : State :=
  (sys_mprotect (st1 s base size) (base + s.pageSize) s.pageSize .none).1
def st3 (s : State) (base size : UInt64) : State :=
  (sys_mprotect (st2 s base size) (base + s.pageSize * 2 + R s.pageSize size) s.pageSize .none).1
def st4 (s : State) (base size : UInt64) : State :=
  (sodium_mlock (st3 s base size) (base + s.pageSize * 2) (R s.pageSize size)).1

theorem malloc_unfold (s : State) (base size : UInt64)
    (h1 : ¬ size ≥ sizeMaxSub (s.pageSize * 5)) (h2 : (s.pageSize ≤ 16 || s.pageSize < 8) = false)
    (h3 : base ≠ 0) :
    _sodium_malloc s (some base) size =
      match memcpy (st4 s base size) (canPtr s.pageSize base size) ((st4 s base size).canary.take 16) with
      | .error e => .error e
      | .ok s5 =>
      match memcpy s5 base (toLE 8 (R s.pageSize size).toNat) with
      | .error e => .error e
      | .ok s6 =>
      match _unprotected_ptr_from_user_ptr (sys_mprotect s6 base s.pageSize .ro).1 (userPtr s.pageSize base size) with
      | .error e => .error e
      | .ok u => if u ≠ base + s.pageSize * 2 then .error .abort
                 else .ok ((sys_mprotect s6 base s.pageSize .ro).1, userPtr s.pageSize base size) := by
  unfold _sodium_malloc
  simp only [h1, h2, if_false, Bool.false_eq_true, _alloc_aligned, sys_mmap, h3]
  rfl


/-- the static facts about a request: page size a power of two 2^5..2^30, 16-byte canary, size below
    the ENOMEM guard, `base` = a non-NULL page-aligned mmap result whose mapping ends below 2^64 -/
structure Geo (s : State) (base size : UInt64) : Prop where
  pgk : ∃ k, 5 ≤ k ∧ k ≤ 30 ∧ s.pageSize.toNat = 2 ^ k
  can : s.canary.length = 16
  bound : size.toNat < 2 ^ 64 - 1 - 5 * s.pageSize.toNat
  aligned : s.pageSize.toNat ∣ base.toNat
  pos : 0 < base.toNat
  fits : base.toNat + 3 * s.pageSize.toNat + (R s.pageSize size).toNat < 2 ^ 64

theorem Geo.congr {s s' : State} {base size : UInt64} (g : Geo s base size)
    (h1 : s'.pageSize = s.pageSize) (h2 : s'.canary = s.canary) : Geo s' base size := by
  obtain ⟨a, b, c, d, e, f⟩ := g
  exact ⟨by rw [h1]; exact a, by rw [h2]; exact b, by rw [h1]; exact c, by rw [h1]; exact d, e,
    by rw [h1]; exact f⟩

theorem mprotect_ok' (s : State) (pg : UInt64) (hps : s.pageSize = pg) (addr len : UInt64) (p : Perm)
    (hP : 0 < pg.toNat) (ha : pg.toNat ∣ addr.toNat) (hl : pg.toNat ∣ len.toNat)
    (hm : ∀ x, addr.toNat ≤ x → x < addr.toNat + len.toNat → permA s x ≠ .unmapped) :
    (sys_mprotect s addr len p).2 = 0 ∧
    ∀ x, permA (sys_mprotect s addr len p).1 x =
      if addr.toNat ≤ x ∧ x < addr.toNat + len.toNat then p else permA s x := by
  subst hps; exact mprotect_ok s addr len p hP ha hl hm

/-- page protections of the mapping after mmap + the two guard-page mprotects + mlock -/
theorem st4_spec (s : State) (base size : UInt64) (g : Geo s base size) :
    (st4 s base size).data = s.data ∧ (st4 s base size).pageSize = s.pageSize ∧
    (st4 s base size).canary = s.canary ∧ (st4 s base size).errno = s.errno ∧
    (st4 s base size).log = s.log ++ [.mmap (T s.pageSize size) base,
      .mprotect (base + s.pageSize) s.pageSize .none,
      .mprotect (base + s.pageSize * 2 + R s.pageSize size) s.pageSize .none,
      .mlock (base + s.pageSize * 2) (R s.pageSize size)] ∧
    ∀ x, permA (st4 s base size) x =
      if base.toNat + s.pageSize.toNat ≤ x ∧ x < base.toNat + 2 * s.pageSize.toNat then .none
      else if base.toNat + 2 * s.pageSize.toNat + (R s.pageSize size).toNat ≤ x ∧
              x < base.toNat + 3 * s.pageSize.toNat + (R s.pageSize size).toNat then .none
      else if base.toNat ≤ x ∧ x < base.toNat + 3 * s.pageSize.toNat + (R s.pageSize size).toNat then .rw
      else permA s x := by
  obtain ⟨⟨k, hk5, hk30, hpg⟩, hcan, hb, hal, hpos, hfit⟩ := g
  obtain ⟨hlo, hhi, r0, r1, r2, h2, h3, h4, h5, h6, h7, h8, h9⟩ :=
    geo_facts s.pageSize size base k hk5 hk30 hpg hb hfit
  have hP : 0 < s.pageSize.toNat := by omega
  -- mmap
  have p1 : ∀ x, permA (st1 s base size) x =
      if base.toNat ≤ x ∧ x < base.toNat + (T s.pageSize size).toNat then .rw else permA s x :=
    mmap_ok s base (T s.pageSize size) hP hal (by
      unfold T; rw [h3]; exact Nat.dvd_add (Nat.dvd_mul_left _ _) r0)
  have hT : (T s.pageSize size).toNat = 3 * s.pageSize.toNat + (R s.pageSize size).toNat := h3
  rw [hT] at p1
  have e1 : (st1 s base size).pageSize = s.pageSize := rfl
  -- first guard page
  have f2 := mprotect_frame (st1 s base size) (base + s.pageSize) s.pageSize .none
  have p2 := (mprotect_ok' (st1 s base size) s.pageSize e1 (base + s.pageSize) s.pageSize .none hP
    (by rw [h4]; exact Nat.dvd_add hal (Nat.dvd_refl _)) (Nat.dvd_refl _)
    (fun x hx1 hx2 => by rw [p1 x, if_pos (by omega)]; decide)).2
  have e2 : (st2 s base size).pageSize = s.pageSize := f2.2.1.trans e1
  -- second guard page
  have f3 := mprotect_frame (st2 s base size) (base + s.pageSize * 2 + R s.pageSize size) s.pageSize .none
  have p3 := (mprotect_ok' (st2 s base size) s.pageSize e2 (base + s.pageSize * 2 + R s.pageSize size)
    s.pageSize .none hP
    (by rw [h6]; exact Nat.dvd_add (Nat.dvd_add hal (Nat.dvd_mul_left _ _)) r0) (Nat.dvd_refl _)
    (fun x hx1 hx2 => by
      show permA (sys_mprotect (st1 s base size) (base + s.pageSize) s.pageSize .none).1 x ≠ _
      rw [p2 x, if_neg (by omega), p1 x, if_pos (by omega)]; decide)).2
  refine ⟨?_, ?_, ?_, ?_, ?_, fun x => ?_⟩
  · exact f3.1.trans f2.1
  · exact f3.2.1.trans e2
  · exact f3.2.2.1.trans f2.2.2.1
  · exact f3.2.2.2.1.trans f2.2.2.2.1
  · show (st3 s base size).log ++ _ = _
    show (sys_mprotect (st2 s base size) _ _ _).1.log ++ _ = _
    rw [f3.2.2.2.2]
    show ((sys_mprotect (st1 s base size) _ _ _).1.log ++ _) ++ _ = _
    rw [f2.2.2.2.2]
    show (((s.log ++ _) ++ _) ++ _) ++ _ = _
    simp
  · show permA (sys_mprotect (st2 s base size) _ _ _).1 x = _
    rw [p3 x]
    show (if _ then _ else permA (sys_mprotect (st1 s base size) _ _ _).1 x) = _
    rw [p2 x, p1 x, h4, h6]
    by_cases c1 : base.toNat + s.pageSize.toNat ≤ x ∧ x < base.toNat + 2 * s.pageSize.toNat
    · rw [if_pos c1, if_neg (by omega), if_pos (by omega)]
    · rw [if_neg c1]
      by_cases c2 : base.toNat + 2 * s.pageSize.toNat + (R s.pageSize size).toNat ≤ x ∧
              x < base.toNat + 3 * s.pageSize.toNat + (R s.pageSize size).toNat
      · rw [if_pos c2, if_pos (by omega)]
      · rw [if_neg c2, if_neg (by omega), if_neg (by omega)]
        by_cases c3 : base.toNat ≤ x ∧ x < base.toNat + 3 * s.pageSize.toNat + (R s.pageSize size).toNat
        · rw [if_pos c3, if_pos (by omega)]
        · rw [if_neg c3, if_neg (by omega)]

/-! ### reading back -/

theorem readBytes_eq (s : State) (a : Nat) (bs : Bytes)
    (h : ∀ i, i < bs.length → s.byte (a + i) = bs.getD i 0) : readBytes s a bs.length = bs := by
  apply List.ext_getElem
  · simp [readBytes]
  · intro i h1 h2
    have := h i h2
    rw [List.getD_eq_getElem?_getD, List.getElem?_eq_getElem h2, Option.getD_some] at this
    simp [readBytes, this]

theorem readBytes_congr (s s' : State) (a n : Nat)
    (h : ∀ x, a ≤ x → x < a + n → s'.byte x = s.byte x) : readBytes s' a n = readBytes s a n := by
  unfold readBytes
  apply List.map_congr_left
  intro x hx
  rw [List.mem_range'_1] at hx
  exact h x hx.1 hx.2

theorem getD_replicate (n i : Nat) (v : UInt8) (h : i < n) : (List.replicate n v).getD i 0 = v := by
  simp [List.getD_eq_getElem?_getD, h]

/-- a live guarded allocation whose user pages currently have protection `q` -/
structure Live (s : State) (base size : UInt64) (q : Perm) : Prop where
  geo : Geo s base size
  hdr : ∀ x, base.toNat ≤ x → x < base.toNat + s.pageSize.toNat → permA s x = .ro
  g1 : ∀ x, base.toNat + s.pageSize.toNat ≤ x → x < base.toNat + 2 * s.pageSize.toNat → permA s x = .none
  usr : ∀ x, base.toNat + 2 * s.pageSize.toNat ≤ x →
    x < base.toNat + 2 * s.pageSize.toNat + (R s.pageSize size).toNat → permA s x = q
  g2 : ∀ x, base.toNat + 2 * s.pageSize.toNat + (R s.pageSize size).toNat ≤ x →
    x < base.toNat + 3 * s.pageSize.toNat + (R s.pageSize size).toNat → permA s x = .none
  hsz : readBytes s base.toNat 8 = toLE 8 (R s.pageSize size).toNat
  qok : q ≠ .unmapped

theorem sizeMaxSub_eq (x : UInt64) : sizeMaxSub x = SIZE_MAX - x := by
  have := x.toNat_lt
  rw [← UInt64.toNat_inj, sizeMaxSub, UInt64.toNat_not,
    UInt64.toNat_sub_of_le _ _ (UInt64.le_iff_toNat_le.mpr (by show _ ≤ 2 ^ 64 - 1; omega))]
  show UInt64.size - 1 - _ = 2 ^ 64 - 1 - _
  simp only [UInt64.size]

theorem guard_false (s : State) (size : UInt64) (hlo : 32 ≤ s.pageSize.toNat) (hhi : s.pageSize.toNat ≤ 2 ^ 30)
    (hb : size.toNat < 2 ^ 64 - 1 - 5 * s.pageSize.toNat) : ¬ size ≥ sizeMaxSub (s.pageSize * 5) := by
  have h5 : (s.pageSize * 5).toNat = 5 * s.pageSize.toNat := by
    rw [UInt64.toNat_mul]; show (s.pageSize.toNat * 5) % 2 ^ 64 = _; omega
  have hthr : (sizeMaxSub (s.pageSize * 5)).toNat = 2 ^ 64 - 1 - 5 * s.pageSize.toNat := by
    rw [sizeMaxSub, UInt64.toNat_not, h5]
  show ¬ sizeMaxSub (s.pageSize * 5) ≤ size
  rw [UInt64.le_iff_toNat_le, hthr]; omega

theorem misuse_false (pg : UInt64) (hlo : 32 ≤ pg.toNat) : (pg ≤ 16 || pg < 8) = false := by
  have a : ¬ pg ≤ 16 := by rw [UInt64.le_iff_toNat_le]; show ¬ pg.toNat ≤ 16; omega
  have b : ¬ pg < 8 := by rw [UInt64.lt_iff_toNat_lt]; show ¬ pg.toNat < 8; omega
  simp [a, b]

theorem unprot_congr (s s' : State) (h : s'.pageSize = s.pageSize) (ptr : UInt64) :
    _unprotected_ptr_from_user_ptr s' ptr = _unprotected_ptr_from_user_ptr s ptr := by
  unfold _unprotected_ptr_from_user_ptr; rw [h]

/-- `_sodium_malloc` on an accepted request with a successful mmap -/
theorem _malloc_ok (s : State) (base size : UInt64) (g : Geo s base size) :
    ∃ s', _sodium_malloc s (some base) size = .ok (s', userPtr s.pageSize base size) ∧
      Live s' base size .rw ∧ s'.pageSize = s.pageSize ∧ s'.canary = s.canary ∧ s'.errno = s.errno ∧
      s'.log = s.log ++ [.mmap (T s.pageSize size) base,
        .mprotect (base + s.pageSize) s.pageSize .none,
        .mprotect (base + s.pageSize * 2 + R s.pageSize size) s.pageSize .none,
        .mlock (base + s.pageSize * 2) (R s.pageSize size),
        .mprotect base s.pageSize .ro] ∧
      (∀ x, ¬ (base.toNat ≤ x ∧ x < base.toNat + 3 * s.pageSize.toNat + (R s.pageSize size).toNat) →
        permA s' x = permA s x) ∧
      (∀ x, s'.byte x =
        if base.toNat ≤ x ∧ x < base.toNat + 8 then (toLE 8 (R s.pageSize size).toNat).getD (x - base.toNat) 0
        else if (canPtr s.pageSize base size).toNat ≤ x ∧ x < (canPtr s.pageSize base size).toNat + 16
          then s.canary.getD (x - (canPtr s.pageSize base size).toNat) 0
        else s.byte x) := by
  have g' := g
  obtain ⟨⟨k, hk5, hk30, hpg⟩, hcan, hb, hal, hpos, hfit⟩ := g
  obtain ⟨hlo, hhi, r0, r1, r2, h2, h3, h4, h5, h6, h7, h8, h9⟩ :=
    geo_facts s.pageSize size base k hk5 hk30 hpg hb hfit
  have hP : 0 < s.pageSize.toNat := by omega
  have hb0 : base ≠ 0 := by
    intro h; rw [h] at hpos; exact Nat.lt_irrefl _ hpos
  obtain ⟨d4, ps4, c4, e4, l4, p4⟩ := st4_spec s base size g'
  have hcp : (canPtr s.pageSize base size).toNat =
      base.toNat + 2 * s.pageSize.toNat + (R s.pageSize size).toNat - 16 - size.toNat := h7
  rw [malloc_unfold s base size (guard_false s size hlo hhi hb) (misuse_false _ hlo) hb0]
  generalize st4 s base size = t4 at d4 ps4 c4 e4 l4 p4 ⊢
  -- the canary
  rw [c4, List.take_of_length_le (by omega)]
  unfold memcpy
  rw [storeBytes_ok s.canary t4 (canPtr s.pageSize base size)
    (fun x hx1 hx2 => by rw [p4 x, if_neg (by omega), if_neg (by omega), if_pos (by omega)]) (by omega)]
  simp only
  -- the header
  have hl8 := toLE_length 8 (R s.pageSize size).toNat
  rw [storeBytes_ok (toLE 8 (R s.pageSize size).toNat) _ base
    (fun x hx1 hx2 => by
      show permA t4 x = _
      rw [p4 x, if_neg (by omega), if_neg (by omega), if_pos (by omega)]) (by omega)]
  simp only
  -- the header page becomes read-only
  generalize hs6 : ({ t4 with data := writeBytes (writeBytes t4.data
    (canPtr s.pageSize base size).toNat s.canary) base.toNat (toLE 8 (R s.pageSize size).toNat) } : State) = s6
  have e6 : s6.pageSize = s.pageSize := by rw [← hs6]; exact ps4
  have p6 : ∀ x, permA s6 x = permA t4 x := by intro x; rw [← hs6]; simp only [permA, State.perm]
  have f7 := mprotect_frame s6 base s.pageSize .ro
  have p7 := (mprotect_ok' s6 s.pageSize e6 base s.pageSize .ro hP hal (Nat.dvd_refl _)
    (fun x hx1 hx2 => by
      rw [p6 x, p4 x, if_neg (by omega), if_neg (by omega), if_pos (by omega)]; decide)).2
  have e7 : (sys_mprotect s6 base s.pageSize .ro).1.pageSize = s.pageSize := f7.2.1.trans e6
  rw [unprot_congr s _ e7, unprot_from_user s size base k hk5 hk30 hpg hb hfit hal hpos]
  simp only [ne_eq, not_true_eq_false, if_false]
  refine ⟨_, rfl, ⟨?_, ?_, ?_, ?_, ?_, ?_, by decide⟩, e7, ?_, ?_, ?_, ?_, ?_⟩
  · exact g'.congr e7 (f7.2.2.1.trans (by rw [← hs6]; exact c4))
  · intro x hx1 hx2
    rw [e7] at hx2
    rw [p7 x, if_pos ⟨hx1, hx2⟩]
  · intro x hx1 hx2
    rw [e7] at hx1 hx2
    rw [p7 x, if_neg (by omega), p6 x, p4 x, if_pos ⟨hx1, hx2⟩]
  · intro x hx1 hx2
    rw [e7] at hx1 hx2
    rw [p7 x, if_neg (by omega), p6 x, p4 x, if_neg (by omega), if_neg (by omega), if_pos (by omega)]
  · intro x hx1 hx2
    rw [e7] at hx1 hx2
    rw [p7 x, if_neg (by omega), p6 x, p4 x, if_neg (by omega), if_pos ⟨hx1, hx2⟩]
  · rw [e7, ← hl8]
    apply readBytes_eq
    intro i hi
    show (sys_mprotect s6 base s.pageSize .ro).1.data.getD (base.toNat + i) 0 = _
    rw [f7.1, ← hs6]
    show (writeBytes _ _ _).getD _ 0 = _
    rw [getD_writeBytes, if_pos (by omega), Nat.add_sub_cancel_left]
  · exact f7.2.2.1.trans (by rw [← hs6]; exact c4)
  · exact f7.2.2.2.1.trans (by rw [← hs6]; exact e4)
  · rw [f7.2.2.2.2, ← hs6]
    show t4.log ++ _ = _
    rw [l4]; simp
  · intro x hx
    rw [p7 x, if_neg (by omega), p6 x, p4 x, if_neg (by omega), if_neg (by omega), if_neg (by omega)]
  · intro x
    show (sys_mprotect s6 base s.pageSize .ro).1.data.getD x 0 = _
    rw [f7.1, ← hs6]
    show (writeBytes _ _ _).getD _ 0 = _
    rw [getD_writeBytes, getD_writeBytes, hl8, d4, hcan]
    rfl

end Sodium.AllocMemP
