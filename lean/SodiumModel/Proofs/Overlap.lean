import SodiumModel.Model.Overlap
import SodiumModel.Proofs.Aead
/-
  Helper lemmas for C13: the flat-memory algebra (read/write/frame), the exactness of the
  `uintptr_t` distance test, chunked stream XOR = whole-region stream XOR, and the bodies of
  crypto_secretbox_detached / _open_detached after the (possible) memmove.
-/
open Sodium Sodium.Model Sodium.Model.Aead Sodium.Model.Overlap
namespace Sodium.OverlapP

/-! ### read / write -/

@[simp] theorem length_read (mem : Mem) (off len : Nat) : (read mem off len).length = len := by
  simp [Overlap.read]

theorem getElem_read (mem : Mem) (off len i : Nat) (h : i < (read mem off len).length) :
    (read mem off len)[i] = mem (off + i) := by
  simp [Overlap.read]

@[simp] theorem read_zero (mem : Mem) (off : Nat) : read mem off 0 = [] := by simp [Overlap.read]

theorem read_append (mem : Mem) (off a b : Nat) :
    read mem off (a + b) = read mem off a ++ read mem (off + a) b := by
  apply List.ext_getElem
  · simp
  · intro i h1 h2
    rw [getElem_read, List.getElem_append]
    split
    · rw [getElem_read]
    · rw [getElem_read]; congr 1; simp at *; omega

theorem take_read (mem : Mem) (off len a : Nat) (h : a ≤ len) :
    (read mem off len).take a = read mem off a := by
  obtain ⟨b, rfl⟩ : ∃ b, len = a + b := ⟨len - a, by omega⟩
  rw [read_append, List.take_left' (length_read ..)]

theorem drop_read (mem : Mem) (off len a : Nat) (h : a ≤ len) :
    (read mem off len).drop a = read mem (off + a) (len - a) := by
  obtain ⟨b, rfl⟩ : ∃ b, len = a + b := ⟨len - a, by omega⟩
  rw [read_append, List.drop_left' (length_read ..)]
  congr 1; omega

theorem write_of_lt (mem : Mem) (off : Nat) (bs : Bytes) (a : Nat) (h : a < off) :
    write mem off bs a = mem a := by
  simp [Overlap.write, h]

theorem write_of_ge (mem : Mem) (off : Nat) (bs : Bytes) (a : Nat) (h : off + bs.length ≤ a) :
    write mem off bs a = mem a := by
  have h1 : ¬ a < off := by omega
  have h2 : bs.length ≤ a - off := by omega
  simp [Overlap.write, h1, h2]

/-- a store changes nothing outside `[off, off + |bs|)` -/
theorem write_outside (mem : Mem) (off : Nat) (bs : Bytes) (a : Nat) (h : a < off ∨ off + bs.length ≤ a) :
    write mem off bs a = mem a := by
  rcases h with h | h
  · exact write_of_lt _ _ _ _ h
  · exact write_of_ge _ _ _ _ h

theorem write_inside (mem : Mem) (off : Nat) (bs : Bytes) (a : Nat) (h1 : off ≤ a) (h2 : a - off < bs.length) :
    write mem off bs a = bs[a - off] := by
  have : ¬ a < off := by omega
  simp [Overlap.write, this, h2]

@[simp] theorem write_nil (mem : Mem) (off : Nat) : write mem off [] = mem := by
  funext a; simp [Overlap.write]

/-- reading back what was stored -/
theorem read_write_same (mem : Mem) (off : Nat) (bs : Bytes) (len : Nat) (h : len = bs.length) :
    read (write mem off bs) off len = bs := by
  subst h
  apply List.ext_getElem
  · simp
  · intro i h1 h2
    rw [getElem_read, write_inside _ _ _ _ (by omega) (by simp at h1; omega)]
    congr 1; omega

/-- frame: a store does not change a disjoint region -/
theorem read_write_disj (mem : Mem) (off : Nat) (bs : Bytes) (off' len : Nat)
    (h : off' + len ≤ off ∨ off + bs.length ≤ off') :
    read (write mem off bs) off' len = read mem off' len := by
  apply List.ext_getElem
  · simp
  · intro i h1 h2
    rw [getElem_read, getElem_read]
    simp at h1
    exact write_outside _ _ _ _ (by omega)

/-- two consecutive stores are one store -/
theorem write_write_adj (mem : Mem) (off : Nat) (a b : Bytes) :
    write (write mem off a) (off + a.length) b = write mem off (a ++ b) := by
  funext x
  by_cases h1 : x < off
  · rw [write_of_lt _ _ _ _ (by omega), write_of_lt _ _ _ _ h1, write_of_lt _ _ _ _ h1]
  · by_cases h2 : x < off + a.length
    · rw [write_of_lt _ _ _ _ h2, write_inside _ _ _ _ (by omega) (by omega),
        write_inside _ _ _ _ (by omega) (by simp; omega), List.getElem_append_left]
    · by_cases h3 : x < off + a.length + b.length
      · rw [write_inside _ _ _ _ (by omega) (by omega),
          write_inside _ _ _ _ (by omega) (by simp; omega), List.getElem_append_right (by omega)]
        congr 1; omega
      · rw [write_of_ge _ _ _ _ (by omega), write_of_ge _ _ _ _ (by omega),
          write_of_ge _ _ _ _ (by simp; omega)]

/-! ### the distance test -/

theorem distTest_eq (c m mlen : Nat) (hc : c < 2 ^ 64) (hm : m < 2 ^ 64) (hl : mlen < 2 ^ 64) :
    distTest c m mlen = true ↔ (m < c ∧ c - m < mlen) ∨ (c < m ∧ m - c < mlen) := by
  have e1 : (UInt64.ofNat c).toNat = c := by simp; omega
  have e2 : (UInt64.ofNat m).toNat = m := by simp; omega
  have e3 : (UInt64.ofNat mlen).toNat = mlen := by simp; omega
  simp only [distTest, Bool.or_eq_true, Bool.and_eq_true, decide_eq_true_eq, gt_iff_lt,
    UInt64.lt_iff_toNat_lt, UInt64.toNat_sub, e1, e2, e3]
  constructor
  · rintro (⟨h1, h2⟩ | ⟨h1, h2⟩)
    · left; refine ⟨h1, ?_⟩
      have : (2 ^ 64 - m + c) % 2 ^ 64 = c - m := by omega
      omega
    · right; refine ⟨h1, ?_⟩
      have : (2 ^ 64 - c + m) % 2 ^ 64 = m - c := by omega
      omega
  · rintro (⟨h1, h2⟩ | ⟨h1, h2⟩)
    · left; refine ⟨h1, ?_⟩
      have : (2 ^ 64 - m + c) % 2 ^ 64 = c - m := by omega
      omega
    · right; refine ⟨h1, ?_⟩
      have : (2 ^ 64 - c + m) % 2 ^ 64 = m - c := by omega
      omega

/-! ### chunked stream XOR -/

theorem xorChunks_eq : ∀ (sizes : List Nat) (mem : Mem) (c m : Nat) (ks : Bytes),
    (c ≤ m ∨ m + sizes.sum ≤ c) → sizes.sum ≤ ks.length →
    xorChunks mem c m ks sizes = write mem c (xorBytes (read mem m sizes.sum) ks)
  | [], mem, c, m, ks, _, _ => by simp [xorChunks]
  | s :: ss, mem, c, m, ks, h, hk => by
    simp only [List.sum_cons] at h hk
    have hX : (xorBytes (read mem m s) (ks.take s)).length = s := by
      simp [aead_xorBytes_length]; omega
    rw [xorChunks, xorChunks_eq ss _ _ _ _ (by omega) (by simp; omega),
      read_write_disj _ _ _ _ _ (by rw [hX]; omega)]
    conv => lhs; rw [← hX]
    rw [hX]
    have := write_write_adj mem c (xorBytes (read mem m s) (ks.take s))
      (xorBytes (read mem (m + s) ss.sum) (ks.drop s))
    rw [hX] at this
    rw [this, ← aead_xorBytes_append _ _ _ _ (by simp; omega), ← read_append, List.take_append_drop,
      List.sum_cons]

/-! ### `block0` staging: the unspecified tail of `block0` does not matter -/

theorem blk_key (a ks : Bytes) : (xorBytes (zeros 32 ++ a) ks).take 32 = ks.take 32 := by
  rw [xorBytes_take, List.take_left' (zeros_length 32), xorBytes_zeros, List.take_take]
  simp

theorem blk_body (a z ks : Bytes) :
    ((xorBytes (zeros 32 ++ a ++ z) ks).drop 32).take a.length = xorBytes a ((ks.drop 32).take a.length) := by
  rw [List.append_assoc, aead_xorBytes_drop, List.drop_left' (zeros_length 32), xorBytes_take,
    List.take_left' rfl]

/-! ### crypto_secretbox_detached after the distance test -/

/-- the value-level function with subkey and stream nonce made explicit -/
def sbCoreV (P : Prims) (subkey nonce m : Bytes) : Bytes × Bytes :=
  let mlen0 := min m.length 32
  let block0 := xorBytes (zeros 32 ++ m.take mlen0 ++ zeros (32 - mlen0)) (P.ks subkey nonce 0 64)
  let c0 := (block0.drop 32).take mlen0
  let c1 := if m.length > mlen0 then xorBytes (m.drop mlen0) (P.ks subkey nonce 1 (m.length - mlen0)) else []
  (c0 ++ c1, P.mac (block0.take 32) (c0 ++ c1))

theorem secretboxDetached_core (P : Prims) (m n k : Bytes) :
    Aead.secretboxDetached P m n k = sbCoreV P (sbSubkey P n k) (sbNonce n) m := rfl

/-- the rest of crypto_secretbox_detached, `m1`/`mem1` = message pointer / memory after the `if` -/
def sbBody (P : Prims) (stk subkey : Bytes) (mem1 : Mem) (c mac m1 mlen n : Nat) : Option Mem :=
  let mlen0 := if mlen > 32 then 32 else mlen
  let block0 := zeros 32 ++ read mem1 m1 mlen0 ++ stk.drop (32 + mlen0)
  let block0 := xorBytes block0 (P.ks subkey (read mem1 (n + 16) 8) 0 64)
  let polykey := block0.take 32
  let mem2 := write mem1 c ((block0.drop 32).take mlen0)
  let r := if mlen > mlen0 then
      streamXor mem2 (c + mlen0) (m1 + mlen0) (mlen - mlen0) (P.ks subkey (read mem2 (n + 16) 8) 1 (mlen - mlen0))
    else some mem2
  r.map fun mem3 => write mem3 mac (P.mac polykey (read mem3 c mlen))

theorem secretboxDetached_body (P : Prims) (stk : Bytes) (mem : Mem) (c mac m mlen n k : Nat) :
    Overlap.secretboxDetached P stk mem c mac m mlen n k =
      sbBody P stk (P.hcore (read mem n 16) (read mem k 32))
        (if distTest c m mlen then memmove mem c m mlen else mem) c mac
        (if distTest c m mlen then c else m) mlen n := rfl

theorem mlen0_eq (mlen : Nat) : (if mlen > 32 then 32 else mlen) = min mlen 32 := by
  split <;> omega

theorem sbBody_eq (P : Prims) (hks : ∀ k n ic len, (P.ks k n ic len).length = len)
    (stk subkey : Bytes) (mem1 : Mem) (c mac m1 mlen n : Nat)
    (hm1 : m1 = c ∨ c + mlen ≤ m1 ∨ m1 + mlen ≤ c)
    (hn : n + 24 ≤ c ∨ c + mlen ≤ n + 16) :
    sbBody P stk subkey mem1 c mac m1 mlen n =
      some (write (write mem1 c (sbCoreV P subkey (read mem1 (n + 16) 8) (read mem1 m1 mlen)).1) mac
        (sbCoreV P subkey (read mem1 (n + 16) 8) (read mem1 m1 mlen)).2) := by
  simp only [sbBody, sbCoreV, mlen0_eq, length_read]
  generalize hl0 : min mlen 32 = l0
  have h1 : l0 ≤ 32 := by omega
  have h2 : l0 ≤ mlen := by omega
  generalize hnonce : read mem1 (n + 16) 8 = nonce
  generalize hKS : P.ks subkey nonce 0 64 = KS
  have hKSl : KS.length = 64 := by rw [← hKS]; exact hks ..
  have hA : (read mem1 m1 l0).length = l0 := length_read ..
  -- both staged blocks give the same key and the same first part
  have hk1 := blk_key (read mem1 m1 l0 ++ stk.drop (32 + l0)) KS
  have hk2 := blk_key (read mem1 m1 l0 ++ zeros (32 - l0)) KS
  have hb1 := blk_body (read mem1 m1 l0) (stk.drop (32 + l0)) KS
  have hb2 := blk_body (read mem1 m1 l0) (zeros (32 - l0)) KS
  rw [hA] at hb1 hb2
  rw [← List.append_assoc] at hk1 hk2
  rw [take_read _ _ _ _ h2, hk1, hk2, hb1, hb2]
  generalize hc0 : xorBytes (read mem1 m1 l0) ((KS.drop 32).take l0) = c0
  have hc0l : c0.length = l0 := by
    rw [← hc0]; simp [aead_xorBytes_length, hKSl]; omega
  by_cases hgt : mlen > l0
  · rw [if_pos hgt, if_pos hgt]
    rw [read_write_disj _ _ _ _ _ (by rw [hc0l]; omega), hnonce]
    generalize hKS1 : P.ks subkey nonce 1 (mlen - l0) = KS1
    have hcond : c + l0 = m1 + l0 ∨ c + l0 + (mlen - l0) ≤ m1 + l0 ∨ m1 + l0 + (mlen - l0) ≤ c + l0 := by omega
    simp only [streamXor, if_pos hcond, Option.map_some]
    rw [read_write_disj _ _ _ _ _ (by rw [hc0l]; omega), drop_read _ _ _ _ h2]
    have := write_write_adj mem1 c c0 (xorBytes (read mem1 (m1 + l0) (mlen - l0)) KS1)
    rw [hc0l] at this
    rw [this, read_write_same _ _ _ _ (by simp [aead_xorBytes_length, hc0l, ← hKS1, hks]; omega)]
  · rw [if_neg hgt, if_neg hgt]
    simp only [Option.map_some, List.append_nil]
    rw [read_write_same _ _ _ _ (by omega)]

/-- storing twice at the same place: the second store wins -/
theorem write_write_same (mem : Mem) (off : Nat) (a b : Bytes) (h : a.length = b.length) :
    write (write mem off a) off b = write mem off b := by
  funext x
  by_cases h1 : x < off
  · rw [write_of_lt _ _ _ _ h1, write_of_lt _ _ _ _ h1, write_of_lt _ _ _ _ h1]
  · by_cases h2 : x < off + b.length
    · rw [write_inside _ _ _ _ (by omega) (by omega), write_inside _ _ _ _ (by omega) (by omega)]
    · rw [write_of_ge _ _ _ _ (by omega), write_of_ge _ _ _ _ (by omega), write_of_ge _ _ _ _ (by omega)]

theorem sbCoreV_fst_length (P : Prims) (hks : ∀ k n ic len, (P.ks k n ic len).length = len)
    (subkey nonce m : Bytes) : (sbCoreV P subkey nonce m).1.length = m.length := by
  simp only [sbCoreV]
  split <;> simp [aead_xorBytes_length, hks] <;> omega

theorem nonce_read (mem : Mem) (n : Nat) : sbNonce (read mem n 24) = read mem (n + 16) 8 := by
  rw [sbNonce, drop_read _ _ _ _ (by omega), take_read _ _ _ _ (by omega)]

theorem subkey_read (P : Prims) (mem : Mem) (n : Nat) (kb : Bytes) :
    sbSubkey P (read mem n 24) kb = P.hcore (read mem n 16) kb := by
  rw [sbSubkey, take_read _ _ _ _ (by omega)]

/-- crypto_secretbox_detached on memory = two stores of the value-level result -/
theorem secretboxDetached_eq (P : Prims) (hks : ∀ k n ic len, (P.ks k n ic len).length = len)
    (stk : Bytes) (mem : Mem) (c mac m mlen n k : Nat)
    (hc : c + mlen < 2 ^ 64) (hm : m + mlen < 2 ^ 64)
    (hn : n + 24 ≤ c ∨ c + mlen ≤ n + 16) :
    Overlap.secretboxDetached P stk mem c mac m mlen n k =
      some (write (write mem c (Aead.secretboxDetached P (read mem m mlen) (read mem n 24) (read mem k 32)).1) mac
        (Aead.secretboxDetached P (read mem m mlen) (read mem n 24) (read mem k 32)).2) := by
  rw [secretboxDetached_body, secretboxDetached_core, nonce_read, subkey_read]
  have hd := distTest_eq c m mlen (by omega) (by omega) (by omega)
  by_cases hov : distTest c m mlen = true
  · have hov' := hd.mp hov
    rw [if_pos hov, if_pos hov, sbBody_eq P hks _ _ _ _ _ _ _ _ (Or.inl rfl) hn]
    simp only [memmove]
    rw [read_write_same _ _ _ _ (by simp), read_write_disj _ _ _ _ _ (by simp; omega),
      write_write_same _ _ _ _ (by rw [sbCoreV_fst_length P hks])]
  · have hov' : ¬ ((m < c ∧ c - m < mlen) ∨ (c < m ∧ m - c < mlen)) := fun h => hov (hd.mpr h)
    rw [if_neg hov, if_neg hov, sbBody_eq P hks _ _ _ _ _ _ _ _ (by omega) hn]

/-! ### crypto_secretbox_open_detached -/

/-- the end of crypto_secretbox_open_detached: `m0` = the staged first part, `c1`/`mem1` = ciphertext
    pointer / memory after the `if` -/
def obTail (P : Prims) (subkey m0 : Bytes) (mem1 : Mem) (m c1 clen n : Nat) : Option Mem :=
  let mlen0 := if clen > 32 then 32 else clen
  let mem2 := write mem1 m m0
  if clen > mlen0 then
    streamXor mem2 (m + mlen0) (c1 + mlen0) (clen - mlen0) (P.ks subkey (read mem2 (n + 16) 8) 1 (clen - mlen0))
  else some mem2

theorem secretboxOpenDetached_body (P : Prims) (stk : Bytes) (mem : Mem) (m c mac clen n k : Nat) :
    Overlap.secretboxOpenDetached P stk mem m c mac clen n k =
      (let subkey := P.hcore (read mem n 16) (read mem k 32)
       let mlen0 := if clen > 32 then 32 else clen
       let block0 := xorBytes (zeros 32 ++ read mem c mlen0 ++ stk.drop (32 + mlen0))
         (P.ks subkey (read mem (n + 16) 8) 0 64)
       if Sodium.Model.verify_n_sse2 1 (read mem mac 16) (P.mac (block0.take 32) (read mem c clen)) ≠ 0 then (-1, some mem)
       else if m = 0 then (0, some mem)
       else (0, obTail P subkey ((block0.drop 32).take mlen0)
          (if distTest c m clen then memmove mem m c clen else mem) m
          (if distTest c m clen then m else c) clen n)) := rfl

theorem obTail_eq (P : Prims) (subkey m0 : Bytes) (mem1 : Mem) (m c1 clen n : Nat)
    (hm0 : m0.length = min clen 32)
    (hc1 : c1 = m ∨ c1 + clen ≤ m ∨ m + clen ≤ c1)
    (hn : clen ≤ 32 ∨ n + 24 ≤ m ∨ m + clen ≤ n + 16) :
    obTail P subkey m0 mem1 m c1 clen n =
      some (write mem1 m (m0 ++ if clen > min clen 32 then
        xorBytes ((read mem1 c1 clen).drop (min clen 32)) (P.ks subkey (read mem1 (n + 16) 8) 1 (clen - min clen 32))
        else [])) := by
  simp only [obTail, mlen0_eq]
  generalize hl0 : min clen 32 = l0 at hm0 ⊢
  have h2 : l0 ≤ clen := by omega
  by_cases hgt : clen > l0
  · rw [if_pos hgt, if_pos hgt]
    rw [read_write_disj _ _ _ _ _ (by rw [hm0]; omega)]
    have hcond : m + l0 = c1 + l0 ∨ m + l0 + (clen - l0) ≤ c1 + l0 ∨ c1 + l0 + (clen - l0) ≤ m + l0 := by omega
    simp only [streamXor, if_pos hcond]
    rw [read_write_disj _ _ _ _ _ (by rw [hm0]; omega), drop_read _ _ _ _ h2]
    have := write_write_adj mem1 m m0
      (xorBytes (read mem1 (c1 + l0) (clen - l0)) (P.ks subkey (read mem1 (n + 16) 8) 1 (clen - l0)))
    rw [hm0] at this
    rw [this]
  · rw [if_neg hgt, if_neg hgt, List.append_nil]

/-- crypto_secretbox_open_detached on memory = return value of the value-level function, and one
    store of its output (or nothing) -/
theorem secretboxOpenDetached_eq (P : Prims) (hks : ∀ k n ic len, (P.ks k n ic len).length = len)
    (stk : Bytes) (mem : Mem) (m c mac clen n k : Nat)
    (hc : c + clen < 2 ^ 64) (hm : m + clen < 2 ^ 64)
    (hn : clen ≤ 32 ∨ n + 24 ≤ m ∨ m + clen ≤ n + 16) :
    Overlap.secretboxOpenDetached P stk mem m c mac clen n k =
      ((Aead.secretboxOpenDetached P (decide (m ≠ 0)) (read mem c clen) (read mem mac 16) (read mem n 24) (read mem k 32)).rc,
       some (match (Aead.secretboxOpenDetached P (decide (m ≠ 0)) (read mem c clen) (read mem mac 16)
                (read mem n 24) (read mem k 32)).mbuf with
             | none => mem
             | some out => write mem m out)) := by
  rw [secretboxOpenDetached_body]
  simp only [Aead.secretboxOpenDetached, nonce_read, subkey_read, length_read, mlen0_eq]
  generalize hl0 : min clen 32 = l0
  have h1 : l0 ≤ 32 := by omega
  have h2 : l0 ≤ clen := by omega
  generalize hKS : P.ks (P.hcore (read mem n 16) (read mem k 32)) (read mem (n + 16) 8) 0 64 = KS
  have hKSl : KS.length = 64 := by rw [← hKS]; exact hks ..
  have hA : (read mem c l0).length = l0 := length_read ..
  have hk1 := blk_key (read mem c l0 ++ stk.drop (32 + l0)) KS
  have hk2 := blk_key (read mem c l0 ++ zeros (32 - l0)) KS
  have hb1 := blk_body (read mem c l0) (stk.drop (32 + l0)) KS
  have hb2 := blk_body (read mem c l0) (zeros (32 - l0)) KS
  rw [hA] at hb1 hb2
  rw [← List.append_assoc] at hk1 hk2
  rw [take_read _ _ _ _ h2, hk1, hk2, hb1, hb2]
  by_cases hv : Sodium.Model.verify_n_sse2 1 (read mem mac 16) (P.mac (KS.take 32) (read mem c clen)) ≠ 0
  · rw [if_pos hv, if_pos hv]
  · rw [if_neg hv, if_neg hv]
    by_cases hm0 : m = 0
    · simp [hm0]
    · rw [if_neg hm0]
      have hw : (!decide (m ≠ 0)) = false := by simp [hm0]
      rw [hw]
      simp only [Bool.false_eq_true, if_false]
      have hm0l : (xorBytes (read mem c l0) ((KS.drop 32).take l0)).length = min clen 32 := by
        simp [aead_xorBytes_length, hKSl]; omega
      have hd := distTest_eq c m clen (by omega) (by omega) (by omega)
      by_cases hov : distTest c m clen = true
      · have hov' := hd.mp hov
        rw [if_pos hov, if_pos hov, obTail_eq P _ _ _ _ _ _ _ hm0l (Or.inl rfl) hn, hl0]
        simp only [memmove]
        rw [read_write_same _ _ _ _ (by simp)]
        have hnn : read (write mem m (read mem c clen)) (n + 16) 8 = read mem (n + 16) 8 ∨ clen ≤ 32 := by
          rcases hn with hn | hn
          · exact Or.inr hn
          · exact Or.inl (read_write_disj _ _ _ _ _ (by simp; omega))
        rcases hnn with hnn | hnn
        · rw [hnn, write_write_same _ _ _ _ (by
            simp [aead_xorBytes_length, hKSl]; split <;> simp [aead_xorBytes_length, hks] <;> omega)]
        · rw [if_neg (by omega), if_neg (by omega), write_write_same _ _ _ _ (by
            simp [aead_xorBytes_length, hKSl]; omega)]
      · have hov' : ¬ ((m < c ∧ c - m < clen) ∨ (c < m ∧ m - c < clen)) := fun h => hov (hd.mpr h)
        rw [if_neg hov, if_neg hov, obTail_eq P _ _ _ _ _ _ _ hm0l (by omega) hn, hl0]

/-! ### crypto_sign_ed25519 / _open -/

theorem sign_eq (sgn : Bytes → Bytes → Bytes) (mem : Mem) (sm m mlen sk : Nat)
    (hsk : sk + 64 ≤ sm + 64 ∨ sm + 64 + mlen ≤ sk) :
    (Overlap.sign sgn mem sm m mlen sk).1 =
      write (write mem (sm + 64) (read mem m mlen)) sm (sgn (read mem m mlen) (read mem sk 64)) := by
  simp only [Overlap.sign, memmove]
  rw [read_write_same _ _ _ _ (by simp), read_write_disj _ _ _ _ _ (by simp; omega)]

theorem signOpen_eq (vfy : Bytes → Bytes → Bytes → Bool) (mem : Mem) (m sm smlen pk : Nat)
    (hs : smlen < 2 ^ 64) :
    Overlap.signOpen vfy mem m sm smlen pk =
      ((signOpenV vfy (decide (m ≠ 0)) (read mem sm smlen) (read mem pk 32)).rc,
       (signOpenV vfy (decide (m ≠ 0)) (read mem sm smlen) (read mem pk 32)).mlen,
       match (signOpenV vfy (decide (m ≠ 0)) (read mem sm smlen) (read mem pk 32)).mbuf with
       | none => mem
       | some out => write mem m out) := by
  simp only [Overlap.signOpen, signOpenV, length_read]
  by_cases h64 : smlen < 64
  · rw [if_pos (Or.inl h64), if_pos h64]
  · rw [if_neg (by omega), if_neg h64, take_read _ _ _ _ (by omega), drop_read _ _ _ _ (by omega)]
    by_cases hv : vfy (read mem sm 64) (read mem (sm + 64) (smlen - 64)) (read mem pk 32) = true
    · rw [if_pos hv, if_pos hv]
      by_cases hm : m = 0 <;> simp [hm, memmove]
    · rw [if_neg hv, if_neg hv]
      by_cases hm : m = 0 <;> simp [hm, memset, zeros]

/-! ### AEAD detached forms -/

theorem aeadEncryptDetached_eq (P : Prims) (f : Flavor) (mem : Mem) (c mac m mlen : Nat) (ad npub k : Bytes)
    (hcm : c = m ∨ c + mlen ≤ m ∨ m + mlen ≤ c)
    (hks : ∀ k n ic len, (P.ks k n ic len).length = len) :
    Overlap.aeadEncryptDetached P f mem c mac m mlen ad npub k =
      some (write (write mem c (Aead.encryptDetached P f (read mem m mlen) ad npub k).1) mac
        (Aead.encryptDetached P f (read mem m mlen) ad npub k).2) := by
  simp only [Overlap.aeadEncryptDetached, streamXor, if_pos hcm, Option.map_some, Aead.encryptDetached,
    length_read]
  rw [read_write_same _ _ _ _ (by simp [aead_xorBytes_length, hks])]

theorem aeadDecryptDetached_eq (P : Prims) (f : Flavor) (mem : Mem) (m c clen mac : Nat) (ad npub k : Bytes)
    (hcm : m = c ∨ m + clen ≤ c ∨ c + clen ≤ m) :
    Overlap.aeadDecryptDetached P f mem m c clen mac ad npub k =
      ((Aead.decryptDetached P f (decide (m ≠ 0)) (read mem c clen) (read mem mac 16) ad npub k).rc,
       some (match (Aead.decryptDetached P f (decide (m ≠ 0)) (read mem c clen) (read mem mac 16) ad npub k).mbuf with
             | none => mem
             | some out => write mem m out)) := by
  simp only [Overlap.aeadDecryptDetached, Aead.decryptDetached, length_read]
  by_cases hm : m = 0
  · simp [hm]
  · have hw : (!decide (m ≠ 0)) = false := by simp [hm]
    rw [if_neg hm, hw]
    simp only [Bool.false_eq_true, if_false]
    split
    · simp [memset, zeros]
    · simp [streamXor, if_pos hcm]

end Sodium.OverlapP
